/-
The abstract drain `Qco.Op.drainR (unitL matchStride t)` seen block by block (bit lists only, no
words): `nd_drainR_add` (splitting a drain), `nd_drainR_run` (a run in progress), `absBlock` (one
number block: code, run length, then the offsets of the run up to the batch limit) and
`nd_drainR_absBlock` (a drain from a fresh state is the first block, then the drain of the rest).
-/
import Qco.Op.NumDec
import Qco.Lemmas.Stride
import Qco.Lemmas.StreamUnit
import Qco.Lemmas.StreamDrain
namespace Qco
namespace NumDec
open Qco.Op Qco.Parser Qco.Stream

/-- the operational unit on the stride lookup -/
abbrev uS (t : Table) : PState → Parser (Nat × PState) := unitL matchStride t

theorem nd_drainR_succ_corrupt {σ : Type} (u : σ → Parser (Nat × σ)) (m : Nat) (st : σ) (s : Bits)
    (h : u st s = .corrupt) :
    drainR u (m+1) st s = ([], st, s, some .corrupt) := by
  simp only [drainR, h]

theorem nd_drainR_succ_compat {σ : Type} (u : σ → Parser (Nat × σ)) (m : Nat) (st : σ) (s : Bits)
    (h : u st s = .compat) :
    drainR u (m+1) st s = ([], st, s, some .compat) := by
  simp only [drainR, h]

theorem nd_drainR_add {σ : Type} (u : σ → Parser (Nat × σ)) (a b : Nat) (st : σ) (s : Bits) :
    drainR u (a + b) st s =
      match drainR u a st s with
      | (xs, st1, r1, none) =>
        match drainR u b st1 r1 with
        | (ys, st2, r2, why) => (xs ++ ys, st2, r2, why)
      | out => out := by
  induction a generalizing st s with
  | zero =>
    rw [Nat.zero_add, drainR_zero]
    simp only [List.nil_append]
  | succ a ih =>
    rw [show a + 1 + b = (a + b) + 1 by omega]
    cases hu : u st s with
    | ok v r =>
      obtain ⟨x, st1⟩ := v
      rw [drainR_succ_ok _ _ _ _ _ _ _ hu, drainR_succ_ok _ _ _ _ _ _ _ hu, ih]
      generalize drainR u a st1 r = D
      obtain ⟨xs, st1', r1, why⟩ := D
      cases why with
      | none =>
        simp only
        generalize drainR u b st1' r1 = E
        obtain ⟨ys, st2, r2, why2⟩ := E
        simp only [List.cons_append]
      | some e => simp only
    | insufficient =>
      rw [drainR_succ_insufficient _ _ _ _ hu, drainR_succ_insufficient _ _ _ _ hu]
    | corrupt =>
      rw [nd_drainR_succ_corrupt _ _ _ _ hu, nd_drainR_succ_corrupt _ _ _ _ hu]
    | compat =>
      rw [nd_drainR_succ_compat _ _ _ _ hu, nd_drainR_succ_compat _ _ _ _ hu]

/-- how many numbers a drain yields -/
theorem nd_drainR_length {σ : Type} (u : σ → Parser (Nat × σ)) (m : Nat) (st : σ) (s : Bits)
    (xs : List Nat) (st' : σ) (r : Bits) (why : Option Err) (h : drainR u m st s = (xs, st', r, why)) :
    (why = none → xs.length = m) ∧ (why ≠ none → xs.length < m) := by
  induction m generalizing st s xs st' r why with
  | zero =>
    rw [drainR_zero] at h
    cases h
    simp
  | succ m ih =>
    cases hu : u st s with
    | ok v r1 =>
      obtain ⟨x, st1⟩ := v
      rw [drainR_succ_ok _ _ _ _ _ _ _ hu] at h
      generalize hD : drainR u m st1 r1 = D at h
      obtain ⟨ys, st2, r2, why2⟩ := D
      obtain ⟨h1, h2⟩ := ih _ _ _ _ _ _ hD
      cases h
      simp only [List.length_cons]
      cases why2 with
      | none => have := h1 rfl; simp; omega
      | some e => have := h2 (by simp); simp; omega
    | insufficient =>
      rw [drainR_succ_insufficient _ _ _ _ hu] at h
      cases h; simp
    | corrupt =>
      rw [nd_drainR_succ_corrupt _ _ _ _ hu] at h
      cases h; simp
    | compat =>
      rw [nd_drainR_succ_compat _ _ _ _ hu] at h
      cases h; simp

/-- a run in progress: the state after the drain -/
theorem nd_drainR_run (L : Matcher) (t : Table) (p : Nat) :
    ∀ (reps R pos : Nat) (s : Bits), reps ≤ R → 1 ≤ R →
      ∀ xs st' r why, drainR (unitL L t) reps (some (p, R), pos) s = (xs, st', r, why) →
        st'.1 = (if R - xs.length = 0 then none else some (p, R - xs.length))
        ∧ (why = none ∨ why = some .insufficient) := by
  intro reps
  induction reps with
  | zero =>
    intro R pos s _ hR xs st' r why h
    rw [drainR_zero] at h
    cases h
    refine ⟨?_, Or.inl rfl⟩
    have : ¬ (R - ([] : List Nat).length = 0) := by simp only [List.length_nil]; omega
    rw [if_neg this]
    simp
  | succ reps ih =>
    intro R pos s hle hR xs st' r why h
    rcases decOffsetC_char (t.info p).r (t.info p).k s with ⟨off, ob, r', h1, _⟩ | ⟨h1, _⟩
    · have hu : unitL L t (some (p, R), pos) s =
          .ok ((t.info p).val off, (if R ≤ 1 then none else some (p, R - 1), pos + ob)) r' := by
        simp only [unitL, Parser.bind, h1, Parser.pure]
      rw [drainR_succ_ok _ _ _ _ _ _ _ hu] at h
      by_cases hR1 : R ≤ 1
      · have hreps : reps = 0 := by omega
        subst hreps
        rw [drainR_zero] at h
        cases h
        refine ⟨?_, Or.inl rfl⟩
        have : R - [(t.info p).val off].length = 0 := by simp only [List.length_singleton]; omega
        rw [if_pos this, if_pos hR1]
      · rw [if_neg hR1] at h
        generalize hD : drainR (unitL L t) reps (some (p, R - 1), pos + ob) r' = D at h
        obtain ⟨ys, st2, r2, why2⟩ := D
        obtain ⟨e1, e2⟩ := ih (R - 1) (pos + ob) r' (by omega) (by omega) _ _ _ _ hD
        cases h
        refine ⟨?_, e2⟩
        rw [e1]
        simp only [List.length_cons]
        rw [show R - (ys.length + 1) = R - 1 - ys.length by omega]
    · have hu : unitL L t (some (p, R), pos) s = .insufficient := by
        simp only [unitL, Parser.bind, h1]
      rw [drainR_succ_insufficient _ _ _ _ hu] at h
      cases h
      refine ⟨?_, Or.inr rfl⟩
      have : ¬ (R - ([] : List Nat).length = 0) := by simp only [List.length_nil]; omega
      rw [if_neg this]
      simp

/-- the header of a block after the code: the run length minus one and the bits it took -/
def absHeader (t : Table) (p : Nat) (s1 : Bits) : Res (Nat × Nat) :=
  match (t.info p).jump with
  | none => .ok (0, 0) s1
  | some j => decVarintC nEntriesBits j s1

/-- one number block from a fresh state, at most `rem` numbers: the numbers, the state, the bits
left and why it stopped; a block none of whose numbers could be decoded consumes nothing -/
def absBlock (t : Table) (rem pos : Nat) (s : Bits) : List Nat × PState × Bits × Option Err :=
  match matchStride pos t.codes s with
  | .ok p s1 =>
    match absHeader t p s1 with
    | .ok (m, vb) s2 =>
      match drainR (uS t) (min (m + 1) rem) (some (p, m + 1), pos + (t.code p).length + vb) s2 with
      | ([], _, _, why) => ([], (none, pos), s, why)
      | out => out
    | _ => ([], (none, pos), s, some .insufficient)
  | _ => ([], (none, pos), s, some .insufficient)

theorem nd_absHeader_char (t : Table) (p : Nat) (s1 : Bits) :
    (∃ m vb s2, absHeader t p s1 = .ok (m, vb) s2) ∨ absHeader t p s1 = .insufficient := by
  unfold absHeader
  cases (t.info p).jump with
  | none => exact Or.inl ⟨0, 0, s1, rfl⟩
  | some j =>
    rcases decVarintC_char nEntriesBits j s1 with ⟨v, c, r', h, _⟩ | ⟨h, _⟩
    · exact Or.inl ⟨v, c, r', h⟩
    · exact Or.inr h

/-- the fresh unit after the code and a header is the first unit of the run -/
theorem nd_contL_ok (t : Table) (pos p : Nat) (s1 : Bits) (m vb : Nat) (s2 : Bits)
    (h : absHeader t p s1 = .ok (m, vb) s2) :
    contL t pos p s1 = uS t (some (p, m + 1), pos + (t.code p).length + vb) s2 := by
  unfold absHeader at h
  unfold contL uS unitL
  cases hj : (t.info p).jump with
  | none =>
    rw [hj] at h
    cases h
    simp
  | some j =>
    rw [hj] at h
    simp only [Parser.bind, h]
    simp

theorem nd_contL_insufficient (t : Table) (pos p : Nat) (s1 : Bits)
    (h : absHeader t p s1 = .insufficient) : contL t pos p s1 = .insufficient := by
  unfold absHeader at h
  unfold contL
  cases hj : (t.info p).jump with
  | none => rw [hj] at h; cases h
  | some j =>
    rw [hj] at h
    simp only [Parser.bind, h]

/-- a drain from a fresh state is the first block, then the drain of what the block leaves -/
theorem nd_drainR_absBlock (t : Table) (hct : completeTree t.codes = true) (rem pos : Nat) (s : Bits)
    (hrem : 1 ≤ rem) :
    drainR (uS t) rem (none, pos) s =
      match absBlock t rem pos s with
      | (xs, st1, r1, none) =>
        match drainR (uS t) (rem - xs.length) st1 r1 with
        | (ys, st2, r2, why) => (xs ++ ys, st2, r2, why)
      | out => out := by
  obtain ⟨rem', rfl⟩ : ∃ r, rem = r + 1 := ⟨rem - 1, by omega⟩
  unfold absBlock
  rcases matchStride_only_insufficient pos t.codes s hct with ⟨p, s1, hm⟩ | hm
  · rcases nd_absHeader_char t p s1 with ⟨m, vb, s2, hH⟩ | hH
    · have hu : uS t (none, pos) s = uS t (some (p, m + 1), pos + (t.code p).length + vb) s2 := by
        show unitL matchStride t (none, pos) s = _
        rw [unitL_none]
        simp only [Parser.bind, hm]
        exact nd_contL_ok t pos p s1 m vb s2 hH
      rw [hm]
      simp only [hH]
      rw [show min (m + 1) (rem' + 1) = min m rem' + 1 by omega]
      cases hU : uS t (some (p, m + 1), pos + (t.code p).length + vb) s2 with
      | ok a r =>
        obtain ⟨x, st1⟩ := a
        rw [drainR_succ_ok _ _ _ _ _ _ _ (hu.trans hU), drainR_succ_ok _ _ _ _ _ _ _ hU]
        have hadd := nd_drainR_add (uS t) (min m rem') (rem' - min m rem') st1 r
        rw [show min m rem' + (rem' - min m rem') = rem' by omega] at hadd
        rw [hadd]
        have hlen := nd_drainR_length (uS t) (min m rem') st1 r
        generalize drainR (uS t) (min m rem') st1 r = D at hlen ⊢
        obtain ⟨ys, st2, r2, why⟩ := D
        cases why with
        | none =>
          have hl := (hlen _ _ _ _ rfl).1 rfl
          simp only [List.length_cons]
          rw [show rem' + 1 - (ys.length + 1) = rem' - min m rem' by omega]
          generalize drainR (uS t) (rem' - min m rem') st2 r2 = E
          obtain ⟨zs, st3, r3, why3⟩ := E
          simp only [List.cons_append]
        | some e => simp only
      | insufficient =>
        rw [drainR_succ_insufficient _ _ _ _ (hu.trans hU), drainR_succ_insufficient _ _ _ _ hU]
      | corrupt =>
        rw [nd_drainR_succ_corrupt _ _ _ _ (hu.trans hU), nd_drainR_succ_corrupt _ _ _ _ hU]
      | compat =>
        rw [nd_drainR_succ_compat _ _ _ _ (hu.trans hU), nd_drainR_succ_compat _ _ _ _ hU]
    · have hu : uS t (none, pos) s = .insufficient := by
        show unitL matchStride t (none, pos) s = _
        rw [unitL_none]
        simp only [Parser.bind, hm]
        exact nd_contL_insufficient t pos p s1 hH
      rw [hm]
      simp only [hH]
      rw [drainR_succ_insufficient _ _ _ _ hu]
  · have hu : uS t (none, pos) s = .insufficient := by
      show unitL matchStride t (none, pos) s = _
      rw [unitL_none]
      simp only [Parser.bind, hm]
    rw [hm]
    simp only
    rw [drainR_succ_insufficient _ _ _ _ hu]

end NumDec
end Qco
