/-
One number block of the literal model: what the table lookup leaves behind, the run-length varint,
and **(a)** `nd_unchecked_block_core` / `unchecked_block_eq`: with
`max_bits_read p + max_bits_overshot p` bits left at the reader position (`p` the prefix whose code
stands there) `unchecked_decompress_num_block` is `decompress_num_block`, returns `Ok`, never panics,
decodes at least one number and moves the reader by at most `max_bits_read p` bits.
-/
import Qco.Lemmas.NumDec.Offsets
import Qco.Lemmas.Tree
namespace Qco
namespace NumDec
open Qco.WB Qco.HT Qco.Op Qco.Parser Qco.Stream

/-! ### the decompressor built by `NumDecompressor::new` -/

theorem nd_mkDec_info (ub n : Nat) (ps : List Prefix) (i : Nat) (hi : i < ps.length) :
    (mkDec ub n ps).info i = dinfoOf ub ps[i] := by
  simp [Dec.info, mkDec, List.getElem?_eq_getElem hi]

theorem nd_codes_length (ps : List Prefix) : (ps.map (·.code)).length = ps.length := by simp

theorem nd_codes_get (ps : List Prefix) (i : Nat) (hi : i < ps.length) :
    (ps.map (·.code))[i]'(by simpa using hi) = ps[i].code := by simp

theorem nd_tableOf_code (ps : List Prefix) (i : Nat) (hi : i < ps.length) :
    (tableOf ps).code i = ps[i].code := by
  simp [tableOf, Table.code, List.getD_eq_getElem?_getD, hi]

/-! ### the lookup -/

/-- the reader never ends further than one word beyond the words -/
theorem nd_walk_pos (codes : List Bits) (hc : completeTree codes = true) (w : Words) (hw : w.WF) (p : Nat) :
    ∀ bf cands depth s (r : Reader), Inv codes (w.toBits.drop p) cands depth s →
      maxLen codes + 1 ≤ bf + depth → r.j ≤ 64 → r.bitIdx = p + depth →
      r.bitIdx ≤ 64 * w.ws.length + 64 →
      (searchGo w (buildRec bf (cands.map (candOf codes)) depth) depth r).2.bitIdx
        ≤ 64 * w.ws.length + 64 := by
  have hlen := hw.total_le
  intro bf
  induction bf with
  | zero =>
    intro cands depth s r hinv hf
    exfalso; have := hinv.depth_le; omega
  | succ bf ih =>
    intro cands depth s r hinv hf hj hr hbound
    rcases buildRec_shape codes hc _ bf cands depth s hinv with
      ⟨i, rfl, hlen', hb⟩ | ⟨children, h2, h1, h6, hM, hb, hch⟩
    · rw [hb, searchGo_leaf]
      obtain ⟨r', e, hpos, _⟩ := leafArm_ok i _ depth p r hlen' hr
      rw [e]
      show r'.bitIdx ≤ _
      omega
    · rw [hb]
      have hnext := inv_step codes _ cands depth s _ hinv hM
      have hs_eq : s = w.toBits.drop r.bitIdx := by
        rw [hinv.s_eq, List.drop_drop, hr]
      generalize tslOf codes cands depth = tsl at *
      by_cases hend : w.total ≤ r.bitIdx
      · rw [searchGo_node_err w tsl children depth r r _ (rpti_end hend)]
        exact hbound
      obtain ⟨bitsRead, r', hrd, hj', hcase⟩ := rpti_spec hw hj (by omega : r.bitIdx < w.total) h1
        (by omega : tsl ≤ 64)
      rw [← hs_eq] at hrd
      have hchild := hch (paddedOf s tsl) (paddedOf_length s tsl)
      have hpos' : r'.bitIdx ≤ 64 * w.ws.length + 64 := by
        split at hcase
        · omega
        · split at hcase
          · omega
          · omega
      by_cases hne : bitsRead ≠ tsl
      · obtain ⟨bf', rfl⟩ : ∃ bf', bf = bf' + 1 := ⟨bf - 1, by omega⟩
        rcases buildRec_shape codes hc _ bf' _ (depth + tsl) (s.drop tsl) hnext with
          ⟨i, _, _, hbi⟩ | ⟨ch', _, _, _, _, hbi, _⟩
        · rw [hbi] at hchild
          rw [searchGo_node_short_leaf w tsl children depth r r' bitsRead _ i _ hrd hne hchild]
          split <;> exact hpos'
        · rw [hbi] at hchild
          rw [searchGo_node_short_node w tsl children depth r r' bitsRead _ _ _ hrd hne hchild]
          exact hpos'
      · have hfull : bitsRead = tsl := by omega
        subst hfull
        have hpos : r'.bitIdx = r.bitIdx + bitsRead := by
          split at hcase
          · omega
          · split at hcase
            · omega
            · exact hcase.2
        rw [searchGo_node_full w bitsRead children depth r r' _ _ hrd hchild]
        exact ih _ _ _ r' hnext (by omega) hj' (by omega) hpos'

/-- whatever the lookup answers, the reader stays normalised and at most one word beyond the words -/
theorem nd_search_bounds (codes : List Bits) (hc : completeTree codes = true) (w : Words) (hw : w.WF)
    (r : Reader) (hr : RInv w r) :
    (search (build codes) w r).2.j ≤ 64
      ∧ (search (build codes) w r).2.bitIdx ≤ 64 * w.ws.length + 64 := by
  have hlen := hw.total_le
  have hpl := hr.pos_le
  rw [build_eq hc]
  exact ⟨walk_j codes hc w hw r.bitIdx (maxLen codes + 1) (List.range codes.length) 0 _ r
      (inv_init codes _) (by omega) hr.j_le rfl,
    nd_walk_pos codes hc w hw r.bitIdx (maxLen codes + 1) (List.range codes.length) 0 _ r
      (inv_init codes _) (by omega) hr.j_le rfl (by omega)⟩

/-- **the checked lookup, by case**: either `matchStride` finds code `i` and so does the literal
lookup, leaving a good reader right after the code; or `matchStride` is `insufficient` and the
literal lookup reports `InsufficientData` or parks the reader beyond the data (normalised, at most
one word beyond the words). -/
theorem nd_search_char (codes : List Bits) (hc : completeTree codes = true) (w : Words) (hw : w.WF)
    (r : Reader) (hr : RInv w r) :
    (∃ i r1, ∃ hi : i < codes.length,
        matchStride r.bitIdx codes (w.toBits.drop r.bitIdx) = .ok i (w.toBits.drop r1.bitIdx)
        ∧ search (build codes) w r = (.ok i, r1) ∧ r1.bitIdx = r.bitIdx + codes[i].length ∧ RInv w r1)
    ∨ (matchStride r.bitIdx codes (w.toBits.drop r.bitIdx) = .insufficient
        ∧ (∃ r1, search (build codes) w r = (.err "InsufficientData", r1)
            ∨ ∃ i, search (build codes) w r = (.ok i, r1) ∧ w.total < r1.bitIdx ∧ r1.j ≤ 64
                ∧ r1.bitIdx ≤ 64 * w.ws.length + 64)) := by
  obtain ⟨h1, h2, _, _, h5⟩ := search_spec codes hc w hw r hr
  obtain ⟨hbj, hbp⟩ := nd_search_bounds codes hc w hw r hr
  rcases h5 with ⟨i, rest, hm⟩ | hm
  · left
    obtain ⟨e1, e2, e3, e4⟩ := (h1 i rest).1 hm
    rcases (matchStride_spec r.bitIdx codes hc (w.toBits.drop r.bitIdx)).1 with h' | ⟨i', hi', _, h'⟩
    · rw [h'] at hm; cases hm
    · rw [h'] at hm
      injection hm with hm1 hm2
      subst hm1
      rw [getD_code codes i' hi'] at e2 e4
      refine ⟨i', (search (build codes) w r).2, hi', ?_, ?_, e2, ⟨hbj, e3⟩⟩
      · rw [h', e2, ← List.drop_drop]
      · rw [← e1]
  · right
    refine ⟨hm, (search (build codes) w r).2, ?_⟩
    rcases h2.1 hm with e | ⟨i, e, hgt⟩
    · left; rw [← e]
    · right; exact ⟨i, by rw [← e], hgt, hbj, hbp⟩

/-- a complete code table containing the empty code is `[[]]` -/
theorem nd_codes_of_empty (codes : List Bits) (hc : completeTree codes = true) (i : Nat)
    (hi : i < codes.length) (he : codes[i] = []) : codes = [[]] := by
  have hpf := completeTree_prefixFree codes hc
  have h1 : codes.length = 1 := by
    apply Classical.byContradiction
    intro hne
    have : ∃ j, j < codes.length ∧ j ≠ i := by
      by_cases h0 : i = 0
      · exact ⟨1, by omega, by omega⟩
      · exact ⟨0, by omega, by omega⟩
    obtain ⟨j, hj, hji⟩ := this
    have := hpf i j hi hj (by rw [he]; exact List.nil_prefix)
    omega
  match codes, h1, hi, he with
  | [c], _, hi, he =>
    have : i = 0 := by simpa using hi
    subst this
    simp at he
    rw [he]

/-- **the two lookups with slack**: when code `i` stands at the reader position and — unless it is
the empty code — five more bits of data follow it, the unchecked lookup is the checked one; both find
`i` and leave a good reader right after the code. -/
theorem nd_search_slack (codes : List Bits) (hc : completeTree codes = true) (w : Words) (hw : w.WF)
    (r : Reader) (hr : RInv w r) (i : Nat) (hi : i < codes.length)
    (hpre : codes[i] <+: w.toBits.drop r.bitIdx)
    (hslack : codes[i] ≠ [] → r.bitIdx + codes[i].length + 5 ≤ w.total) :
    ∃ r1, uncheckedSearch (build codes) w r = (.ok i, r1) ∧ search (build codes) w r = (.ok i, r1)
      ∧ r1.bitIdx = r.bitIdx + codes[i].length ∧ RInv w r1 := by
  by_cases he : codes[i] = []
  · have hcodes := nd_codes_of_empty codes hc i hi he
    subst hcodes
    have hi0 : i = 0 := by simpa using hi
    subst hi0
    have hb : build [[]] = .leaf 0 0 := rfl
    refine ⟨Reader.seekTo r.bitIdx, ?_, ?_, by simp [seekTo_bitIdx], nd_rinv_seekTo hr.pos_le⟩
    · rw [hb]; simp [uncheckedSearch, uncheckedSearchGo, leafArm, rewind]
    · rw [hb]; simp [search, searchGo, leafArm, rewind]
  · obtain ⟨h1, r1, h2, h3⟩ := uncheckedSearch_eq codes hc w hw r hr i hi hpre (hslack he)
    have hsl := hslack he
    have hri := search_rinv codes hc w hw r hr (by rw [h2]; show r1.bitIdx ≤ _; omega)
    rw [h2] at hri
    exact ⟨r1, by rw [h1, h2], h2, h3, hri⟩

/-! ### the run-length varint with slack -/

theorem nd_varintLoop_slack {w : Words} (hw : w.WF) (hsz : 64 * w.ws.length + 1024 < USIZE) :
    ∀ (fuel i : Nat) (r : Reader) (res : Nat), RInv w r → r.bitIdx + 2 * fuel ≤ w.total →
      ∃ v r2, varintLoop w fuel i r res = (.ok v, r2) ∧ uncheckedVarintLoop w fuel i r res = (.ok v, r2)
        ∧ RInv w r2 ∧ r2.bitIdx ≤ r.bitIdx + 2 * fuel := by
  have hlen := hw.total_le
  have husz : USIZE = 18446744073709551616 := rfl
  intro fuel
  induction fuel with
  | zero => intro i r res hr _; exact ⟨res, r, rfl, rfl, hr, by omega⟩
  | succ fuel ih =>
    intro i r res hr hfit
    obtain ⟨c, hc⟩ := nd_getElem?_some hw (by omega : r.bitIdx < w.total)
    obtain ⟨r1, e1, hp1, hr1⟩ := readOne_ok hw hr (by omega) hc
    have u1 : uncheckedReadOne w r = readOne w r := uncheckedReadOne_eq (by omega) (by omega)
    cases c with
    | false =>
      refine ⟨res, r1, ?_, ?_, hr1, by omega⟩
      · simp only [varintLoop, e1]
      · simp only [uncheckedVarintLoop, u1, e1]
    | true =>
      obtain ⟨b, hb⟩ := nd_getElem?_some hw (by omega : r1.bitIdx < w.total)
      obtain ⟨r2, e2, hp2, hr2⟩ := readOne_ok hw hr1 (by omega) hb
      have u2 : uncheckedReadOne w r1 = readOne w r1 := uncheckedReadOne_eq (by omega) (by omega)
      obtain ⟨v, r3, f1, f2, f3, f4⟩ := ih (i + 1) r2 (if b then res ||| 2 ^ i else res) hr2 (by omega)
      refine ⟨v, r3, ?_, ?_, f3, by omega⟩
      · simp only [varintLoop, e1, e2, f1]
      · simp only [uncheckedVarintLoop, u1, e1, u2, e2, f2]

/-- with 48 bits left `read_varint` succeeds, `unchecked_read_varint` does the same, and at most 48
bits are consumed (`jumpstart ≤ 48`; the metadata field has five bits) -/
theorem nd_varint_slack {w : Words} (hw : w.WF) (hsz : 64 * w.ws.length + 1024 < USIZE) (r : Reader)
    (hr : RInv w r) (j : Nat) (hj : j ≤ 48) (hfit : r.bitIdx + 48 ≤ w.total) :
    ∃ v r2, readVarint w r j = (.ok v, r2) ∧ uncheckedReadVarint w r j = (.ok v, r2)
      ∧ RInv w r2 ∧ r2.bitIdx ≤ r.bitIdx + 48 := by
  have hlen := hw.total_le
  have husz : USIZE = 18446744073709551616 := rfl
  obtain ⟨r1, h1, h2, h3⟩ := uncheckedReadDiff_spec (ub := 64) hw hr (by omega : j ≤ 64)
    (by omega : r.bitIdx + j ≤ w.total) (by omega)
  have hrd : readDiff 64 w r j = uncheckedReadDiff 64 w r j :=
    (uncheckedReadDiff_eq_readDiff (by omega) (by omega)).symm
  have hr1 : RInv w r1 := ⟨h3, by omega⟩
  obtain ⟨v, r2, f1, f2, f3, f4⟩ := nd_varintLoop_slack hw hsz (24 - j) j r1
    (bitsNat ((w.toBits.drop r.bitIdx).take j)) hr1 (by omega)
  refine ⟨v, r2, ?_, ?_, f3, by omega⟩
  · simp only [readVarint, readUsize, hrd, h1, f1]
  · simp only [uncheckedReadVarint, h1, f2]

/-! ### (a) the unchecked block -/

theorem nd_maxBitsRead_none (p : Prefix) (h : p.jump = none) :
    maxBitsRead p = p.code.length + maxBitsPerOffset p := by
  simp [maxBitsRead, h]

theorem nd_maxBitsRead_some (p : Prefix) (j : Nat) (h : p.jump = some j) :
    maxBitsRead p = p.code.length + 48 + maxEntries * maxBitsPerOffset p := by
  simp [maxBitsRead, h, bitsToEncodeNEntries]

/-- the lookup's slack follows from the block's: `code + k + (5 - k) ≥ code + 5` -/
theorem nd_slack_code (p : Prefix) (hne : p.code ≠ []) :
    p.code.length + 5 ≤ maxBitsRead p + maxBitsOvershot p := by
  have hk := nd_k_le_bpo p
  have ho : maxBitsOvershot p = 5 - p.info.k := by
    unfold maxBitsOvershot
    rw [if_neg (by simpa using hne)]
    rfl
  cases hj : p.jump with
  | none => rw [nd_maxBitsRead_none p hj, ho]; omega
  | some j =>
    rw [nd_maxBitsRead_some p j hj, ho]
    have : 1 * maxBitsPerOffset p ≤ maxEntries * maxBitsPerOffset p :=
      Nat.mul_le_mul_right _ (by decide)
    omega

/-- hypotheses on the chunk's prefixes -/
structure PsOk (ub : Nat) (ps : List Prefix) : Prop where
  tree : completeTree (ps.map (·.code)) = true
  /-- the ranges fit the unsigned type (`U::BITS = ub`) -/
  range : ∀ p ∈ ps, p.info.r < 2 ^ ub
  /-- run-length jumpstarts (a five-bit field in the metadata) -/
  jump : ∀ p ∈ ps, ∀ j, p.jump = some j → j ≤ 48
  ub_le : ub ≤ 128

/-- **(a), core.**  `i` is the prefix whose code stands at the reader position; with
`max_bits_read + max_bits_overshot` bits left the unchecked block is the checked block, `Ok`, with
at least one and at most `batch_size - unsigneds.len()` numbers, a good reader at most
`max_bits_read` bits further. -/
theorem nd_unchecked_block_core (ub n : Nat) (ps : List Prefix) (hps : PsOk ub ps) (w : Words)
    (hw : w.WF) (hsz : 64 * w.ws.length + 1024 < USIZE) (r : Reader) (hr : RInv w r)
    (us : List Nat) (inc : UState) (batchSize : Nat) (hlt : us.length < batchSize)
    (hbatch : batchSize ≤ maxEntries)
    (i : Nat) (hi : i < ps.length) (hpre : ps[i].code <+: w.toBits.drop r.bitIdx)
    (hslack : r.bitIdx + maxBitsRead ps[i] + maxBitsOvershot ps[i] ≤ w.total) :
    ∃ xs inc' r',
      uncheckedDecompressNumBlock (mkDec ub n ps) w r us inc batchSize = ⟨.ok (), us ++ xs, inc', r'⟩
      ∧ decompressNumBlock (mkDec ub n ps) w r us inc batchSize = ⟨.ok (), us ++ xs, inc', r'⟩
      ∧ 1 ≤ xs.length ∧ us.length + xs.length ≤ batchSize
      ∧ RInv w r' ∧ r'.bitIdx ≤ r.bitIdx + maxBitsRead ps[i] := by
  have hlen := hw.total_le
  have hpl := hr.pos_le
  have hmem : ps[i] ∈ ps := List.getElem_mem hi
  have hub := hps.range _ hmem
  have hg : GcdOk (useGcdArithmetic ps) ps[i] := nd_gcdOk_of_use ps _ hmem
  have hi' : i < (ps.map (·.code)).length := by simpa using hi
  have hcode : (ps.map (·.code))[i] = ps[i].code := nd_codes_get ps i hi
  -- the lookup
  obtain ⟨r1, hus, hs, hp1, hr1⟩ := nd_search_slack (ps.map (·.code)) hps.tree w hw r hr i hi'
    (by rw [hcode]; exact hpre)
    (by
      rw [hcode]
      intro hne
      have := nd_slack_code ps[i] hne
      omega)
  rw [hcode] at hp1
  have hinfo : (mkDec ub n ps).info i = dinfoOf ub ps[i] := nd_mkDec_info ub n ps i hi
  have htab : (mkDec ub n ps).table = build (ps.map (·.code)) := rfl
  have hub' : (mkDec ub n ps).ub = ub := rfl
  have hug : (mkDec ub n ps).useGcd = useGcdArithmetic ps := rfl
  cases hj : ps[i].jump with
  | none =>
    have hM := nd_maxBitsRead_none ps[i] hj
    obtain ⟨xs, r', e1, e2, e3, e4, e5⟩ := nd_uncheckedOffsets_eq hw hsz hps.ub_le ps[i] hub
      (useGcdArithmetic ps) hg 1 r1 us hr1 (by omega)
    have hjd : (dinfoOf ub ps[i]).jump = none := hj
    refine ⟨xs, inc, r', ?_, ?_, by omega, by omega, e4, by omega⟩
    · unfold uncheckedDecompressNumBlock
      simp only [htab, hus, hinfo, hjd, hub', hug, e1]
    · unfold decompressNumBlock
      have hmin : min 1 (batchSize - us.length) = 1 := by omega
      simp only [htab, hs, hinfo, readFullReps, blockTail, hjd, hub', if_neg (by omega : ¬ us.length > batchSize), hmin, e2,
        List.length_append, e3, Nat.add_sub_cancel_left, if_neg (by omega : ¬ 1 > 1)]
  | some j =>
    have hM := nd_maxBitsRead_some ps[i] j hj
    have hj48 := hps.jump _ hmem j hj
    obtain ⟨v, r2, f1, f2, f3, f4⟩ := nd_varint_slack hw hsz r1 hr1 j hj48 (by omega)
    have hjd : (dinfoOf ub ps[i]).jump = some j := hj
    have hreps : min (v + 1) (batchSize - us.length) ≤ maxEntries := by omega
    have hmul : min (v + 1) (batchSize - us.length) * maxBitsPerOffset ps[i]
        ≤ maxEntries * maxBitsPerOffset ps[i] := Nat.mul_le_mul_right _ hreps
    obtain ⟨xs, r', e1, e2, e3, e4, e5⟩ := nd_uncheckedOffsets_eq hw hsz hps.ub_le ps[i] hub
      (useGcdArithmetic ps) hg (min (v + 1) (batchSize - us.length)) r2 us f3 (by omega)
    by_cases hfull : v + 1 > batchSize - us.length
    · have hmin : min (v + 1) (batchSize - us.length) = batchSize - us.length := by omega
      rw [hmin] at e1 e2 e3 e5 hmul
      refine ⟨xs, some (i, v + 1 - (batchSize - us.length)), r', ?_, ?_, by omega, by omega, e4,
        by omega⟩
      · unfold uncheckedDecompressNumBlock
        simp only [htab, hus, hinfo, hjd, hub', hug, f2, if_neg (by omega : ¬ us.length > batchSize),
          limitReps, if_pos hfull, e1]
      · unfold decompressNumBlock
        simp only [htab, hs, hinfo, readFullReps, blockTail, hjd, hub', f1, if_neg (by omega : ¬ us.length > batchSize), hmin,
          e2, List.length_append, e3, Nat.add_sub_cancel_left, if_pos hfull]
    · have hmin : min (v + 1) (batchSize - us.length) = v + 1 := by omega
      rw [hmin] at e1 e2 e3 e5 hmul
      refine ⟨xs, inc, r', ?_, ?_, by omega, by omega, e4, by omega⟩
      · unfold uncheckedDecompressNumBlock
        simp only [htab, hus, hinfo, hjd, hub', hug, f2, if_neg (by omega : ¬ us.length > batchSize),
          limitReps, if_neg hfull, e1]
      · unfold decompressNumBlock
        simp only [htab, hs, hinfo, readFullReps, blockTail, hjd, hub', f1, if_neg (by omega : ¬ us.length > batchSize), hmin,
          e2, List.length_append, e3, Nat.add_sub_cancel_left, if_neg (by omega : ¬ v + 1 > v + 1)]

end NumDec
end Qco
