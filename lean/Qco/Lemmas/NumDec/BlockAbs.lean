/-
`decompress_num_block` of the literal model against `absBlock` (one block of the abstract drain):
`nd_block_spec` — same numbers, same `incomplete_prefix`, same reader position (on
`InsufficientData`: the start of the block if nothing was decoded, else after the last complete
number), `Ok` iff the abstract block ended without an error; never a panic.
-/
import Qco.Lemmas.NumDec.Block
import Qco.Lemmas.NumDec.Abs
namespace Qco
namespace NumDec
open Qco.WB Qco.HT Qco.Op Qco.Parser Qco.Stream

/-! ### the counts of the counting parsers are the bits consumed -/

theorem nd_decVarintHighC_count (m : Nat) :
    ∀ (s : Bits) (v c : Nat) (r : Bits), decVarintHighC m s = .ok (v, c) r → r.length + c = s.length := by
  induction m with
  | zero =>
    intro s v c r h
    simp only [decVarintHighC, Parser.pure] at h
    cases h; rfl
  | succ m ih =>
    intro s v c r h
    unfold decVarintHighC at h
    cases s with
    | nil => simp [Parser.bind, readBit] at h
    | cons b s1 =>
      cases b with
      | false =>
        simp only [Parser.bind, readBit, Bool.false_eq_true, if_false, Parser.pure] at h
        cases h; simp
      | true =>
        cases s1 with
        | nil => simp [Parser.bind, readBit] at h
        | cons b2 s2 =>
          simp only [Parser.bind, readBit, if_true] at h
          cases hd : decVarintHighC m s2 with
          | ok a r2 =>
            obtain ⟨v2, c2⟩ := a
            rw [hd] at h
            simp only [Parser.pure] at h
            cases h
            have := ih _ _ _ _ hd
            simp only [List.length_cons]; omega
          | insufficient => rw [hd] at h; cases h
          | corrupt => rw [hd] at h; cases h
          | compat => rw [hd] at h; cases h

theorem nd_decVarintC_count (N j : Nat) (s : Bits) (v c : Nat) (r : Bits)
    (h : decVarintC N j s = .ok (v, c) r) : r.length + c = s.length := by
  unfold decVarintC at h
  simp only [Parser.bind] at h
  unfold Parser.readNat at h
  rw [Parser.readBits_def] at h
  by_cases hl : s.length < j
  · rw [if_pos hl] at h; cases h
  · rw [if_neg hl] at h
    simp only at h
    cases hd : decVarintHighC (N - j) (s.drop j) with
    | ok a r2 =>
      obtain ⟨v2, c2⟩ := a
      rw [hd] at h
      simp only [Parser.pure] at h
      cases h
      have := nd_decVarintHighC_count (N - j) _ _ _ _ hd
      rw [List.length_drop] at this
      omega
    | insufficient => rw [hd] at h; cases h
    | corrupt => rw [hd] at h; cases h
    | compat => rw [hd] at h; cases h

/-! ### evaluating `decompress_num_block` -/

theorem nd_dnb_search_err (dec : Dec) (w : Words) (r r1 : Reader) (us : List Nat) (inc : UState)
    (batchSize : Nat) (e : String) (h : search dec.table w r = (.err e, r1)) :
    decompressNumBlock dec w r us inc batchSize = ⟨.err e, us, inc, Reader.seekTo r.bitIdx⟩ := by
  simp only [decompressNumBlock, h]

theorem nd_dnb_header_err (dec : Dec) (w : Words) (r r1 r2 : Reader) (us : List Nat) (inc : UState)
    (batchSize i : Nat) (e : String) (h : search dec.table w r = (.ok i, r1))
    (hf : readFullReps w (dec.info i) r1 r.bitIdx = (.err e, r2)) :
    decompressNumBlock dec w r us inc batchSize = ⟨.err e, us, inc, r2⟩ := by
  simp only [decompressNumBlock, h, hf]

theorem nd_dnb_header_ok (dec : Dec) (w : Words) (r r1 r2 : Reader) (us : List Nat) (inc : UState)
    (batchSize i fullReps : Nat) (h : search dec.table w r = (.ok i, r1))
    (hf : readFullReps w (dec.info i) r1 r.bitIdx = (.ok fullReps, r2)) (hlt : us.length < batchSize) :
    decompressNumBlock dec w r us inc batchSize
      = blockTail i fullReps us.length r.bitIdx inc
          (decompressOffsets dec.ub w (dec.info i) (min fullReps (batchSize - us.length)) r2 us) := by
  simp only [decompressNumBlock, h, hf, if_neg (by omega : ¬ us.length > batchSize)]

/-- every `PrefixDecompressionInfo` the table can hand out has `k ≤ 128` and a jumpstart `≤ 48` -/
theorem nd_info_bounds (ub n : Nat) (ps : List Prefix) (hps : PsOk ub ps) (i : Nat) :
    ((mkDec ub n ps).info i).k ≤ 128
      ∧ ∀ j, ((mkDec ub n ps).info i).jump = some j → j ≤ 48 := by
  have h128 := hps.ub_le
  have hdef : (mkDec ub n ps).info i
      = match ps[i]? with | some p => dinfoOf ub p | none => dinfoDefault ub := rfl
  rw [hdef]
  cases hp : ps[i]? with
  | none =>
    show (dinfoDefault ub).k ≤ 128 ∧ ∀ j, (dinfoDefault ub).jump = some j → j ≤ 48
    exact ⟨h128, fun j h => by cases h⟩
  | some p =>
    have hmem : p ∈ ps := List.mem_of_getElem? hp
    show (dinfoOf ub p).k ≤ 128 ∧ ∀ j, (dinfoOf ub p).jump = some j → j ≤ 48
    exact ⟨Nat.le_trans (nd_info_k_le p (hps.range p hmem)) h128, fun j h => hps.jump p hmem j h⟩

/-- a reader beyond the data (what the lookup leaves when the stride crossed the end): the block
reports `InsufficientData` and the reader goes back to the start of the block -/
theorem nd_dnb_poisoned (ub n : Nat) (ps : List Prefix) (hps : PsOk ub ps) (w : Words)
    (hsz : 64 * w.ws.length + 1024 < USIZE) (r r1 : Reader) (us : List Nat) (inc : UState)
    (batchSize i : Nat) (hlt : us.length < batchSize)
    (h : search (mkDec ub n ps).table w r = (.ok i, r1)) (hgt : w.total < r1.bitIdx)
    (hpos : r1.bitIdx ≤ 64 * w.ws.length + 64) :
    decompressNumBlock (mkDec ub n ps) w r us inc batchSize
      = ⟨.err "InsufficientData", us, inc, Reader.seekTo r.bitIdx⟩ := by
  have husz : USIZE = 18446744073709551616 := rfl
  obtain ⟨hk, hj⟩ := nd_info_bounds ub n ps hps i
  cases hjump : ((mkDec ub n ps).info i).jump with
  | none =>
    have hf : readFullReps w ((mkDec ub n ps).info i) r1 r.bitIdx = (.ok 1, r1) := by
      simp only [readFullReps, hjump]
    rw [nd_dnb_header_ok _ w r r1 r1 us inc batchSize i 1 h hf hlt]
    have hmin : min 1 (batchSize - us.length) = 1 := by omega
    have hrd : readDiff (mkDec ub n ps).ub w r1 ((mkDec ub n ps).info i).k = (.err "InsufficientData", r1) :=
      nd_readDiff_short (by omega) (by omega)
    rw [hmin]
    simp only [decompressOffsets, decompressOffsetDirty, hrd, blockTail, Nat.sub_self, if_true]
  | some j =>
    have hj48 := hj j hjump
    have hrd : readDiff 64 w r1 j = (.err "InsufficientData", r1) :=
      nd_readDiff_short (by omega) (by omega)
    have hf : readFullReps w ((mkDec ub n ps).info i) r1 r.bitIdx
        = (.err "InsufficientData", Reader.seekTo r.bitIdx) := by
      simp only [readFullReps, hjump, readVarint, readUsize, hrd]
    rw [nd_dnb_header_err _ w r r1 _ us inc batchSize i _ h hf]

/-! ### the checked block against the abstract block -/

/-- a stored run: a prefix of the chunk, at least one repetition left -/
def IncOk (ps : List Prefix) (inc : UState) : Prop :=
  ∀ p R, inc = some (p, R) → p < ps.length ∧ 1 ≤ R

theorem nd_incOk_none (ps : List Prefix) : IncOk ps none := by
  intro p R h; cases h

/-- **`decompress_num_block` against `absBlock`** (fresh state: `incomplete_prefix = None`). -/
theorem nd_block_spec (ub n : Nat) (ps : List Prefix) (hps : PsOk ub ps) (w : Words) (hw : w.WF)
    (hsz : 64 * w.ws.length + 1024 < USIZE) (r : Reader) (hr : RInv w r) (us : List Nat)
    (batchSize : Nat) (hlt : us.length < batchSize) (xs : List Nat) (st1 : PState) (rest : Bits)
    (why : Option Err)
    (habs : absBlock (tableOf ps) (batchSize - us.length) r.bitIdx (w.toBits.drop r.bitIdx)
      = (xs, st1, rest, why)) :
    ∃ r', decompressNumBlock (mkDec ub n ps) w r us none batchSize = ⟨resOf why, us ++ xs, st1.1, r'⟩
      ∧ r'.bitIdx = st1.2 ∧ RInv w r' ∧ rest = w.toBits.drop r'.bitIdx
      ∧ (why = none ∨ why = some .insufficient)
      ∧ (why = none → 1 ≤ xs.length ∧ us.length + xs.length ≤ batchSize
          ∧ (st1.1 ≠ none → us.length + xs.length = batchSize))
      ∧ IncOk ps st1.1 := by
  have hlen := hw.total_le
  have hpl := hr.pos_le
  have husz : USIZE = 18446744073709551616 := rfl
  have htab : (mkDec ub n ps).table = build (ps.map (·.code)) := rfl
  have hcodes : (tableOf ps).codes = ps.map (·.code) := rfl
  have hseek : RInv w (Reader.seekTo r.bitIdx) := nd_rinv_seekTo hpl
  -- what the block looks like when nothing could be decoded
  have hfail : ∀ (e : String), e = "InsufficientData" →
      decompressNumBlock (mkDec ub n ps) w r us none batchSize = ⟨.err e, us, none, Reader.seekTo r.bitIdx⟩ →
      (xs, st1, rest, why) = ([], ((none : UState), r.bitIdx), w.toBits.drop r.bitIdx, some Err.insufficient) →
      ∃ r', decompressNumBlock (mkDec ub n ps) w r us none batchSize = ⟨resOf why, us ++ xs, st1.1, r'⟩
        ∧ r'.bitIdx = st1.2 ∧ RInv w r' ∧ rest = w.toBits.drop r'.bitIdx
        ∧ (why = none ∨ why = some .insufficient)
        ∧ (why = none → 1 ≤ xs.length ∧ us.length + xs.length ≤ batchSize
            ∧ (st1.1 ≠ none → us.length + xs.length = batchSize))
        ∧ IncOk ps st1.1 := by
    intro e he hlit heq
    cases heq
    subst he
    refine ⟨Reader.seekTo r.bitIdx, by rw [hlit]; simp [resOf], seekTo_bitIdx _, hseek,
      by rw [seekTo_bitIdx], Or.inr rfl, (fun h => by cases h), nd_incOk_none ps⟩
  unfold absBlock at habs
  rw [hcodes] at habs
  rcases nd_search_char (ps.map (·.code)) hps.tree w hw r hr with
    ⟨i, r1, hi, hm, hs, hp1, hr1⟩ | ⟨hm, r1, hs⟩
  · -- the code is found
    have hi' : i < ps.length := by simpa using hi
    rw [nd_codes_get ps i hi'] at hp1
    have hmem : ps[i] ∈ ps := List.getElem_mem hi'
    have hub := hps.range _ hmem
    have hinfo : (mkDec ub n ps).info i = dinfoOf ub ps[i] := nd_mkDec_info ub n ps i hi'
    have htinfo : (tableOf ps).info i = ps[i].info := tableOf_info ps i hi'
    have htcode : ((tableOf ps).code i).length = ps[i].code.length := by rw [nd_tableOf_code ps i hi']
    rw [hm] at habs
    simp only at habs
    -- the header
    have hhdr : (∃ m vb r2, absHeader (tableOf ps) i (w.toBits.drop r1.bitIdx) = .ok (m, vb) (w.toBits.drop r2.bitIdx)
          ∧ readFullReps w (dinfoOf ub ps[i]) r1 r.bitIdx = (.ok (m + 1), r2)
          ∧ r2.bitIdx = r1.bitIdx + vb ∧ RInv w r2)
        ∨ (absHeader (tableOf ps) i (w.toBits.drop r1.bitIdx) = .insufficient
          ∧ readFullReps w (dinfoOf ub ps[i]) r1 r.bitIdx
              = (.err "InsufficientData", Reader.seekTo r.bitIdx)) := by
      unfold absHeader readFullReps
      rw [htinfo]
      have hij : ps[i].info.jump = ps[i].jump := rfl
      have hdj' : (dinfoOf ub ps[i]).jump = ps[i].jump := rfl
      rw [hij, hdj']
      cases hj : ps[i].jump with
      | none =>
        left
        exact ⟨0, 0, r1, rfl, rfl, rfl, hr1⟩
      | some j =>
        have hj48 := hps.jump _ hmem j hj
        have hp1le := hr1.pos_le
        have hspec := readVarint_spec hw hr1 (by omega : j ≤ 64) (by omega)
        simp only []
        rcases decVarintC_char nEntriesBits j (w.toBits.drop r1.bitIdx) with ⟨v, c, r', h1, h2⟩ | ⟨h1, h2⟩
        · left
          have hcnt := nd_decVarintC_count _ _ _ _ _ _ h1
          rw [show nEntriesBits = 24 from rfl] at h2
          rw [h2] at hspec
          simp only [varintOutcome, id] at hspec
          obtain ⟨o1, o2, o3⟩ := hspec
          rcases hrv : readVarint w r1 j with ⟨a, r2⟩
          rw [hrv] at o1 o2 o3
          simp only at o1 o2 o3
          subst o1
          have hl2 : r'.length = w.total - r2.bitIdx := by
            rw [← o2, List.length_drop, hw.toBits_length]
          rw [List.length_drop, hw.toBits_length] at hcnt
          have hp2 := o3.pos_le
          have hp1' := hr1.pos_le
          refine ⟨v, c, r2, by rw [h1, o2], rfl, by omega, o3⟩
        · right
          rw [show nEntriesBits = 24 from rfl] at h2
          rw [h2] at hspec
          simp only [varintOutcome] at hspec
          rcases hrv : readVarint w r1 j with ⟨a, r2⟩
          rw [hrv] at hspec
          simp only at hspec
          rw [hspec.1]
          exact ⟨h1, rfl⟩
    rcases hhdr with ⟨m, vb, r2, hh, hf, hp2, hr2⟩ | ⟨hh, hf⟩
    · rw [hh] at habs
      simp only at habs
      rw [← hinfo] at hf
      rw [htab.symm] at hs
      rw [nd_dnb_header_ok _ w r r1 r2 us none batchSize i (m + 1) hs hf hlt]
      have hpos2 : r.bitIdx + ((tableOf ps).code i).length + vb = r2.bitIdx := by omega
      rw [hpos2] at habs
      generalize hD : drainR (uS (tableOf ps)) (min (m + 1) (batchSize - us.length)) (some (i, m + 1), r2.bitIdx)
        (w.toBits.drop r2.bitIdx) = D at habs
      obtain ⟨xs', st', rest', why'⟩ := D
      obtain ⟨r', e1, e2, e3, e4, e5, _, e7, e8, e9⟩ :=
        nd_offsets_spec hw hsz hps.ub_le matchStride (tableOf ps) i ps[i] htinfo hub true
          (fun _ _ => rfl) (min (m + 1) (batchSize - us.length)) (m + 1) r2 us hr2
          (Nat.min_le_left _ _) (by omega) _ _ _ _ hD
      have hub' : (mkDec ub n ps).ub = ub := rfl
      rw [hub', hinfo, e1]
      have hinc : IncOk ps st'.1 := by
        intro p R hpr
        rw [e5] at hpr
        split at hpr
        · cases hpr
        · cases hpr; exact ⟨hi', by omega⟩
      cases xs' with
      | nil =>
        simp only at habs
        cases habs
        rcases e7 with e7 | e7
        · obtain ⟨h1, _⟩ := e8 e7
          simp only [List.length_nil] at h1
          omega
        · subst e7
          refine ⟨Reader.seekTo r.bitIdx, ?_, seekTo_bitIdx _, hseek, by rw [seekTo_bitIdx], Or.inr rfl,
            (fun h => by cases h), nd_incOk_none ps⟩
          simp [blockTail, resOf]
      | cons x xs'' =>
        simp only at habs
        cases habs
        refine ⟨r', ?_, e2, e3, e4, e7, ?_, hinc⟩
        · rcases e7 with e7 | e7
          · subst e7
            obtain ⟨h1, _⟩ := e8 rfl
            simp only [blockTail, resOf, List.length_append, Nat.add_sub_cancel_left, e5]
            by_cases hgt : m + 1 > (x :: xs'').length
            · rw [if_pos hgt, if_neg (by omega)]
            · rw [if_neg hgt, if_pos (by omega)]
          · subst e7
            obtain ⟨h1, _⟩ := e9 (by simp)
            simp only [blockTail, resOf, List.length_append, Nat.add_sub_cancel_left, e5]
            have hne : (x :: xs'').length ≠ 0 := by simp
            rw [if_neg hne, if_pos (by omega), if_neg (by omega)]
        · intro hn
          obtain ⟨h1, _⟩ := e8 hn
          refine ⟨by simp, by omega, ?_⟩
          intro hne
          rw [e5] at hne
          split at hne
          · exact absurd rfl hne
          · omega
    · rw [hh] at habs
      simp only at habs
      rw [← hinfo] at hf
      rw [htab.symm] at hs
      exact hfail _ rfl (nd_dnb_header_err _ w r r1 _ us none batchSize i _ hs hf) habs.symm
  · -- the lookup has too little data
    rw [hm] at habs
    simp only at habs
    rw [htab.symm] at hs
    rcases hs with hs | ⟨i, hs, hgt, hj, hpos⟩
    · exact hfail _ rfl (nd_dnb_search_err _ w r r1 us none batchSize _ hs) habs.symm
    · exact hfail _ rfl (nd_dnb_poisoned ub n ps hps w hsz r r1 us none batchSize i hlt hs hgt hpos) habs.symm

end NumDec
end Qco
