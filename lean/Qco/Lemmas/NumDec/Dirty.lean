/-
**(c)** `numDecDirty_eq`: the literal `decompress_unsigneds_limited_dirty` (`Qco/Op/NumDec.lean`:
incomplete-prefix resume, the `max_bits_per_num_block == 0` constant branch, the guarded unchecked
fast path, the checked tail loop, `mark_insufficient`) against the abstract
`numBatchDirty matchStride` (`Qco/Op/Decomp.lean`) on the bit list of the words: same outcome
(numbers and finished flag, or the error kind), same `incomplete_prefix`, same reader position;
never a panic.
-/
import Qco.Lemmas.NumDec.Loops
namespace Qco
namespace NumDec
open Qco.WB Qco.HT Qco.Op Qco.Parser Qco.Stream

/-! ### the drain never goes backwards -/

theorem nd_drainR_rest_le (t : Table) (hct : completeTree t.codes = true) :
    ∀ (m : Nat) (st : PState) (s : Bits) xs st' rest why,
      drainR (uS t) m st s = (xs, st', rest, why) → rest.length ≤ s.length := by
  intro m
  induction m with
  | zero =>
    intro st s xs st' rest why h
    rw [drainR_zero] at h; cases h; exact Nat.le_refl _
  | succ m ih =>
    intro st s xs st' rest why h
    obtain ⟨st0, pos0⟩ := st
    rcases unitL_ok_or_insufficient matchStride matchStride_weakLazyOf t hct (st0, pos0) s with
      ⟨a, r1, hu⟩ | hu
    · obtain ⟨x, st1, pos1⟩ := a
      have hsound := unitL_sound matchStride matchStride_weakLazyOf t hct st0 pos0 s x st1 pos1 r1 hu
      have hle := unit_rest_le t st0 s _ _ hsound
      rw [drainR_succ_ok _ _ _ _ _ _ _ hu] at h
      generalize hD : drainR (unitL matchStride t) m (st1, pos1) r1 = D at h
      obtain ⟨ys, st2, r2, why2⟩ := D
      have := ih _ _ _ _ _ _ hD
      cases h
      show r2.length ≤ s.length
      omega
    · rw [drainR_succ_insufficient _ _ _ _ hu] at h
      cases h; exact Nat.le_refl _

/-! ### the resume of an incomplete prefix -/

/-- **the `if let Some(IncompletePrefix {..})` part**: establishes the loop invariant, or ends at
the target for lack of data -/
theorem nd_resume_spec (ub n : Nat) (ps : List Prefix) (hps : PsOk ub ps) (w : Words) (hw : w.WF)
    (hsz : 64 * w.ws.length + 1024 < USIZE) (batchSize : Nat) (r : Reader) (hr : RInv w r)
    (inc0 : UState) (hinc : IncOk ps inc0) (XS : List Nat) (ST : PState) (REST : Bits)
    (WHY : Option Err)
    (hT : drainR (uS (tableOf ps)) batchSize (inc0, r.bitIdx) (w.toBits.drop r.bitIdx) = (XS, ST, REST, WHY)) :
    let s1 := resumeIncomplete (mkDec ub n ps) w r inc0 batchSize
    (s1.res = .ok () ∧ J ps w batchSize XS ST REST WHY s1.rd s1.us s1.inc)
      ∨ AtTarget w XS ST REST WHY s1 := by
  intro s1
  cases hi0 : inc0 with
  | none =>
    left
    subst hi0
    have : s1 = ⟨.ok (), [], none, r⟩ := rfl
    rw [this]
    exact ⟨rfl, hr, Nat.zero_le _, Or.inl rfl, nd_incOk_none ps, XS, hT, rfl⟩
  | some pr =>
    obtain ⟨idx, R⟩ := pr
    subst hi0
    obtain ⟨hidx, hR⟩ := hinc idx R rfl
    have hmem : ps[idx] ∈ ps := List.getElem_mem hidx
    have hsplit : batchSize = min R batchSize + (batchSize - min R batchSize) := by omega
    rw [hsplit, nd_drainR_add] at hT
    generalize hD : drainR (uS (tableOf ps)) (min R batchSize) (some (idx, R), r.bitIdx)
      (w.toBits.drop r.bitIdx) = D at hT
    obtain ⟨xs, st1, r1, why1⟩ := D
    obtain ⟨r', e1, e2, e3, e4, e5, _, e7, e8, e9⟩ :=
      nd_offsets_spec hw hsz hps.ub_le matchStride (tableOf ps) idx ps[idx] (tableOf_info ps idx hidx)
        (hps.range _ hmem) true (fun _ _ => rfl) (min R batchSize) R r [] hr (Nat.min_le_left _ _) hR
        _ _ _ _ hD
    have hxl : xs.length ≤ min R batchSize := by
      rcases e7 with e7 | e7
      · exact Nat.le_of_eq (e8 e7).1
      · have := (e9 (by rw [e7]; simp)).1; omega
    have hlit : s1 = ⟨resOf why1, xs,
        if R - xs.length = 0 then none else some (idx, R - xs.length), r'⟩ := by
      show resumeIncomplete (mkDec ub n ps) w r (some (idx, R)) batchSize = _
      have hub' : (mkDec ub n ps).ub = ub := rfl
      simp only [resumeIncomplete, hub', nd_mkDec_info ub n ps idx hidx, e1, List.nil_append,
        if_neg (by omega : ¬ xs.length > R)]
    rw [hlit]
    dsimp only
    rcases e7 with e7 | e7
    · subst e7
      left
      obtain ⟨hl, _⟩ := e8 rfl
      simp only at hT
      generalize hD2 : drainR (uS (tableOf ps)) (batchSize - min R batchSize) st1 r1 = D2 at hT
      obtain ⟨ys, st2, r2, why2⟩ := D2
      simp only at hT
      cases hT
      refine ⟨rfl, e3, by omega, ?_, ?_, ys, ?_, rfl⟩
      · by_cases h0 : R - xs.length = 0
        · left; rw [if_pos h0]
        · right; omega
      · rw [← e5]
        intro p R' hpr
        rw [e5] at hpr
        split at hpr
        · cases hpr
        · cases hpr; exact ⟨hidx, by omega⟩
      · have hst : ((if R - xs.length = 0 then none else some (idx, R - xs.length)), r'.bitIdx) = st1 := by
          rw [← e5, e2]
        rw [hst, ← e4, hl]
        exact hD2
    · subst e7
      right
      simp only at hT
      cases hT
      exact ⟨rfl, rfl, rfl, e5.symm, e2, e4, e3⟩

/-! ### the constant branch (`max_bits_per_num_block == 0`) -/

/-- when no block can take a single bit there is one prefix, with the empty code, no run lengths and
a single value -/
theorem nd_M0 (ub n : Nat) (ps : List Prefix) (hps : PsOk ub ps)
    (hM : (mkDec ub n ps).maxBitsPerNumBlock = 0) :
    ∃ p0, ps = [p0] ∧ p0.code = [] ∧ p0.jump = none ∧ p0.info.k = 0 := by
  have hall : ∀ p ∈ ps, maxBitsRead p = 0 := by
    intro p hp
    have := nd_maxBitsRead_le ub n ps p hp
    omega
  have hne : ps.map (·.code) ≠ [] := codes_ne_nil_of_complete hps.tree
  cases ps with
  | nil => simp at hne
  | cons p0 rest =>
    have h0 := hall p0 List.mem_cons_self
    have hc0 : p0.code = [] := by
      have := nd_code_le_maxBitsRead p0
      exact List.eq_nil_of_length_eq_zero (by omega)
    have hcodes := nd_codes_of_empty ((p0 :: rest).map (·.code)) hps.tree 0 (by simp) (by simpa using hc0)
    have hrest : rest = [] := by
      have := congrArg List.length hcodes
      simp at this
      exact this
    subst hrest
    have hj : p0.jump = none := by
      cases hj : p0.jump with
      | none => rfl
      | some j => rw [nd_maxBitsRead_some p0 j hj] at h0; omega
    rw [nd_maxBitsRead_none p0 hj] at h0
    have := nd_k_le_bpo p0
    exact ⟨p0, rfl, hc0, hj, by omega⟩

theorem nd_matchStride_single (pos : Nat) (s : Bits) : matchStride pos [[]] s = .ok 0 s := by
  have h1 : maxLen [[]] = 0 := rfl
  have h2 : List.range ([[]] : List Bits).length = [0] := rfl
  unfold matchStride
  rw [h1, h2, go_single]
  simp

theorem nd_decOffsetC_zero (s : Bits) : decOffsetC 0 0 s = .ok (0, 0) s := by
  simp [decOffsetC, Parser.bind, Parser.readNat, Parser.readBits, Parser.splitBits, Parser.pure]

/-- the abstract drain on the constant table -/
theorem nd_drain_const (p0 : Prefix) (hc : p0.code = []) (hj : p0.jump = none) (hk : p0.info.k = 0) :
    ∀ (m pos : Nat) (s : Bits),
      drainR (uS (tableOf [p0])) m (none, pos) s = (List.replicate m p0.lower, (none, pos), s, none) := by
  have hklo := nd_info_k_lo p0
  have hkhi := nd_info_k_hi p0
  rw [hk] at hklo hkhi
  have hr0 : p0.info.r = 0 := by omega
  have hinfo : (tableOf [p0]).info 0 = p0.info := rfl
  have hcodes : (tableOf [p0]).codes = [[]] := by simp [tableOf, hc]
  have hcode : (tableOf [p0]).code 0 = [] := by simp [tableOf, Table.code, hc]
  have hjump : p0.info.jump = none := hj
  have hunit : ∀ pos s, uS (tableOf [p0]) (none, pos) s = .ok (p0.lower, (none, pos)) s := by
    intro pos s
    show unitL matchStride (tableOf [p0]) (none, pos) s = _
    simp only [unitL, Parser.bind, hcodes, nd_matchStride_single, hinfo, hjump, hr0, hk,
      nd_decOffsetC_zero, Parser.pure, hcode, PInfo.val]
    simp
    rfl
  intro m
  induction m with
  | zero => intro pos s; rfl
  | succ m ih =>
    intro pos s
    rw [drainR_succ_ok _ _ _ _ _ _ _ (hunit pos s), ih pos s]
    simp [List.replicate_succ]

/-- the block of the constant branch: pushes `lower`, touches neither the state nor the position -/
theorem nd_const_block (ub n : Nat) (p0 : Prefix) (hps : PsOk ub [p0]) (hc : p0.code = [])
    (hj : p0.jump = none) (hk : p0.info.k = 0) (w : Words) (hw : w.WF)
    (hsz : 64 * w.ws.length + 1024 < USIZE) (r : Reader) (hr : RInv w r) (inc : UState) :
    ∃ r', uncheckedDecompressNumBlock (mkDec ub n [p0]) w r [] inc 1 = ⟨.ok (), [p0.lower], inc, r'⟩
      ∧ r'.bitIdx = r.bitIdx ∧ RInv w r' := by
  have hpre : ([p0].map (·.code))[0] <+: w.toBits.drop r.bitIdx := by
    simp only [List.map_cons, List.map_nil, List.getElem_cons_zero, hc]; exact List.nil_prefix
  obtain ⟨r1, hus, _, hp1, hr1⟩ := nd_search_slack ([p0].map (·.code)) hps.tree w hw r hr 0 (by simp)
    hpre (by intro hne; simp [hc] at hne)
  have hp1' : r1.bitIdx = r.bitIdx := by
    rw [hp1]; simp [hc]
  have hbpo : maxBitsPerOffset p0 = 0 := by
    have h1 := nd_info_k_lo p0
    have h2 := nd_info_k_hi p0
    rw [hk] at h1 h2
    unfold maxBitsPerOffset
    simp only [hk]
    rw [if_pos (by omega)]
  have hub := hps.range p0 List.mem_cons_self
  have hg : GcdOk (useGcdArithmetic [p0]) p0 := nd_gcdOk_of_use [p0] p0 List.mem_cons_self
  obtain ⟨xs, r', e1, e2, _, e4, e5⟩ := nd_uncheckedOffsets_eq hw hsz hps.ub_le p0 hub
    (useGcdArithmetic [p0]) hg 1 r1 [] hr1 (by rw [hbpo]; have := hr1.pos_le; omega)
  have hlen := hw.total_le
  have hpl := hr1.pos_le
  have husz : USIZE = 18446744073709551616 := rfl
  have hk0 := nd_offsets_k0 (ub := ub) (w := w) p0 hk 1 r1 [] hpl (by omega)
  rw [hk0] at e2
  injection e2 with _ e2
  injection e2 with e2 e3
  refine ⟨r1, ?_, hp1', hr1⟩
  have htab : (mkDec ub n [p0]).table = build ([p0].map (·.code)) := rfl
  have hinfo : (mkDec ub n [p0]).info 0 = dinfoOf ub p0 := nd_mkDec_info ub n [p0] 0 (by simp)
  have hjd : (dinfoOf ub p0).jump = none := hj
  have hub' : (mkDec ub n [p0]).ub = ub := rfl
  have hug : (mkDec ub n [p0]).useGcd = useGcdArithmetic [p0] := rfl
  unfold uncheckedDecompressNumBlock
  simp only [htab, hus, hinfo, hjd, hub', hug, e1, ← e2, ← e3]
  simp

/-! ### (c) -/

/-- the abstract outcome in the literal result type -/
def outToR : Out UBatch → R (List Nat × Bool)
  | .ok ub => .ok (ub.us, ub.finished)
  | .err .insufficient => .err "InsufficientData"
  | .err .corrupt => .err "Corruption"
  | .err .compat => .err "Compatibility"
  | .err .invalid => .err "InvalidArgument"

/-- the three arms of `numBatchDirty` after the drain -/
def absOut (b : Body) (completed eoi : Bool) (rd0 : Rd) (XS : List Nat) (ST : PState) (REST : Bits) :
    Option Err → Out UBatch × NumSt × Rd
  | none => (.ok { us := XS, finished := completed }, { b.st with inc := ST.1 }, rd0.advance REST)
  | some .insufficient =>
    if eoi then (.err .insufficient, { b.st with inc := ST.1 }, rd0.advance REST)
    else (.ok { us := XS, finished := false }, { b.st with inc := ST.1 }, rd0.advance REST)
  | some e => (.err e, { b.st with inc := ST.1 }, rd0.advance REST)

theorem nd_numBatchDirty_unfold (b : Body) (limit : Nat) (eoi : Bool) (rd0 : Rd) (XS : List Nat)
    (ST : PState) (REST : Bits) (WHY : Option Err) (hb0 : min (b.n - b.st.nProcessed) limit ≠ 0)
    (hT : drainR (unitL matchStride (tableOf b.ps)) (min (b.n - b.st.nProcessed) limit) (b.st.inc, rd0.pos)
      rd0.bits = (XS, ST, REST, WHY)) :
    numBatchDirty matchStride b limit eoi rd0
      = absOut b (decide (limit ≥ b.n - b.st.nProcessed)) eoi rd0 XS ST REST WHY := by
  simp only [numBatchDirty, if_neg hb0, hT]
  cases WHY with
  | none => rfl
  | some e => cases e <;> rfl

theorem nd_advance_pos {w : Words} (hw : w.WF) {r r' : Reader} (hr : r.bitIdx ≤ w.total)
    (hr' : r'.bitIdx ≤ w.total)
    (hle : (w.toBits.drop r'.bitIdx).length ≤ (w.toBits.drop r.bitIdx).length) :
    (Rd.advance { bits := w.toBits.drop r.bitIdx, pos := r.bitIdx } (w.toBits.drop r'.bitIdx)).pos
      = r'.bitIdx := by
  simp only [Rd.advance, List.length_drop, hw.toBits_length] at hle ⊢
  omega

/-- **(c)** the literal `decompress_unsigneds_limited_dirty` on the words is the abstract
`numBatchDirty matchStride` on their bit list. -/
theorem numDecDirty_eq (ub : Nat) (b : Body) (hps : PsOk ub b.ps) (hn : b.n ≤ maxEntries)
    (hnp : b.st.nProcessed ≤ b.n) (hinc : IncOk b.ps b.st.inc) (w : Words) (hw : w.WF)
    (hsz : 64 * w.ws.length + 1024 < USIZE) (r : Reader) (hr : RInv w r) (limit : Nat) (eoi : Bool) :
    let lit := decompressUnsignedsLimitedDirty (mkDec ub b.n b.ps) b.st.nProcessed b.st.inc limit eoi w r
    let abs := numBatchDirty matchStride b limit eoi { bits := w.toBits.drop r.bitIdx, pos := r.bitIdx }
    lit.res = outToR abs.1 ∧ lit.inc = abs.2.1.inc ∧ lit.rd.bitIdx = abs.2.2.pos
      ∧ w.toBits.drop lit.rd.bitIdx = abs.2.2.bits ∧ RInv w lit.rd := by
  intro lit abs
  have hpl := hr.pos_le
  have hct : completeTree (tableOf b.ps).codes = true := hps.tree
  have hn' : (mkDec ub b.n b.ps).n = b.n := rfl
  by_cases hb0 : min (b.n - b.st.nProcessed) limit = 0
  · -- empty batch
    have hlit : lit = ⟨.ok ([], decide (limit ≥ b.n - b.st.nProcessed)), b.st.inc, r⟩ := by
      show decompressUnsignedsLimitedDirty _ _ _ _ _ _ _ = _
      simp only [decompressUnsignedsLimitedDirty, hn', if_neg (by omega : ¬ b.st.nProcessed > b.n), hb0,
        if_true]
    have habs : abs = (.ok { us := [], finished := decide (limit ≥ b.n - b.st.nProcessed) }, b.st,
        { bits := w.toBits.drop r.bitIdx, pos := r.bitIdx }) := by
      show numBatchDirty _ _ _ _ _ = _
      simp only [numBatchDirty, hb0, if_true]
    rw [hlit, habs]
    exact ⟨rfl, rfl, rfl, rfl, hr⟩
  · -- the target of the abstract drain
    generalize hbs : min (b.n - b.st.nProcessed) limit = batchSize at hb0
    have hbatch : batchSize ≤ maxEntries := by omega
    generalize hT : drainR (uS (tableOf b.ps)) batchSize (b.st.inc, r.bitIdx) (w.toBits.drop r.bitIdx) = T
    obtain ⟨XS, ST, REST, WHY⟩ := T
    have hrest := nd_drainR_rest_le (tableOf b.ps) hct _ _ _ _ _ _ _ hT
    have habs : abs = absOut b (decide (limit ≥ b.n - b.st.nProcessed)) eoi
        { bits := w.toBits.drop r.bitIdx, pos := r.bitIdx } XS ST REST WHY := by
      subst hbs
      exact nd_numBatchDirty_unfold b limit eoi _ XS ST REST WHY hb0 hT
    -- what the literal function returns at the target, for lack of data
    have hfinal : ∀ (s : Blk), AtTarget w XS ST REST WHY s →
        afterBlk eoi s (fun _ => lit) = lit →
        lit.res = outToR abs.1 ∧ lit.inc = abs.2.1.inc ∧ lit.rd.bitIdx = abs.2.2.pos
          ∧ w.toBits.drop lit.rd.bitIdx = abs.2.2.bits ∧ RInv w lit.rd := by
      intro s hs hl
      have hres := hs.res
      have hwhy := hs.why
      subst hwhy
      have hl' : lit = ⟨markInsufficient eoi s.us "InsufficientData", s.inc, s.rd⟩ := by
        rw [← hl]; simp only [afterBlk, hres, if_true]
      have hREST := hs.rest
      subst hREST
      have hpos := nd_advance_pos hw hpl hs.rinv.pos_le hrest
      rw [hl', habs]
      cases eoi with
      | true =>
        simp only [markInsufficient, if_true, absOut]
        exact ⟨rfl, hs.inc, hpos.symm, rfl, hs.rinv⟩
      | false =>
        simp only [markInsufficient, Bool.false_eq_true, if_false, absOut]
        exact ⟨by rw [hs.us]; rfl, hs.inc, hpos.symm, rfl, hs.rinv⟩
    -- what it returns with a full batch
    have hfull : ∀ (r' : Reader) (us : List Nat) (inc : UState) (rd : Reader),
        J b.ps w batchSize XS ST REST WHY r' us inc → us.length = batchSize →
        rd.bitIdx = r'.bitIdx → RInv w rd →
        lit = ⟨.ok (us, decide (limit ≥ b.n - b.st.nProcessed)), inc, rd⟩ →
        lit.res = outToR abs.1 ∧ lit.inc = abs.2.1.inc ∧ lit.rd.bitIdx = abs.2.2.pos
          ∧ w.toBits.drop lit.rd.bitIdx = abs.2.2.bits ∧ RInv w lit.rd := by
      intro r' us inc rd hJ hl hrd hrinv hlit
      obtain ⟨h1, h2, h3, h4⟩ := nd_J_done hJ hl
      subst h1; subst h2; subst h3; subst h4
      have hpos := nd_advance_pos hw hpl hJ.rinv.pos_le hrest
      rw [hlit, habs]
      exact ⟨rfl, rfl, by rw [hrd]; exact hpos.symm, by rw [hrd]; rfl, hrinv⟩
    -- unfold the literal function up to the resume
    have hlit0 : lit = afterBlk eoi (resumeIncomplete (mkDec ub b.n b.ps) w r b.st.inc batchSize) fun _ =>
        if (mkDec ub b.n b.ps).maxBitsPerNumBlock = 0 then
          constBranch (mkDec ub b.n b.ps) w (decide (limit ≥ b.n - b.st.nProcessed)) batchSize
            (resumeIncomplete (mkDec ub b.n b.ps) w r b.st.inc batchSize)
        else mainBranch (mkDec ub b.n b.ps) w (decide (limit ≥ b.n - b.st.nProcessed)) eoi batchSize
            (resumeIncomplete (mkDec ub b.n b.ps) w r b.st.inc batchSize) := by
      show decompressUnsignedsLimitedDirty _ _ _ _ _ _ _ = _
      simp only [decompressUnsignedsLimitedDirty, hn', if_neg (by omega : ¬ b.st.nProcessed > b.n), hbs,
        if_neg hb0, dirtyBody]
    have hres := nd_resume_spec ub b.n b.ps hps w hw hsz batchSize r hr b.st.inc hinc XS ST REST WHY hT
    simp only at hres
    generalize hs1 : resumeIncomplete (mkDec ub b.n b.ps) w r b.st.inc batchSize = s1 at hres hlit0
    rcases hres with ⟨hok, hJ1⟩ | hT1
    · by_cases hM : (mkDec ub b.n b.ps).maxBitsPerNumBlock = 0
      · -- the constant branch
        obtain ⟨p0, hp0, hc0, hj0, hk0⟩ := nd_M0 ub b.n b.ps hps hM
        rw [hp0] at hps hJ1 hlit0 hM
        obtain ⟨r', hbk, hpr, hrr⟩ := nd_const_block ub b.n p0 hps hc0 hj0 hk0 w hw hsz s1.rd hJ1.rinv s1.inc
        have hl : lit = ⟨.ok (s1.us ++ List.replicate (batchSize - s1.us.length) p0.lower,
            decide (limit ≥ b.n - b.st.nProcessed)), s1.inc, r'⟩ := by
          rw [hlit0]
          simp only [afterBlk, hok, if_pos hM, constBranch, hbk]
          simp
        -- the abstract drain of the rest is constant
        obtain ⟨ys, hd, hXS⟩ := hJ1.drain
        have hys : ys = List.replicate (batchSize - s1.us.length) p0.lower ∧ ST = (s1.inc, s1.rd.bitIdx)
            ∧ REST = w.toBits.drop s1.rd.bitIdx ∧ WHY = none := by
          rcases hJ1.fresh with hf | hf
          · rw [hf, nd_drain_const p0 hc0 hj0 hk0] at hd
            cases hd
            exact ⟨rfl, by rw [hf], rfl, rfl⟩
          · rw [hf, Nat.sub_self, drainR_zero] at hd
            cases hd
            exact ⟨by rw [hf, Nat.sub_self]; rfl, rfl, rfl, rfl⟩
        obtain ⟨h1, h2, h3, h4⟩ := hys
        subst h1; subst h2; subst h3; subst h4
        have hpos := nd_advance_pos hw hpl hJ1.rinv.pos_le hrest
        rw [hl, habs]
        exact ⟨by rw [hXS]; rfl, rfl, by rw [hpr]; exact hpos.symm, by rw [hpr]; rfl, hrr⟩
      · -- the fast path, then the checked tail
        have hfast := nd_fastLoop_J ub b.n b.ps hps w hw hsz batchSize hbatch hM XS ST REST WHY
          (batchSize + 1) s1.rd s1.us s1.inc hJ1 (by omega)
        simp only at hfast
        generalize hf : fastLoop (mkDec ub b.n b.ps) w batchSize (batchSize + 1) s1.rd s1.us s1.inc = f
          at hfast hlit0
        obtain ⟨hfok, hJf⟩ := hfast
        have hchk := nd_checkedLoop_J ub b.n b.ps hps w hw hsz batchSize XS ST REST WHY batchSize
          f.rd f.us f.inc hJf (by omega)
        simp only at hchk
        generalize hc : checkedLoop (mkDec ub b.n b.ps) w batchSize batchSize f.rd f.us f.inc = c
          at hchk hlit0
        have hl : lit = afterBlk eoi c fun _ => ⟨.ok (c.us, decide (limit ≥ b.n - b.st.nProcessed)), c.inc, c.rd⟩ := by
          rw [hlit0]
          simp only [afterBlk, hok, if_neg hM, mainBranch, hf, hfok, hc]
        rcases hchk with ⟨hcok, hJc, hcl⟩ | hTc
        · apply hfull c.rd c.us c.inc c.rd hJc hcl rfl hJc.rinv
          rw [hl]; simp only [afterBlk, hcok]
        · apply hfinal c hTc
          rw [hl]
          have := hTc.res
          simp only [afterBlk, this]
    · apply hfinal s1 hT1
      rw [hlit0]
      have := hT1.res
      simp only [afterBlk, this]

/-- the literal `decompress_unsigneds_limited_dirty` never panics -/
theorem numDecDirty_no_panic (ub : Nat) (b : Body) (hps : PsOk ub b.ps) (hn : b.n ≤ maxEntries)
    (hnp : b.st.nProcessed ≤ b.n) (hinc : IncOk b.ps b.st.inc) (w : Words) (hw : w.WF)
    (hsz : 64 * w.ws.length + 1024 < USIZE) (r : Reader) (hr : RInv w r) (limit : Nat) (eoi : Bool) :
    (decompressUnsignedsLimitedDirty (mkDec ub b.n b.ps) b.st.nProcessed b.st.inc limit eoi w r).res
      ≠ .panic := by
  have h := (numDecDirty_eq ub b hps hn hnp hinc w hw hsz r hr limit eoi).1
  rw [h]
  generalize (numBatchDirty matchStride b limit eoi _).1 = o
  cases o with
  | ok u => simp [outToR]
  | err e => cases e <;> simp [outToR]

end NumDec
end Qco
