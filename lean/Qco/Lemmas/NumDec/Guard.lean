/-
**(b)** the guard of the fast path:
`guaranteed_safe_num_blocks = min(remaining, (bits_remaining - max_overshoot) / max_bits_per_num_block)`.

* `Budget dec w p c` — at bit position `p` there are `c * max_bits_per_num_block + max_overshoot`
  bits of data left.
* `nd_guard_init` — a guard value `g ≥ 1` establishes `Budget g`.
* `nd_guard_step` — with a budget of `c + 1` some code `i` stands at the reader position, the
  hypothesis of (a) holds for it (`max_bits_read p + max_bits_overshot p` bits are left), and any
  reader at most `max_bits_read p` further has a budget of `c`.
* `nd_fast_block` — hence the unchecked block is the checked block (`Ok`, no panic) and leaves a
  budget of `c`.
-/
import Qco.Lemmas.NumDec.BlockAbs
namespace Qco
namespace NumDec
open Qco.WB Qco.HT Qco.Op Qco.Parser Qco.Stream

/-! ### the two maxima of `NumDecompressor::new` -/

theorem nd_foldl_max_ge (l : List Nat) : ∀ a, a ≤ l.foldl max a ∧ ∀ x ∈ l, x ≤ l.foldl max a := by
  induction l with
  | nil => intro a; exact ⟨Nat.le_refl _, fun x h => by cases h⟩
  | cons b l ih =>
    intro a
    obtain ⟨h1, h2⟩ := ih (max a b)
    simp only [List.foldl_cons]
    refine ⟨by omega, ?_⟩
    intro x hx
    rcases List.mem_cons.1 hx with rfl | hx
    · omega
    · exact h2 x hx

theorem nd_listMax_ge (l : List Nat) (d x : Nat) (hx : x ∈ l) : x ≤ (listMax l).getD d := by
  cases l with
  | nil => cases hx
  | cons a l =>
    simp only [listMax, Option.getD_some]
    obtain ⟨h1, h2⟩ := nd_foldl_max_ge l a
    rcases List.mem_cons.1 hx with rfl | hx
    · exact h1
    · exact h2 x hx

theorem nd_maxBitsRead_le (ub n : Nat) (ps : List Prefix) (p : Prefix) (hp : p ∈ ps) :
    maxBitsRead p ≤ (mkDec ub n ps).maxBitsPerNumBlock :=
  nd_listMax_ge _ _ _ (List.mem_map.2 ⟨p, hp, rfl⟩)

theorem nd_maxBitsOvershot_le (ub n : Nat) (ps : List Prefix) (p : Prefix) (hp : p ∈ ps) :
    maxBitsOvershot p ≤ (mkDec ub n ps).maxOvershootPerNumBlock :=
  nd_listMax_ge _ _ _ (List.mem_map.2 ⟨p, hp, rfl⟩)

theorem nd_code_le_maxBitsRead (p : Prefix) : p.code.length ≤ maxBitsRead p := by
  cases hj : p.jump with
  | none => rw [nd_maxBitsRead_none p hj]; omega
  | some j => rw [nd_maxBitsRead_some p j hj]; omega

/-- with data at least as long as every code, some code stands at the start of the data -/
theorem nd_code_at (codes : List Bits) (hc : completeTree codes = true) (s : Bits)
    (hlen : ∀ c ∈ codes, c.length ≤ s.length) : ∃ i, ∃ hi : i < codes.length, codes[i] <+: s := by
  obtain ⟨c, hmem, hrel⟩ := completeTree_covers codes hc s
  obtain ⟨i, hi, rfl⟩ := List.getElem_of_mem hmem
  refine ⟨i, hi, ?_⟩
  rcases hrel with h | h
  · exact h
  · have h1 := h.length_le
    have h2 := hlen _ hmem
    have := List.IsPrefix.eq_of_length h (by omega)
    rw [this]
    exact List.prefix_refl _

/-! ### the budget -/

/-- at bit position `p` the data hold `c` more blocks of the maximal size plus the maximal overshoot -/
def Budget (dec : Dec) (w : Words) (p c : Nat) : Prop :=
  p + c * dec.maxBitsPerNumBlock + dec.maxOvershootPerNumBlock ≤ w.total

/-- **the guard establishes the budget**: `g = min(remaining, (bits_remaining - max_overshoot) /
max_bits_per_num_block)` and `g ≥ 1` (the code asks for `g ≥ 30`) -/
theorem nd_guard_init (dec : Dec) (w : Words) (r : Reader) (rem br g : Nat)
    (hbr : bitsRemaining w r = .ok br) (hM : dec.maxBitsPerNumBlock ≠ 0)
    (hg : g = min rem ((br - dec.maxOvershootPerNumBlock) / dec.maxBitsPerNumBlock)) (h1 : 1 ≤ g) :
    Budget dec w r.bitIdx g := by
  unfold bitsRemaining at hbr
  by_cases hle : r.bitIdx ≤ w.total
  · rw [if_pos hle] at hbr
    injection hbr with hbr
    unfold Budget
    generalize dec.maxBitsPerNumBlock = M at *
    generalize dec.maxOvershootPerNumBlock = O at *
    have hq : g ≤ (br - O) / M := by omega
    have h2 : g * M ≤ (br - O) / M * M := Nat.mul_le_mul_right _ hq
    have h3 : (br - O) / M * M ≤ br - O := Nat.div_mul_le_self _ _
    have h4 : M ≤ br - O := by
      apply Nat.le_of_not_lt
      intro hlt
      rw [Nat.div_eq_of_lt hlt] at hq
      omega
    omega
  · rw [if_neg hle] at hbr; cases hbr

/-- **(b), one step**: a budget of `c + 1` blocks at the reader position gives the hypothesis of (a)
for the prefix whose code stands there, and a budget of `c` after any block that consumed at most
`max_bits_read` bits. -/
theorem nd_guard_step (ub n : Nat) (ps : List Prefix) (hps : PsOk ub ps) (w : Words) (hw : w.WF)
    (p c : Nat) (hB : Budget (mkDec ub n ps) w p (c + 1)) :
    ∃ i, ∃ hi : i < ps.length, ps[i].code <+: w.toBits.drop p
      ∧ p + maxBitsRead ps[i] + maxBitsOvershot ps[i] ≤ w.total
      ∧ ∀ p', p' ≤ p + maxBitsRead ps[i] → Budget (mkDec ub n ps) w p' c := by
  unfold Budget at hB
  rw [Nat.add_mul, Nat.one_mul] at hB
  have hcodes : ∀ c' ∈ ps.map (·.code), c'.length ≤ (w.toBits.drop p).length := by
    intro c' hc'
    obtain ⟨q, hq, rfl⟩ := List.mem_map.1 hc'
    have h1 := nd_code_le_maxBitsRead q
    have h2 := nd_maxBitsRead_le ub n ps q hq
    rw [List.length_drop, hw.toBits_length]
    omega
  obtain ⟨i, hi, hpre⟩ := nd_code_at (ps.map (·.code)) hps.tree _ hcodes
  have hi' : i < ps.length := by simpa using hi
  rw [nd_codes_get ps i hi'] at hpre
  have hmem : ps[i] ∈ ps := List.getElem_mem hi'
  have h2 := nd_maxBitsRead_le ub n ps _ hmem
  have h3 := nd_maxBitsOvershot_le ub n ps _ hmem
  refine ⟨i, hi', hpre, by omega, ?_⟩
  intro p' hp'
  unfold Budget
  omega

/-- **the fast block under the guard's budget**: the unchecked block is the checked block, `Ok`,
at least one number, and the budget goes down by one. -/
theorem nd_fast_block (ub n : Nat) (ps : List Prefix) (hps : PsOk ub ps) (w : Words) (hw : w.WF)
    (hsz : 64 * w.ws.length + 1024 < USIZE) (r : Reader) (hr : RInv w r) (us : List Nat) (inc : UState)
    (batchSize : Nat) (hlt : us.length < batchSize) (hbatch : batchSize ≤ maxEntries) (c : Nat)
    (hB : Budget (mkDec ub n ps) w r.bitIdx (c + 1)) :
    ∃ xs inc' r',
      uncheckedDecompressNumBlock (mkDec ub n ps) w r us inc batchSize = ⟨.ok (), us ++ xs, inc', r'⟩
      ∧ decompressNumBlock (mkDec ub n ps) w r us inc batchSize = ⟨.ok (), us ++ xs, inc', r'⟩
      ∧ 1 ≤ xs.length ∧ us.length + xs.length ≤ batchSize ∧ RInv w r'
      ∧ Budget (mkDec ub n ps) w r'.bitIdx c := by
  obtain ⟨i, hi, hpre, hslack, hnext⟩ := nd_guard_step ub n ps hps w hw r.bitIdx c hB
  obtain ⟨xs, inc', r', e1, e2, e3, e4, e5, e6⟩ :=
    nd_unchecked_block_core ub n ps hps w hw hsz r hr us inc batchSize hlt hbatch i hi hpre hslack
  exact ⟨xs, inc', r', e1, e2, e3, e4, e5, hnext _ e6⟩

end NumDec
end Qco
