/-
The loops of `decompress_unsigneds_limited_dirty` against the abstract drain.

`J` is the loop invariant: the literal state (reader, `unsigneds`, `incomplete_prefix`) together
with the drain of the numbers still missing from this state yields the target — the outcome
`(XS, ST, REST, WHY)` of the abstract drain of the whole batch.

* `nd_checked_step` — one `decompress_num_block` keeps `J` (on `Ok`) or ends at the target (on
  `InsufficientData`).
* `nd_uncheckedBlocks_J` — the inner `while` of the fast path, under the guard's budget.
* `nd_fastLoop_J` — the `loop` of the fast path: `Ok`, keeps `J`, never out of fuel.
* `nd_checkedLoop_J` — the checked tail loop ends at the target.
-/
import Qco.Lemmas.NumDec.Guard
namespace Qco
namespace NumDec
open Qco.WB Qco.HT Qco.Op Qco.Parser Qco.Stream

/-- the loop invariant -/
structure J (ps : List Prefix) (w : Words) (batchSize : Nat) (XS : List Nat) (ST : PState)
    (REST : Bits) (WHY : Option Err) (r : Reader) (us : List Nat) (inc : UState) : Prop where
  rinv : RInv w r
  le : us.length ≤ batchSize
  /-- a stored run only when the batch is full (the run was cut by the batch size) -/
  fresh : inc = none ∨ us.length = batchSize
  incOk : IncOk ps inc
  drain : ∃ ys, drainR (uS (tableOf ps)) (batchSize - us.length) (inc, r.bitIdx) (w.toBits.drop r.bitIdx)
      = (ys, ST, REST, WHY) ∧ XS = us ++ ys

/-- the literal state is the target of the abstract drain, stopped for lack of data -/
structure AtTarget (w : Words) (XS : List Nat) (ST : PState) (REST : Bits) (WHY : Option Err)
    (b : Blk) : Prop where
  res : b.res = .err "InsufficientData"
  why : WHY = some .insufficient
  us : b.us = XS
  inc : b.inc = ST.1
  pos : b.rd.bitIdx = ST.2
  rest : REST = w.toBits.drop b.rd.bitIdx
  rinv : RInv w b.rd

theorem nd_resOf_ok {why : Option Err} (h : resOf why = .ok ()) : why = none := by
  cases why with
  | none => rfl
  | some e => simp [resOf] at h

/-- **one checked block** from a state satisfying `J` with numbers still missing -/
theorem nd_checked_step (ub n : Nat) (ps : List Prefix) (hps : PsOk ub ps) (w : Words) (hw : w.WF)
    (hsz : 64 * w.ws.length + 1024 < USIZE) (batchSize : Nat) (XS : List Nat) (ST : PState)
    (REST : Bits) (WHY : Option Err) (r : Reader) (us : List Nat) (inc : UState)
    (hJ : J ps w batchSize XS ST REST WHY r us inc) (hlt : us.length < batchSize) :
    let b := decompressNumBlock (mkDec ub n ps) w r us inc batchSize
    (b.res = .ok () ∧ J ps w batchSize XS ST REST WHY b.rd b.us b.inc ∧ us.length < b.us.length)
      ∨ AtTarget w XS ST REST WHY b := by
  intro b
  have hinc : inc = none := by
    rcases hJ.fresh with h | h
    · exact h
    · omega
  subst hinc
  obtain ⟨ys, hd, hXS⟩ := hJ.drain
  rw [nd_drainR_absBlock (tableOf ps) hps.tree _ _ _ (by omega)] at hd
  generalize hA : absBlock (tableOf ps) (batchSize - us.length) r.bitIdx (w.toBits.drop r.bitIdx) = A at hd
  obtain ⟨xs, st1, rest1, why1⟩ := A
  obtain ⟨r', e1, e2, e3, e4, e5, e6, e7⟩ :=
    nd_block_spec ub n ps hps w hw hsz r hJ.rinv us batchSize hlt xs st1 rest1 why1 hA
  have hb : b = ⟨resOf why1, us ++ xs, st1.1, r'⟩ := e1
  rcases e5 with e5 | e5
  · subst e5
    left
    obtain ⟨h1, h2, h3⟩ := e6 rfl
    simp only at hd
    generalize hD : drainR (uS (tableOf ps)) (batchSize - us.length - xs.length) st1 rest1 = D at hd
    obtain ⟨ys', st2, r2, why2⟩ := D
    simp only at hd
    cases hd
    rw [hb]
    refine ⟨rfl, ⟨e3, by simp only [List.length_append]; omega, ?_, e7, ys', ?_, ?_⟩,
      by simp only [List.length_append]; omega⟩
    · by_cases hn : st1.1 = none
      · exact Or.inl hn
      · right; simp only [List.length_append]; exact h3 hn
    · have hst : (st1.1, r'.bitIdx) = st1 := by rw [e2]
      simp only [List.length_append]
      rw [hst, ← e4, show batchSize - (us.length + xs.length) = batchSize - us.length - xs.length by omega]
      exact hD
    · rw [hXS, List.append_assoc]
  · subst e5
    right
    simp only at hd
    cases hd
    rw [hb]
    exact ⟨rfl, rfl, hXS.symm, rfl, e2, e4, e3⟩

/-! ### the fast path -/

theorem nd_uncheckedBlocks_succ (dec : Dec) (w : Words) (batchSize c : Nat) (r : Reader) (us : List Nat)
    (inc : UState) (hlt : us.length < batchSize) (b : Blk)
    (hb : uncheckedDecompressNumBlock dec w r us inc batchSize = b) (hok : b.res = .ok ()) :
    uncheckedBlocks dec w batchSize (c + 1) r us inc = uncheckedBlocks dec w batchSize c b.rd b.us b.inc := by
  simp only [uncheckedBlocks, if_pos hlt, hb, hok]

/-- **the inner `while` of the fast path** under the guard's budget: `Ok`, keeps the invariant, and
decodes at least one number if it runs at all -/
theorem nd_uncheckedBlocks_J (ub n : Nat) (ps : List Prefix) (hps : PsOk ub ps) (w : Words) (hw : w.WF)
    (hsz : 64 * w.ws.length + 1024 < USIZE) (batchSize : Nat) (hbatch : batchSize ≤ maxEntries)
    (XS : List Nat) (ST : PState) (REST : Bits) (WHY : Option Err) :
    ∀ (c : Nat) (r : Reader) (us : List Nat) (inc : UState),
      J ps w batchSize XS ST REST WHY r us inc → Budget (mkDec ub n ps) w r.bitIdx c →
      let b := uncheckedBlocks (mkDec ub n ps) w batchSize c r us inc
      b.res = .ok () ∧ J ps w batchSize XS ST REST WHY b.rd b.us b.inc
        ∧ (1 ≤ c → us.length < batchSize → us.length < b.us.length) := by
  intro c
  induction c with
  | zero =>
    intro r us inc hJ _
    exact ⟨rfl, hJ, fun h => by omega⟩
  | succ c ih =>
    intro r us inc hJ hB
    by_cases hlt : us.length < batchSize
    · obtain ⟨xs, inc', r', e1, e2, e3, e4, e5, e6⟩ :=
        nd_fast_block ub n ps hps w hw hsz r hJ.rinv us inc batchSize hlt hbatch c hB
      have hstep := nd_checked_step ub n ps hps w hw hsz batchSize XS ST REST WHY r us inc hJ hlt
      simp only [e2] at hstep
      rcases hstep with ⟨_, hJ', _⟩ | hT
      · have := ih r' (us ++ xs) inc' hJ' e6
        simp only at this
        obtain ⟨h1, h2, h3⟩ := this
        rw [nd_uncheckedBlocks_succ _ w batchSize c r us inc hlt _ e1 rfl]
        refine ⟨h1, h2, fun _ _ => ?_⟩
        by_cases hc : 1 ≤ c
        · by_cases hl2 : (us ++ xs).length < batchSize
          · have := h3 hc hl2
            simp only [List.length_append] at this ⊢
            omega
          · -- the batch is full: the loop stops
            cases c with
            | zero => omega
            | succ c' =>
              have hl2' : ¬ us.length + xs.length < batchSize := by
                simpa only [List.length_append] using hl2
              simp only [uncheckedBlocks, List.length_append, if_neg hl2']
              omega
        · have hc0 : c = 0 := by omega
          subst hc0
          simp only [uncheckedBlocks, List.length_append]
          omega
      · have := hT.res
        simp at this
    · have hb : uncheckedBlocks (mkDec ub n ps) w batchSize (c + 1) r us inc = ⟨.ok (), us, inc, r⟩ := by
        simp only [uncheckedBlocks, if_neg hlt]
      rw [hb]
      exact ⟨rfl, hJ, fun _ h => absurd h hlt⟩

/-- **the `loop` of the fast path**: `Ok` (never out of fuel, no panic) and keeps the invariant -/
theorem nd_fastLoop_J (ub n : Nat) (ps : List Prefix) (hps : PsOk ub ps) (w : Words) (hw : w.WF)
    (hsz : 64 * w.ws.length + 1024 < USIZE) (batchSize : Nat) (hbatch : batchSize ≤ maxEntries)
    (hM : (mkDec ub n ps).maxBitsPerNumBlock ≠ 0)
    (XS : List Nat) (ST : PState) (REST : Bits) (WHY : Option Err) :
    ∀ (fuel : Nat) (r : Reader) (us : List Nat) (inc : UState),
      J ps w batchSize XS ST REST WHY r us inc → batchSize - us.length < fuel →
      let b := fastLoop (mkDec ub n ps) w batchSize fuel r us inc
      b.res = .ok () ∧ J ps w batchSize XS ST REST WHY b.rd b.us b.inc := by
  intro fuel
  induction fuel with
  | zero => intro r us inc _ h; omega
  | succ fuel ih =>
    intro r us inc hJ hfuel
    have hle := hJ.le
    have hbr : bitsRemaining w r = .ok (w.total - r.bitIdx) := by
      unfold bitsRemaining; rw [if_pos hJ.rinv.pos_le]
    generalize hg : min (batchSize - us.length)
      ((w.total - r.bitIdx - (mkDec ub n ps).maxOvershootPerNumBlock) / (mkDec ub n ps).maxBitsPerNumBlock) = g
    by_cases h30 : g ≥ uncheckedNumThreshold
    · have h30' : 30 ≤ g := h30
      have hB := nd_guard_init (mkDec ub n ps) w r (batchSize - us.length) _ g hbr hM hg.symm (by omega)
      have hblocks := nd_uncheckedBlocks_J ub n ps hps w hw hsz batchSize hbatch XS ST REST WHY g r us inc hJ hB
      simp only at hblocks
      obtain ⟨h1, h2, h3⟩ := hblocks
      have hprog := h3 (by omega) (by omega)
      have := ih _ _ _ h2 (by omega)
      simp only at this
      simp only [fastLoop, if_neg (by omega : ¬ us.length > batchSize), hbr, hg, if_pos h30, h1]
      exact this
    · simp only [fastLoop, if_neg (by omega : ¬ us.length > batchSize), hbr, hg, if_neg h30]
      exact ⟨by trivial, hJ⟩

/-! ### the checked tail loop -/

/-- **the checked tail loop** ends with a full batch (`Ok`) or at the target of the abstract drain
(`InsufficientData`); never out of fuel, no panic -/
theorem nd_checkedLoop_J (ub n : Nat) (ps : List Prefix) (hps : PsOk ub ps) (w : Words) (hw : w.WF)
    (hsz : 64 * w.ws.length + 1024 < USIZE) (batchSize : Nat)
    (XS : List Nat) (ST : PState) (REST : Bits) (WHY : Option Err) :
    ∀ (fuel : Nat) (r : Reader) (us : List Nat) (inc : UState),
      J ps w batchSize XS ST REST WHY r us inc → batchSize - us.length ≤ fuel →
      let b := checkedLoop (mkDec ub n ps) w batchSize fuel r us inc
      (b.res = .ok () ∧ J ps w batchSize XS ST REST WHY b.rd b.us b.inc ∧ b.us.length = batchSize)
        ∨ AtTarget w XS ST REST WHY b := by
  intro fuel
  induction fuel with
  | zero =>
    intro r us inc hJ hfuel
    have hle := hJ.le
    left
    simp only [checkedLoop, if_neg (by omega : ¬ us.length < batchSize)]
    exact ⟨by trivial, hJ, by omega⟩
  | succ fuel ih =>
    intro r us inc hJ hfuel
    have hle := hJ.le
    by_cases hlt : us.length < batchSize
    · have hstep := nd_checked_step ub n ps hps w hw hsz batchSize XS ST REST WHY r us inc hJ hlt
      simp only at hstep
      rcases hstep with ⟨h1, h2, h3⟩ | hT
      · have := ih _ _ _ h2 (by omega)
        simp only at this
        simp only [checkedLoop, if_pos hlt, h1]
        exact this
      · right
        have hres := hT.res
        simp only [checkedLoop, if_pos hlt, hres]
        exact hT
    · left
      simp only [checkedLoop, if_neg hlt]
      exact ⟨by trivial, hJ, by omega⟩

/-- at the end of a full batch the state is the target -/
theorem nd_J_done {ps : List Prefix} {w : Words} {batchSize : Nat} {XS : List Nat} {ST : PState}
    {REST : Bits} {WHY : Option Err} {r : Reader} {us : List Nat} {inc : UState}
    (hJ : J ps w batchSize XS ST REST WHY r us inc) (hfull : us.length = batchSize) :
    WHY = none ∧ XS = us ∧ ST = (inc, r.bitIdx) ∧ REST = w.toBits.drop r.bitIdx := by
  obtain ⟨ys, hd, hXS⟩ := hJ.drain
  rw [hfull, Nat.sub_self, drainR_zero] at hd
  cases hd
  exact ⟨rfl, by rw [hXS]; simp, rfl, rfl⟩

end NumDec
end Qco
