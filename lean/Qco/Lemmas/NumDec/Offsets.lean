/-
Offsets: `decompress_offset_dirty`, `decompress_offsets`, `unchecked_decompress_offsets` of the
literal model (`Qco/Op/NumDec.lean`) against the bit-list parser `decOffsetC` and the abstract drain
of a run in progress.

* `nd_offset_char` — one offset: the literal checked read does what `decOffsetC` does on the data
  left; when it succeeds the unchecked read does the same (all the bits it touches are data).
* `nd_offsets_spec` — `decompress_offsets(p, reps)` against `drainR` from a run state.
* `nd_uncheckedOffsets_eq` — with `reps * max_bits_per_offset` bits left,
  `unchecked_decompress_offsets` (both branches) is `decompress_offsets`, never panics.
-/
import Qco.Op.NumDec
import Qco.Lemmas.HuffTable
import Qco.Lemmas.StreamDrain
namespace Qco
namespace NumDec
open Qco.WB Qco.HT Qco.Op Qco.Parser Qco.Stream

/-! ### small facts -/

theorem nd_info_k_lo (pf : Prefix) : 2 ^ pf.info.k ≤ pf.info.r + 1 :=
  Nat.log2_self_le (Nat.succ_ne_zero _)

theorem nd_info_k_hi (pf : Prefix) : pf.info.r + 1 < 2 ^ (pf.info.k + 1) := Nat.lt_log2_self

theorem nd_info_k_le {ub : Nat} (pf : Prefix) (hub : pf.info.r < 2 ^ ub) : pf.info.k ≤ ub := by
  apply Nat.le_of_not_lt
  intro h
  have h1 := nd_info_k_lo pf
  have h2 : 2 ^ (ub + 1) ≤ 2 ^ pf.info.k := Nat.pow_le_pow_right (by decide) h
  rw [Nat.pow_succ] at h2
  omega

theorem nd_k_lt_of_ge {ub : Nat} (pf : Prefix) (hub : pf.info.r < 2 ^ ub) (v : Nat)
    (h : pf.info.r - v ≥ 2 ^ pf.info.k) : pf.info.k < ub := by
  apply Nat.lt_of_not_le
  intro hle
  have h2 : 2 ^ ub ≤ 2 ^ pf.info.k := Nat.pow_le_pow_right (by decide) hle
  omega

theorem nd_k_le_bpo (pf : Prefix) : pf.info.k ≤ maxBitsPerOffset pf := by
  unfold maxBitsPerOffset
  simp only []
  split <;> omega

theorem nd_bpo_le (pf : Prefix) : maxBitsPerOffset pf ≤ pf.info.k + 1 := by
  unfold maxBitsPerOffset
  simp only []
  split <;> omega

theorem nd_readNat_drop {w : Words} (hw : w.WF) {p k : Nat} (h : p + k ≤ w.total) :
    Parser.readNat k (w.toBits.drop p)
      = .ok (bitsNat ((w.toBits.drop p).take k)) (w.toBits.drop (p + k)) := by
  unfold Parser.readNat
  rw [Parser.readBits_def, List.length_drop, hw.toBits_length, if_neg (by omega), List.drop_drop]

theorem nd_readNat_short {w : Words} (hw : w.WF) {p k : Nat} (hp : p ≤ w.total) (h : ¬ p + k ≤ w.total) :
    Parser.readNat k (w.toBits.drop p) = .insufficient := by
  unfold Parser.readNat
  rw [Parser.readBits_def, List.length_drop, hw.toBits_length, if_pos (by omega)]

theorem nd_readDiff_short {ub : Nat} {w : Words} {r : Reader} {k : Nat} (h : ¬ r.bitIdx + k ≤ w.total)
    (hsz : r.bitIdx + k < USIZE) : readDiff ub w r k = (.err "InsufficientData", r) := by
  unfold readDiff insufficientDataCheck
  rw [if_neg (by omega), if_pos (by omega)]

theorem nd_take_lt {w : Words} (hw : w.WF) {p k : Nat} (h : p + k ≤ w.total) :
    bitsNat ((w.toBits.drop p).take k) < 2 ^ k := by
  have := bitsNat_lt ((w.toBits.drop p).take k)
  rw [List.length_take, List.length_drop, hw.toBits_length] at this
  have e : min k (w.total - p) = k := by omega
  rw [e] at this
  exact this

theorem nd_getElem?_some {w : Words} (hw : w.WF) {p : Nat} (h : p < w.total) :
    ∃ b, w.toBits[p]? = some b := by
  have : p < w.toBits.length := by rw [hw.toBits_length]; exact h
  exact ⟨w.toBits[p], List.getElem?_eq_getElem this⟩

theorem nd_getElem?_none {w : Words} (hw : w.WF) {p : Nat} (h : ¬ p < w.total) :
    w.toBits[p]? = none := by
  apply List.getElem?_eq_none
  rw [hw.toBits_length]; omega

theorem nd_rinv_seekTo {w : Words} {p : Nat} (h : p ≤ w.total) : RInv w (Reader.seekTo p) :=
  ⟨seekTo_j p, by rw [seekTo_bitIdx]; exact h⟩

/-- the result of a checked function, from why the abstract drain stopped -/
def resOf : Option Err → R Unit
  | none => .ok ()
  | some _ => .err "InsufficientData"

/-! ### one offset -/

/-- **one offset.**  Either `decOffsetC` succeeds on the data left — then `decompress_offset_dirty`
pushes the same number and leaves the reader after the same bits, and so does one turn of
`unchecked_decompress_offsets` (with its own `most_significant`/`GcdOp` arithmetic) — or it is
`insufficient`, and then `decompress_offset_dirty` reports `InsufficientData`; this only happens with
fewer than `max_bits_per_offset` bits left. -/
theorem nd_offset_char {ub : Nat} {w : Words} {r : Reader} (hw : w.WF) (hr : RInv w r)
    (hsz : r.bitIdx + 256 < USIZE) (hub128 : ub ≤ 128) (pf : Prefix) (hub : pf.info.r < 2 ^ ub)
    (useGcd : Bool)
    (us : List Nat) :
    (∃ off ob r',
        decOffsetC pf.info.r pf.info.k (w.toBits.drop r.bitIdx) = .ok (off, ob) (w.toBits.drop r'.bitIdx)
        ∧ decompressOffsetDirty ub w (dinfoOf ub pf) r us = (.ok (), us ++ [pf.info.val off], r')
        ∧ uncheckedOffsetStep ub useGcd w (dinfoOf ub pf) r us
            = (.ok (), us ++ [pf.lower + getDiff useGcd off pf.gcd], r')
        ∧ r'.bitIdx = r.bitIdx + ob ∧ RInv w r' ∧ ob ≤ maxBitsPerOffset pf ∧ off ≤ pf.info.r)
    ∨ (decOffsetC pf.info.r pf.info.k (w.toBits.drop r.bitIdx) = .insufficient
        ∧ (∃ r', decompressOffsetDirty ub w (dinfoOf ub pf) r us = (.err "InsufficientData", us, r'))
        ∧ w.total < r.bitIdx + maxBitsPerOffset pf) := by
  have hklo := nd_info_k_lo pf
  have hkhi := nd_info_k_hi pf
  have hkub := nd_info_k_le pf hub
  have hkb := nd_k_le_bpo pf
  have hpl := hr.pos_le
  have husz : USIZE = 18446744073709551616 := rfl
  by_cases hfit : r.bitIdx + pf.info.k ≤ w.total
  · -- the `k` low bits are there
    obtain ⟨r1, h1, h2, h3⟩ := uncheckedReadDiff_spec (ub := ub) hw hr hkub hfit (by omega)
    have hrd : readDiff ub w r pf.info.k = uncheckedReadDiff ub w r pf.info.k :=
      (uncheckedReadDiff_eq_readDiff hfit (by omega)).symm
    have hr1 : RInv w r1 := ⟨h3, by omega⟩
    have hv := nd_take_lt hw hfit
    have hnat := nd_readNat_drop hw hfit
    generalize hvdef : bitsNat ((w.toBits.drop r.bitIdx).take pf.info.k) = v at *
    by_cases hx : pf.info.r - v ≥ 2 ^ pf.info.k
    · have hklt := nd_k_lt_of_ge pf hub v hx
      have hbpo : maxBitsPerOffset pf = pf.info.k + 1 := by
        unfold maxBitsPerOffset
        simp only []
        rw [if_neg (by omega)]
      by_cases hbit : r.bitIdx + pf.info.k + 1 ≤ w.total
      · -- the extra bit is there
        left
        obtain ⟨b, hb⟩ := nd_getElem?_some hw (by omega : r1.bitIdx < w.total)
        obtain ⟨r2, e2, hp2, hr2⟩ := readOne_ok hw hr1 (by omega) hb
        have eu : uncheckedReadOne w r1 = readOne w r1 := uncheckedReadOne_eq (by omega) (by omega)
        have hor : v ||| 2 ^ pf.info.k = v + 2 ^ pf.info.k := lor_two_pow hv
        refine ⟨v + (if b then 2 ^ pf.info.k else 0), pf.info.k + 1, r2, ?_, ?_, ?_, by omega, hr2,
          by omega, ?_⟩
        · unfold decOffsetC
          simp only [Parser.bind, hnat, hx, if_true]
          rw [← h2, drop_of_getElem? hb, ← hp2]
          rfl
        · unfold decompressOffsetDirty
          simp only [dinfoOf, hrd, h1, hklt, if_true, hx, e2]
          cases b
          · simp [PInfo.val, Prefix.info]
          · simp only [if_true, hor]; rfl
        · unfold uncheckedOffsetStep
          have hms : (if pf.info.k = ub then 0 else 2 ^ pf.info.k) = 2 ^ pf.info.k := by
            rw [if_neg (by omega)]
          simp only [dinfoOf, h1, hms, hklt, hx, and_self, if_true, eu, e2]
          cases b
          · simp
          · simp only [if_true, hor]
        · cases b
          · simp; omega
          · simp only [if_true]; omega
      · -- the extra bit is missing
        right
        have hnone := nd_getElem?_none hw (by omega : ¬ r1.bitIdx < w.total)
        have e2 := readOne_err hw hr1 (by omega) hnone
        refine ⟨?_, ⟨r1, ?_⟩, by omega⟩
        · unfold decOffsetC
          simp only [Parser.bind, hnat, hx, if_true]
          rw [List.drop_of_length_le (by rw [hw.toBits_length]; omega)]
          rfl
        · unfold decompressOffsetDirty
          simp only [dinfoOf, hrd, h1, hklt, if_true, hx, e2]
    · -- no extra bit
      left
      refine ⟨v, pf.info.k, r1, ?_, ?_, ?_, h2, hr1, hkb, by omega⟩
      · unfold decOffsetC
        simp only [Parser.bind, hnat, hx, if_false, Parser.pure]
        rw [h2]
      · unfold decompressOffsetDirty
        simp only [dinfoOf, hrd, h1, hx, if_false]
        split <;> rfl
      · unfold uncheckedOffsetStep
        simp only [dinfoOf, h1]
        by_cases hklt : pf.info.k < ub
        · have hms : (if pf.info.k = ub then 0 else 2 ^ pf.info.k) = 2 ^ pf.info.k := by
            rw [if_neg (by omega)]
          simp only [hms, hx, and_false, if_false]
        · simp only [hklt, false_and, if_false]
  · -- not even the low bits
    right
    refine ⟨?_, ⟨r, ?_⟩, by omega⟩
    · unfold decOffsetC
      simp only [Parser.bind, nd_readNat_short hw hpl hfit]
    · unfold decompressOffsetDirty
      simp only [dinfoOf, nd_readDiff_short (ub := ub) hfit (by omega)]

/-- the `GcdOp` of the fast path computes the same number: `TrivialGcdOp` is only chosen when every
prefix has `gcd ≤ 1` or a single value -/
def GcdOk (useGcd : Bool) (pf : Prefix) : Prop :=
  ∀ off, off ≤ pf.info.r → getDiff useGcd off pf.gcd = off * pf.gcd

theorem nd_gcdOk_of_use (ps : List Prefix) (pf : Prefix) (hpf : pf ∈ ps) :
    GcdOk (useGcdArithmetic ps) pf := by
  intro off hoff
  unfold getDiff
  by_cases hu : useGcdArithmetic ps = true
  · rw [if_pos hu]
  · rw [if_neg hu]
    have hu' : useGcdArithmetic ps = false := by simpa using hu
    unfold useGcdArithmetic at hu'
    rw [List.any_eq_false] at hu'
    have := hu' pf hpf
    simp only [Bool.and_eq_true, decide_eq_true_eq, bne_iff_ne, ne_eq, not_and, Decidable.not_not] at this
    by_cases hg : pf.gcd > 1
    · have he := this hg
      have hr0 : pf.info.r = 0 := by
        show (pf.upper - pf.lower) / pf.gcd = 0
        rw [he, Nat.sub_self, Nat.zero_div]
      have : off = 0 := by omega
      subst this; simp
    · have : pf.gcd = 0 ∨ pf.gcd = 1 := by omega
      rcases this with h0 | h1
      · have hr0 : pf.info.r = 0 := by
          show (pf.upper - pf.lower) / pf.gcd = 0
          rw [h0, Nat.div_zero]
        have : off = 0 := by omega
        subst this; simp
      · rw [h1, Nat.mul_one]

/-! ### `decompress_offsets` against the drain of a run -/

theorem nd_decompressOffsets_succ_ok {ub : Nat} {w : Words} {p : DInfo} {reps : Nat} {r r1 : Reader}
    {us us1 : List Nat} (h : decompressOffsetDirty ub w p r us = (.ok (), us1, r1)) :
    decompressOffsets ub w p (reps + 1) r us = decompressOffsets ub w p reps r1 us1 := by
  simp only [decompressOffsets, h]

theorem nd_decompressOffsets_succ_err {ub : Nat} {w : Words} {p : DInfo} {reps : Nat} {r r1 : Reader}
    {us us1 : List Nat} {e : String} (h : decompressOffsetDirty ub w p r us = (.err e, us1, r1)) :
    decompressOffsets ub w p (reps + 1) r us = (.err e, us1, Reader.seekTo r.bitIdx) := by
  simp only [decompressOffsets, h]

theorem nd_uncheckedLoop_succ_ok {ub : Nat} {useGcd : Bool} {w : Words} {p : DInfo} {reps : Nat}
    {r r1 : Reader} {us us1 : List Nat}
    (h : uncheckedOffsetStep ub useGcd w p r us = (.ok (), us1, r1)) :
    uncheckedOffsetsLoop ub useGcd w p (reps + 1) r us = uncheckedOffsetsLoop ub useGcd w p reps r1 us1 := by
  simp only [uncheckedOffsetsLoop, h]

/-- **`decompress_offsets(p, reps)` against the abstract drain from the run state `(idx, R)`**:
same numbers, same reader position (on `InsufficientData`: after the last complete number), result
`Ok` iff the drain decoded all `reps` numbers; the state the drain ends in is what the callers store
in `incomplete_prefix` (`R - decoded`, `None` when that is zero).  When everything was decoded the
unchecked loop does the same. -/
theorem nd_offsets_spec {ub : Nat} {w : Words} (hw : w.WF) (hsz : 64 * w.ws.length + 1024 < USIZE)
    (hub128 : ub ≤ 128) (L : Matcher) (t : Table) (idx : Nat) (pf : Prefix) (hinfo : t.info idx = pf.info)
    (hub : pf.info.r < 2 ^ ub) (useGcd : Bool) (hg : GcdOk useGcd pf) :
    ∀ (reps R : Nat) (r : Reader) (us : List Nat), RInv w r → reps ≤ R → 1 ≤ R →
      ∀ xs st' rest why,
        drainR (unitL L t) reps (some (idx, R), r.bitIdx) (w.toBits.drop r.bitIdx) = (xs, st', rest, why) →
        ∃ r', decompressOffsets ub w (dinfoOf ub pf) reps r us = (resOf why, us ++ xs, r')
          ∧ r'.bitIdx = st'.2 ∧ RInv w r' ∧ rest = w.toBits.drop r'.bitIdx
          ∧ st'.1 = (if R - xs.length = 0 then none else some (idx, R - xs.length))
          ∧ r'.bitIdx ≤ r.bitIdx + xs.length * maxBitsPerOffset pf
          ∧ (why = none ∨ why = some .insufficient)
          ∧ (why = none → xs.length = reps
              ∧ uncheckedOffsetsLoop ub useGcd w (dinfoOf ub pf) reps r us = (.ok (), us ++ xs, r'))
          ∧ (why ≠ none → xs.length < reps ∧ w.total < r'.bitIdx + maxBitsPerOffset pf) := by
  have hlen := hw.total_le
  intro reps
  induction reps with
  | zero =>
    intro R r us hr _ hR xs st' rest why hd
    rw [drainR_zero] at hd
    cases hd
    refine ⟨r, by simp [decompressOffsets, resOf], rfl, hr, rfl, ?_, by simp, Or.inl rfl, ?_, ?_⟩
    · rw [if_neg (by simp; omega)]; rfl
    · intro _; exact ⟨rfl, by simp [uncheckedOffsetsLoop]⟩
    · intro h; exact absurd rfl h
  | succ reps ih =>
    intro R r us hr hle hR xs st' rest why hd
    have hpl := hr.pos_le
    have hunit : unitL L t (some (idx, R), r.bitIdx)
        = Parser.bind (decOffsetC pf.info.r pf.info.k) fun (off, ob) =>
            Parser.pure (pf.info.val off, (if R ≤ 1 then none else some (idx, R - 1), r.bitIdx + ob)) := by
      simp only [unitL, hinfo]
    rcases nd_offset_char (ub := ub) hw hr (by omega) hub128 pf hub useGcd us with
      ⟨off, ob, r1, habs, hlit, hun, hpos, hr1, hob, hoff⟩ | ⟨habs, ⟨r1, hlit⟩, hshort⟩
    · have hu : unitL L t (some (idx, R), r.bitIdx) (w.toBits.drop r.bitIdx)
          = .ok (pf.info.val off, (if R ≤ 1 then none else some (idx, R - 1), r1.bitIdx))
              (w.toBits.drop r1.bitIdx) := by
        rw [hunit]; simp only [Parser.bind, habs, Parser.pure, hpos]
      rw [drainR_succ_ok _ _ _ _ _ _ _ hu] at hd
      rw [nd_decompressOffsets_succ_ok hlit]
      have hun' : uncheckedOffsetStep ub useGcd w (dinfoOf ub pf) r us
          = (.ok (), us ++ [pf.info.val off], r1) := by
        rw [hun, hg off hoff]; rfl
      by_cases hR1 : R ≤ 1
      · have hreps : reps = 0 := by omega
        subst hreps
        rw [if_pos hR1, drainR_zero] at hd
        cases hd
        refine ⟨r1, by simp [decompressOffsets, resOf], rfl, hr1, rfl, ?_, ?_, Or.inl rfl, ?_, ?_⟩
        · rw [if_pos (by simp; omega)]
        · simp only [List.length_singleton, Nat.one_mul]; omega
        · intro _
          refine ⟨rfl, ?_⟩
          rw [nd_uncheckedLoop_succ_ok hun']
          simp [uncheckedOffsetsLoop]
        · intro h; exact absurd rfl h
      · rw [if_neg hR1] at hd
        generalize hD : drainR (unitL L t) reps (some (idx, R - 1), r1.bitIdx) (w.toBits.drop r1.bitIdx) = D at hd
        obtain ⟨xs', st'', rest', why'⟩ := D
        obtain ⟨r', e1, e2, e3, e4, e5, e6, e7, e8, e9⟩ :=
          ih (R - 1) r1 (us ++ [pf.info.val off]) hr1 (by omega) (by omega) _ _ _ _ hD
        cases hd
        refine ⟨r', ?_, e2, e3, e4, ?_, ?_, e7, ?_, ?_⟩
        · rw [e1]; simp
        · rw [e5]
          simp only [List.length_cons]
          have : R - 1 - xs'.length = R - (xs'.length + 1) := by omega
          rw [this]
        · simp only [List.length_cons, Nat.add_mul, Nat.one_mul]
          omega
        · intro hn
          obtain ⟨h1, h2⟩ := e8 hn
          refine ⟨by simp [h1], ?_⟩
          rw [nd_uncheckedLoop_succ_ok hun', h2]
          simp
        · intro hn
          obtain ⟨h1, h2⟩ := e9 hn
          exact ⟨by simp only [List.length_cons]; omega, h2⟩
    · have hu : unitL L t (some (idx, R), r.bitIdx) (w.toBits.drop r.bitIdx) = .insufficient := by
        rw [hunit]; simp only [Parser.bind, habs]
      rw [drainR_succ_insufficient _ _ _ _ hu] at hd
      cases hd
      rw [nd_decompressOffsets_succ_err hlit]
      refine ⟨Reader.seekTo r.bitIdx, by simp [resOf], by rw [seekTo_bitIdx], nd_rinv_seekTo hpl,
        by rw [seekTo_bitIdx], ?_, by rw [seekTo_bitIdx]; simp, Or.inr rfl, ?_, ?_⟩
      · rw [if_neg (by simp; omega)]; rfl
      · intro h; cases h
      · intro _
        rw [seekTo_bitIdx]
        exact ⟨by simp, hshort⟩

/-! ### the unchecked offsets -/

/-- a table holding just the info of `pf`, to run the abstract drain as a vehicle -/
def soloTable (pf : Prefix) : Table := { codes := [], infos := [pf.info] }

/-- with `k = 0` no bit is read: `decompress_offsets` pushes `lower` `reps` times (what the
`reps > 1 && p.k == 0` shortcut of the unchecked version does) -/
theorem nd_offsets_k0 {ub : Nat} {w : Words} (pf : Prefix) (hk : pf.info.k = 0) :
    ∀ (reps : Nat) (r : Reader) (us : List Nat), r.bitIdx ≤ w.total → r.bitIdx < USIZE →
      decompressOffsets ub w (dinfoOf ub pf) reps r us = (.ok (), us ++ List.replicate reps pf.lower, r) := by
  have hklo := nd_info_k_lo pf
  have hkhi := nd_info_k_hi pf
  rw [hk] at hklo hkhi
  have hr0 : pf.info.r = 0 := by omega
  intro reps
  induction reps with
  | zero => intro r us _ _; simp [decompressOffsets]
  | succ reps ih =>
    intro r us hp hsz
    have h1 : decompressOffsetDirty ub w (dinfoOf ub pf) r us = (.ok (), us ++ [pf.lower], r) := by
      unfold decompressOffsetDirty readDiff insufficientDataCheck uncheckedReadDiff
      simp only [dinfoOf, hk, hr0, Nat.add_zero]
      rw [if_neg (by omega), if_neg (by omega)]
      simp
    rw [nd_decompressOffsets_succ_ok h1, ih r _ hp hsz]
    simp [List.replicate_succ]

/-- **`unchecked_decompress_offsets` is `decompress_offsets`** when `reps * max_bits_per_offset`
bits are left: same numbers, same reader, `Ok`, no panic; the reader moves by at most that many
bits. -/
theorem nd_uncheckedOffsets_eq {ub : Nat} {w : Words} (hw : w.WF) (hsz : 64 * w.ws.length + 1024 < USIZE)
    (hub128 : ub ≤ 128) (pf : Prefix) (hub : pf.info.r < 2 ^ ub) (useGcd : Bool) (hg : GcdOk useGcd pf)
    (reps : Nat) (r : Reader) (us : List Nat) (hr : RInv w r)
    (hslack : r.bitIdx + reps * maxBitsPerOffset pf ≤ w.total) :
    ∃ xs r', uncheckedDecompressOffsets ub useGcd w (dinfoOf ub pf) r us reps = (.ok (), us ++ xs, r')
      ∧ decompressOffsets ub w (dinfoOf ub pf) reps r us = (.ok (), us ++ xs, r')
      ∧ xs.length = reps ∧ RInv w r' ∧ r'.bitIdx ≤ r.bitIdx + reps * maxBitsPerOffset pf := by
  have hlen := hw.total_le
  have hpl := hr.pos_le
  have husz : USIZE = 18446744073709551616 := rfl
  -- run the abstract drain as a vehicle
  generalize hD : drainR (unitL matchStride (soloTable pf)) reps (some (0, reps + 1), r.bitIdx)
    (w.toBits.drop r.bitIdx) = D
  obtain ⟨xs, st', rest, why⟩ := D
  obtain ⟨r', e1, _, e3, _, _, e6, _, e8, e9⟩ :=
    nd_offsets_spec hw hsz hub128 matchStride (soloTable pf) 0 pf rfl hub useGcd hg reps (reps + 1) r us hr
      (by omega) (by omega) _ _ _ _ hD
  have hwhy : why = none := by
    apply Classical.byContradiction
    intro hn
    obtain ⟨h1, h2⟩ := e9 hn
    have : (xs.length + 1) * maxBitsPerOffset pf ≤ reps * maxBitsPerOffset pf :=
      Nat.mul_le_mul_right _ h1
    rw [Nat.add_mul, Nat.one_mul] at this
    omega
  subst hwhy
  obtain ⟨hl, hun⟩ := e8 rfl
  rw [hl] at e6
  refine ⟨xs, r', ?_, e1, hl, e3, e6⟩
  unfold uncheckedDecompressOffsets
  by_cases hsc : reps > 1 ∧ (dinfoOf ub pf).k = 0
  · rw [if_pos hsc]
    have hk : pf.info.k = 0 := hsc.2
    have := nd_offsets_k0 (ub := ub) (w := w) pf hk reps r us hpl (by omega)
    rw [this] at e1
    injection e1 with _ e1
    injection e1 with e1 e2
    show (R.ok (), us ++ List.replicate reps pf.lower, r) = _
    rw [e1, e2]
  · rw [if_neg hsc]
    exact hun

end NumDec
end Qco
