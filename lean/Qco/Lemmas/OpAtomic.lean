/-
Helper lemmas for C08 (atomicity / call protocol of the operational decompressor model).
-/
import Qco.Op.Decomp
namespace Qco
namespace Op
open Parser

/-! ### readers -/

/-- case analysis on `with_reader`: the reader is committed iff the closure succeeded; the
closure's state is kept either way -/
theorem withReader_cases {α : Type} (σ : St) (f : Rd → St → Out α × St × Rd)
    (P : Out α × St → Prop)
    (hok : ∀ a σ' rd', f ⟨σ.rest, σ.pos⟩ σ = (.ok a, σ', rd') →
      P (.ok a, { σ' with rest := rd'.bits, pos := rd'.pos }))
    (herr : ∀ e σ' rd', f ⟨σ.rest, σ.pos⟩ σ = (.err e, σ', rd') → P (.err e, σ')) :
    P (withReader σ f) := by
  unfold withReader
  simp only
  split
  · exact hok _ _ _ ‹_›
  · exact herr _ _ _ ‹_›

theorem withReader_err {α : Type} (σ : St) (f : Rd → St → Out α × St × Rd) (e : Err) (σ' : St)
    (rd' : Rd) (h : f ⟨σ.rest, σ.pos⟩ σ = (.err e, σ', rd')) : withReader σ f = (.err e, σ') := by
  unfold withReader; simp only [h]

theorem withReader_ok {α : Type} (σ : St) (f : Rd → St → Out α × St × Rd) (a : α) (σ' : St)
    (rd' : Rd) (h : f ⟨σ.rest, σ.pos⟩ σ = (.ok a, σ', rd')) :
    withReader σ f = (.ok a, { σ' with rest := rd'.bits, pos := rd'.pos }) := by
  unfold withReader; simp only [h]

@[simp] theorem Rd.advance_self (rd : Rd) : rd.advance rd.bits = rd := by
  cases rd; simp [Rd.advance]

theorem Rd.advance_pos_ge (rd : Rd) (r : Bits) : rd.pos ≤ (rd.advance r).pos := by
  simp [Rd.advance]

/-! ### `drainR` -/

section drain
variable {σ : Type} (u : σ → Parser (Nat × σ))

theorem drainR_length_le (m : Nat) (st : σ) (s : Bits) : (drainR u m st s).1.length ≤ m := by
  induction m generalizing st s with
  | zero => simp [drainR]
  | succ m ih =>
    unfold drainR
    split
    · rename_i x st1 r _
      have := ih st1 r
      simp only [List.length_cons]; omega
    · simp
    · simp
    · simp

theorem drainR_why_none (m : Nat) (st : σ) (s : Bits) :
    (drainR u m st s).2.2.2 = none → (drainR u m st s).1.length = m := by
  induction m generalizing st s with
  | zero => simp [drainR]
  | succ m ih =>
    unfold drainR
    split
    · rename_i x st1 r _
      intro h
      have := ih st1 r h
      simp only [List.length_cons]; omega
    · simp
    · simp
    · simp

theorem drainR_why_some (m : Nat) (st : σ) (s : Bits) (e : Err) :
    (drainR u m st s).2.2.2 = some e → (drainR u m st s).1.length < m := by
  induction m generalizing st s with
  | zero => simp [drainR]
  | succ m ih =>
    unfold drainR
    split
    · rename_i x st1 r _
      intro h
      have := ih st1 r h
      simp only [List.length_cons]; omega
    · simp
    · simp
    · simp

theorem drainR_nil (m : Nat) (st : σ) (s : Bits) :
    (drainR u m st s).1 = [] → (drainR u m st s).2.1 = st ∧ (drainR u m st s).2.2.1 = s := by
  cases m with
  | zero => simp [drainR]
  | succ m =>
    unfold drainR
    split <;> simp

end drain

/-! ### number batches -/

theorem drainEmptyByte_ok (rd rd' : Rd) (h : drainEmptyByte rd = .ok rd') :
    ∃ k, k ≤ 7 ∧ rd'.pos = rd.pos + k ∧ (k = 0 → rd' = rd) := by
  unfold drainEmptyByte at h
  simp only at h
  split at h
  · cases h
  · injection h with h
    subst h
    refine ⟨(rd.bits.take ((8 - rd.pos % 8) % 8)).length, ?_, rfl, ?_⟩
    · rw [List.length_take]; omega
    · intro hk
      rw [List.length_take] at hk
      cases rd with
      | mk bits pos =>
        simp only [Rd.mk.injEq]
        simp only at hk
        by_cases hp : (8 - pos % 8) % 8 = 0
        · rw [hp]; simp
        · have : bits.length = 0 := by omega
          have : bits = [] := List.eq_nil_of_length_eq_zero this
          subst this; simp

/-- what a successful dirty batch did -/
theorem numBatchDirty_ok (L : Matcher) (b : Body) (limit : Nat) (eoi : Bool) (rd : Rd)
    (ub : UBatch) (st' : NumSt) (rd' : Rd)
    (h : numBatchDirty L b limit eoi rd = (.ok ub, st', rd')) :
    st'.nProcessed = b.st.nProcessed ∧ st'.bitsProcessed = b.st.bitsProcessed ∧
    ub.us.length ≤ b.n - b.st.nProcessed ∧ ub.us.length ≤ limit ∧
    (ub.finished = false → b.st.nProcessed + ub.us.length < b.n) ∧
    (ub.finished = true → b.n ≤ b.st.nProcessed + ub.us.length) ∧
    (ub.us = [] → st' = b.st ∧ rd' = rd) := by
  unfold numBatchDirty at h
  simp only at h
  split at h
  · rename_i hb
    simp only [Prod.mk.injEq, Out.ok.injEq] at h
    obtain ⟨rfl, rfl, rfl⟩ := h
    simp only [List.length_nil, Nat.zero_le, Nat.add_zero, decide_eq_false_iff_not,
      decide_eq_true_eq, true_and, and_self, implies_true, and_true]
    omega
  · rename_i hb
    generalize hd : drainR (unitL L (tableOf b.ps)) (min (b.n - b.st.nProcessed) limit)
      (b.st.inc, rd.pos) rd.bits = res at h
    have hlen := drainR_length_le (unitL L (tableOf b.ps)) (min (b.n - b.st.nProcessed) limit)
      (b.st.inc, rd.pos) rd.bits
    have hnone := drainR_why_none (unitL L (tableOf b.ps)) (min (b.n - b.st.nProcessed) limit)
      (b.st.inc, rd.pos) rd.bits
    have hsome := drainR_why_some (unitL L (tableOf b.ps)) (min (b.n - b.st.nProcessed) limit)
      (b.st.inc, rd.pos) rd.bits
    have hnil := drainR_nil (unitL L (tableOf b.ps)) (min (b.n - b.st.nProcessed) limit)
      (b.st.inc, rd.pos) rd.bits
    rw [hd] at hlen hnone hsome hnil
    obtain ⟨us, ps', r, why⟩ := res
    simp only at h hlen hnone hsome hnil
    have hfin : ∀ (fin : Bool), (.ok { us := us, finished := fin }, ({ b.st with inc := ps'.1 } : NumSt), rd.advance r)
        = ((.ok ub, st', rd') : Out UBatch × NumSt × Rd) →
        st'.nProcessed = b.st.nProcessed ∧ st'.bitsProcessed = b.st.bitsProcessed ∧
        ub.us = us ∧ ub.finished = fin ∧ (ub.us = [] → st' = b.st ∧ rd' = rd) := by
      intro fin hh
      simp only [Prod.mk.injEq, Out.ok.injEq] at hh
      obtain ⟨rfl, rfl, rfl⟩ := hh
      refine ⟨rfl, rfl, rfl, rfl, ?_⟩
      intro hus
      obtain ⟨h1, h2⟩ := hnil hus
      subst h2
      rw [h1]
      simp
    split at h
    · obtain ⟨h1, h2, h3, h4, h5⟩ := hfin _ h
      have := hnone rfl
      rw [h3] at h5 ⊢; rw [h4]
      refine ⟨h1, h2, by omega, by omega, ?_, ?_, h5⟩
      · simp only [decide_eq_false_iff_not]; omega
      · simp only [decide_eq_true_eq]; omega
    · split at h
      · simp at h
      · obtain ⟨h1, h2, h3, h4, h5⟩ := hfin _ h
        have := hsome _ rfl
        rw [h3] at h5 ⊢; rw [h4]
        refine ⟨h1, h2, by omega, by omega, ?_, ?_, h5⟩
        · intro _; omega
        · simp
    · simp at h

/-- the snapshot/restore of `decompress_unsigneds_limited`: on error the state and the reader
are the initial ones -/
theorem numBatch_err_restores (L : Matcher) (b : Body) (limit : Nat) (eoi : Bool) (rd : Rd)
    (e : Err) (st' : NumSt) (rd' : Rd)
    (h : numBatch L b limit eoi rd = (.err e, st', rd')) : st' = b.st ∧ rd' = rd := by
  unfold numBatch at h
  simp only at h
  split at h
  · split at h
    · simp only [Prod.mk.injEq] at h; exact ⟨h.2.1.symm, h.2.2.symm⟩
    · split at h
      · simp only [Prod.mk.injEq] at h; exact ⟨h.2.1.symm, h.2.2.symm⟩
      · simp at h
  · simp only [Prod.mk.injEq] at h; exact ⟨h.2.1.symm, h.2.2.symm⟩

/-- what a successful batch did -/
theorem numBatch_ok (L : Matcher) (b : Body) (limit : Nat) (eoi : Bool) (rd : Rd)
    (ub : UBatch) (st' : NumSt) (rd' : Rd)
    (h : numBatch L b limit eoi rd = (.ok ub, st', rd')) :
    st'.nProcessed = b.st.nProcessed + ub.us.length ∧
    ub.us.length ≤ b.n - b.st.nProcessed ∧ ub.us.length ≤ limit ∧
    (ub.finished = false → b.st.nProcessed + ub.us.length < b.n) ∧
    (ub.finished = true → b.n ≤ b.st.nProcessed + ub.us.length) ∧
    (ub.us = [] → ub.finished = false → st' = b.st ∧ rd' = rd) ∧
    (ub.us = [] → b.st.bitsProcessed % 8 = 0 → st' = b.st ∧ rd' = rd) := by
  unfold numBatch at h
  simp only at h
  split at h
  · rename_i ub0 st0 rd0 hd
    obtain ⟨h1, h2, h3, h4, h5, h6, h7⟩ := numBatchDirty_ok L b limit eoi rd ub0 st0 rd0 hd
    split at h
    · simp at h
    · rename_i rd'' hfin
      split at h
      · simp at h
      · rename_i hchk
        simp only [Prod.mk.injEq, Out.ok.injEq] at h
        obtain ⟨rfl, rfl, rfl⟩ := h
        refine ⟨by simp [h1], h3, h4, h5, h6, ?_, ?_⟩
        · intro hus hf
          obtain ⟨rfl, rfl⟩ := h7 hus
          simp only [hf] at hfin
          injection hfin with hfin
          subst hfin
          simp [hus]
        · intro hus hbp
          obtain ⟨rfl, rfl⟩ := h7 hus
          cases hf : ub0.finished with
          | false =>
            simp only [hf] at hfin
            injection hfin with hfin
            subst hfin
            simp [hus]
          | true =>
            simp only [hf, if_true] at hfin
            obtain ⟨k, hk7, hkp, hk0⟩ := drainEmptyByte_ok _ _ hfin
            simp only [hf, Bool.true_and, bne_iff_ne, ne_eq, Decidable.not_not] at hchk
            have : k = 0 := by omega
            have := hk0 this
            subst this
            simp [hus]
  · simp at h

theorem reconNums_length (d : DType) (n : Nat) (ms ds : List Nat) :
    (reconNums d n ms ds).1.length = n := by
  induction n generalizing ms ds with
  | zero => simp [reconNums]
  | succ n ih =>
    unfold reconNums
    simp only
    split
    · simp [ih]
    · simp [ih]

@[simp] theorem reconNums_zero (d : DType) (ms ds : List Nat) : reconNums d 0 ms ds = ([], ms) := by
  simp [reconNums]

/-- record eta for the `NumDecompressor` state inside a body -/
theorem Body.st_eta (b : Body) : { b with st := b.st } = b := rfl

theorem nextBatch_err_restores (L : Matcher) (d : DType) (b : Body) (limit : Nat) (eoi : Bool)
    (rd : Rd) (e : Err) (b' : Body) (rd' : Rd)
    (h : nextBatch L d b limit eoi rd = (.err e, b', rd')) : b' = b ∧ rd' = rd := by
  unfold nextBatch at h
  split at h
  · rename_i e0 st0 rd0 hn
    obtain ⟨rfl, rfl⟩ := numBatch_err_restores L b limit eoi rd e0 st0 rd0 hn
    simp only [Prod.mk.injEq] at h
    exact ⟨by rw [← h.2.1], h.2.2.symm⟩
  · simp only at h
    split at h <;> simp at h

/-- a successful `decompress_next_batch`, in terms of the number batch underneath -/
theorem nextBatch_ok (L : Matcher) (d : DType) (b : Body) (limit : Nat) (eoi : Bool)
    (rd : Rd) (nb : NBatch) (b' : Body) (rd' : Rd)
    (h : nextBatch L d b limit eoi rd = (.ok nb, b', rd')) :
    ∃ ub st', numBatch L b limit eoi rd = (.ok ub, st', rd') ∧
      (b.order = 0 → nb.nums.length = ub.us.length ∧ nb.finished = ub.finished ∧
        b' = { b with st := st' }) ∧
      (b.order ≠ 0 → ∃ bs moments',
        bs = (if ub.finished then min limit (b.total - b.numsProcessed) else ub.us.length) ∧
        (bs = 0 → moments' = b.moments) ∧
        nb.nums.length = bs ∧ nb.finished = decide (b.numsProcessed + bs = b.total) ∧
        b' = { b with st := st', moments := moments', numsProcessed := b.numsProcessed + bs }) := by
  unfold nextBatch at h
  split at h
  · simp at h
  · rename_i ub st0 rd0 hn
    simp only at h
    split at h
    · rename_i ho
      simp only [Prod.mk.injEq, Out.ok.injEq] at h
      obtain ⟨rfl, rfl, rfl⟩ := h
      exact ⟨ub, st0, hn, fun _ => ⟨by simp, rfl, rfl⟩, fun h => absurd ho h⟩
    · rename_i ho
      simp only [Prod.mk.injEq, Out.ok.injEq] at h
      obtain ⟨rfl, rfl, rfl⟩ := h
      refine ⟨ub, st0, hn, fun h => absurd h ho, fun _ => ⟨_, _, rfl, ?_, ?_, rfl, rfl⟩⟩
      · intro h0; rw [h0]; simp
      · simp [reconNums_length]

/-! ### the invariant of a body in progress -/

/-- What holds of the body decompressor of every reachable state.
`live`: numbers are left to hand out; the alternative (`n ≤ nProcessed` at a byte-aligned bit
count) is the body of an *empty* chunk as created by `chunk_metadata`, on which `next` answers
`none` (or an error) for ever without touching the state. -/
structure BodyInv (b : Body) : Prop where
  n_le_total : b.n ≤ b.total
  nProcessed_le : b.st.nProcessed ≤ b.n
  nums_le : b.order ≠ 0 → b.st.nProcessed < b.n → b.numsProcessed ≤ b.st.nProcessed
  live_or : (if b.order = 0 then b.st.nProcessed < b.n else b.numsProcessed < b.total) ∨
    (b.n ≤ b.st.nProcessed ∧ b.st.bitsProcessed % 8 = 0)

/-- a batch that hands out no number leaves body and reader alone -/
theorem nextBatch_nil_unchanged (L : Matcher) (d : DType) (b : Body) (limit : Nat) (eoi : Bool)
    (rd : Rd) (nb : NBatch) (b' : Body) (rd' : Rd) (hb : BodyInv b) (hl : 1 ≤ limit)
    (h : nextBatch L d b limit eoi rd = (.ok nb, b', rd')) (hn : nb.nums = []) :
    b' = b ∧ rd' = rd := by
  obtain ⟨ub, st', hnb, h0, h1⟩ := nextBatch_ok L d b limit eoi rd nb b' rd' h
  obtain ⟨k1, k2, k3, k4, k5, k6, k7⟩ := numBatch_ok L b limit eoi rd ub st' rd' hnb
  have hlen : nb.nums.length = 0 := by simp [hn]
  obtain ⟨i1, i2, i3, i4⟩ := hb
  by_cases ho : b.order = 0
  · obtain ⟨a1, a2, a3⟩ := h0 ho
    have hus : ub.us = [] := List.eq_nil_of_length_eq_zero (by omega)
    simp only [ho, if_true] at i4
    have : st' = b.st ∧ rd' = rd := by
      cases hf : ub.finished with
      | false => exact k6 hus hf
      | true =>
        have := k5 hf
        simp only [hus, List.length_nil] at this
        exact k7 hus (by omega)
    obtain ⟨rfl, rfl⟩ := this
    exact ⟨by rw [a3], rfl⟩
  · obtain ⟨bs, ms, a1, a2, a3, a4, a5⟩ := h1 ho
    simp only [ho, if_false] at i4
    have hbs : bs = 0 := by omega
    have : st' = b.st ∧ rd' = rd := by
      cases hf : ub.finished with
      | false =>
        simp only [hf] at a1
        exact k6 (List.eq_nil_of_length_eq_zero (by simp at a1; omega)) hf
      | true =>
        simp only [hf, if_true] at a1
        have hd : b.n ≤ b.st.nProcessed ∧ b.st.bitsProcessed % 8 = 0 := by omega
        exact k7 (List.eq_nil_of_length_eq_zero (by omega)) hd.2
    obtain ⟨rfl, rfl⟩ := this
    refine ⟨?_, rfl⟩
    rw [a5, a2 hbs, hbs]
    cases b; rfl

/-- the body that stays in the state after a batch satisfies the invariant again -/
theorem nextBatch_inv (L : Matcher) (d : DType) (b : Body) (limit : Nat) (eoi : Bool)
    (rd : Rd) (nb : NBatch) (b' : Body) (rd' : Rd) (hb : BodyInv b)
    (h : nextBatch L d b limit eoi rd = (.ok nb, b', rd'))
    (hstay : nb.finished = false ∨ nb.nums = []) : BodyInv b' := by
  obtain ⟨ub, st', hnb, h0, h1⟩ := nextBatch_ok L d b limit eoi rd nb b' rd' h
  obtain ⟨k1, k2, k3, k4, k5, k6, k7⟩ := numBatch_ok L b limit eoi rd ub st' rd' hnb
  obtain ⟨i1, i2, i3, i4⟩ := hb
  -- a drained body stays as it is
  have hdr : b.n ≤ b.st.nProcessed → b.st.bitsProcessed % 8 = 0 → st' = b.st := by
    intro hd1 hd2
    exact (k7 (List.eq_nil_of_length_eq_zero (by omega)) hd2).1
  by_cases ho : b.order = 0
  · obtain ⟨a1, a2, a3⟩ := h0 ho
    simp only [ho, if_true] at i4
    subst a3
    refine ⟨i1, by simp only; omega, fun hh => absurd ho hh, ?_⟩
    simp only [ho, if_true]
    cases hf : ub.finished with
    | false => left; have := k4 hf; omega
    | true =>
      rw [hf] at a2
      have hnil : nb.nums = [] := by
        rcases hstay with h | h
        · rw [h] at a2; cases a2
        · exact h
      have hlen : ub.us.length = 0 := by rw [← a1, hnil]; rfl
      have := k5 hf
      have hd : b.n ≤ b.st.nProcessed ∧ b.st.bitsProcessed % 8 = 0 := by omega
      rw [hdr hd.1 hd.2]
      right; exact hd
  · obtain ⟨bs, ms, a1, a2, a3, a4, a5⟩ := h1 ho
    simp only [ho, if_false] at i4
    subst a5
    refine ⟨i1, by simp only; omega, ?_, ?_⟩
    · intro _ hlt
      simp only at hlt ⊢
      cases hf : ub.finished with
      | false =>
        simp only [hf] at a1
        have := i3 ho (by omega)
        simp at a1; omega
      | true => have := k5 hf; omega
    · simp only [ho, if_false]
      by_cases hd : b.n ≤ b.st.nProcessed ∧ b.st.bitsProcessed % 8 = 0
      · right; rw [hdr hd.1 hd.2]; exact hd
      · have hlive : b.numsProcessed < b.total := by
          rcases i4 with h | h
          · exact h
          · exact absurd h hd
        left
        cases hf : ub.finished with
        | false =>
          simp only [hf] at a1
          have := k4 hf
          have := i3 ho (by omega)
          simp at a1; omega
        | true =>
          simp only [hf, if_true] at a1
          rcases hstay with h | h
          · rw [h] at a4
            have : b.numsProcessed + bs ≠ b.total := by simpa using a4.symm
            omega
          · have : bs = 0 := by rw [← a3, h]; rfl
            omega

end Op
end Qco
