/-
Whole-file refinement, part C: the chunk loop and `simpleDecompress` against `decodeFile`.

Main results
* `simple_refines_gen` : for every input, eager matcher: the operational result is the
  specification's, except that a `insufficient` of the specification may surface as `corrupt` when
  the input is not a whole number of bytes (`drain_empty_byte` does not check that the padding
  bits it skips exist);
* `simple_refines` : the exact `match` statement for whole-byte inputs;
* `simple_ok`, `simple_insufficient` : the two directions for any matcher with `WeakLazyOf`.
-/
import Qco.Lemmas.RefineBody
namespace Qco
open Parser
namespace Op

/-! ### alignment bookkeeping -/

theorem bind_ok {α β : Type} {p : Parser α} {f : α → Parser β} {s : Bits} {b : β} {r : Bits}
    (h : Parser.bind p f s = .ok b r) : ∃ a r1, p s = .ok a r1 ∧ f a r1 = .ok b r := by
  unfold Parser.bind at h
  cases hp : p s with
  | ok a r1 => rw [hp] at h; exact ⟨a, r1, rfl, h⟩
  | insufficient => rw [hp] at h; cases h
  | corrupt => rw [hp] at h; cases h
  | compat => rw [hp] at h; cases h

theorem readBits_ok_length {w : Nat} {s : Bits} {v : Bits} {r : Bits} (h : readBits w s = .ok v r) :
    r.length + w = s.length := by
  rw [readBits_def] at h
  by_cases hl : s.length < w
  · simp [hl] at h
  · simp only [hl, if_false] at h
    injection h with _ hr; subst hr; simp; omega

theorem aligned_consumed {α : Type} (p : Parser α) (s : Bits) (a : α) (r : Bits)
    (h : Parser.aligned p s = .ok a r) : (s.length - r.length) % 8 = 0 := by
  unfold Parser.aligned at h
  cases hp : p s with
  | ok a' r1 =>
    rw [hp] at h
    simp only at h
    obtain ⟨z, r2, hz, h2⟩ := bind_ok h
    have := readBits_ok_length hz
    by_cases hany : z.any id = true
    · simp [hany, Parser.corrupt] at h2
    · simp only [hany, if_false, Bool.false_eq_true, Parser.pure] at h2
      injection h2 with _ hr
      subst hr
      omega
  | insufficient => rw [hp] at h; cases h
  | corrupt => rw [hp] at h; cases h
  | compat => rw [hp] at h; cases h

theorem decFlagBits_consumed (f : Nat) (s : Bits) (b : Bits) (r : Bits) (h : decFlagBits f s = .ok b r) :
    r.length ≤ s.length ∧ (s.length - r.length) % 8 = 0 := by
  induction f generalizing s b with
  | zero => cases h
  | succ f ih =>
    unfold decFlagBits at h
    obtain ⟨b7, r7, h7, h⟩ := bind_ok h
    have l7 := readBits_ok_length h7
    obtain ⟨c, r8, hc, h⟩ := bind_ok h
    have l8 : r8.length + 1 = r7.length := by
      cases r7 with
      | nil => cases hc
      | cons x y => simp only [readBit] at hc; injection hc with _ hr; subst hr; simp
    cases c
    · simp only [Bool.false_eq_true, if_false, Parser.pure] at h
      injection h with _ hr; subst hr; omega
    · simp only [if_true] at h
      obtain ⟨b', r', hrec, h⟩ := bind_ok h
      simp only [Parser.pure] at h
      injection h with _ hr; subst hr
      have := ih r8 b' hrec
      omega

theorem decHeader_consumed (d : DType) (s : Bits) (fl : Flags) (r : Bits) (h : decHeader d s = .ok fl r) :
    r.length ≤ s.length ∧ (s.length - r.length) % 8 = 0 := by
  unfold decHeader at h
  obtain ⟨m, r32, h32, h⟩ := bind_ok h
  have l32 := readNat_ok_length h32
  by_cases hm : m ≠ 0x71636f21
  · rw [if_pos hm] at h; cases h
  · rw [if_neg hm] at h
    obtain ⟨b, r8, h8, h⟩ := bind_ok h
    have l8 := readNat_ok_length h8
    by_cases hb : b ≠ d.headerByte
    · rw [if_pos hb] at h; cases h
    · rw [if_neg hb] at h
      unfold decFlags at h
      obtain ⟨bs, rf, hf, h⟩ := bind_ok h
      have := decFlagBits_consumed _ _ _ _ hf
      unfold flagsOfBits at h
      cases hff : flagsFields bs with
      | none => rw [hff] at h; cases h
      | some f' =>
        rw [hff] at h
        simp only [Parser.pure] at h
        injection h with _ hr; subst hr
        omega

/-- `decBody` is `corrupt` when the table checks fail -/
theorem decBody_checks_fail {fl : Flags} {m : ChunkMeta} (hc : ¬ ChecksOk fl m) (s : Bits) :
    decBody m (bodyCount fl m.n) s = .corrupt := by
  unfold decBody
  by_cases h1 : (m.prefixes.isEmpty && decide (bodyCount fl m.n > 0)) = true
  · simp only [h1, if_true]
  · by_cases h2 : (!m.prefixes.isEmpty && !completeTree (m.prefixes.map (·.code))) = true
    · rw [if_neg h1, if_pos h2]
    · exact absurd ⟨by simpa using h1, by simpa using h2⟩ hc

/-! ### the chunk loop, eager matcher -/

/-- how the outcome of the operational chunk loop relates to that of `decChunks` -/
def LoopRel (d : DType) (fl : Flags) (acc : List Nat) (rlen : Nat) (res : Res (List DChunk))
    (out : Out (List Nat)) : Prop :=
  match res with
  | .ok cs _ => out = .ok (acc ++ (cs.map (chunkVals d fl)).flatten)
  | .insufficient => out = .err .insufficient ∨ (rlen % 8 ≠ 0 ∧ out = .err .corrupt)
  | .corrupt => out = .err .corrupt
  | .compat => out = .err .compat

theorem simpleLoop_succ (L : Matcher) (gb : Nat → Nat) (d : DType) (k : Nat) (σ : St) (acc : List Nat) :
    simpleLoop L gb d (k+1) σ acc =
      match chunkMetadata gb d σ with
      | (.err e, σ') => (.err e, σ')
      | (.ok none, σ') => (.ok acc, σ')
      | (.ok (some _), σ') =>
        match chunkBody L d σ' with
        | (.err e, σ'') => (.err e, σ'')
        | (.ok xs, σ'') => simpleLoop L gb d k σ'' (acc ++ xs) := rfl

theorem loop_refines (gb : Nat → Nat) (d : DType) (fl : Flags) :
    ∀ (F F' : Nat) (r : Bits) (p : Nat) (acc : List Nat),
      p % 8 = 0 → r.length / 8 + 1 ≤ F → r.length / 8 + 1 ≤ F' →
      LoopRel d fl acc r.length (decChunks gb d fl F' r)
        (simpleLoop eagerMatcher gb d F (stIdle fl r p) acc).1 := by
  intro F
  induction F with
  | zero => intros; omega
  | succ k ih =>
    intro F' r p acc hp hF hF'
    cases F' with
    | zero => omega
    | succ k' =>
      have hp' : ¬ (p % 8 ≠ 0) := by omega
      rw [simpleLoop_succ, chunkMetadata_idle]
      simp only [hp', if_false, readChunkMeta, decChunks, Parser.bind]
      cases h8 : readNat 8 r with
      | insufficient => simp [LoopRel]
      | corrupt => simp [LoopRel]
      | compat => simp [LoopRel]
      | ok b r0 =>
        simp only
        have hr0 := readNat_ok_length h8
        by_cases hb : b = Frozen.magicTerminationByte
        · simp [hb, Parser.pure, LoopRel]
        · by_cases hb2 : b = Frozen.magicChunkByte
          · subst hb2
            simp only [hb, if_false, if_true, Parser.map, Parser.bind, decChunkRest]
            cases hm : decChunkMeta gb d fl r0 with
            | insufficient => simp [LoopRel]
            | corrupt => simp [LoopRel]
            | compat => simp [LoopRel]
            | ok m r1 =>
              simp only [Parser.pure]
              have hle1 : r1.length ≤ r0.length := (safe_decChunkMeta gb d fl).rest_le hm
              have hal1 : (r0.length - r1.length) % 8 = 0 := aligned_consumed _ _ _ _ hm
              rcases newBody_cases fl m with ⟨hc, hnb⟩ | ⟨hc, hnb⟩
              · rw [hnb]
                simp only
                have hspec := chunkBody_eager_spec d fl m hc r1 (p + (r.length - r1.length)) (by omega)
                cases hbd : decBody m (bodyCount fl m.n) r1 with
                | ok us r2 =>
                  rw [hbd] at hspec
                  obtain ⟨hcb, hle2, hal2⟩ := hspec
                  rw [hcb]
                  simp only
                  have hrec := ih k' r2 (p + (r.length - r1.length) + (r1.length - r2.length))
                    (acc ++ chunkVals d fl { cm := m, us := us }) (by omega) (by omega) (by omega)
                  cases hdc : decChunks gb d fl k' r2 with
                  | ok cs r3 =>
                    rw [hdc] at hrec
                    simp only [LoopRel] at hrec ⊢
                    rw [hrec]
                    simp
                  | insufficient =>
                    rw [hdc] at hrec
                    simp only [LoopRel] at hrec ⊢
                    rcases hrec with h | ⟨h1, h2⟩
                    · exact Or.inl h
                    · exact Or.inr ⟨by omega, h2⟩
                  | corrupt => rw [hdc] at hrec; exact hrec
                  | compat => rw [hdc] at hrec; exact hrec
                | insufficient =>
                  rw [hbd] at hspec
                  simp only [LoopRel] at hspec ⊢
                  rcases hspec with h | ⟨h1, h2⟩
                  · left
                    generalize chunkBody eagerMatcher d (stBody fl (freshBody fl m) r1 (p + (r.length - r1.length))) = cb at h ⊢
                    obtain ⟨o, σ''⟩ := cb
                    simp only at h; subst h; rfl
                  · right
                    refine ⟨by omega, ?_⟩
                    generalize chunkBody eagerMatcher d (stBody fl (freshBody fl m) r1 (p + (r.length - r1.length))) = cb at h2 ⊢
                    obtain ⟨o, σ''⟩ := cb
                    simp only at h2; subst h2; rfl
                | corrupt =>
                  rw [hbd] at hspec
                  simp only [LoopRel] at hspec ⊢
                  generalize chunkBody eagerMatcher d (stBody fl (freshBody fl m) r1 (p + (r.length - r1.length))) = cb at hspec ⊢
                  obtain ⟨o, σ''⟩ := cb
                  simp only at hspec; subst hspec; rfl
                | compat =>
                  rw [hbd] at hspec
                  simp only [LoopRel] at hspec ⊢
                  generalize chunkBody eagerMatcher d (stBody fl (freshBody fl m) r1 (p + (r.length - r1.length))) = cb at hspec ⊢
                  obtain ⟨o, σ''⟩ := cb
                  simp only at hspec; subst hspec; rfl
              · rw [hnb, decBody_checks_fail hc]
                simp [LoopRel]
          · simp [hb, hb2, Parser.corrupt, LoopRel]

/-! ### `simpleDecompress`, eager matcher -/

theorem simpleDecompress_init (L : Matcher) (gb : Nat → Nat) (d : DType) (s : Bits) :
    simpleDecompress L gb d (write St.init s) =
      match decHeader d s with
      | .ok fl r =>
        (match simpleLoop L gb d (s.length / 8 + 2) (stIdle fl r (s.length - r.length)) [] with
         | (.err e, _) => (.err e, write St.init s)
         | (.ok xs, σ2) => (.ok xs, σ2))
      | .insufficient => (.err .insufficient, write St.init s)
      | .corrupt => (.err .corrupt, write St.init s)
      | .compat => (.err .compat, write St.init s) := by
  unfold simpleDecompress
  rw [header_init]
  cases decHeader d s with
  | ok fl r =>
    simp only
    have : (write St.init s).rest.length = s.length := by simp [write, St.init]
    rw [this]
    generalize simpleLoop L gb d (s.length / 8 + 2) (stIdle fl r (s.length - r.length)) [] = lp
    obtain ⟨o, σ2⟩ := lp
    cases o <;> rfl
  | insufficient => rfl
  | corrupt => rfl
  | compat => rfl

/-- how the outcome of `simpleDecompress` relates to that of `decodeFile` on an input of `slen` bits -/
def FileRel (d : DType) (slen : Nat) (res : Res DFile) (out : Out (List Nat)) : Prop :=
  match res with
  | .ok f _ => out = .ok (fileVals d f).flatten
  | .insufficient => out = .err .insufficient ∨ (slen % 8 ≠ 0 ∧ out = .err .corrupt)
  | .corrupt => out = .err .corrupt
  | .compat => out = .err .compat

/-- whole-file refinement, every input (any number of bits), eager matcher -/
theorem simple_refines_gen (gb : Nat → Nat) (d : DType) (s : Bits) :
    FileRel d s.length (decodeFile gb d s) (simpleDecompress eagerMatcher gb d (write St.init s)).1 := by
  rw [simpleDecompress_init, decodeFile_eq_fuel]
  unfold decodeFileFuel
  simp only [Parser.bind]
  cases hh : decHeader d s with
  | insufficient => simp [FileRel]
  | corrupt => simp [FileRel]
  | compat => simp [FileRel]
  | ok fl r =>
    simp only
    obtain ⟨hle, hal⟩ := decHeader_consumed d s fl r hh
    have hloop := loop_refines gb d fl (s.length / 8 + 2) (s.length / 8 + 1) r (s.length - r.length) []
      hal (by omega) (by omega)
    generalize simpleLoop eagerMatcher gb d (s.length / 8 + 2) (stIdle fl r (s.length - r.length)) [] = lp at hloop ⊢
    obtain ⟨o, σ2⟩ := lp
    cases hdc : decChunks gb d fl (s.length / 8 + 1) r with
    | ok cs r3 =>
      rw [hdc] at hloop
      simp only [LoopRel, List.nil_append] at hloop
      subst hloop
      simp [FileRel, Parser.pure, fileVals]
    | insufficient =>
      rw [hdc] at hloop
      simp only [LoopRel] at hloop
      simp only [FileRel]
      rcases hloop with h | ⟨h1, h2⟩
      · subst h; exact Or.inl rfl
      · subst h2; exact Or.inr ⟨by omega, rfl⟩
    | corrupt =>
      rw [hdc] at hloop
      simp only [LoopRel] at hloop
      subst hloop
      simp [FileRel]
    | compat =>
      rw [hdc] at hloop
      simp only [LoopRel] at hloop
      subst hloop
      simp [FileRel]

/-- whole-file refinement for inputs that are a whole number of bytes (what `Write::write`
delivers): the operational result is exactly the specification's -/
theorem simple_refines (gb : Nat → Nat) (d : DType) (s : Bits) (hs : s.length % 8 = 0) :
    (simpleDecompress eagerMatcher gb d (write St.init s)).1 =
      match decodeFile gb d s with
      | .ok f _ => .ok (fileVals d f).flatten
      | .insufficient => .err .insufficient
      | .corrupt => .err .corrupt
      | .compat => .err .compat := by
  have h := simple_refines_gen gb d s
  cases hd : decodeFile gb d s with
  | ok f r => rw [hd] at h; exact h
  | insufficient =>
    rw [hd] at h
    rcases h with h | ⟨h1, _⟩
    · exact h
    · exact absurd hs h1
  | corrupt => rw [hd] at h; exact h
  | compat => rw [hd] at h; exact h

/-! ### lazy matchers -/

theorem readChunkMeta_ok_length {gb : Nat → Nat} {d : DType} {fl : Flags} {r : Bits}
    {a : Option ChunkMeta} {r' : Bits} (h : readChunkMeta gb d fl r = .ok a r') : 8 ≤ r.length := by
  unfold readChunkMeta at h
  obtain ⟨b, r0, h8, _⟩ := bind_ok h
  have := readNat_ok_length h8
  omega

/-- the three ways `chunkMetadata` can answer between chunks -/
theorem chunkMetadata_idle_cases (gb : Nat → Nat) (d : DType) (fl : Flags) (r : Bits) (p : Nat) :
    (∃ e σ', chunkMetadata gb d (stIdle fl r p) = (.err e, σ')) ∨
    (∃ σ', chunkMetadata gb d (stIdle fl r p) = (.ok none, σ') ∧ 8 ≤ r.length) ∨
    (∃ m r' p', chunkMetadata gb d (stIdle fl r p) = (.ok (some m), stBody fl (freshBody fl m) r' p') ∧
      ChecksOk fl m ∧ 8 ≤ r.length) := by
  rw [chunkMetadata_idle]
  by_cases hp : p % 8 ≠ 0
  · left; exact ⟨_, _, by rw [if_pos hp]⟩
  · rw [if_neg hp]
    cases hr : readChunkMeta gb d fl r with
    | ok a r' =>
      have h8 := readChunkMeta_ok_length hr
      cases a with
      | none => right; left; exact ⟨_, rfl, h8⟩
      | some m =>
        simp only
        rcases newBody_cases fl m with ⟨hc, hnb⟩ | ⟨hc, hnb⟩
        · right; right; rw [hnb]; exact ⟨m, _, _, rfl, hc, h8⟩
        · left; rw [hnb]; exact ⟨_, _, rfl⟩
    | insufficient => left; exact ⟨_, _, rfl⟩
    | corrupt => left; exact ⟨_, _, rfl⟩
    | compat => left; exact ⟨_, _, rfl⟩

/-- a successful `chunkBody` leaves the decoder between chunks -/
theorem chunkBody_ok_shape (L : Matcher) (d : DType) (fl : Flags) (b : Body) (r : Bits) (p : Nat)
    (xs : List Nat) (σ' : St) (h : chunkBody L d (stBody fl b r p) = (.ok xs, σ')) :
    ∃ r' p', σ' = stIdle fl r' p' := by
  rw [chunkBody_body] at h
  generalize nextBatch L d b (b.total + b.n + 1) true ⟨r, p⟩ = res at h
  obtain ⟨o, b', rd'⟩ := res
  cases o with
  | ok nb => simp only at h; injection h with _ h2; exact ⟨_, _, h2.symm⟩
  | err e => simp only at h; cases h

/-- the loop only succeeds on at least one byte -/
theorem simpleLoop_ok_length (L : Matcher) (gb : Nat → Nat) (d : DType) (fl : Flags) (F : Nat)
    (r : Bits) (p : Nat) (acc xs : List Nat) (σ2 : St)
    (h : simpleLoop L gb d F (stIdle fl r p) acc = (.ok xs, σ2)) : 8 ≤ r.length := by
  cases F with
  | zero => cases h
  | succ k =>
    rw [simpleLoop_succ] at h
    rcases chunkMetadata_idle_cases gb d fl r p with ⟨e, σ', hcm⟩ | ⟨σ', hcm, h8⟩ | ⟨m, r', p', hcm, _, h8⟩
    · rw [hcm] at h; cases h
    · exact h8
    · exact h8

/-- a lazy matcher changes the outcome of the chunk loop only into `insufficient` -/
theorem loop_lazy (L : Matcher) (hL : WeakLazyOf L) (gb : Nat → Nat) (d : DType) (fl : Flags) :
    ∀ (F : Nat) (r : Bits) (p : Nat) (acc : List Nat),
      simpleLoop L gb d F (stIdle fl r p) acc = simpleLoop eagerMatcher gb d F (stIdle fl r p) acc ∨
      (simpleLoop L gb d F (stIdle fl r p) acc).1 = .err .insufficient := by
  intro F
  induction F with
  | zero => intros; exact Or.inl rfl
  | succ k ih =>
    intro r p acc
    rw [simpleLoop_succ, simpleLoop_succ]
    rcases chunkMetadata_idle_cases gb d fl r p with ⟨e, σ', hcm⟩ | ⟨σ', hcm, h8⟩ | ⟨m, r', p', hcm, hc, h8⟩
    · rw [hcm]; exact Or.inl rfl
    · rw [hcm]; exact Or.inl rfl
    · rw [hcm]
      simp only
      rcases chunkBody_lazy L hL d fl m hc r' p' with h | h
      · rw [h]
        cases hcb : chunkBody eagerMatcher d (stBody fl (freshBody fl m) r' p') with
        | mk o σ'' =>
          cases o with
          | err e => exact Or.inl rfl
          | ok ys =>
            obtain ⟨r'', p'', rfl⟩ := chunkBody_ok_shape _ d fl _ r' p' ys σ'' hcb
            exact ih r'' p'' (acc ++ ys)
      · rw [h]; exact Or.inr rfl

/-- … and not at all when the eager loop succeeds (every chunk body is then followed by the magic
byte of the next chunk or the termination byte, i.e. by 8 ≥ `lookahead` bits) -/
theorem loop_lazy_ok (L : Matcher) (hL : WeakLazyOf L) (gb : Nat → Nat) (d : DType) (fl : Flags) :
    ∀ (F : Nat) (r : Bits) (p : Nat) (acc xs : List Nat) (σ2 : St),
      simpleLoop eagerMatcher gb d F (stIdle fl r p) acc = (.ok xs, σ2) →
      simpleLoop L gb d F (stIdle fl r p) acc = (.ok xs, σ2) := by
  intro F
  induction F with
  | zero => intro r p acc xs σ2 h; cases h
  | succ k ih =>
    intro r p acc xs σ2 h
    rw [simpleLoop_succ] at h ⊢
    rcases chunkMetadata_idle_cases gb d fl r p with ⟨e, σ', hcm⟩ | ⟨σ', hcm, h8⟩ | ⟨m, r', p', hcm, hc, h8⟩
    · rw [hcm] at h; cases h
    · rw [hcm] at h ⊢; exact h
    · rw [hcm] at h ⊢
      simp only at h ⊢
      cases hcb : chunkBody eagerMatcher d (stBody fl (freshBody fl m) r' p') with
      | mk o σ'' =>
        rw [hcb] at h
        cases o with
        | err e => cases h
        | ok ys =>
          simp only at h
          obtain ⟨r'', p'', rfl⟩ := chunkBody_ok_shape _ d fl _ r' p' ys σ'' hcb
          have hlen := simpleLoop_ok_length eagerMatcher gb d fl k r'' p'' _ xs σ2 h
          have hl := chunkBody_lazy_slack L hL d fl m hc r' p' ys _ hcb
            (by simp only [stIdle, lookahead]; omega)
          rw [hl]
          exact ih r'' p'' _ xs σ2 h

theorem simple_lazy (L : Matcher) (hL : WeakLazyOf L) (gb : Nat → Nat) (d : DType) (s : Bits) :
    (simpleDecompress L gb d (write St.init s)).1 = (simpleDecompress eagerMatcher gb d (write St.init s)).1 ∨
      (simpleDecompress L gb d (write St.init s)).1 = .err .insufficient := by
  rw [simpleDecompress_init, simpleDecompress_init]
  cases decHeader d s with
  | ok fl r =>
    simp only
    rcases loop_lazy L hL gb d fl (s.length / 8 + 2) r (s.length - r.length) [] with h | h
    · rw [h]; exact Or.inl rfl
    · right
      generalize simpleLoop L gb d (s.length / 8 + 2) (stIdle fl r (s.length - r.length)) [] = lp at h ⊢
      obtain ⟨o, σ2⟩ := lp
      simp only at h; subst h; rfl
  | insufficient => exact Or.inl rfl
  | corrupt => exact Or.inl rfl
  | compat => exact Or.inl rfl

theorem simple_lazy_ok (L : Matcher) (hL : WeakLazyOf L) (gb : Nat → Nat) (d : DType) (s : Bits)
    (xs : List Nat) (h : (simpleDecompress eagerMatcher gb d (write St.init s)).1 = .ok xs) :
    simpleDecompress L gb d (write St.init s) = simpleDecompress eagerMatcher gb d (write St.init s) := by
  rw [simpleDecompress_init] at h ⊢
  rw [simpleDecompress_init]
  cases hh : decHeader d s with
  | ok fl r =>
    rw [hh] at h
    simp only at h ⊢
    cases hl : simpleLoop eagerMatcher gb d (s.length / 8 + 2) (stIdle fl r (s.length - r.length)) [] with
    | mk o σ2 =>
      rw [hl] at h
      cases o with
      | err e => cases h
      | ok ys => rw [loop_lazy_ok L hL gb d fl _ _ _ _ ys σ2 hl]
  | insufficient => rfl
  | corrupt => rfl
  | compat => rfl

/-- 2b (A): whatever the specification decodes, any `WeakLazyOf` matcher decodes (no assumption on
the number of bits, and what follows the termination byte is irrelevant) -/
theorem simple_ok (L : Matcher) (hL : WeakLazyOf L) (gb : Nat → Nat) (d : DType) (s : Bits)
    (f : DFile) (r : Bits) (h : decodeFile gb d s = .ok f r) :
    (simpleDecompress L gb d (write St.init s)).1 = .ok (fileVals d f).flatten := by
  have he := simple_refines_gen gb d s
  rw [h] at he
  simp only [FileRel] at he
  rw [simple_lazy_ok L hL gb d s _ he, he]

/-- 2b (B): on whole-byte inputs, `insufficient` for the specification is `insufficient` for any
`WeakLazyOf` matcher -/
theorem simple_insufficient (L : Matcher) (hL : WeakLazyOf L) (gb : Nat → Nat) (d : DType) (s : Bits)
    (hs : s.length % 8 = 0) (h : decodeFile gb d s = .insufficient) :
    (simpleDecompress L gb d (write St.init s)).1 = .err .insufficient := by
  have he := simple_refines gb d s hs
  rw [h] at he
  rcases simple_lazy L hL gb d s with hl | hl
  · rw [hl, he]
  · exact hl

/-- without the whole-byte assumption: `insufficient` or `corrupt`, never `ok` -/
theorem simple_insufficient_bits (L : Matcher) (hL : WeakLazyOf L) (gb : Nat → Nat) (d : DType) (s : Bits)
    (h : decodeFile gb d s = .insufficient) :
    (simpleDecompress L gb d (write St.init s)).1 = .err .insufficient ∨
      (s.length % 8 ≠ 0 ∧ (simpleDecompress L gb d (write St.init s)).1 = .err .corrupt) := by
  have he := simple_refines_gen gb d s
  rw [h] at he
  simp only [FileRel] at he
  rcases simple_lazy L hL gb d s with hl | hl
  · rw [hl]; exact he
  · exact Or.inl hl

/-- `simpleDecompress` is atomic: an error leaves the state unchanged -/
theorem simple_err_state (L : Matcher) (gb : Nat → Nat) (d : DType) (σ : St) (e : Err)
    (h : (simpleDecompress L gb d σ).1 = .err e) : (simpleDecompress L gb d σ).2 = σ := by
  unfold simpleDecompress at h ⊢
  cases hh : header d σ with
  | mk o σ1 =>
    rw [hh] at h
    cases o with
    | err e' => rfl
    | ok fl =>
      simp only at h ⊢
      cases hl : simpleLoop L gb d (σ.rest.length / 8 + 2) σ1 [] with
      | mk o2 σ2 =>
        rw [hl] at h
        cases o2 with
        | err e' => rfl
        | ok xs => cases h

/-! ### the eager matcher is a `LazyOf` matcher -/

theorem eager_lazyOf : LazyOf eagerMatcher where
  safe := fun _ codes hc => safe_matchCode codes (completeTree_prefixFree codes hc)
  sound := fun _ _ _ _ _ _ h => h
  only_insufficient := by
    intro pos codes s hc
    unfold eagerMatcher
    cases h : matchCode codes s with
    | ok i r => exact Or.inl ⟨i, r, rfl⟩
    | insufficient => exact Or.inr rfl
    | corrupt => exact absurd h (matchCode_complete codes hc s)
    | compat => exact absurd h (matchCode_ne_compat codes s)
  eager_with_slack := fun _ _ _ _ _ _ h _ => h

theorem eager_weakLazyOf : WeakLazyOf eagerMatcher := eager_lazyOf.weak

end Op
end Qco
