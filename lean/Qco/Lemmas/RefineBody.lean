/-
Whole-file refinement, part B: one chunk. The operations `chunkMetadata` / `chunkBody` on the
states `simpleDecompress` goes through, against `readChunkMeta` / `decBody`.
-/
import Qco.Lemmas.RefineUnits
namespace Qco
open Parser
namespace Op

/-! ### the states of a whole-file decode -/

/-- between chunks -/
def stIdle (fl : Flags) (r : Bits) (p : Nat) : St :=
  { rest := r, pos := p, freed := 0, flags := some fl, body := none, terminated := false }

/-- inside a chunk -/
def stBody (fl : Flags) (b : Body) (r : Bits) (p : Nat) : St :=
  { rest := r, pos := p, freed := 0, flags := some fl, body := some b, terminated := false }

/-- the body decompressor `newBody` creates -/
def freshBody (fl : Flags) (m : ChunkMeta) : Body :=
  { n := bodyCount fl m.n, bodyBytes := m.bodyBytes, ps := m.prefixes,
    st := { nProcessed := 0, bitsProcessed := 0, inc := none },
    total := m.n, order := fl.order, moments := m.moments, numsProcessed := 0 }

theorem newBody_eq (fl : Flags) (m : ChunkMeta) :
    newBody fl m =
      if (m.prefixes.isEmpty && decide (bodyCount fl m.n > 0)) = true then .err .corrupt
      else if (!m.prefixes.isEmpty && !completeTree (m.prefixes.map (·.code))) = true then .err .corrupt
      else .ok (freshBody fl m) := rfl

/-- the table checks of `newBody` / `decBody` pass -/
structure ChecksOk (fl : Flags) (m : ChunkMeta) : Prop where
  c1 : (m.prefixes.isEmpty && decide (bodyCount fl m.n > 0)) = false
  c2 : (!m.prefixes.isEmpty && !completeTree (m.prefixes.map (·.code))) = false

theorem newBody_ok {fl : Flags} {m : ChunkMeta} (h : ChecksOk fl m) : newBody fl m = .ok (freshBody fl m) := by
  rw [newBody_eq]; simp [h.c1, h.c2]

theorem newBody_cases (fl : Flags) (m : ChunkMeta) :
    (ChecksOk fl m ∧ newBody fl m = .ok (freshBody fl m)) ∨ (¬ ChecksOk fl m ∧ newBody fl m = .err .corrupt) := by
  rw [newBody_eq]
  by_cases h1 : (m.prefixes.isEmpty && decide (bodyCount fl m.n > 0)) = true
  · right; exact ⟨fun h => (by rw [h.c1] at h1; cases h1), by simp [h1]⟩
  · by_cases h2 : (!m.prefixes.isEmpty && !completeTree (m.prefixes.map (·.code))) = true
    · right; exact ⟨fun h => (by rw [h.c2] at h2; cases h2), by simp [h1, h2]⟩
    · left
      exact ⟨⟨by simpa using h1, by simpa using h2⟩, by simp [h1, h2]⟩

/-- with the checks passed: no units to decode, or a complete prefix code -/
theorem ChecksOk.table {fl : Flags} {m : ChunkMeta} (h : ChecksOk fl m) :
    bodyCount fl m.n = 0 ∨ completeTree (tableOf m.prefixes).codes = true := by
  have h1 := h.c1; have h2 := h.c2
  cases hps : m.prefixes with
  | nil => rw [hps] at h1; left; simpa using h1
  | cons p ps =>
    rw [hps] at h2; right
    simpa [tableOf] using h2

theorem ChecksOk.pf {fl : Flags} {m : ChunkMeta} (h : ChecksOk fl m) : PrefixFree (tableOf m.prefixes).codes :=
  decBody_table_pf m h.c2

/-! ### number batches on a fresh body -/

theorem numBatchDirty_fresh_none (L : Matcher) (fl : Flags) (m : ChunkMeta) (lim : Nat) (r : Bits) (p : Nat)
    (hlim : bodyCount fl m.n ≤ lim)
    (us : List Nat) (ps' : PState) (r1 : Bits)
    (hD : drainR (unitL L (tableOf m.prefixes)) (bodyCount fl m.n) (none, p) r = (us, ps', r1, none)) :
    numBatchDirty L (freshBody fl m) lim true ⟨r, p⟩ =
      (.ok ⟨us, true⟩, ⟨0, 0, ps'.1⟩, ⟨r1, p + (r.length - r1.length)⟩) := by
  unfold numBatchDirty
  have hmin : min (bodyCount fl m.n) lim = bodyCount fl m.n := by omega
  simp only [freshBody, Nat.sub_zero, hmin]
  by_cases hn : bodyCount fl m.n = 0
  · rw [hn, drainR_zero] at hD
    injection hD with h1 h2
    injection h2 with h2 h3
    injection h3 with h3 h4
    subst h1; subst h2; subst h3
    simp [hn]
  · simp only [hn, if_false, hD, Rd.advance]
    simp [hlim]

theorem numBatchDirty_fresh_some (L : Matcher) (fl : Flags) (m : ChunkMeta) (lim : Nat) (r : Bits) (p : Nat)
    (hlim : bodyCount fl m.n ≤ lim)
    (us : List Nat) (ps' : PState) (r1 : Bits) (e : Err)
    (hD : drainR (unitL L (tableOf m.prefixes)) (bodyCount fl m.n) (none, p) r = (us, ps', r1, some e)) :
    numBatchDirty L (freshBody fl m) lim true ⟨r, p⟩ =
      (.err e, ⟨0, 0, ps'.1⟩, ⟨r1, p + (r.length - r1.length)⟩) := by
  unfold numBatchDirty
  have hmin : min (bodyCount fl m.n) lim = bodyCount fl m.n := by omega
  simp only [freshBody, Nat.sub_zero, hmin]
  by_cases hn : bodyCount fl m.n = 0
  · rw [hn, drainR_zero] at hD
    injection hD with h1 h2
    injection h2 with h2 h3
    injection h3 with h3 h4
    cases h4
  · simp only [hn, if_false, hD, Rd.advance]
    cases e <;> rfl

theorem numBatch_fresh_err (L : Matcher) (fl : Flags) (m : ChunkMeta) (lim : Nat) (r : Bits) (p : Nat)
    (hlim : bodyCount fl m.n ≤ lim)
    (us : List Nat) (ps' : PState) (r1 : Bits) (e : Err)
    (hD : drainR (unitL L (tableOf m.prefixes)) (bodyCount fl m.n) (none, p) r = (us, ps', r1, some e)) :
    numBatch L (freshBody fl m) lim true ⟨r, p⟩ = (.err e, (freshBody fl m).st, ⟨r, p⟩) := by
  unfold numBatch
  rw [numBatchDirty_fresh_some L fl m lim r p hlim us ps' r1 e hD]

theorem numBatch_fresh_ok (L : Matcher) (fl : Flags) (m : ChunkMeta) (lim : Nat) (r : Bits) (p : Nat)
    (hlim : bodyCount fl m.n ≤ lim)
    (us : List Nat) (ps' : PState) (r1 : Bits)
    (hD : drainR (unitL L (tableOf m.prefixes)) (bodyCount fl m.n) (none, p) r = (us, ps', r1, none)) :
    numBatch L (freshBody fl m) lim true ⟨r, p⟩ =
      let q := p + (r.length - r1.length)
      let pad := (8 - q % 8) % 8
      if (r1.take pad).any id then (.err .corrupt, (freshBody fl m).st, ⟨r, p⟩)
      else if m.bodyBytes * 8 != 0 + (q + (r1.take pad).length - p) then (.err .corrupt, (freshBody fl m).st, ⟨r, p⟩)
      else (.ok ⟨us, true⟩, ⟨0 + us.length, 0 + (q + (r1.take pad).length - p), ps'.1⟩,
            ⟨r1.drop pad, q + (r1.take pad).length⟩) := by
  unfold numBatch
  rw [numBatchDirty_fresh_none L fl m lim r p hlim us ps' r1 hD]
  simp only [if_true, drainEmptyByte]
  by_cases hz : (r1.take ((8 - (p + (r.length - r1.length)) % 8) % 8)).any id = true
  · simp only [hz, if_true]
  · simp only [hz, if_false, Bool.false_eq_true, Bool.true_and, freshBody]

/-! ### streaming reconstruction = the specification's -/

theorem reconNums_fst (d : DType) (n : Nat) (ms ds : List Nat) :
    (reconNums d n ms ds).1 = (reconstructNums d.signed n ms ds).map d.fromS := by
  induction n generalizing ms ds with
  | zero => rfl
  | succ n ih =>
    cases ds with
    | nil => simp only [reconNums, reconstructNums, List.map_cons, ih]
    | cons dl rest => simp only [reconNums, reconstructNums, List.map_cons, ih]

theorem nextBatch_err (L : Matcher) (d : DType) (b : Body) (lim : Nat) (eoi : Bool) (rd : Rd)
    (e : Err) (st' : NumSt) (rd' : Rd) (h : numBatch L b lim eoi rd = (.err e, st', rd')) :
    nextBatch L d b lim eoi rd = (.err e, { b with st := st' }, rd') := by
  unfold nextBatch; rw [h]

theorem nextBatch_fresh_ok (L : Matcher) (d : DType) (fl : Flags) (m : ChunkMeta) (lim : Nat) (rd : Rd)
    (hlim : m.n ≤ lim) (us : List Nat) (st' : NumSt) (rd' : Rd)
    (h : numBatch L (freshBody fl m) lim true rd = (.ok ⟨us, true⟩, st', rd')) :
    ∃ nb b', nextBatch L d (freshBody fl m) lim true rd = (.ok nb, b', rd') ∧
      nb.nums = chunkVals d fl { cm := m, us := us } := by
  unfold nextBatch; rw [h]
  simp only [freshBody]
  by_cases ho : fl.order = 0
  · simp only [ho, if_true]
    exact ⟨_, _, rfl, by simp [chunkVals, ho]⟩
  · simp only [ho, if_false, if_true]
    have hmin : min lim (m.n - 0) = m.n := by omega
    rw [hmin]
    refine ⟨_, _, rfl, ?_⟩
    simp only [chunkVals, ho, if_false]
    exact reconNums_fst d m.n m.moments _

/-! ### the operations on the states of a whole-file decode -/

theorem chunkMetadata_idle (gb : Nat → Nat) (d : DType) (fl : Flags) (r : Bits) (p : Nat) :
    chunkMetadata gb d (stIdle fl r p) =
      if p % 8 ≠ 0 then (.err .invalid, stIdle fl r p) else
      match readChunkMeta gb d fl r with
      | .ok none r' => (.ok none, stIdle fl r' (p + (r.length - r'.length)))
      | .ok (some m) r' =>
        (match newBody fl m with
         | .err e => (.err e, stIdle fl r p)
         | .ok b => (.ok (some m), stBody fl b r' (p + (r.length - r'.length))))
      | .insufficient => (.err .insufficient, stIdle fl r p)
      | .corrupt => (.err .corrupt, stIdle fl r p)
      | .compat => (.err .compat, stIdle fl r p) := by
  unfold chunkMetadata
  simp only [stIdle, checkNotTerminated, Bool.false_eq_true, if_false, Option.isSome_none, withReader,
    runAligned, runParser]
  by_cases hp : p % 8 ≠ 0
  · simp [hp]
  · simp only [hp, if_false]
    cases readChunkMeta gb d fl r with
    | ok a r' =>
      cases a with
      | none => simp only [Rd.advance]
      | some m =>
        simp only [Rd.advance]
        cases newBody fl m <;> simp only [stBody]
    | insufficient => simp only [resErr]
    | corrupt => simp only [resErr]
    | compat => simp only [resErr]

theorem chunkBody_body (L : Matcher) (d : DType) (fl : Flags) (b : Body) (r : Bits) (p : Nat) :
    chunkBody L d (stBody fl b r p) =
      match nextBatch L d b (b.total + b.n + 1) true ⟨r, p⟩ with
      | (.err e, b', _) => (.err e, stBody fl b' r p)
      | (.ok nb, _, rd') => (.ok nb.nums, stIdle fl rd'.bits rd'.pos) := by
  unfold chunkBody
  simp only [stBody, checkInChunkBody, checkNotTerminated, Bool.false_eq_true, if_false,
    Option.isNone_some, withReader]
  generalize nextBatch L d b (b.total + b.n + 1) true ⟨r, p⟩ = res
  obtain ⟨o, b', rd'⟩ := res
  cases o <;> simp only [stIdle]

theorem header_init (d : DType) (s : Bits) :
    header d (write St.init s) =
      match decHeader d s with
      | .ok fl r => (.ok fl, stIdle fl r (s.length - r.length))
      | .insufficient => (.err .insufficient, write St.init s)
      | .corrupt => (.err .corrupt, write St.init s)
      | .compat => (.err .compat, write St.init s) := by
  unfold header
  simp only [write, St.init, List.nil_append, checkNotTerminated, Bool.false_eq_true, if_false,
    Option.isSome_none, withReader, runAligned, runParser, Nat.zero_mod, ne_eq, not_true_eq_false]
  cases decHeader d s with
  | ok fl r => simp only [Rd.advance, Nat.zero_add, stIdle]
  | insufficient => simp only [resErr]
  | corrupt => simp only [resErr]
  | compat => simp only [resErr]

/-! ### `chunkBody` on a fresh body, from the outcome of the drain -/

/-- the limit `chunkBody` passes -/
theorem fresh_limit (fl : Flags) (m : ChunkMeta) :
    (freshBody fl m).total + (freshBody fl m).n + 1 = m.n + bodyCount fl m.n + 1 := rfl

theorem chunkBody_fresh_some (L : Matcher) (d : DType) (fl : Flags) (m : ChunkMeta) (r : Bits) (p : Nat)
    (us : List Nat) (ps' : PState) (r1 : Bits) (e : Err)
    (hD : drainR (unitL L (tableOf m.prefixes)) (bodyCount fl m.n) (none, p) r = (us, ps', r1, some e)) :
    chunkBody L d (stBody fl (freshBody fl m) r p) = (.err e, stBody fl (freshBody fl m) r p) := by
  rw [chunkBody_body, fresh_limit]
  have h1 := numBatch_fresh_err L fl m (m.n + bodyCount fl m.n + 1) r p (by omega) us ps' r1 e hD
  rw [nextBatch_err L d _ _ _ _ e _ _ h1]

/-- the outcome of `chunkBody` when the drain decoded all units and stopped with `r1` left -/
def bodyOutcome (d : DType) (fl : Flags) (m : ChunkMeta) (r : Bits) (p : Nat) (us : List Nat) (r1 : Bits) :
    Out (List Nat) × St :=
  let q := p + (r.length - r1.length)
  let pad := (8 - q % 8) % 8
  if (r1.take pad).any id then (.err .corrupt, stBody fl (freshBody fl m) r p)
  else if m.bodyBytes * 8 != 0 + (q + (r1.take pad).length - p) then (.err .corrupt, stBody fl (freshBody fl m) r p)
  else (.ok (chunkVals d fl { cm := m, us := us }), stIdle fl (r1.drop pad) (q + (r1.take pad).length))

theorem chunkBody_fresh_none (L : Matcher) (d : DType) (fl : Flags) (m : ChunkMeta) (r : Bits) (p : Nat)
    (us : List Nat) (ps' : PState) (r1 : Bits)
    (hD : drainR (unitL L (tableOf m.prefixes)) (bodyCount fl m.n) (none, p) r = (us, ps', r1, none)) :
    chunkBody L d (stBody fl (freshBody fl m) r p) = bodyOutcome d fl m r p us r1 := by
  rw [chunkBody_body, fresh_limit]
  have h1 := numBatch_fresh_ok L fl m (m.n + bodyCount fl m.n + 1) r p (by omega) us ps' r1 hD
  simp only at h1
  unfold bodyOutcome
  simp only
  by_cases hz : (r1.take ((8 - (p + (r.length - r1.length)) % 8) % 8)).any id = true
  · simp only [hz, if_true] at h1 ⊢
    rw [nextBatch_err L d _ _ _ _ _ _ _ h1]
  · simp only [hz, if_false, Bool.false_eq_true] at h1 ⊢
    by_cases hb : (m.bodyBytes * 8 != 0 + (p + (r.length - r1.length) +
        (r1.take ((8 - (p + (r.length - r1.length)) % 8) % 8)).length - p)) = true
    · simp only [hb, if_true] at h1 ⊢
      rw [nextBatch_err L d _ _ _ _ _ _ _ h1]
    · simp only [hb, if_false, Bool.false_eq_true] at h1 ⊢
      obtain ⟨nb, b', hnb, hnums⟩ := nextBatch_fresh_ok L d fl m _ _ (by omega) us _ _ h1
      rw [hnb]
      simp only [hnums]

/-- the drain result as a tuple of its components -/
theorem drain_tuple {σ : Type} (D : List Nat × σ × Bits × Option Err) : D = (D.1, D.2.1, D.2.2.1, D.2.2.2) := rfl

/-- a lazy matcher changes the outcome of `chunkBody` only into `insufficient` -/
theorem chunkBody_lazy (L : Matcher) (hL : WeakLazyOf L) (d : DType) (fl : Flags) (m : ChunkMeta)
    (hc : ChecksOk fl m) (r : Bits) (p : Nat) :
    chunkBody L d (stBody fl (freshBody fl m) r p) = chunkBody eagerMatcher d (stBody fl (freshBody fl m) r p) ∨
      chunkBody L d (stBody fl (freshBody fl m) r p) = (.err .insufficient, stBody fl (freshBody fl m) r p) := by
  have hcmp : drainR (unitL L (tableOf m.prefixes)) (bodyCount fl m.n) (none, p) r
        = drainR (unitL eagerMatcher (tableOf m.prefixes)) (bodyCount fl m.n) (none, p) r ∨
      (drainR (unitL L (tableOf m.prefixes)) (bodyCount fl m.n) (none, p) r).2.2.2 = some .insufficient := by
    rcases hc.table with h0 | ht
    · rw [h0]; exact Or.inl rfl
    · exact drainR_lazy L hL _ ht _ _ _
  obtain ⟨us, ps', r1, why, hDe⟩ : ∃ us ps' r1 why,
      drainR (unitL eagerMatcher (tableOf m.prefixes)) (bodyCount fl m.n) (none, p) r = (us, ps', r1, why) :=
    ⟨_, _, _, _, rfl⟩
  rcases hcmp with h | h
  · left
    have hDl := h.trans hDe
    cases why with
    | none => rw [chunkBody_fresh_none L d fl m r p _ _ _ hDl, chunkBody_fresh_none eagerMatcher d fl m r p _ _ _ hDe]
    | some e => rw [chunkBody_fresh_some L d fl m r p _ _ _ e hDl, chunkBody_fresh_some eagerMatcher d fl m r p _ _ _ e hDe]
  · right
    obtain ⟨us2, ps2, r2, why2, hDl⟩ : ∃ us ps' r1 why,
        drainR (unitL L (tableOf m.prefixes)) (bodyCount fl m.n) (none, p) r = (us, ps', r1, why) :=
      ⟨_, _, _, _, rfl⟩
    rw [hDl] at h
    simp only at h
    subst h
    exact chunkBody_fresh_some L d fl m r p _ _ _ _ hDl

/-- … and not at all when the eager decode succeeds and leaves `lookahead` bits -/
theorem chunkBody_lazy_slack (L : Matcher) (hL : WeakLazyOf L) (d : DType) (fl : Flags) (m : ChunkMeta)
    (hc : ChecksOk fl m) (r : Bits) (p : Nat) (xs : List Nat) (σ' : St)
    (hok : chunkBody eagerMatcher d (stBody fl (freshBody fl m) r p) = (.ok xs, σ'))
    (hr : lookahead ≤ σ'.rest.length) :
    chunkBody L d (stBody fl (freshBody fl m) r p) = (.ok xs, σ') := by
  obtain ⟨us, ps', r1, why, hDe⟩ : ∃ us ps' r1 why,
      drainR (unitL eagerMatcher (tableOf m.prefixes)) (bodyCount fl m.n) (none, p) r = (us, ps', r1, why) :=
    ⟨_, _, _, _, rfl⟩
  cases why with
  | some e =>
    rw [chunkBody_fresh_some eagerMatcher d fl m r p _ _ _ e hDe] at hok
    cases hok
  | none =>
    have hout := chunkBody_fresh_none eagerMatcher d fl m r p _ _ _ hDe
    rw [hok] at hout
    have hlen : lookahead ≤ r1.length := by
      unfold bodyOutcome at hout
      simp only at hout
      split at hout
      · cases hout
      · split at hout
        · cases hout
        · injection hout with _ h2
          rw [h2] at hr
          simp only [stIdle, List.length_drop] at hr
          omega
    have heq : drainR (unitL L (tableOf m.prefixes)) (bodyCount fl m.n) (none, p) r
        = drainR (unitL eagerMatcher (tableOf m.prefixes)) (bodyCount fl m.n) (none, p) r := by
      rcases hc.table with h0 | ht
      · rw [h0]; rfl
      · apply drainR_lazy_slack L hL _ ht
        · rw [hDe]
        · rw [hDe]; exact hlen
    rw [chunkBody_fresh_none L d fl m r p _ _ _ (heq.trans hDe), hout]

/-! ### the eager `chunkBody` against `decBody` -/

/-- `decBody` from the outcome of `iterUnits` -/
theorem decBody_iter {fl : Flags} {m : ChunkMeta} (hc : ChecksOk fl m) (r : Bits) :
    decBody m (bodyCount fl m.n) r =
      match iterUnits (unit (tableOf m.prefixes)) (bodyCount fl m.n) none r with
      | .ok a r1 =>
        (if r1.length < (8 - (r.length - r1.length) % 8) % 8 then .insufficient
         else if (r1.take ((8 - (r.length - r1.length) % 8) % 8)).any id then .corrupt
         else if r.length - (r1.drop ((8 - (r.length - r1.length) % 8) % 8)).length = m.bodyBytes * 8
           then .ok a.1 (r1.drop ((8 - (r.length - r1.length) % 8) % 8))
           else .corrupt)
      | .insufficient => .insufficient
      | .corrupt => .corrupt
      | .compat => .compat := by
  unfold decBody Parser.aligned
  simp only [hc.c1, hc.c2, Bool.false_eq_true, if_false]
  cases iterUnits (unit (tableOf m.prefixes)) (bodyCount fl m.n) none r with
  | ok a r1 =>
    obtain ⟨us, st⟩ := a
    simp only [Parser.bind, readBits_def]
    by_cases h1 : r1.length < (8 - (r.length - r1.length) % 8) % 8
    · simp only [h1, if_true]
    · simp only [h1, if_false]
      by_cases h2 : (r1.take ((8 - (r.length - r1.length) % 8) % 8)).any id = true
      · simp only [h2, if_true, Parser.corrupt]
      · simp only [h2, if_false, Bool.false_eq_true, Parser.pure]
  | insufficient => rfl
  | corrupt => rfl
  | compat => rfl

/-- one chunk body: the eager operational decoder against the specification -/
theorem chunkBody_eager_spec (d : DType) (fl : Flags) (m : ChunkMeta) (hc : ChecksOk fl m)
    (r : Bits) (p : Nat) (hp : p % 8 = 0) :
    match decBody m (bodyCount fl m.n) r with
    | .ok us r' =>
      chunkBody eagerMatcher d (stBody fl (freshBody fl m) r p)
        = (.ok (chunkVals d fl { cm := m, us := us }), stIdle fl r' (p + (r.length - r'.length))) ∧
      r'.length ≤ r.length ∧ (r.length - r'.length) % 8 = 0
    | .insufficient =>
      (chunkBody eagerMatcher d (stBody fl (freshBody fl m) r p)).1 = .err .insufficient ∨
        (r.length % 8 ≠ 0 ∧ (chunkBody eagerMatcher d (stBody fl (freshBody fl m) r p)).1 = .err .corrupt)
    | .corrupt => (chunkBody eagerMatcher d (stBody fl (freshBody fl m) r p)).1 = .err .corrupt
    | .compat => (chunkBody eagerMatcher d (stBody fl (freshBody fl m) r p)).1 = .err .compat := by
  obtain ⟨us, ps', r1, why, hDe⟩ : ∃ us ps' r1 why,
      drainR (unitL eagerMatcher (tableOf m.prefixes)) (bodyCount fl m.n) (none, p) r = (us, ps', r1, why) :=
    ⟨_, _, _, _, rfl⟩
  obtain ⟨hwhy, hok⟩ := drainR_eager_iter (tableOf m.prefixes) (bodyCount fl m.n) none p r
  rw [hDe] at hwhy hok
  simp only at hwhy hok
  rw [decBody_iter hc r]
  cases hit : iterUnits (unit (tableOf m.prefixes)) (bodyCount fl m.n) none r with
  | ok a r1' =>
    obtain ⟨us', st'⟩ := a
    obtain ⟨e1, e2, e3⟩ := hok us' st' r1' hit
    subst e1; subst e3
    rw [hit] at hwhy
    simp only [whyOf] at hwhy
    subst hwhy
    have hle : r1.length ≤ r.length :=
      (safe_iterUnits _ (safe_unit _ hc.pf) _ _).rest_le hit
    have hbody := chunkBody_fresh_none eagerMatcher d fl m r p _ _ _ hDe
    have hq : (p + (r.length - r1.length)) % 8 = (r.length - r1.length) % 8 := by omega
    unfold bodyOutcome at hbody
    simp only [hq] at hbody
    simp only
    generalize hpad : (8 - (r.length - r1.length) % 8) % 8 = pad at hbody ⊢
    by_cases h1 : r1.length < pad
    · simp only [h1, if_true]
      right
      have htl : (r1.take pad).length = r1.length := by simp only [List.length_take]; omega
      refine ⟨by omega, ?_⟩
      rw [hbody]
      by_cases hz : (r1.take pad).any id = true
      · simp only [hz, if_true]
      · simp only [hz, if_false, Bool.false_eq_true, htl]
        have : (m.bodyBytes * 8 != 0 + (p + (r.length - r1.length) + r1.length - p)) = true := by
          simp only [bne_iff_ne, ne_eq]; omega
        simp only [this, if_true]
    · simp only [h1, if_false]
      have htl : (r1.take pad).length = pad := by simp only [List.length_take]; omega
      by_cases hz : (r1.take pad).any id = true
      · simp only [hz, if_true]
        rw [hbody]; simp only [hz, if_true]
      · simp only [hz, if_false, Bool.false_eq_true]
        have hdl : (r1.drop pad).length = r1.length - pad := by simp
        by_cases hb : r.length - (r1.drop pad).length = m.bodyBytes * 8
        · simp only [hb, if_true]
          have : (m.bodyBytes * 8 != 0 + (p + (r.length - r1.length) + pad - p)) = false := by
            simp only [bne_eq_false_iff_eq]; omega
          rw [hbody]
          simp only [hz, if_false, Bool.false_eq_true, htl, this]
          refine ⟨?_, by omega, by omega⟩
          congr 2
          omega
        · simp only [hb, if_false]
          have : (m.bodyBytes * 8 != 0 + (p + (r.length - r1.length) + pad - p)) = true := by
            simp only [bne_iff_ne, ne_eq]; omega
          rw [hbody]
          simp only [hz, if_false, Bool.false_eq_true, htl, this, if_true]
  | insufficient =>
    rw [hit] at hwhy; simp only [whyOf] at hwhy; subst hwhy
    simp only
    left
    rw [chunkBody_fresh_some eagerMatcher d fl m r p _ _ _ _ hDe]
  | corrupt =>
    rw [hit] at hwhy; simp only [whyOf] at hwhy; subst hwhy
    simp only
    rw [chunkBody_fresh_some eagerMatcher d fl m r p _ _ _ _ hDe]
  | compat =>
    rw [hit] at hwhy; simp only [whyOf] at hwhy; subst hwhy
    simp only
    rw [chunkBody_fresh_some eagerMatcher d fl m r p _ _ _ _ hDe]

end Op
end Qco
