/-
Whole-file refinement: the operational `simpleDecompress` (Qco/Op/Decomp.lean) computes what the
specification decoder `decodeFile` (Qco/Spec/File.lean) says.

Part A: units — `unitL eagerMatcher` is `unit` up to the threaded position; `drainR` vs `iterUnits`;
        a lazy matcher (`WeakLazyOf`) can only turn an answer into `insufficient`, and does not when
        `lookahead` more bits follow.
-/
import Qco.Lemmas.Kraft
import Qco.Op.Lazy
namespace Qco
open Parser

/-- map the value of a parse result -/
def Res.map {α β : Type} (g : α → β) : Res α → Res β
  | .ok a r => .ok (g a) r
  | .insufficient => .insufficient
  | .corrupt => .corrupt
  | .compat => .compat

@[simp] theorem Res.map_ok {α β : Type} (g : α → β) (a : α) (r : Bits) : (Res.ok a r).map g = .ok (g a) r := rfl
@[simp] theorem Res.map_insufficient {α β : Type} (g : α → β) : (Res.insufficient : Res α).map g = .insufficient := rfl
@[simp] theorem Res.map_corrupt {α β : Type} (g : α → β) : (Res.corrupt : Res α).map g = .corrupt := rfl
@[simp] theorem Res.map_compat {α β : Type} (g : α → β) : (Res.compat : Res α).map g = .compat := rfl

theorem Res.map_id' {α : Type} (x : Res α) : x.map (fun a => a) = x := by cases x <;> rfl

/-- compositionality of `Res.map` over `bind` -/
theorem map_bind {α α' β β' : Type} (π : α' → α) (g : β' → β) (p' : Parser α') (p : Parser α)
    (f' : α' → Parser β') (f : α → Parser β) (s : Bits)
    (hp : (p' s).map π = p s) (hf : ∀ a' r, (f' a' r).map g = f (π a') r) :
    (Parser.bind p' f' s).map g = Parser.bind p f s := by
  unfold Parser.bind
  cases h : p' s with
  | ok a' r => rw [h] at hp; simp only [Res.map_ok] at hp; rw [← hp]; exact hf a' r
  | insufficient => rw [h] at hp; rw [← hp]; rfl
  | corrupt => rw [h] at hp; rw [← hp]; rfl
  | compat => rw [h] at hp; rw [← hp]; rfl

namespace Op

/-! ### counting readers -/

theorem decOffsetC_fst (r k : Nat) (s : Bits) : (decOffsetC r k s).map Prod.fst = decOffset r k s := by
  unfold decOffsetC decOffset
  apply map_bind (fun a => a) Prod.fst
  · exact Res.map_id' _
  · intro low r1
    split
    · apply map_bind (fun a => a) Prod.fst
      · exact Res.map_id' _
      · intro b r2; rfl
    · rfl

theorem decVarintHighC_fst (m : Nat) (s : Bits) : (decVarintHighC m s).map Prod.fst = decVarintHigh m s := by
  induction m generalizing s with
  | zero => rfl
  | succ m ih =>
    unfold decVarintHighC decVarintHigh
    apply map_bind (fun a => a) Prod.fst
    · exact Res.map_id' _
    · intro c r1
      cases c
      · rfl
      · simp only [if_true]
        apply map_bind (fun a => a) Prod.fst
        · exact Res.map_id' _
        · intro b r2
          apply map_bind Prod.fst Prod.fst
          · exact ih r2
          · intro a r3; obtain ⟨rest, cnt⟩ := a; rfl

theorem decVarintC_fst (N j : Nat) (s : Bits) : (decVarintC N j s).map Prod.fst = decVarint N j s := by
  unfold decVarintC decVarint
  apply map_bind (fun a => a) Prod.fst
  · exact Res.map_id' _
  · intro low r1
    apply map_bind Prod.fst Prod.fst
    · exact decVarintHighC_fst _ r1
    · intro a r2; obtain ⟨high, cnt⟩ := a; rfl

theorem safe_decOffsetC (r k : Nat) : Safe (decOffsetC r k) :=
  safe_bind (safe_readNat k) (fun _ =>
    safe_ite _ (safe_bind safe_readBit (fun _ => safe_pure _)) (safe_pure _))

theorem safe_decVarintHighC (m : Nat) : Safe (decVarintHighC m) := by
  induction m with
  | zero => exact safe_pure _
  | succ m ih =>
    unfold decVarintHighC
    refine safe_bind safe_readBit (fun c => ?_)
    cases c
    · exact safe_pure _
    · exact safe_bind safe_readBit (fun b => safe_bind ih (fun _ => safe_pure _))

theorem safe_decVarintC (N j : Nat) : Safe (decVarintC N j) :=
  safe_bind (safe_readNat j) (fun _ => safe_bind (safe_decVarintHighC _) (fun _ => safe_pure _))

/-! ### units -/

/-- forget the threaded position -/
def forgetPos (x : Nat × PState) : Nat × UState := (x.1, x.2.1)

/-- with the eager matcher the operational unit is the specification's unit (up to the position) -/
theorem unitL_eager (t : Table) (st : UState) (pos : Nat) (s : Bits) :
    (unitL eagerMatcher t (st, pos) s).map forgetPos = unit t st s := by
  cases st with
  | some pr =>
    obtain ⟨p, rem⟩ := pr
    unfold unitL unit
    apply map_bind Prod.fst forgetPos
    · exact decOffsetC_fst _ _ s
    · intro a r; obtain ⟨off, ob⟩ := a; rfl
  | none =>
    unfold unitL unit eagerMatcher
    apply map_bind (fun a => a) forgetPos
    · exact Res.map_id' _
    · intro p r
      simp only
      generalize (t.info p).jump = jj
      cases jj with
      | none =>
        simp only
        apply map_bind Prod.fst forgetPos
        · exact decOffsetC_fst _ _ r
        · intro a r2; obtain ⟨off, ob⟩ := a; rfl
      | some j =>
        simp only
        apply map_bind Prod.fst forgetPos
        · exact decVarintC_fst _ _ r
        · intro a r2; obtain ⟨m, vb⟩ := a
          apply map_bind Prod.fst forgetPos
          · exact decOffsetC_fst _ _ r2
          · intro a r3; obtain ⟨off, ob⟩ := a; rfl

/-- what follows the code inside a unit is prefix-safe -/
theorem safe_unitL_tail (t : Table) (pos p : Nat) :
    Safe (match (t.info p).jump with
        | none => Parser.bind (decOffsetC (t.info p).r (t.info p).k) fun (off, ob) =>
            Parser.pure ((t.info p).val off, ((none : UState), pos + (t.code p).length + ob))
        | some j => Parser.bind (decVarintC nEntriesBits j) fun (m, vb) =>
            Parser.bind (decOffsetC (t.info p).r (t.info p).k) fun (off, ob) =>
              Parser.pure ((t.info p).val off, (if m = 0 then none else some (p, m), pos + (t.code p).length + vb + ob))) := by
  split
  · exact safe_bind (safe_decOffsetC _ _) (fun _ => safe_pure _)
  · exact safe_bind (safe_decVarintC _ _) (fun _ => safe_bind (safe_decOffsetC _ _) (fun _ => safe_pure _))

/-- a lazy matcher's unit is the eager unit or `insufficient` -/
theorem unitL_lazy (L : Matcher) (hL : WeakLazyOf L) (t : Table) (ht : completeTree t.codes = true)
    (ps : PState) (s : Bits) :
    unitL L t ps s = unitL eagerMatcher t ps s ∨ unitL L t ps s = .insufficient := by
  obtain ⟨st, pos⟩ := ps
  cases st with
  | some pr => obtain ⟨p, rem⟩ := pr; exact Or.inl rfl
  | none =>
    unfold unitL eagerMatcher
    rcases hL.only_insufficient pos t.codes s ht with ⟨i, r, h⟩ | h
    · left
      have h' := hL.sound pos t.codes s i r ht h
      simp only [Parser.bind, h, h']
    · right
      simp only [Parser.bind, h]

/-- … and it is the eager unit when `lookahead` more bits follow the unit -/
theorem unitL_lazy_slack (L : Matcher) (hL : WeakLazyOf L) (t : Table) (ht : completeTree t.codes = true)
    (ps : PState) (s : Bits) (v : Nat × PState) (r : Bits)
    (h : unitL eagerMatcher t ps s = .ok v r) (hr : lookahead ≤ r.length) :
    unitL L t ps s = .ok v r := by
  obtain ⟨st, pos⟩ := ps
  cases st with
  | some pr => obtain ⟨p, rem⟩ := pr; exact h
  | none =>
    unfold unitL eagerMatcher at h
    unfold unitL
    simp only [Parser.bind] at h ⊢
    cases hm : matchCode t.codes s with
    | ok i r1 =>
      rw [hm] at h; simp only at h
      have hle : r.length ≤ r1.length := (safe_unitL_tail t pos i).rest_le h
      rw [hL.eager_with_slack pos t.codes s i r1 ht hm (by omega)]
      exact h
    | insufficient => rw [hm] at h; cases h
    | corrupt => rw [hm] at h; cases h
    | compat => rw [hm] at h; cases h

/-- the rest after an eager unit is not longer than its input -/
theorem unitL_eager_rest_le (t : Table) (hpf : PrefixFree t.codes) (ps : PState) (s : Bits)
    (v : Nat × PState) (r : Bits) (h : unitL eagerMatcher t ps s = .ok v r) : r.length ≤ s.length := by
  obtain ⟨st, pos⟩ := ps
  have := unitL_eager t st pos s
  rw [h] at this
  simp only [Res.map_ok] at this
  exact (safe_unit t hpf st).rest_le this.symm

/-! ### draining -/

theorem drainR_zero {σ : Type} (u : σ → Parser (Nat × σ)) (st : σ) (s : Bits) :
    drainR u 0 st s = ([], st, s, none) := rfl

theorem drainR_succ_ok {σ : Type} (u : σ → Parser (Nat × σ)) (m : Nat) (st : σ) (s : Bits)
    (x : Nat) (st1 : σ) (r : Bits) (h : u st s = .ok (x, st1) r) :
    drainR u (m+1) st s =
      (x :: (drainR u m st1 r).1, (drainR u m st1 r).2.1, (drainR u m st1 r).2.2.1, (drainR u m st1 r).2.2.2) := by
  simp only [drainR, h]

theorem drainR_succ_insufficient {σ : Type} (u : σ → Parser (Nat × σ)) (m : Nat) (st : σ) (s : Bits)
    (h : u st s = .insufficient) : drainR u (m+1) st s = ([], st, s, some .insufficient) := by
  simp only [drainR, h]

theorem drainR_succ_corrupt {σ : Type} (u : σ → Parser (Nat × σ)) (m : Nat) (st : σ) (s : Bits)
    (h : u st s = .corrupt) : drainR u (m+1) st s = ([], st, s, some .corrupt) := by
  simp only [drainR, h]

theorem drainR_succ_compat {σ : Type} (u : σ → Parser (Nat × σ)) (m : Nat) (st : σ) (s : Bits)
    (h : u st s = .compat) : drainR u (m+1) st s = ([], st, s, some .compat) := by
  simp only [drainR, h]

/-- how a drain ended, as an `Option Err`, from a parse result -/
def whyOf {α : Type} : Res α → Option Err
  | .ok _ _ => none
  | .insufficient => some .insufficient
  | .corrupt => some .corrupt
  | .compat => some .compat

/-- eager draining against `iterUnits`: same numbers, same final unit state, same rest when the
`n` units decode; otherwise the drain stops with the reason `iterUnits` fails with -/
theorem drainR_eager_iter (t : Table) (n : Nat) (st : UState) (pos : Nat) (s : Bits) :
    (drainR (unitL eagerMatcher t) n (st, pos) s).2.2.2 = whyOf (iterUnits (unit t) n st s) ∧
    ∀ xs st' r, iterUnits (unit t) n st s = .ok (xs, st') r →
      (drainR (unitL eagerMatcher t) n (st, pos) s).1 = xs ∧
      (drainR (unitL eagerMatcher t) n (st, pos) s).2.1.1 = st' ∧
      (drainR (unitL eagerMatcher t) n (st, pos) s).2.2.1 = r := by
  induction n generalizing st pos s with
  | zero =>
    refine ⟨rfl, ?_⟩
    intro xs st' r h
    simp only [iterUnits, Parser.pure] at h
    injection h with h1 h2
    injection h1 with h3 h4
    subst h3; subst h4; subst h2
    exact ⟨rfl, rfl, rfl⟩
  | succ n ih =>
    have hu := unitL_eager t st pos s
    rw [iterUnits_succ]
    cases hL : unitL eagerMatcher t (st, pos) s with
    | ok v r1 =>
      obtain ⟨x, st1, pos1⟩ := v
      rw [hL] at hu
      simp only [Res.map_ok, forgetPos] at hu
      rw [← hu]
      simp only
      rw [drainR_succ_ok _ _ _ _ x (st1, pos1) r1 hL]
      obtain ⟨ih1, ih2⟩ := ih st1 pos1 r1
      constructor
      · simp only [ih1]
        cases iterUnits (unit t) n st1 r1 with
        | ok w r2 => obtain ⟨xs, st2⟩ := w; rfl
        | insufficient => rfl
        | corrupt => rfl
        | compat => rfl
      · intro xs st' r h
        cases hit : iterUnits (unit t) n st1 r1 with
        | ok w r2 =>
          obtain ⟨xs', st2⟩ := w
          rw [hit] at h
          simp only at h
          injection h with h1 h2
          injection h1 with h3 h4
          subst h3; subst h4; subst h2
          obtain ⟨a, b, c⟩ := ih2 xs' st2 r2 hit
          exact ⟨by rw [a], b, c⟩
        | insufficient => rw [hit] at h; cases h
        | corrupt => rw [hit] at h; cases h
        | compat => rw [hit] at h; cases h
    | insufficient =>
      rw [hL] at hu; simp only [Res.map_insufficient] at hu
      rw [← hu, drainR_succ_insufficient _ _ _ _ hL]
      exact ⟨rfl, by intro xs st' r h; cases h⟩
    | corrupt =>
      rw [hL] at hu; simp only [Res.map_corrupt] at hu
      rw [← hu, drainR_succ_corrupt _ _ _ _ hL]
      exact ⟨rfl, by intro xs st' r h; cases h⟩
    | compat =>
      rw [hL] at hu; simp only [Res.map_compat] at hu
      rw [← hu, drainR_succ_compat _ _ _ _ hL]
      exact ⟨rfl, by intro xs st' r h; cases h⟩

/-- the drain never hands back more than it was given -/
theorem drainR_rest_le {σ : Type} (u : σ → Parser (Nat × σ))
    (hu : ∀ st s v r, u st s = .ok v r → r.length ≤ s.length) (n : Nat) (st : σ) (s : Bits) :
    (drainR u n st s).2.2.1.length ≤ s.length := by
  induction n generalizing st s with
  | zero => exact Nat.le_refl _
  | succ n ih =>
    cases h : u st s with
    | ok v r =>
      obtain ⟨x, st1⟩ := v
      rw [drainR_succ_ok _ _ _ _ x st1 r h]
      exact Nat.le_trans (ih st1 r) (hu st s _ r h)
    | insufficient => rw [drainR_succ_insufficient _ _ _ _ h]; exact Nat.le_refl _
    | corrupt => rw [drainR_succ_corrupt _ _ _ _ h]; exact Nat.le_refl _
    | compat => rw [drainR_succ_compat _ _ _ _ h]; exact Nat.le_refl _

/-- a lazy matcher's drain is the eager drain or stops with `insufficient` -/
theorem drainR_lazy (L : Matcher) (hL : WeakLazyOf L) (t : Table) (ht : completeTree t.codes = true)
    (n : Nat) (ps : PState) (s : Bits) :
    drainR (unitL L t) n ps s = drainR (unitL eagerMatcher t) n ps s ∨
      (drainR (unitL L t) n ps s).2.2.2 = some .insufficient := by
  induction n generalizing ps s with
  | zero => exact Or.inl rfl
  | succ n ih =>
    rcases unitL_lazy L hL t ht ps s with h | h
    · cases he : unitL eagerMatcher t ps s with
      | ok v r =>
        obtain ⟨x, ps1⟩ := v
        rw [he] at h
        rw [drainR_succ_ok _ _ _ _ x ps1 r h, drainR_succ_ok _ _ _ _ x ps1 r he]
        rcases ih ps1 r with h2 | h2
        · left; rw [h2]
        · right; exact h2
      | insufficient =>
        rw [he] at h
        rw [drainR_succ_insufficient _ _ _ _ h, drainR_succ_insufficient _ _ _ _ he]; exact Or.inl rfl
      | corrupt =>
        rw [he] at h
        rw [drainR_succ_corrupt _ _ _ _ h, drainR_succ_corrupt _ _ _ _ he]; exact Or.inl rfl
      | compat =>
        rw [he] at h
        rw [drainR_succ_compat _ _ _ _ h, drainR_succ_compat _ _ _ _ he]; exact Or.inl rfl
    · right
      rw [drainR_succ_insufficient _ _ _ _ h]

/-- … and it is the eager drain when that one succeeds and leaves `lookahead` bits -/
theorem drainR_lazy_slack (L : Matcher) (hL : WeakLazyOf L) (t : Table) (ht : completeTree t.codes = true)
    (n : Nat) (ps : PState) (s : Bits)
    (hok : (drainR (unitL eagerMatcher t) n ps s).2.2.2 = none)
    (hr : lookahead ≤ (drainR (unitL eagerMatcher t) n ps s).2.2.1.length) :
    drainR (unitL L t) n ps s = drainR (unitL eagerMatcher t) n ps s := by
  have hpf := completeTree_prefixFree _ ht
  induction n generalizing ps s with
  | zero => rfl
  | succ n ih =>
    cases he : unitL eagerMatcher t ps s with
    | ok v r =>
      obtain ⟨x, ps1⟩ := v
      rw [drainR_succ_ok _ _ _ _ x ps1 r he] at hok hr ⊢
      simp only at hok hr
      have hle := drainR_rest_le (unitL eagerMatcher t) (unitL_eager_rest_le t hpf) n ps1 r
      have hl := unitL_lazy_slack L hL t ht ps s (x, ps1) r he (by omega)
      rw [drainR_succ_ok _ _ _ _ x ps1 r hl, ih ps1 r hok hr]
    | insufficient => rw [drainR_succ_insufficient _ _ _ _ he] at hok; cases hok
    | corrupt => rw [drainR_succ_corrupt _ _ _ _ he] at hok; cases hok
    | compat => rw [drainR_succ_compat _ _ _ _ he] at hok; cases hok

end Op
end Qco
