/-
S2 — prefix-safety (`Safe`) of every piece of the specification decoder, up to `decodeFile`, and
the consequence for truncated files: every strict prefix (at bit granularity) of a well-formed
file decodes to `insufficient`.
-/
import Qco.Spec.RoundTrip
namespace Qco
open Parser

/-! ### generic combinators -/

theorem safe_readBit : Safe readBit := by
  have : readBit = Parser.bind (readBits 1) (fun bs => Parser.pure (bs.headD false)) := by
    funext s; cases s with
    | nil => simp [readBit, Parser.bind, readBits, splitBits]
    | cons b r => simp [readBit, Parser.bind, readBits, splitBits, Parser.pure]
  rw [this]; exact safe_map (safe_readBits 1) _

theorem safe_pmap {α β : Type} {p : Parser α} (hp : Safe p) (g : α → β) : Safe (Parser.map g p) :=
  safe_map hp g

theorem safe_ite {α : Type} (c : Prop) [Decidable c] {p q : Parser α} (hp : Safe p) (hq : Safe q) :
    Safe (if c then p else q) := by
  split <;> assumption

theorem safe_rep {α : Type} {p : Parser α} (hp : Safe p) (n : Nat) : Safe (Parser.rep p n) := by
  induction n with
  | zero => exact safe_pure _
  | succ n ih => exact safe_bind hp (fun a => safe_bind ih (fun as => safe_pure _))

/-- the always-`insufficient` parser (fuel exhausted) -/
theorem safe_insufficient {α : Type} : Safe (fun _ => Res.insufficient : Parser α) :=
  ⟨(by intro s a r t h; cases h), (by intro s a r h; cases h), (by intro s t h; cases h),
   (by intro s t h; cases h), (by intro s t a r h; cases h)⟩

/-- bind where the continuation also sees the number of bits consumed by the first parser -/
def Parser.bindLen {α β : Type} (p : Parser α) (f : α → Nat → Parser β) : Parser β := fun s =>
  match p s with
  | .ok a r => f a (s.length - r.length) r
  | .insufficient => .insufficient
  | .corrupt => .corrupt
  | .compat => .compat

theorem safe_bindLen {α β : Type} {p : Parser α} {f : α → Nat → Parser β} (hp : Safe p)
    (hf : ∀ a n, Safe (f a n)) : Safe (Parser.bindLen p f) := by
  have hlen : ∀ s a r t, p s = .ok a r → (s ++ t).length - (r ++ t).length = s.length - r.length := by
    intro s a r t h
    obtain ⟨c, rfl⟩ := hp.ok_suffix s a r h
    simp only [List.length_append]; omega
  refine ⟨?_, ?_, ?_, ?_, ?_⟩
  · intro s b r t h
    unfold Parser.bindLen at h ⊢
    cases hps : p s with
    | ok a r1 =>
      rw [hps] at h; simp only at h
      rw [hp.ok_ext s a r1 t hps]; simp only
      rw [hlen s a r1 t hps]
      exact (hf a _).ok_ext r1 b r t h
    | insufficient => rw [hps] at h; simp at h
    | corrupt => rw [hps] at h; simp at h
    | compat => rw [hps] at h; simp at h
  · intro s b r h
    unfold Parser.bindLen at h
    cases hps : p s with
    | ok a r1 =>
      rw [hps] at h; simp only at h
      obtain ⟨c1, rfl⟩ := hp.ok_suffix s a r1 hps
      obtain ⟨c2, rfl⟩ := (hf a _).ok_suffix r1 b r h
      exact ⟨c1 ++ c2, by simp⟩
    | insufficient => rw [hps] at h; simp at h
    | corrupt => rw [hps] at h; simp at h
    | compat => rw [hps] at h; simp at h
  · intro s t h
    unfold Parser.bindLen at h ⊢
    cases hps : p s with
    | ok a r1 =>
      rw [hps] at h; simp only at h
      rw [hp.ok_ext s a r1 t hps]; simp only
      rw [hlen s a r1 t hps]
      exact (hf a _).corrupt_ext r1 t h
    | insufficient => rw [hps] at h; simp at h
    | corrupt => rw [hp.corrupt_ext s t hps]
    | compat => rw [hps] at h; simp at h
  · intro s t h
    unfold Parser.bindLen at h ⊢
    cases hps : p s with
    | ok a r1 =>
      rw [hps] at h; simp only at h
      rw [hp.ok_ext s a r1 t hps]; simp only
      rw [hlen s a r1 t hps]
      exact (hf a _).compat_ext r1 t h
    | insufficient => rw [hps] at h; simp at h
    | corrupt => rw [hps] at h; simp at h
    | compat => rw [hp.compat_ext s t hps]
  · intro s t b r h hl
    unfold Parser.bindLen at h ⊢
    cases hpst : p (s ++ t) with
    | ok a r1 =>
      rw [hpst] at h; simp only at h
      by_cases hc : r1.length < t.length
      · rw [hp.short s t a r1 hpst hc]
      · cases hps : p s with
        | ok a' r1' =>
          have := hp.ok_ext s a' r1' t hps
          rw [hpst] at this
          injection this with ha hr
          subst ha; subst hr
          simp only
          rw [hlen s a r1' t hps] at h
          exact (hf a _).short r1' t b r h hl
        | insufficient => rfl
        | corrupt =>
          have := hp.corrupt_ext s t hps
          rw [hpst] at this; cases this
        | compat =>
          have := hp.compat_ext s t hps
          rw [hpst] at this; cases this
    | insufficient => rw [hpst] at h; simp at h
    | corrupt => rw [hpst] at h; simp at h
    | compat => rw [hpst] at h; simp at h

/-- the padding reader of `aligned`, given the number of bits consumed so far -/
def padReader {α : Type} (a : α) (n : Nat) : Parser α :=
  Parser.bind (readBits ((8 - n % 8) % 8)) fun z => if z.any id then Parser.corrupt else Parser.pure a

theorem aligned_eq_bindLen {α : Type} (p : Parser α) : Parser.aligned p = Parser.bindLen p padReader := by
  funext s
  unfold Parser.aligned Parser.bindLen padReader
  cases p s <;> rfl

theorem safe_padReader {α : Type} (a : α) (n : Nat) : Safe (padReader a n) :=
  safe_bind (safe_readBits _) (fun _ => safe_ite _ safe_corrupt (safe_pure a))

theorem safe_aligned {α : Type} {p : Parser α} (hp : Safe p) : Safe (Parser.aligned p) := by
  rw [aligned_eq_bindLen]; exact safe_bindLen hp safe_padReader

/-- a parser whose fuel is computed from its input is prefix-safe as soon as every fixed-fuel
instance is and the result does not depend on the fuel once there is enough of it -/
theorem safe_fuel {α : Type} (q : Nat → Parser α) (g : Bits → Nat)
    (hg : ∀ s t, g s ≤ g (s ++ t)) (hs : ∀ f, Safe (q f))
    (hstab : ∀ s f f', g s ≤ f → g s ≤ f' → q f s = q f' s) :
    Safe (fun s => q (g s) s) := by
  have key : ∀ s t, q (g (s ++ t)) s = q (g s) s :=
    fun s t => hstab s _ _ (hg s t) (Nat.le_refl _)
  refine ⟨?_, ?_, ?_, ?_, ?_⟩
  · intro s a r t h
    have h' : q (g s) s = .ok a r := h
    rw [← key s t] at h'
    exact (hs _).ok_ext s a r t h'
  · intro s a r h; exact (hs _).ok_suffix s a r h
  · intro s t h
    have h' : q (g s) s = .corrupt := h
    rw [← key s t] at h'
    exact (hs _).corrupt_ext s t h'
  · intro s t h
    have h' : q (g s) s = .compat := h
    rw [← key s t] at h'
    exact (hs _).compat_ext s t h'
  · intro s t a r h hl
    show q (g s) s = .insufficient
    rw [← key s t]
    exact (hs _).short s t a r h hl

/-- consumed bits of a prefix-safe parser: the rest is not longer than the input -/
theorem Parser.Safe.rest_le {α : Type} {p : Parser α} (hp : Safe p) {s : Bits} {a : α} {r : Bits}
    (h : p s = .ok a r) : r.length ≤ s.length := by
  obtain ⟨c, rfl⟩ := hp.ok_suffix s a r h
  simp

/-! ### header and flags -/

theorem safe_decFlagBits (fuel : Nat) : Safe (decFlagBits fuel) := by
  induction fuel with
  | zero => exact safe_insufficient
  | succ fuel ih =>
    unfold decFlagBits
    refine safe_bind (safe_readBits 7) (fun b => safe_bind safe_readBit (fun c => ?_))
    cases c
    · exact safe_pure b
    · exact safe_bind ih (fun rest => safe_pure _)

theorem safe_flagsOfBits (bs : Bits) : Safe (flagsOfBits bs) := by
  unfold flagsOfBits
  split
  · exact safe_compat
  · exact safe_pure _

/-- the flag reader does not depend on the fuel once there is more of it than whole bytes -/
theorem decFlagBits_stable (s : Bits) (f f' : Nat) (h : s.length / 8 + 1 ≤ f) (h' : s.length / 8 + 1 ≤ f') :
    decFlagBits f s = decFlagBits f' s := by
  induction f generalizing f' s with
  | zero => omega
  | succ f ih =>
    cases f' with
    | zero => omega
    | succ f' =>
      simp only [decFlagBits, Parser.bind]
      cases h7 : readBits 7 s with
      | ok b r =>
        simp only
        have hr : r.length + 7 = s.length := by
          rw [readBits_def] at h7
          split at h7
          · cases h7
          · injection h7 with _ hr; subst hr; simp; omega
        cases r with
        | nil => rfl
        | cons c r' =>
          simp only [readBit]
          cases c
          · rfl
          · simp only [if_true]
            have hl : r'.length + 8 = s.length := by simp at hr; omega
            simp only [Parser.bind]
            rw [ih r' f' (by omega) (by omega)]
      | insufficient => rfl
      | corrupt => rfl
      | compat => rfl

theorem safe_decFlags : Safe decFlags := by
  have : decFlags = fun s => (fun f => Parser.bind (decFlagBits f) flagsOfBits) (s.length / 8 + 1) s := rfl
  rw [this]
  apply safe_fuel (fun f => Parser.bind (decFlagBits f) flagsOfBits) (fun s => s.length / 8 + 1)
  · intro s t; simp only [List.length_append]; omega
  · intro f; exact safe_bind (safe_decFlagBits f) safe_flagsOfBits
  · intro s f f' h h'
    simp only [Parser.bind]
    rw [decFlagBits_stable s f f' h h']

theorem safe_decHeader (d : DType) : Safe (decHeader d) := by
  unfold decHeader
  refine safe_bind (safe_readNat 32) (fun m => safe_ite _ safe_corrupt ?_)
  exact safe_bind (safe_readNat 8) (fun b => safe_ite _ safe_corrupt safe_decFlags)

/-! ### chunk metadata -/

theorem safe_decGcd (gb : Nat → Nat) (range : Nat) : Safe (decGcd gb range) := by
  unfold decGcd
  refine safe_bind safe_readBit (fun nt => safe_ite _ ?_ (safe_pure 1))
  exact safe_bind (safe_readNat _) (fun g1 => safe_ite _ safe_corrupt (safe_pure _))

theorem safe_decBound (d : DType) : Safe (decBound d) := by
  unfold decBound
  refine safe_bind (safe_readNat _) (fun raw => ?_)
  split
  · exact safe_pure _
  · exact safe_corrupt

theorem safe_decMoment (ds : DType) : Safe (decMoment ds) :=
  safe_bind (safe_decBound ds) (fun _ => safe_pure _)

theorem safe_decPrefix (gb : Nat → Nat) (d : DType) (fl : Flags) (n : Nat) (common : Option Nat) :
    Safe (decPrefix gb d fl n common) := by
  unfold decPrefix
  refine safe_bind (safe_readNat _) (fun count => safe_bind (safe_decBound d) (fun lower =>
    safe_bind (safe_decBound d) (fun upper => safe_ite _ safe_corrupt ?_)))
  refine safe_bind (safe_readNat _) (fun clen => safe_bind (safe_readBits _) (fun code =>
    safe_bind safe_readBit (fun hj => safe_bind ?_ (fun jump => safe_bind ?_ (fun gcd => safe_pure _)))))
  · exact safe_ite _ (safe_pmap (safe_readNat _) some) (safe_pure none)
  · cases common with
    | none => exact safe_decGcd gb _
    | some g => exact safe_pure g

theorem safe_decPrefixes (gb : Nat → Nat) (d : DType) (fl : Flags) (n : Nat) :
    Safe (decPrefixes gb d fl n) := by
  unfold decPrefixes
  refine safe_bind (safe_readNat _) (fun nPref => safe_bind ?_ (fun commonField =>
    safe_bind (safe_rep (safe_decPrefix gb d fl n _) nPref) (fun ps => safe_pure _)))
  refine safe_ite _ (safe_bind safe_readBit (fun hc => ?_)) (safe_pure none)
  exact safe_ite _ (safe_pmap (safe_decGcd gb _) some) (safe_pure none)

theorem safe_decChunkMeta (gb : Nat → Nat) (d : DType) (fl : Flags) : Safe (decChunkMeta gb d fl) := by
  unfold decChunkMeta
  apply safe_aligned
  refine safe_bind (safe_readNat _) (fun n => safe_bind (safe_readNat _) (fun bodyBytes =>
    safe_bind (safe_rep (safe_decMoment _) _) (fun moments =>
      safe_bind (safe_decPrefixes gb _ fl n) (fun cp => safe_pure _))))

/-! ### prefix codes -/

theorem matchCode_ok {codes : List Bits} {s : Bits} {i : Nat} {r : Bits}
    (h : matchCode codes s = .ok i r) : ∃ hi : i < codes.length, s = codes[i] ++ r := by
  unfold matchCode at h
  cases hf : codes.findIdx? (fun c => c.isPrefixOf s) with
  | none => rw [hf] at h; simp only at h; split at h <;> cases h
  | some j =>
    rw [hf] at h; simp only at h
    injection h with hj hr
    subst hj
    rw [List.findIdx?_eq_some_iff_getElem] at hf
    obtain ⟨hjl, hpj, _⟩ := hf
    refine ⟨hjl, ?_⟩
    have hpj' : codes[j] <+: s := by simpa using hpj
    rw [← hr]
    simp only [List.getD_eq_getElem?_getD, List.getElem?_eq_getElem hjl, Option.getD_some]
    exact (List.prefix_iff_eq_append.mp hpj').symm

theorem matchCode_of_none {codes : List Bits} {s : Bits} (h1 : ∀ c ∈ codes, ¬ c <+: s) :
    matchCode codes s = if codes.any (fun c => s.isPrefixOf c) then .insufficient else .corrupt := by
  unfold matchCode
  have : codes.findIdx? (fun c => c.isPrefixOf s) = none := by
    rw [List.findIdx?_eq_none_iff]
    intro c hc
    rw [Bool.eq_false_iff]
    intro hb
    exact h1 c hc (List.isPrefixOf_iff_prefix.mp hb)
  rw [this]

theorem matchCode_not_ok {codes : List Bits} {s : Bits} (h : ∀ i r, matchCode codes s ≠ .ok i r) :
    ∀ c ∈ codes, ¬ c <+: s := by
  intro c hc hpre
  unfold matchCode at h
  cases hf : codes.findIdx? (fun c => c.isPrefixOf s) with
  | none =>
    rw [List.findIdx?_eq_none_iff] at hf
    have := hf c hc
    rw [← List.isPrefixOf_iff_prefix] at hpre
    rw [hpre] at this; cases this
  | some j => rw [hf] at h; exact h _ _ rfl

theorem matchCode_ne_compat (codes : List Bits) (s : Bits) : matchCode codes s ≠ .compat := by
  unfold matchCode
  split
  · intro h; cases h
  · split <;> (intro h; cases h)

theorem matchCode_corrupt {codes : List Bits} {s : Bits} (h : matchCode codes s = .corrupt) :
    (∀ c ∈ codes, ¬ c <+: s) ∧ (∀ c ∈ codes, ¬ s <+: c) := by
  have h1 : ∀ c ∈ codes, ¬ c <+: s := matchCode_not_ok (by intro i r h'; rw [h] at h'; cases h')
  refine ⟨h1, ?_⟩
  rw [matchCode_of_none h1] at h
  intro c hc hpre
  have : codes.any (fun c => s.isPrefixOf c) = true := by
    rw [List.any_eq_true]
    exact ⟨c, hc, by rw [List.isPrefixOf_iff_prefix]; exact hpre⟩
  rw [this] at h; cases h

theorem matchCode_insufficient_of {codes : List Bits} {s : Bits} (h1 : ∀ c ∈ codes, ¬ c <+: s)
    (c : Bits) (hc : c ∈ codes) (hpre : s <+: c) : matchCode codes s = .insufficient := by
  rw [matchCode_of_none h1]
  have : codes.any (fun c => s.isPrefixOf c) = true := by
    rw [List.any_eq_true]
    exact ⟨c, hc, by rw [List.isPrefixOf_iff_prefix]; exact hpre⟩
  rw [this]; rfl

theorem matchCode_corrupt_of {codes : List Bits} {s : Bits} (h1 : ∀ c ∈ codes, ¬ c <+: s)
    (h2 : ∀ c ∈ codes, ¬ s <+: c) : matchCode codes s = .corrupt := by
  rw [matchCode_of_none h1]
  have : codes.any (fun c => s.isPrefixOf c) = false := by
    rw [List.any_eq_false]
    intro c hc hp
    rw [List.isPrefixOf_iff_prefix] at hp
    exact h2 c hc hp
  rw [this]; rfl

/-- two prefixes of the same list are comparable -/
theorem prefix_total {a b l : Bits} (ha : a <+: l) (hb : b <+: l) : a <+: b ∨ b <+: a := by
  rcases Nat.le_total a.length b.length with h | h
  · exact Or.inl (List.prefix_of_prefix_length_le ha hb h)
  · exact Or.inr (List.prefix_of_prefix_length_le hb ha h)

theorem safe_matchCode (codes : List Bits) (hpf : PrefixFree codes) : Safe (matchCode codes) := by
  refine ⟨?_, ?_, ?_, ?_, ?_⟩
  · intro s i r t h
    obtain ⟨hi, rfl⟩ := matchCode_ok h
    rw [List.append_assoc]
    exact matchCode_code codes hpf i hi (r ++ t)
  · intro s i r h
    obtain ⟨hi, rfl⟩ := matchCode_ok h
    exact ⟨_, rfl⟩
  · intro s t h
    obtain ⟨h1, h2⟩ := matchCode_corrupt h
    apply matchCode_corrupt_of
    · intro c hc hpre
      rcases prefix_total hpre (List.prefix_append s t) with h' | h'
      · exact h1 c hc h'
      · exact h2 c hc h'
    · intro c hc hpre
      exact h2 c hc (List.IsPrefix.trans (List.prefix_append s t) hpre)
  · intro s t h; exact absurd h (matchCode_ne_compat codes s)
  · intro s t i r h hl
    obtain ⟨hi, heq⟩ := matchCode_ok h
    have hlen : s.length < codes[i].length := by
      have := congrArg List.length heq
      simp only [List.length_append] at this; omega
    have hsi : s <+: codes[i] := by
      apply List.prefix_of_prefix_length_le (List.prefix_append s t) _ (Nat.le_of_lt hlen)
      rw [heq]; exact List.prefix_append _ _
    apply matchCode_insufficient_of _ codes[i] (List.getElem_mem hi) hsi
    intro c hc hpre
    obtain ⟨j, hj, rfl⟩ := List.getElem_of_mem hc
    have := hpf j i hj hi (List.IsPrefix.trans hpre hsi)
    subst this
    have := hpre.length_le
    omega

/-! ### chunk body -/

theorem safe_decVarint (N j : Nat) : Safe (decVarint N j) :=
  safe_bind (safe_readNat j) (fun _ => safe_bind (safe_decVarintHigh _) (fun _ => safe_pure _))

theorem safe_decOffset (r k : Nat) : Safe (decOffset r k) :=
  safe_bind (safe_readNat k) (fun _ =>
    safe_ite _ (safe_bind safe_readBit (fun _ => safe_pure _)) (safe_pure _))

theorem safe_unit (t : Table) (hpf : PrefixFree t.codes) (st : UState) : Safe (unit t st) := by
  cases st with
  | some pr =>
    obtain ⟨p, rem⟩ := pr
    exact safe_bind (safe_decOffset _ _) (fun _ => safe_pure _)
  | none =>
    unfold unit
    refine safe_bind (safe_matchCode _ hpf) (fun p => ?_)
    split
    · exact safe_bind (safe_decOffset _ _) (fun _ => safe_pure _)
    · exact safe_bind (safe_decVarint _ _) (fun _ =>
        safe_bind (safe_decOffset _ _) (fun _ => safe_pure _))

theorem safe_iterUnits {σ : Type} (u : σ → Parser (Nat × σ)) (hu : ∀ st, Safe (u st)) (n : Nat) (st : σ) :
    Safe (iterUnits u n st) := by
  induction n generalizing st with
  | zero => exact safe_pure _
  | succ n ih =>
    unfold iterUnits
    exact safe_bind (hu st) (fun a => safe_bind (ih a.2) (fun _ => safe_pure _))

theorem prefixFree_nil : PrefixFree [] := by
  intro i j hi; simp at hi

/-- the table `decBody` parses with is prefix-free whenever its checks pass -/
theorem decBody_table_pf (m : ChunkMeta)
    (h2 : (!m.prefixes.isEmpty && !completeTree (m.prefixes.map (·.code))) = false) :
    PrefixFree (tableOf m.prefixes).codes := by
  cases hps : m.prefixes with
  | nil => exact prefixFree_nil
  | cons p ps =>
    rw [hps] at h2
    simp only [List.isEmpty_cons, Bool.not_false, Bool.true_and, Bool.not_eq_false'] at h2
    exact completeTree_prefixFree _ h2

/-- `decBody` as a combinator expression -/
theorem decBody_eq (m : ChunkMeta) (nBody : Nat) :
    decBody m nBody =
      if (m.prefixes.isEmpty && decide (nBody > 0)) = true then Parser.corrupt
      else if (!m.prefixes.isEmpty && !completeTree (m.prefixes.map (·.code))) = true then Parser.corrupt
      else Parser.bindLen (Parser.aligned (iterUnits (unit (tableOf m.prefixes)) nBody none))
        (fun a n => if n = m.bodyBytes * 8 then Parser.pure a.1 else Parser.corrupt) := by
  funext s
  unfold decBody
  split
  · rfl
  · split
    · rfl
    · unfold Parser.bindLen
      cases Parser.aligned (iterUnits (unit (tableOf m.prefixes)) nBody none) s with
      | ok a r =>
        obtain ⟨us, st⟩ := a
        simp only
        split <;> rfl
      | insufficient => rfl
      | corrupt => rfl
      | compat => rfl

theorem safe_decBody (m : ChunkMeta) (nBody : Nat) : Safe (decBody m nBody) := by
  rw [decBody_eq]
  refine safe_ite _ safe_corrupt ?_
  split
  · exact safe_corrupt
  · rename_i h2
    have hpf := decBody_table_pf m (by simpa using h2)
    refine safe_bindLen (safe_aligned (safe_iterUnits _ (safe_unit _ hpf) _ _)) ?_
    intro a n
    exact safe_ite _ (safe_pure _) safe_corrupt

theorem safe_decChunkRest (gb : Nat → Nat) (d : DType) (fl : Flags) : Safe (decChunkRest gb d fl) :=
  safe_bind (safe_decChunkMeta gb d fl) (fun m => safe_bind (safe_decBody m _) (fun _ => safe_pure _))

theorem safe_decChunks (gb : Nat → Nat) (d : DType) (fl : Flags) (fuel : Nat) :
    Safe (decChunks gb d fl fuel) := by
  induction fuel with
  | zero => exact safe_insufficient
  | succ fuel ih =>
    unfold decChunks
    refine safe_bind (safe_readNat 8) (fun b => safe_ite _ (safe_pure _) (safe_ite _ ?_ safe_corrupt))
    exact safe_bind (safe_decChunkRest gb d fl) (fun c => safe_bind ih (fun cs => safe_pure _))

theorem readNat_ok_length {w : Nat} {s : Bits} {v : Nat} {r : Bits} (h : readNat w s = .ok v r) :
    r.length + w = s.length := by
  unfold readNat at h
  rw [readBits_def] at h
  by_cases hl : s.length < w
  · simp [hl] at h
  · simp only [hl, if_false] at h
    injection h with _ hr; subst hr; simp; omega

/-- the chunk-sequence reader does not depend on the fuel once there is more of it than bytes -/
theorem decChunks_stable (gb : Nat → Nat) (d : DType) (fl : Flags) (s : Bits) (f f' : Nat)
    (h : s.length / 8 + 1 ≤ f) (h' : s.length / 8 + 1 ≤ f') :
    decChunks gb d fl f s = decChunks gb d fl f' s := by
  induction f generalizing f' s with
  | zero => omega
  | succ f ih =>
    cases f' with
    | zero => omega
    | succ f' =>
      simp only [decChunks, Parser.bind]
      cases h8 : readNat 8 s with
      | ok b r =>
        simp only
        have hr := readNat_ok_length h8
        split
        · rfl
        · split
          · simp only [Parser.bind]
            cases hc : decChunkRest gb d fl r with
            | ok c r2 =>
              simp only
              have := (safe_decChunkRest gb d fl).rest_le hc
              rw [ih r2 f' (by omega) (by omega)]
            | insufficient => rfl
            | corrupt => rfl
            | compat => rfl
          · rfl
      | insufficient => rfl
      | corrupt => rfl
      | compat => rfl

/-! ### the whole file -/

/-- the file decoder with an explicit fuel for the chunk sequence -/
def decodeFileFuel (gb : Nat → Nat) (d : DType) (fuel : Nat) : Parser DFile :=
  Parser.bind (decHeader d) fun fl =>
  Parser.bind (decChunks gb d fl fuel) fun cs =>
  Parser.pure { flags := fl, chunks := cs }

theorem decodeFile_eq_fuel (gb : Nat → Nat) (d : DType) (s : Bits) :
    decodeFile gb d s = decodeFileFuel gb d (s.length / 8 + 1) s := rfl

theorem safe_decodeFileFuel (gb : Nat → Nat) (d : DType) (fuel : Nat) : Safe (decodeFileFuel gb d fuel) :=
  safe_bind (safe_decHeader d) (fun fl => safe_bind (safe_decChunks gb d fl fuel) (fun _ => safe_pure _))

theorem decodeFileFuel_stable (gb : Nat → Nat) (d : DType) (s : Bits) (f f' : Nat)
    (h : s.length / 8 + 1 ≤ f) (h' : s.length / 8 + 1 ≤ f') :
    decodeFileFuel gb d f s = decodeFileFuel gb d f' s := by
  simp only [decodeFileFuel, Parser.bind]
  cases hh : decHeader d s with
  | ok fl r =>
    simp only
    have := (safe_decHeader d).rest_le hh
    rw [decChunks_stable gb d fl r f f' (by omega) (by omega)]
  | insufficient => rfl
  | corrupt => rfl
  | compat => rfl

/-- S2: the specification decoder is prefix-safe -/
theorem safe_decodeFile (gb : Nat → Nat) (d : DType) : Safe (decodeFile gb d) := by
  have : decodeFile gb d = fun s => decodeFileFuel gb d (s.length / 8 + 1) s := rfl
  rw [this]
  apply safe_fuel (decodeFileFuel gb d) (fun s => s.length / 8 + 1)
  · intro s t; simp only [List.length_append]; omega
  · exact safe_decodeFileFuel gb d
  · exact decodeFileFuel_stable gb d

/-- every strict prefix, at bit granularity, of a well-formed file is `insufficient` for the
specification decoder -/
theorem decodeFile_truncated (gb : Nat → Nat) (d : DType) (f : AFile) (h : f.WF gb d) (s : Bits)
    (hs : s <+: encodeFile gb d f) (hne : s ≠ encodeFile gb d f) :
    decodeFile gb d s = .insufficient := by
  obtain ⟨t, ht⟩ := hs
  have hfull := decodeFile_encodeFile gb d f h []
  rw [List.append_nil, ← ht] at hfull
  apply (safe_decodeFile gb d).short s t f.toD [] hfull
  cases t with
  | nil => exact absurd (by simpa using ht) hne
  | cons b t => simp

end Qco
