/-
Layer SZ, part 3: what ONE call of the literal `Compressor::chunk` — whose training is the literal `train_prefixes`
— returns and writes, in terms of the trained table (`E2E.trainedTable`) and its greedy blocks.

`literal_chunk_returns`: on a compressor in simulation with an abstract state that accepts the call, for a chunk
satisfying `E2E.ChunkOk`: `chunk` answers `Ok(metadata)`; `metadata.n` is the number of numbers;
`metadata.prefix_metadata.prefixes` is the table `train_prefixes` answered; `8 · metadata.compressed_body_size` is
the length of `encBody` of the greedy blocks of that table; and the writer has grown by exactly `encChunk` of the
writer's chunk.
-/
import Qco.Lemmas.SizeLit.Table
import Qco.Lemmas.E2E.Compose
namespace Qco
namespace SizeLit
open Train TrainLit E2E
open Qco.WB Qco.MetaIO Qco.Op Qco.CompLit

variable {C : Type} {F : Floats} {O : CostOracle C} {pick : Nat → List HItem → Nat} {gb est : Nat → Nat}
  {d : DType} {cfg : CConfig}

theorem encBody_length_mul (ps : List Prefix) (bs : List Block) :
    8 * ((encBody ps bs).length / 8) = (encBody ps bs).length := by
  have := padToByte_length_mod (encBlocks (tableOf ps) bs)
  unfold encBody
  omega

/-- one accepted call of the literal `chunk` with the literal training -/
theorem literal_chunk_returns (hr : RowOk d) (hgb : ∀ x, gb x ≤ d.uBits) (hG : GbTop gb d)
    (hest : BodyWriter.EstOk d.uBits est) (hlev : cfg.level ≤ 12) (hfin : CostFinite O) (hp : PickOK pick)
    {nums : List Nat} (hc : ChunkOk F O pick gb d cfg nums) {l : Comp} {a : CSt} (hs : CSim cfg l a)
    (hacc : Accepted cfg a nums.length) (hsz : a.pending.length + 32 < USIZE) :
    ∃ rm bs, (chunk gb est d (trainOracle F O pick gb d) nums l).1 = .ok rm ∧
      rm.n = nums.length ∧
      rm.prefixMetadata.prefixes = trainedTable F O pick gb d cfg nums ∧
      greedyBlocks (trainedTable F O pick gb d cfg nums) (codedUs d cfg.flags nums).length
        (codedUs d cfg.flags nums) = some bs ∧
      8 * rm.compressedBodySize = (encBody (trainedTable F O pick gb d cfg nums) bs).length ∧
      (chunk gb est d (trainOracle F O pick gb d) nums l).2.writer.bits
        = l.writer.bits ++ encChunk gb d cfg.flags (writerChunk F O pick gb d cfg nums) := by
  have henv : EnvOk gb est d :=
    ⟨hr.2.2.1, hr.1, fun x => Nat.le_trans (hgb x) (Nat.le_max_left _ _), hest⟩
  obtain ⟨htrain, htok, _, _, _⟩ := chunk_facts hr hG hlev hfin hp hc
  obtain ⟨hs', hres⟩ := chunk_refines henv (trainOracle F O pick gb d) nums (trainedTable F O pick gb d cfg nums) hs
    (fun _ => ⟨by rw [internalConfig_eq hs, hs.flags]; exact htrain, htok, hsz⟩)
  obtain ⟨hh, hf, h1, _, hn⟩ := hacc
  generalize hT : trainedOf cfg.flags d nums (trainedTable F O pick gb d cfg nums) = T at hs' hres
  have ha : cChunk gb d cfg a nums.length T
      = (.ok T.fixedMeta, { a with pending := a.pending ++ encChunk gb d cfg.flags T }) := by
    have hl' : ¬ (cfg.level > maxLevel) := by simp only [maxLevel]; omega
    have hm' : ¬ (nums.length > maxEntries) := by simp only [maxEntries]; omega
    have hz : ¬ (nums.length = 0) := by omega
    simp only [cChunk, hh, hf, hz, hl', hm', Bool.not_true, Bool.false_eq_true, if_false]
  obtain ⟨bs, hbs, _, heq⟩ := trainedOf_eq (d := d) (fl := cfg.flags) (nums := nums) htok.cover
  rcases hres with ⟨_, rm, hrm, hspec⟩ | ⟨herr, _⟩
  · refine ⟨rm, bs, hrm, ?_, ?_, hbs, ?_, ?_⟩
    · have := congrArg ChunkMeta.n hspec
      rw [← hT, heq] at this
      exact this
    · have := congrArg ChunkMeta.prefixes hspec
      rw [← hT, heq] at this
      exact this
    · have := congrArg ChunkMeta.bodyBytes hspec
      rw [← hT, heq] at this
      have e : rm.compressedBodySize = (encBody (trainedTable F O pick gb d cfg nums) bs).length / 8 := this
      rw [e]; exact encBody_length_mul _ _
    · have := hs'.bits
      rw [ha] at this
      rw [this, hs.bits, ← hT]
      rfl
  · rw [ha] at herr
    cases herr

end SizeLit
end Qco
