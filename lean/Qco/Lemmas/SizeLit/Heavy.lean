/-
Layer SZ, part 4: (a) the hypothesis on the float weight `expected_n_runs` under which the run-length prefix gets a
code of at most 2 bits (`RunWeightHeavy`), satisfied by the exact value; (b) a dominant value is a single-valued
run-length prefix of the table `train_prefixes` returns (`sized_dominant`: `C10.dominant_own_prefix_count`
transported through `Sized.raw_jump`); (c) a `Sparse` body of a chunk on which the run-length rule fired has at
least one run.
-/
import Qco.Lemmas.SizeLit.Table
namespace Qco
namespace SizeLit
open GcdLit (Out)
open Train TrainLit E2E

/-- HYPOTHESIS about the float `expected_n_runs` of `choose_run_len_jumpstart(count, n)`, where `push_pref` calls
it (`n ≥ 1001`, `count ≥ 0.8 n`, `count ≠ n`): twice that weight exceeds the number `n − count` of the other
numbers.  In exact arithmetic `expected_n_runs = ⌈count (n − count) / n⌉ ≥ 0.8 (n − count)`
(`floatsExact_heavy`, through `C18s.heavy_of_estimate`); the `f64` product `freq · non_freq · n` has a relative
error of a few `2^-53`, far from the factor `1.6` of slack. -/
def RunWeightHeavy (F : Floats) (n : Nat) : Prop :=
  ∀ count, count < n → 4 * n ≤ 5 * count → 1001 ≤ n → n - count < 2 * (F.runLen count n).1

/-- the exact value of `expected_n_runs` satisfies `RunWeightHeavy` -/
theorem floatsExact_heavy (n : Nat) : RunWeightHeavy Floats.exact n := by
  intro count hc h80 hn
  show n - count < 2 * expectedRuns count n
  apply C18s.heavy_of_estimate n count (n - count) (expectedRuns count n) (by omega) h80 (by omega)
  unfold expectedRuns
  have h := Nat.div_add_mod (count * (n - count) + n - 1) n
  have hm := Nat.mod_lt (count * (n - count) + n - 1) (show 0 < n by omega)
  rw [Nat.mul_comm (_ / n) n]
  generalize count * (n - count) = A at *
  generalize (A + n - 1) / n = Q at *
  generalize n * Q = P at *
  omega

variable {F : Floats} {gb : Nat → Nat} {level : Nat} {gcds : Bool} {us : List Nat} {ps : List Prefix}

/-- **a dominant value is a single-valued run-length prefix of the trained table**: among `n ≥ 2000` coded
numbers, a value `c` holding at least 90 % of them but not all, at level `≥ 8`: the table has a prefix `[c, c]`
with the exact count and the jumpstart of `choose_run_len_jumpstart` -/
theorem sized_dominant (h : Sized F gb level gcds us ps) (c : Nat) (hn : us.length ≥ 2000)
    (hc : 10 * us.count c ≥ 9 * us.length) (hne : us.count c ≠ us.length) (hl : 8 ≤ level) :
    ∃ (r : Nat) (hr : r < ps.length), ps[r].lower = c ∧ ps[r].upper = c ∧ ps[r].count = us.count c ∧
      ps[r].jump = some (jumpstart us.length (us.count c)) := by
  have hperm := perm_sorted us
  have hs := mergeSort_sorted us
  have hcount : (us.mergeSort fun a b => decide (a ≤ b)).count c = us.count c := hperm.count_eq c
  have hlen : (us.mergeSort fun a b => decide (a ≤ b)).length = us.length := hperm.length_eq
  have hraw := C10.dominant_own_prefix_count _ hs c level gcds (by rw [hlen]; exact hn)
    (by rw [hlen, hcount]; exact hc) (by rw [hlen, hcount]; exact hne) hl
  rw [hlen, hcount] at hraw
  obtain ⟨p, hp, h1, h2, h3, h4⟩ := h.raw_jump _ hraw rfl
  obtain ⟨r, hr, rfl⟩ := List.getElem_of_mem hp
  exact ⟨r, hr, h2.symm, h3.symm, h1.symm, h4.symm⟩

/-- a body of single blocks and runs of `r` coding `n` numbers of which not all are outside `r` has a run -/
theorem runCount_pos {W r : Nat} {bs : List Block} (hS : C18s.Sparse W ps r bs)
    (hnums : (blocksNums (tableOf ps) bs).length = us.length) (hlt : othersOf ps r < us.length) :
    1 ≤ runCount r bs := by
  apply Nat.pos_of_ne_zero
  intro h0
  have hall : ∀ b ∈ bs, b.isOne = true := by
    intro b hb
    by_cases hbr : b.pidx = r
    · exfalso
      have : b ∈ bs.filter fun b => b.pidx == r := List.mem_filter.mpr ⟨hb, by simp [hbr]⟩
      unfold runCount at h0
      rw [List.length_eq_zero_iff] at h0
      rw [h0] at this
      cases this
    · exact (hS.ones b hb hbr).1
  have h1 := blocksNums_length_of_isOne (tableOf ps) bs hall
  have h2 := runCount_add_otherCount r bs
  have h3 := hS.otherCount_eq
  omega

end SizeLit
end Qco
