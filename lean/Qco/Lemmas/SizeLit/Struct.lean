/-
Layer SZ (sizes of what the LITERAL compressor with the LITERAL training emits), part 1: the Huffman WEIGHTS of
the table `train_prefixes` returns.

`E2E.trainLit_struct` keeps the groups but forgets what `make_huffman_code` was run on.  Here the composition of the
four stages is re-run keeping that too:

* `push_pref` gives a raw prefix the weight `count`, or the float `expected_n_runs` if it gets a jumpstart
  (`rawWeight`);
* `optimize_prefixes` gives a merged prefix the SUM of the weights of its group (`cum_weight[i+1] − cum_weight[j]`);
  a raw prefix with a jumpstart is a group of its own (`start_j`), every other group has no jumpstart, so the
  weight of a merged prefix is again `rawWeight` of it (`optimizeLit_wrule`);
* `make_huffman_code` answers a `HuffCode` for these weights; the post-pass changes divisors only.

`trainLit_struct_huff`: `E2E.trainLit_struct` + `soloJump` of the groups + the `HuffCode`.
-/
import Qco.Lemmas.E2E.Trained
namespace Qco
namespace SizeLit
open GcdLit (Out)
open Train TrainLit E2E

/-- the Huffman weight `push_pref` gives a prefix of a chunk of `n` coded numbers: its count, or — with a run-length
jumpstart — the float `expected_n_runs` of `choose_run_len_jumpstart(count, n)` -/
def rawWeight (F : Floats) (n : Nat) (r : Raw) : Nat :=
  if r.jump.isSome then (F.runLen r.count n).1 else r.count

/-- the same for a prefix of the final table -/
def prefWeight (F : Floats) (n : Nat) (p : Prefix) : Nat := rawWeight F n (Raw.ofPrefix p)

theorem prefWeight_nojump (F : Floats) (n : Nat) (p : Prefix) (h : p.jump = none) : prefWeight F n p = p.count := by
  simp [prefWeight, rawWeight, Raw.ofPrefix, h]

theorem prefWeight_jump (F : Floats) (n : Nat) (p : Prefix) (j : Nat) (h : p.jump = some j) :
    prefWeight F n p = (F.runLen p.count n).1 := by
  simp [prefWeight, rawWeight, Raw.ofPrefix, h]

/-- what `chooseUnoptimizedLit_eq` says of the weights, in one equation -/
theorem wrule_of_unopt (F : Floats) (n : Nat) (p : WP)
    (h : (p.jump = none → p.weight = p.count) ∧ (p.jump ≠ none → p.weight = (F.runLen p.count n).1)) :
    p.weight = rawWeight F n p.toRaw := by
  unfold rawWeight WP.toRaw
  cases hj : p.jump with
  | none => simpa using h.1 hj
  | some j => simpa using h.2 (by rw [hj]; simp)

theorem sum_map_congr {α : Type} (f g : α → Nat) : ∀ (l : List α), (∀ x ∈ l, f x = g x) →
    (l.map f).sum = (l.map g).sum
  | [], _ => rfl
  | x :: l, h => by
    simp only [List.map_cons, List.sum_cons]
    rw [h x List.mem_cons_self, sum_map_congr f g l (fun y hy => h y (List.mem_cons_of_mem _ hy))]

/-- the weights of a group that respects the run-length rule add up to the weight of the merged prefix -/
theorem wrule_group (F : Floats) (n : Nat) (fold : Bool) (g : List WP) (hne : g ≠ [])
    (hall : ∀ x ∈ g, x.weight = rawWeight F n x.toRaw)
    (hsolo : soloJump (g.map WP.toRaw) = true) :
    (g.map (·.weight)).sum = rawWeight F n (mergeGroup fold (g.map WP.toRaw)) := by
  simp only [soloJump, Bool.or_eq_true, beq_iff_eq, List.all_eq_true, List.length_map] at hsolo
  rcases hsolo with h1 | hnone
  · match g, h1 with
    | [x], _ =>
      have := hall x List.mem_cons_self
      simp only [List.map_cons, List.map_nil, List.sum_cons, List.sum_nil, Nat.add_zero, this]
      simp [rawWeight, mergeGroup]
  · have hne' : g.map WP.toRaw ≠ [] := by simpa using hne
    obtain ⟨last, hlast⟩ := exists_getLast hne'
    have hlm : last ∈ g.map WP.toRaw := List.mem_of_getLast? hlast
    have hj : (mergeGroup fold (g.map WP.toRaw)).jump = last.jump := by
      simp only [mergeGroup, getLastD_of_getLast? hlast]
    have hjn : last.jump.isSome = false := by
      have := hnone last hlm
      cases h : last.jump with
      | none => rfl
      | some _ => rw [h] at this; cases this
    unfold rawWeight
    rw [hj, hjn]
    simp only [Bool.false_eq_true, if_false]
    show _ = ((g.map WP.toRaw).map (·.count)).sum
    rw [List.map_map]
    apply sum_map_congr
    intro x hx
    rw [hall x hx]
    have := hnone x.toRaw (List.mem_map_of_mem hx)
    unfold rawWeight
    cases h : x.toRaw.jump with
    | none => simp
    | some _ => rw [h] at this; cases this

/-- along a path whose groups respect the run-length rule, every merged prefix has the weight `rawWeight` -/
theorem wrule_lists (F : Floats) (n : Nat) (fold : Bool) (wps : List WP)
    (hwt : ∀ p ∈ wps, p.weight = rawWeight F n p.toRaw) :
    ∀ (path : List (Nat × Nat)) (res : List WP),
      (∀ ji ∈ path, ji.1 ≤ ji.2 ∧ ji.2 < wps.length ∧ soloJump (seg (wps.map WP.toRaw) ji.1 ji.2) = true) →
      res.map WP.toRaw = mergeAll fold (path.map fun ji => seg (wps.map WP.toRaw) ji.1 ji.2) →
      res.map (·.weight) = path.map (fun ji =>
        psum (wps.map (·.weight)) (ji.2 + 1) - psum (wps.map (·.weight)) ji.1) →
      ∀ p ∈ res, p.weight = rawWeight F n p.toRaw
  | [], res, _, h1, _ => by
    have : res = [] := by simpa [mergeAll] using h1
    subst this
    intro p hp; cases hp
  | (j, i) :: path, res, hp, h1, h2 => by
    cases res with
    | nil => intro p hp; cases hp
    | cons q res =>
      simp only [List.map_cons, mergeAll, List.cons.injEq] at h1 h2
      obtain ⟨hji, hi, hsolo⟩ := hp (j, i) List.mem_cons_self
      have ih := wrule_lists F n fold wps hwt path res (fun ji h => hp ji (List.mem_cons_of_mem _ h)) h1.2 h2.2
      intro p hpm
      rcases List.mem_cons.mp hpm with rfl | hpm
      · rw [h1.1, h2.1, psum_sub _ (by omega), ← seg_map, ← seg_map]
        rw [← seg_map] at hsolo
        apply wrule_group F n fold (seg wps j i) (seg_ne_nil hji hi) _ hsolo
        intro x hx
        obtain ⟨k, _, _, hk⟩ := mem_seg.mp hx
        exact hwt x (List.mem_of_getElem? hk)
      · exact ih p hpm

/-- **the weights `optimize_prefixes` passes on to `make_huffman_code`**: if every raw prefix has the weight
`push_pref` gives it, every merged prefix has it too -/
theorem optimizeLit_wrule {C : Type} (O : CostOracle C) (hfin : CostFinite O) (ub : Nat) (wps : List WP)
    (gcds : Bool) (hok : WOK wps) (hov : ∀ p ∈ (wps.map WP.toRaw).dropLast, p.upper + 1 < 2 ^ ub)
    (h1 : OneJump wps) (F : Floats) (n : Nat) (hwt : ∀ p ∈ wps, p.weight = rawWeight F n p.toRaw)
    (res : List WP) (hres : optimizeLit O ub wps gcds = .ok res) :
    ∀ p ∈ res, p.weight = rawWeight F n p.toRaw := by
  obtain ⟨res', path, hres', hch, hsj, hr, hw, _⟩ := optimizeLit_path O hfin ub wps gcds hok hov
  rw [hres] at hres'
  injection hres' with hres'
  subst hres'
  have hb := pchain_le path 0 _ hch
  have hm := pchain_mem_le path 0 _ hch
  exact wrule_lists F n _ wps hwt path res
    (fun ji hji => ⟨hm ji hji, (hb.2 ji hji).2,
      soloJump_seg wps h1 ji.1 ji.2 (hm ji hji) (hb.2 ji hji).2 (hsj ji hji)⟩) hr hw

/-! ## the structure theorem, with the run-length rule and the Huffman weights -/

/-- `E2E.trainLit_struct` with two more conjuncts: every group respects the run-length rule (`soloJump`), and the
codes (of the table before the post-pass, which does not touch codes, counts or jumpstarts) are an answer of
`make_huffman_code` for the weights `prefWeight` -/
theorem trainLit_struct_huff {C : Type} (F : Floats) (O : CostOracle C) (pick : Nat → List HItem → Nat)
    (ub : Nat) (gb : Nat → Nat) (unsigneds : List Nat) (level : Nat) (gcds : Bool) (n : Nat)
    (hne : unsigneds ≠ []) (hl : level ≤ 12) (hn : n ≤ MAX_ENTRIES) (hlen : unsigneds.length ≤ n)
    (hU : ∀ x ∈ unsigneds, x < 2 ^ ub) (hF : FloatsAgree F unsigneds.length)
    (hW : RunWeightOK F unsigneds.length) (hfin : CostFinite O) (hp : PickOK pick) :
    ∃ (prefixes : List Prefix) (groups : List (List Raw)) (fold doPost : Bool),
      trainLit F O pick ub gb unsigneds level gcds n = .ok (some (prefixes.map (postOne gb doPost))) ∧
      prefixes.map Raw.ofPrefix = groups.map (mergeGroup fold) ∧
      groups.flatten = rawPrefixes (unsigneds.mergeSort fun a b => decide (a ≤ b)) level gcds ∧
      (∀ g ∈ groups, g ≠ []) ∧ (∀ g ∈ groups, soloJump g = true) ∧
      HuffCode (prefixes.map (prefWeight F unsigneds.length)) (prefixes.map (·.code)) := by
  generalize hsd : (unsigneds.mergeSort fun a b => decide (a ≤ b)) = sorted
  have hperm : sorted.Perm unsigneds := by rw [← hsd]; exact List.mergeSort_perm _ _
  have hslen : sorted.length = unsigneds.length := hperm.length_eq
  have hs : sorted.Pairwise (· ≤ ·) := by rw [← hsd]; exact mergeSort_sorted unsigneds
  have hn1 : 1 ≤ sorted.length := by
    rw [hslen]
    cases unsigneds with
    | nil => exact absurd rfl hne
    | cons _ _ => simp
  have hn24 : sorted.length ≤ 2 ^ 24 := by
    rw [hslen]; unfold MAX_ENTRIES at hn; omega
  have hUs : ∀ x ∈ sorted, x < 2 ^ ub := fun x hx => hU x (hperm.mem_iff.mp hx)
  rw [← hslen] at hF hW ⊢
  -- stage 1
  obtain ⟨wps, hwps, hraw, hwt⟩ := chooseUnoptimizedLit_eq F sorted hs level gcds hn1 hn24 (by omega) hF
  obtain ⟨hok, hov, hone⟩ := unopt_wok F ub sorted hs level gcds hn24 hUs hW wps hraw
    (fun p hp => (hwt p hp).2)
  have hwr : ∀ p ∈ wps, p.weight = rawWeight F sorted.length p.toRaw :=
    fun p hp => wrule_of_unopt F _ p (hwt p hp).2
  -- stage 2
  obtain ⟨res, groups, hres, hmerge, hflat, hgne, hsolo, hwsum, hcode⟩ :=
    optimizeLit_grouping O hfin ub wps gcds hok hov hone
  have hresw := optimizeLit_wrule O hfin ub wps gcds hok hov hone F sorted.length hwr res hres
  rw [hraw] at hmerge hflat
  generalize hfold : useGcdOptimize (rawPrefixes sorted level gcds) gcds = fold at hmerge
  obtain ⟨hpw, hall⟩ := C18g.rawPrefixes_facts sorted hs level gcds
  obtain ⟨hall2, hcsum⟩ := rawPrefixes_facts2 sorted hs level gcds
  have hmemflat : ∀ g ∈ groups, ∀ r ∈ g, r ∈ rawPrefixes sorted level gcds := by
    intro g hg r hr
    rw [← hflat]; exact List.mem_flatten.mpr ⟨g, hg, hr⟩
  have hgok : ∀ g ∈ groups, GroupOK g := by
    intro g hg
    refine ⟨?_, ?_⟩
    · have := hpw
      rw [← hflat] at this
      exact (List.pairwise_flatten.mp this).1 g hg
    · intro r hr
      have hm := hmemflat g hg r hr
      exact ⟨(hall r hm).1, (hall r hm).2.1, (hall2 r hm).2⟩
  have hgfacts : ∀ g ∈ groups, (mergeGroup fold g).lower ≤ (mergeGroup fold g).upper ∧
      1 ≤ (mergeGroup fold g).gcd ∧ (mergeGroup fold g).gcd ≤ 2 ^ ub := by
    intro g hg
    obtain ⟨last, hlast⟩ := exists_getLast (hgne g hg)
    obtain ⟨h1, h2, h3, _⟩ := mergeGroup_facts fold g (hgok g hg) last hlast
    have hlm : last ∈ g := List.mem_of_getLast? hlast
    have hlu := hUs _ (hall2 last (hmemflat g hg last hlm)).1
    have : 1 ≤ 2 ^ ub := Nat.one_le_two_pow
    exact ⟨h1, h2, by omega⟩
  have hresne : res ≠ [] := by
    intro h
    rw [h] at hmerge
    have hg0 : groups = [] := by
      cases groups with
      | nil => rfl
      | cons _ _ => simp [mergeAll] at hmerge
    rw [hg0] at hflat
    have := hcsum
    rw [← hflat] at this
    simp at this; omega
  have hreslen : res.length = groups.length := by
    have := congrArg List.length hmerge
    simpa [mergeAll] using this
  have hglen : groups.length ≤ chooseMaxNPrefixes level sorted.length := by
    have h1 := C10.length_le_flatten groups hgne
    have h2 := C10.rawPrefixes_length_le sorted level gcds
    rw [hflat] at h1; omega
  have hmaxn := C10.chooseMax_le_n level sorted.length
  -- stage 3
  obtain ⟨coded, hcoded, herase, hhuff⟩ := makeHuffmanLit_is_huffRun pick hp res hresne
    (by rw [hwsum]; exact hok.wsum) (by rw [hreslen, USZ_eq]; omega)
  have hcraw : coded.map WP.toRaw = res.map WP.toRaw :=
    Huff.eraseCodes_map WP.toRaw (fun _ => rfl) herase
  generalize hpre : coded.map WP.toPrefix = prefixes
  have hpraw : prefixes.map Raw.ofPrefix = groups.map (mergeGroup fold) := by
    rw [← hpre, List.map_map]
    have : (Raw.ofPrefix ∘ WP.toPrefix) = WP.toRaw := rfl
    rw [this, hcraw, hmerge]; rfl
  have hpfacts : ∀ p ∈ prefixes, p.lower ≤ p.upper ∧ 1 ≤ p.gcd ∧ p.gcd ≤ 2 ^ ub := by
    intro p hp
    have hm : Raw.ofPrefix p ∈ groups.map (mergeGroup fold) := by
      rw [← hpraw]; exact List.mem_map_of_mem hp
    obtain ⟨g, hg, hgp⟩ := List.mem_map.mp hm
    have := hgfacts g hg
    rw [hgp] at this
    exact this
  -- the weights and the codes
  have hweights : res.map (·.weight) = prefixes.map (prefWeight F sorted.length) := by
    have e1 : res.map (·.weight) = (res.map WP.toRaw).map (rawWeight F sorted.length) := by
      rw [List.map_map]
      exact List.map_congr_left (fun p hp => hresw p hp)
    rw [e1, ← hcraw, ← hpre, List.map_map, List.map_map]
    rfl
  have hcodes : coded.map (·.code) = prefixes.map (·.code) := by
    rw [← hpre, List.map_map]; rfl
  rw [hweights, hcodes] at hhuff
  -- the post-pass
  generalize hdo : (gcds && (GcdLit.commonGcdForChunkMeta (prefixes.map gpOfPrefix)).isNone) = doPost
  have hfinal : trainLit F O pick ub gb unsigneds level gcds n = .ok (some (prefixes.map (postOne gb doPost))) := by
    have he : unsigneds.isEmpty = false := by
      cases unsigneds with
      | nil => exact absurd rfl hne
      | cons _ _ => rfl
    unfold trainLit
    simp only [he, Bool.false_eq_true, if_false, if_neg (show ¬ 12 < level by omega),
      if_neg (show ¬ MAX_ENTRIES < n by omega), hsd, hwps, ok_bind, hres, hcoded, hpre, hdo]
    cases doPost with
    | true =>
      simp only [if_true, postPass_eq ub gb prefixes hpfacts, ok_bind, pure_eq]
    | false =>
      simp only [Bool.false_eq_true, if_false, pure_eq]
      congr 2
      rw [List.map_congr_left (fun p _ => postOne_false gb p)]; simp
  exact ⟨prefixes, groups, fold, doPost, hfinal, hpraw, hflat, hgne, hsolo, hhuff⟩

end SizeLit
end Qco
