/-
Layer SZ, part 2: what the size theorems need of the table the literal `train_prefixes` returns (`Sized`), proved
from `trainLit_struct_huff`; and the two body bounds for every `Sized` table:

* `sized_no_runlen`  no prefix has a jumpstart → the greedy body takes `≤ n (W + 1) + 7` bits
                     (all hypotheses of `C14h.body_bound_of_huffCode` derived);
* `sized_sparse`     a prefix `r` has a jumpstart and is single-valued → `C18s.Sparse` holds of the greedy blocks,
                     the other prefixes have no jumpstart, the run-length rule fired on `r`, and the codes are a
                     `HuffCode` for `counts[r ↦ E]`, `E` = the float weight of `r`.
-/
import Qco.Lemmas.SizeLit.Struct
import Qco.Lemmas.E2E.Table
import Qco.Properties.C18s
namespace Qco
namespace SizeLit
open GcdLit (Out)
open Train TrainLit E2E

/-- `a` and `b` describe the same range with the same count and jumpstart -/
def SameRange (r : Raw) (p : Prefix) : Prop :=
  r.count = p.count ∧ r.lower = p.lower ∧ r.upper = p.upper ∧ r.jump = p.jump

/-- what the size theorems use of a trained table `ps` for the coded numbers `us`: `E2E.Trained`; the codes are an
answer of `make_huffman_code` for the weights `prefWeight`; a prefix with a jumpstart is one of the raw prefixes of
the quantile stage, unmerged, and conversely every raw prefix with a jumpstart is in the table -/
structure Sized (F : Floats) (gb : Nat → Nat) (level : Nat) (gcds : Bool) (us : List Nat) (ps : List Prefix) :
    Prop where
  trained : Trained gb level gcds us ps
  huff : HuffCode (ps.map (prefWeight F us.length)) (ps.map (·.code))
  jump_raw : ∀ p ∈ ps, p.jump.isSome →
    ∃ r ∈ rawPrefixes (us.mergeSort fun a b => decide (a ≤ b)) level gcds, SameRange r p
  raw_jump : ∀ r ∈ rawPrefixes (us.mergeSort fun a b => decide (a ≤ b)) level gcds, r.jump.isSome →
    ∃ p ∈ ps, SameRange r p

/-- **the table the literal `train_prefixes` returns is `Sized`** -/
theorem trainLit_sized {C : Type} (F : Floats) (O : CostOracle C) (pick : Nat → List HItem → Nat)
    (ub : Nat) (gb : Nat → Nat) (unsigneds : List Nat) (level : Nat) (gcds : Bool) (n : Nat)
    (hne : unsigneds ≠ []) (hl : level ≤ 12) (hn : n ≤ MAX_ENTRIES) (hlen : unsigneds.length ≤ n)
    (hU : ∀ x ∈ unsigneds, x < 2 ^ ub) (hF : FloatsAgree F unsigneds.length)
    (hW : RunWeightOK F unsigneds.length) (hfin : CostFinite O) (hp : PickOK pick) :
    ∃ ps, trainLit F O pick ub gb unsigneds level gcds n = .ok (some ps) ∧
      Sized F gb level gcds unsigneds ps := by
  obtain ⟨prefixes, groups, fold, doPost, hfinal, hpraw, hflat, hgne, hsolo, hhuff⟩ :=
    trainLit_struct_huff F O pick ub gb unsigneds level gcds n hne hl hn hlen hU hF hW hfin hp
  obtain ⟨ps', h1', hT⟩ := trainLit_trained F O pick ub gb unsigneds level gcds n hne hl hn hlen hU hF hW hfin hp
  have hps' : ps' = prefixes.map (postOne gb doPost) := by
    rw [hfinal] at h1'
    injection h1' with h; injection h with h; exact h.symm
  subst hps'
  refine ⟨_, hfinal, hT, ?_, ?_, ?_⟩
  · -- the post-pass keeps weights and codes
    have e1 : (prefixes.map (postOne gb doPost)).map (prefWeight F unsigneds.length)
        = prefixes.map (prefWeight F unsigneds.length) := by
      rw [List.map_map]
      apply List.map_congr_left
      intro p _
      show prefWeight F unsigneds.length (postOne gb doPost p) = prefWeight F unsigneds.length p
      unfold postOne; split <;> rfl
    have e2 : (prefixes.map (postOne gb doPost)).map (·.code) = prefixes.map (·.code) := by
      rw [List.map_map]
      apply List.map_congr_left
      intro p _
      exact (postOne_fields gb doPost p).2.2.2.2
    rw [e1, e2]; exact hhuff
  · -- a prefix with a jumpstart is an unmerged raw prefix
    intro q hq hj
    obtain ⟨p, hp, rfl⟩ := List.mem_map.mp hq
    obtain ⟨hlo, hup, hc, hjj, _⟩ := postOne_fields gb doPost p
    have hm : Raw.ofPrefix p ∈ groups.map (mergeGroup fold) := by
      rw [← hpraw]; exact List.mem_map_of_mem hp
    obtain ⟨g, hg, hgp⟩ := List.mem_map.mp hm
    obtain ⟨last, hlast⟩ := exists_getLast (hgne g hg)
    have hlm : last ∈ g := List.mem_of_getLast? hlast
    have hmj : (mergeGroup fold g).jump = last.jump := by
      simp only [mergeGroup, getLastD_of_getLast? hlast]
    have hpj : p.jump = last.jump := by
      have : (Raw.ofPrefix p).jump = (mergeGroup fold g).jump := by rw [hgp]
      rw [← hmj, ← this]; rfl
    rw [hjj, hpj] at hj
    obtain ⟨j, hj'⟩ := Option.isSome_iff_exists.mp hj
    obtain ⟨_, h2, h3, h4, h5⟩ := C10.dominant_never_merged_partial last j hj' g (hsolo g hg) hlm fold
    refine ⟨last, ?_, ?_⟩
    · rw [← hflat]; exact List.mem_flatten.mpr ⟨g, hg, hlm⟩
    · rw [hgp] at h2 h3 h4 h5
      exact ⟨by rw [hc]; exact h2.symm, by rw [hlo]; exact h3.symm, by rw [hup]; exact h4.symm,
        by rw [hjj, hj']; exact h5.symm⟩
  · -- a raw prefix with a jumpstart is in the table
    intro r hr hj
    rw [← hflat] at hr
    obtain ⟨g, hg, hrg⟩ := List.mem_flatten.mp hr
    obtain ⟨j, hj'⟩ := Option.isSome_iff_exists.mp hj
    obtain ⟨_, h2, h3, h4, h5⟩ := C10.dominant_never_merged_partial r j hj' g (hsolo g hg) hrg fold
    have hm : mergeGroup fold g ∈ prefixes.map Raw.ofPrefix := by
      rw [hpraw]; exact List.mem_map_of_mem hg
    obtain ⟨p, hp, hpg⟩ := List.mem_map.mp hm
    obtain ⟨hlo, hup, hc, hjj, _⟩ := postOne_fields gb doPost p
    refine ⟨postOne gb doPost p, List.mem_map_of_mem hp, ?_⟩
    rw [← hpg] at h2 h3 h4 h5
    exact ⟨by rw [hc]; exact h2.symm, by rw [hlo]; exact h3.symm, by rw [hup]; exact h4.symm,
      by rw [hjj, hj']; exact h5.symm⟩

variable {F : Floats} {gb : Nat → Nat} {level : Nat} {gcds : Bool} {us : List Nat} {ps : List Prefix}

/-! ## consequences -/

theorem perm_sorted (us : List Nat) : (us.mergeSort fun a b => decide (a ≤ b)).Perm us := List.mergeSort_perm _ _

/-- a raw prefix has a jumpstart only when the library's run-length rule fired on it -/
theorem raw_jump_rule (sorted : List Nat) (level : Nat) (gcds : Bool) :
    ∀ r ∈ rawPrefixes sorted level gcds, r.jump.isSome → C18.usesRunLen sorted.length r.count = true := by
  intro r hr hj
  unfold rawPrefixes at hr
  split at hr
  · cases hr
  · obtain ⟨be, _, rfl⟩ := List.mem_map.mp hr
    simp only [mkRaw] at hj ⊢
    by_cases hu : usesRunLen sorted.length (be.2 - be.1) = true
    · exact hu
    · rw [if_neg hu] at hj; cases hj

/-- a prefix of the table has a jumpstart only when the run-length rule fired on it: `n ≥ 1001`,
`count ≥ 0.8 n`, `count ≠ n` — the guard of `push_pref` -/
theorem Sized.jump_rule (h : Sized F gb level gcds us ps) :
    ∀ p ∈ ps, p.jump.isSome → C18.usesRunLen us.length p.count = true := by
  intro p hp hj
  obtain ⟨r, hr, hc, _, _, hjr⟩ := h.jump_raw p hp hj
  have := raw_jump_rule _ level gcds r hr (by rw [hjr]; exact hj)
  rw [(perm_sorted us).length_eq, hc] at this
  exact this

/-- at most one prefix of the table has a jumpstart (two counts of at least `0.8 n` exceed `n`) -/
theorem Sized.one_jump (h : Sized F gb level gcds us ps) (r : Nat) (hr : r < ps.length)
    (hj : ps[r].jump.isSome) : ∀ i (hi : i < ps.length), i ≠ r → ps[i].jump = none := by
  intro i hi hir
  cases hji : ps[i].jump with
  | none => rfl
  | some j =>
    exfalso
    have h1 := h.jump_rule ps[r] (List.getElem_mem _) hj
    have h2 := h.jump_rule ps[i] (List.getElem_mem _) (by rw [hji]; rfl)
    simp only [C18.usesRunLen, Bool.and_eq_true, decide_eq_true_eq] at h1 h2
    have hsum := h.trained.counts
    have hlen : (ps.map (·.count)).length = ps.length := by simp
    rcases Nat.lt_or_gt_of_ne hir with hlt | hlt
    · have := two_le_sum (ps.map (·.count)) hlt (by rw [hlen]; exact hr)
      simp only [List.getElem_map] at this
      omega
    · have := two_le_sum (ps.map (·.count)) hlt (by rw [hlen]; exact hi)
      simp only [List.getElem_map] at this
      omega

theorem Sized.upper_lt (h : Sized F gb level gcds us ps) {W : Nat} (hW : ∀ x ∈ us, x < 2 ^ W) :
    ∀ p ∈ ps, p.upper < 2 ^ W := fun p hp => hW _ (h.trained.upper_mem p hp)

theorem blocksNums_length_of_isOne (t : Table) : ∀ (bs : List Block), (∀ b ∈ bs, b.isOne = true) →
    (blocksNums t bs).length = bs.length
  | [], _ => rfl
  | b :: bs, h => by
    have ih := blocksNums_length_of_isOne t bs (fun b' hb => h b' (List.mem_cons_of_mem _ hb))
    have hb := h b List.mem_cons_self
    cases b with
    | one p off => simp [blocksNums, blockNums, ih]
    | run p off0 offs => simp [Block.isOne] at hb

theorem tableOf_jump_none (hnoj : ∀ p ∈ ps, p.jump = none) (i : Nat) : ((tableOf ps).info i).jump = none := by
  simp only [Table.info, tableOf, List.getD_eq_getElem?_getD, List.getElem?_map]
  cases hi : ps[i]? with
  | none => rfl
  | some p =>
    simp only [Option.map_some, Option.getD_some, Prefix.info]
    exact hnoj p (List.mem_of_getElem? hi)

/-- **no run-length prefix**: every hypothesis of `C14h.body_bound_of_huffCode` holds of a `Sized` table none of
whose prefixes has a jumpstart, and of its greedy blocks -/
theorem sized_no_runlen (h : Sized F gb level gcds us ps) (W : Nat) (hW : ∀ x ∈ us, x < 2 ^ W)
    (hlen : us.length < 2 ^ 24) (hnoj : ∀ p ∈ ps, p.jump = none) :
    ∃ bs, greedyBlocks ps us.length us = some bs ∧ bs.length = us.length ∧
      (encBody ps bs).length ≤ us.length * (W + 1) + 7 := by
  obtain ⟨hb, hd, hcov, hcnt, hcong, _, _⟩ := wfc_all h.trained.wfc
  obtain ⟨bs, hbs⟩ := greedyBlocks_some ps us hcov
  have hwf := greedyBlocks_wf ps us us.length bs hlen hbs
  have hone : ∀ b ∈ bs, b.isOne = true :=
    fun b hbm => C14.isOne_of_wf (tableOf ps) (tableOf_jump_none hnoj) b (hwf b hbm)
  have hidx : ∀ b ∈ bs, b.pidx < ps.length := by
    intro b hbm
    have := hwf b hbm
    cases b with
    | one p off => simpa [tableOf, Block.pidx] using this.1
    | run p off0 offs => simpa [tableOf, Block.pidx] using this.1
  have hcount : ∀ p (hp : p < ps.length), (bs.filter fun b => b.pidx == p).length = ps[p].count := by
    intro p hp
    rw [greedy_counts ps hd us.length us bs hbs p hp (hnoj _ (List.getElem_mem _))]
    simp only [countsB, List.all_eq_true, beq_iff_eq] at hcnt
    exact (hcnt ps[p] (List.getElem_mem _)).symm
  have hlenbs : bs.length = us.length := by
    rw [← blocksNums_length_of_isOne (tableOf ps) bs hone, greedyBlocks_nums ps us us.length bs hcong hbs]
  have hw : ps.map (prefWeight F us.length) = ps.map (·.count) :=
    List.map_congr_left (fun p hp => prefWeight_nojump F _ p (hnoj p hp))
  have hhuff := h.huff
  rw [hw] at hhuff
  refine ⟨bs, hbs, hlenbs, ?_⟩
  rw [← hlenbs]
  exact C14h.body_bound_of_huffCode W ps bs hb hd (h.upper_lt hW) hhuff hone hidx hcount

/-- the weights of a table whose only run-length prefix is `r`: the counts, with the float weight at `r` -/
theorem weights_eq_set (F : Floats) (n : Nat) (ps : List Prefix) (r j : Nat) (hr : r < ps.length)
    (hj : ps[r].jump = some j) (hnoj : ∀ i (hi : i < ps.length), i ≠ r → ps[i].jump = none) :
    ps.map (prefWeight F n) = (ps.map (·.count)).set r (F.runLen ps[r].count n).1 := by
  apply List.ext_getElem
  · simp
  · intro i h1 h2
    have hi : i < ps.length := by simpa using h1
    by_cases hir : i = r
    · subst hir
      rw [List.getElem_set_self, List.getElem_map]
      exact prefWeight_jump F n _ j hj
    · rw [List.getElem_set_ne (Ne.symm hir), List.getElem_map, List.getElem_map]
      exact prefWeight_nojump F n _ (hnoj i hi hir)

/-- **a single-valued run-length prefix**: when the prefix `r` of a `Sized` table has a jumpstart and holds one
value, every hypothesis of the `C18s` theorems holds with `E` = the float weight `expected_n_runs` of `r`:
the greedy blocks are `Sparse`, with at most one more run than other numbers; no other prefix has a jumpstart;
the codes are an answer of `make_huffman_code` for `counts[r ↦ E]`; the run-length rule fired on `r`; the counts
of the others and of `r` add up to `n` -/
theorem sized_sparse (h : Sized F gb level gcds us ps) (W : Nat) (hW : ∀ x ∈ us, x < 2 ^ W)
    (r j : Nat) (hr : r < ps.length) (hj : ps[r].jump = some j) (hs : ps[r].lower = ps[r].upper) :
    ∃ bs, greedyBlocks ps us.length us = some bs ∧ C18s.Sparse W ps r bs ∧
      runCount r bs ≤ othersOf ps r + 1 ∧
      HuffCode ((ps.map (·.count)).set r (F.runLen ps[r].count us.length).1) (ps.map (·.code)) ∧
      C18.usesRunLen us.length ps[r].count = true ∧ us.length = othersOf ps r + ps[r].count := by
  obtain ⟨hb, hd, hcov, hcnt, _, _, _⟩ := wfc_all h.trained.wfc
  obtain ⟨bs, hbs⟩ := greedyBlocks_some ps us hcov
  have hjs : ps[r].jump.isSome := by rw [hj]; rfl
  have hnoj := h.one_jump r hr hjs
  have hj24 := h.trained.jump_le ps[r] (List.getElem_mem _) j hj
  obtain ⟨hcount, hn⟩ := C18s.counts_of_wfc ps r us bs hd hcov hcnt hr hnoj hbs
  obtain ⟨hS, hR⟩ := C18s.sparse_of_greedy W ps r j us bs hb hd (h.upper_lt hW) hr hj hj24 hs hnoj hbs hcount
  have hhuff := h.huff
  rw [weights_eq_set F us.length ps r j hr hj hnoj] at hhuff
  exact ⟨bs, hbs, hS, hR, hhuff, h.jump_rule ps[r] (List.getElem_mem _) hjs, hn⟩

end SizeLit
end Qco
