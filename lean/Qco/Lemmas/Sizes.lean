/-
Helper lemmas for C14 (size bounds of the spec encoder): lengths of the primitive fields, list-sum
arithmetic, `clog2`, `padToByte`, counting of pairwise-disjoint ranges.
-/
import Qco.Spec.File
import Qco.Train.WFc
namespace Qco

/-! ### sums over lists -/

theorem sum_map_le_sum_map {α : Type} (l : List α) (f g : α → Nat) (h : ∀ a ∈ l, f a ≤ g a) :
    (l.map f).sum ≤ (l.map g).sum := by
  induction l with
  | nil => simp
  | cons a l ih =>
    have h1 := h a List.mem_cons_self
    have h2 := ih (fun b hb => h b (List.mem_cons_of_mem _ hb))
    simp only [List.map_cons, List.sum_cons]
    omega

theorem sum_map_le_length_mul {α : Type} (l : List α) (f : α → Nat) (c : Nat) (h : ∀ a ∈ l, f a ≤ c) :
    (l.map f).sum ≤ l.length * c := by
  induction l with
  | nil => simp
  | cons a l ih =>
    have h1 := h a List.mem_cons_self
    have h2 := ih (fun b hb => h b (List.mem_cons_of_mem _ hb))
    simp only [List.map_cons, List.sum_cons, List.length_cons, Nat.add_mul, Nat.one_mul]
    omega

theorem sum_map_add {α : Type} (l : List α) (f g : α → Nat) :
    (l.map fun a => f a + g a).sum = (l.map f).sum + (l.map g).sum := by
  induction l with
  | nil => simp
  | cons a l ih => simp only [List.map_cons, List.sum_cons, ih]; omega

/-! ### primitive fields -/

theorem encOffset_length (r k off : Nat) :
    (encOffset r k off).length = k + (if off < r - (2^k - 1) ∨ off > 2^k - 1 then 1 else 0) := by
  unfold encOffset
  split <;> simp

theorem encVarintHigh_length_le (m y : Nat) : (encVarintHigh m y).length ≤ 2 * m := by
  induction m generalizing y with
  | zero => simp [encVarintHigh]
  | succ m ih =>
    unfold encVarintHigh
    split
    · simp only [List.length_cons, List.length_nil]; omega
    · have := ih (y / 2)
      simp only [List.cons_append, List.nil_append, List.length_cons]
      omega

theorem encVarint_length_le (N j x : Nat) (hj : j ≤ N) : (encVarint N j x).length ≤ 2 * N - j := by
  unfold encVarint
  have := encVarintHigh_length_le (N - j) (x / 2^j)
  simp only [List.length_append, natBits_length]
  omega

theorem encGcd_length_le (gb : Nat → Nat) (range g : Nat) : (encGcd gb range g).length ≤ 1 + gb range := by
  unfold encGcd
  split <;> simp <;> omega

theorem encMoment_length (ds : DType) (m : Nat) : (encMoment ds m).length = ds.physBits := by
  simp [encMoment]

theorem length_flatMap_const {α β : Type} (l : List α) (f : α → List β) (c : Nat)
    (h : ∀ a, (f a).length = c) : (l.flatMap f).length = l.length * c := by
  induction l with
  | nil => simp
  | cons a l ih => simp only [List.flatMap_cons, List.length_append, h, ih, List.length_cons, Nat.add_mul, Nat.one_mul]; omega

theorem encPrefix_length_le (gb : Nat → Nat) (d : DType) (fl : Flags) (n : Nat) (hasCommon : Bool) (p : Prefix) :
    (encPrefix gb d fl n hasCommon p).length
      ≤ fl.countBits n + 2 * d.physBits + fl.codeLenBits + p.code.length + 6 + (1 + gb (p.upper - p.lower)) := by
  have h2 := encGcd_length_le gb (p.upper - p.lower) p.gcd
  obtain ⟨count, lower, upper, code, jump, gcd⟩ := p
  cases jump <;> cases hasCommon <;>
    simp only [encPrefix, List.length_append, natBits_length, List.length_cons, List.length_nil,
      Frozen.bitsJumpstart, Bool.false_eq_true, if_false, if_true] at h2 ⊢ <;> omega

theorem encPrefixes_length_le (gb : Nat → Nat) (d : DType) (fl : Flags) (n : Nat) (common : Option Nat)
    (ps : List Prefix) :
    (encPrefixes gb d fl n common ps).length
      ≤ 15 + 2 + gb (d.M - 1)
        + (ps.map fun p => (encPrefix gb d fl n (!fl.gcds || common.isSome) p).length).sum := by
  unfold encPrefixes
  cases hg : fl.gcds
  · simp only [List.length_append, natBits_length, List.length_flatMap, Frozen.bitsNPrefixes,
      Bool.false_eq_true, if_false, List.length_nil]
    omega
  · cases common with
    | none =>
      simp only [List.length_append, natBits_length, List.length_flatMap, Frozen.bitsNPrefixes,
        if_true, List.length_cons, List.length_nil]
      omega
    | some g =>
      have := encGcd_length_le gb (d.M - 1) g
      simp only [List.length_append, natBits_length, List.length_flatMap, Frozen.bitsNPrefixes,
        if_true, List.length_cons]
      omega

theorem codeLenBits_le (fl : Flags) : fl.codeLenBits ≤ 5 := by
  unfold Flags.codeLenBits; split <;> omega

/-! ### `clog2` -/

theorem clog2_le (m W : Nat) (h : m ≤ 2^W) : clog2 m ≤ W := by
  unfold clog2
  split
  · omega
  · have hne : m - 1 ≠ 0 := by omega
    have : Nat.log2 (m - 1) < W := (Nat.log2_lt hne).2 (by omega)
    omega

/-! ### padding -/

theorem padToByte_length (bs : Bits) : (padToByte bs).length = bs.length + (8 - bs.length % 8) % 8 := by
  simp [padToByte]

theorem padToByte_length_le (bs : Bits) : (padToByte bs).length ≤ bs.length + 7 := by
  rw [padToByte_length]; omega

theorem padToByte_length_mod (bs : Bits) : (padToByte bs).length % 8 = 0 := by
  rw [padToByte_length]; omega

theorem padToByte_length_div (bs : Bits) : (padToByte bs).length / 8 = (bs.length + 7) / 8 := by
  rw [padToByte_length]; omega

/-! ### powers of two -/

theorem k_le_of_pow_le {k r W : Nat} (h1 : 2^k ≤ r + 1) (h2 : r + 1 ≤ 2^W) : k ≤ W :=
  (Nat.pow_le_pow_iff_right (by omega : 1 < 2)).1 (Nat.le_trans h1 h2)

theorem log2_succ_le {r W : Nat} (h : r + 1 ≤ 2^W) : Nat.log2 (r + 1) ≤ W :=
  k_le_of_pow_le (Nat.log2_self_le (by omega)) h

/-! ### blocks -/

/-- the prefix index a block uses -/
def Block.pidx : Block → Nat
  | .one p _ => p
  | .run p _ _ => p

/-- a single (non-run) block -/
def Block.isOne : Block → Bool
  | .one _ _ => true
  | .run _ _ _ => false

/-- number of bits of the offset(s) of a block -/
def Block.offBits (t : Table) : Block → Nat
  | .one p off => (encOffset (t.info p).r (t.info p).k off).length
  | .run p off0 offs => (encOffset (t.info p).r (t.info p).k off0).length + (encOffsets (t.info p) offs).length

theorem encBlocks_length (t : Table) (bs : List Block) :
    (encBlocks t bs).length = (bs.map fun b => (encBlock t b).length).sum := by
  induction bs with
  | nil => simp [encBlocks]
  | cons b bs ih => simp [encBlocks, ih]

theorem encBlock_one_length (t : Table) (b : Block) (h : b.isOne = true) :
    (encBlock t b).length = (t.code b.pidx).length + b.offBits t := by
  cases b with
  | one p off => simp [encBlock, Block.pidx, Block.offBits]
  | run p off0 offs => simp [Block.isOne] at h

theorem offBits_one_le (t : Table) (b : Block) (h : b.isOne = true) :
    b.offBits t ≤ (t.info b.pidx).k + 1 := by
  cases b with
  | one p off =>
    simp only [Block.offBits, Block.pidx, encOffset_length]
    split <;> omega
  | run p off0 offs => simp [Block.isOne] at h

/-! ### counting pairwise-disjoint ranges -/

/-- number of `x < N` inside the range -/
def Prefix.cnt (p : Prefix) : Nat → Nat
  | 0 => 0
  | N+1 => p.cnt N + (if p.contains N then 1 else 0)

theorem Prefix.cnt_eq (p : Prefix) (N : Nat) (h : p.lower ≤ p.upper) :
    p.cnt N = min (p.upper + 1) N - min p.lower N := by
  induction N with
  | zero => simp [Prefix.cnt]
  | succ N ih =>
    simp only [Prefix.cnt, ih, Prefix.contains, Bool.and_eq_true, decide_eq_true_eq]
    split <;> omega

theorem Prefix.cnt_full (p : Prefix) (N : Nat) (h : p.lower ≤ p.upper) (hu : p.upper < N) :
    p.cnt N = p.upper - p.lower + 1 := by
  rw [Prefix.cnt_eq p N h]; omega

/-- a point lies in at most one of pairwise-disjoint ranges -/
theorem sum_contains_le_one (ps : List Prefix) (hd : disjointB ps = true) (x : Nat) :
    (ps.map fun p => if p.contains x then 1 else 0).sum ≤ 1 := by
  induction ps with
  | nil => simp
  | cons p ps ih =>
    simp only [disjointB, Bool.and_eq_true, List.all_eq_true, Bool.or_eq_true, decide_eq_true_eq] at hd
    have h2 := ih hd.2
    simp only [List.map_cons, List.sum_cons]
    by_cases hc : p.contains x = true
    · have hz : (ps.map fun q : Prefix => if q.contains x then 1 else 0).sum = 0 := by
        have : (ps.map fun q : Prefix => if q.contains x then 1 else 0).sum ≤ ps.length * 0 := by
          apply sum_map_le_length_mul
          intro q hq
          have hpq := hd.1 q hq
          simp only [Prefix.contains, Bool.and_eq_true, decide_eq_true_eq] at hc ⊢
          split <;> omega
        omega
      simp [hc, hz]
    · simp only [hc]; simpa using h2

theorem sum_cnt_le (ps : List Prefix) (hd : disjointB ps = true) (N : Nat) :
    (ps.map fun p => p.cnt N).sum ≤ N := by
  induction N with
  | zero =>
    have : (ps.map fun p : Prefix => p.cnt 0).sum ≤ ps.length * 0 :=
      sum_map_le_length_mul _ _ _ (fun p _ => by simp [Prefix.cnt])
    omega
  | succ N ih =>
    have h1 := sum_contains_le_one ps hd N
    have : (ps.map fun p : Prefix => p.cnt (N+1)).sum
        = (ps.map fun p : Prefix => p.cnt N).sum + (ps.map fun p : Prefix => if p.contains N then 1 else 0).sum := by
      rw [← sum_map_add]; rfl
    omega

end Qco
