/-
Helper lemmas for `Qco/Properties/C18s.lean` (the body bound for a table with a single-valued
run-length prefix): sums over a list with one entry replaced, the "code budget" that Huffman
optimality leaves to the prefixes other than the run-length one, sums over the blocks of a body split
by prefix index, the shape of the blocks the greedy grouping produces.
-/
import Qco.Lemmas.HuffmanHeavy
import Qco.Lemmas.HuffmanBody
import Qco.Properties.C18
namespace Qco

/-! ### one entry replaced -/

theorem sum_set (l : List Nat) (r x : Nat) (h : r < l.length) : (l.set r x).sum + l[r] = l.sum + x := by
  induction l generalizing r with
  | nil => simp at h
  | cons a l ih =>
    cases r with
    | zero => simp only [List.set_cons_zero, List.sum_cons, List.getElem_cons_zero]; omega
    | succ r =>
      have := ih r (by simpa using h)
      simp only [List.set_cons_succ, List.sum_cons, List.getElem_cons_succ]
      omega

theorem sum_set_le (l : List Nat) (r x : Nat) : (l.set r x).sum ≤ l.sum + x := by
  induction l generalizing r with
  | nil => simp
  | cons a l ih =>
    cases r with
    | zero => simp only [List.set_cons_zero, List.sum_cons]; omega
    | succ r =>
      have := ih r
      simp only [List.set_cons_succ, List.sum_cons]
      omega

/-- replacing the `r`-th weight and the `r`-th length -/
theorem weightedSum_set (ws ls : List Nat) (r x y : Nat) (h1 : r < ws.length) (h2 : r < ls.length) :
    weightedSum (ws.set r x) (ls.set r y) + ws[r] * ls[r] = weightedSum ws ls + x * y := by
  induction ws generalizing r ls with
  | nil => simp at h1
  | cons a ws ih =>
    cases ls with
    | nil => simp at h2
    | cons l ls =>
      cases r with
      | zero =>
        simp only [weightedSum, List.set_cons_zero, List.zip_cons_cons, List.map_cons, List.sum_cons,
          List.getElem_cons_zero]
        omega
      | succ r =>
        have := ih ls r (by simpa using h1) (by simpa using h2)
        simp only [weightedSum] at this
        simp only [weightedSum, List.set_cons_succ, List.zip_cons_cons, List.map_cons, List.sum_cons,
          List.getElem_cons_succ]
        omega

theorem weightedSum_ones : ∀ ws : List Nat, weightedSum ws (List.replicate ws.length 1) = ws.sum
  | [] => rfl
  | a :: ws => by
    have := weightedSum_ones ws
    simp only [weightedSum] at this
    simp only [weightedSum, List.length_cons, List.replicate_succ, List.zip_cons_cons, List.map_cons,
      List.sum_cons, this, Nat.mul_one]

theorem sum_map_const_one {α : Type} : ∀ l : List α, (l.map fun _ => 1).sum = l.length
  | [] => rfl
  | _ :: l => by simp only [List.map_cons, List.sum_cons, List.length_cons, sum_map_const_one l]; omega

/-- `Σ_{i ≠ r} ws[i]`, as the sum with the `r`-th entry zeroed -/
theorem sum_set_zero (ws : List Nat) (r : Nat) (h : r < ws.length) : (ws.set r 0).sum = (ws.eraseIdx r).sum := by
  have h1 := sum_set ws r 0 h
  have h2 := sum_eq_getElem_add_eraseIdx ws r h
  omega

/-! ### what Huffman optimality leaves to the other prefixes -/

/-- **the code budget of the other symbols.** Counts `cs`, code lengths `ls`, and numbers `ks` with
`Σ 2^k ≤ 2^W`. The `r`-th symbol carries any weight `E` instead of its count, and its code is not
empty. If the code costs no more than Huffman's for those weights, the other symbols spend at most
what the lengths `W − k + 1` would: the reference lengths `1` for `r` and `W − k + 1` for the others
satisfy Kraft's inequality (`2^W + Σ 2^k ≤ 2^(W+1)`), they cost `E` for `r`, and the code costs at
least `E` for `r`. -/
theorem code_budget (W E r : Nat) (cs ls ks : List Nat) (hl : ls.length = cs.length)
    (hkl : ks.length = cs.length) (hr : r < cs.length) (hk : ∀ k ∈ ks, k ≤ W)
    (hkraft : (ks.map fun k => 2 ^ k).sum ≤ 2 ^ W)
    (h1 : 1 ≤ ls[r]'(by omega))
    (hopt : weightedSum (cs.set r E) ls ≤ huffCost (cs.set r E)) :
    weightedSum (cs.set r 0) ls ≤ weightedSum (cs.set r 0) (ks.map fun k => W - k + 1) := by
  have hrl : r < ls.length := by omega
  have hrk : r < (ks.map fun k => W - k + 1).length := by simp; omega
  -- Huffman against the reference lengths
  have hH : huffCost (cs.set r E) ≤ weightedSum (cs.set r E) ((ks.map fun k => W - k + 1).set r 1) := by
    apply huffman_le_of_kraft _ _ (W + 1)
    · simp [hkl]
    · intro l hl'
      rcases List.mem_or_eq_of_mem_set hl' with hm | rfl
      · obtain ⟨k, _, rfl⟩ := List.mem_map.1 hm
        omega
      · omega
    · rw [List.map_set]
      have hs := sum_set_le ((ks.map fun k => W - k + 1).map fun l => 2 ^ (W + 1 - l)) r (2 ^ (W + 1 - 1))
      have e : ((ks.map fun k => W - k + 1).map fun l => 2 ^ (W + 1 - l)) = ks.map fun k => 2 ^ k := by
        rw [List.map_map]
        apply List.map_congr_left
        intro k hk'
        have := hk k hk'
        simp only [Function.comp]
        congr 1
        omega
      rw [e] at hs ⊢
      have e2 : W + 1 - 1 = W := by omega
      rw [e2] at hs ⊢
      have e3 : 2 ^ (W + 1) = 2 * 2 ^ W := by rw [Nat.pow_succ, Nat.mul_comm]
      omega
  -- split off the `r`-th term on both sides
  have hr0 : r < (cs.set r 0).length := by simp; exact hr
  have A := weightedSum_set (cs.set r 0) ls r E (ls[r]) hr0 hrl
  have B := weightedSum_set (cs.set r 0) (ks.map fun k => W - k + 1) r E 1 hr0 hrk
  simp only [List.set_set, List.set_getElem_self, List.getElem_set_self, Nat.zero_mul, Nat.add_zero,
    Nat.mul_one] at A B
  have hE : E ≤ E * ls[r] := Nat.le_mul_of_pos_right E h1
  omega

/-! ### sums over blocks -/

theorem sum_map_filter_split {α : Type} (p : α → Bool) (g : α → Nat) : ∀ l : List α,
    (l.map g).sum = ((l.filter p).map g).sum + ((l.filter fun a => !p a).map g).sum
  | [] => rfl
  | a :: l => by
    have ih := sum_map_filter_split p g l
    cases hp : p a <;> simp [hp, ih] <;> omega

/-- with counts `cnt` per prefix index, a sum over the blocks of a function of the prefix index
(given as the list `fl`) is a weighted sum -/
theorem sum_blocks_weighted (cnt fl : List Nat) (bs : List Block) (f : Nat → Nat)
    (hlen : fl.length = cnt.length)
    (hf : ∀ p (hp : p < fl.length), f p = fl[p])
    (hidx : ∀ b ∈ bs, b.pidx < cnt.length)
    (hcount : ∀ p (hp : p < cnt.length), (bs.filter fun b => b.pidx == p).length = cnt[p]) :
    (bs.map fun b => f b.pidx).sum = weightedSum cnt fl := by
  rw [sum_by_pidx cnt.length f bs hidx]
  unfold weightedSum
  congr 1
  apply List.ext_getElem
  · simp [hlen]
  · intro i h1 h2
    have hi : i < cnt.length := by simpa using h1
    simp only [List.getElem_map, List.getElem_range, List.getElem_zip]
    rw [hcount i hi, hf i (by omega)]

/-! ### blocks of a single-valued run-length prefix -/

deriving instance DecidableEq for Block

/-- number of blocks of prefix `r` (the runs, when `r` is the run-length prefix) -/
def runCount (r : Nat) (bs : List Block) : Nat := (bs.filter fun b => b.pidx == r).length

/-- number of blocks of the other prefixes -/
def otherCount (r : Nat) (bs : List Block) : Nat := (bs.filter fun b => !(b.pidx == r)).length

/-- total count of the prefixes other than `r`: `Σ_{p ≠ r} ps[p].count` -/
def othersOf (ps : List Prefix) (r : Nat) : Nat := ((ps.map (·.count)).eraseIdx r).sum

/-- a run of prefix `r` all of whose offsets are 0 -/
def Block.isZeroRun (r : Nat) : Block → Bool
  | .run p off0 offs => p == r && off0 == 0 && offs.all (· == 0)
  | .one _ _ => false

theorem Block.eq_of_isZeroRun {r : Nat} {b : Block} (h : b.isZeroRun r = true) :
    ∃ m, b = .run r 0 (List.replicate m 0) := by
  cases b with
  | one p off => simp [Block.isZeroRun] at h
  | run p off0 offs =>
    simp only [Block.isZeroRun, Bool.and_eq_true, beq_iff_eq, List.all_eq_true] at h
    obtain ⟨⟨rfl, rfl⟩, hall⟩ := h
    exact ⟨offs.length, by rw [List.eq_replicate_iff.2 ⟨rfl, hall⟩]; simp⟩

theorem runCount_cons (r : Nat) (b : Block) (bs : List Block) :
    runCount r (b :: bs) = (if b.pidx = r then 1 else 0) + runCount r bs := by
  by_cases h : b.pidx = r <;> simp [runCount, h] <;> omega

theorem otherCount_cons (r : Nat) (b : Block) (bs : List Block) :
    otherCount r (b :: bs) = (if b.pidx = r then 0 else 1) + otherCount r bs := by
  by_cases h : b.pidx = r <;> simp [otherCount, h] <;> omega

theorem runCount_add_otherCount (r : Nat) (bs : List Block) : runCount r bs + otherCount r bs = bs.length := by
  induction bs with
  | nil => rfl
  | cons b bs ih => rw [runCount_cons, otherCount_cons]; simp only [List.length_cons]; split <;> omega

/-! ### the greedy grouping -/

theorem getD_eq_getElem_prefix (ps : List Prefix) (i : Nat) (h : i < ps.length) : ps.getD i default = ps[i] := by
  simp [List.getD_eq_getElem?_getD, h]

theorem findPrefix_some {ps : List Prefix} {u i : Nat} (h : findPrefix ps u = some i) :
    ∃ hi : i < ps.length, ps[i].contains u = true := by
  obtain ⟨hi, hc, -⟩ := List.findIdx?_eq_some_iff_getElem.1 h
  exact ⟨hi, hc⟩

/-- **maximal runs are separated**: in the greedy grouping, the runs of a run-length prefix `r` are at
most one more than the blocks of the other prefixes (and no more than those when the first number is
outside `r`) -/
theorem greedy_runs_le (ps : List Prefix) (r j : Nat) (hr : r < ps.length) (hj : ps[r].jump = some j) :
    ∀ (fuel : Nat) (us : List Nat) (bs : List Block), greedyBlocks ps fuel us = some bs →
      runCount r bs ≤ otherCount r bs + 1 ∧
      (us.head?.all (fun v => !ps[r].contains v) = true → runCount r bs ≤ otherCount r bs) := by
  intro fuel
  induction fuel with
  | zero =>
    intro us bs h
    cases us with
    | nil => simp only [greedyBlocks, Option.some.injEq] at h; subst h; simp [runCount, otherCount]
    | cons u rest => simp [greedyBlocks] at h
  | succ fuel ih =>
    intro us bs h
    cases us with
    | nil => simp only [greedyBlocks, Option.some.injEq] at h; subst h; simp [runCount, otherCount]
    | cons u rest =>
      cases hf : findPrefix ps u with
      | none => simp [greedyBlocks, hf] at h
      | some i =>
        obtain ⟨hi, hcu⟩ := findPrefix_some hf
        cases hjp : (ps.getD i default).jump with
        | none =>
          have hne : i ≠ r := by
            rintro rfl
            rw [getD_eq_getElem_prefix ps i hr, hj] at hjp
            cases hjp
          simp only [greedyBlocks, hf, hjp, Option.map_eq_some_iff] at h
          obtain ⟨bs1, h1, rfl⟩ := h
          have := (ih rest bs1 h1).1
          rw [runCount_cons, otherCount_cons]
          simp only [Block.pidx, hne, if_false]
          omega
        | some j' =>
          cases bs with
          | nil =>
            simp only [greedyBlocks, hf, hjp, Option.map_eq_some_iff] at h
            obtain ⟨_, _, hc⟩ := h
            cases hc
          | cons b bs1 =>
            obtain ⟨hb, hrest, hhead⟩ := C18.greedy_runs_maximal ps fuel u rest b bs1 i j' h hf hjp
            rw [runCount_cons, otherCount_cons]
            subst hb
            simp only [Block.pidx]
            by_cases hir : i = r
            · subst hir
              rw [getD_eq_getElem_prefix ps i hr] at hrest hhead
              have := (ih _ bs1 hrest).2 hhead
              simp only [if_true]
              refine ⟨by omega, ?_⟩
              intro hc
              simp [hcu] at hc
            · have := (ih _ bs1 hrest).1
              simp only [hir, if_false]
              omega

/-- the shape of the greedy blocks when `r` is single-valued with a jumpstart and no other prefix
has one: single blocks for the others, runs with all offsets 0 for `r` -/
theorem greedy_sparse_shape (ps : List Prefix) (r j : Nat) (hr : r < ps.length) (hj : ps[r].jump = some j)
    (hs : ps[r].lower = ps[r].upper)
    (hnoj : ∀ i (hi : i < ps.length), i ≠ r → ps[i].jump = none) :
    ∀ (fuel : Nat) (us : List Nat) (bs : List Block), greedyBlocks ps fuel us = some bs →
      (∀ b ∈ bs, b.pidx ≠ r → b.isOne = true ∧ b.pidx < ps.length) ∧
      (∀ b ∈ bs, b.pidx = r → b.isZeroRun r = true) := by
  have hoff : ∀ v, ps[r].contains v = true → ps[r].off v = 0 := by
    intro v hv
    simp only [Prefix.contains, Bool.and_eq_true, decide_eq_true_eq] at hv
    have : v - ps[r].lower = 0 := by omega
    simp [Prefix.off, this]
  intro fuel
  induction fuel with
  | zero =>
    intro us bs h
    cases us with
    | nil => simp only [greedyBlocks, Option.some.injEq] at h; subst h; simp
    | cons u rest => simp [greedyBlocks] at h
  | succ fuel ih =>
    intro us bs h
    cases us with
    | nil => simp only [greedyBlocks, Option.some.injEq] at h; subst h; simp
    | cons u rest =>
      cases hf : findPrefix ps u with
      | none => simp [greedyBlocks, hf] at h
      | some i =>
        obtain ⟨hi, hcu⟩ := findPrefix_some hf
        cases hjp : (ps.getD i default).jump with
        | none =>
          have hne : i ≠ r := by
            rintro rfl
            rw [getD_eq_getElem_prefix ps i hr, hj] at hjp
            cases hjp
          simp only [greedyBlocks, hf, hjp, Option.map_eq_some_iff] at h
          obtain ⟨bs1, h1, rfl⟩ := h
          obtain ⟨ih1, ih2⟩ := ih rest bs1 h1
          constructor
          · intro b hb hbr
            rcases List.mem_cons.1 hb with rfl | hb
            · exact ⟨rfl, hi⟩
            · exact ih1 b hb hbr
          · intro b hb hbr
            rcases List.mem_cons.1 hb with rfl | hb
            · exact absurd hbr hne
            · exact ih2 b hb hbr
        | some j' =>
          have hir : i = r := by
            apply Classical.byContradiction
            intro hne
            rw [getD_eq_getElem_prefix ps i hi, hnoj i hi hne] at hjp
            cases hjp
          subst hir
          simp only [greedyBlocks, hf, hjp, Option.map_eq_some_iff] at h
          obtain ⟨bs1, h1, rfl⟩ := h
          obtain ⟨ih1, ih2⟩ := ih _ bs1 h1
          rw [getD_eq_getElem_prefix ps i hr]
          constructor
          · intro b hb hbr
            rcases List.mem_cons.1 hb with rfl | hb
            · exact absurd rfl hbr
            · exact ih1 b hb hbr
          · intro b hb hbr
            rcases List.mem_cons.1 hb with rfl | hb
            · simp only [Block.isZeroRun, beq_self_eq_true, Bool.true_and, Bool.and_eq_true, beq_iff_eq,
                List.all_eq_true, List.mem_map]
              refine ⟨hoff u hcu, ?_⟩
              rintro x ⟨v, hv, rfl⟩
              exact hoff v (List.all_eq_true.1 List.all_takeWhile v hv)
            · exact ih2 b hb hbr

/-! ### truthful counts, from the chunk-level predicates (`disjointB`, `coverB`, `countsB`) -/

/-- a number lies in at most one of pairwise-disjoint ranges -/
theorem disjoint_contains : ∀ (ps : List Prefix), disjointB ps = true → ∀ (i p : Nat) (hi : i < ps.length)
    (hp : p < ps.length) (u : Nat), i ≠ p → ps[i].contains u = true → ps[p].contains u = false
  | [], _, _, _, hi, _, _, _, _ => by simp at hi
  | q :: qs, hd, i, p, hi, hp, u, hne, hc => by
    simp only [disjointB, Bool.and_eq_true, List.all_eq_true, Bool.or_eq_true, decide_eq_true_eq] at hd
    cases i with
    | zero =>
      cases p with
      | zero => exact absurd rfl hne
      | succ p =>
        have := hd.1 (qs[p]'(by simpa using hp)) (List.getElem_mem _)
        simp only [List.getElem_cons_zero, List.getElem_cons_succ, Prefix.contains, Bool.and_eq_true,
          decide_eq_true_eq, Bool.and_eq_false_iff, decide_eq_false_iff_not] at hc ⊢
        omega
    | succ i =>
      cases p with
      | zero =>
        have := hd.1 (qs[i]'(by simpa using hi)) (List.getElem_mem _)
        simp only [List.getElem_cons_zero, List.getElem_cons_succ, Prefix.contains, Bool.and_eq_true,
          decide_eq_true_eq, Bool.and_eq_false_iff, decide_eq_false_iff_not] at hc ⊢
        omega
      | succ p =>
        simp only [List.getElem_cons_succ] at hc ⊢
        exact disjoint_contains qs hd.2 i p (by simpa using hi) (by simpa using hp) u (by omega) hc

theorem length_filter_cons {α : Type} (c : α → Bool) (a : α) (l : List α) :
    ((a :: l).filter c).length = (if c a = true then 1 else 0) + (l.filter c).length := by
  cases h : c a <;> simp [h] <;> omega

/-- **the greedy grouping makes one single block per number of a prefix without jumpstart** -/
theorem greedy_counts (ps : List Prefix) (hd : disjointB ps = true) :
    ∀ (fuel : Nat) (us : List Nat) (bs : List Block), greedyBlocks ps fuel us = some bs →
      ∀ p (hp : p < ps.length), ps[p].jump = none →
        (bs.filter fun b => b.pidx == p).length = (us.filter ps[p].contains).length := by
  intro fuel
  induction fuel with
  | zero =>
    intro us bs h p hp _
    cases us with
    | nil => simp only [greedyBlocks, Option.some.injEq] at h; subst h; simp
    | cons u rest => simp [greedyBlocks] at h
  | succ fuel ih =>
    intro us bs h p hp hjn
    cases us with
    | nil => simp only [greedyBlocks, Option.some.injEq] at h; subst h; simp
    | cons u rest =>
      cases hf : findPrefix ps u with
      | none => simp [greedyBlocks, hf] at h
      | some i =>
        obtain ⟨hi, hcu⟩ := findPrefix_some hf
        cases hjp : (ps.getD i default).jump with
        | none =>
          simp only [greedyBlocks, hf, hjp, Option.map_eq_some_iff] at h
          obtain ⟨bs1, h1, rfl⟩ := h
          have := ih rest bs1 h1 p hp hjn
          rw [length_filter_cons, length_filter_cons, this]
          simp only [Block.pidx, beq_iff_eq]
          by_cases hip : i = p
          · subst hip
            simp only [hcu, if_true]
          · have hnc := disjoint_contains ps hd i p hi hp u hip hcu
            simp only [hip, hnc, if_false, Bool.false_eq_true]
        | some j' =>
          have hip : i ≠ p := by
            rintro rfl
            rw [getD_eq_getElem_prefix ps i hi, hjn] at hjp
            cases hjp
          simp only [greedyBlocks, hf, hjp, Option.map_eq_some_iff] at h
          obtain ⟨bs1, h1, rfl⟩ := h
          have := ih _ bs1 h1 p hp hjn
          rw [getD_eq_getElem_prefix ps i hi] at this
          have hnc := disjoint_contains ps hd i p hi hp u hip hcu
          have e : rest.filter ps[p].contains
              = (rest.takeWhile ps[i].contains).filter ps[p].contains
                ++ (rest.dropWhile ps[i].contains).filter ps[p].contains := by
            rw [← List.filter_append, List.takeWhile_append_dropWhile]
          have e0 : (rest.takeWhile ps[i].contains).filter ps[p].contains = [] := by
            rw [List.filter_eq_nil_iff]
            intro v hv
            have hv' := List.all_eq_true.1 List.all_takeWhile v hv
            rw [disjoint_contains ps hd i p hi hp v hip hv']
            simp
          rw [length_filter_cons, length_filter_cons, this, e, e0]
          simp only [Block.pidx, beq_iff_eq, hip, hnc, if_false, Bool.false_eq_true, List.nil_append]

theorem mem_le_sum {l : List Nat} {a : Nat} (h : a ∈ l) : a ≤ l.sum := by
  induction l with
  | nil => cases h
  | cons b l ih =>
    simp only [List.sum_cons]
    rcases List.mem_cons.1 h with rfl | h'
    · omega
    · have := ih h'; omega

/-- every number lies in exactly one range: the counts add up to the number of numbers -/
theorem length_eq_sum_filter (ps : List Prefix) (hd : disjointB ps = true) :
    ∀ us : List Nat, coverB ps us = true → (ps.map fun p => (us.filter p.contains).length).sum = us.length
  | [], _ => by
    have : (ps.map fun p : Prefix => (([] : List Nat).filter p.contains).length).sum ≤ ps.length * 0 :=
      sum_map_le_length_mul _ _ _ (fun p _ => by simp)
    simp only [List.length_nil]; omega
  | u :: us, hc => by
    simp only [coverB, List.all_cons, Bool.and_eq_true] at hc
    have ih := length_eq_sum_filter ps hd us (by simpa [coverB] using hc.2)
    have e : (ps.map fun p => ((u :: us).filter p.contains).length)
        = ps.map fun p => (if p.contains u then 1 else 0) + (us.filter p.contains).length := by
      apply List.map_congr_left
      intro p _
      cases hpc : p.contains u <;> simp [hpc] <;> omega
    rw [e, sum_map_add, ih]
    have h1 := sum_contains_le_one ps hd u
    obtain ⟨q, hq, hqc⟩ := List.any_eq_true.1 hc.1
    have h2 : 1 ≤ (ps.map fun p : Prefix => if p.contains u then 1 else 0).sum := by
      have := mem_le_sum (List.mem_map.2 ⟨q, hq, rfl⟩ :
        (if q.contains u then 1 else 0) ∈ ps.map fun p : Prefix => if p.contains u then 1 else 0)
      simpa [hqc] using this
    simp only [List.length_cons]
    omega

/-- with truthful counts (`countsB`) the counts add up to the number of numbers -/
theorem sum_counts_eq_length (ps : List Prefix) (us : List Nat) (hd : disjointB ps = true)
    (hc : coverB ps us = true) (hn : countsB ps us = true) : (ps.map (·.count)).sum = us.length := by
  rw [← length_eq_sum_filter ps hd us hc]
  congr 1
  apply List.map_congr_left
  intro p hp
  simp only [countsB, List.all_eq_true, beq_iff_eq] at hn
  exact hn p hp

end Qco
