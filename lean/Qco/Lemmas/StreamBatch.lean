/-
Streaming refinement, layer 3: number batches.

`numBatch_spec`: `Op.numBatch` on the available part `a` of the remaining body data `a ++ t`
returns a prefix of the units still to come — all of the batch when all data is there — never an
error, and leaves a state describing exactly the units consumed; it reports `finished` iff the
units are exhausted, and then has consumed the padding and passed the body-size check.
`nextBatch_spec`: the same for `Op.nextBatch` in terms of the chunk's values (delta reconstruction
composes over batches).
-/
import Qco.Lemmas.StreamDrain
import Qco.Lemmas.StreamLists
namespace Qco
namespace Stream
open Parser Op

theorem numBatchDirty_eq (L : Matcher) (b : Body) (limit : Nat) (rd : Rd)
    (ys : List Nat) (inc' : UState) (p' : Nat) (r : Bits) (why : Option Err)
    (hD : drainR (unitL L (tableOf b.ps)) (min (b.n - b.st.nProcessed) limit) (b.st.inc, rd.pos) rd.bits
      = (ys, (inc', p'), r, why))
    (hwhy : why = none ∨ why = some .insufficient) :
    numBatchDirty L b limit false rd =
      (.ok { us := ys, finished := decide (why = none) && decide (limit ≥ b.n - b.st.nProcessed) },
       { b.st with inc := inc' }, rd.advance r) := by
  unfold numBatchDirty
  by_cases hb : min (b.n - b.st.nProcessed) limit = 0
  · rw [hb, drainR_zero] at hD
    cases hD
    simp [hb, Rd.advance]
  · simp only [hb, if_false, hD]
    rcases hwhy with rfl | rfl
    · simp
    · simp

/-- the static facts about the body being decoded -/
structure BCtx where
  tbl : Table
  /-- the units of the body -/
  us : List Nat
  /-- bits of the units -/
  EL : Nat
  /-- padding bits after the units -/
  padn : Nat
  /-- what follows the body in the file -/
  tail : Bits

structure BCtx.Ok (c : BCtx) : Prop where
  hpad : c.padn < 8
  hal : (c.EL + c.padn) % 8 = 0
  htail : lookahead ≤ c.tail.length
  hct : c.us ≠ [] → completeTree c.tbl.codes = true

/-- units consumed so far vs. the data: `a` = available bits, `t` = bits still to arrive,
`q` = padding bits not yet consumed -/
structure UInv (c : BCtx) (st : NumSt) (a t : Bits) (pos q : Nat) : Prop where
  np_le : st.nProcessed ≤ c.us.length
  units : ∃ stf, iterUnits (unit c.tbl) (c.us.length - st.nProcessed) st.inc (a ++ t)
      = .ok (c.us.drop st.nProcessed, stf) (List.replicate q false ++ c.tail)
  hq : q = c.padn ∨ q = 0
  bits : st.bitsProcessed + (a.length + t.length) = c.EL + c.padn + c.tail.length
  hpos : pos % 8 = st.bitsProcessed % 8

theorem drainEmptyByte_ok (rd : Rd) (q : Nat) (x : Bits) (hq : (8 - rd.pos % 8) % 8 = q)
    (hb : rd.bits = List.replicate q false ++ x) :
    drainEmptyByte rd = .ok { bits := x, pos := rd.pos + q } := by
  unfold drainEmptyByte
  simp only [hq, hb]
  rw [List.take_left' (by simp), List.drop_left' (by simp)]
  simp


/-- the facts `drainR_spec` provides, also available (trivially) for an empty batch -/
theorem drain_facts (L : Matcher) (hL : WeakLazyOf L) (c : BCtx) (hc : c.Ok)
    (n m : Nat) (hm : m ≤ n) (hn : n ≤ c.us.length) (st : UState) (pos : Nat) (s tl : Bits)
    (xs : List Nat) (stf : UState) (rf : Bits)
    (hfull : iterUnits (unit c.tbl) n st (s ++ tl) = .ok (xs, stf) rf)
    (ys : List Nat) (st' : UState) (pos' : Nat) (r : Bits) (why : Option Err)
    (hd : drainR (unitL L c.tbl) m (st, pos) s = (ys, (st', pos'), r, why)) :
    (∃ xs2, xs = ys ++ xs2 ∧
      iterUnits (unit c.tbl) (n - ys.length) st' (r ++ tl) = .ok (xs2, stf) rf) ∧
    ((why = none ∧ ys.length = m) ∨ (why = some .insufficient ∧ ys.length < m)) ∧
    r.length ≤ s.length ∧
    (tl = [] → lookahead ≤ rf.length → why = none) := by
  by_cases hm0 : m = 0
  · subst hm0
    rw [drainR_zero] at hd
    cases hd
    exact ⟨⟨xs, by simp, by simpa using hfull⟩, Or.inl ⟨rfl, rfl⟩, Nat.le_refl _, fun _ _ => rfl⟩
  · have hne : c.us ≠ [] := by
      intro h; rw [h] at hn; simp at hn; omega
    exact drainR_spec L hL c.tbl (hc.hct hne) n m hm st pos s tl xs stf rf hfull ys st' pos' r why hd

theorem numBatch_spec (L : Matcher) (hL : WeakLazyOf L) (c : BCtx) (hc : c.Ok) (b : Body)
    (limit : Nat)
    (hn : b.n = c.us.length) (htbl : tableOf b.ps = c.tbl) (hbytes : b.bodyBytes * 8 = c.EL + c.padn)
    (a t : Bits) (pos q : Nat) (hinv : UInv c b.st a t pos q) (hal : (pos + a.length) % 8 = 0) :
    ∃ ys st' rd' fin,
      numBatch L b limit false ⟨a, pos⟩ = (.ok { us := ys, finished := fin }, st', rd') ∧
      ys = (c.us.drop b.st.nProcessed).take ys.length ∧
      ys.length ≤ min (c.us.length - b.st.nProcessed) limit ∧
      st'.nProcessed = b.st.nProcessed + ys.length ∧
      UInv c st' rd'.bits t rd'.pos (if fin then 0 else q) ∧
      (fin = true ↔ b.st.nProcessed + ys.length = c.us.length) ∧
      rd'.pos + rd'.bits.length = pos + a.length ∧
      (t = [] → ys.length = min (c.us.length - b.st.nProcessed) limit) := by
  obtain ⟨stf, hunits⟩ := hinv.units
  generalize hD : drainR (unitL L (tableOf b.ps)) (min (b.n - b.st.nProcessed) limit)
    (b.st.inc, pos) a = D
  obtain ⟨ys, ⟨inc', p'⟩, r, why⟩ := D
  have hD' := hD
  rw [htbl, hn] at hD'
  obtain ⟨⟨xs2, hxs, hres⟩, hwhy, hrlen, hall⟩ :=
    drain_facts L hL c hc (c.us.length - b.st.nProcessed) (min (c.us.length - b.st.nProcessed) limit)
      (Nat.min_le_left _ _) (Nat.sub_le _ _) b.st.inc pos a t _ stf _ hunits ys inc' p' r why hD'
  have hwhy' : why = none ∨ why = some .insufficient := by
    rcases hwhy with ⟨h, _⟩ | ⟨h, _⟩
    · exact Or.inl h
    · exact Or.inr h
  have hdirty := numBatchDirty_eq L b limit ⟨a, pos⟩ ys inc' p' r why hD hwhy'
  have hnp := hinv.np_le
  have hbits := hinv.bits
  have hpos := hinv.hpos
  have hpad := hc.hpad
  have hcal := hc.hal
  have htl := hc.htail
  have hys : ys = (c.us.drop b.st.nProcessed).take ys.length := by
    rw [hxs, List.take_left' rfl]
  have hxs2 : xs2 = c.us.drop (b.st.nProcessed + ys.length) := by
    have := congrArg (List.drop ys.length) hxs
    rw [List.drop_drop, List.drop_left' rfl] at this
    rw [← this]
  unfold numBatch
  rw [hdirty]
  simp only [Rd.advance]
  have hyslen : ys.length ≤ min (c.us.length - b.st.nProcessed) limit := by
    rcases hwhy with ⟨_, h⟩ | ⟨_, h⟩ <;> omega
  have hrf : (List.replicate q false ++ c.tail).length = q + c.tail.length := by simp
  have hq := hinv.hq
  have hrl := iterUnits_rest_le _ _ _ _ _ _ hres
  have hrl2 := iterUnits_rest_le _ _ _ _ _ _ hunits
  simp only [List.length_append, List.length_replicate] at hrl hrl2
  by_cases hfin : (decide (why = none) && decide (limit ≥ b.n - b.st.nProcessed)) = true
  · -- the batch completes the body: padding and size check
    simp only [hfin, if_true]
    simp only [Bool.and_eq_true, decide_eq_true_eq] at hfin
    obtain ⟨hwn, hlimge⟩ := hfin
    have hyl : ys.length = c.us.length - b.st.nProcessed := by
      rcases hwhy with ⟨_, h⟩ | ⟨h, _⟩
      · rw [h]; apply Nat.min_eq_left; omega
      · rw [hwn] at h; cases h
    have hzero : c.us.length - b.st.nProcessed - ys.length = 0 := by omega
    rw [hzero] at hres
    simp only [iterUnits, Parser.pure] at hres
    injection hres with hres1 hres2
    have hlen2 : r.length + t.length = q + c.tail.length := by
      have := congrArg List.length hres2
      simpa using this
    have hqlt : q < 8 := by rcases hq with h | h <;> omega
    have hqle : q ≤ c.padn := by rcases hq with h | h <;> omega
    have hrq : q ≤ r.length := by omega
    have hrtake : r = List.replicate q false ++ r.drop q := by
      have h1 : (r ++ t).take q = r.take q := List.take_append_of_le_length hrq
      rw [hres2, List.take_left' (by simp)] at h1
      rw [h1, List.take_append_drop]
    have hrdrop : r.drop q ++ t = c.tail := by
      have h1 : (r ++ t).drop q = r.drop q ++ t := List.drop_append_of_le_length hrq
      rw [hres2, List.drop_left' (by simp)] at h1
      exact h1.symm
    have hde := drainEmptyByte_ok { bits := r, pos := pos + (a.length - r.length) } q (r.drop q)
      (by simp only; omega) hrtake
    rw [hde]
    have hchk : (b.bodyBytes * 8 != b.st.bitsProcessed + (pos + (a.length - r.length) + q - pos)) = false := by
      simp only [bne_eq_false_iff_eq]; omega
    simp only [Bool.true_and, hchk, Bool.false_eq_true, if_false]
    refine ⟨ys, _, _, true, rfl, hys, hyslen, rfl, ?_, ?_, ?_, ?_⟩
    · simp only [if_true]
      refine ⟨by simp only; omega, ⟨inc', ?_⟩, Or.inr rfl, ?_, ?_⟩
      · have h0 : c.us.length - (b.st.nProcessed + ys.length) = 0 := by omega
        have h1 : List.drop (b.st.nProcessed + ys.length) c.us = [] :=
          List.drop_of_length_le (by omega)
        simp only [h0, h1, iterUnits, Parser.pure, List.replicate_zero, List.nil_append, hrdrop]
      · simp only [List.length_drop]; omega
      · simp only; omega
    · simp only [true_iff]; omega
    · simp only [List.length_drop]; omega
    · intro _; omega
  · -- the batch stops before the end of the body
    simp only [hfin, Bool.false_eq_true, if_false, Bool.false_and]
    have hlt : b.st.nProcessed + ys.length < c.us.length := by
      simp only [Bool.and_eq_true, decide_eq_true_eq, not_and] at hfin
      rcases hwhy with ⟨hw, h⟩ | ⟨_, h⟩
      · have := hfin hw
        rw [hn] at this
        omega
      · omega
    refine ⟨ys, _, _, false, rfl, hys, hyslen, rfl, ?_, ?_, ?_, ?_⟩
    · simp only [Bool.false_eq_true, if_false]
      refine ⟨by simp only; omega, ⟨stf, ?_⟩, hq, ?_, ?_⟩
      · have h0 : c.us.length - (b.st.nProcessed + ys.length)
            = c.us.length - b.st.nProcessed - ys.length := by omega
        simp only [h0, ← hxs2]
        exact hres
      · simp only; omega
      · simp only; omega
    · simp only [Bool.false_eq_true, false_iff]; omega
    · simp only; omega
    · intro ht
      have hw := hall ht (by rw [hrf]; omega)
      rcases hwhy with ⟨_, h⟩ | ⟨h, _⟩
      · exact h
      · rw [hw] at h; cases h

end Stream
end Qco
