/-
Streaming refinement, layer 2: `Op.drainR (unitL L t)` against `iterUnits (unit t)`.

`drainR_spec` generalises `drain_resume` to the operational drain (lazy lookup, position threaded
through the state): what a drain on the available prefix `s` of the data `s ++ tl` returns is a
prefix of the full unit stream, the rest of the stream is obtained by resuming from the reached
state on the unconsumed bits plus the bits still to come, the drain stops only for `insufficient`,
and with all data present (and `lookahead` bits following the units) it does not stop early.
Only `WeakLazyOf L` is assumed: the lookup need not be monotone in the available data; the
argument goes through the prefix-safety of the specification's unit.
-/
import Qco.Lemmas.StreamUnit
namespace Qco
namespace Stream
open Parser Op

theorem matchCode_rest_le (codes : List Bits) (s : Bits) (i : Nat) (r : Bits)
    (h : matchCode codes s = .ok i r) : r.length ≤ s.length := by
  unfold matchCode at h
  split at h
  · cases h; simp
  · split at h <;> cases h

theorem unit_rest_le (t : Table) (st : UState) (s : Bits) (a : Nat × UState) (r : Bits)
    (h : unit t st s = .ok a r) : r.length ≤ s.length := by
  cases st with
  | some pr =>
    obtain ⟨p, rem⟩ := pr
    rcases decOffsetC_char (t.info p).r (t.info p).k s with ⟨off, ob, r', h1, h2⟩ | ⟨_, h2⟩
    · simp only [unit, Parser.bind, h2, Parser.pure] at h
      cases h
      exact suffix_length_le (safe_decOffset _ _) h2
    · simp only [unit, Parser.bind, h2] at h
      cases h
  | none =>
    rw [unit_none] at h
    unfold Parser.bind at h
    cases hm : matchCode t.codes s with
    | ok p r0 =>
      rw [hm] at h; simp only at h
      have h0 := matchCode_rest_le _ _ _ _ hm
      rcases cont_char t 0 p r0 with ⟨x2, st2, pos2, r2, _, h2, hle⟩ | ⟨_, h2⟩
      · rw [h2] at h; cases h; omega
      · rw [h2] at h; cases h
    | insufficient => rw [hm] at h; cases h
    | corrupt => rw [hm] at h; cases h
    | compat => rw [hm] at h; cases h

theorem iterUnits_rest_le (t : Table) (n : Nat) (st : UState) (s : Bits) (a : List Nat × UState)
    (r : Bits) (h : iterUnits (unit t) n st s = .ok a r) : r.length ≤ s.length := by
  induction n generalizing st s a with
  | zero => simp only [iterUnits, Parser.pure] at h; cases h; exact Nat.le_refl _
  | succ n ih =>
    rw [iterUnits_succ] at h
    cases hu : unit t st s with
    | ok v r1 =>
      obtain ⟨x, st1⟩ := v
      rw [hu] at h; simp only at h
      cases hi : iterUnits (unit t) n st1 r1 with
      | ok w r2 =>
        rw [hi] at h; cases h
        have := ih st1 r1 _ hi
        have := unit_rest_le t st s _ _ hu
        omega
      | insufficient => rw [hi] at h; cases h
      | corrupt => rw [hi] at h; cases h
      | compat => rw [hi] at h; cases h
    | insufficient => rw [hu] at h; cases h
    | corrupt => rw [hu] at h; cases h
    | compat => rw [hu] at h; cases h

theorem drainR_zero {σ : Type} (u : σ → Parser (Nat × σ)) (st : σ) (s : Bits) :
    drainR u 0 st s = ([], st, s, none) := rfl

theorem drainR_succ_ok {σ : Type} (u : σ → Parser (Nat × σ)) (m : Nat) (st : σ) (s : Bits)
    (x : Nat) (st1 : σ) (r : Bits) (h : u st s = .ok (x, st1) r) :
    drainR u (m+1) st s =
      (x :: (drainR u m st1 r).1, (drainR u m st1 r).2.1, (drainR u m st1 r).2.2.1,
        (drainR u m st1 r).2.2.2) := by
  simp only [drainR, h]

theorem drainR_succ_insufficient {σ : Type} (u : σ → Parser (Nat × σ)) (m : Nat) (st : σ) (s : Bits)
    (h : u st s = .insufficient) :
    drainR u (m+1) st s = ([], st, s, some .insufficient) := by
  simp only [drainR, h]

/-- the operational drain on an available prefix, against the specification's unit stream -/
theorem drainR_spec (L : Matcher) (hL : WeakLazyOf L) (t : Table) (hct : completeTree t.codes = true)
    (n m : Nat) (hm : m ≤ n) (st : UState) (pos : Nat) (s tl : Bits)
    (xs : List Nat) (stf : UState) (rf : Bits)
    (hfull : iterUnits (unit t) n st (s ++ tl) = .ok (xs, stf) rf)
    (ys : List Nat) (st' : UState) (pos' : Nat) (r : Bits) (why : Option Err)
    (hd : drainR (unitL L t) m (st, pos) s = (ys, (st', pos'), r, why)) :
    (∃ xs2, xs = ys ++ xs2 ∧
      iterUnits (unit t) (n - ys.length) st' (r ++ tl) = .ok (xs2, stf) rf) ∧
    ((why = none ∧ ys.length = m) ∨ (why = some .insufficient ∧ ys.length < m)) ∧
    r.length ≤ s.length ∧
    (tl = [] → lookahead ≤ rf.length → why = none) := by
  induction m generalizing n st pos s xs ys st' pos' r why with
  | zero =>
    rw [drainR_zero] at hd
    cases hd
    exact ⟨⟨xs, by simp, by simpa using hfull⟩, Or.inl ⟨rfl, rfl⟩, Nat.le_refl _, fun _ _ => rfl⟩
  | succ m ih =>
    cases n with
    | zero => omega
    | succ n =>
      rw [iterUnits_succ] at hfull
      rcases unitL_ok_or_insufficient L hL t hct (st, pos) s with ⟨a, r1, hu⟩ | hu
      · obtain ⟨x, st1, pos1⟩ := a
        rw [drainR_succ_ok _ _ _ _ _ _ _ hu] at hd
        -- soundness on the available prefix, then prefix-safety of the SPECIFICATION's unit
        have hsp0 := unitL_sound L hL t hct st pos s x st1 pos1 r1 hu
        have hsp := (safe_unit t (completeTree_prefixFree _ hct) st).ok_ext s _ r1 tl hsp0
        rw [hsp] at hfull; simp only at hfull
        cases hit : iterUnits (unit t) n st1 (r1 ++ tl) with
        | ok w r2 =>
          obtain ⟨xs', st2⟩ := w
          rw [hit] at hfull
          cases hfull
          generalize hD : drainR (unitL L t) m (st1, pos1) r1 = D at hd
          obtain ⟨ys', ⟨st2', pos2'⟩, r2', why2⟩ := D
          obtain ⟨⟨xs2, hxs, hres⟩, hwhy, hlen, hall⟩ :=
            ih n (by omega) st1 pos1 r1 xs' hit _ _ _ _ _ hD
          have hr1 := unit_rest_le t st s _ _ hsp0
          cases hd
          refine ⟨⟨xs2, by simp [hxs], ?_⟩, ?_, Nat.le_trans hlen hr1, hall⟩
          · simp only [List.length_cons]
            have : n + 1 - (ys'.length + 1) = n - ys'.length := by omega
            rw [this]; exact hres
          · rcases hwhy with ⟨h1, h2⟩ | ⟨h1, h2⟩
            · left; exact ⟨h1, by simp [h2]⟩
            · right; exact ⟨h1, by simp only [List.length_cons]; omega⟩
        | insufficient => rw [hit] at hfull; cases hfull
        | corrupt => rw [hit] at hfull; cases hfull
        | compat => rw [hit] at hfull; cases hfull
      · rw [drainR_succ_insufficient _ _ _ _ hu] at hd
        simp only [Prod.mk.injEq] at hd
        obtain ⟨h1, ⟨h2, h3⟩, h4, h5⟩ := hd
        subst h1 h2 h3 h4 h5
        refine ⟨⟨xs, by simp, ?_⟩, Or.inr ⟨rfl, by simp⟩, Nat.le_refl _, ?_⟩
        · simp only [List.length_nil, Nat.sub_zero]
          rw [iterUnits_succ]; exact hfull
        · intro htl hslack
          exfalso
          subst htl
          simp only [List.append_nil] at hfull
          cases hsp : unit t st s with
          | ok v r1 =>
            obtain ⟨x, st1⟩ := v
            rw [hsp] at hfull; simp only at hfull
            cases hit : iterUnits (unit t) n st1 r1 with
            | ok w r2 =>
              rw [hit] at hfull; cases hfull
              have hle := iterUnits_rest_le t n st1 r1 _ _ hit
              obtain ⟨pos', hok⟩ := unitL_slack L hL t hct st pos s x st1 r1 hsp (by omega)
              rw [hok] at hu; cases hu
            | insufficient => rw [hit] at hfull; cases hfull
            | corrupt => rw [hit] at hfull; cases hfull
            | compat => rw [hit] at hfull; cases hfull
          | insufficient => rw [hsp] at hfull; cases hfull
          | corrupt => rw [hsp] at hfull; cases hfull
          | compat => rw [hsp] at hfull; cases hfull

end Stream
end Qco
