/-
Streaming refinement, layer 4a: positions of the iterator in a well-formed file, the invariant
`Inv` relating a decompressor state to a position, the items still to come at a position
(`remItems`), and what well-formedness of a chunk gives the body decoder created by `newBody`.
-/
import Qco.Lemmas.StreamNums
import Qco.Lemmas.StreamSafe
import Qco.Spec.RoundTrip
namespace Qco
namespace Stream
open Parser Op C04 C05

variable (gb : Nat → Nat) (d : DType) (f : AFile)

/-- the bits of the file from chunk `k` on -/
def tailBits (k : Nat) : Bits :=
  (f.chunks.drop k).flatMap (encChunk gb d f.flags) ++ natBits 8 Frozen.magicTerminationByte

/-- where the iterator is in the file -/
inductive Pos where
  | start
  | chunk (k : Nat)
  | body (k j : Nat)
  | done

def bctx (k : Nat) (c : AChunk) : BCtx :=
  { tbl := tableOf c.cm.prefixes
    us := blocksNums (tableOf c.cm.prefixes) c.blocks
    EL := (encBlocks (tableOf c.cm.prefixes) c.blocks).length
    padn := (8 - (encBlocks (tableOf c.cm.prefixes) c.blocks).length % 8) % 8
    tail := tailBits gb d f (k + 1) }

def vctx (c : AChunk) : VCtx :=
  { d := d, order := f.flags.order, n := c.cm.n, vals := chunkVals d f.flags c.toD }

/-- the state `σ` (with `t` = the bits of the file not yet written to it) is at position `p` -/
def Inv : Pos → St → Bits → Prop
  | .start, σ, t => σ.flags = none ∧ σ.body = none ∧ σ.terminated = false ∧ σ.pos % 8 = 0 ∧
      σ.rest ++ t = encodeFile gb d f
  | .chunk k, σ, t => k ≤ f.chunks.length ∧ σ.flags = some f.flags ∧ σ.body = none ∧
      σ.terminated = false ∧ σ.pos % 8 = 0 ∧ σ.rest ++ t = tailBits gb d f k
  | .body k j, σ, t => ∃ c b q, f.chunks[k]? = some c ∧ σ.flags = some f.flags ∧ σ.body = some b ∧
      σ.terminated = false ∧ BodyInv (bctx gb d f k c) (vctx d f c) b σ.rest t σ.pos q j
  | .done, σ, t => σ.terminated = true ∧ σ.rest ++ t = []

def chunkItems (limit : Nat) (c : AChunk) : List Item :=
  .meta_ c.fixedMeta :: (splitEvery limit (chunkVals d f.flags c.toD)).map .nums

def itemsFrom (limit k : Nat) : List Item :=
  (f.chunks.drop k).flatMap (chunkItems d f limit) ++ [.footer]

/-- the items still to come at a position, when all data is there -/
def remItems (limit : Nat) : Pos → List Item
  | .start => .flags f.flags :: itemsFrom d f limit 0
  | .chunk k => itemsFrom d f limit k
  | .body k j =>
    (match f.chunks[k]? with
     | some c => (splitEvery limit ((chunkVals d f.flags c.toD).drop j)).map .nums
     | none => []) ++ itemsFrom d f limit (k + 1)
  | .done => []

def sizeFrom (k : Nat) : Nat := ((f.chunks.drop k).map fun c => c.cm.n + 1).sum

/-- an upper bound on the number of items still to come, whatever the batching -/
def meas : Pos → Nat
  | .start => sizeFrom f 0 + 2
  | .chunk k => sizeFrom f k + 1
  | .body k j => ((f.chunks[k]?.map fun c => c.cm.n).getD 0 - j) + sizeFrom f (k + 1) + 1
  | .done => 0

theorem expectedItems_eq (limit : Nat) : expectedItems d f limit = remItems d f limit .start := by
  simp only [expectedItems, remItems, itemsFrom, List.drop_zero, List.cons_append,
    List.nil_append]
  rfl

theorem drop_of_getElem? {α : Type} (l : List α) (k : Nat) (c : α) (h : l[k]? = some c) :
    l.drop k = c :: l.drop (k + 1) := by
  have hk : k < l.length := by
    rcases Nat.lt_or_ge k l.length with h1 | h1
    · exact h1
    · rw [List.getElem?_eq_none h1] at h; cases h
  rw [List.getElem?_eq_getElem hk] at h
  injection h with h
  rw [← h]
  exact List.drop_eq_getElem_cons hk

theorem tailBits_chunk (k : Nat) (c : AChunk) (h : f.chunks[k]? = some c) :
    tailBits gb d f k = encChunk gb d f.flags c ++ tailBits gb d f (k + 1) := by
  simp only [tailBits, drop_of_getElem? _ _ _ h, List.flatMap_cons, List.append_assoc]

theorem tailBits_end : tailBits gb d f f.chunks.length = natBits 8 Frozen.magicTerminationByte := by
  simp [tailBits]

theorem itemsFrom_chunk (limit k : Nat) (c : AChunk) (h : f.chunks[k]? = some c) :
    itemsFrom d f limit k = chunkItems d f limit c ++ itemsFrom d f limit (k + 1) := by
  simp only [itemsFrom, drop_of_getElem? _ _ _ h, List.flatMap_cons, List.append_assoc]

theorem itemsFrom_end (limit : Nat) : itemsFrom d f limit f.chunks.length = [.footer] := by
  simp [itemsFrom]

theorem sizeFrom_chunk (k : Nat) (c : AChunk) (h : f.chunks[k]? = some c) :
    sizeFrom f k = c.cm.n + 1 + sizeFrom f (k + 1) := by
  simp only [sizeFrom, drop_of_getElem? _ _ _ h, List.map_cons, List.sum_cons]

theorem tailBits_length_ge (k : Nat) : 8 ≤ (tailBits gb d f k).length := by
  simp only [tailBits, List.length_append, natBits_length]; omega

theorem encChunk_length_mod (fl : Flags) (c : AChunk) : (encChunk gb d fl c).length % 8 = 0 := by
  have h1 := padToByte_length_mod (natBits Frozen.bitsNEntries c.fixedMeta.n ++ natBits Frozen.bitsBodySize c.fixedMeta.bodyBytes
    ++ c.fixedMeta.moments.flatMap (encMoment d.signed)
    ++ encPrefixes gb (prefDType d fl) fl c.fixedMeta.n c.fixedMeta.commonGcd c.fixedMeta.prefixes)
  have h2 := padToByte_length_mod (encBlocks (tableOf c.cm.prefixes) c.blocks)
  simp only [encChunk, encChunkMeta, encBody, List.length_append, natBits_length] at h1 h2 ⊢
  omega

theorem tailBits_length_mod (k : Nat) : (tailBits gb d f k).length % 8 = 0 := by
  unfold tailBits
  generalize f.chunks.drop k = cs
  induction cs with
  | nil => simp
  | cons c cs ih =>
    have := encChunk_length_mod gb d f.flags c
    simp only [List.flatMap_cons, List.length_append, natBits_length] at ih ⊢
    omega


/-! ### what well-formedness of a chunk gives the body decoder -/

variable {gb d f}

theorem bctx_ok (k : Nat) (c : AChunk) (hc : c.WF gb d f.flags) : (bctx gb d f k c).Ok := by
  refine ⟨?_, ?_, ?_, ?_⟩
  · simp only [bctx]; omega
  · simp only [bctx]; omega
  · have := tailBits_length_ge gb d f (k + 1)
    simp only [bctx, lookahead]; omega
  · intro hne
    rcases hc.tree_ok with h | h
    · exfalso
      have h1 := hc.empty_ok h
      have h2 := hc.count_ok
      rw [h1] at h2
      exact hne (List.length_eq_zero_iff.mp h2)
    · simpa [bctx, tableOf] using h

theorem vctx_ok (k : Nat) (c : AChunk) (hc : c.WF gb d f.flags) : (vctx d f c).Ok (bctx gb d f k c) := by
  refine ⟨?_, ?_⟩
  · have := hc.count_ok
    simp only [bctx, vctx, bodyCount] at this ⊢
    omega
  · intro h0
    have := hc.count_ok
    simp only [vctx] at h0
    simp only [bctx, vctx, bodyCount, h0, Nat.sub_zero] at this ⊢
    refine ⟨this.symm, ?_⟩
    simp [chunkVals, h0, AChunk.toD]

theorem chunkVals_length (c : AChunk) (hc : c.WF gb d f.flags) :
    (chunkVals d f.flags c.toD).length = c.cm.n := by
  unfold chunkVals
  split
  · rename_i h0
    have := hc.count_ok
    simp only [bodyCount, h0, Nat.sub_zero] at this
    simpa [AChunk.toD] using this
  · rw [← reconNums_fst, reconNums_length]; rfl

theorem encBody_eq (c : AChunk) (k : Nat) :
    encBody c.cm.prefixes c.blocks = encBlocks (tableOf c.cm.prefixes) c.blocks ++
      List.replicate (bctx gb d f k c).padn false := rfl

theorem readChunkMeta_tail (h : f.WF gb d) (k : Nat) (c : AChunk) (hk : f.chunks[k]? = some c) :
    readChunkMeta gb d f.flags (tailBits gb d f k) =
      .ok (some c.fixedMeta) (encBody c.cm.prefixes c.blocks ++ tailBits gb d f (k + 1)) := by
  have hc : c.WF gb d f.flags := h.chunks_ok c (List.mem_of_getElem? hk)
  have hcg : ∀ g, c.fixedMeta.commonGcd = some g → f.flags.gcds = true ∧ 1 ≤ g ∧
      (g = 1 ∨ (g - 1 < 2 ^ gb ((prefDType d f.flags).M - 1) ∧ g - 1 < (prefDType d f.flags).M - 1)) := by
    intro g hg
    have hg' : c.cm.commonGcd = some g := hg
    have := hc.common_ok
    rw [hg'] at this
    exact this
  have hm := decChunkMeta_enc gb d f.flags c.fixedMeta h.pref_dtype_ok h.signed_ok hc.n_lt hc.body_lt
    hc.moments_len hc.moments_ok hc.nprefs_lt hcg hc.prefixes_ok
  have h44 : Frozen.magicChunkByte < 2 ^ 8 := by decide
  have hne : ¬ (Frozen.magicChunkByte = Frozen.magicTerminationByte) := by decide
  rw [tailBits_chunk gb d f k c hk]
  simp only [readChunkMeta, encChunk, List.append_assoc, Parser.bind, readNat_natBits h44, hne,
    if_false, if_true, Parser.map, hm, Parser.pure]

theorem readChunkMeta_end :
    readChunkMeta gb d f.flags (tailBits gb d f f.chunks.length) = .ok none [] := by
  have h46 : Frozen.magicTerminationByte < 2 ^ 8 := by decide
  have := readNat_natBits h46 []
  rw [List.append_nil] at this
  simp only [tailBits_end, readChunkMeta, Parser.bind, this, if_true, Parser.pure]

theorem newBody_ok (c : AChunk) (hc : c.WF gb d f.flags) :
    newBody f.flags c.fixedMeta = .ok
      { n := bodyCount f.flags c.cm.n, bodyBytes := c.fixedMeta.bodyBytes, ps := c.cm.prefixes,
        st := { nProcessed := 0, bitsProcessed := 0, inc := none },
        total := c.cm.n, order := f.flags.order, moments := c.cm.moments, numsProcessed := 0 } := by
  have h1 : (c.cm.prefixes.isEmpty && decide (bodyCount f.flags c.cm.n > 0)) = false := by
    cases hps : c.cm.prefixes with
    | nil => have := hc.empty_ok hps; simp [this]
    | cons p ps => simp
  have h2 : (!c.cm.prefixes.isEmpty && !completeTree (c.cm.prefixes.map (·.code))) = false := by
    rcases hc.tree_ok with h | h
    · simp [h]
    · simp [h]
  unfold newBody
  simp only [AChunk.fixedMeta, h2, Bool.false_eq_true, if_false]
  split
  · rename_i hx
    exfalso
    simp only [gt_iff_lt, Bool.and_eq_true, decide_eq_true_eq] at hx h1
    simp [hx.1, hx.2] at h1
  · rfl


/-- the body decoder `newBody` creates -/
def body0 (f : AFile) (c : AChunk) : Body :=
  { n := bodyCount f.flags c.cm.n, bodyBytes := c.fixedMeta.bodyBytes, ps := c.cm.prefixes,
    st := { nProcessed := 0, bitsProcessed := 0, inc := none },
    total := c.cm.n, order := f.flags.order, moments := c.cm.moments, numsProcessed := 0 }

theorem static0 (k : Nat) (c : AChunk) (hc : c.WF gb d f.flags) :
    BStatic (bctx gb d f k c) (vctx d f c) (body0 f c) := by
  refine ⟨hc.count_ok.symm, rfl, ?_, rfl, rfl⟩
  have h1 := padToByte_length_mod (encBlocks (tableOf c.cm.prefixes) c.blocks)
  have h2 : (padToByte (encBlocks (tableOf c.cm.prefixes) c.blocks)).length
      = (encBlocks (tableOf c.cm.prefixes) c.blocks).length
        + (8 - (encBlocks (tableOf c.cm.prefixes) c.blocks).length % 8) % 8 := by
    simp [padToByte]
  simp only [body0, AChunk.fixedMeta, encBody, bctx]
  omega

theorem uinv0 (k : Nat) (c : AChunk) (hc : c.WF gb d f.flags) (a t : Bits) (pos : Nat)
    (hpos : pos % 8 = 0)
    (hat : a ++ t = encBody c.cm.prefixes c.blocks ++ tailBits gb d f (k + 1)) :
    UInv (bctx gb d f k c) (body0 f c).st a t pos (bctx gb d f k c).padn := by
  refine ⟨Nat.zero_le _, ⟨none, ?_⟩, Or.inl rfl, ?_, ?_⟩
  · rw [hat, encBody_eq (gb := gb) (d := d) (f := f) c k, List.append_assoc]
    simp only [body0, Nat.sub_zero, List.drop_zero]
    exact iter_blocks _ hc.table_wf _ hc.blocks_ok _
  · have := congrArg List.length hat
    rw [encBody_eq (gb := gb) (d := d) (f := f) c k] at this
    simp only [List.length_append, List.length_replicate] at this
    simp only [body0, bctx] at this ⊢
    omega
  · simp only [body0]; omega

theorem bodyInv0 (k : Nat) (c : AChunk) (hc : c.WF gb d f.flags) (a t : Bits) (pos : Nat)
    (hpos : pos % 8 = 0) (hn : 0 < c.cm.n)
    (hat : a ++ t = encBody c.cm.prefixes c.blocks ++ tailBits gb d f (k + 1)) :
    BodyInv (bctx gb d f k c) (vctx d f c) (body0 f c) a t pos (bctx gb d f k c).padn 0 := by
  refine ⟨static0 k c hc, hn, by simp [body0], uinv0 k c hc a t pos hpos hat, ?_⟩
  intro _
  refine ⟨rfl, ?_⟩
  simp only [vctx, Nat.sub_zero, List.drop_zero, body0, reconNums_fst] at *
  simp only [chunkVals]
  rename_i h0
  simp only [h0, if_false]
  rfl

end Stream
end Qco
