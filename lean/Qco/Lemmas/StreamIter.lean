/-
Streaming refinement, layer 5: draining the iterator.

`drain_exact`: with all data written, `drainIter` from a state at position `p` yields exactly
`remItems p` and reaches `done`. `drain_partial`: with any byte-aligned prefix of the data
written, and any fuel, it yields items consistent (up to batching) with `remItems`, never an
error, and leaves a state at a later position; with all data and enough fuel it reaches `done`.
-/
import Qco.Lemmas.StreamStep
namespace Qco
namespace Stream
open Parser Op C04 C05

variable {gb : Nat → Nat} {d : DType} {f : AFile}

theorem drain_exact (L : Matcher) (hL : WeakLazyOf L) (limit : Nat) (hlim : 1 ≤ limit) (h : f.WF gb d)
    (fuel : Nat) (p : Pos) (σ : St) (acc : List Item) (hinv : Inv gb d f p σ []) (hal : Al σ)
    (hfuel : (remItems d f limit p).length < fuel) :
    ∃ σ', drainIter L gb d limit fuel σ acc = (acc.reverse ++ remItems d f limit p, none, σ') ∧
      Inv gb d f .done σ' [] := by
  induction fuel generalizing p σ acc with
  | zero => omega
  | succ fuel ih =>
    by_cases hp : p = .done
    · subst hp
      refine ⟨σ, ?_, hinv⟩
      simp only [drainIter, next_done L limit σ hinv.1, remItems, List.append_nil]
    · rcases step L hL limit hlim h σ [] p hp hinv hal with ⟨σ', _, _, _, hne⟩ | ⟨it, p', σ', hn, hinv', hal', _, _, hex⟩
      · exact absurd rfl hne
      · have hex := hex rfl
        rw [hex] at hfuel ⊢
        simp only [List.length_cons] at hfuel
        obtain ⟨σ'', hd, hi⟩ := ih p' σ' (it :: acc) hinv' hal' (by omega)
        refine ⟨σ'', ?_, hi⟩
        simp only [drainIter, hn, hd, List.reverse_cons, List.append_assoc, List.singleton_append]

theorem meas_done_of_le {p : Pos} (h : meas f p ≤ 0) : p = .done := by
  cases p <;> simp only [meas] at h <;> first | rfl | omega

theorem drain_partial (L : Matcher) (hL : WeakLazyOf L) (limit : Nat) (hlim : 1 ≤ limit) (h : f.WF gb d)
    (t : Bits) (fuel : Nat) (p : Pos) (σ : St) (acc : List Item) (hinv : Inv gb d f p σ t) (hal : Al σ) :
    ∃ its p' σ', drainIter L gb d limit fuel σ acc = (acc.reverse ++ its, none, σ') ∧
      Inv gb d f p' σ' t ∧ Al σ' ∧ meas f p' ≤ meas f p ∧
      canon (its ++ remItems d f limit p') = canon (remItems d f limit p) ∧
      (t = [] → meas f p < fuel → p' = .done) := by
  induction fuel generalizing p σ acc with
  | zero =>
    exact ⟨[], p, σ, by simp [drainIter], hinv, hal, Nat.le_refl _, rfl, fun _ hm => by omega⟩
  | succ fuel ih =>
    by_cases hp : p = .done
    · subst hp
      refine ⟨[], .done, σ, ?_, hinv, hal, Nat.le_refl _, rfl, fun _ _ => rfl⟩
      simp only [drainIter, next_done L limit σ hinv.1, List.append_nil]
    · rcases step L hL limit hlim h σ t p hp hinv hal with
        ⟨σ', hn, hinv', hal', hne⟩ | ⟨it, p', σ', hn, hinv', hal', hm, hc, _⟩
      · refine ⟨[], p, σ', ?_, hinv', hal', Nat.le_refl _, rfl, fun ht _ => absurd ht hne⟩
        simp only [drainIter, hn, List.append_nil]
      · obtain ⟨its, p'', σ'', hd, hi, ha, hm', hc', hdone⟩ := ih p' σ' (it :: acc) hinv' hal'
        refine ⟨it :: its, p'', σ'', ?_, hi, ha, by omega, ?_, fun ht hf => hdone ht (by omega)⟩
        · simp only [drainIter, hn, hd, List.reverse_cons, List.append_assoc, List.singleton_append]
        · rw [List.cons_append, canon_cons_congr _ _ _ hc', hc]

end Stream
end Qco
