/-
Streaming refinement, list-level definitions and lemmas:
* `C04.splitEvery`, `C04.expectedItems` (the items the iterator yields on a complete file);
* `C05.canon` (merging of consecutive number batches);
* `Op.reconNums` composes over batches and agrees with the specification's `reconstructNums`.
-/
import Qco.Op.Decomp
namespace Qco

namespace C04

/-- consecutive pieces of length `k`, the last one possibly shorter; `[] ↦ []`
(`k = 0`: a single piece) -/
def splitEvery (k : Nat) (l : List Nat) : List (List Nat) :=
  if _h : l = [] ∨ k = 0 then (if l = [] then [] else [l])
  else l.take k :: splitEvery k (l.drop k)
termination_by l.length
decreasing_by
  have h1 : l ≠ [] := fun e => _h (Or.inl e)
  have h2 : k ≠ 0 := fun e => _h (Or.inr e)
  have : 0 < l.length := List.length_pos_iff.mpr h1
  simp only [List.length_drop]; omega

/-- the items `Iterator::next` yields on a complete file, with batch limit `limit` -/
def expectedItems (d : DType) (f : AFile) (limit : Nat) : List Op.Item :=
  [.flags f.flags] ++ f.chunks.flatMap (fun c =>
    .meta_ c.fixedMeta :: (splitEvery limit (chunkVals d f.flags c.toD)).map .nums) ++ [.footer]

theorem splitEvery_nil (k : Nat) : splitEvery k [] = [] := by
  rw [splitEvery]; simp

theorem splitEvery_ne_nil (k : Nat) (hk : 1 ≤ k) (l : List Nat) (hl : l ≠ []) :
    splitEvery k l = l.take k :: splitEvery k (l.drop k) := by
  rw [splitEvery]
  have : ¬ (l = [] ∨ k = 0) := by
    intro h; rcases h with h | h
    · exact hl h
    · omega
  simp [this]

theorem splitEvery_flatten (k : Nat) (hk : 1 ≤ k) (l : List Nat) : (splitEvery k l).flatten = l := by
  induction hn : l.length using Nat.strongRecOn generalizing l with
  | _ n ih =>
    by_cases hl : l = []
    · subst hl; simp [splitEvery_nil]
    · rw [splitEvery_ne_nil k hk l hl, List.flatten_cons]
      have hpos : 0 < l.length := List.length_pos_iff.mpr hl
      rw [ih (l.drop k).length (by simp only [List.length_drop]; omega) (l.drop k) rfl]
      exact List.take_append_drop k l

theorem splitEvery_mem (k : Nat) (hk : 1 ≤ k) (l : List Nat) :
    ∀ p ∈ splitEvery k l, p ≠ [] ∧ p.length ≤ k := by
  induction hn : l.length using Nat.strongRecOn generalizing l with
  | _ n ih =>
    by_cases hl : l = []
    · subst hl; simp [splitEvery_nil]
    · rw [splitEvery_ne_nil k hk l hl]
      have hpos : 0 < l.length := List.length_pos_iff.mpr hl
      intro p hp
      rcases List.mem_cons.mp hp with rfl | hp
      · constructor
        · intro h
          have := congrArg List.length h
          simp only [List.length_take, List.length_nil] at this
          omega
        · simp only [List.length_take]; omega
      · exact ih (l.drop k).length (by simp only [List.length_drop]; omega) (l.drop k) rfl p hp

/-- the first batch has `min k |l|` elements -/
theorem splitEvery_step (k : Nat) (hk : 1 ≤ k) (l : List Nat) (hl : l ≠ []) :
    splitEvery k l = l.take (min k l.length) :: splitEvery k (l.drop (min k l.length)) := by
  rw [splitEvery_ne_nil k hk l hl]
  rcases Nat.le_total k l.length with h | h
  · rw [Nat.min_eq_left h]
  · rw [Nat.min_eq_right h, List.take_of_length_le h, List.drop_of_length_le h,
      List.take_of_length_le (Nat.le_refl _), List.drop_of_length_le (Nat.le_refl _)]

end C04

namespace C05
open Op

/-- merge consecutive number batches -/
def canon : List Item → List Item
  | [] => []
  | .nums xs :: rest =>
    match canon rest with
    | .nums ys :: r => .nums (xs ++ ys) :: r
    | r => .nums xs :: r
  | .flags f :: rest => .flags f :: canon rest
  | .meta_ m :: rest => .meta_ m :: canon rest
  | .footer :: rest => .footer :: canon rest

theorem canon_cons_congr (it : Item) (l1 l2 : List Item) (h : canon l1 = canon l2) :
    canon (it :: l1) = canon (it :: l2) := by
  cases it <;> simp only [canon, h]

theorem canon_append_congr (a l1 l2 : List Item) (h : canon l1 = canon l2) :
    canon (a ++ l1) = canon (a ++ l2) := by
  induction a with
  | nil => exact h
  | cons it a ih => exact canon_cons_congr it _ _ ih

theorem canon_nums_nums (x y : List Nat) (tl : List Item) :
    canon (.nums x :: .nums y :: tl) = canon (.nums (x ++ y) :: tl) := by
  simp only [canon]
  cases h : canon tl with
  | nil => rfl
  | cons it r =>
    cases it <;> simp [List.append_assoc]

theorem canon_split (k : Nat) (hk : 1 ≤ k) (l : List Nat) (hl : l ≠ []) (tl : List Item) :
    canon ((C04.splitEvery k l).map .nums ++ tl) = canon (.nums l :: tl) := by
  induction hn : l.length using Nat.strongRecOn generalizing l with
  | _ n ih =>
    rw [C04.splitEvery_ne_nil k hk l hl, List.map_cons, List.cons_append]
    have hpos : 0 < l.length := List.length_pos_iff.mpr hl
    by_cases hd : l.drop k = []
    · rw [hd, C04.splitEvery_nil]
      have : l.take k = l := by
        have := List.take_append_drop k l
        rw [hd, List.append_nil] at this; exact this
      rw [this]; rfl
    · have := ih (l.drop k).length (by simp only [List.length_drop]; omega) (l.drop k) hd rfl
      rw [canon_cons_congr _ _ _ this, canon_nums_nums, List.take_append_drop]

/-- like `canon_split`, including the empty list -/
theorem canon_split' (k : Nat) (hk : 1 ≤ k) (l : List Nat) (tl : List Item) :
    canon ((C04.splitEvery k l).map .nums ++ tl) = if l = [] then canon tl else canon (.nums l :: tl) := by
  by_cases hl : l = []
  · subst hl; simp [C04.splitEvery_nil]
  · simp only [hl, if_false]; exact canon_split k hk l hl tl

end C05

namespace Stream
open Op

/-! ### `reconNums` -/

theorem reconNums_fst (d : DType) (n : Nat) (ms ds : List Nat) :
    (reconNums d n ms ds).1 = (reconstructNums d.signed n ms ds).map d.fromS := by
  induction n generalizing ms ds with
  | zero => rfl
  | succ n ih =>
    cases ds with
    | nil => simp only [reconNums, reconstructNums, List.map_cons, ih]
    | cons dl rest => simp only [reconNums, reconstructNums, List.map_cons, ih]

theorem reconNums_length (d : DType) (n : Nat) (ms ds : List Nat) :
    (reconNums d n ms ds).1.length = n := by
  induction n generalizing ms ds with
  | zero => rfl
  | succ n ih =>
    cases ds with
    | nil => simp only [reconNums, List.length_cons, ih]
    | cons dl rest => simp only [reconNums, List.length_cons, ih]

/-- only the first `n` deltas are looked at -/
theorem reconNums_take (d : DType) (n : Nat) (ms ds : List Nat) :
    reconNums d n ms (ds.take n) = reconNums d n ms ds := by
  induction n generalizing ms ds with
  | zero => rfl
  | succ n ih =>
    cases ds with
    | nil => rfl
    | cons dl rest => simp only [List.take_succ_cons, reconNums, ih]

theorem reconNums_congr (d : DType) (n : Nat) (ms ds1 ds2 : List Nat) (h : ds1.take n = ds2.take n) :
    reconNums d n ms ds1 = reconNums d n ms ds2 := by
  rw [← reconNums_take d n ms ds1, ← reconNums_take d n ms ds2, h]

/-- reconstruction composes over batches -/
theorem reconNums_add (d : DType) (a b : Nat) (ms ds : List Nat) :
    reconNums d (a + b) ms ds =
      ((reconNums d a ms ds).1 ++ (reconNums d b (reconNums d a ms ds).2 (ds.drop a)).1,
       (reconNums d b (reconNums d a ms ds).2 (ds.drop a)).2) := by
  induction a generalizing ms ds with
  | zero => simp [reconNums]
  | succ a ih =>
    have : a + 1 + b = (a + b) + 1 := by omega
    rw [this]
    cases ds with
    | nil =>
      simp only [reconNums, ih, List.drop_nil, List.cons_append]
    | cons dl rest =>
      simp only [reconNums, ih, List.drop_succ_cons, List.cons_append]

end Stream
end Qco
