/-
Streaming refinement, layer 3b: `Op.nextBatch` in terms of the chunk's values.

`BodyInv c v b a t pos q j`: the body decoder `b` has produced `j` of the chunk's `v.n` values,
`a` are the available bits, `t` the bits still to arrive. `nextBatch_spec`: one more call returns
the next `k` values (`k = min limit (n - j)` when all data is there, never an error), re-establishes
the invariant at `j + k`, and has consumed the body exactly when `j + k = n`.
-/
import Qco.Lemmas.StreamBatch
namespace Qco
namespace Stream
open Parser Op

/-- chunk-level static data: type, delta order, number count, the chunk's values -/
structure VCtx where
  d : DType
  order : Nat
  n : Nat
  vals : List Nat

structure VCtx.Ok (c : BCtx) (v : VCtx) : Prop where
  ule : c.us.length ≤ v.n
  h0 : v.order = 0 → v.n = c.us.length ∧ v.vals = c.us.map v.d.fromU

/-- the fields of a `Body` that never change -/
structure BStatic (c : BCtx) (v : VCtx) (b : Body) : Prop where
  hn : b.n = c.us.length
  htbl : tableOf b.ps = c.tbl
  hbytes : b.bodyBytes * 8 = c.EL + c.padn
  htotal : b.total = v.n
  horder : b.order = v.order

/-- a body decoder having produced `j` of the chunk's values -/
structure BodyInv (c : BCtx) (v : VCtx) (b : Body) (a t : Bits) (pos q j : Nat) : Prop where
  static : BStatic c v b
  hj : j < v.n
  hnp : b.st.nProcessed = min j c.us.length
  uinv : UInv c b.st a t pos q
  hdelta : v.order ≠ 0 → b.numsProcessed = j ∧
    (reconNums v.d (v.n - j) b.moments ((c.us.map v.d.signed.fromU).drop j)).1 = v.vals.drop j

theorem UInv.done {c : BCtx} (hc : c.Ok) {st : NumSt} {a t : Bits} {pos : Nat}
    (h : UInv c st a t pos 0) (hnp : st.nProcessed = c.us.length) :
    a ++ t = c.tail ∧ pos % 8 = 0 := by
  obtain ⟨stf, hu⟩ := h.units
  have h0 : c.us.length - st.nProcessed = 0 := by omega
  rw [h0] at hu
  simp only [iterUnits, Parser.pure, List.replicate_zero, List.nil_append] at hu
  injection hu with _ h2
  have hb := h.bits
  have hp := h.hpos
  have hal := hc.hal
  have : a.length + t.length = c.tail.length := by
    have := congrArg List.length h2; simpa using this
  exact ⟨h2, by omega⟩


theorem nextBatch_spec (L : Matcher) (hL : WeakLazyOf L) (c : BCtx) (hc : c.Ok) (v : VCtx) (hv : v.Ok c)
    (b : Body) (limit : Nat) (hlim : 1 ≤ limit) (a t : Bits) (pos q j : Nat)
    (hinv : BodyInv c v b a t pos q j) (hal : (pos + a.length) % 8 = 0) :
    ∃ k nums b' rd',
      nextBatch L v.d b limit false ⟨a, pos⟩
        = (.ok { nums := nums, finished := decide (j + k = v.n) }, b', rd') ∧
      nums = (v.vals.drop j).take k ∧ nums.length = k ∧ k ≤ limit ∧ j + k ≤ v.n ∧
      (j + k < v.n → ∃ q', BodyInv c v b' rd'.bits t rd'.pos q' (j + k)) ∧
      (j + k = v.n → rd'.bits ++ t = c.tail ∧ rd'.pos % 8 = 0) ∧
      rd'.pos + rd'.bits.length = pos + a.length ∧
      (t = [] → k = min limit (v.n - j)) := by
  obtain ⟨ys, st', rd', fin, heq, hys, hyl, hnp', huinv', hfiniff, hposlen, hall⟩ :=
    numBatch_spec L hL c hc b limit hinv.static.hn hinv.static.htbl hinv.static.hbytes a t pos q
      hinv.uinv hal
  have hst := hinv.static
  have hj := hinv.hj
  have hnp := hinv.hnp
  have hule := hv.ule
  unfold nextBatch
  rw [heq]
  simp only
  by_cases ho : b.order = 0
  · -- no delta encoding: the values are the units
    rw [if_pos ho]
    have hvo : v.order = 0 := by rw [← hst.horder]; exact ho
    obtain ⟨hn0, hvals⟩ := hv.h0 hvo
    have hnpj : b.st.nProcessed = j := by rw [hnp]; apply Nat.min_eq_left; omega
    rw [hnpj] at hys hyl hnp' hfiniff hall
    have hfin : fin = decide (j + ys.length = v.n) := by
      cases fin with
      | true => have := hfiniff.mp rfl; simp [hn0, this]
      | false =>
        have : ¬ (j + ys.length = c.us.length) := fun h => by simpa using hfiniff.mpr h
        simp [hn0, this]
    refine ⟨ys.length, _, _, _, by rw [hfin], ?_, by simp, by omega, by omega, ?_, ?_, hposlen, ?_⟩
    · rw [hvals, ← List.map_drop, ← List.map_take, ← hys]
    · intro hlt
      refine ⟨_, ⟨⟨hst.hn, hst.htbl, hst.hbytes, hst.htotal, hst.horder⟩, hlt, ?_, huinv', ?_⟩⟩
      · simp only [hnp']; rw [Nat.min_eq_left]; omega
      · intro h; exact absurd hvo h
    · intro he
      have hf : fin = true := hfiniff.mpr (by omega)
      rw [hf] at huinv'
      exact UInv.done hc huinv' (by rw [hnp']; omega)
    · intro ht; rw [hall ht, hn0, Nat.min_comm]
  · rw [if_neg ho]
    have hvo : v.order ≠ 0 := by rw [← hst.horder]; exact ho
    obtain ⟨hnumsP, hrec⟩ := hinv.hdelta hvo
    simp only [hst.htotal, hnumsP]
    generalize hk : (if fin = true then min limit (v.n - j) else ys.length) = k
    have hfc : fin = true → b.st.nProcessed + ys.length = c.us.length := hfiniff.mp
    have hnfc : fin = false → b.st.nProcessed + ys.length < c.us.length := by
      intro h
      have : ¬ (b.st.nProcessed + ys.length = c.us.length) := fun e => by
        have := hfiniff.mpr e; rw [h] at this; cases this
      omega
    -- the deltas handed to the reconstruction are the next deltas of the chunk
    have hD : (ys.map v.d.signed.fromU).take k = ((c.us.map v.d.signed.fromU).drop j).take k := by
      cases hf : fin with
      | true =>
        have h1 := hfc hf
        have hys' : ys = c.us.drop b.st.nProcessed := by
          rw [hys]; apply List.take_of_length_le; simp only [List.length_drop]; omega
        by_cases hjn : j ≤ c.us.length
        · have : b.st.nProcessed = j := by rw [hnp]; exact Nat.min_eq_left hjn
          rw [hys', this, List.map_drop]
        · have hnb : b.st.nProcessed = c.us.length := by rw [hnp]; apply Nat.min_eq_right; omega
          have h2 : ys = [] := by rw [hys', hnb]; exact List.drop_of_length_le (Nat.le_refl _)
          have h3 : (c.us.map v.d.signed.fromU).drop j = [] :=
            List.drop_of_length_le (by simp only [List.length_map]; omega)
          rw [h2, h3]; rfl
      | false =>
        have h1 := hnfc hf
        have hjn : b.st.nProcessed = j := by
          rw [hnp]; apply Nat.min_eq_left
          rcases Nat.le_total j c.us.length with h | h
          · exact h
          · rw [hnp, Nat.min_eq_right h] at h1; omega
        rw [hf] at hk
        simp only [Bool.false_eq_true, if_false] at hk
        rw [← hk, ← hjn, List.take_of_length_le (by simp), ← List.map_drop, ← List.map_take, ← hys]
    have hcase : (fin = true ∧ k = min limit (v.n - j) ∧ b.st.nProcessed + ys.length = c.us.length) ∨
        (fin = false ∧ k = ys.length ∧ b.st.nProcessed = j ∧ j + ys.length < c.us.length) := by
      cases hf : fin with
      | true => left; rw [hf] at hk; exact ⟨rfl, by simpa using hk.symm, hfc hf⟩
      | false =>
        right
        have h1 := hnfc hf
        have hjn : b.st.nProcessed = j := by
          rw [hnp]; apply Nat.min_eq_left
          rcases Nat.le_total j c.us.length with h | h
          · exact h
          · rw [hnp, Nat.min_eq_right h] at h1; omega
        rw [hf] at hk
        exact ⟨rfl, by simpa using hk.symm, hjn, by omega⟩
    have hklim : k ≤ limit := by
      rw [← hk]; split <;> omega
    have hkn : j + k ≤ v.n := by
      rw [← hk]; split
      · omega
      · rename_i hf
        have := hnfc (by simpa using hf)
        have : b.st.nProcessed = j := by
          rw [hnp]; apply Nat.min_eq_left
          rcases Nat.le_total j c.us.length with h | h
          · exact h
          · rw [hnp, Nat.min_eq_right h] at this; omega
        omega
    rw [reconNums_congr _ _ _ _ _ hD]
    have hsplit := reconNums_add v.d k (v.n - j - k) b.moments ((c.us.map v.d.signed.fromU).drop j)
    have hkk : k + (v.n - j - k) = v.n - j := by omega
    rw [hkk] at hsplit
    rw [hsplit] at hrec
    simp only at hrec
    generalize hR : reconNums v.d k b.moments ((c.us.map v.d.signed.fromU).drop j) = R at hrec ⊢
    have hRl : R.1.length = k := by rw [← hR]; exact reconNums_length _ _ _ _
    have hnums : R.1 = (v.vals.drop j).take k := by
      rw [← hrec, List.take_left' hRl]
    have hrest : (reconNums v.d (v.n - (j + k)) R.2 ((c.us.map v.d.signed.fromU).drop (j + k))).1
        = v.vals.drop (j + k) := by
      have := congrArg (List.drop k) hrec
      rw [List.drop_left' hRl, List.drop_drop, List.drop_drop] at this
      have e : v.n - (j + k) = v.n - j - k := by omega
      rw [e]; exact this
    refine ⟨k, _, _, _, rfl, hnums, hRl, hklim, hkn, ?_, ?_, hposlen, ?_⟩
    · intro hlt
      refine ⟨_, ⟨⟨hst.hn, hst.htbl, hst.hbytes, rfl, hst.horder⟩, hlt, ?_, huinv', ?_⟩⟩
      · simp only [hnp']
        rcases hcase with ⟨_, h1, h2⟩ | ⟨_, h1, h2, h3⟩
        · rw [h2, Nat.min_eq_right]
          rcases Nat.le_total j c.us.length with h | h
          · rw [hnp, Nat.min_eq_left h] at h2; omega
          · omega
        · rw [h2, h1, Nat.min_eq_left]; omega
      · intro _; exact ⟨rfl, hrest⟩
    · intro he
      rcases hcase with ⟨hf, _, h2⟩ | ⟨_, h1, _, h3⟩
      · rw [hf] at huinv'
        exact UInv.done hc huinv' (by rw [hnp']; exact h2)
      · omega
    · intro ht
      rcases hcase with ⟨_, h1, _⟩ | ⟨_, h1, h2, h3⟩
      · exact h1
      · have := hall ht
        rw [h2] at this
        omega

end Stream
end Qco
