/-
Streaming refinement: prefix-safety (`Parser.Safe`) of the header and chunk-metadata parsers
(`decHeader`, `readChunkMeta`), so that what they do on an available prefix of a well-formed file
is determined by what they do on the whole file (`safe_prefix`).
-/
import Qco.Lemmas.StreamUnit
namespace Qco
namespace Stream
open Parser Op

/-- bind whose continuation also sees the number of bits the first parser consumed -/
def bindC {α β : Type} (p : Parser α) (f : α → Nat → Parser β) : Parser β := fun s =>
  match p s with
  | .ok a r => f a (s.length - r.length) r
  | .insufficient => .insufficient
  | .corrupt => .corrupt
  | .compat => .compat

theorem safe_bindC {α β : Type} {p : Parser α} {f : α → Nat → Parser β} (hp : Safe p)
    (hf : ∀ a c, Safe (f a c)) : Safe (bindC p f) := by
  have hlen : ∀ (s r t : Bits), (s ++ t).length - (r ++ t).length = s.length - r.length := by
    intro s r t; simp only [List.length_append]; omega
  refine ⟨?_, ?_, ?_, ?_, ?_⟩
  · intro s b r t h
    unfold bindC at h ⊢
    cases hps : p s with
    | ok a r1 =>
      rw [hps] at h; simp only at h
      rw [hp.ok_ext s a r1 t hps]; simp only [hlen]
      exact (hf a _).ok_ext r1 b r t h
    | insufficient => rw [hps] at h; simp at h
    | corrupt => rw [hps] at h; simp at h
    | compat => rw [hps] at h; simp at h
  · intro s b r h
    unfold bindC at h
    cases hps : p s with
    | ok a r1 =>
      rw [hps] at h; simp only at h
      obtain ⟨c1, rfl⟩ := hp.ok_suffix s a r1 hps
      obtain ⟨c2, rfl⟩ := (hf a _).ok_suffix r1 b r h
      exact ⟨c1 ++ c2, by simp⟩
    | insufficient => rw [hps] at h; simp at h
    | corrupt => rw [hps] at h; simp at h
    | compat => rw [hps] at h; simp at h
  · intro s t h
    unfold bindC at h ⊢
    cases hps : p s with
    | ok a r1 =>
      rw [hps] at h; simp only at h
      rw [hp.ok_ext s a r1 t hps]; simp only [hlen]
      exact (hf a _).corrupt_ext r1 t h
    | insufficient => rw [hps] at h; simp at h
    | corrupt => rw [hp.corrupt_ext s t hps]
    | compat => rw [hps] at h; simp at h
  · intro s t h
    unfold bindC at h ⊢
    cases hps : p s with
    | ok a r1 =>
      rw [hps] at h; simp only at h
      rw [hp.ok_ext s a r1 t hps]; simp only [hlen]
      exact (hf a _).compat_ext r1 t h
    | insufficient => rw [hps] at h; simp at h
    | corrupt => rw [hps] at h; simp at h
    | compat => rw [hp.compat_ext s t hps]
  · intro s t b r h hl
    unfold bindC at h ⊢
    cases hpst : p (s ++ t) with
    | ok a r1 =>
      rw [hpst] at h; simp only at h
      by_cases hc : r1.length < t.length
      · rw [hp.short s t a r1 hpst hc]
      · cases hps : p s with
        | ok a' r1' =>
          have := hp.ok_ext s a' r1' t hps
          rw [hpst] at this
          injection this with ha hr
          subst ha; subst hr
          simp only
          rw [hlen] at h
          exact (hf a _).short r1' t b r h hl
        | insufficient => rfl
        | corrupt =>
          have := hp.corrupt_ext s t hps
          rw [hpst] at this; cases this
        | compat =>
          have := hp.compat_ext s t hps
          rw [hpst] at this; cases this
    | insufficient => rw [hpst] at h; simp at h
    | corrupt => rw [hpst] at h; simp at h
    | compat => rw [hpst] at h; simp at h

theorem aligned_eq {α : Type} (p : Parser α) :
    Parser.aligned p = bindC p fun a c =>
      Parser.bind (readBits ((8 - c % 8) % 8)) fun z => if z.any id then Parser.corrupt else Parser.pure a := by
  funext s
  unfold Parser.aligned bindC
  cases p s <;> rfl

theorem safe_aligned {α : Type} {p : Parser α} (hp : Safe p) : Safe (Parser.aligned p) := by
  rw [aligned_eq]
  exact safe_bindC hp fun a c => safe_bind (safe_readBits _) fun z => safe_ite safe_corrupt (safe_pure a)

theorem safe_pmap {α β : Type} {p : Parser α} (hp : Safe p) (g : α → β) : Safe (Parser.map g p) :=
  safe_map hp g

theorem safe_rep {α : Type} {p : Parser α} (hp : Safe p) (n : Nat) : Safe (Parser.rep p n) := by
  induction n with
  | zero => exact safe_pure _
  | succ n ih => exact safe_bind hp fun a => safe_bind ih fun as => safe_pure _

theorem safe_decGcd (gb : Nat → Nat) (range : Nat) : Safe (decGcd gb range) := by
  unfold decGcd
  refine safe_bind safe_readBit fun nt => ?_
  refine safe_ite (safe_bind (safe_readNat _) fun g1 => safe_ite safe_corrupt (safe_pure _)) (safe_pure _)

theorem safe_decBound (d : DType) : Safe (decBound d) := by
  unfold decBound
  refine safe_bind (safe_readNat _) fun raw => ?_
  cases d.rawToU raw with
  | some u => exact safe_pure _
  | none => exact safe_corrupt

theorem safe_decMoment (ds : DType) : Safe (decMoment ds) := by
  unfold decMoment
  exact safe_bind (safe_decBound ds) fun u => safe_pure _

theorem safe_decPrefix (gb : Nat → Nat) (d : DType) (fl : Flags) (n : Nat) (common : Option Nat) :
    Safe (decPrefix gb d fl n common) := by
  unfold decPrefix
  refine safe_bind (safe_readNat _) fun count => ?_
  refine safe_bind (safe_decBound d) fun lower => ?_
  refine safe_bind (safe_decBound d) fun upper => ?_
  refine safe_ite safe_corrupt ?_
  refine safe_bind (safe_readNat _) fun clen => ?_
  refine safe_bind (safe_readBits _) fun code => ?_
  refine safe_bind safe_readBit fun hj => ?_
  refine safe_bind (safe_ite (safe_pmap (safe_readNat _) some) (safe_pure _)) fun jump => ?_
  refine safe_bind ?_ fun gcd => safe_pure _
  cases common with
  | some g => exact safe_pure _
  | none => exact safe_decGcd gb _

theorem safe_decPrefixes (gb : Nat → Nat) (d : DType) (fl : Flags) (n : Nat) :
    Safe (decPrefixes gb d fl n) := by
  unfold decPrefixes
  refine safe_bind (safe_readNat _) fun nPref => ?_
  refine safe_bind ?_ fun commonField => ?_
  · refine safe_ite (safe_bind safe_readBit fun hc => ?_) (safe_pure _)
    exact safe_ite (safe_pmap (safe_decGcd gb _) some) (safe_pure _)
  · exact safe_bind (safe_rep (safe_decPrefix gb d fl n _) _) fun ps => safe_pure _

theorem safe_decChunkMeta (gb : Nat → Nat) (d : DType) (fl : Flags) : Safe (decChunkMeta gb d fl) := by
  unfold decChunkMeta
  apply safe_aligned
  refine safe_bind (safe_readNat _) fun n => ?_
  refine safe_bind (safe_readNat _) fun bodyBytes => ?_
  refine safe_bind (safe_rep (safe_decMoment _) _) fun moments => ?_
  exact safe_bind (safe_decPrefixes gb _ fl n) fun x => safe_pure _

theorem safe_readChunkMeta (gb : Nat → Nat) (d : DType) (fl : Flags) : Safe (readChunkMeta gb d fl) := by
  unfold readChunkMeta
  refine safe_bind (safe_readNat 8) fun b => ?_
  exact safe_ite (safe_pure _) (safe_ite (safe_pmap (safe_decChunkMeta gb d fl) some) safe_corrupt)


/-! ### the header (`decFlags` takes its fuel from the length of the input) -/

theorem safe_decFlagBits (f : Nat) : Safe (decFlagBits f) := by
  induction f with
  | zero =>
    refine ⟨?_, ?_, ?_, ?_, ?_⟩ <;> intros <;> simp_all [decFlagBits]
  | succ f ih =>
    unfold decFlagBits
    refine safe_bind (safe_readBits 7) fun b => safe_bind safe_readBit fun c => ?_
    exact safe_ite (safe_bind ih fun rest => safe_pure _) (safe_pure _)

def decFlagsF (f : Nat) : Parser Flags := Parser.bind (decFlagBits f) flagsOfBits

theorem safe_flagsOfBits (bs : Bits) : Safe (flagsOfBits bs) := by
  unfold flagsOfBits
  cases flagsFields bs with
  | none => exact safe_compat
  | some f => exact safe_pure _

theorem safe_decFlagsF (f : Nat) : Safe (decFlagsF f) :=
  safe_bind (safe_decFlagBits f) safe_flagsOfBits

theorem decFlagBits_mono (f f' : Nat) (h : f ≤ f') (s : Bits) :
    decFlagBits f s = .insufficient ∨ decFlagBits f s = decFlagBits f' s := by
  induction f generalizing f' s with
  | zero => left; rfl
  | succ f ih =>
    cases f' with
    | zero => omega
    | succ f' =>
      unfold decFlagBits Parser.bind
      cases readBits 7 s with
      | ok b r =>
        simp only
        cases readBit r with
        | ok c r2 =>
          simp only
          cases c with
          | false => right; rfl
          | true =>
            simp only [if_true]
            rcases ih f' (by omega) r2 with h1 | h1
            · left; rw [h1]
            · right; rw [h1]
        | insufficient => right; rfl
        | corrupt => right; rfl
        | compat => right; rfl
      | insufficient => right; rfl
      | corrupt => right; rfl
      | compat => right; rfl

theorem decFlagsF_mono (f f' : Nat) (h : f ≤ f') (s : Bits) :
    decFlagsF f s = .insufficient ∨ decFlagsF f s = decFlagsF f' s := by
  unfold decFlagsF Parser.bind
  rcases decFlagBits_mono f f' h s with h1 | h1
  · left; rw [h1]
  · right; rw [h1]

theorem decFlags_eq (s : Bits) : decFlags s = decFlagsF (s.length / 8 + 1) s := rfl

theorem safe_decFlags : Safe decFlags := by
  have hfuel : ∀ s t : Bits, s.length / 8 + 1 ≤ (s ++ t).length / 8 + 1 := by
    intro s t; simp only [List.length_append]; omega
  refine ⟨?_, ?_, ?_, ?_, ?_⟩
  · intro s a r t h
    rw [decFlags_eq] at h ⊢
    rcases decFlagsF_mono _ _ (hfuel s t) s with h1 | h1
    · rw [h1] at h; cases h
    · rw [h1] at h; exact (safe_decFlagsF _).ok_ext s a r t h
  · intro s a r h
    rw [decFlags_eq] at h
    exact (safe_decFlagsF _).ok_suffix s a r h
  · intro s t h
    rw [decFlags_eq] at h ⊢
    rcases decFlagsF_mono _ _ (hfuel s t) s with h1 | h1
    · rw [h1] at h; cases h
    · rw [h1] at h; exact (safe_decFlagsF _).corrupt_ext s t h
  · intro s t h
    rw [decFlags_eq] at h ⊢
    rcases decFlagsF_mono _ _ (hfuel s t) s with h1 | h1
    · rw [h1] at h; cases h
    · rw [h1] at h; exact (safe_decFlagsF _).compat_ext s t h
  · intro s t a r h hl
    rw [decFlags_eq] at h ⊢
    have := (safe_decFlagsF _).short s t a r h hl
    rcases decFlagsF_mono _ _ (hfuel s t) s with h1 | h1
    · exact h1
    · rw [h1]; exact this

theorem safe_decHeader (d : DType) : Safe (decHeader d) := by
  unfold decHeader
  refine safe_bind (safe_readNat 32) fun m => safe_ite safe_corrupt ?_
  exact safe_bind (safe_readNat 8) fun b => safe_ite safe_corrupt safe_decFlags

/-- what a prefix-safe parser does on an available prefix of data it parses successfully -/
theorem safe_prefix {α : Type} {p : Parser α} (hp : Safe p) (s t : Bits) (a : α) (r : Bits)
    (h : p (s ++ t) = .ok a r) :
    (∃ r', p s = .ok a r' ∧ r' ++ t = r) ∨ p s = .insufficient := by
  cases hs : p s with
  | ok a' r' =>
    have := hp.ok_ext s a' r' t hs
    rw [h] at this
    injection this with h1 h2
    subst h1
    left; exact ⟨r', rfl, h2.symm⟩
  | insufficient => right; rfl
  | corrupt => have := hp.corrupt_ext s t hs; rw [h] at this; cases this
  | compat => have := hp.compat_ext s t hs; rw [h] at this; cases this

end Stream
end Qco
