/-
Streaming refinement, layer 6: schedules of `write` / `drain` / `free` steps (incremental input).

`run_inv`: running any schedule of whole-byte writes whose pieces are a prefix-wise decomposition
of the rest of the file, from a state at position `p`, yields items consistent (up to batching)
with the items still to come at `p`, never an error; if the schedule drains after its last write
the iterator reaches the end of the file.
-/
import Qco.Lemmas.StreamIter
namespace Qco
namespace Stream
open Op C04 C05
variable {gb : Nat → Nat} {d : DType} {f : AFile}

theorem UInv.write {c : BCtx} {st : NumSt} {a x t : Bits} {pos q : Nat}
    (h : UInv c st a (x ++ t) pos q) : UInv c st (a ++ x) t pos q := by
  obtain ⟨h1, ⟨stf, h2⟩, h3, h4, h5⟩ := h
  refine ⟨h1, ⟨stf, ?_⟩, h3, ?_, h5⟩
  · rw [List.append_assoc]; exact h2
  · simp only [List.length_append] at h4 ⊢; omega

theorem BodyInv.write {c : BCtx} {v : VCtx} {b : Body} {a x t : Bits} {pos q j : Nat}
    (h : BodyInv c v b a (x ++ t) pos q j) : BodyInv c v b (a ++ x) t pos q j :=
  ⟨h.static, h.hj, h.hnp, h.uinv.write, h.hdelta⟩

/-- writing the next piece of the file keeps the position -/
theorem Inv.write {p : Pos} {σ : St} {x t : Bits} (h : Inv gb d f p σ (x ++ t)) :
    Inv gb d f p (Op.write σ x) t := by
  cases p with
  | start =>
    obtain ⟨h1, h2, h3, h4, h5⟩ := h
    exact ⟨h1, h2, h3, h4, by simp only [Op.write, List.append_assoc]; exact h5⟩
  | chunk k =>
    obtain ⟨h0, h1, h2, h3, h4, h5⟩ := h
    exact ⟨h0, h1, h2, h3, h4, by simp only [Op.write, List.append_assoc]; exact h5⟩
  | body k j =>
    obtain ⟨c, b, q, h1, h2, h3, h4, h5⟩ := h
    exact ⟨c, b, q, h1, h2, h3, h4, h5.write⟩
  | done =>
    obtain ⟨h1, h2⟩ := h
    exact ⟨h1, by simp only [Op.write, List.append_assoc]; exact h2⟩

theorem Al.write {σ : St} {x : Bits} (h : Al σ) (hx : x.length % 8 = 0) : Al (Op.write σ x) := by
  unfold Al at h ⊢
  simp only [Op.write, List.length_append]
  omega

/-- releasing consumed memory keeps the position -/
theorem Inv.free {p : Pos} {σ : St} {t : Bits} (h : Inv gb d f p σ t) : Inv gb d f p (Op.free σ) t := by
  cases p <;> exact h

theorem Al.free {σ : St} (h : Al σ) : Al (Op.free σ) := h

end Stream

namespace C05
open Op _root_.Qco.Stream
variable {gb : Nat → Nat} {d : DType} {f : AFile}

/-- a step of the user of the streaming decompressor -/
inductive Step where
  | write (bits : Bits)
  | drain
  | free

/-- run a schedule: `drain` calls the iterator until it yields `none` (or the fuel is used up) and
appends what it yields; an error stops the run -/
def runSched (L : Matcher) (gb : Nat → Nat) (d : DType) (limit fuel : Nat) :
    List Step → St → List Item → List Item × Option Err × St
  | [], σ, acc => (acc, none, σ)
  | .write bits :: rest, σ, acc => runSched L gb d limit fuel rest (Op.write σ bits) acc
  | .free :: rest, σ, acc => runSched L gb d limit fuel rest (Op.free σ) acc
  | .drain :: rest, σ, acc =>
    match Op.drainIter L gb d limit fuel σ [] with
    | (its, none, σ') => runSched L gb d limit fuel rest σ' (acc ++ its)
    | (its, some e, σ') => (acc ++ its, some e, σ')

/-- the bits a schedule writes, in order -/
def written : List Step → Bits
  | [] => []
  | .write bits :: rest => bits ++ written rest
  | _ :: rest => written rest

/-- every write is a whole number of bytes -/
def wholeBytes (sched : List Step) : Prop := ∀ x, Step.write x ∈ sched → x.length % 8 = 0

/-- there is a `drain` after which nothing (non-empty) is written -/
def finalDrain : List Step → Prop
  | [] => False
  | .drain :: rest => written rest = [] ∨ finalDrain rest
  | _ :: rest => finalDrain rest

theorem written_append (a b : List Step) : written (a ++ b) = written a ++ written b := by
  induction a with
  | nil => rfl
  | cons s a ih => cases s <;> simp [written, ih]

theorem finalDrain_of_split (pre post : List Step) (h : written post = []) :
    finalDrain (pre ++ .drain :: post) := by
  induction pre with
  | nil => exact Or.inl h
  | cons s pre ih =>
    cases s with
    | write x => exact ih
    | free => exact ih
    | drain => exact Or.inr ih

/-- an upper bound on the number of items of the file, whatever the batching:
numbers + chunks + 2 -/
def itemBound (f : AFile) : Nat := (f.chunks.map fun c => c.cm.n + 1).sum + 2

theorem meas_start : meas f .start = itemBound f := by
  simp [meas, sizeFrom, itemBound]

theorem run_inv (L : Matcher) (hL : WeakLazyOf L) (limit : Nat) (hlim : 1 ≤ limit) (h : f.WF gb d)
    (fuel : Nat) (sched : List Step) (hwb : wholeBytes sched) (p : Pos) (σ : St) (acc : List Item)
    (hinv : Inv gb d f p σ (written sched)) (hal : Al σ) (hfuel : meas f p < fuel) :
    ∃ items p' σ', runSched L gb d limit fuel sched σ acc = (acc ++ items, none, σ') ∧
      Inv gb d f p' σ' [] ∧ Al σ' ∧ meas f p' ≤ meas f p ∧
      canon (items ++ remItems d f limit p') = canon (remItems d f limit p) ∧
      (finalDrain sched → p' = .done) := by
  induction sched generalizing p σ acc with
  | nil =>
    exact ⟨[], p, σ, by simp [runSched], hinv, hal, Nat.le_refl _, rfl, fun hf => absurd hf id⟩
  | cons s rest ih =>
    have hwb' : wholeBytes rest := fun x hx => hwb x (List.mem_cons_of_mem _ hx)
    cases s with
    | write x =>
      have hx : x.length % 8 = 0 := hwb x List.mem_cons_self
      obtain ⟨items, p', σ', hr, hi, ha, hm, hc, hd⟩ :=
        ih hwb' p (Op.write σ x) acc (Inv.write hinv) (hal.write hx) hfuel
      exact ⟨items, p', σ', by simp only [runSched, hr], hi, ha, hm, hc, hd⟩
    | free =>
      obtain ⟨items, p', σ', hr, hi, ha, hm, hc, hd⟩ :=
        ih hwb' p (Op.free σ) acc (Inv.free hinv) hal.free hfuel
      exact ⟨items, p', σ', by simp only [runSched, hr], hi, ha, hm, hc, hd⟩
    | drain =>
      obtain ⟨its, p1, σ1, hd1, hi1, ha1, hm1, hc1, hdone1⟩ :=
        drain_partial L hL limit hlim h (written rest) fuel p σ [] hinv hal
      obtain ⟨items, p', σ', hr, hi, ha, hm, hc, hd⟩ :=
        ih hwb' p1 σ1 (acc ++ its) hi1 ha1 (by omega)
      refine ⟨its ++ items, p', σ', ?_, hi, ha, by omega, ?_, ?_⟩
      · simp only [runSched, hd1, List.reverse_nil, List.nil_append, hr, List.append_assoc]
      · rw [List.append_assoc, canon_append_congr _ _ _ hc, hc1]
      · intro hf
        rcases hf with hf | hf
        · have := hdone1 hf hfuel
          subst this
          exact meas_done_of_le (by simpa [meas] using hm)
        · exact hd hf

end C05
end Qco
