/-
Streaming refinement, layer 4b: the step lemma. One call of `Op.next` from a state at position
`p` of a well-formed file, with any byte-aligned prefix of the remaining data available, either
yields nothing and keeps the position (only when data is missing) or yields the next item and
advances (`StepOK`); `step` covers every position but `done`.
-/
import Qco.Lemmas.StreamInv
namespace Qco
namespace Stream
open Parser Op C04 C05

variable {gb : Nat → Nat} {d : DType} {f : AFile}

theorem next_start_ok (L : Matcher) (limit : Nat) (σ : St) (hterm : σ.terminated = false)
    (hfl : σ.flags = none) (hpos : σ.pos % 8 = 0) (fl : Flags) (r : Bits)
    (h1 : decHeader d σ.rest = .ok fl r) :
    next L gb d limit σ = (.ok (some (.flags fl)),
      { σ with flags := some fl, rest := r, pos := σ.pos + (σ.rest.length - r.length) }) := by
  simp only [next, Op.withReader, hterm, hfl, runAligned, hpos, runParser, h1, Rd.advance]
  simp

theorem next_start_ins (L : Matcher) (limit : Nat) (σ : St) (hterm : σ.terminated = false)
    (hfl : σ.flags = none) (hpos : σ.pos % 8 = 0)
    (h1 : decHeader d σ.rest = .insufficient) :
    next L gb d limit σ = (.ok none, σ) := by
  simp only [next, Op.withReader, hterm, hfl, runAligned, hpos, runParser, h1, resErr]
  simp

theorem next_meta_ins (L : Matcher) (limit : Nat) (σ : St) (hterm : σ.terminated = false)
    (fl : Flags) (hfl : σ.flags = some fl) (hbody : σ.body = none) (hpos : σ.pos % 8 = 0)
    (h1 : readChunkMeta gb d fl σ.rest = .insufficient) :
    next L gb d limit σ = (.ok none, σ) := by
  simp only [next, Op.withReader, hterm, hfl, hbody, runAligned, hpos, runParser, h1, resErr]
  simp

theorem next_meta_footer (L : Matcher) (limit : Nat) (σ : St) (hterm : σ.terminated = false)
    (fl : Flags) (hfl : σ.flags = some fl) (hbody : σ.body = none) (hpos : σ.pos % 8 = 0) (r : Bits)
    (h1 : readChunkMeta gb d fl σ.rest = .ok none r) :
    next L gb d limit σ = (.ok (some .footer),
      { σ with terminated := true, rest := r, pos := σ.pos + (σ.rest.length - r.length) }) := by
  simp only [next, Op.withReader, hterm, hfl, hbody, runAligned, hpos, runParser, h1, Rd.advance]
  simp

theorem next_meta_chunk (L : Matcher) (limit : Nat) (σ : St) (hterm : σ.terminated = false)
    (fl : Flags) (hfl : σ.flags = some fl) (hbody : σ.body = none) (hpos : σ.pos % 8 = 0) (r : Bits)
    (m : ChunkMeta) (h1 : readChunkMeta gb d fl σ.rest = .ok (some m) r) (b : Body)
    (h2 : newBody fl m = .ok b) (hn : m.n ≠ 0) :
    next L gb d limit σ = (.ok (some (.meta_ m)),
      { σ with body := some b, rest := r, pos := σ.pos + (σ.rest.length - r.length) }) := by
  simp only [next, Op.withReader, hterm, hfl, hbody, runAligned, hpos, runParser, h1, Rd.advance]
  simp only [ne_eq, not_true_eq_false, if_false, h2, hn, Bool.false_eq_true]

theorem next_meta_chunk0 (L : Matcher) (limit : Nat) (σ : St) (hterm : σ.terminated = false)
    (fl : Flags) (hfl : σ.flags = some fl) (hbody : σ.body = none) (hpos : σ.pos % 8 = 0) (r : Bits)
    (m : ChunkMeta) (h1 : readChunkMeta gb d fl σ.rest = .ok (some m) r) (b : Body)
    (h2 : newBody fl m = .ok b) (hn : m.n = 0) (nb : NBatch) (b' : Body) (rd' : Rd)
    (h3 : nextBatch L d b limit false ⟨r, σ.pos + (σ.rest.length - r.length)⟩ = (.ok nb, b', rd')) :
    next L gb d limit σ = (.ok (some (.meta_ m)), { σ with rest := rd'.bits, pos := rd'.pos }) := by
  simp only [next, Op.withReader, hterm, hfl, hbody, runAligned, hpos, runParser, h1, Rd.advance]
  simp only [ne_eq, not_true_eq_false, if_false, h2, hn, if_true, h3, Bool.false_eq_true]
  simp [hfl, hbody, hterm]

theorem next_body_none (L : Matcher) (limit : Nat) (σ : St) (hterm : σ.terminated = false)
    (fl : Flags) (hfl : σ.flags = some fl) (b : Body) (hbody : σ.body = some b)
    (nb : NBatch) (b' : Body) (rd' : Rd)
    (h3 : nextBatch L d b limit false ⟨σ.rest, σ.pos⟩ = (.ok nb, b', rd')) (he : nb.nums = []) :
    next L gb d limit σ = (.ok none, { σ with body := some b', rest := rd'.bits, pos := rd'.pos }) := by
  simp only [next, Op.withReader, hterm, hfl, hbody, h3, he]
  simp

theorem next_body_some (L : Matcher) (limit : Nat) (σ : St) (hterm : σ.terminated = false)
    (fl : Flags) (hfl : σ.flags = some fl) (b : Body) (hbody : σ.body = some b)
    (nb : NBatch) (b' : Body) (rd' : Rd)
    (h3 : nextBatch L d b limit false ⟨σ.rest, σ.pos⟩ = (.ok nb, b', rd')) (he : nb.nums ≠ []) :
    next L gb d limit σ = (.ok (some (.nums nb.nums)),
      { σ with body := if nb.finished then none else some b', rest := rd'.bits, pos := rd'.pos }) := by
  simp only [next, Op.withReader, hterm, hfl, hbody, h3]
  simp [he]

theorem next_done (L : Matcher) (limit : Nat) (σ : St) (hterm : σ.terminated = true) :
    next L gb d limit σ = (.ok none, σ) := by
  simp only [next, Op.withReader, hterm]
  simp


/-- the available data ends on a byte boundary (writes are whole bytes) -/
def Al (σ : St) : Prop := (σ.pos + σ.rest.length) % 8 = 0

/-- one call of `Iterator::next` at position `p`: either nothing can be yielded yet (only when data
is missing) and the position is kept, or the next item is yielded and the position advances -/
def StepOK (L : Matcher) (gb : Nat → Nat) (d : DType) (f : AFile) (limit : Nat) (p : Pos) (σ : St)
    (t : Bits) : Prop :=
  (∃ σ', next L gb d limit σ = (.ok none, σ') ∧ Inv gb d f p σ' t ∧ Al σ' ∧ t ≠ []) ∨
  (∃ it p' σ', next L gb d limit σ = (.ok (some it), σ') ∧ Inv gb d f p' σ' t ∧ Al σ' ∧
     meas f p' < meas f p ∧ canon (it :: remItems d f limit p') = canon (remItems d f limit p) ∧
     (t = [] → remItems d f limit p = it :: remItems d f limit p'))

theorem encodeFile_eq : encodeFile gb d f = encHeader d f.flags ++ tailBits gb d f 0 := by
  simp [encodeFile, tailBits]

theorem step_start (L : Matcher) (limit : Nat) (h : f.WF gb d) (σ : St) (t : Bits)
    (hinv : Inv gb d f .start σ t) (hal : Al σ) : StepOK L gb d f limit .start σ t := by
  obtain ⟨hfl, hbody, hterm, hpos, hrest⟩ := hinv
  have hdec := C02.header_roundtrip d f.flags h.dtype_ok.header_lt h.order_le (tailBits gb d f 0)
  have hlen := C02.header_size d f.flags h.order_le
  have hrl := congrArg List.length hrest
  rw [encodeFile_eq] at hrl
  rw [← encodeFile_eq, ← hrest] at hdec
  rcases safe_prefix (safe_decHeader d) σ.rest t _ _ hdec with ⟨r', h1, h2⟩ | h1
  · right
    have hnext := next_start_ok (gb := gb) L limit σ hterm hfl hpos _ _ h1
    have hrl2 := congrArg List.length h2
    simp only [List.length_append] at hrl hrl2
    refine ⟨.flags f.flags, .chunk 0, _, hnext, ?_, ?_, ?_, rfl, fun _ => rfl⟩
    · exact ⟨Nat.zero_le _, rfl, hbody, hterm, by simp only; omega, h2⟩
    · unfold Al at hal ⊢; simp only; omega
    · simp only [meas]; omega
  · left
    have hnext := next_start_ins (gb := gb) L limit σ hterm hfl hpos h1
    refine ⟨_, hnext, ⟨hfl, hbody, hterm, hpos, hrest⟩, hal, ?_⟩
    intro ht
    rw [ht, List.append_nil] at hdec
    rw [hdec] at h1; cases h1


theorem nextBatch_of_numBatch_ok (L : Matcher) (b : Body) (limit : Nat) (eoi : Bool) (rd : Rd)
    (ub : UBatch) (st' : NumSt) (rd' : Rd) (h : numBatch L b limit eoi rd = (.ok ub, st', rd')) :
    ∃ nb b', nextBatch L d b limit eoi rd = (.ok nb, b', rd') := by
  unfold nextBatch
  rw [h]
  simp only
  split
  · exact ⟨_, _, rfl⟩
  · exact ⟨_, _, rfl⟩

theorem encChunk_length (fl : Flags) (c : AChunk) :
    ∃ m, (encChunk gb d fl c).length = 8 + 8 * m + (encBody c.cm.prefixes c.blocks).length := by
  have h1 := padToByte_length_mod (natBits Frozen.bitsNEntries c.fixedMeta.n ++ natBits Frozen.bitsBodySize c.fixedMeta.bodyBytes
    ++ c.fixedMeta.moments.flatMap (encMoment d.signed)
    ++ encPrefixes gb (prefDType d fl) fl c.fixedMeta.n c.fixedMeta.commonGcd c.fixedMeta.prefixes)
  refine ⟨(encChunkMeta gb d fl c.fixedMeta).length / 8, ?_⟩
  simp only [encChunk, encChunkMeta, List.length_append, natBits_length] at h1 ⊢
  omega

theorem step_chunk (L : Matcher) (hL : WeakLazyOf L) (limit : Nat) (h : f.WF gb d) (σ : St)
    (t : Bits) (k : Nat) (hinv : Inv gb d f (.chunk k) σ t) (hal : Al σ) :
    StepOK L gb d f limit (.chunk k) σ t := by
  obtain ⟨hk, hfl, hbody, hterm, hpos, hrest⟩ := hinv
  by_cases hke : k = f.chunks.length
  · -- the footer
    subst hke
    have hdec := readChunkMeta_end (gb := gb) (d := d) (f := f)
    rw [← hrest] at hdec
    rcases safe_prefix (safe_readChunkMeta gb d f.flags) σ.rest t _ _ hdec with ⟨r', h1, h2⟩ | h1
    · right
      have hnext := next_meta_footer L limit σ hterm _ hfl hbody hpos _ h1
      have hle := suffix_length_le (safe_readChunkMeta gb d f.flags) h1
      refine ⟨.footer, .done, _, hnext, ⟨rfl, h2⟩, ?_, ?_, ?_, fun _ => ?_⟩
      · unfold Al at hal ⊢; simp only; omega
      · simp only [meas]; omega
      · simp [remItems, itemsFrom_end]
      · simp [remItems, itemsFrom_end]
    · left
      have hnext := next_meta_ins L limit σ hterm _ hfl hbody hpos h1
      refine ⟨_, hnext, ⟨hk, hfl, hbody, hterm, hpos, hrest⟩, hal, ?_⟩
      intro ht
      rw [ht, List.append_nil] at hdec
      rw [hdec] at h1; cases h1
  · -- a chunk
    have hklt : k < f.chunks.length := by omega
    have hk' : f.chunks[k]? = some f.chunks[k] := List.getElem?_eq_getElem hklt
    generalize f.chunks[k] = c at hk'
    have hc : c.WF gb d f.flags := h.chunks_ok c (List.mem_of_getElem? hk')
    have hdec := readChunkMeta_tail h k c hk'
    rw [← hrest] at hdec
    rcases safe_prefix (safe_readChunkMeta gb d f.flags) σ.rest t _ _ hdec with ⟨r', h1, h2⟩ | h1
    · right
      have hle := suffix_length_le (safe_readChunkMeta gb d f.flags) h1
      have hnb := newBody_ok c hc
      obtain ⟨m, hm⟩ := encChunk_length (gb := gb) (d := d) f.flags c
      have hl1 := congrArg List.length hrest
      have hl2 := congrArg List.length h2
      rw [tailBits_chunk gb d f k c hk'] at hl1
      simp only [List.length_append] at hl1 hl2
      have hpos' : (σ.pos + (σ.rest.length - r'.length)) % 8 = 0 := by omega
      by_cases hn : c.cm.n = 0
      · -- an empty chunk: its (empty) body is consumed at once
        have hu := uinv0 k c hc r' t _ hpos' h2
        have hst := static0 (gb := gb) (d := d) k c hc
        obtain ⟨ys, st', rd', fin, heq, _, hyl, hnp', huinv', hfiniff, hposlen, _⟩ :=
          numBatch_spec L hL (bctx gb d f k c) (bctx_ok k c hc) (body0 f c) limit hst.hn hst.htbl
            hst.hbytes r' t _ _ hu (by unfold Al at hal; omega)
        have hus : (bctx gb d f k c).us.length = 0 := by
          have := hc.count_ok
          simp only [bodyCount, hn] at this
          simpa [bctx] using this
        have hys : ys.length = 0 := by rw [hus] at hyl; omega
        have hfin : fin = true := hfiniff.mpr (by simp only [body0, hys, hus])
        rw [hfin] at huinv'
        obtain ⟨hd1, hd2⟩ := UInv.done (bctx_ok k c hc) huinv' (by rw [hnp', hys, hus]; rfl)
        obtain ⟨nb, b', hnb'⟩ := nextBatch_of_numBatch_ok (d := d) L _ _ _ _ _ _ _ heq
        have hnext := next_meta_chunk0 L limit σ hterm _ hfl hbody hpos _ _ h1 _ hnb hn nb b' rd' hnb'
        refine ⟨.meta_ c.fixedMeta, .chunk (k + 1), _, hnext, ?_, ?_, ?_, ?_, fun _ => ?_⟩
        · exact ⟨hklt, hfl, hbody, hterm, hd2, hd1⟩
        · unfold Al at hal ⊢; simp only; omega
        · simp only [meas, sizeFrom_chunk f k c hk']; omega
        · have hv := chunkVals_length c hc
          rw [hn] at hv
          simp [remItems, itemsFrom_chunk d f limit k c hk', chunkItems, List.length_eq_zero_iff.mp hv,
            splitEvery_nil]
        · have hv := chunkVals_length c hc
          rw [hn] at hv
          simp [remItems, itemsFrom_chunk d f limit k c hk', chunkItems, List.length_eq_zero_iff.mp hv,
            splitEvery_nil]
      · have hnext := next_meta_chunk L limit σ hterm _ hfl hbody hpos _ _ h1 _ hnb hn
        refine ⟨.meta_ c.fixedMeta, .body k 0, _, hnext, ?_, ?_, ?_, ?_, fun _ => ?_⟩
        · exact ⟨c, body0 f c, _, hk', hfl, rfl, hterm, bodyInv0 k c hc r' t _ hpos' (by omega) h2⟩
        · unfold Al at hal ⊢; simp only; omega
        · simp only [meas, sizeFrom_chunk f k c hk', hk', Option.map_some, Option.getD_some]; omega
        · simp [remItems, itemsFrom_chunk d f limit k c hk', chunkItems, hk']
        · simp [remItems, itemsFrom_chunk d f limit k c hk', chunkItems, hk']
    · left
      have hnext := next_meta_ins L limit σ hterm _ hfl hbody hpos h1
      refine ⟨_, hnext, ⟨hk, hfl, hbody, hterm, hpos, hrest⟩, hal, ?_⟩
      intro ht
      rw [ht, List.append_nil] at hdec
      rw [hdec] at h1; cases h1


theorem step_body (L : Matcher) (hL : WeakLazyOf L) (limit : Nat) (hlim : 1 ≤ limit) (h : f.WF gb d)
    (σ : St) (t : Bits) (k j : Nat) (hinv : Inv gb d f (.body k j) σ t) (hal : Al σ) :
    StepOK L gb d f limit (.body k j) σ t := by
  obtain ⟨c, b, q, hk', hfl, hbody, hterm, hbi⟩ := hinv
  have hc : c.WF gb d f.flags := h.chunks_ok c (List.mem_of_getElem? hk')
  have hklt : k < f.chunks.length := by
    rcases Nat.lt_or_ge k f.chunks.length with h1 | h1
    · exact h1
    · rw [List.getElem?_eq_none h1] at hk'; cases hk'
  obtain ⟨k', nums, b', rd', heq, hnums, hnl, hkl, hkn, hlt, hdone, hposlen, hall⟩ :=
    nextBatch_spec L hL (bctx gb d f k c) (bctx_ok k c hc) (vctx d f c) (vctx_ok k c hc) b limit hlim
      σ.rest t σ.pos q j hbi hal
  have hj := hbi.hj
  simp only [vctx] at heq hnums hkn hlt hdone hall hj
  have hvl := chunkVals_length c hc
  generalize hW : (chunkVals d f.flags c.toD).drop j = W at hnums
  have hWl : W.length = c.cm.n - j := by rw [← hW, List.length_drop, hvl]
  have hWne : W ≠ [] := by
    intro e; rw [e] at hWl; simp at hWl; omega
  have hrem : remItems d f limit (.body k j)
      = (splitEvery limit W).map .nums ++ itemsFrom d f limit (k + 1) := by
    simp only [remItems, hk', hW]
  by_cases hk0 : k' = 0
  · left
    subst hk0
    have hne : nums = [] := List.length_eq_zero_iff.mp hnl
    have hnext := next_body_none (gb := gb) L limit σ hterm _ hfl b hbody _ b' rd' heq hne
    obtain ⟨q', hbi'⟩ := hlt (by omega)
    refine ⟨_, hnext, ⟨c, b', q', hk', hfl, rfl, hterm, hbi'⟩, ?_, ?_⟩
    · unfold Al at hal ⊢; simp only; omega
    · intro ht
      have := hall ht
      omega
  · right
    have hne : nums ≠ [] := by
      intro e; rw [e] at hnl; simp at hnl; omega
    have hnext := next_body_some (gb := gb) L limit σ hterm _ hfl b hbody _ b' rd' heq hne
    by_cases hfin : j + k' = c.cm.n
    · obtain ⟨hd1, hd2⟩ := hdone hfin
      have hnW : nums = W := by
        rw [hnums]; apply List.take_of_length_le; omega
      refine ⟨.nums nums, .chunk (k + 1), _, hnext, ?_, ?_, ?_, ?_, fun ht => ?_⟩
      · exact ⟨hklt, hfl, by simp [hfin], hterm, hd2, hd1⟩
      · unfold Al at hal ⊢; simp only; omega
      · simp only [meas, hk', Option.map_some, Option.getD_some]; omega
      · rw [hrem, hnW]
        exact (canon_split limit hlim W hWne _).symm
      · rw [hrem, splitEvery_step limit hlim W hWne]
        have hkm : min limit W.length = k' := by rw [hall ht, hWl]
        rw [hkm, ← hnums, List.drop_of_length_le (by omega), splitEvery_nil]
        rfl
    · obtain ⟨q', hbi'⟩ := hlt (by omega)
      have hW' : (chunkVals d f.flags c.toD).drop (j + k') = W.drop k' := by
        rw [← hW, List.drop_drop]
      have hWdne : W.drop k' ≠ [] := by
        intro e
        have := congrArg List.length e
        simp only [List.length_drop, List.length_nil] at this
        omega
      have hrem' : remItems d f limit (.body k (j + k'))
          = (splitEvery limit (W.drop k')).map .nums ++ itemsFrom d f limit (k + 1) := by
        simp only [remItems, hk', hW']
      refine ⟨.nums nums, .body k (j + k'), _, hnext, ?_, ?_, ?_, ?_, fun ht => ?_⟩
      · refine ⟨c, b', q', hk', hfl, ?_, hterm, hbi'⟩
        simp [hfin]
      · unfold Al at hal ⊢; simp only; omega
      · simp only [meas, hk', Option.map_some, Option.getD_some]; omega
      · rw [hrem, hrem', canon_split limit hlim W hWne,
          canon_cons_congr _ _ _ (canon_split limit hlim (W.drop k') hWdne _), canon_nums_nums, hnums,
          List.take_append_drop]
      · rw [hrem, hrem', splitEvery_step limit hlim W hWne]
        have hkm : min limit W.length = k' := by rw [hall ht, hWl]
        rw [hkm, ← hnums]
        rfl

theorem step (L : Matcher) (hL : WeakLazyOf L) (limit : Nat) (hlim : 1 ≤ limit) (h : f.WF gb d)
    (σ : St) (t : Bits) (p : Pos) (hp : p ≠ .done) (hinv : Inv gb d f p σ t) (hal : Al σ) :
    StepOK L gb d f limit p σ t := by
  cases p with
  | start => exact step_start L limit h σ t hinv hal
  | chunk k => exact step_chunk L hL limit h σ t k hinv hal
  | body k j => exact step_body L hL limit hlim h σ t k j hinv hal
  | done => exact absurd rfl hp

end Stream
end Qco

