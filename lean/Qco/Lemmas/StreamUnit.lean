/-
Streaming refinement, layer 1: the operational unit decoder `Op.unitL L t` against the
specification's `unit t`.

* the counting readers (`decOffsetC`, `decVarintC`) return the values of the plain ones;
* the specification's `matchCode` and `unit t` are prefix-safe on prefix-free tables
  (`safe_matchCode`, `safe_unit`); no prefix-safety (monotonicity in the available data) of the
  lookup `L` itself is assumed — the real stride lookup is not monotone;
* for every lookup `L` with `WeakLazyOf L` on a complete tree, `unitL L t` is sound
  (`unitL_sound`), answers only `ok`/`insufficient` (`unitL_ok_or_insufficient`), and
  with `lookahead` bits of slack after the unit it answers whenever `unit t` does (`unitL_slack`).
-/
import Qco.Op.Lazy
import Qco.Lemmas.Tree
namespace Qco
namespace Stream
open Parser Op

theorem readBit_eq : readBit = Parser.bind (readBits 1) (fun bs => Parser.pure (bs.headD false)) := by
  funext s; cases s with
  | nil => simp [readBit, Parser.bind, readBits, splitBits]
  | cons b r => simp [readBit, Parser.bind, readBits, splitBits, Parser.pure]

theorem safe_readBit : Safe readBit := by
  rw [readBit_eq]; exact safe_map (safe_readBits 1) _

theorem safe_ite {α : Type} {c : Prop} [Decidable c] {p q : Parser α} (hp : Safe p) (hq : Safe q) :
    Safe (if c then p else q) := by
  split <;> assumption

/-! ### the counting readers -/

theorem safe_decOffsetC (r k : Nat) : Safe (decOffsetC r k) := by
  unfold decOffsetC
  refine safe_bind (safe_readNat k) fun low => ?_
  exact safe_ite (safe_bind safe_readBit fun b => safe_pure _) (safe_pure _)

theorem safe_decVarintHighC (m : Nat) : Safe (decVarintHighC m) := by
  induction m with
  | zero => exact safe_pure _
  | succ m ih =>
    unfold decVarintHighC
    refine safe_bind safe_readBit fun c => ?_
    cases c
    · exact safe_pure _
    · exact safe_bind safe_readBit fun b => safe_bind ih fun r => safe_pure _

theorem safe_decVarintC (N j : Nat) : Safe (decVarintC N j) := by
  unfold decVarintC
  exact safe_bind (safe_readNat j) fun low => safe_bind (safe_decVarintHighC _) fun r => safe_pure _

theorem readNat_ok_or_insufficient (k : Nat) (s : Bits) :
    (∃ v r, readNat k s = .ok v r) ∨ readNat k s = .insufficient := by
  unfold readNat
  rw [readBits_def]
  by_cases h : s.length < k
  · right; simp [h]
  · left; simp [h]

/-- `decOffsetC` is `decOffset` plus a count -/
theorem decOffsetC_char (r k : Nat) (s : Bits) :
    (∃ off ob r', decOffsetC r k s = .ok (off, ob) r' ∧ decOffset r k s = .ok off r') ∨
    (decOffsetC r k s = .insufficient ∧ decOffset r k s = .insufficient) := by
  unfold decOffsetC decOffset Parser.bind
  rcases readNat_ok_or_insufficient k s with ⟨low, r1, h1⟩ | h1
  · rw [h1]; simp only
    by_cases hc : r - low ≥ 2 ^ k
    · simp only [hc, if_true]
      cases r1 with
      | nil => right; simp [readBit]
      | cons b r2 => left; exact ⟨_, _, r2, rfl, rfl⟩
    · simp only [hc, if_false]
      left; exact ⟨_, _, _, rfl, rfl⟩
  · rw [h1]; right; simp

theorem decVarintHighC_char (m : Nat) (s : Bits) :
    (∃ v c r', decVarintHighC m s = .ok (v, c) r' ∧ decVarintHigh m s = .ok v r') ∨
    (decVarintHighC m s = .insufficient ∧ decVarintHigh m s = .insufficient) := by
  induction m generalizing s with
  | zero => left; exact ⟨0, 0, s, rfl, rfl⟩
  | succ m ih =>
    unfold decVarintHighC decVarintHigh Parser.bind
    cases s with
    | nil => right; simp [readBit]
    | cons c s1 =>
      cases c with
      | false => left; exact ⟨0, 1, s1, by simp [readBit, Parser.pure], by simp [readBit, Parser.pure]⟩
      | true =>
        cases s1 with
        | nil => right; simp [readBit]
        | cons b s2 =>
          rcases ih s2 with ⟨v, c, r', h1, h2⟩ | ⟨h1, h2⟩
          · left
            exact ⟨_, _, r', by simp only [readBit, if_true]; rw [h1]; rfl,
              by simp only [readBit, if_true]; rw [h2]; rfl⟩
          · right
            exact ⟨by simp [readBit, h1], by simp [readBit, h2]⟩

theorem decVarintC_char (N j : Nat) (s : Bits) :
    (∃ v c r', decVarintC N j s = .ok (v, c) r' ∧ decVarint N j s = .ok v r') ∨
    (decVarintC N j s = .insufficient ∧ decVarint N j s = .insufficient) := by
  unfold decVarintC decVarint Parser.bind
  rcases readNat_ok_or_insufficient j s with ⟨low, r1, h1⟩ | h1
  · rw [h1]; simp only
    rcases decVarintHighC_char (N - j) r1 with ⟨v, c, r', h2, h3⟩ | ⟨h2, h3⟩
    · left; exact ⟨_, _, r', by rw [h2]; rfl, by rw [h3]; rfl⟩
    · right; exact ⟨by simp [h2], by simp [h3]⟩
  · rw [h1]; right; simp

/-! ### the unit -/

theorem suffix_length_le {α : Type} {p : Parser α} (hp : Safe p) {s : Bits} {a : α} {r : Bits}
    (h : p s = .ok a r) : r.length ≤ s.length := by
  obtain ⟨c, rfl⟩ := hp.ok_suffix s a r h
  simp

theorem safe_decOffset (r k : Nat) : Safe (decOffset r k) := by
  unfold decOffset
  refine safe_bind (safe_readNat k) fun low => ?_
  exact safe_ite (safe_bind safe_readBit fun b => safe_pure _) (safe_pure _)

theorem safe_decVarint (N j : Nat) : Safe (decVarint N j) := by
  unfold decVarint
  exact safe_bind (safe_readNat j) fun low => safe_bind (safe_decVarintHigh _) fun r => safe_pure _

/-- what follows the code in a fresh unit (operational) -/
def contL (t : Table) (pos p : Nat) : Parser (Nat × PState) :=
  match (t.info p).jump with
  | none => Parser.bind (decOffsetC (t.info p).r (t.info p).k) fun (off, ob) =>
      Parser.pure ((t.info p).val off, (none, pos + (t.code p).length + ob))
  | some j => Parser.bind (decVarintC nEntriesBits j) fun (m, vb) =>
      Parser.bind (decOffsetC (t.info p).r (t.info p).k) fun (off, ob) =>
        Parser.pure ((t.info p).val off, (if m = 0 then none else some (p, m), pos + (t.code p).length + vb + ob))

/-- what follows the code in a fresh unit (specification) -/
def contS (t : Table) (p : Nat) : Parser (Nat × UState) :=
  match (t.info p).jump with
  | none => Parser.bind (decOffset (t.info p).r (t.info p).k) fun off =>
      Parser.pure ((t.info p).val off, none)
  | some j => Parser.bind (decVarint nEntriesBits j) fun m =>
      Parser.bind (decOffset (t.info p).r (t.info p).k) fun off =>
        Parser.pure ((t.info p).val off, if m = 0 then none else some (p, m))

theorem unitL_none (L : Matcher) (t : Table) (pos : Nat) :
    unitL L t (none, pos) = Parser.bind (L pos t.codes) (contL t pos) := rfl

theorem unit_none (t : Table) : unit t none = Parser.bind (matchCode t.codes) (contS t) := rfl

theorem cont_char (t : Table) (pos p : Nat) (s : Bits) :
    (∃ x st' pos' r, contL t pos p s = .ok (x, (st', pos')) r ∧ contS t p s = .ok (x, st') r ∧
        r.length ≤ s.length) ∨
    (contL t pos p s = .insufficient ∧ contS t p s = .insufficient) := by
  unfold contL contS
  cases (t.info p).jump with
  | none =>
    simp only [Parser.bind]
    rcases decOffsetC_char (t.info p).r (t.info p).k s with ⟨off, ob, r', h1, h2⟩ | ⟨h1, h2⟩
    · left
      exact ⟨_, _, _, r', by rw [h1]; rfl, by rw [h2]; rfl,
        suffix_length_le (safe_decOffsetC _ _) h1⟩
    · right; simp [h1, h2]
  | some j =>
    simp only [Parser.bind]
    rcases decVarintC_char nEntriesBits j s with ⟨m, vb, r1, h1, h2⟩ | ⟨h1, h2⟩
    · rw [h1, h2]; simp only
      rcases decOffsetC_char (t.info p).r (t.info p).k r1 with ⟨off, ob, r', h3, h4⟩ | ⟨h3, h4⟩
      · left
        refine ⟨_, _, _, r', by rw [h3]; rfl, by rw [h4]; rfl, ?_⟩
        have := suffix_length_le (safe_decOffsetC _ _) h3
        have := suffix_length_le (safe_decVarintC _ _) h1
        omega
      · right; simp [h3, h4]
    · right; simp [h1, h2]

theorem run_char (t : Table) (pos p rem : Nat) (s : Bits) :
    (∃ x st' pos' r, unitL L t (some (p, rem), pos) s = .ok (x, (st', pos')) r ∧
        unit t (some (p, rem)) s = .ok (x, st') r) ∨
    (unitL L t (some (p, rem), pos) s = .insufficient ∧ unit t (some (p, rem)) s = .insufficient) := by
  unfold unitL unit
  simp only [Parser.bind]
  rcases decOffsetC_char (t.info p).r (t.info p).k s with ⟨off, ob, r', h1, h2⟩ | ⟨h1, h2⟩
  · left; exact ⟨_, _, _, r', by rw [h1]; rfl, by rw [h2]; rfl⟩
  · right; simp [h1, h2]

/-! ### prefix-safety of the specification's unit -/

theorem matchCode_ok_iff (codes : List Bits) (s : Bits) (i : Nat) (r : Bits)
    (h : matchCode codes s = .ok i r) : ∃ hi : i < codes.length, s = codes[i] ++ r := by
  unfold matchCode at h
  cases hf : codes.findIdx? (fun c => c.isPrefixOf s) with
  | none => rw [hf] at h; simp only at h; split at h <;> cases h
  | some j =>
    rw [hf] at h
    simp only at h
    injection h with h1 h2
    subst h1
    rw [List.findIdx?_eq_some_iff_getElem] at hf
    obtain ⟨hj, hp, _⟩ := hf
    refine ⟨hj, ?_⟩
    have hp' : codes[j] <+: s := by simpa using hp
    obtain ⟨u, hu⟩ := hp'
    rw [← h2, ← hu]
    simp [List.getD_eq_getElem?_getD, hj]

theorem safe_matchCode (codes : List Bits) (hpf : PrefixFree codes) : Safe (matchCode codes) := by
  refine ⟨?_, ?_, ?_, ?_, ?_⟩
  · intro s i r t h
    obtain ⟨hi, hs⟩ := matchCode_ok_iff codes s i r h
    rw [hs, List.append_assoc]
    exact matchCode_code codes hpf i hi (r ++ t)
  · intro s i r h
    obtain ⟨hi, hs⟩ := matchCode_ok_iff codes s i r h
    exact ⟨codes[i], hs⟩
  · intro s t h
    unfold matchCode at h ⊢
    cases hf : codes.findIdx? (fun c => c.isPrefixOf s) with
    | some j => rw [hf] at h; cases h
    | none =>
      rw [hf] at h
      simp only at h
      by_cases hany : codes.any (fun c => s.isPrefixOf c) = true
      · simp [hany] at h
      · rw [List.findIdx?_eq_none_iff] at hf
        have hnone : codes.findIdx? (fun c => c.isPrefixOf (s ++ t)) = none := by
          rw [List.findIdx?_eq_none_iff]
          intro c hc
          cases hcp : c.isPrefixOf (s ++ t) with
          | false => rfl
          | true =>
            exfalso
            have hpre : c <+: s ++ t := List.isPrefixOf_iff_prefix.mp hcp
            rcases Nat.le_total c.length s.length with hle | hle
            · have : c <+: s := List.prefix_of_prefix_length_le hpre (List.prefix_append _ _) hle
              have h1 := hf c hc
              rw [List.isPrefixOf_iff_prefix.mpr this] at h1; cases h1
            · have : s <+: c := List.prefix_of_prefix_length_le (List.prefix_append _ _) hpre hle
              apply hany
              rw [List.any_eq_true]
              exact ⟨c, hc, List.isPrefixOf_iff_prefix.mpr this⟩
        have hany2 : ¬ codes.any (fun c => (s ++ t).isPrefixOf c) = true := by
          intro h2
          rw [List.any_eq_true] at h2
          obtain ⟨c, hc, hcp⟩ := h2
          apply hany
          rw [List.any_eq_true]
          refine ⟨c, hc, List.isPrefixOf_iff_prefix.mpr ?_⟩
          exact List.IsPrefix.trans (List.prefix_append _ _) (List.isPrefixOf_iff_prefix.mp hcp)
        rw [hnone]
        simp [hany2]
  · intro s t h
    exfalso
    unfold matchCode at h
    split at h
    · cases h
    · split at h <;> cases h
  · intro s t i r h hl
    obtain ⟨hi, hs⟩ := matchCode_ok_iff codes (s ++ t) i r h
    have hlen := congrArg List.length hs
    simp only [List.length_append] at hlen
    have hsc : s <+: codes[i] :=
      List.prefix_of_prefix_length_le (List.prefix_append _ _) ⟨r, hs.symm⟩ (by omega)
    unfold matchCode
    have hnone : codes.findIdx? (fun c => c.isPrefixOf s) = none := by
      rw [List.findIdx?_eq_none_iff]
      intro c hc
      cases hcp : c.isPrefixOf s with
      | false => rfl
      | true =>
        exfalso
        have hcs : c <+: s := List.isPrefixOf_iff_prefix.mp hcp
        obtain ⟨j, hj, rfl⟩ := List.getElem_of_mem hc
        have := hpf j i hj hi (List.IsPrefix.trans hcs hsc)
        subst this
        have := hcs.length_le
        omega
    rw [hnone]
    have hany : codes.any (fun c => s.isPrefixOf c) = true := by
      rw [List.any_eq_true]
      exact ⟨codes[i], List.getElem_mem hi, List.isPrefixOf_iff_prefix.mpr hsc⟩
    simp [hany]

theorem safe_contS (t : Table) (p : Nat) : Safe (contS t p) := by
  unfold contS
  cases (t.info p).jump with
  | none => exact safe_bind (safe_decOffset _ _) fun x => safe_pure _
  | some j =>
    exact safe_bind (safe_decVarint _ _) fun x => safe_bind (safe_decOffset _ _) fun y => safe_pure _

/-- the specification's unit is prefix-safe on prefix-free tables -/
theorem safe_unit (t : Table) (hpf : PrefixFree t.codes) (st : UState) : Safe (unit t st) := by
  cases st with
  | some pr =>
    obtain ⟨p, rem⟩ := pr
    unfold unit
    exact safe_bind (safe_decOffset _ _) fun x => safe_pure _
  | none =>
    rw [unit_none]
    exact safe_bind (safe_matchCode t.codes hpf) (safe_contS t)

/-- whenever the operational unit answers, the specification's unit answers the same -/
theorem unitL_sound (L : Matcher) (hL : WeakLazyOf L) (t : Table) (hct : completeTree t.codes = true)
    (st : UState) (pos : Nat) (s : Bits) (x : Nat) (st' : UState) (pos' : Nat) (r : Bits)
    (h : unitL L t (st, pos) s = .ok (x, (st', pos')) r) : unit t st s = .ok (x, st') r := by
  cases st with
  | some pr =>
    obtain ⟨p, rem⟩ := pr
    rcases run_char (L := L) t pos p rem s with ⟨x2, st2, pos2, r2, h1, h2⟩ | ⟨h1, _⟩
    · rw [h1] at h; cases h; exact h2
    · rw [h1] at h; cases h
  | none =>
    rw [unitL_none] at h
    rw [unit_none]
    unfold Parser.bind at h ⊢
    cases hl : L pos t.codes s with
    | ok p r0 =>
      rw [hl] at h; simp only at h
      rw [hL.sound pos t.codes s p r0 hct hl]; simp only
      rcases cont_char t pos p r0 with ⟨x2, st2, pos2, r2, h1, h2, _⟩ | ⟨h1, _⟩
      · rw [h1] at h; cases h; exact h2
      · rw [h1] at h; cases h
    | insufficient => rw [hl] at h; cases h
    | corrupt => rw [hl] at h; cases h
    | compat => rw [hl] at h; cases h

/-- the operational unit never fails otherwise than by `insufficient` -/
theorem unitL_ok_or_insufficient (L : Matcher) (hL : WeakLazyOf L) (t : Table)
    (hct : completeTree t.codes = true) (ps : PState) (s : Bits) :
    (∃ a r, unitL L t ps s = .ok a r) ∨ unitL L t ps s = .insufficient := by
  obtain ⟨st, pos⟩ := ps
  cases st with
  | some pr =>
    obtain ⟨p, rem⟩ := pr
    rcases run_char (L := L) t pos p rem s with ⟨x2, st2, pos2, r2, h1, _⟩ | ⟨h1, _⟩
    · left; exact ⟨_, _, h1⟩
    · right; exact h1
  | none =>
    rw [unitL_none]
    unfold Parser.bind
    rcases hL.only_insufficient pos t.codes s hct with ⟨p, r0, hl⟩ | hl
    · rw [hl]; simp only
      rcases cont_char t pos p r0 with ⟨x2, st2, pos2, r2, h1, _, _⟩ | ⟨h1, _⟩
      · left; exact ⟨_, _, h1⟩
      · right; exact h1
    · rw [hl]; right; rfl

/-- with `lookahead` bits of slack after the unit, the operational unit answers whenever the
specification's does -/
theorem unitL_slack (L : Matcher) (hL : WeakLazyOf L) (t : Table) (hct : completeTree t.codes = true)
    (st : UState) (pos : Nat) (s : Bits) (x : Nat) (st' : UState) (r : Bits)
    (h : unit t st s = .ok (x, st') r) (hr : lookahead ≤ r.length) :
    ∃ pos', unitL L t (st, pos) s = .ok (x, (st', pos')) r := by
  cases st with
  | some pr =>
    obtain ⟨p, rem⟩ := pr
    rcases run_char (L := L) t pos p rem s with ⟨x2, st2, pos2, r2, h1, h2⟩ | ⟨_, h2⟩
    · rw [h2] at h; cases h; exact ⟨_, h1⟩
    · rw [h2] at h; cases h
  | none =>
    rw [unitL_none]
    rw [unit_none] at h
    unfold Parser.bind at h ⊢
    cases hm : matchCode t.codes s with
    | ok p r0 =>
      rw [hm] at h; simp only at h
      rcases cont_char t pos p r0 with ⟨x2, st2, pos2, r2, h1, h2, hle⟩ | ⟨_, h2⟩
      · rw [h2] at h; cases h
        rw [hL.eager_with_slack pos t.codes s p r0 hct hm (by omega)]
        exact ⟨_, h1⟩
      · rw [h2] at h; cases h
    | insufficient => rw [hm] at h; cases h
    | corrupt => rw [hm] at h; cases h
    | compat => rw [hm] at h; cases h

end Stream
end Qco
