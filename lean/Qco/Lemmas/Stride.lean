/-
The model of the real Huffman lookup (`Op.matchStride`, a table walk in strides of up to six bits)
against the specification's `matchCode`, on complete prefix-free code tables.

* `matchStride_weakLazyOf : WeakLazyOf matchStride` — sound, fails only with `insufficient`, and
  answers as soon as `lookahead = 5` bits follow the code.
* `matchStride_not_lazyOf : ¬ LazyOf matchStride` — `Safe.ok_ext` fails: with the codes
  `0, 10, 110, 111` the data `0` is answered (the bits left are exactly a code), the data `01` is
  `insufficient` (two bits left, stride three), the data `01x` is answered again.
* what remains of prefix-safety: `matchStride_safe_rest` (all other fields of `Safe`, and the weak
  form of `ok_ext`: more data can only turn an answer into `insufficient`), `matchStride_ok_ext_weak`
  (`ok_ext` holds when the answer left data, or `lookahead` bits follow the code); the facts that
  follow from `WeakLazyOf` alone are stated for every such matcher (`WeakLazyOf.short`, …).

Proof: the walk keeps `cands` = the indices of the codes that agree with the zero-padded data on the
first `depth` positions (`Inv`); on a complete tree some code always agrees (`exists_agree`), two
different agreeing codes are both longer than `depth` (`agree_two`) and a code that alone agrees is
no longer than `depth` (`agree_unique`).
-/
import Qco.Lemmas.Kraft
import Qco.Lemmas.Tree
import Qco.Lemmas.Hostile
import Qco.Op.Lazy
namespace Qco
namespace Op
open Parser

/-! ### pointwise forms of prefix-freeness and completeness -/

/-- `c` agrees with the (zero-padded) data `orig` on the first `d` positions, as far as `c` goes -/
def Agree (c orig : Bits) (d : Nat) : Prop :=
  ∀ k, k < d → k < c.length → c.getD k false = orig.getD k false

theorem getD_of_prefix {a b : Bits} (h : a <+: b) (k : Nat) (hk : k < a.length) :
    a.getD k false = b.getD k false := by
  obtain ⟨hl, hall⟩ := List.prefix_iff_getElem.1 h
  have := hall k hk
  simp [List.getD_eq_getElem?_getD, hk, Nat.lt_of_lt_of_le hk hl, this]

theorem prefix_of_getD {a b : Bits} (hl : a.length ≤ b.length)
    (h : ∀ k, k < a.length → a.getD k false = b.getD k false) : a <+: b := by
  refine List.prefix_iff_getElem.2 ⟨hl, ?_⟩
  intro k hk
  have := h k hk
  simpa [List.getD_eq_getElem?_getD, hk, Nat.lt_of_lt_of_le hk hl] using this

theorem getD_code (codes : List Bits) (i : Nat) (hi : i < codes.length) : codes.getD i [] = codes[i] := by
  simp [List.getD_eq_getElem?_getD, hi]

/-- prefix-freeness, pointwise -/
theorem pf_pointwise (codes : List Bits) (hc : completeTree codes = true) (i i' : Nat)
    (hi : i < codes.length) (hi' : i' < codes.length)
    (hl : (codes.getD i []).length ≤ (codes.getD i' []).length)
    (h : ∀ k, k < (codes.getD i []).length → (codes.getD i []).getD k false = (codes.getD i' []).getD k false) :
    i = i' := by
  have hpf := completeTree_prefixFree codes hc
  have := prefix_of_getD hl h
  rw [getD_code codes i hi, getD_code codes i' hi'] at this
  exact hpf i i' hi hi' this

/-- completeness, pointwise: every bit string is compatible with some code -/
theorem covers_pointwise (codes : List Bits) (hc : completeTree codes = true) (w : Bits) :
    ∃ i, i < codes.length ∧ ∀ k, k < (codes.getD i []).length → k < w.length →
      (codes.getD i []).getD k false = w.getD k false := by
  obtain ⟨c, hmem, hrel⟩ := completeTree_covers codes hc w
  obtain ⟨i, hi, rfl⟩ := List.getElem_of_mem hmem
  refine ⟨i, hi, ?_⟩
  rw [getD_code codes i hi]
  intro k hk1 hk2
  rcases hrel with h | h
  · exact getD_of_prefix h k hk1
  · exact (getD_of_prefix h k hk2).symm

/-- the zero-padded data cut at `d` -/
def padTo (orig : Bits) (d : Nat) : Bits := (orig ++ List.replicate d false).take d

theorem padTo_length (orig : Bits) (d : Nat) : (padTo orig d).length = d := by
  simp [padTo]

theorem padTo_getD (orig : Bits) (d k : Nat) (hk : k < d) : (padTo orig d).getD k false = orig.getD k false := by
  simp only [padTo, List.getD_eq_getElem?_getD, List.getElem?_take, hk, if_true, List.getElem?_append,
    List.getElem?_replicate]
  by_cases h : k < orig.length
  · simp [h]
  · simp only [h, if_false]
    have : orig[k]? = none := by simp; omega
    rw [this]
    split <;> simp

/-- T1: some code agrees with the data at every depth -/
theorem exists_agree (codes : List Bits) (hc : completeTree codes = true) (orig : Bits) (d : Nat) :
    ∃ i, i < codes.length ∧ Agree (codes.getD i []) orig d := by
  obtain ⟨i, hi, h⟩ := covers_pointwise codes hc (padTo orig d)
  refine ⟨i, hi, ?_⟩
  intro k hk1 hk2
  rw [h k hk2 (by rw [padTo_length]; exact hk1), padTo_getD orig d k hk1]

/-- T2: two different codes that agree with the data up to `d` are both longer than `d` -/
theorem agree_two (codes : List Bits) (hc : completeTree codes = true) (orig : Bits) (d i i' : Nat)
    (hi : i < codes.length) (hi' : i' < codes.length) (hne : i ≠ i')
    (h : Agree (codes.getD i []) orig d) (h' : Agree (codes.getD i' []) orig d) :
    d < (codes.getD i []).length := by
  apply Nat.lt_of_not_le
  intro hle
  rcases Nat.le_total (codes.getD i []).length (codes.getD i' []).length with hl | hl
  · apply hne
    apply pf_pointwise codes hc i i' hi hi' hl
    intro k hk
    rw [h k (by omega) hk, h' k (by omega) (by omega)]
  · apply hne
    apply (pf_pointwise codes hc i' i hi' hi hl _).symm
    intro k hk
    rw [h' k (by omega) hk, h k (by omega) (by omega)]

/-- T3: a code that is the only one to agree with the data up to `d` is no longer than `d` -/
theorem agree_unique (codes : List Bits) (hc : completeTree codes = true) (orig : Bits) (d i : Nat)
    (h : Agree (codes.getD i []) orig d)
    (hu : ∀ i', i' < codes.length → Agree (codes.getD i' []) orig d → i' = i) :
    (codes.getD i []).length ≤ d := by
  apply Nat.le_of_not_lt
  intro hlt
  obtain ⟨i', hi', hw⟩ := covers_pointwise codes hc (padTo orig d ++ [!(codes.getD i []).getD d false])
  have hag : Agree (codes.getD i' []) orig d := by
    intro k hk1 hk2
    rw [hw k hk2 (by simp [padTo_length]; omega)]
    rw [List.getD_eq_getElem?_getD, List.getElem?_append_left (by rw [padTo_length]; exact hk1),
      ← List.getD_eq_getElem?_getD, padTo_getD orig d k hk1]
  have := hu i' hi' hag
  subst this
  have := hw d hlt (by simp [padTo_length])
  rw [List.getD_eq_getElem?_getD (l := padTo orig d ++ _),
    List.getElem?_append_right (by rw [padTo_length]; exact Nat.le_refl _)] at this
  simp [padTo_length] at this

/-! ### the walk: definitions unfolded, invariant -/

/-- stride width at a level -/
def tslOf (codes : List Bits) (cands : List Nat) (depth : Nat) : Nat :=
  min strideLog (cands.foldl (fun m i => max m (codes.getD i []).length) 0 - depth)

/-- the stride's bits, zero-padded -/
def paddedOf (s : Bits) (tsl : Nat) : Bits := s.take tsl ++ List.replicate (tsl - (s.take tsl).length) false

/-- candidates after a level -/
def nextCands (codes : List Bits) (cands : List Nat) (depth tsl : Nat) (padded : Bits) : List Nat :=
  cands.filter fun i =>
    let c := codes.getD i []
    (List.range tsl).all fun k => !(depth + k < c.length) || c.getD (depth + k) false == padded.getD k false

theorem foldl_cands (codes : List Bits) (cands : List Nat) (acc : Nat) :
    acc ≤ cands.foldl (fun m i => max m (codes.getD i []).length) acc ∧
    (∀ i ∈ cands, (codes.getD i []).length ≤ cands.foldl (fun m i => max m (codes.getD i []).length) acc) ∧
    ∀ M, acc ≤ M → (∀ i ∈ cands, (codes.getD i []).length ≤ M) →
      cands.foldl (fun m i => max m (codes.getD i []).length) acc ≤ M := by
  induction cands generalizing acc with
  | nil => simp
  | cons a cs ih =>
    simp only [List.foldl_cons]
    obtain ⟨h1, h2, h3⟩ := ih (max acc (codes.getD a []).length)
    refine ⟨by omega, ?_, ?_⟩
    · intro i hi
      rcases List.mem_cons.mp hi with h | h
      · subst h; omega
      · exact h2 i h
    · intro M hM hall
      apply h3 M
      · have := hall a List.mem_cons_self; omega
      · intro i hi; exact hall i (List.mem_cons_of_mem _ hi)

theorem code_le_maxLen (codes : List Bits) (i : Nat) : (codes.getD i []).length ≤ maxLen codes := by
  by_cases hi : i < codes.length
  · rw [getD_code codes i hi]; exact length_le_maxLen codes _ (List.getElem_mem hi)
  · simp [List.getD_eq_getElem?_getD, List.getElem?_eq_none (Nat.le_of_not_lt hi)]

theorem paddedOf_getD (orig : Bits) (depth tsl k : Nat) (hk : k < tsl) :
    (paddedOf (orig.drop depth) tsl).getD k false = orig.getD (depth + k) false := by
  simp only [paddedOf, List.getD_eq_getElem?_getD, List.getElem?_append, List.getElem?_take,
    List.getElem?_drop, List.getElem?_replicate, List.length_take, List.length_drop, hk, if_true]
  by_cases h : depth + k < orig.length
  · have : k < min tsl (orig.length - depth) := by omega
    simp [this]
  · have : ¬ k < min tsl (orig.length - depth) := by omega
    simp only [this, if_false]
    have : orig[depth + k]? = none := by simp; omega
    rw [this]
    split <;> simp

theorem mem_nextCands (codes : List Bits) (cands : List Nat) (depth tsl : Nat) (padded : Bits) (i : Nat) :
    i ∈ nextCands codes cands depth tsl padded ↔
      i ∈ cands ∧ ∀ k, k < tsl → depth + k < (codes.getD i []).length →
        (codes.getD i []).getD (depth + k) false = padded.getD k false := by
  simp only [nextCands, List.mem_filter, List.all_eq_true, List.mem_range, Bool.or_eq_true,
    Bool.not_eq_true', decide_eq_false_iff_not, beq_iff_eq]
  constructor
  · rintro ⟨h1, h2⟩
    refine ⟨h1, fun k hk hl => ?_⟩
    rcases h2 k hk with h | h
    · exact absurd hl h
    · exact h
  · rintro ⟨h1, h2⟩
    refine ⟨h1, fun k hk => ?_⟩
    by_cases hl : depth + k < (codes.getD i []).length
    · exact Or.inr (h2 k hk hl)
    · exact Or.inl hl

structure Inv (codes : List Bits) (orig : Bits) (cands : List Nat) (depth : Nat) (s : Bits) : Prop where
  s_eq : s = orig.drop depth
  nodup : cands.Nodup
  mem : ∀ i, i ∈ cands ↔ i < codes.length ∧ Agree (codes.getD i []) orig depth
  depth_le : depth ≤ maxLen codes

theorem inv_init (codes : List Bits) (orig : Bits) : Inv codes orig (List.range codes.length) 0 orig := by
  refine ⟨rfl, List.nodup_range, ?_, Nat.zero_le _⟩
  intro i
  simp only [List.mem_range, Agree]
  constructor
  · intro h; exact ⟨h, fun k hk => absurd hk (Nat.not_lt_zero _)⟩
  · intro h; exact h.1

theorem inv_step (codes : List Bits) (orig : Bits) (cands : List Nat) (depth : Nat) (s : Bits) (tsl : Nat)
    (h : Inv codes orig cands depth s) (hd : depth + tsl ≤ maxLen codes) :
    Inv codes orig (nextCands codes cands depth tsl (paddedOf s tsl)) (depth + tsl) (s.drop tsl) := by
  refine ⟨?_, ?_, ?_, hd⟩
  · rw [h.s_eq, List.drop_drop]
  · exact List.Pairwise.sublist List.filter_sublist h.nodup
  · intro i
    rw [mem_nextCands, h.mem, h.s_eq]
    constructor
    · rintro ⟨⟨hi, hag⟩, hlev⟩
      refine ⟨hi, ?_⟩
      intro k hk hl
      by_cases hkd : k < depth
      · exact hag k hkd hl
      · have e : k = depth + (k - depth) := by omega
        rw [e, hlev (k - depth) (by omega) (by omega), paddedOf_getD orig depth tsl (k - depth) (by omega)]
    · rintro ⟨hi, hag⟩
      refine ⟨⟨hi, fun k hk hl => hag k (by omega) hl⟩, ?_⟩
      intro k hk hl
      rw [paddedOf_getD orig depth tsl k hk]
      exact hag (depth + k) (by omega) hl


theorem go_nil (codes : List Bits) (fuel depth j : Nat) (s orig : Bits) :
    matchStrideGo codes (fuel + 1) [] depth j s orig = .corrupt := rfl

theorem go_single (codes : List Bits) (fuel i depth j : Nat) (s orig : Bits) :
    matchStrideGo codes (fuel + 1) [i] depth j s orig =
      if (codes.getD i []).length > orig.length then .insufficient
      else .ok i (orig.drop (codes.getD i []).length) := rfl

theorem go_many (codes : List Bits) (fuel a b : Nat) (rest : List Nat) (depth j : Nat) (s orig : Bits) :
    matchStrideGo codes (fuel + 1) (a :: b :: rest) depth j s orig =
      (let tsl := tslOf codes (a :: b :: rest) depth
       let cands' := nextCands codes (a :: b :: rest) depth tsl (paddedOf s tsl)
       if s.isEmpty then .insufficient
       else if decide (j % 64 + tsl > 64) && (s.drop (64 - j % 64)).isEmpty then .insufficient
       else if (if decide (j % 64 + tsl > 64) then tsl else (s.take tsl).length) ≠ tsl then
         match cands' with
         | [i] => if (codes.getD i []).length = depth + (if decide (j % 64 + tsl > 64) then tsl else (s.take tsl).length)
                    then .ok i (orig.drop (codes.getD i []).length) else .insufficient
         | _ => .insufficient
       else matchStrideGo codes fuel cands' (depth + tsl) (j % 64 + tsl) (s.drop tsl) orig) := rfl


/-! ### the walk on a complete tree -/

theorem agree_of_prefix {c orig : Bits} (h : c <+: orig) (d : Nat) : Agree c orig d :=
  fun k _ hk => getD_of_prefix h k hk

theorem prefix_of_agree {c orig : Bits} {d : Nat} (h : Agree c orig d) (hd : c.length ≤ d)
    (hl : c.length ≤ orig.length) : c <+: orig :=
  prefix_of_getD hl fun k hk => h k (by omega) hk

theorem go_spec (codes : List Bits) (hc : completeTree codes = true) (orig : Bits) :
    ∀ fuel cands depth j s, Inv codes orig cands depth s → maxLen codes + 2 ≤ fuel + depth →
    (matchStrideGo codes fuel cands depth j s orig = .insufficient ∨
      ∃ i, i < codes.length ∧ codes.getD i [] <+: orig ∧
        matchStrideGo codes fuel cands depth j s orig = .ok i (orig.drop (codes.getD i []).length)) ∧
    (∀ i, i < codes.length → codes.getD i [] <+: orig → (codes.getD i []).length + 5 ≤ orig.length →
      matchStrideGo codes fuel cands depth j s orig ≠ .insufficient) := by
  intro fuel
  induction fuel with
  | zero =>
    intro cands depth j s hinv hf
    exfalso; have := hinv.depth_le; omega
  | succ fuel ih =>
    intro cands depth j s hinv hf
    match cands, hinv with
    | [], hinv =>
      exfalso
      obtain ⟨i, hi, hag⟩ := exists_agree codes hc orig depth
      have := (hinv.mem i).2 ⟨hi, hag⟩
      simp at this
    | [i], hinv =>
      rw [go_single]
      have hi := (hinv.mem i).1 (by simp)
      have hu : ∀ i', i' < codes.length → Agree (codes.getD i' []) orig depth → i' = i := by
        intro i' h1 h2
        have := (hinv.mem i').2 ⟨h1, h2⟩
        simpa using this
      have hlen := agree_unique codes hc orig depth i hi.2 hu
      by_cases hgt : (codes.getD i []).length > orig.length
      · rw [if_pos hgt]
        refine ⟨Or.inl rfl, ?_⟩
        intro i' hi' hpre hsl
        have := hu i' hi' (agree_of_prefix hpre _)
        subst this
        omega
      · rw [if_neg hgt]
        refine ⟨Or.inr ⟨i, hi.1, prefix_of_agree hi.2 hlen (by omega), rfl⟩, ?_⟩
        intro _ _ _ _ h; cases h
    | a :: b :: rest, hinv =>
      rw [go_many]
      have hab : a ≠ b := by
        have := hinv.nodup
        rw [List.nodup_cons] at this
        intro h; apply this.1; rw [h]; simp
      have ha := (hinv.mem a).1 (by simp)
      have hb := (hinv.mem b).1 (by simp)
      have hda := agree_two codes hc orig depth a b ha.1 hb.1 hab ha.2 hb.2
      obtain ⟨_, hf2, hf3⟩ := foldl_cands codes (a :: b :: rest) 0
      have hfa := hf2 a (by simp)
      have hfM := hf3 (maxLen codes) (Nat.zero_le _) (fun i _ => code_le_maxLen codes i)
      have htsl1 : 1 ≤ tslOf codes (a :: b :: rest) depth := by unfold tslOf strideLog; omega
      have htsl6 : tslOf codes (a :: b :: rest) depth ≤ 6 := by unfold tslOf strideLog; omega
      have htslM : depth + tslOf codes (a :: b :: rest) depth ≤ maxLen codes := by unfold tslOf strideLog; omega
      have hslack : ∀ i, i < codes.length → codes.getD i [] <+: orig →
          (codes.getD i []).length + 5 ≤ orig.length → depth + 6 ≤ orig.length := by
        intro i hi hpre hsl
        have hag := agree_of_prefix hpre depth
        by_cases hia : i = a
        · subst hia; omega
        · have := agree_two codes hc orig depth i a hi ha.1 hia hag ha.2; omega
      have hsl : s.length = orig.length - depth := by rw [hinv.s_eq]; simp
      have hnext := inv_step codes orig (a :: b :: rest) depth s _ hinv htslM
      generalize tslOf codes (a :: b :: rest) depth = tsl at *
      simp only []
      by_cases hs : s.isEmpty = true
      · rw [if_pos hs]
        refine ⟨Or.inl rfl, ?_⟩
        intro i hi hpre hsl'
        have := hslack i hi hpre hsl'
        have : s = [] := by simpa using hs
        rw [this] at hsl; simp at hsl; omega
      · rw [if_neg hs]
        have hs0 : 0 < s.length := by
          cases s with
          | nil => simp at hs
          | cons _ _ => simp
        by_cases hcr : (decide (j % 64 + tsl > 64) && (s.drop (64 - j % 64)).isEmpty) = true
        · rw [if_pos hcr]
          refine ⟨Or.inl rfl, ?_⟩
          intro i hi hpre hsl'
          have := hslack i hi hpre hsl'
          simp only [Bool.and_eq_true, decide_eq_true_eq, List.isEmpty_iff, List.drop_eq_nil_iff] at hcr
          omega
        · rw [if_neg hcr]
          by_cases hbr : (if decide (j % 64 + tsl > 64) then tsl else (s.take tsl).length) ≠ tsl
          · rw [if_pos hbr]
            have hncross : ¬ (j % 64 + tsl > 64) := by
              intro h; apply hbr; simp [h]
            have hbits : (if decide (j % 64 + tsl > 64) then tsl else (s.take tsl).length) = s.length := by
              simp only [hncross, decide_false, Bool.false_eq_true, if_false, List.length_take] at hbr ⊢
              omega
            have hshort : s.length < tsl := by
              simp only [hncross, decide_false, Bool.false_eq_true, if_false, List.length_take] at hbr
              omega
            rw [hbits]
            constructor
            · split
              · rename_i i heq
                split
                · rename_i hlen
                  right
                  have hi := (hnext.mem i).1 (by rw [heq]; simp)
                  exact ⟨i, hi.1, prefix_of_agree hi.2 (by omega) (by omega), rfl⟩
                · left; rfl
              · left; rfl
            · intro i hi hpre hsl'
              have := hslack i hi hpre hsl'
              omega
          · rw [if_neg hbr]
            exact ih _ _ _ _ hnext (by omega)


/-! ### the three properties -/

theorem matchStride_spec (pos : Nat) (codes : List Bits) (hc : completeTree codes = true) (s : Bits) :
    (matchStride pos codes s = .insufficient ∨
      ∃ i, ∃ hi : i < codes.length, codes[i] <+: s ∧ matchStride pos codes s = .ok i (s.drop codes[i].length)) ∧
    (∀ i (hi : i < codes.length), codes[i] <+: s → codes[i].length + 5 ≤ s.length →
      matchStride pos codes s ≠ .insufficient) := by
  obtain ⟨h1, h2⟩ := go_spec codes hc s (maxLen codes + 2) (List.range codes.length) 0 (pos % 64) s
    (inv_init codes s) (by omega)
  constructor
  · rcases h1 with h | ⟨i, hi, hpre, h⟩
    · exact Or.inl h
    · rw [getD_code codes i hi] at hpre h
      exact Or.inr ⟨i, hi, hpre, h⟩
  · intro i hi hpre hsl
    have := h2 i hi (by rw [getD_code codes i hi]; exact hpre) (by rw [getD_code codes i hi]; exact hsl)
    exact this

theorem matchCode_of_prefix (codes : List Bits) (hc : completeTree codes = true) (s : Bits) (i : Nat)
    (hi : i < codes.length) (hpre : codes[i] <+: s) :
    matchCode codes s = .ok i (s.drop codes[i].length) := by
  obtain ⟨t, rfl⟩ := hpre
  rw [matchCode_code codes (completeTree_prefixFree codes hc) i hi t]
  simp

theorem matchStride_sound (pos : Nat) (codes : List Bits) (s : Bits) (i : Nat) (r : Bits)
    (hc : completeTree codes = true) (h : matchStride pos codes s = .ok i r) :
    matchCode codes s = .ok i r := by
  rcases (matchStride_spec pos codes hc s).1 with h' | ⟨i', hi', hpre, h'⟩
  · rw [h'] at h; cases h
  · rw [h'] at h
    injection h with h1 h2
    subst h1; subst h2
    exact matchCode_of_prefix codes hc s i' hi' hpre

theorem matchStride_only_insufficient (pos : Nat) (codes : List Bits) (s : Bits)
    (hc : completeTree codes = true) :
    (∃ i r, matchStride pos codes s = .ok i r) ∨ matchStride pos codes s = .insufficient := by
  rcases (matchStride_spec pos codes hc s).1 with h' | ⟨i', _, _, h'⟩
  · exact Or.inr h'
  · exact Or.inl ⟨i', _, h'⟩

theorem matchStride_eager_with_slack (pos : Nat) (codes : List Bits) (s : Bits) (i : Nat) (r : Bits)
    (hc : completeTree codes = true) (h : matchCode codes s = .ok i r) (hr : lookahead ≤ r.length) :
    matchStride pos codes s = .ok i r := by
  obtain ⟨hi, rfl⟩ := matchCode_ok h
  have hne := (matchStride_spec pos codes hc (codes[i] ++ r)).2 i hi (List.prefix_append _ _)
    (by simp only [List.length_append]; unfold lookahead at hr; omega)
  rcases matchStride_only_insufficient pos codes (codes[i] ++ r) hc with ⟨i', r', h'⟩ | h'
  · have := matchStride_sound pos codes _ i' r' hc h'
    rw [h] at this
    rw [h', ← this]
  · exact absurd h' hne

/-- the model of the real six-bit-stride lookup is a sound, lazier `matchCode` that answers as soon
as five more bits follow the code -/
theorem matchStride_weakLazyOf : WeakLazyOf matchStride where
  sound := fun pos codes s i r hc h => matchStride_sound pos codes s i r hc h
  only_insufficient := fun pos codes s hc => matchStride_only_insufficient pos codes s hc
  eager_with_slack := fun pos codes s i r hc h hr => matchStride_eager_with_slack pos codes s i r hc h hr


/-! ### what remains of prefix-safety -/

/-- the counterexample to `Safe.ok_ext`: with two bits left and a stride of three the lookup gives
up although the first bit alone is a code (and is found when it is the only bit left) -/
def strideCex : List Bits := [[false], [true, false], [true, true, false], [true, true, true]]

theorem strideCex_complete : completeTree strideCex = true := by decide
theorem strideCex_one : matchStride 0 strideCex [false] = .ok 0 [] := by decide
theorem strideCex_two : matchStride 0 strideCex ([false] ++ [true]) = .insufficient := by decide
theorem strideCex_three : matchStride 0 strideCex ([false] ++ [true, false]) = .ok 0 [true, false] := by decide

theorem matchStride_not_safe : ¬ Safe (matchStride 0 strideCex) := by
  intro h
  have := h.ok_ext [false] 0 [] [true] strideCex_one
  rw [strideCex_two] at this
  cases this

theorem matchStride_not_lazyOf : ¬ LazyOf matchStride :=
  fun h => matchStride_not_safe (h.safe 0 strideCex strideCex_complete)

namespace WeakLazyOf
variable {L : Matcher}

theorem ok_suffix (h : WeakLazyOf L) {pos : Nat} {codes : List Bits} (hc : completeTree codes = true)
    {s : Bits} {i : Nat} {r : Bits} (hok : L pos codes s = .ok i r) : ∃ c, s = c ++ r := by
  obtain ⟨hi, heq⟩ := matchCode_ok (h.sound pos codes s i r hc hok)
  exact ⟨_, heq⟩

theorem ne_corrupt (h : WeakLazyOf L) {pos : Nat} {codes : List Bits} (hc : completeTree codes = true)
    (s : Bits) : L pos codes s ≠ .corrupt := by
  intro he
  rcases h.only_insufficient pos codes s hc with ⟨i, r, h'⟩ | h' <;> rw [he] at h' <;> cases h'

theorem ne_compat (h : WeakLazyOf L) {pos : Nat} {codes : List Bits} (hc : completeTree codes = true)
    (s : Bits) : L pos codes s ≠ .compat := by
  intro he
  rcases h.only_insufficient pos codes s hc with ⟨i, r, h'⟩ | h' <;> rw [he] at h' <;> cases h'

/-- `Safe.short` -/
theorem short (h : WeakLazyOf L) {pos : Nat} {codes : List Bits} (hc : completeTree codes = true)
    {s t : Bits} {i : Nat} {r : Bits} (hok : L pos codes (s ++ t) = .ok i r) (hl : r.length < t.length) :
    L pos codes s = .insufficient := by
  have hsafe := safe_matchCode codes (completeTree_prefixFree codes hc)
  rcases h.only_insufficient pos codes s hc with ⟨i', r', h'⟩ | h'
  · exfalso
    have h1 := hsafe.ok_ext s i' r' t (h.sound pos codes s i' r' hc h')
    rw [h.sound pos codes (s ++ t) i r hc hok] at h1
    injection h1 with _ h2
    rw [h2] at hl
    simp only [List.length_append] at hl
    omega
  · exact h'

/-- the weak form of `Safe.ok_ext`: with more data an answer can only turn into `insufficient` -/
theorem ok_ext_or_insufficient (h : WeakLazyOf L) {pos : Nat} {codes : List Bits}
    (hc : completeTree codes = true) {s : Bits} {i : Nat} {r : Bits} (t : Bits)
    (hok : L pos codes s = .ok i r) :
    L pos codes (s ++ t) = .ok i (r ++ t) ∨ L pos codes (s ++ t) = .insufficient := by
  have hsafe := safe_matchCode codes (completeTree_prefixFree codes hc)
  have h1 := hsafe.ok_ext s i r t (h.sound pos codes s i r hc hok)
  rcases h.only_insufficient pos codes (s ++ t) hc with ⟨i', r', h'⟩ | h'
  · left
    have := h.sound pos codes (s ++ t) i' r' hc h'
    rw [h1] at this
    rw [h', ← this]
  · exact Or.inr h'

/-- `Safe.ok_ext` as soon as `lookahead` bits follow the code -/
theorem ok_ext_slack (h : WeakLazyOf L) {pos : Nat} {codes : List Bits}
    (hc : completeTree codes = true) {s : Bits} {i : Nat} {r : Bits} (t : Bits)
    (hok : L pos codes s = .ok i r) (hl : lookahead ≤ r.length + t.length) :
    L pos codes (s ++ t) = .ok i (r ++ t) := by
  have hsafe := safe_matchCode codes (completeTree_prefixFree codes hc)
  have h1 := hsafe.ok_ext s i r t (h.sound pos codes s i r hc hok)
  exact h.eager_with_slack pos codes (s ++ t) i (r ++ t) hc h1 (by simpa using hl)

end WeakLazyOf


/-! ### monotonicity of the answers that leave data -/

/-- once the data read so far cover a code that is a prefix of the data, the walk has found it -/
theorem go_decided (codes : List Bits) (hc : completeTree codes = true) (orig : Bits)
    (fuel : Nat) (cands : List Nat) (depth j : Nat) (s : Bits) (i : Nat)
    (hinv : Inv codes orig cands depth s) (hi : i < codes.length) (hpre : codes.getD i [] <+: orig)
    (hl : (codes.getD i []).length ≤ depth) :
    matchStrideGo codes (fuel + 1) cands depth j s orig = .ok i (orig.drop (codes.getD i []).length) := by
  have hag := agree_of_prefix hpre depth
  have hmem := (hinv.mem i).2 ⟨hi, hag⟩
  match cands, hinv, hmem with
  | [x], hinv, hmem =>
    have : i = x := by simpa using hmem
    subst this
    rw [go_single, if_neg (by have := hpre.length_le; omega)]
  | a :: b :: rest, hinv, hmem =>
    exfalso
    have hab : a ≠ b := by
      have := hinv.nodup
      rw [List.nodup_cons] at this
      intro h; apply this.1; rw [h]; simp
    have ha := (hinv.mem a).1 (by simp)
    have hb := (hinv.mem b).1 (by simp)
    by_cases hia : i = a
    · subst hia
      have := agree_two codes hc orig depth i b hi hb.1 hab hag hb.2; omega
    · have := agree_two codes hc orig depth i a hi ha.1 hia hag ha.2; omega

theorem tsl_bounds (codes : List Bits) (hc : completeTree codes = true) (orig : Bits) (a b : Nat)
    (rest : List Nat) (depth : Nat) (s : Bits) (hinv : Inv codes orig (a :: b :: rest) depth s) :
    1 ≤ tslOf codes (a :: b :: rest) depth ∧ depth + tslOf codes (a :: b :: rest) depth ≤ maxLen codes := by
  have hab : a ≠ b := by
    have := hinv.nodup
    rw [List.nodup_cons] at this
    intro h; apply this.1; rw [h]; simp
  have ha := (hinv.mem a).1 (by simp)
  have hb := (hinv.mem b).1 (by simp)
  have hda := agree_two codes hc orig depth a b ha.1 hb.1 hab ha.2 hb.2
  obtain ⟨_, hf2, hf3⟩ := foldl_cands codes (a :: b :: rest) 0
  have hfa := hf2 a (by simp)
  have hfM := hf3 (maxLen codes) (Nat.zero_le _) (fun i _ => code_le_maxLen codes i)
  unfold tslOf strideLog
  omega

theorem paddedOf_append (s t : Bits) (tsl : Nat) (h : tsl ≤ s.length) : paddedOf (s ++ t) tsl = paddedOf s tsl := by
  unfold paddedOf
  rw [List.take_append_of_le_length h]

theorem go_mono (codes : List Bits) (hc : completeTree codes = true) (orig t : Bits) :
    ∀ fuel cands depth j s i r, Inv codes orig cands depth s → Inv codes (orig ++ t) cands depth (s ++ t) →
      maxLen codes + 2 ≤ fuel + depth →
      matchStrideGo codes fuel cands depth j s orig = .ok i r → r ≠ [] →
      matchStrideGo codes fuel cands depth j (s ++ t) (orig ++ t) = .ok i (r ++ t) := by
  intro fuel
  induction fuel with
  | zero => intro cands depth j s i r _ _ _ h; cases h
  | succ fuel ih =>
    intro cands depth j s i r hinv hinv' hf h hr
    -- what the answer is
    have hspec := (go_spec codes hc orig (fuel + 1) cands depth j s hinv hf).1
    rw [h] at hspec
    rcases hspec with hspec | ⟨i', hi', hpre, hspec⟩
    · cases hspec
    injection hspec with e1 e2
    subst e1
    have hlt : (codes.getD i []).length < orig.length := by
      apply Nat.lt_of_not_le
      intro hge
      apply hr
      rw [e2]; exact List.drop_eq_nil_of_le hge
    have hres : (orig ++ t).drop (codes.getD i []).length = r ++ t := by
      rw [List.drop_append_of_le_length (Nat.le_of_lt hlt), e2]
    match cands, hinv, hinv' with
    | [], _, _ => cases h
    | [x], _, _ =>
      rw [go_single] at h ⊢
      split at h
      · cases h
      · injection h with h1 h2
        subst h1
        rw [if_neg (by simp only [List.length_append]; omega), hres]
    | a :: b :: rest, hinv, hinv' =>
      have hsl : s.length = orig.length - depth := by rw [hinv.s_eq]; simp
      obtain ⟨htsl1, hd⟩ := tsl_bounds codes hc orig a b rest depth s hinv
      rw [go_many] at h ⊢
      simp only [] at h ⊢
      generalize tslOf codes (a :: b :: rest) depth = tsl at *
      by_cases hs : s.isEmpty = true
      · rw [if_pos hs] at h; cases h
      rw [if_neg hs] at h
      have hs0 : 0 < s.length := by
        cases s with
        | nil => simp at hs
        | cons _ _ => simp
      have hs' : ¬ (s ++ t).isEmpty = true := by
        simp only [List.isEmpty_iff, List.append_eq_nil_iff, not_and]
        intro h0; rw [h0] at hs0; simp at hs0
      rw [if_neg hs']
      by_cases hcr : (decide (j % 64 + tsl > 64) && (s.drop (64 - j % 64)).isEmpty) = true
      · rw [if_pos hcr] at h; cases h
      rw [if_neg hcr] at h
      have hcr' : ¬ (decide (j % 64 + tsl > 64) && ((s ++ t).drop (64 - j % 64)).isEmpty) = true := by
        intro h0; apply hcr
        simp only [Bool.and_eq_true, decide_eq_true_eq, List.isEmpty_iff, List.drop_eq_nil_iff,
          List.length_append] at h0 ⊢
        omega
      rw [if_neg hcr']
      by_cases hbr : (if decide (j % 64 + tsl > 64) then tsl else (s.take tsl).length) ≠ tsl
      · -- the short read: nothing is left after the code
        exfalso
        rw [if_pos hbr] at h
        have hncross : ¬ (j % 64 + tsl > 64) := by
          intro h0; apply hbr; simp [h0]
        have hbits : (if decide (j % 64 + tsl > 64) then tsl else (s.take tsl).length) = s.length := by
          simp only [hncross, decide_false, Bool.false_eq_true, if_false, List.length_take] at hbr ⊢
          omega
        rw [hbits] at h
        split at h
        · split at h
          · rename_i hlen
            injection h with h1 h2
            subst h1
            omega
          · cases h
        · cases h
      · rw [if_neg hbr] at h
        by_cases hlen : tsl ≤ s.length
        · have hbr' : ¬ (if decide (j % 64 + tsl > 64) then tsl else ((s ++ t).take tsl).length) ≠ tsl := by
            rw [List.take_append_of_le_length hlen]; exact hbr
          rw [if_neg hbr', paddedOf_append s t tsl hlen, List.drop_append_of_le_length hlen]
          have hnext := inv_step codes orig (a :: b :: rest) depth s tsl hinv hd
          have hnext' := inv_step codes (orig ++ t) (a :: b :: rest) depth (s ++ t) tsl hinv' hd
          rw [paddedOf_append s t tsl hlen, List.drop_append_of_le_length hlen] at hnext'
          exact ih _ _ _ _ i r hnext hnext' (by omega) h hr
        · -- the stride crosses into the next word and reads padding: the code ends before it
          have hcross : j % 64 + tsl > 64 := by
            apply Classical.byContradiction
            intro h0
            apply hbr
            simp only [h0, decide_false, Bool.false_eq_true, if_false, List.length_take]
            omega
          have hbr' : ¬ (if decide (j % 64 + tsl > 64) then tsl else ((s ++ t).take tsl).length) ≠ tsl := by
            simp [hcross]
          rw [if_neg hbr']
          have hnext' := inv_step codes (orig ++ t) (a :: b :: rest) depth (s ++ t) tsl hinv' hd
          cases fuel with
          | zero => cases h
          | succ f =>
            rw [go_decided codes hc (orig ++ t) f _ (depth + tsl) _ _ i hnext' hi'
              (List.IsPrefix.trans hpre (List.prefix_append _ _)) (by omega), hres]


/-- `Safe.ok_ext` for the answers that leave data: only an answer that consumed *all* the data (the
short read, or a code ending exactly at the end) can be withdrawn when more data arrive -/
theorem matchStride_ok_ext_of_rest (pos : Nat) (codes : List Bits) (hc : completeTree codes = true)
    (s t : Bits) (i : Nat) (r : Bits) (h : matchStride pos codes s = .ok i r) (hr : r ≠ []) :
    matchStride pos codes (s ++ t) = .ok i (r ++ t) :=
  go_mono codes hc s t (maxLen codes + 2) (List.range codes.length) 0 (pos % 64) s i r
    (inv_init codes s) (inv_init codes (s ++ t)) (by omega) h hr

/-- the true part of `Safe.ok_ext` for the stride lookup -/
theorem matchStride_ok_ext_weak (pos : Nat) (codes : List Bits) (hc : completeTree codes = true)
    (s t : Bits) (i : Nat) (r : Bits) (h : matchStride pos codes s = .ok i r)
    (hcond : r ≠ [] ∨ t = [] ∨ lookahead ≤ r.length + t.length) :
    matchStride pos codes (s ++ t) = .ok i (r ++ t) := by
  rcases hcond with hr | ht | hl
  · exact matchStride_ok_ext_of_rest pos codes hc s t i r h hr
  · subst ht; simpa using h
  · exact matchStride_weakLazyOf.ok_ext_slack hc t h hl

/-- the other fields of `Safe` hold for the stride lookup on a complete tree -/
theorem matchStride_safe_rest (pos : Nat) (codes : List Bits) (hc : completeTree codes = true) :
    (∀ s a r, matchStride pos codes s = .ok a r → ∃ c, s = c ++ r) ∧
    (∀ s t, matchStride pos codes s = .corrupt → matchStride pos codes (s ++ t) = .corrupt) ∧
    (∀ s t, matchStride pos codes s = .compat → matchStride pos codes (s ++ t) = .compat) ∧
    (∀ s t a r, matchStride pos codes (s ++ t) = .ok a r → r.length < t.length →
      matchStride pos codes s = .insufficient) ∧
    (∀ s a r t, matchStride pos codes s = .ok a r →
      matchStride pos codes (s ++ t) = .ok a (r ++ t) ∨ matchStride pos codes (s ++ t) = .insufficient) :=
  ⟨fun _ _ _ h => matchStride_weakLazyOf.ok_suffix hc h,
   fun s _ h => absurd h (matchStride_weakLazyOf.ne_corrupt hc s),
   fun s _ h => absurd h (matchStride_weakLazyOf.ne_compat hc s),
   fun _ _ _ _ h hl => matchStride_weakLazyOf.short hc h hl,
   fun _ _ _ t h => matchStride_weakLazyOf.ok_ext_or_insufficient hc t h⟩


end Op
end Qco
