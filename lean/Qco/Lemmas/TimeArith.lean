/-
Arithmetic helper lemmas for C15 (timestamps <-> SystemTime): the validity predicate of a
platform SystemTime, unfolding of `instant`, canonicity (a valid SysTime is determined by its
instant), and the step lemmas for `secsAndNanos` / `sysTimeOf`.
-/
import Qco.DType.Timestamps

namespace Qco
namespace TS

/-- SystemTimes the platform can represent (Linux: seconds in i64) as `duration_since` shows them -/
def SysTime.Valid (st : TS.SysTime) : Prop :=
  st.nanos < 10^9 ∧ (if st.before then (st.secs < 2^63 ∨ (st.secs = 2^63 ∧ st.nanos = 0)) ∧ ¬(st.secs = 0 ∧ st.nanos = 0) else st.secs < 2^63)

instance (st : SysTime) : Decidable st.Valid := by
  unfold SysTime.Valid; exact inferInstance

end TS

namespace TimeArith
open TS

/-- nanoseconds per part -/
def nspp (pps : Int) : Int := 10^9 / pps

theorem nspp_nanos : nspp 1000000000 = 1 := by decide
theorem nspp_micros : nspp 1000000 = 1000 := by decide
theorem billion_div_nanos : billion / 1000000000 = 1 := by decide
theorem billion_div_micros : billion / 1000000 = 1000 := by decide
theorem billion_eq : billion = 1000000000 := rfl
theorem i64Min_eq : i64Min = -9223372036854775808 := by decide
theorem i64Max_eq : i64Max = 9223372036854775807 := by decide

theorem inI64_iff (x : Int) : inI64 x = true ↔ -9223372036854775808 ≤ x ∧ x ≤ 9223372036854775807 := by
  simp [inI64, i64Min_eq, i64Max_eq]

theorem valid96_iff (pps parts : Int) :
    valid96 pps parts = true ↔
      parts ≤ pps * 9223372036854775808 - 1 ∧ pps * (-9223372036854775808) ≤ parts := by
  unfold valid96 max96 min96
  rw [Bool.and_eq_true, decide_eq_true_iff, decide_eq_true_iff]
  simp only [Int.reducePow]

theorem valid_after (secs nanos : Nat) :
    (SysTime.mk false secs nanos).Valid ↔ nanos < 1000000000 ∧ secs < 9223372036854775808 := by
  simp [SysTime.Valid]

theorem valid_before (secs nanos : Nat) :
    (SysTime.mk true secs nanos).Valid ↔
      nanos < 1000000000 ∧ (secs < 9223372036854775808 ∨ (secs = 9223372036854775808 ∧ nanos = 0)) ∧
        ¬(secs = 0 ∧ nanos = 0) := by
  simp [SysTime.Valid]

theorem instant_after (secs nanos : Nat) :
    (SysTime.mk false secs nanos).instant = (secs : Int) * 1000000000 + nanos := by
  simp [SysTime.instant, billion]

theorem instant_before (secs nanos : Nat) :
    (SysTime.mk true secs nanos).instant = -((secs : Int) * 1000000000 + nanos) := by
  simp [SysTime.instant, billion]

/-- the instants of valid SysTimes: `[-2^63 s, 2^63 s)` in nanoseconds -/
theorem instant_range (st : SysTime) (h : st.Valid) :
    -9223372036854775808000000000 ≤ st.instant ∧ st.instant ≤ 9223372036854775807999999999 := by
  obtain ⟨b, secs, nanos⟩ := st
  cases b
  · rw [valid_after] at h; rw [instant_after]; omega
  · rw [valid_before] at h; rw [instant_before]; omega

/-- `before` is the sign of the instant -/
theorem before_iff (st : SysTime) (h : st.Valid) : st.before = true ↔ st.instant < 0 := by
  obtain ⟨b, secs, nanos⟩ := st
  cases b
  · rw [valid_after] at h; rw [instant_after]; simp; omega
  · rw [valid_before] at h; rw [instant_before]; simp; omega

theorem secs_eq (st : SysTime) (h : st.Valid) : (st.secs : Int) = st.instant.natAbs / 1000000000 := by
  obtain ⟨b, secs, nanos⟩ := st
  cases b
  · rw [valid_after] at h; rw [instant_after]; simp only; omega
  · rw [valid_before] at h; rw [instant_before]; simp only; omega

theorem nanos_eq (st : SysTime) (h : st.Valid) : (st.nanos : Int) = st.instant.natAbs % 1000000000 := by
  obtain ⟨b, secs, nanos⟩ := st
  cases b
  · rw [valid_after] at h; rw [instant_after]; simp only; omega
  · rw [valid_before] at h; rw [instant_before]; simp only; omega

/-- canonicity: a valid SysTime is determined by its instant -/
theorem valid_ext (a b : SysTime) (ha : a.Valid) (hb : b.Valid) (h : a.instant = b.instant) : a = b := by
  obtain ⟨ba, sa, na⟩ := a
  obtain ⟨bb, sb, nb⟩ := b
  cases ba <;> cases bb <;>
    simp only [valid_after, valid_before, instant_after, instant_before] at ha hb h
  · have : sa = sb ∧ na = nb := by omega
    rw [this.1, this.2]
  · omega
  · omega
  · have : sa = sb ∧ na = nb := by omega
    rw [this.1, this.2]

/-- `u64 as i64` of the seconds of a valid SysTime, negated with `wrapping_neg`, is `-secs`
(also at exactly 2^63 s, where `as i64` wraps to `i64::MIN` and `wrapping_neg` keeps it) -/
theorem wrappingNeg_asI64 (secs : Nat) (h : secs ≤ 9223372036854775808) :
    wrappingNeg (asI64 secs) = -(secs : Int) := by
  unfold wrappingNeg asI64
  simp only [i64Min_eq, Nat.reducePow, Int.reducePow]
  split <;> split <;> omega

theorem asI64_small (secs : Nat) (h : secs < 9223372036854775808) : asI64 secs = (secs : Int) := by
  unfold asI64
  simp only [Nat.reducePow]
  split <;> omega

/-- combining `(seconds, subsec_nanos)` into parts is the floor of the instant in parts -/
theorem combine (pps : Int) (hp : pps = 1000000000 ∨ pps = 1000000) (s n : Int) :
    s * pps + n / (billion / pps) = (s * 1000000000 + n) / nspp pps := by
  rcases hp with rfl | rfl
  · rw [billion_div_nanos, nspp_nanos]; omega
  · rw [billion_div_micros, nspp_micros]; omega

/-- splitting parts into `(seconds, subsec_nanos)` loses nothing -/
theorem split_parts (pps : Int) (hp : pps = 1000000000 ∨ pps = 1000000) (parts : Int) :
    (parts / pps) * 1000000000 + (parts % pps) * (billion / pps) = parts * nspp pps ∧
      0 ≤ (parts % pps) * (billion / pps) ∧ (parts % pps) * (billion / pps) < 1000000000 := by
  rcases hp with rfl | rfl
  · rw [billion_div_nanos, nspp_nanos]; omega
  · rw [billion_div_micros, nspp_micros]; omega

/-- `sysTimeOf` on in-range `(seconds, subsec_nanos)`: a valid SysTime with that instant; the unchecked
negation of the 64-bit code needs `seconds ≠ i64::MIN` -/
theorem sysTimeOf_spec (c : Bool) (s n : Int) (hs : -9223372036854775808 ≤ s) (hs' : s ≤ 9223372036854775807)
    (hn : 0 ≤ n) (hn' : n < 1000000000) (hc : c = true → s ≠ -9223372036854775808) :
    ∃ st', sysTimeOf c s n = .ok st' ∧ st'.Valid ∧ st'.instant = s * 1000000000 + n := by
  unfold sysTimeOf
  by_cases h0 : s ≥ 0
  · rw [if_pos h0]
    refine ⟨_, rfl, ?_, ?_⟩
    · rw [valid_after]; omega
    · rw [instant_after]; omega
  · rw [if_neg h0]
    by_cases hz : n = 0
    · rw [if_pos hz]
      have hne : ¬ ((c && decide (s = i64Min)) = true) := by
        rw [i64Min_eq]
        intro hh
        simp only [Bool.and_eq_true, decide_eq_true_eq] at hh
        exact hc hh.1 hh.2
      rw [if_neg hne]
      refine ⟨_, rfl, ?_, ?_⟩
      · rw [valid_before]; omega
      · rw [instant_before]; omega
    · rw [if_neg hz]
      refine ⟨_, rfl, ?_, ?_⟩
      · rw [valid_before, billion_eq]; omega
      · rw [instant_before, billion_eq]; omega

end TimeArith
end Qco
