/-
Layer TL, proofs — basic facts about the outcome monad and the `usize` operations of `Qco/Train/Lit.lean`.
-/
import Qco.Train.Lit
namespace Qco
namespace TrainLit
open GcdLit (Out)

@[simp] theorem ok_bind {α β : Type} (v : α) (f : α → Out β) : (Out.ok v >>= f) = f v := rfl
@[simp] theorem panic_bind {α β : Type} (f : α → Out β) : ((Out.panic : Out α) >>= f) = Out.panic := rfl
@[simp] theorem pure_eq {α : Type} (v : α) : (pure v : Out α) = Out.ok v := rfl

/-- a bind that answers `ok` had an `ok` first half -/
theorem bind_eq_ok {α β : Type} {x : Out α} {f : α → Out β} {r : β} (h : (x >>= f) = Out.ok r) :
    ∃ v, x = Out.ok v ∧ f v = Out.ok r := by
  cases x with
  | ok v => exact ⟨v, rfl, h⟩
  | panic => cases h

theorem uadd_ok {a b : Nat} (h : a + b < USZ) : uadd a b = .ok (a + b) := by simp [uadd, h]
theorem usub_ok {a b : Nat} (h : b ≤ a) : usub a b = .ok (a - b) := by simp [usub, h]
theorem umul_ok {a b : Nat} (h : a * b < USZ) : umul a b = .ok (a * b) := by simp [umul, h]
theorem udiv_ok {a b : Nat} (h : b ≠ 0) : udiv a b = .ok (a / b) := by simp [udiv, h]

theorem idx_ok {α : Type} {l : List α} {i : Nat} (h : i < l.length) : idx l i = .ok l[i] := by
  simp [idx, List.getElem?_eq_getElem h]

theorem idx_of_getElem? {α : Type} {l : List α} {i : Nat} {x : α} (h : l[i]? = some x) : idx l i = .ok x := by
  simp [idx, h]

theorem idx_getD {l : List Nat} {i : Nat} (h : i < l.length) : idx l i = .ok (l.getD i 0) := by
  rw [idx_ok h, List.getD_eq_getElem?_getD, List.getElem?_eq_getElem h]; rfl

theorem idx_eq_ok {α : Type} {l : List α} {i : Nat} {x : α} (h : idx l i = .ok x) : l[i]? = some x := by
  unfold idx at h
  split at h
  · rename_i y hy; cases h; exact hy
  · cases h

theorem USZ_eq : USZ = 18446744073709551616 := by decide

end TrainLit
end Qco
