import Qco.Train.Lit
import Qco.Lemmas.HuffmanOpt
namespace Qco
namespace TrainLit
open GcdLit (Out)

/-- only the codes differ -/
def eraseCodes (l : List WP) : List WP := l.map fun p => { p with code := [] }

namespace Huff

theorem ok_bind {α β : Type} (v : α) (f : α → Out β) : (Out.ok v >>= f) = f v := rfl
theorem panic_bind {α β : Type} (f : α → Out β) : ((Out.panic : Out α) >>= f) = Out.panic := rfl
theorem pure_eq {α : Type} (v : α) : (pure v : Out α) = Out.ok v := rfl

/-- forget the `bits` field -/
def strip (it : HItem) : HItem := { it with bits := [] }

/-- `items[id]` is the root of (a representation of) the tree `t`; children have smaller ids -/
def Rep (items : List HItem) : Nat → HTree → Prop
  | id, .leaf i w => ∃ it, items[id]? = some it ∧ it.id = id ∧ i = id ∧ it.weight = w ∧ it.leafId = some i
  | id, .node l r => ∃ it a b, items[id]? = some it ∧ it.id = id ∧ it.leafId = none ∧ it.leftId = some a ∧
      it.rightId = some b ∧ it.weight = l.weight + r.weight ∧ a < id ∧ b < id ∧ Rep items a l ∧ Rep items b r

theorem Rep.item {items : List HItem} {id : Nat} {t : HTree} (h : Rep items id t) :
    ∃ it, items[id]? = some it ∧ it.id = id ∧ it.weight = t.weight := by
  cases t with
  | leaf i w => obtain ⟨it, h1, h2, -, h4, -⟩ := h; exact ⟨it, h1, h2, h4⟩
  | node l r => obtain ⟨it, a, b, h1, h2, -, -, -, h6, -⟩ := h; exact ⟨it, h1, h2, h6⟩

theorem Rep.lt {items : List HItem} {id : Nat} {t : HTree} (h : Rep items id t) : id < items.length := by
  obtain ⟨it, h1, -⟩ := h.item
  exact (List.getElem?_eq_some_iff.1 h1).1

theorem Rep.height : ∀ {t : HTree} {items : List HItem} {id : Nat}, Rep items id t → t.height ≤ id
  | .leaf _ _, _, _, _ => Nat.zero_le _
  | .node l r, items, id, h => by
    obtain ⟨it, a, b, -, -, -, -, -, -, ha, hb, hl, hr⟩ := h
    have := Rep.height hl
    have := Rep.height hr
    simp only [HTree.height]
    omega

theorem Rep.congr : ∀ {t : HTree} {items items' : List HItem} {id : Nat},
    items'.map strip = items.map strip → Rep items id t → Rep items' id t := by
  intro t
  induction t with
  | leaf i w =>
    intro items items' id he h
    obtain ⟨it, h1, h2, h3, h4, h5⟩ := h
    have e : (items'[id]?).map strip = (items[id]?).map strip := by
      rw [← List.getElem?_map, ← List.getElem?_map, he]
    rw [h1] at e
    cases h' : items'[id]? with
    | none => rw [h'] at e; cases e
    | some it' =>
      rw [h'] at e
      simp only [Option.map_some, Option.some.injEq, strip] at e
      refine ⟨it', h', ?_, h3, ?_, ?_⟩
      · have := congrArg HItem.id e; simpa [h2] using this
      · have := congrArg HItem.weight e; simpa [h4] using this
      · have := congrArg HItem.leafId e; simpa [h5] using this
  | node l r ihl ihr =>
    intro items items' id he h
    obtain ⟨it, a, b, h1, h2, h3, h4, h5, h6, ha, hb, hl, hr⟩ := h
    have e : (items'[id]?).map strip = (items[id]?).map strip := by
      rw [← List.getElem?_map, ← List.getElem?_map, he]
    rw [h1] at e
    cases h' : items'[id]? with
    | none => rw [h'] at e; cases e
    | some it' =>
      rw [h'] at e
      simp only [Option.map_some, Option.some.injEq, strip] at e
      refine ⟨it', a, b, h', ?_, ?_, ?_, ?_, ?_, ha, hb, ihl he hl, ihr he hr⟩
      · have := congrArg HItem.id e; simpa [h2] using this
      · have := congrArg HItem.leafId e; simpa [h3] using this
      · have := congrArg HItem.leftId e; simpa [h4] using this
      · have := congrArg HItem.rightId e; simpa [h5] using this
      · have := congrArg HItem.weight e; simpa [h6] using this

theorem Rep.append : ∀ {t : HTree} {items : List HItem} {id : Nat} (ys : List HItem),
    Rep items id t → Rep (items ++ ys) id t := by
  intro t
  induction t with
  | leaf i w =>
    intro items id ys h
    obtain ⟨it, h1, h2⟩ := h
    have hlt := (List.getElem?_eq_some_iff.1 h1).1
    exact ⟨it, by rw [List.getElem?_append_left hlt]; exact h1, h2⟩
  | node l r ihl ihr =>
    intro items id ys h
    obtain ⟨it, a, b, h1, h2, h3, h4, h5, h6, ha, hb, hl, hr⟩ := h
    have hlt := (List.getElem?_eq_some_iff.1 h1).1
    exact ⟨it, a, b, by rw [List.getElem?_append_left hlt]; exact h1, h2, h3, h4, h5, h6, ha, hb,
      ihl ys hl, ihr ys hr⟩


/-! ### `create_bits_from` -/

/-- the symbols (leaf ids) of a tree, left to right -/
def ids : HTree → List Nat
  | .leaf i _ => [i]
  | .node l r => ids l ++ ids r

theorem ids_eq (t : HTree) : ids t = t.syms.map Prod.fst := by
  induction t with
  | leaf i w => rfl
  | node l r ihl ihr => simp [ids, HTree.syms, ihl, ihr]

theorem mem_ids_of_leaves (t : HTree) : ∀ acc, ∀ x ∈ t.leaves acc, x.1 ∈ ids t := by
  induction t with
  | leaf i w => intro acc x hx; simp only [HTree.leaves, List.mem_singleton] at hx; subst hx; simp [ids]
  | node l r ihl ihr =>
    intro acc x hx
    simp only [HTree.leaves, List.mem_append] at hx
    simp only [ids, List.mem_append]
    rcases hx with hx | hx
    · exact Or.inl (ihl _ x hx)
    · exact Or.inr (ihr _ x hx)

theorem setIdx_ok {α : Type} {l : List α} {i : Nat} {x : α} (h : l[i]? = some x) (f : α → α) :
    setIdx l i f = .ok (l.set i (f x)) := by
  simp [setIdx, h]

theorem idx_ok {α : Type} {l : List α} {i : Nat} {x : α} (h : l[i]? = some x) : idx l i = .ok x := by
  simp [idx, h]

theorem map_set_same {α β : Type} (g : α → β) (l : List α) (i : Nat) (x y : α) (h : l[i]? = some x)
    (hg : g y = g x) : (l.set i y).map g = l.map g := by
  apply List.ext_getElem?
  intro k
  rw [List.map_set, List.getElem?_set]
  split
  · rename_i hik
    subst hik
    simp only [List.length_map, List.getElem?_map, h, Option.map_some]
    have := (List.getElem?_eq_some_iff.1 h).1
    simp [this, hg]
  · rfl

theorem eraseCodes_length {l l' : List WP} (h : eraseCodes l' = eraseCodes l) : l'.length = l.length := by
  have := congrArg List.length h
  simpa [eraseCodes] using this

/-- whatever does not read the code is the same on both sides -/
theorem eraseCodes_map {β : Type} (f : WP → β) (hf : ∀ p : WP, f { p with code := [] } = f p) {l l' : List WP}
    (h : eraseCodes l' = eraseCodes l) : l'.map f = l.map f := by
  have := congrArg (List.map f) h
  simpa [eraseCodes, Function.comp_def, hf] using this

theorem cb_spec (t : HTree) : ∀ (fuel : Nat) (self : HItem) (bits : Bits) (items : List HItem) (leafs : List WP),
    t.height < fuel → items[self.id]? = some self → Rep items self.id t →
    (∀ i ∈ ids t, i < leafs.length) → (ids t).Nodup →
    ∃ items' leafs', createBitsFrom fuel self bits items leafs = .ok (items', leafs') ∧
      items'.map strip = items.map strip ∧ eraseCodes leafs' = eraseCodes leafs ∧
      (∀ x ∈ t.leaves bits, (leafs'[x.1]?).map (·.code) = some x.2.2) ∧
      (∀ j, j ∉ ids t → leafs'[j]? = leafs[j]?) := by
  induction t with
  | leaf i w =>
    intro fuel self bits items leafs hf hself hrep hlt _
    obtain ⟨f, rfl⟩ : ∃ f, fuel = f + 1 := ⟨fuel - 1, by omega⟩
    obtain ⟨it, h1, h2, h3, h4, h5⟩ := hrep
    rw [hself] at h1
    cases h1
    have hi : i < leafs.length := hlt i (by simp [ids])
    obtain ⟨p, hp⟩ : ∃ p, leafs[i]? = some p := ⟨leafs[i], List.getElem?_eq_getElem hi⟩
    refine ⟨items.set self.id { self with bits := bits }, leafs.set i { p with code := bits }, ?_, ?_, ?_, ?_, ?_⟩
    · simp only [createBitsFrom, setIdx_ok hself, ok_bind, h5, Option.isSome_some, if_true, unwrap,
        setIdx_ok hp, pure_eq]
    · exact map_set_same strip items _ self _ hself rfl
    · exact map_set_same _ leafs _ p _ hp rfl
    · intro x hx
      simp only [HTree.leaves, List.mem_singleton] at hx
      subst hx
      simp [hi]
    · intro j hj
      simp only [ids, List.mem_singleton] at hj
      rw [List.getElem?_set_ne (Ne.symm hj)]
  | node l r ihl ihr =>
    intro fuel self bits items leafs hf hself hrep hlt hnd
    obtain ⟨f, rfl⟩ : ∃ f, fuel = f + 1 := ⟨fuel - 1, by omega⟩
    simp only [HTree.height] at hf
    obtain ⟨it, a, b, h1, h2, h3, h4, h5, h6, ha, hb, hl, hr⟩ := hrep
    rw [hself] at h1
    cases h1
    simp only [ids, List.nodup_append, List.mem_append] at hnd hlt
    obtain ⟨hndl, hndr, hdisj⟩ := hnd
    -- the first write
    obtain ⟨items1, hs1, e1⟩ : ∃ items1, setIdx items self.id (fun it => { it with bits := bits }) = .ok items1 ∧
        items1.map strip = items.map strip :=
      ⟨_, setIdx_ok hself _, map_set_same strip items _ self _ hself rfl⟩
    have hl1 := Rep.congr e1 hl
    obtain ⟨li, hli, hlid, -⟩ := hl1.item
    obtain ⟨items2, leafs2, hc2, e2, ec2, hcode2, hother2⟩ :=
      ihl f li (bits ++ [false]) items1 leafs (by omega) (by rw [hlid]; exact hli) (by rw [hlid]; exact hl1)
        (fun i hi => hlt i (Or.inl hi)) hndl
    have e12 := e2.trans e1
    have hr2 := Rep.congr e12 hr
    obtain ⟨ri, hri, hrid, -⟩ := hr2.item
    have hlen2 := eraseCodes_length ec2
    obtain ⟨items3, leafs3, hc3, e3, ec3, hcode3, hother3⟩ :=
      ihr f ri (bits ++ [true]) items2 leafs2 (by omega) (by rw [hrid]; exact hri) (by rw [hrid]; exact hr2)
        (fun i hi => by rw [hlen2]; exact hlt i (Or.inr hi)) hndr
    refine ⟨items3, leafs3, ?_, e3.trans e12, ec3.trans ec2, ?_, ?_⟩
    · simp only [createBitsFrom, hs1, ok_bind, h3, Option.isSome_none, Bool.false_eq_true,
        if_false, h4, h5, unwrap, idx_ok hli, hc2, idx_ok hri, hc3]
    · intro x hx
      simp only [HTree.leaves, List.mem_append] at hx
      rcases hx with hx | hx
      · have hxl := mem_ids_of_leaves l _ x hx
        rw [hother3 x.1 (fun hxr => hdisj x.1 hxl x.1 hxr rfl)]
        exact hcode2 x hx
      · exact hcode3 x hx
    · intro j hj
      simp only [ids, List.mem_append, not_or] at hj
      rw [hother3 j hj.2, hother2 j hj.1]

/-! ### the heap and the forest -/

theorem perm_eraseIdx {α : Type} : ∀ (l : List α) (k : Nat) (x : α), l[k]? = some x → l.Perm (x :: l.eraseIdx k)
  | [], _, _, h => by simp at h
  | y :: l, 0, x, h => by
    simp only [List.getElem?_cons_zero, Option.some.injEq] at h
    subst h
    exact .refl _
  | y :: l, k + 1, x, h => by
    simp only [List.getElem?_cons_succ] at h
    simp only [List.eraseIdx_cons_succ]
    exact ((perm_eraseIdx l k x h).cons y).trans (List.Perm.swap x y _)

theorem sum_eraseIdx {α : Type} (f : α → Nat) (l : List α) (k : Nat) (x : α) (h : l[k]? = some x) :
    (l.map f).sum = f x + ((l.eraseIdx k).map f).sum := by
  have := ((perm_eraseIdx l k x h).map f).sum_nat
  simpa using this

/-- the heap element `x` is `items[x.id]`, the root of the tree `t` -/
def Good (items : List HItem) (x : HItem) (t : HTree) : Prop :=
  items[x.id]? = some x ∧ Rep items x.id t

theorem Good.weight {items : List HItem} {x : HItem} {t : HTree} (h : Good items x t) : x.weight = t.weight := by
  obtain ⟨it, h1, -, h3⟩ := h.2.item
  rw [h.1] at h1
  cases h1
  exact h3

theorem Good.append {items : List HItem} {x : HItem} {t : HTree} (ys : List HItem) (h : Good items x t) :
    Good (items ++ ys) x t := by
  refine ⟨?_, h.2.append ys⟩
  rw [List.getElem?_append_left (List.getElem?_eq_some_iff.1 h.1).1]
  exact h.1

/-- the heap `hs` and the forest `F` correspond position by position -/
def Corr (items : List HItem) (hs : List HItem) (F : List HTree) : Prop :=
  hs.length = F.length ∧ ∀ (k : Nat) (x : HItem) (t : HTree), hs[k]? = some x → F[k]? = some t → Good items x t

theorem Corr.get {items hs : List HItem} {F : List HTree} (h : Corr items hs F) {k : Nat} {x : HItem}
    (hk : hs[k]? = some x) : ∃ t, F[k]? = some t ∧ Good items x t := by
  have hlt := (List.getElem?_eq_some_iff.1 hk).1
  have hlt' : k < F.length := by rw [← h.1]; exact hlt
  exact ⟨F[k], List.getElem?_eq_getElem hlt', h.2 k x _ hk (List.getElem?_eq_getElem hlt')⟩

theorem Corr.mem {items hs : List HItem} {F : List HTree} (h : Corr items hs F) {t : HTree} (ht : t ∈ F) :
    ∃ x ∈ hs, Good items x t := by
  obtain ⟨k, hk⟩ := List.mem_iff_getElem?.1 ht
  have hlt := (List.getElem?_eq_some_iff.1 hk).1
  have hlt' : k < hs.length := by rw [h.1]; exact hlt
  exact ⟨hs[k], List.getElem_mem hlt', h.2 k _ t (List.getElem?_eq_getElem hlt') hk⟩

theorem Corr.eraseIdx {items hs : List HItem} {F : List HTree} (h : Corr items hs F) (k : Nat) :
    Corr items (hs.eraseIdx k) (F.eraseIdx k) := by
  refine ⟨by simp [List.length_eraseIdx, h.1], ?_⟩
  intro j x t hx ht
  rw [List.getElem?_eraseIdx] at hx ht
  split at hx
  · rename_i hjk; rw [if_pos hjk] at ht; exact h.2 j x t hx ht
  · rename_i hjk; rw [if_neg hjk] at ht; exact h.2 (j + 1) x t hx ht

theorem Corr.push {items hs : List HItem} {F : List HTree} (h : Corr items hs F) {y : HItem} {t : HTree}
    (hg : Good (items ++ [y]) y t) : Corr (items ++ [y]) (hs ++ [y]) (F ++ [t]) := by
  refine ⟨by simp [h.1], ?_⟩
  intro j x u hx hu
  rw [List.getElem?_append] at hx hu
  rw [h.1] at hx
  split at hx
  · rename_i hjk; rw [if_pos hjk] at hu; exact (h.2 j x u hx hu).append _
  · rename_i hjk
    rw [if_neg hjk] at hu
    have hj := (List.getElem?_eq_some_iff.1 hx).1
    have hj' : j - F.length = 0 := by simpa using hj
    rw [hj'] at hx hu
    simp only [List.getElem?_cons_zero, Option.some.injEq] at hx hu
    subst hx hu
    exact hg

theorem pop_ok {pick : Nat → List HItem → Nat} (hp : PickOK pick) (h : Heap) (hne : h.items ≠ []) :
    ∃ x, h.items[pick h.pops h.items]? = some x ∧ (∀ y ∈ h.items, x.weight ≤ y.weight) ∧
      h.pop pick = some (x, { items := h.items.eraseIdx (pick h.pops h.items), pops := h.pops + 1 }) := by
  obtain ⟨x, hx, hmin⟩ := hp h.pops h.items hne
  exact ⟨x, hx, hmin, by simp [Heap.pop, hx]⟩

theorem uadd_ok {a b : Nat} (h : a + b < USZ) : uadd a b = .ok (a + b) := by simp [uadd, h]

/-! ### the loop of `make_huffman_code` -/

theorem mergeLoop_spec {pick : Nat → List HItem → Nat} (hp : PickOK pick) :
    ∀ (k : Nat) (heap : Heap) (items : List HItem) (id : Nat) (F : List HTree),
      items.length = id → Corr items heap.items F → heap.items.length = k + 1 → id + k < USZ →
      (heap.items.map (·.weight)).sum < USZ →
      ∃ heap' items' id' x t, mergeLoop pick k heap items id = .ok (heap', items', id') ∧
        heap'.items = [x] ∧ Good items' x t ∧ HuffReach F t := by
  intro k
  induction k with
  | zero =>
    intro heap items id F hid hc hlen _ _
    obtain ⟨x, hx⟩ : ∃ x, heap.items = [x] := by
      match h : heap.items, hlen with
      | [x], _ => exact ⟨x, rfl⟩
    obtain ⟨t, ht, hg⟩ := hc.get (k := 0) (x := x) (by rw [hx]; rfl)
    have hF : F = [t] := by
      have hl : F.length = 1 := by rw [← hc.1, hx]; rfl
      match F, hl, ht with
      | [u], _, ht => simpa using ht
    exact ⟨heap, items, id, x, t, rfl, hx, hg, hF ▸ HuffReach.done t⟩
  | succ k ih =>
    intro heap items id F hid hc hlen hidk hsum
    obtain ⟨a, ha, hamin, hpopa⟩ := pop_ok hp heap (by intro h0; rw [h0] at hlen; simp at hlen)
    generalize pick heap.pops heap.items = k0 at ha hpopa
    have hk0 := (List.getElem?_eq_some_iff.1 ha).1
    have hc1 := hc.eraseIdx k0
    have hlen1 : (heap.items.eraseIdx k0).length = k + 1 := by
      rw [List.length_eraseIdx_of_lt hk0]; omega
    obtain ⟨ta, hta, hga⟩ := hc.get ha
    obtain ⟨b, hb, hbmin, hpopb⟩ := pop_ok hp { items := heap.items.eraseIdx k0, pops := heap.pops + 1 }
      (by intro h0; simp only at h0; rw [h0] at hlen1; simp at hlen1)
    simp only at hb hbmin hpopb
    generalize pick (heap.pops + 1) (heap.items.eraseIdx k0) = k1 at hb hpopb
    have hk1 := (List.getElem?_eq_some_iff.1 hb).1
    obtain ⟨tb, htb, hgb⟩ := hc1.get hb
    have hc2 := hc1.eraseIdx k1
    have hlen2 : ((heap.items.eraseIdx k0).eraseIdx k1).length = k := by
      rw [List.length_eraseIdx_of_lt hk1]; omega
    -- weights
    have hs0 := sum_eraseIdx (·.weight) heap.items k0 a ha
    have hs1 := sum_eraseIdx (·.weight) (heap.items.eraseIdx k0) k1 b hb
    have hw : a.weight + b.weight < USZ := by omega
    obtain ⟨newItem, hnewdef⟩ : ∃ newItem : HItem, newItem =
        { id := id, weight := a.weight + b.weight, leftId := some a.id, rightId := some b.id,
          leafId := none, bits := [] } := ⟨_, rfl⟩
    have hnew : HItem.newParentOf a b id = .ok newItem := by
      simp [HItem.newParentOf, uadd_ok hw, ok_bind, pure_eq, hnewdef]
    have hgn : Good (items ++ [newItem]) newItem (.node ta tb) := by
      have hnid : newItem.id = id := by rw [hnewdef]
      have hget : (items ++ [newItem])[id]? = some newItem := by
        rw [List.getElem?_append_right (by omega)]; simp [hid]
      have haid : a.id < id := by rw [← hid]; exact (List.getElem?_eq_some_iff.1 hga.1).1
      have hbid : b.id < id := by rw [← hid]; exact (List.getElem?_eq_some_iff.1 hgb.1).1
      refine ⟨by rw [hnid]; exact hget, ?_⟩
      rw [hnid]
      refine ⟨newItem, a.id, b.id, hget, hnid, ?_, ?_, ?_, ?_, haid, hbid, hga.2.append _, hgb.2.append _⟩
      · rw [hnewdef]
      · rw [hnewdef]
      · rw [hnewdef]
      · rw [hnewdef, hga.weight, hgb.weight]
    have hc3 := hc2.push hgn
    obtain ⟨heap', items', id', x, t, hm, hx, hg, hr⟩ :=
      ih (Heap.push { items := (heap.items.eraseIdx k0).eraseIdx k1, pops := heap.pops + 1 + 1 } newItem)
        (items ++ [newItem]) (id + 1) (((F.eraseIdx k0).eraseIdx k1) ++ [HTree.node ta tb])
        (by simp [hid]) (by simpa only [Heap.push] using hc3) (by simp [Heap.push, hlen2]) (by omega)
        (by
          simp only [Heap.push, List.map_append, List.sum_append, List.map_cons, List.map_nil, List.sum_cons,
            List.sum_nil]
          rw [hnewdef]; simp only; omega)
    refine ⟨heap', items', id', x, t, ?_, hx, hg, HuffReach.step ?_ hr⟩
    · simp only [mergeLoop, hpopa, unwrap, ok_bind, hpopb, hnew, uadd_ok (show id + 1 < USZ by omega)]
      exact hm
    · have hp0 := perm_eraseIdx F k0 ta hta
      have hp1 := perm_eraseIdx (F.eraseIdx k0) k1 tb htb
      refine ⟨ta, tb, (F.eraseIdx k0).eraseIdx k1, hp0.trans (hp1.cons ta), ?_, ?_, ?_⟩
      · intro u hu
        have hu1 : u ∈ F.eraseIdx k0 := hp1.symm.subset hu
        obtain ⟨y, hy, hgy⟩ := hc1.mem hu1
        rw [← hga.weight, ← hgy.weight]
        exact hamin y (List.mem_of_mem_eraseIdx hy)
      · intro u hu
        have hu1 : u ∈ F.eraseIdx k0 := hp1.symm.subset (List.mem_cons_of_mem _ hu)
        obtain ⟨y, hy, hgy⟩ := hc1.mem hu1
        rw [← hgb.weight, ← hgy.weight]
        exact hbmin y hy
      · exact List.perm_append_comm

/-! ### the initial state -/

theorem enumFrom_getElem? {α : Type} : ∀ (l : List α) (i k : Nat),
    (GcdLit.enumFrom i l)[k]? = (l[k]?).map fun x => (i + k, x)
  | [], _, _ => by simp [GcdLit.enumFrom]
  | x :: l, i, 0 => by simp [GcdLit.enumFrom]
  | x :: l, i, k + 1 => by
    simp only [GcdLit.enumFrom, List.getElem?_cons_succ, enumFrom_getElem? l (i + 1) k]
    congr 1; funext y; congr 1; omega

/-- the `items` (and the heap's content) after the first loop -/
def items0 (wps : List WP) : List HItem :=
  (GcdLit.enumFrom 0 wps).map fun ip => HItem.new ip.2.weight ip.1

theorem items0_getElem? (wps : List WP) (k : Nat) :
    (items0 wps)[k]? = (wps[k]?).map fun p => HItem.new p.weight k := by
  simp [items0, enumFrom_getElem?, Function.comp_def]

theorem items0_length (wps : List WP) : (items0 wps).length = wps.length := by
  apply Nat.le_antisymm
  · apply Nat.le_of_not_lt
    intro h
    have := items0_getElem? wps wps.length
    rw [List.getElem?_eq_getElem h] at this
    simp at this
  · apply Nat.le_of_not_lt
    intro h
    have := items0_getElem? wps (items0 wps).length
    rw [List.getElem?_eq_getElem h] at this
    simp at this

theorem items0_weights (wps : List WP) : (items0 wps).map (·.weight) = wps.map (·.weight) := by
  apply List.ext_getElem?
  intro k
  simp only [List.getElem?_map, items0_getElem?, Option.map_map]
  cases wps[k]? <;> simp [HItem.new]

theorem leafForest_getElem? (ws : List Nat) (k : Nat) :
    (leafForest ws)[k]? = (ws[k]?).map fun w => HTree.leaf k w := by
  simp [leafForest, List.getElem?_zipIdx, Function.comp_def]

theorem corr0 (wps : List WP) : Corr (items0 wps) (items0 wps) (leafForest (wps.map (·.weight))) := by
  refine ⟨by simp [items0_length, leafForest], ?_⟩
  intro k x t hx ht
  rw [items0_getElem?] at hx
  rw [leafForest_getElem?, List.getElem?_map] at ht
  cases hk : wps[k]? with
  | none => rw [hk] at hx; cases hx
  | some p =>
    rw [hk] at hx ht
    simp only [Option.map_some, Option.some.injEq] at hx ht
    subst hx ht
    have hget : (items0 wps)[k]? = some (HItem.new p.weight k) := by rw [items0_getElem?, hk]; rfl
    exact ⟨hget, HItem.new p.weight k, hget, rfl, rfl, rfl, rfl⟩

end Huff

open _root_.Qco.TrainLit.Huff in
/-- **`make_huffman_code`, literally**: whatever the heap's tie-breaking (`PickOK`), on at least one prefix, with
the weights' sum and twice the number of prefixes within `usize`, the function does not panic (no index out
of bounds, no `unwrap` on `None`, no overflow, and the recursion of `create_bits_from` is no deeper than
`items.len()`), only the codes change, and the codes are those of a tree the relational loop `HuffRun` can
build for the weights -/
theorem makeHuffmanLit_is_huffRun (pick : Nat → List HItem → Nat) (hp : PickOK pick) (wps : List WP)
    (hne : wps ≠ []) (hw : (wps.map (·.weight)).sum < USZ) (hn : 2 * wps.length ≤ USZ) :
    ∃ res, makeHuffmanLit pick wps = .ok res ∧ eraseCodes res = eraseCodes wps ∧
      HuffCode (wps.map (·.weight)) (res.map (·.code)) := by
  have hn1 : 1 ≤ wps.length := List.length_pos_iff.2 hne
  obtain ⟨heap', items', id', x, t, hm, hx, hg, hr⟩ :=
    mergeLoop_spec hp (wps.length - 1) { items := items0 wps, pops := 0 } (items0 wps) wps.length
      (leafForest (wps.map (·.weight))) (items0_length wps) (corr0 wps)
      (by simp only [items0_length]; omega) (by omega) (by rw [items0_weights]; exact hw)
  obtain ⟨y, hy, -, hpop⟩ := pop_ok hp heap' (by rw [hx]; simp)
  have hyx : y = x := by
    have := List.mem_of_getElem? hy
    rw [hx] at this
    simpa using this
  subst hyx
  have hrun : HuffRun (wps.map (·.weight)) t := hr
  have hperm : (ids t).Perm (List.range' 0 wps.length) := by
    have := (HuffRun.syms_perm hrun).map Prod.fst
    rwa [symsOf_fst, ← ids_eq, List.length_map] at this
  obtain ⟨items'', leafs, hcb, -, hec, hcode, -⟩ :=
    cb_spec t items'.length y [] items' wps (Nat.lt_of_le_of_lt hg.2.height hg.2.lt) hg.1 hg.2
      (fun i hi => by have := hperm.subset hi; simp at this; omega)
      (hperm.symm.nodup (List.nodup_range'))
  refine ⟨leafs, ?_, hec, ?_, t, hrun, ?_⟩
  · simp only [items0] at hm
    simp only [makeHuffmanLit, usub, if_pos hn1, ok_bind, hm, hpop, unwrap, hcb, pure_eq]
  · simp [eraseCodes_length hec]
  · intro z hz
    rw [List.getElem?_map]
    exact hcode z hz

/-- no prefix at all: `prefix_sequence.len() - 1` underflows -/
theorem makeHuffmanLit_nil (pick : Nat → List HItem → Nat) : makeHuffmanLit pick [] = .panic := rfl

/-! ### one valid heap: the first element of least weight -/

namespace Huff

theorem foldl_min_spec : ∀ (rest : List HItem) (m0 : Nat),
    rest.foldl (fun m y => min m y.weight) m0 ≤ m0 ∧
    (∀ y ∈ rest, rest.foldl (fun m y => min m y.weight) m0 ≤ y.weight) ∧
    (rest.foldl (fun m y => min m y.weight) m0 = m0 ∨
      ∃ y ∈ rest, y.weight = rest.foldl (fun m y => min m y.weight) m0)
  | [], m0 => by simp
  | z :: rest, m0 => by
    obtain ⟨h1, h2, h3⟩ := foldl_min_spec rest (min m0 z.weight)
    simp only [List.foldl_cons, List.mem_cons, forall_eq_or_imp, exists_eq_or_imp]
    refine ⟨by omega, ⟨by omega, h2⟩, ?_⟩
    rcases h3 with h3 | ⟨y, hy, h3⟩
    · rcases Nat.le_total m0 z.weight with hle | hle
      · left; rw [h3]; exact Nat.min_eq_left hle
      · right; left; rw [h3]; exact (Nat.min_eq_right hle).symm
    · right; right; exact ⟨y, hy, h3⟩

end Huff

theorem pickFirstMin_ok : PickOK pickFirstMin := by
  intro t items hne
  match items, hne with
  | x :: rest, _ =>
    obtain ⟨h1, h2, h3⟩ := Huff.foldl_min_spec rest x.weight
    simp only [pickFirstMin]
    generalize rest.foldl (fun m y => min m y.weight) x.weight = m at h1 h2 h3
    have hex : ∃ y ∈ x :: rest, (y.weight == m) = true := by
      rcases h3 with h3 | ⟨y, hy, h3⟩
      · exact ⟨x, List.mem_cons_self, by simp [h3]⟩
      · exact ⟨y, List.mem_cons_of_mem _ hy, by simp [h3]⟩
    have hlt := List.findIdx_lt_length_of_exists hex
    refine ⟨(x :: rest)[List.findIdx (fun y => y.weight == m) (x :: rest)], List.getElem?_eq_getElem hlt, ?_⟩
    have hw := List.findIdx_getElem (w := hlt)
    simp only [beq_iff_eq] at hw
    intro y hy
    rw [hw]
    rcases List.mem_cons.1 hy with rfl | hy
    · exact h1
    · exact h2 y hy

/-! ### non-vacuity: the library's own test `test_make_huffman_code` -/

section Example

private def ex (weight : Nat) (code : Bits) : WP :=
  { count := 0, weight := weight, lower := 0, upper := 0, jump := none, gcd := 1, code := code }

private def exIn : List WP := [ex 1 [], ex 6 [], ex 2 [], ex 4 [], ex 5 []]

private def exOut : List WP :=
  [ex 1 [false, false, false], ex 6 [true, true], ex 2 [false, false, true], ex 4 [false, true], ex 5 [true, false]]

example : makeHuffmanLit pickFirstMin exIn = .ok exOut := by decide

/-- the hypotheses of the theorem hold on it, so its codes are a `HuffCode` for `[1, 6, 2, 4, 5]` -/
example : HuffCode [1, 6, 2, 4, 5] [[false, false, false], [true, true], [false, false, true], [false, true],
    [true, false]] := by
  obtain ⟨res, h1, -, h3⟩ := makeHuffmanLit_is_huffRun pickFirstMin pickFirstMin_ok exIn (by decide)
    (by decide) (by decide)
  have e : makeHuffmanLit pickFirstMin exIn = .ok exOut := by decide
  rw [e] at h1
  cases h1
  exact h3

end Example

end TrainLit
end Qco
