/-
Layer TL, proofs — `optimize_prefixes`, part 2: the dynamic programme never panics and, whatever the cost
oracle answers, returns the merge of consecutive groups of the raw prefixes.
-/
import Qco.Lemmas.TrainLit.OptBasic
import Qco.Properties.C18g
namespace Qco
namespace TrainLit
open GcdLit (Out)
open Train

/-! ## `enumerate()` -/

theorem enumFrom_get? {α : Type} : ∀ (l : List α) (a k : Nat),
    (GcdLit.enumFrom a l)[k]? = (l[k]?).map fun x => (a + k, x)
  | [], _, _ => by simp [GcdLit.enumFrom]
  | x :: l, a, 0 => by simp [GcdLit.enumFrom]
  | x :: l, a, k + 1 => by
    simp only [GcdLit.enumFrom, List.getElem?_cons_succ, enumFrom_get? l (a + 1) k]
    congr 1; funext y; congr 1; omega

theorem enumFrom_map_snd {α : Type} : ∀ (l : List α) (a : Nat), (GcdLit.enumFrom a l).map (·.2) = l
  | [], _ => rfl
  | x :: l, a => by simp [GcdLit.enumFrom, enumFrom_map_snd l (a + 1)]

theorem mem_enumFrom {α : Type} {l : List α} {a : Nat} {kp : Nat × α} (h : kp ∈ GcdLit.enumFrom a l) :
    ∃ t, kp.1 = a + t ∧ l[t]? = some kp.2 := by
  obtain ⟨t, ht⟩ := List.mem_iff_getElem?.mp h
  rw [enumFrom_get?] at ht
  cases hl : l[t]? with
  | none => rw [hl] at ht; cases ht
  | some x =>
    rw [hl] at ht
    simp only [Option.map_some, Option.some.injEq] at ht
    subst ht
    exact ⟨t, rfl, hl⟩

/-- `prefixes.iter().enumerate().take(i + 1).skip(j)` -/
theorem enumFrom_seg {α : Type} (l : List α) (j i : Nat) :
    ((GcdLit.enumFrom 0 l).take (i + 1)).drop j = GcdLit.enumFrom j (seg l j i) := by
  apply List.ext_getElem?
  intro k
  rw [List.getElem?_drop, List.getElem?_take, enumFrom_get?, enumFrom_get?, seg_getElem?]
  by_cases h : k < i + 1 - j
  · rw [if_pos (by omega), if_pos h]
    congr 1; funext y; congr 1; omega
  · rw [if_neg (by omega), if_neg h]; rfl

/-! ## the inner loop `for j in (start_j..i + 1).rev()` -/

/-- HYPOTHESIS on the cost oracle: a candidate cost compares below `f64::MAX`.  (All costs are finite sums of
numbers below `2^40`; were it false for the first candidate `j = i` of a row, `best_j` would stay `usize::MAX` and
`best_paths[best_j]` would panic.) -/
def CostFinite {C : Type} (O : CostOracle C) : Prop :=
  ∀ (c : C) (l u w t g : Nat), O.lt (O.add c (O.pbc l u w t g)) O.top = true

theorem rowLoop_ok {C : Type} (O : CostOracle C) (hfin : CostFinite O) (E : OptEnv C) (bestCosts : List C)
    (upper cumI : Nat) : ∀ (js : List Nat) (st : RowSt C),
    (∀ j ∈ js, ∃ l u g c b, E.lowers[j]? = some l ∧ E.uppers[j]? = some u ∧ E.gcds[j]? = some g ∧
        E.cum[j]? = some c ∧ bestCosts[j]? = some b ∧ l ≤ upper ∧ u ≤ upper ∧ 1 ≤ g ∧ c ≤ cumI) →
    (∀ d, st.gcdAcc = some d → 1 ≤ d) →
    ∃ r, rowLoop O E bestCosts upper cumI js st = .ok r ∧ (r.bestJ = st.bestJ ∨ r.bestJ ∈ js) ∧
      (st.bestCost = O.top → js ≠ [] → r.bestJ ∈ js)
  | [], st, _, _ => ⟨st, rfl, Or.inl rfl, fun _ h => absurd rfl h⟩
  | j :: js, st, hcol, hacc => by
    obtain ⟨l, u, g, c, b, hl, hu, hg, hc, hb, hlU, huU, hg1, hcI⟩ := hcol j List.mem_cons_self
    have hcol' : ∀ j' ∈ js, _ := fun j' hj' => hcol j' (List.mem_cons_of_mem _ hj')
    -- everything after the accumulator update, for any accumulator `≥ 1`
    have tail : ∀ acc' : Option Nat, (∀ d, acc' = some d → 1 ≤ d) →
        ∃ r, (do
            let pc ← prefixBitCost O l upper (cumI - c) E.total (acc'.getD 1)
            let cost := O.add b pc
            if O.lt cost st.bestCost then
              rowLoop O E bestCosts upper cumI js { gcdAcc := acc', bestCost := cost, bestJ := j }
            else
              rowLoop O E bestCosts upper cumI js { st with gcdAcc := acc' }) = Out.ok r ∧
          (r.bestJ = st.bestJ ∨ r.bestJ ∈ j :: js) ∧ (st.bestCost = O.top → j :: js ≠ [] → r.bestJ ∈ j :: js) := by
      intro acc' hacc'
      have hg0 : acc'.getD 1 ≠ 0 := by
        cases acc' with
        | none => simp
        | some d => have := hacc' d rfl; simp; omega
      simp only [prefixBitCost, if_neg (show ¬ upper < l by omega), if_neg hg0, ok_bind]
      by_cases hlt : O.lt (O.add b (O.pbc l upper (cumI - c) E.total (acc'.getD 1))) st.bestCost = true
      · rw [if_pos hlt]
        obtain ⟨r, hr, h1, _⟩ := rowLoop_ok O hfin E bestCosts upper cumI js
          { gcdAcc := acc', bestCost := O.add b (O.pbc l upper (cumI - c) E.total (acc'.getD 1)), bestJ := j }
          hcol' hacc'
        have hmem : r.bestJ ∈ j :: js := by
          rcases h1 with h | h
          · rw [h]; exact List.mem_cons_self
          · exact List.mem_cons_of_mem _ h
        exact ⟨r, hr, Or.inr hmem, fun _ _ => hmem⟩
      · rw [if_neg hlt]
        obtain ⟨r, hr, h1, _⟩ := rowLoop_ok O hfin E bestCosts upper cumI js { st with gcdAcc := acc' }
          hcol' hacc'
        refine ⟨r, hr, ?_, ?_⟩
        · rcases h1 with h | h
          · exact Or.inl h
          · exact Or.inr (List.mem_cons_of_mem _ h)
        · intro htop _
          rw [htop] at hlt
          exact absurd (hfin _ _ _ _ _ _) hlt
    unfold rowLoop
    simp only [idx_of_getElem? hl, ok_bind]
    cases hf : E.foldGcd with
    | false =>
      simp only [Bool.false_eq_true, if_false, pure_eq, ok_bind, idx_of_getElem? hb, idx_of_getElem? hc,
        usub_ok hcI]
      exact tail st.gcdAcc hacc
    | true =>
      simp only [if_true, idx_of_getElem? hu, idx_of_getElem? hg, ok_bind,
        GcdLit.foldPrefixGcdsLeft_eq l u g upper st.gcdAcc huU hacc, idx_of_getElem? hb, idx_of_getElem? hc,
        usub_ok hcI]
      exact tail _ (GcdLit.foldGcdLeft_pos l u g upper st.gcdAcc huU hg1 hacc)

/-! ## `start_j` -/

/-- the value of `start_j` in row `i` -/
def sjVal (rep : Option Nat) (i : Nat) : Nat :=
  match rep with
  | some ind => if ind < i then ind + 1 else if ind = i then ind else 0
  | none => 0

theorem sjVal_le (rep : Option Nat) (i : Nat) : sjVal rep i ≤ i := by
  unfold sjVal
  split
  · split
    · omega
    · split <;> omega
  · omega

theorem startJ_eq (rep : Option Nat) (i : Nat) (hi : i < USZ) : startJ rep i = .ok (sjVal rep i) := by
  unfold startJ sjVal
  split
  · rename_i ind
    by_cases h : ind < i
    · simp only [if_pos h]; exact uadd_ok (by omega)
    · simp only [if_neg h]; split <;> rfl
  · rfl

/-! ## the environment, and what is needed of the input -/

/-- the vectors `optimize_prefixes` prepares -/
def envOf {C : Type} (wps : List WP) (fold : Bool) : OptEnv C :=
  { lowers := wps.map (·.lower), uppers := wps.map (·.upper), gcds := wps.map (·.gcd),
    cum := cumOf (wps.map (·.weight)), total := (wps.map (·.weight)).sum, foldGcd := fold,
    rep := repIdx wps }

/-- what `optimize_prefixes` needs of its input in order not to panic: the ranges are strictly apart and
ascending, `lower ≤ upper`, divisors `≥ 1`, the weights, the counts and the length are `usize`s with room -/
structure WOK (wps : List WP) : Prop where
  sep : (wps.map WP.toRaw).Pairwise (fun a b => a.upper < b.lower)
  le : ∀ p ∈ wps, p.lower ≤ p.upper ∧ 1 ≤ p.gcd
  wsum : (wps.map (·.weight)).sum < USZ
  csum : (wps.map (·.count)).sum < USZ
  len : wps.length + 1 < USZ

theorem WOK.mono {wps : List WP} (h : WOK wps) {j i : Nat} {a b : WP} (hji : j ≤ i)
    (ha : wps[j]? = some a) (hb : wps[i]? = some b) : a.lower ≤ b.upper ∧ a.upper ≤ b.upper := by
  obtain ⟨hj, rfl⟩ := List.getElem?_eq_some_iff.mp ha
  obtain ⟨hi, rfl⟩ := List.getElem?_eq_some_iff.mp hb
  have hla := (h.le _ (List.getElem_mem hj)).1
  have hlb := (h.le _ (List.getElem_mem hi)).1
  rcases Nat.lt_or_ge j i with hlt | hge
  · have hp := h.sep
    rw [List.pairwise_map] at hp
    have := List.pairwise_iff_getElem.mp hp j i hj hi hlt
    simp only [WP.toRaw] at this
    omega
  · have : j = i := by omega
    subst this
    omega

theorem mkEnv_eq {C : Type} (ub : Nat) (wps : List WP) (gcds : Bool) (hw : (wps.map (·.weight)).sum < USZ)
    (hov : ∀ p ∈ (wps.map WP.toRaw).dropLast, p.upper + 1 < 2 ^ ub) :
    mkEnv (C := C) ub wps gcds = .ok (envOf wps (useGcdOptimize (wps.map WP.toRaw) gcds)) := by
  have h1 := GcdLit.useGcdPrefixOptimize_eq ub (wps.map WP.toRaw) gcds hov
  have h2 : (wps.map WP.toRaw).map GcdLit.GP.ofRaw = wps.map WP.gp := by
    rw [List.map_map]; rfl
  rw [h2] at h1
  unfold mkEnv
  simp only [cumLoop_all wps hw, ok_bind, h1, pure_eq, envOf]

/-! ## the outer loop `for i in 0..wprefixes.len()` -/

structure DPInv {C : Type} (rep : Option Nat) (st : DPSt C) (i : Nat) : Prop where
  costs : st.bestCosts.length = i + 1
  plen : st.bestPaths.length = i + 1
  paths : ∀ k, k ≤ i → ∃ p, st.bestPaths[k]? = some p ∧ PChain p 0 k ∧ ∀ ji ∈ p, sjVal rep ji.2 ≤ ji.1

theorem dpStep_ok {C : Type} (O : CostOracle C) (hfin : CostFinite O) (wps : List WP) (hok : WOK wps)
    (fold : Bool) (st : DPSt C) (i : Nat) (hi : i < wps.length) (inv : DPInv (repIdx wps) st i) :
    ∃ st', dpStep O (envOf wps fold) st i = .ok st' ∧ DPInv (repIdx wps) st' (i + 1) := by
  have hlen := hok.len
  obtain ⟨pi, hpi⟩ : ∃ pi, wps[i]? = some pi := ⟨wps[i], List.getElem?_eq_getElem hi⟩
  have hup : (envOf (C := C) wps fold).uppers[i]? = some pi.upper := by
    simp only [envOf, List.getElem?_map, hpi, Option.map_some]
  have hcum : ∀ k, k ≤ wps.length → (envOf (C := C) wps fold).cum[k]? = some (psum (wps.map (·.weight)) k) := by
    intro k hk
    simp only [envOf]
    exact cumOf_getElem? _ (by simpa using hk)
  have hsj := sjVal_le (repIdx wps) i
  -- the columns of this row
  have hcol : ∀ j ∈ (List.range' (sjVal (repIdx wps) i) (i + 1 - sjVal (repIdx wps) i)).reverse,
      ∃ l u g c b, (envOf (C := C) wps fold).lowers[j]? = some l ∧ (envOf (C := C) wps fold).uppers[j]? = some u ∧
        (envOf (C := C) wps fold).gcds[j]? = some g ∧ (envOf (C := C) wps fold).cum[j]? = some c ∧
        st.bestCosts[j]? = some b ∧ l ≤ pi.upper ∧ u ≤ pi.upper ∧ 1 ≤ g ∧
        c ≤ psum (wps.map (·.weight)) (i + 1) := by
    intro j hj
    rw [List.mem_reverse, List.mem_range'_1] at hj
    have hji : j ≤ i := by omega
    obtain ⟨pj, hpj⟩ : ∃ pj, wps[j]? = some pj := ⟨wps[j]'(by omega), List.getElem?_eq_getElem (by omega)⟩
    obtain ⟨hm1, hm2⟩ := hok.mono hji hpj hpi
    have hmem : pj ∈ wps := List.mem_of_getElem? hpj
    refine ⟨pj.lower, pj.upper, pj.gcd, psum (wps.map (·.weight)) j, st.bestCosts[j]'(by rw [inv.costs]; omega),
      ?_, ?_, ?_, hcum j (by omega), List.getElem?_eq_getElem _, hm1, hm2, (hok.le pj hmem).2,
      psum_mono _ (by omega)⟩
    · simp only [envOf, List.getElem?_map, hpj, Option.map_some]
    · simp only [envOf, List.getElem?_map, hpj, Option.map_some]
    · simp only [envOf, List.getElem?_map, hpj, Option.map_some]
  obtain ⟨r, hr, _, hr2⟩ := rowLoop_ok O hfin (envOf wps fold) st.bestCosts pi.upper
    (psum (wps.map (·.weight)) (i + 1)) _ { gcdAcc := none, bestCost := O.top, bestJ := USZ - 1 } hcol
    (by intro d hd; cases hd)
  have hne : (List.range' (sjVal (repIdx wps) i) (i + 1 - sjVal (repIdx wps) i)).reverse ≠ [] := by
    intro h
    have := congrArg List.length h
    simp only [List.length_reverse, List.length_range', List.length_nil] at this
    omega
  have hbj := hr2 rfl hne
  rw [List.mem_reverse, List.mem_range'_1] at hbj
  obtain ⟨bp, hbp, hch, hsj'⟩ := inv.paths r.bestJ (by omega)
  refine ⟨{ bestCosts := st.bestCosts ++ [r.bestCost], bestPaths := st.bestPaths ++ [bp ++ [(r.bestJ, i)]] },
    ?_, ?_, ?_, ?_⟩
  · unfold dpStep
    have hrep : (envOf (C := C) wps fold).rep = repIdx wps := rfl
    simp only [idx_of_getElem? hup, ok_bind, uadd_ok (show i + 1 < USZ by omega), idx_of_getElem? (hcum (i + 1) (by omega)),
      hrep, startJ_eq (repIdx wps) i (by omega), hr, idx_of_getElem? hbp, pure_eq]
  · simp [inv.costs]
  · simp [inv.plen]
  · intro k hk
    rcases Nat.lt_or_ge k (i + 1) with hlt | hge
    · obtain ⟨p, hp, h1, h2⟩ := inv.paths k (by omega)
      refine ⟨p, ?_, h1, h2⟩
      show (st.bestPaths ++ [bp ++ [(r.bestJ, i)]])[k]? = some p
      rw [List.getElem?_append_left (by rw [inv.plen]; omega)]; exact hp
    · have hk' : k = i + 1 := by omega
      subst hk'
      refine ⟨bp ++ [(r.bestJ, i)], ?_, pchain_snoc bp 0 r.bestJ i hch (by omega), ?_⟩
      · show (st.bestPaths ++ [bp ++ [(r.bestJ, i)]])[i + 1]? = some _
        rw [List.getElem?_append_right (by rw [inv.plen]; omega), inv.plen]
        simp
      · intro ji hji
        rcases List.mem_append.mp hji with h | h
        · exact hsj' ji h
        · rw [List.mem_singleton.mp h]; exact hbj.1

theorem dpRun_ok {C : Type} (O : CostOracle C) (hfin : CostFinite O) (wps : List WP) (hok : WOK wps)
    (fold : Bool) : ∀ i, i ≤ wps.length →
    ∃ st, dpRun O (envOf wps fold) i = .ok st ∧ DPInv (repIdx wps) st i
  | 0, _ => by
    refine ⟨_, rfl, rfl, rfl, ?_⟩
    intro k hk
    have : k = 0 := by omega
    subst this
    exact ⟨[], rfl, rfl, by simp⟩
  | i + 1, hi => by
    obtain ⟨st, hst, inv⟩ := dpRun_ok O hfin wps hok fold i (by omega)
    obtain ⟨st', hst', inv'⟩ := dpStep_ok O hfin wps hok fold st i (by omega) inv
    exact ⟨st', by simp only [dpRun, hst, ok_bind, hst'], inv'⟩

/-! ## the second loop: building the merged prefixes from the path -/

/-- the `for (k, p) in ..rev()` loop: `done` are the raw prefixes already folded (those to the right) -/
theorem buildLoop_gen {C : Type} (E : OptEnv C) (i U : Nat) (hU : E.uppers[i]? = some U) :
    ∀ (l : List (Nat × WP)) (c : Nat) (done : List Raw),
    (∀ kp ∈ l, E.lowers[kp.1]? = some kp.2.lower ∧ E.uppers[kp.1]? = some kp.2.upper ∧
      kp.2.upper ≤ U ∧ 1 ≤ kp.2.gcd) →
    (∀ r ∈ done, r.upper ≤ U ∧ 1 ≤ r.gcd) →
    c + (l.map (·.2.count)).sum < USZ →
    buildLoop E i l c (if E.foldGcd then foldAcc U done else none) =
      .ok (c + (l.map (·.2.count)).sum,
        if E.foldGcd then foldAcc U (l.reverse.map (·.2.toRaw) ++ done) else none)
  | [], c, done, _, _, _ => by simp [buildLoop]
  | (k, p) :: rest, c, done, hl, hd, hs => by
    obtain ⟨h1, h2, h3, h4⟩ := hl (k, p) List.mem_cons_self
    simp only at h1 h2 h3 h4
    have hl' : ∀ kp ∈ rest, _ := fun kp hkp => hl kp (List.mem_cons_of_mem _ hkp)
    simp only [List.map_cons, List.sum_cons] at hs
    have hd' : ∀ r ∈ p.toRaw :: done, r.upper ≤ U ∧ 1 ≤ r.gcd := by
      intro r hr
      rcases List.mem_cons.mp hr with rfl | hr
      · exact ⟨h3, h4⟩
      · exact hd r hr
    have ih := buildLoop_gen E i U hU rest (c + p.count) (p.toRaw :: done) hl' hd' (by omega)
    have hrev : ((k, p) :: rest).reverse.map (·.2.toRaw) ++ done = rest.reverse.map (·.2.toRaw) ++ p.toRaw :: done := by
      simp
    rw [hrev]
    unfold buildLoop
    simp only [uadd_ok (show c + p.count < USZ by omega), ok_bind, List.map_cons, List.sum_cons]
    cases hf : E.foldGcd with
    | false =>
      simp only [hf, Bool.false_eq_true, if_false] at ih
      simp only [Bool.false_eq_true, if_false, pure_eq, ok_bind, ih]
      congr 2; omega
    | true =>
      simp only [hf, if_true] at ih
      have hpos := (GcdLit.foldLoop_eq U done hd).2
      simp only [if_true, idx_of_getElem? h1, idx_of_getElem? h2, idx_of_getElem? hU, ok_bind,
        GcdLit.foldPrefixGcdsLeft_eq p.lower p.upper p.gcd U (foldAcc U done) h3 hpos]
      have hc : foldGcdLeft p.lower p.upper p.gcd U (foldAcc U done) = foldAcc U (p.toRaw :: done) := rfl
      rw [hc, ih]
      congr 2; omega

theorem sum_seg_le (ws : List Nat) (j i : Nat) : (seg ws j i).sum ≤ ws.sum := by
  unfold seg
  have h1 : ((ws.drop j).take (i + 1 - j)).sum ≤ (ws.drop j).sum := by
    conv => rhs; rw [← List.take_append_drop (i + 1 - j) (ws.drop j)]
    rw [List.sum_append]; omega
  have h2 : (ws.drop j).sum ≤ ws.sum := by
    conv => rhs; rw [← List.take_append_drop j ws]
    rw [List.sum_append]; omega
  omega

/-- one merged prefix: no panic, and it is the model's `mergeGroup` of `raws[j..=i]` -/
theorem buildOne_eq {C : Type} (wps : List WP) (hok : WOK wps) (fold : Bool) (j i : Nat) (hji : j ≤ i)
    (hi : i < wps.length) :
    ∃ wp, buildOne (envOf (C := C) wps fold) wps (j, i) = .ok wp ∧
      wp.toRaw = mergeGroup fold (seg (wps.map WP.toRaw) j i) ∧
      wp.weight = psum (wps.map (·.weight)) (i + 1) - psum (wps.map (·.weight)) j ∧ wp.code = [] := by
  have hlen := hok.len
  obtain ⟨pi, hpi⟩ : ∃ pi, wps[i]? = some pi := ⟨wps[i], List.getElem?_eq_getElem hi⟩
  obtain ⟨pj, hpj⟩ : ∃ pj, wps[j]? = some pj := ⟨wps[j]'(by omega), List.getElem?_eq_getElem (by omega)⟩
  have hup : (envOf (C := C) wps fold).uppers[i]? = some pi.upper := by
    simp only [envOf, List.getElem?_map, hpi, Option.map_some]
  have hcum : ∀ k, k ≤ wps.length → (envOf (C := C) wps fold).cum[k]? = some (psum (wps.map (·.weight)) k) := by
    intro k hk
    simp only [envOf]
    exact cumOf_getElem? _ (by simpa using hk)
  have hl : ∀ kp ∈ (GcdLit.enumFrom j (seg wps j i)).reverse,
      (envOf (C := C) wps fold).lowers[kp.1]? = some kp.2.lower ∧
      (envOf (C := C) wps fold).uppers[kp.1]? = some kp.2.upper ∧ kp.2.upper ≤ pi.upper ∧ 1 ≤ kp.2.gcd := by
    intro kp hkp
    obtain ⟨t, ht1, ht2⟩ := mem_enumFrom (List.mem_reverse.mp hkp)
    rw [seg_getElem?] at ht2
    split at ht2
    · rw [← ht1] at ht2
      have hm := hok.mono (show kp.1 ≤ i by omega) ht2 hpi
      refine ⟨?_, ?_, hm.2, (hok.le _ (List.mem_of_getElem? ht2)).2⟩
      · simp only [envOf, List.getElem?_map, ht2, Option.map_some]
      · simp only [envOf, List.getElem?_map, ht2, Option.map_some]
    · cases ht2
  have hcnt : (((GcdLit.enumFrom j (seg wps j i)).reverse).map (·.2.count)).sum = ((seg wps j i).map (·.count)).sum := by
    have : ((GcdLit.enumFrom j (seg wps j i)).reverse).map (·.2.count)
        = (((GcdLit.enumFrom j (seg wps j i)).map (·.2)).map (·.count)).reverse := by
      simp [List.map_reverse, Function.comp_def]
    rw [this, List.sum_reverse, enumFrom_map_snd]
  have hcs : ((seg wps j i).map (·.count)).sum ≤ (wps.map (·.count)).sum := by
    rw [seg_map]; exact sum_seg_le _ _ _
  have hb := buildLoop_gen (envOf (C := C) wps fold) i pi.upper hup _ 0 [] hl (by simp)
    (by rw [hcnt]; have := hok.csum; omega)
  have hfn : (if (envOf (C := C) wps fold).foldGcd = true then foldAcc pi.upper [] else none) = none := by
    simp [foldAcc]
  rw [hfn] at hb
  have hraw : ((GcdLit.enumFrom j (seg wps j i)).reverse.reverse.map (·.2.toRaw)) ++ []
      = seg (wps.map WP.toRaw) j i := by
    rw [List.reverse_reverse, List.append_nil, ← seg_map]
    conv => rhs; rw [← enumFrom_map_snd (seg wps j i) j]
    rw [List.map_map]; rfl
  rw [hraw, hcnt] at hb
  unfold buildOne
  simp only [uadd_ok (show i + 1 < USZ by omega), ok_bind, enumFrom_seg, hb, idx_of_getElem? hpj,
    idx_of_getElem? hpi, idx_of_getElem? (hcum (i + 1) (by omega)), idx_of_getElem? (hcum j (by omega)),
    usub_ok (psum_mono _ (show j ≤ i + 1 by omega)), pure_eq]
  refine ⟨_, rfl, ?_, rfl, rfl⟩
  · -- the record is `mergeGroup`
    have hne := seg_ne_nil (l := wps.map WP.toRaw) hji (by simpa using hi)
    have hhead : (seg (wps.map WP.toRaw) j i).headD default = pj.toRaw := by
      rw [List.headD_eq_head?_getD, seg_head? hji, List.getElem?_map, hpj]; rfl
    have hlast : (seg (wps.map WP.toRaw) j i).getLastD default = pi.toRaw := by
      rw [List.getLastD_eq_getLast?, seg_getLast? hji (by simpa using hi), List.getElem?_map, hpi]; rfl
    have hcount : ((seg (wps.map WP.toRaw) j i).map (·.count)).sum = ((seg wps j i).map (·.count)).sum := by
      rw [← seg_map, List.map_map]; rfl
    simp only [WP.toRaw, mergeGroup, hhead, hlast, hcount, Nat.zero_add]
    cases fold <;> simp [envOf]

/-- `PathOK`: every pair of the path is a non-empty range of indices -/
theorem buildAll_eq {C : Type} (wps : List WP) (hok : WOK wps) (fold : Bool) :
    ∀ (path : List (Nat × Nat)), (∀ ji ∈ path, ji.1 ≤ ji.2 ∧ ji.2 < wps.length) →
    ∃ res, buildAll (envOf (C := C) wps fold) wps path = .ok res ∧
      res.map WP.toRaw = mergeAll fold (path.map fun ji => seg (wps.map WP.toRaw) ji.1 ji.2) ∧
      res.map (·.weight) = path.map (fun ji =>
        psum (wps.map (·.weight)) (ji.2 + 1) - psum (wps.map (·.weight)) ji.1) ∧
      ∀ p ∈ res, p.code = []
  | [], _ => ⟨[], rfl, rfl, rfl, by simp⟩
  | (j, i) :: rest, h => by
    obtain ⟨h1, h2⟩ := h (j, i) List.mem_cons_self
    obtain ⟨wp, hwp, hr, hw, hc⟩ := buildOne_eq (C := C) wps hok fold j i h1 h2
    obtain ⟨res, hres, hr', hw', hc'⟩ := buildAll_eq (C := C) wps hok fold rest
      (fun ji hji => h ji (List.mem_cons_of_mem _ hji))
    refine ⟨wp :: res, by simp only [buildAll, hwp, ok_bind, hres, pure_eq], ?_, ?_, ?_⟩
    · simp only [List.map_cons, mergeAll, hr]
      rw [hr']; rfl
    · simp only [List.map_cons, hw, hw']
    · intro p hp
      rcases List.mem_cons.mp hp with rfl | hp
      · exact hc
      · exact hc' p hp

/-! ## the whole function -/

theorem pchain_mem_le : ∀ (p : List (Nat × Nat)) (a b : Nat), PChain p a b → ∀ ji ∈ p, ji.1 ≤ ji.2
  | [], _, _, _ => by simp
  | (x, y) :: rest, a, b, h => by
    simp only [PChain] at h
    intro ji hji
    rcases List.mem_cons.mp hji with rfl | hji
    · exact h.2.1
    · exact pchain_mem_le rest _ b h.2.2 ji hji

/-- `optimize_prefixes` does not panic and answers the merged prefixes along a path that tiles `0..len` and
respects `start_j` -/
theorem optimizeLit_path {C : Type} (O : CostOracle C) (hfin : CostFinite O) (ub : Nat) (wps : List WP)
    (gcds : Bool) (hok : WOK wps) (hov : ∀ p ∈ (wps.map WP.toRaw).dropLast, p.upper + 1 < 2 ^ ub) :
    ∃ res path, optimizeLit O ub wps gcds = .ok res ∧ PChain path 0 wps.length ∧
      (∀ ji ∈ path, sjVal (repIdx wps) ji.2 ≤ ji.1) ∧
      res.map WP.toRaw = mergeAll (useGcdOptimize (wps.map WP.toRaw) gcds)
        (path.map fun ji => seg (wps.map WP.toRaw) ji.1 ji.2) ∧
      res.map (·.weight) = path.map (fun ji =>
        psum (wps.map (·.weight)) (ji.2 + 1) - psum (wps.map (·.weight)) ji.1) ∧
      ∀ p ∈ res, p.code = [] := by
  obtain ⟨st, hst, inv⟩ := dpRun_ok O hfin wps hok (useGcdOptimize (wps.map WP.toRaw) gcds) wps.length
    (Nat.le_refl _)
  obtain ⟨path, hpath, hch, hsj⟩ := inv.paths wps.length (Nat.le_refl _)
  have hlast : st.bestPaths.getLast? = some path := by
    rw [List.getLast?_eq_getElem?, inv.plen]; exact hpath
  have hb := pchain_le path 0 _ hch
  have hm := pchain_mem_le path 0 _ hch
  obtain ⟨res, hres, h1, h2, h3⟩ := buildAll_eq (C := C) wps hok (useGcdOptimize (wps.map WP.toRaw) gcds) path
    (fun ji hji => ⟨hm ji hji, (hb.2 ji hji).2⟩)
  refine ⟨res, path, ?_, hch, hsj, h1, h2, h3⟩
  unfold optimizeLit
  simp only [mkEnv_eq ub wps gcds hok.wsum hov, ok_bind, hst, hlast, hres]

/-- at most one prefix has a run-length jumpstart -/
def OneJump (wps : List WP) : Prop :=
  ∀ (a b : Nat) (pa pb : WP), wps[a]? = some pa → wps[b]? = some pb → pa.jump.isSome → pb.jump.isSome → a = b

/-- the `start_j` rule keeps the (only) prefix with a jumpstart alone -/
theorem soloJump_seg (wps : List WP) (h1 : OneJump wps) (j i : Nat) (hji : j ≤ i) (hi : i < wps.length)
    (hsj : sjVal (repIdx wps) i ≤ j) : soloJump (seg (wps.map WP.toRaw) j i) = true := by
  unfold soloJump
  -- the members of the group, by index
  have hmem : ∀ r ∈ seg (wps.map WP.toRaw) j i, ∃ k p, j ≤ k ∧ k ≤ i ∧ wps[k]? = some p ∧ r = p.toRaw := by
    intro r hr
    obtain ⟨k, hk1, hk2, hk⟩ := mem_seg.mp hr
    rw [List.getElem?_map] at hk
    cases hp : wps[k]? with
    | none => rw [hp] at hk; cases hk
    | some p =>
      rw [hp] at hk
      simp only [Option.map_some, Option.some.injEq] at hk
      exact ⟨k, p, hk1, hk2, hp, hk.symm⟩
  cases hrep : repIdx wps with
  | none =>
    have hnone := List.findIdx?_eq_none_iff.mp hrep
    rw [Bool.or_eq_true]; right
    rw [List.all_eq_true]
    intro r hr
    obtain ⟨k, p, _, _, hp, rfl⟩ := hmem r hr
    have := hnone p (List.mem_of_getElem? hp)
    simp only [WP.toRaw]
    cases hj : p.jump with
    | none => rfl
    | some _ => rw [hj] at this; cases this
  | some ind =>
    obtain ⟨hind, hp, _⟩ := List.findIdx?_eq_some_iff_getElem.mp hrep
    rw [hrep] at hsj
    by_cases hii : ind = i
    · subst hii
      have : j = ind := by
        simp only [sjVal, Nat.lt_irrefl, if_false, if_true] at hsj
        omega
      subst this
      rw [Bool.or_eq_true]; left
      have := seg_length (l := wps.map WP.toRaw) (j := j) (i := j) (by simpa using hi)
      simp [this]
    · rw [Bool.or_eq_true]; right
      rw [List.all_eq_true]
      intro r hr
      obtain ⟨k, p, hk1, hk2, hpk, rfl⟩ := hmem r hr
      have hne : k ≠ ind := by
        by_cases hlt : ind < i
        · simp only [sjVal, if_pos hlt] at hsj; omega
        · omega
      simp only [WP.toRaw]
      cases hj : p.jump with
      | none => rfl
      | some _ =>
        exfalso
        apply hne
        exact h1 k ind p wps[ind] hpk (List.getElem?_eq_getElem hind) (by rw [hj]; rfl) hp

/-- `optimizeLit_is_grouping`: for EVERY cost oracle (with finite candidate costs), `optimize_prefixes` does
not panic and answers `mergeAll fold groups` for a partition `groups` of the raw prefixes into consecutive
non-empty groups that respects the run-length rule; the weights add up to the same total; codes are empty -/
theorem optimizeLit_grouping {C : Type} (O : CostOracle C) (hfin : CostFinite O) (ub : Nat) (wps : List WP)
    (gcds : Bool) (hok : WOK wps) (hov : ∀ p ∈ (wps.map WP.toRaw).dropLast, p.upper + 1 < 2 ^ ub)
    (h1 : OneJump wps) :
    ∃ res groups, optimizeLit O ub wps gcds = .ok res ∧
      res.map WP.toRaw = mergeAll (useGcdOptimize (wps.map WP.toRaw) gcds) groups ∧
      groups.flatten = wps.map WP.toRaw ∧ (∀ g ∈ groups, g ≠ []) ∧ (∀ g ∈ groups, soloJump g = true) ∧
      (res.map (·.weight)).sum = (wps.map (·.weight)).sum ∧ (∀ p ∈ res, p.code = []) := by
  obtain ⟨res, path, hres, hch, hsj, hr, hw, hc⟩ := optimizeLit_path O hfin ub wps gcds hok hov
  have hb := pchain_le path 0 _ hch
  have hm := pchain_mem_le path 0 _ hch
  refine ⟨res, path.map fun ji => seg (wps.map WP.toRaw) ji.1 ji.2, hres, hr, ?_, ?_, ?_, ?_, hc⟩
  · rw [pchain_flatten (wps.map WP.toRaw) path 0 _ hch]
    simp only [List.drop_zero, Nat.sub_zero]
    rw [← List.length_map (f := WP.toRaw), List.take_length]
  · intro g hg
    obtain ⟨ji, hji, rfl⟩ := List.mem_map.mp hg
    exact seg_ne_nil (hm ji hji) (by simpa using (hb.2 ji hji).2)
  · intro g hg
    obtain ⟨ji, hji, rfl⟩ := List.mem_map.mp hg
    exact soloJump_seg wps h1 ji.1 ji.2 (hm ji hji) (hb.2 ji hji).2 (hsj ji hji)
  · rw [hw, pchain_sum _ path 0 _ hch, psum_zero, Nat.sub_zero]
    rw [← List.length_map (f := fun x : WP => x.weight), psum_length]

end TrainLit
end Qco
