/-
Layer TL, proofs — `optimize_prefixes`, part 1: segments `l[j..=i]`, prefix sums (`cum_weight`), paths.
-/
import Qco.Lemmas.TrainLit.Basic
namespace Qco
namespace TrainLit
open GcdLit (Out)

/-! ## segments `l[j..=i]` -/

/-- `l[j..=i]` -/
def seg {α : Type} (l : List α) (j i : Nat) : List α := (l.drop j).take (i + 1 - j)

theorem seg_map {α β : Type} (f : α → β) (l : List α) (j i : Nat) : (seg l j i).map f = seg (l.map f) j i := by
  simp [seg, List.map_take, List.map_drop]

theorem seg_length {α : Type} {l : List α} {j i : Nat} (hi : i < l.length) :
    (seg l j i).length = i + 1 - j := by
  simp only [seg, List.length_take, List.length_drop]; omega

theorem seg_getElem? {α : Type} (l : List α) (j i k : Nat) :
    (seg l j i)[k]? = if k < i + 1 - j then l[j + k]? else none := by
  simp only [seg, List.getElem?_take, List.getElem?_drop]

theorem seg_ne_nil {α : Type} {l : List α} {j i : Nat} (hji : j ≤ i) (hi : i < l.length) : seg l j i ≠ [] := by
  intro h
  have := seg_length (l := l) (j := j) hi
  rw [h] at this
  simp at this; omega

theorem mem_seg {α : Type} {l : List α} {j i : Nat} {x : α} :
    x ∈ seg l j i ↔ ∃ k, j ≤ k ∧ k ≤ i ∧ l[k]? = some x := by
  rw [List.mem_iff_getElem?]
  constructor
  · rintro ⟨k, hk⟩
    rw [seg_getElem?] at hk
    split at hk
    · exact ⟨j + k, by omega, by omega, hk⟩
    · cases hk
  · rintro ⟨k, h1, h2, hk⟩
    refine ⟨k - j, ?_⟩
    rw [seg_getElem?, if_pos (by omega)]
    have : j + (k - j) = k := by omega
    rw [this]; exact hk

theorem seg_head? {α : Type} {l : List α} {j i : Nat} (hji : j ≤ i) : (seg l j i).head? = l[j]? := by
  rw [List.head?_eq_getElem?, seg_getElem?, if_pos (by omega)]; rfl

theorem seg_getLast? {α : Type} {l : List α} {j i : Nat} (hji : j ≤ i) (hi : i < l.length) :
    (seg l j i).getLast? = l[i]? := by
  rw [List.getLast?_eq_getElem?, seg_length hi, seg_getElem?, if_pos (by omega)]
  have : j + (i + 1 - j - 1) = i := by omega
  rw [this]

theorem seg_append {α : Type} (l : List α) {a m b : Nat} (h1 : a ≤ m + 1) (h2 : m ≤ b) :
    seg l a m ++ seg l (m + 1) b = seg l a b := by
  unfold seg
  have hb : b + 1 - a = (m + 1 - a) + (b + 1 - (m + 1)) := by omega
  rw [hb, List.take_add, List.drop_drop]
  have : a + (m + 1 - a) = m + 1 := by omega
  rw [this]

theorem seg_full {α : Type} (l : List α) (hl : 0 < l.length) : seg l 0 (l.length - 1) = l := by
  unfold seg
  simp only [List.drop_zero, Nat.sub_zero]
  have : l.length - 1 + 1 = l.length := by omega
  rw [this, List.take_length]

/-! ## prefix sums -/

/-- sum of the first `k` -/
def psum (ws : List Nat) (k : Nat) : Nat := (ws.take k).sum

theorem psum_zero (ws : List Nat) : psum ws 0 = 0 := by simp [psum]

theorem psum_mono (ws : List Nat) {a b : Nat} (h : a ≤ b) : psum ws a ≤ psum ws b := by
  unfold psum
  have : b = a + (b - a) := by omega
  rw [this, List.take_add, List.sum_append]
  omega

theorem psum_le_sum (ws : List Nat) (k : Nat) : psum ws k ≤ ws.sum := by
  unfold psum
  conv => rhs; rw [← List.take_append_drop k ws]
  rw [List.sum_append]; omega

theorem psum_length (ws : List Nat) : psum ws ws.length = ws.sum := by simp [psum]

theorem psum_sub (ws : List Nat) {j i : Nat} (h : j ≤ i + 1) :
    psum ws (i + 1) - psum ws j = (seg ws j i).sum := by
  unfold psum seg
  have : i + 1 = j + (i + 1 - j) := by omega
  conv => lhs; rw [this, List.take_add, List.sum_append]
  omega

theorem psum_succ (ws : List Nat) {k : Nat} (hk : k < ws.length) : psum ws (k + 1) = psum ws k + ws[k] := by
  unfold psum
  rw [List.take_add_one, List.sum_append, List.getElem?_eq_getElem hk]
  simp

/-- `cum_weight`: `[0, w0, w0 + w1, ..]` -/
def cumOf (ws : List Nat) : List Nat := (List.range (ws.length + 1)).map (psum ws)

theorem cumOf_getElem? (ws : List Nat) {k : Nat} (hk : k ≤ ws.length) : (cumOf ws)[k]? = some (psum ws k) := by
  unfold cumOf
  rw [List.getElem?_map, List.getElem?_range (by omega)]
  rfl

/-- the first loop of `optimize_prefixes`, started after the first `done` prefixes -/
theorem cumLoop_eq : ∀ (rest done : List WP),
    ((done ++ rest).map (·.weight)).sum < USZ →
    cumLoop rest (psum ((done ++ rest).map (·.weight)) done.length)
        ((List.range (done.length + 1)).map (psum ((done ++ rest).map (·.weight))))
      = .ok (((done ++ rest).map (·.weight)).sum, cumOf ((done ++ rest).map (·.weight)))
  | [], done, _ => by
    simp only [cumLoop, List.append_nil, cumOf, List.length_map]
    rw [← psum_length (done.map (·.weight)), List.length_map]
  | wp :: rest, done, h => by
    have hassoc : done ++ wp :: rest = (done ++ [wp]) ++ rest := by simp
    have ih := cumLoop_eq rest (done ++ [wp]) (by rw [← hassoc]; exact h)
    rw [← hassoc] at ih
    generalize hws : (done ++ wp :: rest).map (·.weight) = ws at h ih ⊢
    have hlen : done.length < ws.length := by rw [← hws]; simp
    have hk : ws[done.length] = wp.weight := by
      subst hws
      simp
    have hs := psum_succ ws hlen
    have hle := psum_le_sum ws (done.length + 1)
    simp only [cumLoop]
    rw [uadd_ok (by rw [← hk, ← hs]; omega)]
    simp only [ok_bind]
    rw [← hk, ← hs]
    simp only [List.length_append, List.length_cons, List.length_nil] at ih
    rw [← ih]
    congr 1
    rw [List.range_succ (n := done.length + 1), List.map_append]
    rfl

theorem cumLoop_all (wps : List WP) (h : (wps.map (·.weight)).sum < USZ) :
    cumLoop wps 0 [0] = .ok ((wps.map (·.weight)).sum, cumOf (wps.map (·.weight))) := by
  have := cumLoop_eq wps [] (by simpa using h)
  simpa [psum_zero] using this

/-! ## paths: the pairs `(j, i)` of `best_paths` tile `[a, b)` -/

def PChain : List (Nat × Nat) → Nat → Nat → Prop
  | [], a, b => a = b
  | (j, i) :: rest, a, b => j = a ∧ j ≤ i ∧ PChain rest (i + 1) b

theorem pchain_snoc : ∀ (p : List (Nat × Nat)) (a j i : Nat), PChain p a j → j ≤ i →
    PChain (p ++ [(j, i)]) a (i + 1)
  | [], a, j, i, h, hji => by
    simp only [PChain] at h; subst h
    exact ⟨rfl, hji, rfl⟩
  | (x, y) :: rest, a, j, i, h, hji => by
    simp only [PChain, List.cons_append] at h ⊢
    exact ⟨h.1, h.2.1, pchain_snoc rest _ j i h.2.2 hji⟩

theorem pchain_le : ∀ (p : List (Nat × Nat)) (a b : Nat), PChain p a b → a ≤ b ∧ ∀ ji ∈ p, a ≤ ji.1 ∧ ji.2 < b
  | [], a, b, h => by simp only [PChain] at h; subst h; exact ⟨Nat.le_refl _, by simp⟩
  | (x, y) :: rest, a, b, h => by
    simp only [PChain] at h
    obtain ⟨h1, h2⟩ := pchain_le rest _ b h.2.2
    refine ⟨by omega, ?_⟩
    intro ji hji
    rcases List.mem_cons.mp hji with rfl | hji
    · simp only; omega
    · have := h2 ji hji; omega

/-- the groups of a path are a partition of the list -/
theorem pchain_flatten {α : Type} (l : List α) : ∀ (p : List (Nat × Nat)) (a b : Nat), PChain p a b →
    (p.map fun ji => seg l ji.1 ji.2).flatten = (l.drop a).take (b - a)
  | [], a, b, h => by simp only [PChain] at h; subst h; simp
  | (x, y) :: rest, a, b, h => by
    have hle := (pchain_le _ a b h).1
    simp only [PChain] at h
    obtain ⟨rfl, hxy, hr⟩ := h
    have hle2 := (pchain_le _ _ b hr).1
    simp only [List.map_cons, List.flatten_cons]
    rw [pchain_flatten l rest _ b hr]
    unfold seg
    have hb : b - x = (y + 1 - x) + (b - (y + 1)) := by omega
    rw [hb, List.take_add, List.drop_drop]
    have : x + (y + 1 - x) = y + 1 := by omega
    rw [this]

/-- the weights of a path's groups add up to `cum[b] - cum[a]` -/
theorem pchain_sum (ws : List Nat) : ∀ (p : List (Nat × Nat)) (a b : Nat), PChain p a b →
    (p.map fun ji => psum ws (ji.2 + 1) - psum ws ji.1).sum = psum ws b - psum ws a
  | [], a, b, h => by simp only [PChain] at h; subst h; simp
  | (x, y) :: rest, a, b, h => by
    simp only [PChain] at h
    obtain ⟨rfl, hxy, hr⟩ := h
    have hle2 := (pchain_le _ _ b hr).1
    simp only [List.map_cons, List.sum_cons]
    rw [pchain_sum ws rest _ b hr]
    have h1 := psum_mono ws (show x ≤ y + 1 by omega)
    have h2 := psum_mono ws hle2
    omega

end TrainLit
end Qco
