/-
Layer TL, proofs — `train_prefixes`: composition of the four stages, and the judge `Train.explains` accepts
the literal result.
-/
import Qco.Lemmas.TrainLit.Unopt
import Qco.Lemmas.TrainLit.Opt
import Qco.Lemmas.TrainLit.Huffman
namespace Qco
namespace TrainLit
open GcdLit (Out)
open Train

/-! ## more facts about the raw prefixes of a sorted chunk -/

theorem rawPrefixes_facts2 (sorted : List Nat) (hs : sorted.Pairwise (· ≤ ·)) (level : Nat) (gcds : Bool) :
    (∀ r ∈ rawPrefixes sorted level gcds, r.upper ∈ sorted ∧ r.gcd ∣ r.upper - r.lower) ∧
    ((rawPrefixes sorted level gcds).map (·.count)).sum = sorted.length := by
  obtain ⟨hfit, _, hflat⟩ := C10.rawSegs_tiles hs level gcds
  constructor
  · intro r hr
    rw [← C10.rawSegs_fst] at hr
    obtain ⟨x, hx, rfl⟩ := List.mem_map.mp hr
    have hf := hfit x hx
    refine ⟨?_, hf.gcd_dvd _ hf.upper_mem⟩
    rw [← hflat]
    exact List.mem_flatten.mpr ⟨x.2, List.mem_map.mpr ⟨x, hx, rfl⟩, hf.upper_mem⟩
  · have := C10.sum_counts _ hfit
    rw [C10.rawSegs_fst, hflat] at this
    exact this

theorem rawPrefixes_jump (sorted : List Nat) (level : Nat) (gcds : Bool) :
    ∀ r ∈ rawPrefixes sorted level gcds, r.jump.isSome → 4 * sorted.length ≤ 5 * r.count := by
  intro r hr hj
  unfold rawPrefixes at hr
  split at hr
  · cases hr
  · obtain ⟨be, _, rfl⟩ := List.mem_map.mp hr
    simp only [mkRaw] at hj ⊢
    by_cases hu : usesRunLen sorted.length (be.2 - be.1) = true
    · simp only [usesRunLen, Bool.and_eq_true, decide_eq_true_eq] at hu
      omega
    · rw [if_neg hu] at hj; cases hj

theorem sum_map_le {α : Type} (f g : α → Nat) : ∀ (l : List α), (∀ x ∈ l, f x ≤ g x) →
    (l.map f).sum ≤ (l.map g).sum
  | [], _ => by simp
  | x :: l, h => by
    simp only [List.map_cons, List.sum_cons]
    have := sum_map_le f g l (fun y hy => h y (List.mem_cons_of_mem _ hy))
    have := h x List.mem_cons_self
    omega

theorem mem_le_sum : ∀ (l : List Nat) (x : Nat), x ∈ l → x ≤ l.sum
  | [], _, h => by cases h
  | y :: l, x, h => by
    simp only [List.sum_cons]
    rcases List.mem_cons.mp h with rfl | h
    · omega
    · have := mem_le_sum l x h; omega

theorem two_le_sum (ws : List Nat) {a b : Nat} (hab : a < b) (hb : b < ws.length) :
    ws[a]'(by omega) + ws[b] ≤ ws.sum := by
  have h1 := psum_succ ws (show a < ws.length by omega)
  have h2 := psum_succ ws hb
  have h3 := psum_mono ws (show a + 1 ≤ b by omega)
  have h4 := psum_le_sum ws (b + 1)
  omega

/-- HYPOTHESIS about the float `expected_n_runs` of `choose_run_len_jumpstart`: it is at most `count` (in
reals it is `count · (1 − count/n) ≤ 0.2 · count`; only used to know that the weights are `usize`s whose sum
does not overflow) -/
def RunWeightOK (F : Floats) (n : Nat) : Prop := ∀ count, count ≤ n → (F.runLen count n).1 ≤ count

/-- what the literal quantile stage answers is fit for `optimize_prefixes` -/
theorem unopt_wok (F : Floats) (ub : Nat) (sorted : List Nat) (hs : sorted.Pairwise (· ≤ ·)) (level : Nat)
    (gcds : Bool) (hn : sorted.length ≤ 2 ^ 24) (hU : ∀ x ∈ sorted, x < 2 ^ ub)
    (hW : RunWeightOK F sorted.length) (wps : List WP)
    (hraw : wps.map WP.toRaw = rawPrefixes sorted level gcds)
    (hwt : ∀ p ∈ wps, (p.jump = none → p.weight = p.count) ∧
      (p.jump ≠ none → p.weight = (F.runLen p.count sorted.length).1)) :
    WOK wps ∧ (∀ p ∈ (wps.map WP.toRaw).dropLast, p.upper + 1 < 2 ^ ub) ∧ OneJump wps := by
  obtain ⟨hpw, hall⟩ := C18g.rawPrefixes_facts sorted hs level gcds
  obtain ⟨_, hsum⟩ := rawPrefixes_facts2 sorted hs level gcds
  have hjump := rawPrefixes_jump sorted level gcds
  have hlen := C10.rawPrefixes_length_le sorted level gcds
  have hmax := C10.chooseMax_le_n level sorted.length
  rw [← hraw] at hpw hall hsum hjump hlen
  have hcnt : (wps.map (·.count)).sum = sorted.length := by
    rw [← hsum, List.map_map]; rfl
  have hmemraw : ∀ p ∈ wps, p.toRaw ∈ wps.map WP.toRaw := fun p hp => List.mem_map_of_mem hp
  have hcle : ∀ p ∈ wps, p.count ≤ sorted.length := by
    intro p hp
    rw [← hcnt]
    exact mem_le_sum _ _ (List.mem_map_of_mem (f := (·.count)) hp)
  refine ⟨⟨hpw, ?_, ?_, ?_, ?_⟩, ?_, ?_⟩
  · intro p hp
    have := hall _ (hmemraw p hp)
    exact ⟨this.1, this.2.1⟩
  · have hle : (wps.map (·.weight)).sum ≤ (wps.map (·.count)).sum := by
      apply sum_map_le
      intro p hp
      obtain ⟨h1, h2⟩ := hwt p hp
      cases hj : p.jump with
      | none => rw [h1 hj]; exact Nat.le_refl _
      | some j =>
        rw [h2 (by rw [hj]; simp)]
        exact hW _ (hcle p hp)
    rw [USZ_eq]; omega
  · rw [USZ_eq]; omega
  · simp only [List.length_map] at hlen
    rw [USZ_eq]; omega
  · exact GcdLit.noOverflow_of_sep ub _ hpw (fun p hp => hU _ (hall p hp).2.2)
  · intro a b pa pb ha hb hja hjb
    apply Classical.byContradiction
    intro hne
    obtain ⟨hla, rfl⟩ := List.getElem?_eq_some_iff.mp ha
    obtain ⟨hlb, rfl⟩ := List.getElem?_eq_some_iff.mp hb
    have h1 := hjump _ (hmemraw _ (List.getElem_mem hla)) hja
    have h2 := hjump _ (hmemraw _ (List.getElem_mem hlb)) hjb
    simp only [WP.toRaw] at h1 h2
    have hne0 : 0 < sorted.length := by
      have := hcle _ (List.getElem_mem hla)
      rcases Nat.eq_zero_or_pos sorted.length with h0 | h0
      · rw [← hcnt] at h0
        have hz := hlen
        simp only [List.length_map] at hz
        -- no number, no prefix with a positive count: impossible since `a` is an index
        have : wps.length ≤ chooseMaxNPrefixes level sorted.length := hz
        rw [hcnt] at h0
        omega
      · exact h0
    have key : ∀ x y : Nat, x < y → (hx : x < wps.length) → (hy : y < wps.length) →
        wps[x].count + wps[y].count ≤ sorted.length := by
      intro x y hxy hx hy
      have := two_le_sum (wps.map (·.count)) hxy (by simpa using hy)
      simp only [List.getElem_map] at this
      rw [hcnt] at this
      exact this
    rcases Nat.lt_or_ge a b with hab | hab
    · have := key a b hab hla hlb; omega
    · have := key b a (by omega) hlb hla; omega

/-! ## a group of consecutive raw prefixes -/

/-- a run of raw prefixes: strictly apart and ascending, `lower ≤ upper`, divisor `≥ 1` dividing the width -/
structure GroupOK (g : List Raw) : Prop where
  sep : g.Pairwise (fun a b => a.upper < b.lower)
  le : ∀ r ∈ g, r.lower ≤ r.upper ∧ 1 ≤ r.gcd ∧ r.gcd ∣ r.upper - r.lower

theorem GroupOK.tail {x : Raw} {g : List Raw} (h : GroupOK (x :: g)) : GroupOK g :=
  ⟨(List.pairwise_cons.mp h.sep).2, fun r hr => h.le r (List.mem_cons_of_mem _ hr)⟩

theorem group_upper_le : ∀ (g : List Raw) (last : Raw), GroupOK g → g.getLast? = some last →
    ∀ r ∈ g, r.upper ≤ last.upper
  | [], _, _, h => by cases h
  | [x], last, _, h => by
    simp only [List.getLast?_singleton, Option.some.injEq] at h
    subst h
    intro r hr
    rw [List.mem_singleton.mp hr]; exact Nat.le_refl _
  | x :: y :: rest, last, hok, h => by
    rw [List.getLast?_cons_cons] at h
    have ih := group_upper_le (y :: rest) last hok.tail h
    intro r hr
    rcases List.mem_cons.mp hr with rfl | hr
    · have h1 := (List.pairwise_cons.mp hok.sep).1 y List.mem_cons_self
      have h2 := (hok.le y (List.mem_cons_of_mem _ List.mem_cons_self)).1
      have h3 := ih y List.mem_cons_self
      omega
    · exact ih r hr

theorem group_strict : ∀ (g : List Raw) (last : Raw), GroupOK g → g.getLast? = some last →
    ∀ (x : Raw) (g' : List Raw), g = x :: g' → g' ≠ [] → x.upper < last.upper := by
  intro g last hok h x g' hg hne
  subst hg
  cases g' with
  | nil => exact absurd rfl hne
  | cons y rest =>
    rw [List.getLast?_cons_cons] at h
    have h1 := (List.pairwise_cons.mp hok.sep).1 y List.mem_cons_self
    have h2 := (hok.le y (List.mem_cons_of_mem _ List.mem_cons_self)).1
    have h3 := group_upper_le (y :: rest) last hok.tail h y List.mem_cons_self
    omega

theorem getLastD_of_getLast? {g : List Raw} {last : Raw} (h : g.getLast? = some last) :
    g.getLastD default = last := by
  rw [List.getLastD_eq_getLast?, h]; rfl

theorem exists_getLast {g : List Raw} (hne : g ≠ []) : ∃ last, g.getLast? = some last :=
  ⟨g.getLast hne, List.getLast?_eq_some_getLast hne⟩

/-- an accumulated divisor divides a positive number `≤ U` -/
theorem foldAcc_dvd (U : Nat) : ∀ (g : List Raw),
    (∀ r ∈ g, r.upper ≤ U ∧ r.lower ≤ r.upper ∧ r.gcd ∣ r.upper - r.lower) →
    ∀ d, foldAcc U g = some d → ∃ x, 0 < x ∧ x ≤ U ∧ d ∣ x
  | [], _, d, h => by cases h
  | r :: rs, hg, d, h => by
    obtain ⟨hu, hl, hdv⟩ := hg r List.mem_cons_self
    have ih := foldAcc_dvd U rs (fun x hx => hg x (List.mem_cons_of_mem _ hx))
    have hc : foldAcc U (r :: rs) = foldGcdLeft r.lower r.upper r.gcd U (foldAcc U rs) := rfl
    rw [hc] at h
    unfold foldGcdLeft at h
    by_cases h2 : r.upper = r.lower
    · simp only [ne_eq, h2, not_true_eq_false, if_false] at h
      by_cases h1 : r.lower = U
      · simp only [h1, not_true_eq_false, if_false] at h
        exact ih d h
      · simp only [h1, not_false_eq_true, if_true, Option.some.injEq] at h
        refine ⟨U - r.lower, by omega, by omega, ?_⟩
        subst h
        cases foldAcc U rs with
        | none => exact Nat.dvd_refl _
        | some a => exact Nat.gcd_dvd_left _ _
    · have h2' : r.upper ≠ r.lower := h2
      simp only [ne_eq, h2, not_false_eq_true, if_true, Option.some.injEq] at h
      refine ⟨r.upper - r.lower, by omega, by omega, ?_⟩
      subst h
      split
      · exact Nat.dvd_trans (Nat.gcd_dvd_left _ _) hdv
      · exact hdv

/-- the merged prefix of a group: bounds in order, divisor between 1 and the upper bound -/
theorem mergeGroup_facts (fold : Bool) (g : List Raw) (hok : GroupOK g) (last : Raw)
    (hlast : g.getLast? = some last) :
    (mergeGroup fold g).lower ≤ (mergeGroup fold g).upper ∧ 1 ≤ (mergeGroup fold g).gcd ∧
      (mergeGroup fold g).gcd ≤ max 1 last.upper ∧ (mergeGroup fold g).upper = last.upper := by
  have hup := group_upper_le g last hok hlast
  have hl : g.getLastD default = last := getLastD_of_getLast? hlast
  have hfacc := GcdLit.foldLoop_eq last.upper g (fun r hr => ⟨hup r hr, (hok.le r hr).2.1⟩)
  have hdvd := foldAcc_dvd last.upper g (fun r hr => ⟨hup r hr, (hok.le r hr).1, (hok.le r hr).2.2⟩)
  refine ⟨?_, ?_, ?_, ?_⟩
  · cases g with
    | nil => cases hlast
    | cons x rest =>
      simp only [mergeGroup, hl, List.headD_cons]
      have := hup x List.mem_cons_self
      have := (hok.le x List.mem_cons_self).1
      omega
  · simp only [mergeGroup, hl]
    cases fold with
    | false => simp
    | true =>
      simp only [if_true]
      cases hf : foldAcc last.upper g with
      | none => simp
      | some d => have := hfacc.2 d hf; simpa using this
  · simp only [mergeGroup, hl]
    cases fold with
    | false => simp; omega
    | true =>
      simp only [if_true]
      cases hf : foldAcc last.upper g with
      | none => simp; omega
      | some d =>
        obtain ⟨x, hx0, hxU, hdx⟩ := hdvd d hf
        have := Nat.le_of_dvd hx0 hdx
        simp only [Option.getD_some]
        omega
  · simp only [mergeGroup, hl]

/-! ## the judge's walk succeeds on the literal result -/

theorem takeGroup_append : ∀ (g rest : List Raw) (last : Raw), GroupOK g → g.getLast? = some last →
    takeGroup last.upper (g ++ rest) = some (g, rest)
  | [], _, _, _, h => by cases h
  | [x], rest, last, _, h => by
    simp only [List.getLast?_singleton, Option.some.injEq] at h
    subst h
    simp [takeGroup]
  | x :: y :: g', rest, last, hok, h => by
    have hlt := group_strict _ last hok h x (y :: g') rfl (by simp)
    rw [List.getLast?_cons_cons] at h
    have ih := takeGroup_append (y :: g') rest last hok.tail h
    have hne : ¬ x.upper = last.upper := by omega
    simp only [List.cons_append] at ih ⊢
    rw [takeGroup, if_neg hne, ih]

/-- the observed prefixes, one per group, each passing the judge's per-group check -/
def Rel (fold hasCommon : Bool) (gb : Nat → Nat) : List Prefix → List (List Raw) → Prop
  | [], [] => True
  | p :: ps, g :: gs => (g ≠ [] ∧ checkGroup fold hasCommon gb p g = none) ∧ Rel fold hasCommon gb ps gs
  | _, _ => False

theorem checkGroup_upper {fold hasCommon : Bool} {gb : Nat → Nat} {p : Prefix} {g : List Raw}
    (h : checkGroup fold hasCommon gb p g = none) : p.upper = (mergeGroup fold g).upper := by
  unfold checkGroup at h
  simp only at h
  obtain ⟨_, h⟩ := C10.ite_some_eq_none h
  obtain ⟨h2, _⟩ := C10.ite_some_eq_none h
  omega

theorem walk_complete (fold hasCommon : Bool) (gb : Nat → Nat) : ∀ (gs : List (List Raw)) (ps : List Prefix),
    Rel fold hasCommon gb ps gs → (∀ g ∈ gs, GroupOK g) →
    walkErr fold hasCommon gb gs.flatten ps = none
  | [], [], _, _ => by simp [walkErr]
  | [], _ :: _, h, _ => by cases h
  | _ :: _, [], h, _ => by cases h
  | g :: gs, p :: ps, h, hok => by
    obtain ⟨⟨hne, hchk⟩, hrel⟩ := h
    obtain ⟨last, hlast⟩ := exists_getLast hne
    have hg := hok g List.mem_cons_self
    have hup : p.upper = last.upper := by
      rw [checkGroup_upper hchk]
      exact (mergeGroup_facts fold g hg last hlast).2.2.2
    have ht := takeGroup_append g gs.flatten last hg hlast
    rw [← hup] at ht
    have ih := walk_complete fold hasCommon gb gs ps hrel (fun g' hg' => hok g' (List.mem_cons_of_mem _ hg'))
    simp only [List.flatten_cons]
    unfold walkErr
    simp only [ht, hchk, ih]

/-! ## the post-pass of `train_prefixes` -/

/-- what the post-pass does to one prefix (`doPost` = the `if` around the loop was taken) -/
def postOne (gb : Nat → Nat) (doPost : Bool) (p : Prefix) : Prefix :=
  if doPost && !gcdFits gb p p.gcd then { p with gcd := 1 } else p

theorem postOne_fields (gb : Nat → Nat) (doPost : Bool) (p : Prefix) :
    (postOne gb doPost p).lower = p.lower ∧ (postOne gb doPost p).upper = p.upper ∧
    (postOne gb doPost p).count = p.count ∧ (postOne gb doPost p).jump = p.jump ∧
    (postOne gb doPost p).code = p.code := by
  unfold postOne; split <;> exact ⟨rfl, rfl, rfl, rfl, rfl⟩

theorem postOne_false (gb : Nat → Nat) (p : Prefix) : postOne gb false p = p := by simp [postOne]

theorem postPass_eq (ub : Nat) (gb : Nat → Nat) : ∀ (ps : List Prefix),
    (∀ p ∈ ps, p.lower ≤ p.upper ∧ 1 ≤ p.gcd ∧ p.gcd ≤ 2 ^ ub) →
    postPass ub gb ps = .ok (ps.map (postOne gb true))
  | [], _ => rfl
  | p :: rest, h => by
    obtain ⟨h1, h2, h3⟩ := h p List.mem_cons_self
    have hf := GcdLit.gcdFitsInPrefixMeta_eq ub gb p h1 h2 h3
    have hgp : gpOfPrefix p = GcdLit.GP.ofPrefix p := rfl
    simp only [postPass, hgp, hf, ok_bind, postPass_eq ub gb rest (fun q hq => h q (List.mem_cons_of_mem _ hq)),
      pure_eq, List.map_cons, postOne, Bool.true_and]

/-- whether there is a common GCD field only depends on the bounds -/
theorem common_isSome_eq (l : List GcdLit.GP) :
    (GcdLit.commonGcdForChunkMeta l).isSome =
      (!l.isEmpty && decide ((l.filter fun p => p.lower != p.upper).length ≤ 1)) := by
  rw [GcdLit.commonGcdForChunkMeta_spec]
  cases l with
  | nil => rfl
  | cons q qs =>
    generalize List.filter (fun p : GcdLit.GP => p.lower != p.upper) (q :: qs) = nt
    match nt with
    | [] => rfl
    | [_] => rfl
    | _ :: _ :: _ => simp

theorem hasCommon_postOne (gb : Nat → Nat) (gcds doPost : Bool) (ps : List Prefix) :
    hasCommonLit gcds (ps.map (postOne gb doPost)) = hasCommonLit gcds ps := by
  unfold hasCommonLit
  rw [common_isSome_eq, common_isSome_eq]
  congr 2
  · cases ps <;> rfl
  · congr 1
    rw [List.map_map, List.filter_map, List.filter_map, List.length_map, List.length_map]
    have : List.filter ((fun p : GcdLit.GP => p.lower != p.upper) ∘ gpOfPrefix ∘ postOne gb doPost) ps
        = List.filter ((fun p : GcdLit.GP => p.lower != p.upper) ∘ gpOfPrefix) ps := by
      apply List.filter_congr
      intro p _
      obtain ⟨h1, h2, _⟩ := postOne_fields gb doPost p
      simp only [Function.comp, gpOfPrefix, h1, h2]
    rw [this]

/-! ## the judge's per-group check -/

theorem gcdFits_bounds (gb : Nat → Nat) (p q : Prefix) (g : Nat) (h1 : q.lower = p.lower) (h2 : q.upper = p.upper) :
    gcdFits gb q g = gcdFits gb p g := by
  unfold gcdFits; rw [h1, h2]

theorem checkGroup_ok (fold hasCommon doPost : Bool) (gb : Nat → Nat) (p : Prefix) (g : List Raw)
    (hp : Raw.ofPrefix p = mergeGroup fold g) (hsolo : soloJump g = true) (hpos : 1 ≤ (mergeGroup fold g).gcd)
    (hcase : (doPost = true ∧ hasCommon = false) ∨ (doPost = false ∧ hasCommon = true) ∨
      (doPost = false ∧ hasCommon = false ∧ (mergeGroup fold g).gcd = 1)) :
    checkGroup fold hasCommon gb (postOne gb doPost p) g = none := by
  obtain ⟨f1, f2, f3, f4, _⟩ := postOne_fields gb doPost p
  have e1 : p.lower = (mergeGroup fold g).lower := congrArg Raw.lower hp
  have e2 : p.upper = (mergeGroup fold g).upper := congrArg Raw.upper hp
  have e3 : p.count = (mergeGroup fold g).count := congrArg Raw.count hp
  have e4 : p.jump = (mergeGroup fold g).jump := congrArg Raw.jump hp
  have e5 : p.gcd = (mergeGroup fold g).gcd := congrArg Raw.gcd hp
  have hfit : ∀ x, gcdFits gb (postOne gb doPost p) x = gcdFits gb p x :=
    fun x => gcdFits_bounds gb p _ x f1 f2
  -- the recorded divisor is what the judge expects
  have hgcd : (postOne gb doPost p).gcd = postGcd hasCommon gb (postOne gb doPost p) (mergeGroup fold g).gcd ∧
      (postOne gb doPost p).gcd ≠ 0 := by
    unfold postGcd
    rw [hfit, ← e5]
    rcases hcase with ⟨rfl, rfl⟩ | ⟨rfl, rfl⟩ | ⟨rfl, rfl, h1⟩
    · unfold postOne
      simp only [Bool.true_and, Bool.not_false]
      split <;> simp <;> omega
    · simp only [postOne_false, Bool.not_true, Bool.false_and, Bool.false_eq_true, if_false]
      exact ⟨trivial, by omega⟩
    · simp only [postOne_false, Bool.not_false, Bool.true_and]
      rw [e5, h1]
      simp
  unfold checkGroup
  simp only [f1, f2, f3, f4, ← e1, ← e2, ← e3, ← e4, ne_eq, not_true_eq_false, if_false, hsolo, Bool.not_true,
    Bool.false_eq_true, if_neg hgcd.2]
  split
  · rfl
  · rw [if_neg (by rw [← hgcd.1]; simp)]

theorem rel_of_map (fold hasCommon doPost : Bool) (gb : Nat → Nat) : ∀ (gs : List (List Raw)) (ps : List Prefix),
    ps.map Raw.ofPrefix = gs.map (mergeGroup fold) →
    (∀ g ∈ gs, g ≠ [] ∧ soloJump g = true ∧ 1 ≤ (mergeGroup fold g).gcd ∧
      ((doPost = true ∧ hasCommon = false) ∨ (doPost = false ∧ hasCommon = true) ∨
        (doPost = false ∧ hasCommon = false ∧ (mergeGroup fold g).gcd = 1))) →
    Rel fold hasCommon gb (ps.map (postOne gb doPost)) gs
  | [], [], _, _ => trivial
  | [], _ :: _, h, _ => by simp at h
  | _ :: _, [], h, _ => by simp at h
  | g :: gs, p :: ps, h, hg => by
    simp only [List.map_cons, List.cons.injEq] at h
    obtain ⟨h1, h2, h3, h4⟩ := hg g List.mem_cons_self
    exact ⟨⟨h1, checkGroup_ok fold hasCommon doPost gb p g h.1 h2 h3 h4⟩,
      rel_of_map fold hasCommon doPost gb gs ps h.2 (fun g' hg' => hg g' (List.mem_cons_of_mem _ hg'))⟩

/-! ## the groups are in ascending order, so the table is already sorted by lower bound -/

theorem mergeGroup_lower (fold : Bool) (x : Raw) (g : List Raw) : (mergeGroup fold (x :: g)).lower = x.lower := rfl

theorem lowers_sorted (fold : Bool) (gs : List (List Raw)) (hne : ∀ g ∈ gs, g ≠ [])
    (hsep : gs.flatten.Pairwise (fun a b => a.upper < b.lower)) (hle : ∀ r ∈ gs.flatten, r.lower ≤ r.upper) :
    (gs.map fun g => (mergeGroup fold g).lower).Pairwise (· ≤ ·) := by
  rw [List.pairwise_map]
  refine (List.pairwise_flatten.mp hsep).2.imp_of_mem ?_
  intro g1 g2 h1 h2 h
  cases g1 with
  | nil => exact absurd rfl (hne _ h1)
  | cons x1 r1 =>
    cases g2 with
    | nil => exact absurd rfl (hne _ h2)
    | cons x2 r2 =>
      rw [mergeGroup_lower, mergeGroup_lower]
      have := h x1 List.mem_cons_self x2 List.mem_cons_self
      have := hle x1 (List.mem_flatten.mpr ⟨_, h1, List.mem_cons_self⟩)
      omega

/-! ## `train_prefixes` -/

/-- `sort_unstable` as modelled answers an ascending list -/
theorem mergeSort_sorted (l : List Nat) : (l.mergeSort fun a b => decide (a ≤ b)).Pairwise (· ≤ ·) := by
  refine (List.pairwise_mergeSort (le := fun a b : Nat => decide (a ≤ b)) ?_ ?_ l).imp ?_
  · intro a b c h1 h2
    simp only [decide_eq_true_eq] at h1 h2 ⊢; omega
  · intro a b
    simp only [Bool.or_eq_true, decide_eq_true_eq]; omega
  · intro a b h; simpa using h

/-- `trainLit_explained`: for EVERY cost oracle (finite candidate costs) and EVERY heap tie-breaking, on a
non-empty chunk with valid arguments, `train_prefixes` does not panic, answers `Ok(prefixes)`, and the judge
`Train.explains` (hence `C10.explains_sound`: the predicate `WFc`) accepts `prefixes` -/
theorem trainLit_explains {C : Type} (F : Floats) (O : CostOracle C) (pick : Nat → List HItem → Nat)
    (ub : Nat) (gb : Nat → Nat) (unsigneds : List Nat) (level : Nat) (gcds : Bool) (n : Nat)
    (hne : unsigneds ≠ []) (hl : level ≤ 12) (hn : n ≤ MAX_ENTRIES) (hlen : unsigneds.length ≤ n)
    (hU : ∀ x ∈ unsigneds, x < 2 ^ ub) (hF : FloatsAgree F unsigneds.length)
    (hW : RunWeightOK F unsigneds.length) (hfin : CostFinite O) (hp : PickOK pick) :
    ∃ ps, trainLit F O pick ub gb unsigneds level gcds n = .ok (some ps) ∧
      explains (unsigneds.mergeSort fun a b => decide (a ≤ b)) level gcds (hasCommonLit gcds ps) gb ps = true := by
  -- the sorted numbers
  generalize hsd : (unsigneds.mergeSort fun a b => decide (a ≤ b)) = sorted
  have hperm : sorted.Perm unsigneds := by rw [← hsd]; exact List.mergeSort_perm _ _
  have hslen : sorted.length = unsigneds.length := hperm.length_eq
  have hs : sorted.Pairwise (· ≤ ·) := by
    rw [← hsd]
    refine (List.pairwise_mergeSort (le := fun a b : Nat => decide (a ≤ b)) ?_ ?_ unsigneds).imp ?_
    · intro a b c h1 h2
      simp only [decide_eq_true_eq] at h1 h2 ⊢; omega
    · intro a b
      simp only [Bool.or_eq_true, decide_eq_true_eq]; omega
    · intro a b h; simpa using h
  have hn1 : 1 ≤ sorted.length := by
    rw [hslen]
    cases unsigneds with
    | nil => exact absurd rfl hne
    | cons _ _ => simp
  have hn24 : sorted.length ≤ 2 ^ 24 := by
    rw [hslen]; unfold MAX_ENTRIES at hn; omega
  have hUs : ∀ x ∈ sorted, x < 2 ^ ub := fun x hx => hU x (hperm.mem_iff.mp hx)
  rw [← hslen] at hF hW
  -- stage 1: the quantile slices
  obtain ⟨wps, hwps, hraw, hwt⟩ := chooseUnoptimizedLit_eq F sorted hs level gcds hn1 hn24 (by omega) hF
  obtain ⟨hok, hov, hone⟩ := unopt_wok F ub sorted hs level gcds hn24 hUs hW wps hraw
    (fun p hp => (hwt p hp).2)
  -- stage 2: the dynamic programme
  obtain ⟨res, groups, hres, hmerge, hflat, hgne, hsolo, hwsum, hcode⟩ :=
    optimizeLit_grouping O hfin ub wps gcds hok hov hone
  rw [hraw] at hmerge hflat
  generalize hfold : useGcdOptimize (rawPrefixes sorted level gcds) gcds = fold at hmerge
  -- facts about the raw prefixes and the groups
  obtain ⟨hpw, hall⟩ := C18g.rawPrefixes_facts sorted hs level gcds
  obtain ⟨hall2, hcsum⟩ := rawPrefixes_facts2 sorted hs level gcds
  have hmemflat : ∀ g ∈ groups, ∀ r ∈ g, r ∈ rawPrefixes sorted level gcds := by
    intro g hg r hr
    rw [← hflat]; exact List.mem_flatten.mpr ⟨g, hg, hr⟩
  have hgok : ∀ g ∈ groups, GroupOK g := by
    intro g hg
    refine ⟨?_, ?_⟩
    · have := hpw
      rw [← hflat] at this
      exact (List.pairwise_flatten.mp this).1 g hg
    · intro r hr
      have hm := hmemflat g hg r hr
      exact ⟨(hall r hm).1, (hall r hm).2.1, (hall2 r hm).2⟩
  have hgfacts : ∀ g ∈ groups, (mergeGroup fold g).lower ≤ (mergeGroup fold g).upper ∧
      1 ≤ (mergeGroup fold g).gcd ∧ (mergeGroup fold g).gcd ≤ 2 ^ ub := by
    intro g hg
    obtain ⟨last, hlast⟩ := exists_getLast (hgne g hg)
    obtain ⟨h1, h2, h3, _⟩ := mergeGroup_facts fold g (hgok g hg) last hlast
    have hlm : last ∈ g := List.mem_of_getLast? hlast
    have hlu := hUs _ (hall2 last (hmemflat g hg last hlm)).1
    have : 1 ≤ 2 ^ ub := Nat.one_le_two_pow
    exact ⟨h1, h2, by omega⟩
  have hresne : res ≠ [] := by
    intro h
    rw [h] at hmerge
    have hg0 : groups = [] := by
      cases groups with
      | nil => rfl
      | cons _ _ => simp [mergeAll] at hmerge
    rw [hg0] at hflat
    have := hcsum
    rw [← hflat] at this
    simp at this; omega
  have hreslen : res.length = groups.length := by
    have := congrArg List.length hmerge
    simpa [mergeAll] using this
  have hglen : groups.length ≤ chooseMaxNPrefixes level sorted.length := by
    have h1 := C10.length_le_flatten groups hgne
    have h2 := C10.rawPrefixes_length_le sorted level gcds
    rw [hflat] at h1; omega
  have hmaxn := C10.chooseMax_le_n level sorted.length
  -- stage 3: the codes
  obtain ⟨coded, hcoded, herase, hhuff⟩ := makeHuffmanLit_is_huffRun pick hp res hresne
    (by rw [hwsum]; exact hok.wsum) (by rw [hreslen, USZ_eq]; omega)
  have hcraw : coded.map WP.toRaw = res.map WP.toRaw :=
    Huff.eraseCodes_map WP.toRaw (fun _ => rfl) herase
  have hclen : coded.length = res.length := by
    have := congrArg List.length hcraw; simpa using this
  have hcomplete := hhuff.complete
  -- the table before the post-pass
  generalize hpre : coded.map WP.toPrefix = prefixes
  have hpraw : prefixes.map Raw.ofPrefix = groups.map (mergeGroup fold) := by
    rw [← hpre, List.map_map]
    have : (Raw.ofPrefix ∘ WP.toPrefix) = WP.toRaw := rfl
    rw [this, hcraw, hmerge]; rfl
  have hpcodes : prefixes.map (·.code) = coded.map (·.code) := by
    rw [← hpre, List.map_map]; rfl
  have hpfacts : ∀ p ∈ prefixes, p.lower ≤ p.upper ∧ 1 ≤ p.gcd ∧ p.gcd ≤ 2 ^ ub := by
    intro p hp
    have hm : Raw.ofPrefix p ∈ groups.map (mergeGroup fold) := by
      rw [← hpraw]; exact List.mem_map_of_mem hp
    obtain ⟨g, hg, hgp⟩ := List.mem_map.mp hm
    have := hgfacts g hg
    rw [hgp] at this
    exact this
  -- the post-pass, in all three cases at once
  generalize hdo : (gcds && (GcdLit.commonGcdForChunkMeta (prefixes.map gpOfPrefix)).isNone) = doPost
  have hfinal : trainLit F O pick ub gb unsigneds level gcds n = .ok (some (prefixes.map (postOne gb doPost))) := by
    have he : unsigneds.isEmpty = false := by
      cases unsigneds with
      | nil => exact absurd rfl hne
      | cons _ _ => rfl
    unfold trainLit
    simp only [he, Bool.false_eq_true, if_false, if_neg (show ¬ 12 < level by omega),
      if_neg (show ¬ MAX_ENTRIES < n by omega), hsd, hwps, ok_bind, hres, hcoded, hpre, hdo]
    cases doPost with
    | true =>
      simp only [if_true, postPass_eq ub gb prefixes hpfacts, ok_bind, pure_eq]
    | false =>
      simp only [Bool.false_eq_true, if_false, pure_eq]
      congr 2
      rw [List.map_congr_left (fun p _ => postOne_false gb p)]; simp
  refine ⟨_, hfinal, ?_⟩
  -- the judge
  have hhc : hasCommonLit gcds (prefixes.map (postOne gb doPost)) = hasCommonLit gcds prefixes :=
    hasCommon_postOne gb gcds doPost prefixes
  rw [hhc]
  generalize hhas : hasCommonLit gcds prefixes = hasCommon
  have hcase : ∀ g ∈ groups, (doPost = true ∧ hasCommon = false) ∨ (doPost = false ∧ hasCommon = true) ∨
      (doPost = false ∧ hasCommon = false ∧ (mergeGroup fold g).gcd = 1) := by
    intro g _
    unfold hasCommonLit at hhas
    cases gcds with
    | false =>
      right; right
      simp only [Bool.false_and] at hdo hhas
      refine ⟨hdo.symm, hhas.symm, ?_⟩
      have : fold = false := by rw [← hfold]; rfl
      rw [this]; rfl
    | true =>
      simp only [Bool.true_and] at hdo hhas
      cases hc : GcdLit.commonGcdForChunkMeta (prefixes.map gpOfPrefix) with
      | none => rw [hc] at hdo hhas; left; exact ⟨hdo.symm, hhas.symm⟩
      | some _ => rw [hc] at hdo hhas; right; left; exact ⟨hdo.symm, hhas.symm⟩
  have hrel := rel_of_map fold hasCommon doPost gb groups prefixes hpraw
    (fun g hg => ⟨hgne g hg, hsolo g hg, (hgfacts g hg).2.1, hcase g hg⟩)
  have hwalk := walk_complete fold hasCommon gb groups _ hrel hgok
  rw [hflat] at hwalk
  -- the table is sorted by lower bound already
  have hsorted : sortByLower (prefixes.map (postOne gb doPost)) = prefixes.map (postOne gb doPost) := by
    unfold sortByLower
    apply List.mergeSort_of_pairwise
    have hlow : (prefixes.map (postOne gb doPost)).map (·.lower) = groups.map fun g => (mergeGroup fold g).lower := by
      have h1 : (prefixes.map (postOne gb doPost)).map (·.lower) = (prefixes.map Raw.ofPrefix).map (·.lower) := by
        rw [List.map_map, List.map_map]
        apply List.map_congr_left
        intro p _
        exact (postOne_fields gb doPost p).1
      rw [h1, hpraw, List.map_map]; rfl
    have := lowers_sorted fold groups hgne (by rw [hflat]; exact hpw)
      (by rw [hflat]; exact fun r hr => (hall r hr).1)
    rw [← hlow, List.pairwise_map] at this
    exact this.imp (fun h => by simpa using h)
  -- the codes
  have htree : treeB (prefixes.map (postOne gb doPost)) = true := by
    unfold treeB
    have : (prefixes.map (postOne gb doPost)).map (·.code) = coded.map (·.code) := by
      rw [← hpcodes, List.map_map]
      apply List.map_congr_left
      intro p _
      exact (postOne_fields gb doPost p).2.2.2.2
    rw [this, hcomplete]; simp
  have hplen : (prefixes.map (postOne gb doPost)).length = groups.length := by
    rw [List.length_map, ← hpre, List.length_map, hclen, hreslen]
  unfold explains explainsErr
  simp only [htree, Bool.not_true, Bool.false_eq_true, if_false, hplen,
    if_neg (show ¬ chooseMaxNPrefixes level sorted.length < groups.length by omega), hsorted, hfold, hwalk,
    Option.isNone_none]

end TrainLit
end Qco
