/-
Layer TL, proofs — `choose_max_n_prefixes`, `push_pref`, `choose_unoptimized_prefixes` literally
(`Qco/Train/Lit.lean`) are `Train.chooseMaxNPrefixes`, `Train.mkRaw`, `Train.rawPrefixes`
(`Qco/Train/Model.lean`, `Qco/Train/Cuts.lean`) and do not panic.
-/
import Qco.Lemmas.TrainLit.Basic
import Qco.Properties.C18g
namespace Qco
namespace TrainLit
open GcdLit (Out)
open Train

/-! ## `choose_max_n_prefixes` -/

theorem log2_lt_64 (n : Nat) (hn : n < USZ) : Nat.log2 n < 64 := by
  rcases Nat.eq_zero_or_pos n with rfl | hpos
  · decide
  · exact (Nat.log2_lt (by omega)).mpr hn

theorem chooseMaxNPrefixesLit_eq (F : Floats) (level n : Nat) (hF : F.log2Floor n = Nat.log2 n)
    (hn : n < USZ) (hl : level < 64) :
    chooseMaxNPrefixesLit F level n = .ok (chooseMaxNPrefixes level n) := by
  unfold chooseMaxNPrefixesLit chooseMaxNPrefixes
  have hlog := log2_lt_64 n hn
  rw [hF]
  have h1 : uadd (Nat.log2 n / 2) 5 = .ok (Nat.log2 n / 2 + 5) := uadd_ok (by rw [USZ_eq]; omega)
  have h2 : usub 12 (min 12 (Nat.log2 n / 2 + 5)) = .ok (12 - min 12 (Nat.log2 n / 2 + 5)) :=
    usub_ok (Nat.min_le_left _ _)
  simp only [h1, ok_bind, h2]
  rw [if_neg (by omega)]

/-! ## `push_pref` -/

/-- the weighted prefix `push_pref(buffer, b, e)` pushes -/
def mkWP (F : Floats) (sorted : List Nat) (gcds : Bool) (be : Nat × Nat) : WP :=
  let n := sorted.length
  let count := be.2 - be.1
  if decide (n < 1001) || F.freqLt count n || decide (count = n) then
    { count := count, weight := count, lower := sorted.getD be.1 0, upper := sorted.getD (be.2 - 1) 0,
      jump := none, gcd := (mkRaw sorted gcds be).gcd }
  else
    { count := count, weight := (F.runLen count n).1, lower := sorted.getD be.1 0,
      upper := sorted.getD (be.2 - 1) 0, jump := some (F.runLen count n).2, gcd := (mkRaw sorted gcds be).gcd }

theorem mkWP_code (F : Floats) (sorted : List Nat) (gcds : Bool) (be : Nat × Nat) :
    (mkWP F sorted gcds be).code = [] := by
  unfold mkWP; simp only; split <;> rfl

theorem mkWP_weight (F : Floats) (sorted : List Nat) (gcds : Bool) (be : Nat × Nat)
    (h : (mkWP F sorted gcds be).jump = none) :
    (mkWP F sorted gcds be).weight = (mkWP F sorted gcds be).count := by
  unfold mkWP at h ⊢
  simp only at h ⊢
  split
  · rfl
  · rename_i hc; rw [if_neg hc] at h; cases h

theorem mkWP_weight_some (F : Floats) (sorted : List Nat) (gcds : Bool) (be : Nat × Nat)
    (h : (mkWP F sorted gcds be).jump ≠ none) :
    (mkWP F sorted gcds be).weight = (F.runLen (mkWP F sorted gcds be).count sorted.length).1 := by
  unfold mkWP at h ⊢
  simp only at h ⊢
  split
  · rename_i hc; rw [if_pos hc] at h; exact absurd rfl h
  · rfl

theorem mkWP_toRaw (F : Floats) (sorted : List Nat) (gcds : Bool) (be : Nat × Nat)
    (hF : FloatsAgree F sorted.length) (h2 : be.2 ≤ sorted.length) :
    (mkWP F sorted gcds be).toRaw = mkRaw sorted gcds be := by
  have hc : be.2 - be.1 ≤ sorted.length := by omega
  unfold mkWP
  simp only [hF.freq _ hc]
  by_cases hcond : (decide (sorted.length < 1001) || decide (5 * (be.2 - be.1) < 4 * sorted.length)
      || decide (be.2 - be.1 = sorted.length)) = true
  · rw [if_pos hcond]
    have hu : usesRunLen sorted.length (be.2 - be.1) = false := by
      simp only [Bool.or_eq_true, decide_eq_true_eq] at hcond
      simp only [usesRunLen, Bool.and_eq_false_iff, decide_eq_false_iff_not]
      omega
    simp only [WP.toRaw, mkRaw, hu, Bool.false_eq_true, if_false]
  · rw [if_neg hcond]
    simp only [Bool.or_eq_true, decide_eq_true_eq, not_or] at hcond
    have hu : usesRunLen sorted.length (be.2 - be.1) = true := by
      simp only [usesRunLen, Bool.and_eq_true, decide_eq_true_eq]
      omega
    have hj := hF.jump (be.2 - be.1) (by omega) (by omega) (by omega)
    simp only [WP.toRaw, mkRaw, hu, if_true, hj]

theorem pushPref_eq (F : Floats) (sorted : List Nat) (hs : sorted.Pairwise (· ≤ ·)) (maxN : Nat)
    (gcds : Bool) (buf : PBuf) (i j : Nat) (hij : i < j) (hj : j ≤ sorted.length)
    (h1 : buf.prefixIdx + 1 < USZ) (h2 : j * maxN < USZ) :
    pushPref F sorted maxN gcds buf i j =
      .ok { seq := buf.seq ++ [mkWP F sorted gcds (i, j)],
            prefixIdx := max (buf.prefixIdx + 1) (j * maxN / sorted.length) } := by
  have hno : ¬ (j < i ∨ sorted.length < j) := by omega
  have hg := C18g.pushPref_gcd sorted hs gcds i j hij hj
  unfold pushPref
  cases gcds with
  | false =>
    simp only [usub_ok (Nat.le_of_lt hij), uadd_ok h1, umul_ok h2, udiv_ok (show sorted.length ≠ 0 by omega),
      idx_getD (show i < sorted.length by omega), usub_ok (show 1 ≤ j by omega),
      idx_getD (show j - 1 < sorted.length by omega), ok_bind, Bool.false_eq_true, if_false]
    unfold mkWP
    simp only
    split <;> rfl
  | true =>
    simp only [if_true] at hg
    simp only [usub_ok (Nat.le_of_lt hij), uadd_ok h1, umul_ok h2, udiv_ok (show sorted.length ≠ 0 by omega),
      idx_getD (show i < sorted.length by omega), usub_ok (show 1 ≤ j by omega),
      idx_getD (show j - 1 < sorted.length by omega), ok_bind, if_true, if_neg hno, hg]
    unfold mkWP
    simp only

/-! ## `choose_unoptimized_prefixes` -/

/-- the literal loop state that corresponds to a state of the model's loop (`Qco/Train/Cuts.lean`) -/
def toCU (F : Floats) (sorted : List Nat) (gcds : Bool) (cs : CutSt) : CUSt :=
  { buf := { seq := cs.acc.map (mkWP F sorted gcds), prefixIdx := cs.idx }, i := cs.i, backupJ := cs.backup }

/-- `target_j - backup_j` never underflows: the target is never behind the last value boundary -/
theorem tinv_step (v : Nat → Nat) (n maxN : Nat) (h1 : 1 ≤ maxN) (hn : 1 ≤ n) (st : CutSt) (j : Nat)
    (h : st.backup ≤ (st.idx + 1) * n / maxN) :
    (cutStep v n maxN st j).backup ≤ ((cutStep v n maxN st j).idx + 1) * n / maxN := by
  have hmono : ∀ a b : Nat, a ≤ b → (a + 1) * n / maxN ≤ (b + 1) * n / maxN := by
    intro a b hab
    exact Nat.div_le_div_right (Nat.mul_le_mul_right n (by omega))
  have hq : ∀ e idx' : Nat, e * maxN / n ≤ idx' → e ≤ (idx' + 1) * n / maxN := by
    intro e idx' hle
    rw [Nat.le_div_iff_mul_le (by omega)]
    have h3 := Nat.lt_mul_div_succ (e * maxN) (show 0 < n by omega)
    have h4 : n * (e * maxN / n + 1) ≤ (idx' + 1) * n := by
      rw [Nat.mul_comm n]; exact Nat.mul_le_mul_right n (by omega)
    omega
  unfold cutStep
  simp only
  split
  · split
    · simp only [CutSt.push]
      exact Nat.le_trans h (hmono _ _ (by omega))
    · exact h
  · split
    · simp only [CutSt.push]
      exact hq j _ (Nat.le_max_right _ _)
    · simp only
      omega

theorem tinv_run (v : Nat → Nat) (n maxN : Nat) (h1 : 1 ≤ maxN) (h2 : maxN ≤ n) :
    ∀ j, (cutRun v n maxN j).backup ≤ ((cutRun v n maxN j).idx + 1) * n / maxN
  | 0 => by simp [cutRun]
  | j + 1 => tinv_step v n maxN h1 (by omega) _ j (tinv_run v n maxN h1 h2 j)

theorem mul_lt_USZ {a b : Nat} (ha : a ≤ 2 ^ 24) (hb : b ≤ 2 ^ 24) : a * b < USZ := by
  have := Nat.mul_le_mul ha hb
  rw [USZ_eq]; omega

/-- one iteration of `for j in 0..n_unsigneds`: no panic, and the model's step -/
theorem cuStep_eq (F : Floats) (sorted : List Nat) (hs : sorted.Pairwise (· ≤ ·)) (maxN : Nat) (gcds : Bool)
    (h1 : 1 ≤ maxN) (h2 : maxN ≤ sorted.length) (hn : sorted.length ≤ 2 ^ 24) (j : Nat)
    (hj : j < sorted.length) (st : CutSt) (ci : CutInv (fun i => sorted.getD i 0) j st)
    (cn : C10.CntInv maxN st) (ht : st.backup ≤ (st.idx + 1) * sorted.length / maxN) :
    cuStep F sorted maxN gcds (toCU F sorted gcds st) j =
      .ok (toCU F sorted gcds (cutStep (fun i => sorted.getD i 0) sorted.length maxN st j)) := by
  have hidx := cn.idx_lt
  have hbj : st.backup ≤ j := by
    rcases ci.backup_lt with h | h
    · have := (ci.i_zero h).2; omega
    · omega
  have hib := ci.i_le_backup
  have ha : uadd st.idx 1 = .ok (st.idx + 1) := uadd_ok (by rw [USZ_eq]; omega)
  have hb : umul (st.idx + 1) sorted.length = .ok ((st.idx + 1) * sorted.length) :=
    umul_ok (mul_lt_USZ (by omega) hn)
  have hc : udiv ((st.idx + 1) * sorted.length) maxN = .ok ((st.idx + 1) * sorted.length / maxN) :=
    udiv_ok (by omega)
  have hpush : ∀ e, st.i < e → e ≤ j →
      pushPref F sorted maxN gcds { seq := st.acc.map (mkWP F sorted gcds), prefixIdx := st.idx } st.i e =
        .ok { seq := (st.acc ++ [(st.i, e)]).map (mkWP F sorted gcds),
              prefixIdx := max (st.idx + 1) (e * maxN / sorted.length) } := by
    intro e hie hej
    rw [pushPref_eq F sorted hs maxN gcds _ st.i e hie (by omega) (by simp only; rw [USZ_eq]; omega)
      (mul_lt_USZ (by omega) (by omega))]
    simp only [List.map_append, List.map_cons, List.map_nil]
  have hcu : toCU F sorted gcds st =
      { buf := { seq := st.acc.map (mkWP F sorted gcds), prefixIdx := st.idx }, i := st.i, backupJ := st.backup } := rfl
  rw [hcu]
  unfold cuStep cutStep
  simp only [ha, ok_bind, hb, hc]
  have htp := target_pos st.idx sorted.length maxN h1 h2
  generalize (st.idx + 1) * sorted.length / maxN = target at ht htp ⊢
  have hij : j = 0 ∨ st.i < j := by
    rcases ci.backup_lt with h | h
    · exact Or.inl h
    · right; omega
  by_cases hrun : 0 < j ∧ sorted.getD j 0 = sorted.getD (j - 1) 0
  · have h0 := hrun.1
    have hbeq : (sorted.getD j 0 == sorted.getD (j - 1) 0) = true := beq_iff_eq.mpr hrun.2
    simp only [if_pos hrun, if_pos h0, idx_getD hj, usub_ok (show 1 ≤ j by omega),
      idx_getD (show j - 1 < sorted.length by omega), ok_bind, pure_eq, hbeq, if_true]
    by_cases htj : target ≤ j
    · simp only [if_pos htj, usub_ok htj, usub_ok ht, ok_bind]
      by_cases hcut : target - st.backup ≤ j - target ∧ st.i < st.backup
      · have h3 : target ≤ j ∧ target - st.backup ≤ j - target ∧ st.i < st.backup := ⟨htj, hcut⟩
        simp only [if_pos h3, decide_eq_true hcut.1, decide_eq_true hcut.2, Bool.and_self, if_true,
          hpush st.backup hcut.2 hbj, ok_bind, CutSt.push, toCU]
      · have h3 : ¬ (target ≤ j ∧ target - st.backup ≤ j - target ∧ st.i < st.backup) := fun h => hcut h.2
        have : (decide (target - st.backup ≤ j - target) && decide (st.i < st.backup)) = false := by
          simp only [Bool.and_eq_false_iff, decide_eq_false_iff_not]; omega
        simp only [if_neg h3, this, Bool.false_eq_true, if_false, toCU]
    · have h3 : ¬ (target ≤ j ∧ target - st.backup ≤ j - target ∧ st.i < st.backup) := fun h => htj h.1
      simp only [if_neg h3, if_neg htj, Bool.false_and, Bool.false_eq_true, if_false, toCU]
  · have hpos : target ≤ j → st.i < j := by
      intro htj
      rcases hij with h | h
      · omega
      · exact h
    by_cases h0 : 0 < j
    · have hne : ¬ sorted.getD j 0 = sorted.getD (j - 1) 0 := fun h => hrun ⟨h0, h⟩
      have hbeq : (sorted.getD j 0 == sorted.getD (j - 1) 0) = false := beq_eq_false_iff_ne.mpr hne
      simp only [if_neg hrun, if_pos h0, idx_getD hj, usub_ok (show 1 ≤ j by omega),
        idx_getD (show j - 1 < sorted.length by omega), ok_bind, pure_eq, hbeq, Bool.false_eq_true, if_false]
      by_cases htj : target ≤ j
      · simp only [if_pos htj, hpush j (hpos htj) (Nat.le_refl j), ok_bind, CutSt.push, toCU]
      · simp only [if_neg htj, toCU]
    · simp only [if_neg hrun, if_neg h0, ok_bind, pure_eq, Bool.false_eq_true, if_false]
      by_cases htj : target ≤ j
      · simp only [if_pos htj, hpush j (hpos htj) (Nat.le_refl j), ok_bind, CutSt.push, toCU]
      · simp only [if_neg htj, toCU]

/-- the whole `for j in 0..n_unsigneds` loop: no panic, and the model's loop -/
theorem cuRun_eq (F : Floats) (sorted : List Nat) (hs : sorted.Pairwise (· ≤ ·)) (maxN : Nat) (gcds : Bool)
    (h1 : 1 ≤ maxN) (h2 : maxN ≤ sorted.length) (hn : sorted.length ≤ 2 ^ 24) :
    ∀ j, j ≤ sorted.length → cuRun F sorted maxN gcds j =
      .ok (toCU F sorted gcds (cutRun (fun i => sorted.getD i 0) sorted.length maxN j))
  | 0, _ => rfl
  | j + 1, hj => by
    simp only [cuRun, cuRun_eq F sorted hs maxN gcds h1 h2 hn j (by omega), ok_bind]
    rw [cutRun]
    exact cuStep_eq F sorted hs maxN gcds h1 h2 hn j (by omega) _ (cutInv_run _ _ _ h1 h2 j)
      (C10.cntInv_run _ _ _ h1 h2 j (by omega)) (tinv_run _ _ _ h1 h2 j)

/-- `choose_unoptimized_prefixes` pushes one weighted prefix per slice of the model's `cuts`, without panic -/
theorem chooseUnoptimizedLit_cuts (F : Floats) (sorted : List Nat) (hs : sorted.Pairwise (· ≤ ·))
    (level : Nat) (gcds : Bool) (hn1 : 1 ≤ sorted.length) (hn : sorted.length ≤ 2 ^ 24)
    (hl : level < 64) (hF : F.log2Floor sorted.length = Nat.log2 sorted.length) :
    chooseUnoptimizedLit F sorted level gcds =
      .ok ((cuts (fun i => sorted.getD i 0) sorted.length (chooseMaxNPrefixes level sorted.length)).map
        (mkWP F sorted gcds)) := by
  have h1 := C10.chooseMax_pos level sorted.length hn1
  have h2 := C10.chooseMax_le_n level sorted.length
  unfold chooseUnoptimizedLit cuts
  simp only [chooseMaxNPrefixesLit_eq F level sorted.length hF (by rw [USZ_eq]; omega) hl, ok_bind,
    cuRun_eq F sorted hs _ gcds h1 h2 hn sorted.length (Nat.le_refl _)]
  generalize hM : chooseMaxNPrefixes level sorted.length = maxN at h1 h2
  have inv := cutInv_run (fun i => sorted.getD i 0) sorted.length maxN h1 h2 sorted.length
  have cn := C10.cntInv_run (fun i => sorted.getD i 0) sorted.length maxN h1 h2 sorted.length (Nat.le_refl _)
  have hidx := cn.idx_lt
  generalize cutRun (fun i => sorted.getD i 0) sorted.length maxN sorted.length = st at inv cn hidx
  have hi : st.i < sorted.length := by
    rcases inv.backup_lt with h | h
    · omega
    · have := inv.i_le_backup; omega
  have hp := pushPref_eq F sorted hs maxN gcds (toCU F sorted gcds st).buf st.i sorted.length hi (Nat.le_refl _)
    (by show st.idx + 1 < USZ; rw [USZ_eq]; omega) (mul_lt_USZ hn (by omega))
  have hcu : (toCU F sorted gcds st).i = st.i := rfl
  rw [hcu, hp]
  simp only [ok_bind, pure_eq, CutSt.push, toCU, List.map_append, List.map_cons, List.map_nil]

/-- `chooseUnoptimized_eq`: the literal `choose_unoptimized_prefixes` (+ `push_pref`, `choose_max_n_prefixes`)
does not panic and answers exactly the model's raw prefixes; codes are empty, and a prefix without jumpstart
has weight = count -/
theorem chooseUnoptimizedLit_eq (F : Floats) (sorted : List Nat) (hs : sorted.Pairwise (· ≤ ·))
    (level : Nat) (gcds : Bool) (hn1 : 1 ≤ sorted.length) (hn : sorted.length ≤ 2 ^ 24)
    (hl : level < 64) (hF : FloatsAgree F sorted.length) :
    ∃ wps, chooseUnoptimizedLit F sorted level gcds = .ok wps ∧
      wps.map WP.toRaw = rawPrefixes sorted level gcds ∧
      ∀ p ∈ wps, p.code = [] ∧ (p.jump = none → p.weight = p.count) ∧
        (p.jump ≠ none → p.weight = (F.runLen p.count sorted.length).1) := by
  refine ⟨_, chooseUnoptimizedLit_cuts F sorted hs level gcds hn1 hn hl hF.log2, ?_, ?_⟩
  · have hne : sorted.isEmpty = false := by
      cases sorted with
      | nil => simp at hn1
      | cons _ _ => rfl
    unfold rawPrefixes
    simp only [hne, Bool.false_eq_true, if_false, List.map_map]
    apply List.map_congr_left
    intro be hbe
    obtain ⟨hc, _⟩ := cuts_tile (fun i => sorted.getD i 0) sorted.length _
      (C10.chooseMax_pos level sorted.length hn1) (C10.chooseMax_le_n level sorted.length)
    have := (C10.chain_bounds _ 0 _ hc).2 be hbe
    exact mkWP_toRaw F sorted gcds be hF this.2.2
  · intro p hp
    obtain ⟨be, _, rfl⟩ := List.mem_map.mp hp
    exact ⟨mkWP_code F sorted gcds be, mkWP_weight F sorted gcds be, mkWP_weight_some F sorted gcds be⟩

end TrainLit
end Qco
