/-
The decidable prefix-freeness check implies `PrefixFree`; the table of a well-formed prefix list
is a well-formed table.
-/
import Qco.Spec.WF
namespace Qco
open Parser

theorem prefixFreeB_sound (codes : List Bits) (h : prefixFreeB codes = true) : PrefixFree codes := by
  induction codes with
  | nil => intro i j hi; simp at hi
  | cons c cs ih =>
    simp only [prefixFreeB, Bool.and_eq_true, List.all_eq_true, Bool.not_eq_true', isPre] at h
    obtain ⟨hall, hcs⟩ := h
    intro i j hi hj hpre
    cases i with
    | zero =>
      cases j with
      | zero => rfl
      | succ j =>
        simp only [List.getElem_cons_zero, List.getElem_cons_succ] at hpre
        simp only [List.length_cons, Nat.add_lt_add_iff_right] at hj
        have := (hall cs[j] (List.getElem_mem hj)).1
        rw [← List.isPrefixOf_iff_prefix] at hpre
        rw [hpre] at this; cases this
    | succ i =>
      cases j with
      | zero =>
        simp only [List.getElem_cons_zero, List.getElem_cons_succ] at hpre
        simp only [List.length_cons, Nat.add_lt_add_iff_right] at hi
        have := (hall cs[i] (List.getElem_mem hi)).2
        rw [← List.isPrefixOf_iff_prefix] at hpre
        rw [hpre] at this; cases this
      | succ j =>
        simp only [List.getElem_cons_succ] at hpre
        simp only [List.length_cons, Nat.add_lt_add_iff_right] at hi hj
        rw [ih hcs i j hi hj hpre]

theorem completeTree_prefixFree (codes : List Bits) (h : completeTree codes = true) : PrefixFree codes := by
  simp only [completeTree, Bool.and_eq_true] at h
  exact prefixFreeB_sound codes h.1

theorem tableOf_codes_length (ps : List Prefix) : (tableOf ps).codes.length = ps.length := by
  simp [tableOf]

theorem tableOf_info (ps : List Prefix) (p : Nat) (hp : p < ps.length) :
    (tableOf ps).info p = ps[p].info := by
  simp [tableOf, Table.info, List.getD_eq_getElem?_getD, hp]

theorem Prefix.info_WF (p : Prefix) (hj : ∀ j, p.jump = some j → j ≤ 24) : p.info.WF := by
  refine ⟨?_, ?_, ?_⟩
  · exact Nat.log2_self_le (Nat.succ_ne_zero _)
  · exact Nat.lt_log2_self
  · intro j h; exact hj j h

theorem tableOf_WF (ps : List Prefix) (hpf : PrefixFree (ps.map (·.code)))
    (hj : ∀ p ∈ ps, ∀ j, p.jump = some j → j ≤ 24) : (tableOf ps).WF := by
  refine ⟨hpf, ?_⟩
  intro p hp
  rw [tableOf_codes_length] at hp
  rw [tableOf_info ps p hp]
  exact Prefix.info_WF _ (hj _ (List.getElem_mem hp))

end Qco
