/-
`validate_prefix_tree` (`num_decompressor.rs` 14-49; literal model `Qco/Op/ValidateTree.lean`) is the
abstract predicate `completeTree` (`Qco/Spec/File.lean`: pairwise prefix-free and Kraft sum exactly one).

* `maxDepth_eq`               the first loop computes `maxLen codes`
* `bitsToUsizeTruncated_eq`   `bits_to_usize_truncated(c, L) = bitsNat c * 2^(L - |c|)` (`|c| ≤ L ≤ 64`), no panic
* `markFrom_tab`              one `skip(base).take(n)` marking pass over a table `[f 0, …, f (N-1)]`
* `inR_eq_below`              position `x` is in `[base_idx, base_idx + n_leafs)` iff `c` is a prefix of the
                              `L`-bit representation of `x` ("leaf `x` lies below node `c`")
* `markLoop_spec`             the marking loop succeeds iff no leaf lies below two codes, and then marks
                              exactly the leaves below some code; otherwise `Corruption`; no panic
* `leafDisj_iff`              no common leaf ⟺ neither code is a prefix of the other
* `cover_kraft`, `kraft_cover` a prefix-free code covers every string of length `L` ⟺ its Kraft sum is `2^L`
* `validatePrefixTree_eq`     **headline**: the check = `codes.isEmpty || completeTree codes`, no panic
                              (codes shorter than 64 bits)
* `validatePrefixTree_panic`  a code of 64 bits or more makes the check panic (`1_usize << max_depth`)

Limit (see the model's header): the allocation of `vec![false; 1 << max_depth]` is not modelled, so "no
panic" is about the arithmetic only; codes that come out of the metadata parser are shorter than 32 bits.
-/
import Qco.Op.ValidateTree
import Qco.Lemmas.Hostile
import Qco.Lemmas.Kraft
import Qco.Lemmas.WB.BitLemmas
namespace Qco.ValidateTree
open Qco Qco.WB

theorem maxDepthLoop_eq (codes : List Bits) (m : Nat) :
    maxDepthLoop codes m = codes.foldl (fun m c => max m c.length) m := by
  induction codes generalizing m with
  | nil => rfl
  | cons c cs ih => simp only [maxDepthLoop, List.foldl_cons, ih]

theorem maxDepth_eq (codes : List Bits) : maxDepth codes = maxLen codes :=
  maxDepthLoop_eq codes 0

theorem bitsLoop_eq (L : Nat) (hL : L ≤ 64) : ∀ (bs : List Bool) (i res : Nat), i + bs.length ≤ L →
    res % 2^(L - i) = 0 →
    bitsLoop (2^(L - 1)) bs i res = .ok (res + bitsNat bs * 2^(L - i - bs.length)) := by
  intro bs
  induction bs with
  | nil => intro i res _ _; simp [bitsLoop]
  | cons b bs ih =>
    intro i res hi hres
    simp only [List.length_cons] at hi
    have hshr : shr (2^(L - 1)) i = 2^(L - i - 1) := by
      unfold shr
      have : L - 1 = (L - i - 1) + i := by omega
      rw [this, Nat.pow_add, Nat.mul_div_cancel _ (Nat.two_pow_pos i)]
    have hres' : res % 2^(L - (i + 1)) = 0 := mod_pow_of_mod_pow_zero hres (by omega)
    have hlt : 2^(L - i - 1) < 2^(L - i) := by
      have e : 2^(L - i) = 2^(L - i - 1) * 2 := by rw [← Nat.pow_succ]; congr 1; omega
      have := Nat.two_pow_pos (L - i - 1); omega
    have e1 : L - (i + 1) - bs.length = L - i - (bs.length + 1) := by omega
    rw [bitsLoop, bitsNat_cons, List.length_cons]
    cases b with
    | false =>
      simp only [Bool.false_eq_true, if_false, Bool.toNat_false, Nat.zero_mul, Nat.zero_add]
      rw [ih (i + 1) res (by omega) hres', e1]
    | true =>
      simp only [if_true, Bool.toNat_true, Nat.one_mul]
      rw [if_neg (by omega), hshr, lor_eq_add hres hlt, ih (i + 1) _ (by omega) ?_, e1]
      · have e2 : 2^(L - i - 1) = 2^bs.length * 2^(L - i - (bs.length + 1)) := by
          rw [← Nat.pow_add]; congr 1; omega
        rw [Nat.add_mul, ← e2, Nat.add_assoc]
      · have e3 : L - (i + 1) = L - i - 1 := by omega
        rw [e3, Nat.add_mod, ← e3, hres', e3, Nat.mod_self]; simp

/-- the first leaf below `c` in a tree of depth `L` -/
def lo (L : Nat) (c : Bits) : Nat := bitsNat c * 2^(L - c.length)

theorem bitsToUsizeTruncated_eq (c : Bits) (L : Nat) (hc : c.length ≤ L) (hL : L ≤ 64) :
    bitsToUsizeTruncated c L = .ok (lo L c) := by
  unfold bitsToUsizeTruncated lo
  by_cases h0 : L < 1
  · have : c = [] := List.eq_nil_of_length_eq_zero (by omega)
    subst this; simp [h0]
  · rw [if_neg h0, if_neg (by omega)]
    simp only
    rw [bitsLoop_eq L hL c 0 0 (by omega) (Nat.zero_mod _)]
    simp

/-- the table `[f a, f (a+1), …, f (a+m-1)]` -/
def tab (a m : Nat) (f : Nat → Bool) : List Bool := (List.range' a m).map f

theorem tab_succ (a m : Nat) (f : Nat → Bool) : tab a (m + 1) f = f a :: tab (a + 1) m f := by
  simp [tab, List.range'_succ]

theorem tab_zero (a : Nat) (f : Nat → Bool) : tab a 0 f = [] := rfl

@[simp] theorem tab_length (a m : Nat) (f : Nat → Bool) : (tab a m f).length = m := by simp [tab]

theorem tab_append (a m n : Nat) (f : Nat → Bool) : tab a m f ++ tab (a + m) n f = tab a (m + n) f := by
  simp [tab, ← List.map_append, List.range'_append_1]

theorem tab_congr {a m : Nat} {f g : Nat → Bool} (h : ∀ x, a ≤ x → x < a + m → f x = g x) :
    tab a m f = tab a m g :=
  List.map_congr_left (fun x hx => by rw [List.mem_range'_1] at hx; exact h x hx.1 hx.2)

theorem tab_true {a m : Nat} {f : Nat → Bool} (h : ∀ x, a ≤ x → x < a + m → f x = true) :
    tab a m f = List.replicate m true := by
  rw [List.eq_replicate_iff]
  refine ⟨tab_length a m f, ?_⟩
  intro b hb
  simp only [tab, List.mem_map, List.mem_range'_1] at hb
  obtain ⟨x, hx, rfl⟩ := hb
  exact h x hx.1 hx.2

theorem markTake_tab : ∀ (n a m : Nat) (f : Nat → Bool), n ≤ m →
    markTake (tab a m f) n =
      if (List.range' a n).any f then .err "Corruption"
      else .ok (List.replicate n true ++ tab (a + n) (m - n) f) := by
  intro n
  induction n with
  | zero => intro a m f _; simp [markTake]
  | succ n ih =>
    intro a m f hm
    obtain ⟨m', rfl⟩ : ∃ m', m = m' + 1 := ⟨m - 1, by omega⟩
    rw [tab_succ, markTake, List.range'_succ, List.any_cons]
    cases hfa : f a with
    | true => simp
    | false =>
      simp only [Bool.false_eq_true, if_false, Bool.false_or]
      rw [ih (a + 1) m' f (by omega)]
      by_cases hany : (List.range' (a + 1) n).any f = true
      · simp only [hany, if_true]
      · simp only [hany, Bool.false_eq_true, if_false, List.replicate_succ, List.cons_append]
        have e1 : a + 1 + n = a + (n + 1) := by omega
        have e2 : m' + 1 - (n + 1) = m' - n := by omega
        rw [e1, e2]

/-- `x` is one of the `sz` positions from `lo` on -/
def inR (lo sz x : Nat) : Bool := decide (lo ≤ x) && decide (x < lo + sz)

theorem markFrom_tab (N lo sz : Nat) (f : Nat → Bool) (h : lo + sz ≤ N) :
    markFrom (tab 0 N f) lo sz =
      if (List.range' lo sz).any f then .err "Corruption"
      else .ok (tab 0 N (fun x => f x || inR lo sz x)) := by
  have hs : tab 0 N f = tab 0 lo f ++ tab lo (N - lo) f := by
    have := tab_append 0 lo (N - lo) f
    rw [Nat.zero_add] at this
    rw [this]; congr 1; omega
  unfold markFrom
  rw [hs, List.drop_left' (tab_length 0 lo f), List.take_left' (tab_length 0 lo f),
    markTake_tab sz lo (N - lo) f (by omega)]
  by_cases hany : (List.range' lo sz).any f = true
  · simp only [hany, if_true]
  · simp only [hany, Bool.false_eq_true, if_false]
    congr 1
    have e1 : tab 0 lo f = tab 0 lo (fun x => f x || inR lo sz x) :=
      tab_congr (fun x _ hx => by simp [inR]; omega)
    have e2 : List.replicate sz true = tab lo sz (fun x => f x || inR lo sz x) :=
      (tab_true (fun x h1 h2 => by simp [inR, h1, h2])).symm
    have e3 : tab (lo + sz) (N - lo - sz) f = tab (lo + sz) (N - lo - sz) (fun x => f x || inR lo sz x) :=
      tab_congr (fun x h1 _ => by simp [inR]; omega)
    rw [e1, e2, e3, tab_append]
    have := tab_append 0 lo (sz + (N - lo - sz)) (fun x => f x || inR lo sz x)
    rw [Nat.zero_add] at this
    rw [this]; congr 1; omega


theorem natBits_bitsNat (bs : Bits) : natBits bs.length (bitsNat bs) = bs := by
  generalize hn : bs.length = n
  induction n generalizing bs with
  | zero =>
    have : bs = [] := List.eq_nil_of_length_eq_zero hn
    subst this; rfl
  | succ n ih =>
    rcases List.eq_nil_or_concat bs with rfl | ⟨init, b, rfl⟩
    · simp at hn
    · rw [List.concat_eq_append] at hn ⊢
      have hl : init.length = n := by simpa using hn
      rw [natBits, bitsNat_snoc]
      have h1 : (2 * bitsNat init + b.toNat) / 2 = bitsNat init := by cases b <;> simp <;> omega
      have h2 : ((2 * bitsNat init + b.toNat) % 2 == 1) = b := by cases b <;> simp <;> omega
      rw [h1, h2, ih init hl]

/-- leaf `x` of the depth-`L` tree lies below the node `c`: `c` is a prefix of the `L`-bit
representation of `x` -/
def below (L : Nat) (c : Bits) (x : Nat) : Bool := isPre c (natBits L x)

theorem below_iff (L : Nat) (c : Bits) (x : Nat) : below L c x = true ↔ c <+: natBits L x := by
  unfold below isPre; exact List.isPrefixOf_iff_prefix

/-- `c` is a prefix of the `L` bits of `x` iff the top `|c|` bits of `x` are `c` -/
theorem prefix_natBits_iff {L : Nat} {c : Bits} {x : Nat} (hc : c.length ≤ L) (hx : x < 2^L) :
    c <+: natBits L x ↔ x / 2^(L - c.length) = bitsNat c := by
  have hlt : x / 2^(L - c.length) < 2^c.length := div_pow_lt hx (by omega)
  rw [List.prefix_iff_eq_take, natBits_take hc]
  constructor
  · intro h
    have := congrArg bitsNat h
    rw [bitsNat_natBits_of_lt hlt] at this
    exact this.symm
  · intro h
    rw [h, natBits_bitsNat]

theorem lo_add_le {L : Nat} {c : Bits} (hc : c.length ≤ L) : lo L c + 2^(L - c.length) ≤ 2^L := by
  have h1 : bitsNat c + 1 ≤ 2^c.length := Qco.bitsNat_lt c
  have h2 := Nat.mul_le_mul_right (2^(L - c.length)) h1
  rw [← Nat.pow_add, Nat.add_mul, Nat.one_mul] at h2
  have e : c.length + (L - c.length) = L := by omega
  rw [e] at h2
  exact h2

/-- the positions `bits_to_usize_truncated(c) .. + n_leafs` are the leaves below `c` -/
theorem inR_eq_below {L : Nat} {c : Bits} {x : Nat} (hc : c.length ≤ L) (hx : x < 2^L) :
    inR (lo L c) (2^(L - c.length)) x = below L c x := by
  rw [Bool.eq_iff_iff, below_iff, prefix_natBits_iff hc hx, Nat.div_eq_iff (Nat.two_pow_pos _)]
  unfold inR lo
  have := Nat.two_pow_pos (L - c.length)
  simp only [Bool.and_eq_true, decide_eq_true_eq]
  omega

/-! ### the marking loop -/

/-- leaf `x` lies below one of the codes -/
def cov (L : Nat) (cs : List Bits) (x : Nat) : Bool := cs.any (fun c => below L c x)

/-- no leaf lies below both -/
def LeafDisj (L : Nat) (a b : Bits) : Prop := ∀ x, x < 2^L → ¬ (below L a x = true ∧ below L b x = true)

/-- the marking loop over `cs` from the marks `f` meets no marked leaf -/
def Free (L : Nat) (cs : List Bits) (f : Nat → Bool) : Prop :=
  (∀ c ∈ cs, ∀ x, x < 2^L → below L c x = true → f x = false) ∧ cs.Pairwise (LeafDisj L)

theorem free_cons (L : Nat) (c : Bits) (cs : List Bits) (f : Nat → Bool) :
    Free L (c :: cs) f ↔
      (∀ x, x < 2^L → below L c x = true → f x = false) ∧ Free L cs (fun x => f x || below L c x) := by
  unfold Free LeafDisj
  rw [List.pairwise_cons]
  constructor
  · rintro ⟨h1, h2, h3⟩
    refine ⟨h1 c List.mem_cons_self, ?_, h3⟩
    intro c' hc' x hx hb
    rw [Bool.or_eq_false_iff]
    refine ⟨h1 c' (List.mem_cons_of_mem _ hc') x hx hb, ?_⟩
    cases hbc : below L c x
    · rfl
    · exact absurd ⟨hbc, hb⟩ (h2 c' hc' x hx)
  · rintro ⟨h1, h2, h3⟩
    refine ⟨?_, ?_, h3⟩
    · intro c' hc' x hx hb
      rcases List.mem_cons.1 hc' with rfl | hm
      · exact h1 x hx hb
      · exact ((Bool.or_eq_false_iff).1 (h2 c' hm x hx hb)).1
    · intro c' hc' x hx hb
      have := ((Bool.or_eq_false_iff).1 (h2 c' hc' x hx hb.2)).2
      rw [hb.1] at this; cases this

theorem any_range_iff {L : Nat} {c : Bits} (hc : c.length ≤ L) (f : Nat → Bool) :
    (List.range' (lo L c) (2^(L - c.length))).any f = true ↔
      ∃ x, x < 2^L ∧ below L c x = true ∧ f x = true := by
  have hle := lo_add_le hc
  rw [List.any_eq_true]
  constructor
  · rintro ⟨x, hx, hf⟩
    rw [List.mem_range'_1] at hx
    have hxL : x < 2^L := by omega
    refine ⟨x, hxL, ?_, hf⟩
    rw [← inR_eq_below hc hxL]
    simp [inR, hx.1, hx.2]
  · rintro ⟨x, hx, hb, hf⟩
    rw [← inR_eq_below hc hx] at hb
    simp only [inR, Bool.and_eq_true, decide_eq_true_eq] at hb
    exact ⟨x, List.mem_range'_1.2 hb, hf⟩

theorem markLoop_cons {L : Nat} (hL : L < 64) {c : Bits} (hc : c.length ≤ L) (cs : List Bits)
    (f : Nat → Bool) :
    markLoop L (c :: cs) (tab 0 (2^L) f) =
      if (List.range' (lo L c) (2^(L - c.length))).any f then .err "Corruption"
      else markLoop L cs (tab 0 (2^L) (fun x => f x || below L c x)) := by
  rw [markLoop, bitsToUsizeTruncated_eq c L hc (by omega)]
  simp only
  rw [if_neg (by omega), if_neg (by omega), markFrom_tab _ _ _ f (lo_add_le hc)]
  by_cases hany : (List.range' (lo L c) (2^(L - c.length))).any f = true
  · simp only [hany, if_true]
  · simp only [hany, Bool.false_eq_true, if_false]
    congr 1
    exact tab_congr (fun x _ hx => by rw [inR_eq_below hc (by omega)])

theorem markLoop_spec {L : Nat} (hL : L < 64) : ∀ (cs : List Bits) (f : Nat → Bool),
    (∀ c ∈ cs, c.length ≤ L) →
    (Free L cs f → markLoop L cs (tab 0 (2^L) f) = .ok (tab 0 (2^L) (fun x => f x || cov L cs x))) ∧
    (¬ Free L cs f → markLoop L cs (tab 0 (2^L) f) = .err "Corruption") := by
  intro cs
  induction cs with
  | nil =>
    intro f _
    refine ⟨fun _ => ?_, fun h => absurd ⟨by simp, List.Pairwise.nil⟩ h⟩
    simp [markLoop, cov]
  | cons c cs ih =>
    intro f hl
    have hc := hl c List.mem_cons_self
    obtain ⟨ih1, ih2⟩ := ih (fun x => f x || below L c x) (fun c' h => hl c' (List.mem_cons_of_mem _ h))
    rw [markLoop_cons hL hc, free_cons]
    by_cases hany : (List.range' (lo L c) (2^(L - c.length))).any f = true
    · rw [if_pos hany]
      obtain ⟨x, hx, hb, hf⟩ := (any_range_iff hc f).1 hany
      refine ⟨fun h => ?_, fun _ => rfl⟩
      have := h.1 x hx hb
      rw [hf] at this; cases this
    · rw [if_neg hany]
      have h1 : ∀ x, x < 2^L → below L c x = true → f x = false := by
        intro x hx hb
        cases hf : f x
        · rfl
        · exact absurd ((any_range_iff hc f).2 ⟨x, hx, hb, hf⟩) hany
      constructor
      · intro h
        rw [ih1 h.2]
        congr 1
        exact tab_congr (fun x _ _ => by simp [cov, List.any_cons, Bool.or_assoc])
      · intro h
        exact ih2 (fun h2 => h ⟨h1, h2⟩)

/-! ### the final scan -/

theorem scanLoop_eq (xs : List Bool) : scanLoop xs = if xs.all id then .ok () else .err "Corruption" := by
  induction xs with
  | nil => rfl
  | cons x xs ih => cases x <;> simp [scanLoop, ih]

theorem tab_all (a m : Nat) (f : Nat → Bool) :
    (tab a m f).all id = true ↔ ∀ x, a ≤ x → x < a + m → f x = true := by
  simp only [tab, List.all_eq_true, List.mem_map, List.mem_range'_1, id]
  constructor
  · intro h x h1 h2; exact h (f x) ⟨x, ⟨h1, h2⟩, rfl⟩
  · rintro h b ⟨x, ⟨h1, h2⟩, rfl⟩; exact h x h1 h2

/-! ### leaves and bit strings: disjoint ⟺ prefix-free, all covered ⟺ Kraft equality -/

/-- every node of depth at most `L` has a leaf below it (pad with zeros) -/
theorem exists_leaf {L : Nat} {b : Bits} (hb : b.length ≤ L) : ∃ x, x < 2^L ∧ b <+: natBits L x := by
  have hlen : (b ++ List.replicate (L - b.length) false).length = L := by simp; omega
  refine ⟨bitsNat (b ++ List.replicate (L - b.length) false), ?_, ?_⟩
  · have := Qco.bitsNat_lt (b ++ List.replicate (L - b.length) false)
    rw [hlen] at this; exact this
  · have := natBits_bitsNat (b ++ List.replicate (L - b.length) false)
    rw [hlen] at this
    rw [this]; exact List.prefix_append _ _

/-- every bit string of length `L` is the representation of a leaf -/
theorem eq_natBits {L : Nat} {s : Bits} (hs : s.length = L) : ∃ x, x < 2^L ∧ natBits L x = s := by
  refine ⟨bitsNat s, ?_, ?_⟩
  · have := Qco.bitsNat_lt s; rw [hs] at this; exact this
  · have := natBits_bitsNat s; rw [hs] at this; exact this

theorem leafDisj_iff {L : Nat} {a b : Bits} (ha : a.length ≤ L) (hb : b.length ≤ L) :
    LeafDisj L a b ↔ Incomparable a b := by
  unfold LeafDisj Incomparable
  constructor
  · intro h
    constructor
    · intro hab
      obtain ⟨x, hx, hbx⟩ := exists_leaf hb
      exact h x hx ⟨(below_iff L a x).2 (List.IsPrefix.trans hab hbx), (below_iff L b x).2 hbx⟩
    · intro hba
      obtain ⟨x, hx, hax⟩ := exists_leaf ha
      exact h x hx ⟨(below_iff L a x).2 hax, (below_iff L b x).2 (List.IsPrefix.trans hba hax)⟩
  · rintro ⟨h1, h2⟩ x _ ⟨hax, hbx⟩
    rcases prefix_total ((below_iff L a x).1 hax) ((below_iff L b x).1 hbx) with h | h
    · exact h1 h
    · exact h2 h

theorem pairwise_leafDisj_iff {L : Nat} {cs : List Bits} (hl : ∀ c ∈ cs, c.length ≤ L) :
    cs.Pairwise (LeafDisj L) ↔ cs.Pairwise Incomparable :=
  ⟨List.Pairwise.imp_of_mem (fun ha hb h => (leafDisj_iff (hl _ ha) (hl _ hb)).1 h),
   List.Pairwise.imp_of_mem (fun ha hb h => (leafDisj_iff (hl _ ha) (hl _ hb)).2 h)⟩

/-- every bit string of length `L` has a code as a prefix -/
def Cover (L : Nat) (codes : List Bits) : Prop := ∀ s : Bits, s.length = L → ∃ c ∈ codes, c <+: s

theorem allcov_iff_cover (L : Nat) (codes : List Bits) :
    (∀ x, x < 2^L → cov L codes x = true) ↔ Cover L codes := by
  unfold Cover cov
  constructor
  · intro h s hs
    obtain ⟨x, hx, rfl⟩ := eq_natBits hs
    obtain ⟨c, hc, hb⟩ := List.any_eq_true.1 (h x hx)
    exact ⟨c, hc, (below_iff L c x).1 hb⟩
  · intro h x _
    obtain ⟨c, hc, hp⟩ := h (natBits L x) (natBits_length L x)
    exact List.any_eq_true.2 ⟨c, hc, (below_iff L c x).2 hp⟩

/-- a prefix-free code that covers every string of length `L` has Kraft sum exactly one -/
theorem cover_kraft (L : Nat) : ∀ codes : List Bits, codes.Pairwise Incomparable →
    (∀ c ∈ codes, c.length ≤ L) → Cover L codes → kraftSum L codes = 2^L := by
  induction L with
  | zero =>
    intro codes hp _ hcov
    obtain ⟨c, hc, hpre⟩ := hcov [] rfl
    have : c = [] := List.prefix_nil.1 hpre
    subst this
    rw [pairwise_nil_mem_h codes hp hc]
    simp [kraftSum]
  | succ L ih =>
    intro codes hp hl hcov
    by_cases hn : [] ∈ codes
    · rw [pairwise_nil_mem_h codes hp hn]
      simp [kraftSum]
    · rw [kraftSum_split_h L codes hn]
      have hsub : ∀ b, kraftSum L (tailsOf b codes) = 2^L := by
        intro b
        refine ih (tailsOf b codes) (pairwise_tailsOf b codes hp) ?_ ?_
        · intro t ht
          have := hl _ ((mem_tailsOf b codes t).1 ht)
          simp only [List.length_cons] at this; omega
        · intro s hs
          obtain ⟨c, hc, hpre⟩ := hcov (b :: s) (by simp [hs])
          cases c with
          | nil => exact absurd hc hn
          | cons b' t =>
            rw [List.cons_prefix_cons] at hpre
            obtain ⟨rfl, hts⟩ := hpre
            exact ⟨t, (mem_tailsOf b' codes t).2 hc, hts⟩
      rw [hsub false, hsub true, Nat.pow_succ]; omega

/-- a prefix-free code with Kraft sum one covers every string of length `L` -/
theorem kraft_cover (L : Nat) (codes : List Bits) (hp : codes.Pairwise Incomparable)
    (hl : ∀ c ∈ codes, c.length ≤ L) (hk : kraftSum L codes = 2^L) : Cover L codes := by
  intro s hs
  obtain ⟨c, hc, h⟩ := kraft_complete L codes hp hl hk s
  rcases h with h | h
  · exact ⟨c, hc, h⟩
  · have hlen : c.length ≤ s.length := by rw [hs]; exact hl c hc
    have : s = c := List.IsPrefix.eq_of_length_le h hlen
    exact ⟨c, hc, by rw [this]; exact List.prefix_refl _⟩

/-! ### the headline -/

theorem tab_false (a m : Nat) : tab a m (fun _ => false) = List.replicate m false := by
  rw [List.eq_replicate_iff]
  refine ⟨tab_length a m _, ?_⟩
  intro b hb
  simp only [tab, List.mem_map] at hb
  obtain ⟨_, _, rfl⟩ := hb
  rfl

/-- `validate_prefix_tree` accepts exactly the complete prefix-free code tables (and the empty one), and
never panics when every code is shorter than 64 bits (the metadata parser reads the code length from a 4- or
5-bit field, so it is < 32) -/
theorem validatePrefixTree_eq (codes : List Bits) (hlen : ∀ c ∈ codes, c.length < 64) :
    validatePrefixTree codes =
      if codes.isEmpty || completeTree codes then .ok () else .err "Corruption" := by
  unfold validatePrefixTree
  by_cases he : codes.isEmpty = true
  · simp [he]
  · have hL : maxLen codes < 64 := by
      have := maxLen_le codes 63 (fun c hc => by have := hlen c hc; omega)
      omega
    have hl := le_maxLen codes
    rw [if_neg he, maxDepth_eq]
    simp only
    rw [if_neg (by omega), ← tab_false 0]
    obtain ⟨s1, s2⟩ := markLoop_spec hL codes (fun _ => false) hl
    have hfree : Free (maxLen codes) codes (fun _ => false) ↔ prefixFreeB codes = true := by
      rw [prefixFreeB_iff, ← pairwise_leafDisj_iff hl]
      unfold Free
      exact ⟨fun h => h.2, fun h => ⟨fun _ _ _ _ _ => rfl, h⟩⟩
    have he' : codes.isEmpty = false := by simpa using he
    simp only [he', Bool.false_or, completeTree]
    by_cases hpf : prefixFreeB codes = true
    · rw [s1 (hfree.2 hpf)]
      simp only [scanLoop_eq, Bool.false_or, hpf, Bool.true_and, beq_iff_eq]
      have hp := (prefixFreeB_iff codes).1 hpf
      have hall : (tab 0 (2^maxLen codes) (fun x => cov (maxLen codes) codes x)).all id = true ↔
          kraftSum (maxLen codes) codes = 2^maxLen codes := by
        rw [tab_all]
        constructor
        · intro h
          exact cover_kraft _ codes hp hl ((allcov_iff_cover _ codes).1 (fun x hx => h x (Nat.zero_le _) (by omega)))
        · intro hk x _ hx
          exact (allcov_iff_cover _ codes).2 (kraft_cover _ codes hp hl hk) x (by omega)
      by_cases hk : kraftSum (maxLen codes) codes = 2^maxLen codes
      · rw [if_pos (hall.2 hk), if_pos hk]
      · rw [if_neg (fun h => hk (hall.1 h)), if_neg hk]
    · rw [s2 (fun h => hpf (hfree.1 h))]
      simp [hpf]

/-- the check answers `Ok` iff the table is empty or a complete prefix-free code … -/
theorem validatePrefixTree_ok_iff (codes : List Bits) (hlen : ∀ c ∈ codes, c.length < 64) :
    validatePrefixTree codes = .ok () ↔ (codes.isEmpty || completeTree codes) = true := by
  rw [validatePrefixTree_eq codes hlen]
  cases codes.isEmpty || completeTree codes <;> simp

/-- … and otherwise it answers `Corruption`, exactly as the abstract decoders (`NumDec.newDec`,
`Op.newBody`, `decBody`) do with `!prefixes.isEmpty && !completeTree codes` -/
theorem validatePrefixTree_err_iff (codes : List Bits) (hlen : ∀ c ∈ codes, c.length < 64) :
    validatePrefixTree codes = .err "Corruption" ↔ (!codes.isEmpty && !completeTree codes) = true := by
  rw [validatePrefixTree_eq codes hlen]
  cases codes.isEmpty <;> cases completeTree codes <;> simp

/-! ### the overflow finding: codes of 64 bits or more

`Prefix { code: Vec<bool>, .. }` is a public struct, so such a table can be handed to the library by
a caller that builds its own `ChunkMetadata`; it cannot come out of the metadata parser (4- or 5-bit
length field). -/

/-- a code of 64 bits or more makes `1_usize << max_depth` overflow: the check panics -/
theorem validatePrefixTree_panic (codes : List Bits) (h : ∃ c ∈ codes, 64 ≤ c.length) :
    validatePrefixTree codes = .panic := by
  obtain ⟨c, hc, h64⟩ := h
  have hne : codes.isEmpty = false := by cases codes <;> simp_all
  have := le_maxLen codes c hc
  unfold validatePrefixTree
  rw [maxDepth_eq]
  simp only [hne, Bool.false_eq_true, if_false]
  rw [if_pos (by omega)]

/-- `bits_to_usize_truncated` itself panics from `max_depth = 65` on (`1_usize << (max_depth - 1)`) -/
theorem bitsToUsizeTruncated_panic (bits : Bits) (maxDepth : Nat) (h : 65 ≤ maxDepth) :
    bitsToUsizeTruncated bits maxDepth = .panic := by
  unfold bitsToUsizeTruncated
  rw [if_neg (by omega), if_pos (by omega)]

/-! ### sanity checks, mirroring `test_corrupt_prefixes_error_not_panic` (`chunk_body_decompressor.rs`)
and `test_bits_to_usize_truncated` (`bits.rs`) -/

example : validatePrefixTree [] = .ok () := by decide
example : validatePrefixTree [[false], [true, false], [true, true]] = .ok () := by decide
/-- "no prefixes for 11 found" -/
example : validatePrefixTree [[false], [true, false]] = .err "Corruption" := by decide
/-- "multiple prefixes for 0 found" -/
example : validatePrefixTree [[false], [false], [true]] = .err "Corruption" := by decide
/-- the single empty code is the complete tree of depth 0 -/
example : validatePrefixTree [[]] = .ok () := by decide
example : validatePrefixTree [[], [true]] = .err "Corruption" := by decide
example : validatePrefixTree [[true], [false, true], [false, false, true], [false, false, false]] = .ok () := by
  decide
example : completeTree [[false], [true, false], [true, true]] = true := by decide
example : completeTree [[false], [true, false]] = false := by decide
example : completeTree [[false], [false], [true]] = false := by decide
example : validatePrefixTree [List.replicate 64 true] = .panic := by decide

example : bitsToUsizeTruncated [] 0 = .ok 0 := by decide
example : bitsToUsizeTruncated [true] 4 = .ok 8 := by decide
example : bitsToUsizeTruncated [true] 3 = .ok 4 := by decide
example : bitsToUsizeTruncated [true, false, true] 4 = .ok 10 := by decide
example : bitsToUsizeTruncated [true, false, true, true] 4 = .ok 11 := by decide

end Qco.ValidateTree
