import Qco.Bits.Words
import Qco.Spec.Prim
/-
Layer B, arithmetic/bit-list lemmas used by the word-level proofs.
-/
namespace Qco.WB
open Qco

/-! ### powers of two -/

theorem pow_split {a b : Nat} (h : b ≤ a) : 2^a = 2^(a - b) * 2^b := by
  rw [← Nat.pow_add]; congr 1; omega

theorem mul_pow_lt {x a b c : Nat} (hx : x < 2^a) (h : a + b = c) : x * 2^b < 2^c := by
  subst h
  rw [Nat.pow_add]
  exact Nat.mul_lt_mul_of_pos_right hx (Nat.two_pow_pos b)

theorem mul_pow_div {x b : Nat} : x * 2^b / 2^b = x :=
  Nat.mul_div_cancel x (Nat.two_pow_pos b)

theorem mul_pow_add_div {x y b : Nat} (hy : y < 2^b) : (x * 2^b + y) / 2^b = x := by
  rw [Nat.add_comm, Nat.add_mul_div_right _ _ (Nat.two_pow_pos b), Nat.div_eq_of_lt hy, Nat.zero_add]

theorem mul_pow_add_mod {x y b : Nat} (hy : y < 2^b) : (x * 2^b + y) % 2^b = y := by
  rw [Nat.add_comm, Nat.add_mul_mod_self_right, Nat.mod_eq_of_lt hy]

theorem eq_div_mul_of_mod_eq_zero {x k : Nat} (h : x % 2^k = 0) : x = x / 2^k * 2^k := by
  have := Nat.div_add_mod x (2^k)
  rw [h, Nat.add_zero, Nat.mul_comm] at this
  exact this.symm

theorem div_pow_lt {x a b c : Nat} (hx : x < 2^c) (h : a + b = c) : x / 2^b < 2^a := by
  apply Nat.div_lt_of_lt_mul
  rw [← Nat.pow_add, Nat.add_comm, h]; exact hx

/-- `x % 2^(a+b) / 2^b = x / 2^b % 2^a` -/
theorem mod_pow_div (x a b : Nat) : x % 2^(a + b) / 2^b = x / 2^b % 2^a := by
  rw [Nat.pow_add, Nat.mul_comm, Nat.mod_mul_right_div_self]

theorem mod_pow_mod_of_le (x : Nat) {a b : Nat} (h : a ≤ b) : x % 2^b % 2^a = x % 2^a :=
  Nat.mod_mod_of_dvd x (Nat.pow_dvd_pow 2 h)

theorem mod_pow_of_mod_pow_zero {x a b : Nat} (h : x % 2^b = 0) (hab : a ≤ b) : x % 2^a = 0 := by
  rw [← mod_pow_mod_of_le x hab, h, Nat.zero_mod]

/-- an OR of disjoint bit ranges is an addition -/
theorem lor_eq_add {x y k : Nat} (hx : x % 2^k = 0) (hy : y < 2^k) : x ||| y = x + y := by
  have h := Nat.shiftLeft_add_eq_or_of_lt hy (x / 2^k)
  rw [Nat.shiftLeft_eq, ← eq_div_mul_of_mod_eq_zero hx] at h
  exact h.symm

theorem lor_eq_add' {x y k : Nat} (hx : x < 2^k) (hy : y % 2^k = 0) : x ||| y = x + y := by
  rw [Nat.or_comm, lor_eq_add hy hx, Nat.add_comm]

/-! ### `natBits`, `bitsNat` -/

theorem natBits_zero (w : Nat) : natBits w 0 = List.replicate w false := by
  induction w with
  | zero => rfl
  | succ w ih => simp [natBits, ih, List.replicate_succ']

theorem natBits_add (a b v : Nat) : natBits (a + b) v = natBits a (v / 2^b) ++ natBits b v := by
  induction b generalizing v with
  | zero => simp [natBits]
  | succ b ih =>
    rw [← Nat.add_assoc, natBits, natBits, ih, List.append_assoc, Nat.div_div_eq_div_mul,
      Nat.pow_succ, Nat.mul_comm 2]

theorem natBits_append_lt {a b x y : Nat} (hy : y < 2^b) :
    natBits (a + b) (x * 2^b + y) = natBits a x ++ natBits b y := by
  rw [natBits_add, mul_pow_add_div hy, natBits_mod b (x * 2^b + y), mul_pow_add_mod hy]

theorem natBits_mul_pow (a b x : Nat) :
    natBits (a + b) (x * 2^b) = natBits a x ++ List.replicate b false := by
  have := natBits_append_lt (a := a) (x := x) (Nat.two_pow_pos b)
  rw [Nat.add_zero, natBits_zero] at this
  exact this

theorem natBits_eq_of_mod_eq {w a b : Nat} (h : a % 2^w = b % 2^w) : natBits w a = natBits w b := by
  rw [natBits_mod w a, natBits_mod w b, h]

theorem natBits_take {w v : Nat} {n : Nat} (h : n ≤ w) :
    (natBits w v).take n = natBits n (v / 2^(w - n)) := by
  have hw : w = n + (w - n) := by omega
  have e : natBits w v = natBits n (v / 2^(w - n)) ++ natBits (w - n) v := by
    rw [← natBits_add, ← hw]
  rw [e, List.take_append_of_le_length (by simp), List.take_of_length_le (by simp)]

theorem natBits_drop {w v : Nat} {n : Nat} (h : n ≤ w) :
    (natBits w v).drop n = natBits (w - n) v := by
  have hw : w = n + (w - n) := by omega
  have e : natBits w v = natBits n (v / 2^(w - n)) ++ natBits (w - n) v := by
    rw [← natBits_add, ← hw]
  rw [e, List.drop_append_of_le_length (by simp), List.drop_of_length_le (by simp), List.nil_append]

theorem bitsNat_foldl (bs : Bits) (acc : Nat) :
    bs.foldl (fun a b => 2 * a + b.toNat) acc
      = acc * 2^bs.length + bs.foldl (fun a b => 2 * a + b.toNat) 0 := by
  induction bs generalizing acc with
  | nil => simp
  | cons b bs ih =>
    rw [List.foldl_cons, ih, List.foldl_cons, ih (2 * 0 + b.toNat), List.length_cons, Nat.pow_succ]
    generalize 2^bs.length = P
    have e1 : (2 * acc + b.toNat) * P = acc * (P * 2) + b.toNat * P := by
      rw [Nat.add_mul, Nat.mul_comm 2 acc, Nat.mul_assoc, Nat.mul_comm 2 P]
    have e2 : (2 * 0 + b.toNat) * P = b.toNat * P := by rw [Nat.mul_zero, Nat.zero_add]
    rw [e1, e2, Nat.add_assoc]

theorem bitsNat_append (a b : Bits) : bitsNat (a ++ b) = bitsNat a * 2^b.length + bitsNat b := by
  rw [bitsNat, List.foldl_append, bitsNat_foldl]; rfl

theorem bitsNat_cons (b : Bool) (bs : Bits) : bitsNat (b :: bs) = b.toNat * 2^bs.length + bitsNat bs := by
  have := bitsNat_append [b] bs
  simpa [bitsNat] using this

theorem bitsNat_replicate_false (n : Nat) : bitsNat (List.replicate n false) = 0 := by
  rw [← natBits_zero, bitsNat_natBits, Nat.zero_mod]

/-- the value of bits `[j, j+n)` of a `w`-bit number -/
theorem bitsNat_natBits_slice {w v j n : Nat} (h : j + n ≤ w) :
    bitsNat (((natBits w v).drop j).take n) = v % 2^(w - j) / 2^(w - j - n) := by
  rw [natBits_drop (by omega), natBits_take (by omega), bitsNat_natBits]
  obtain ⟨m, hm⟩ : ∃ m, w - j = n + m := ⟨w - j - n, by omega⟩
  have e2 : w - j - n = m := by omega
  rw [e2, hm, mod_pow_div]

theorem natBits_getElem? {w v j : Nat} (h : j < w) :
    (natBits w v)[j]? = some (v / 2^(w - 1 - j) % 2 == 1) := by
  induction w generalizing v j with
  | zero => omega
  | succ w ih =>
    rw [natBits]
    by_cases hj : j < w
    · have e : w + 1 - 1 - j = (w - 1 - j) + 1 := by omega
      rw [List.getElem?_append_left (by simpa using hj), ih hj, e, Nat.pow_succ',
        ← Nat.div_div_eq_div_mul]
    · have hjw : j = w := by omega
      subst hjw
      rw [List.getElem?_append_right (by simp)]
      simp

/-! ### `flat`: words as one bit list, most significant bit of each word first -/

def flat (ws : List Nat) : Bits := ws.flatMap (natBits 64)

@[simp] theorem flat_nil : flat [] = [] := rfl
theorem flat_cons (x : Nat) (ws : List Nat) : flat (x :: ws) = natBits 64 x ++ flat ws := rfl
theorem flat_append (a b : List Nat) : flat (a ++ b) = flat a ++ flat b := List.flatMap_append
theorem flat_singleton (x : Nat) : flat [x] = natBits 64 x := by simp [flat]

@[simp] theorem flat_length (ws : List Nat) : (flat ws).length = 64 * ws.length := by
  induction ws with
  | nil => rfl
  | cons x ws ih => rw [flat_cons, List.length_append, ih, natBits_length, List.length_cons]; omega

theorem flat_split {ws : List Nat} {i : Nat} (h : i < ws.length) :
    flat ws = flat (ws.take i) ++ (natBits 64 ws[i] ++ flat (ws.drop (i + 1))) := by
  conv => lhs; rw [← List.take_append_drop i ws]
  rw [flat_append, List.drop_eq_getElem_cons h, flat_cons]

theorem flat_drop {ws : List Nat} {i j : Nat} (h : i < ws.length) (hj : j ≤ 64) :
    (flat ws).drop (64 * i + j) = (natBits 64 ws[i]).drop j ++ flat (ws.drop (i + 1)) := by
  rw [flat_split h]
  have hl : (flat (ws.take i)).length = 64 * i := by
    rw [flat_length, List.length_take]; congr 1; omega
  rw [List.drop_append, hl, List.drop_of_length_le (by omega), List.nil_append,
    List.drop_append_of_le_length (by simp; omega)]
  congr 2; omega

theorem flat_drop_words (ws : List Nat) (i : Nat) : (flat ws).drop (64 * i) = flat (ws.drop i) := by
  induction ws generalizing i with
  | nil => simp
  | cons x ws ih =>
    cases i with
    | zero => simp
    | succ i =>
      rw [flat_cons, List.drop_succ_cons, List.drop_append, natBits_length,
        List.drop_of_length_le (by simp; omega), List.nil_append]
      have : 64 * (i + 1) - 64 = 64 * i := by omega
      rw [this, ih]

theorem flat_getElem? {ws : List Nat} {i j : Nat} (hi : i < ws.length) (hj : j < 64) :
    (flat ws)[64 * i + j]? = some (bitFromWord ws[i] j) := by
  have h := flat_drop (ws := ws) (i := i) (j := j) hi (by omega)
  have h0 : ((flat ws).drop (64 * i + j))[0]? = (flat ws)[64 * i + j]? := by
    rw [List.getElem?_drop]; rfl
  rw [← h0, h, List.getElem?_append_left (by simp; omega), List.getElem?_drop, Nat.add_zero,
    natBits_getElem? hj]
  rfl

end Qco.WB
