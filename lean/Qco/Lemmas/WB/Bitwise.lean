import Qco.Lemmas.WB.Overwrite
/-
Layer B: the div/mod helpers of `Qco.Bits.Words` are the bitwise `usize` operations of the source.
(`usize::MAX = 2^64 - 1`, `BASE_BIT_MASK = 2^63`; `<<` on `usize` drops the bits beyond 64.)
-/
namespace Qco.WB
open Qco

theorem max_shr (k : Nat) (hk : k ≤ 64) : (2^64 - 1) >>> (64 - k) = 2^k - 1 := by
  rw [Nat.shiftRight_eq_div_pow]
  have hsplit : (2:Nat)^64 = 2^k * 2^(64 - k) := by
    rw [← Nat.pow_add]; congr 1; omega
  have hP := Nat.two_pow_pos k
  have hQ := Nat.two_pow_pos (64 - k)
  apply Nat.div_eq_of_lt_le
  · rw [hsplit, Nat.sub_mul, Nat.one_mul]; omega
  · rw [Nat.sub_add_cancel hP, hsplit]; omega

/-- `x & (usize::MAX >> j)` keeps the low `64 - j` bits -/
theorem low_eq_and (x j : Nat) (hj : j ≤ 64) : low x (64 - j) = x &&& ((2^64 - 1) >>> j) := by
  have := max_shr (64 - j) (by omega)
  have e : 64 - (64 - j) = j := by omega
  rw [e] at this
  rw [this, Nat.and_two_pow_sub_one_eq_mod]; rfl

theorem shr_eq (x s : Nat) : shr x s = x >>> s := (Nat.shiftRight_eq_div_pow x s).symm

theorem shl64_eq (x s : Nat) : shl64 x s = (x <<< s) % 2^64 := by rw [Nat.shiftLeft_eq]; rfl

theorem and_two_pow (x k : Nat) : x &&& 2^k = if x.testBit k then 2^k else 0 := by
  apply Nat.eq_of_testBit_eq
  intro m
  rw [Nat.testBit_and, Nat.testBit_two_pow]
  cases ht : x.testBit k with
  | true =>
    rw [if_pos rfl, Nat.testBit_two_pow]
    by_cases hkm : k = m
    · subst hkm; simp [ht]
    · simp [hkm]
  | false =>
    rw [if_neg (by simp), Nat.zero_testBit]
    by_cases hkm : k = m
    · subst hkm; simp [ht]
    · simp [hkm]

/-- `bits::bit_from_word`: `(word & (BASE_BIT_MASK >> j)) > 0` -/
theorem bitFromWord_eq (word j : Nat) (hj : j < 64) :
    bitFromWord word j = decide (word &&& (2^63 >>> j) > 0) := by
  have e : (2:Nat)^63 >>> j = 2^(63 - j) := by
    rw [Nat.shiftRight_eq_div_pow]
    have : (2:Nat)^63 = 2^(63 - j) * 2^j := by rw [← Nat.pow_add]; congr 1; omega
    rw [this, mul_pow_div]
  rw [e, and_two_pow, bitFromWord, bit_eq_testBit]
  cases word.testBit (63 - j) with
  | true => simp [Nat.two_pow_pos]
  | false => simp

/-- AND with a mask whose low `s` bits are clear -/
theorem and_mul_two_pow (x m s : Nat) : x &&& (m * 2^s) = (x / 2^s &&& m) * 2^s := by
  apply Nat.eq_of_testBit_eq
  intro t
  rw [Nat.testBit_and, Nat.testBit_mul_two_pow, Nat.testBit_mul_two_pow, Nat.testBit_and,
    Nat.testBit_div_two_pow]
  by_cases hst : s ≤ t
  · have : t - s + s = t := by omega
    simp [hst, this]
  · simp [hst]

/-- the condition of `drain_empty_byte`:
`word & (MAX >> j) & (MAX << (64 - end_j)) > 0` with `MAX << s` taken on `usize` -/
theorem drain_cond_eq (word j endJ : Nat) (hj : j ≤ endJ) (he : endJ ≤ 64) (he0 : 0 < endJ) :
    (shr (low word (64 - j)) (64 - endJ) > 0)
      ↔ (word &&& ((2^64 - 1) >>> j) &&& (((2^64 - 1) <<< (64 - endJ)) % 2^64) > 0) := by
  rw [← low_eq_and word j (by omega)]
  obtain ⟨s, hs⟩ : ∃ s, s = 64 - endJ := ⟨_, rfl⟩
  rw [← hs]
  have hsplit : (2:Nat)^64 = 2^endJ * 2^s := by rw [← Nat.pow_add]; congr 1; omega
  have hP := Nat.two_pow_pos endJ
  have hQ := Nat.two_pow_pos s
  have hmask : ((2^64 - 1) <<< s) % 2^64 = (2^endJ - 1) * 2^s := by
    rw [Nat.shiftLeft_eq]
    have e1 : (2^64 - 1) * 2^s = (2^s - 1) * 2^64 + (2^endJ - 1) * 2^s := by
      rw [Nat.sub_mul, Nat.sub_mul, Nat.sub_mul, Nat.one_mul, Nat.one_mul, ← hsplit,
        Nat.mul_comm (2^s) (2^64)]
      have : 2^s ≤ 2^64 * 2^s := Nat.le_mul_of_pos_left _ (Nat.two_pow_pos 64)
      have h2 : (2:Nat)^s ≤ 2^64 := by rw [hsplit]; exact Nat.le_mul_of_pos_left _ hP
      omega
    have e2 : (2^endJ - 1) * 2^s < 2^64 := by
      rw [hsplit, Nat.sub_mul, Nat.one_mul]; omega
    rw [e1, Nat.add_comm, Nat.add_mul_mod_self_right, Nat.mod_eq_of_lt e2]
  rw [hmask, and_mul_two_pow, Nat.and_two_pow_sub_one_eq_mod]
  have hlow : low word (64 - j) < 2^(64 - j) := Nat.mod_lt _ (Nat.two_pow_pos _)
  have hdiv : low word (64 - j) / 2^s < 2^endJ := by
    apply Nat.div_lt_of_lt_mul
    rw [Nat.mul_comm, ← hsplit]
    exact Nat.lt_of_lt_of_le hlow (Nat.pow_le_pow_right (by decide) (by omega))
  rw [Nat.mod_eq_of_lt hdiv]
  simp only [shr]
  constructor
  · intro h; exact Nat.mul_pos h hQ
  · intro h
    rcases Nat.eq_zero_or_pos (low word (64 - j) / 2^s) with h0 | h0
    · rw [h0, Nat.zero_mul] at h; exact absurd h (Nat.lt_irrefl 0)
    · exact h0

end Qco.WB
