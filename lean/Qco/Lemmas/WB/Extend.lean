import Qco.Lemmas.WB.Packed
/-
Layer B, B1: `BitWords::extend_bytes` appends the bits of the bytes, for every alignment of
the old contents and every length of the new piece; `truncate_left` drops whole words.
-/
namespace Qco.WB
open Qco

/-- the first `total` bits, most significant bit of each word first -/
def Words.toBits (w : Words) : Bits := (flat w.ws).take w.total

structure Words.WF (w : Words) : Prop where
  /-- whole bytes -/
  bytes : w.total % 8 = 0
  /-- exactly `ceil_div(total, 64)` words -/
  len : w.ws.length = (w.total + 63) / 64
  /-- words are `usize` values -/
  lt : ∀ x ∈ w.ws, x < 2^64
  /-- the bits of the last word beyond `total` are zero -/
  pad : ∀ x, w.ws.getLast? = some x → x % 2^(64 * w.ws.length - w.total) = 0

theorem wf_default : Words.WF {} := ⟨rfl, rfl, by simp, by simp⟩

theorem Words.WF.total_le {w : Words} (h : w.WF) : w.total ≤ 64 * w.ws.length := by
  have := h.len; omega

theorem Words.WF.toBits_length {w : Words} (h : w.WF) : w.toBits.length = w.total := by
  rw [Words.toBits, List.length_take, flat_length]; have := h.total_le; omega

/-- a well-formed `BitWords` is `Packed` -/
theorem Words.WF.packed {w : Words} (h : w.WF) :
    Packed w.ws w.toBits (64 * w.ws.length - w.total) := by
  refine ⟨h.lt, ?_⟩
  have hle := h.total_le
  have hlen := h.len
  conv => lhs; rw [← List.take_append_drop w.total (flat w.ws)]
  rw [Words.toBits]
  congr 1
  rcases List.eq_nil_or_concat w.ws with hnil | ⟨init, x, hx⟩
  · rw [hnil]; simp
  · rw [List.concat_eq_append] at hx
    have hpad := h.pad x (by rw [hx]; simp)
    rw [hx] at hlen hle hpad ⊢
    simp only [List.length_append, List.length_cons, List.length_nil] at hlen hle hpad ⊢
    have hl : (flat init).length = 64 * init.length := flat_length init
    rw [flat_append, flat_singleton, List.drop_append, List.drop_of_length_le (by omega),
      List.nil_append, hl, natBits_drop (by omega)]
    have e : 64 - (w.total - 64 * init.length) = 64 * (init.length + 1) - w.total := by omega
    rw [e, natBits_mod, hpad, natBits_zero]

/-- conversely, packed words with fewer than 64 free bits and whole bytes are well-formed -/
theorem Packed.wf {ws : List Nat} {bits : Bits} {free : Nat} (h : Packed ws bits free)
    (hb : bits.length % 8 = 0) (hf : free < 64) :
    Words.WF ⟨ws, bits.length⟩ ∧ Words.toBits ⟨ws, bits.length⟩ = bits := by
  have hl := h.length
  refine ⟨⟨hb, ?_, h.lt, ?_⟩, ?_⟩
  · show ws.length = (bits.length + 63) / 64
    omega
  · intro x hx
    show x % 2^(64 * ws.length - bits.length) = 0
    rcases List.eq_nil_or_concat ws with hnil | ⟨init, y, hy⟩
    · rw [hnil] at hx; simp at hx
    · rw [List.concat_eq_append] at hy
      rw [hy] at hx
      simp at hx
      subst hx
      rw [hy] at h
      have := (packed_last h (by omega)).1
      have e : 64 * ws.length - bits.length = free := by omega
      rw [e]; exact this
  · show (flat ws).take bits.length = bits
    rw [h.eq, List.take_append_of_le_length (Nat.le_refl _), List.take_length]

/-! ### the three phases of `extend` -/

theorem orLoop_packed (a : Nat) (ha : a ≤ 8) :
    ∀ (bs : List Nat) (i : Nat) (ws : List Nat) (bits : Bits),
      Packed ws bits (8 * (a - i)) → i + bs.length ≤ a → (∀ b ∈ bs, b < 256) →
      Packed (orLoop a bs i ws) (bits ++ bytesBits' bs) (8 * (a - i - bs.length)) := by
  intro bs
  induction bs with
  | nil => intro i ws bits h _ _; simpa [orLoop] using h
  | cons b bs ih =>
    intro i ws bits h hi hb
    simp only [List.length_cons] at hi
    have hb8 : b < 2^8 := hb b (by simp)
    have e1 : 8 * (a - i - 1) = 8 * (a - i) - 8 := by omega
    have step := packed_orLast h (by omega) (n := 8) (by omega) hb8
    rw [← e1] at step
    have e2 : 8 * (a - i - 1) = 8 * (a - (i + 1)) := by omega
    have := ih (i + 1) _ _ (step.congr rfl e2) (by omega) (fun c hc => hb c (by simp [hc]))
    rw [orLoop]
    refine this.congr ?_ ?_
    · rw [bytesBits'_cons, List.append_assoc]
    · simp only [List.length_cons]; congr 1; omega

theorem beFold_bits : ∀ (bs : List Nat) (acc w : Nat), (∀ b ∈ bs, b < 256) →
    natBits (w + 8 * bs.length) (bs.foldl (fun a b => a * 256 + b) acc)
      = natBits w acc ++ bytesBits' bs := by
  intro bs
  induction bs with
  | nil => intro acc w _; simp
  | cons b bs ih =>
    intro acc w hb
    have hb8 : b < 2^8 := hb b (by simp)
    have e : w + 8 * (b :: bs).length = (w + 8) + 8 * bs.length := by simp only [List.length_cons]; omega
    rw [List.foldl_cons, e, ih _ _ (fun c hc => hb c (by simp [hc])), bytesBits'_cons,
      ← List.append_assoc]
    congr 1
    exact natBits_append_lt (a := w) (b := 8) (x := acc) hb8

theorem beFold_lt : ∀ (bs : List Nat) (acc w : Nat), (∀ b ∈ bs, b < 256) → acc < 2^w →
    bs.foldl (fun a b => a * 256 + b) acc < 2^(w + 8 * bs.length) := by
  intro bs
  induction bs with
  | nil => intro acc w _ h; simpa using h
  | cons b bs ih =>
    intro acc w hb hacc
    have hb8 : b < 256 := hb b (by simp)
    have e : w + 8 * (b :: bs).length = (w + 8) + 8 * bs.length := by simp only [List.length_cons]; omega
    rw [List.foldl_cons, e]
    apply ih _ _ (fun c hc => hb c (by simp [hc]))
    rw [Nat.pow_add]
    have : (2:Nat)^8 = 256 := by decide
    rw [this]; omega

theorem beWord_bits {bs : List Nat} (hb : ∀ b ∈ bs, b < 256) :
    natBits (8 * bs.length) (beWord bs) = bytesBits' bs := by
  have := beFold_bits bs 0 0 hb
  simpa [beWord, natBits] using this

theorem beWord_lt {bs : List Nat} (hb : ∀ b ∈ bs, b < 256) : beWord bs < 2^(8 * bs.length) := by
  have := beFold_lt bs 0 0 hb (by simp)
  simpa [beWord] using this

theorem beFold_zeros (m acc : Nat) :
    (List.replicate m 0).foldl (fun a b => a * 256 + b) acc = acc * 2^(8 * m) := by
  induction m generalizing acc with
  | zero => simp
  | succ m ih =>
    rw [List.replicate_succ, List.foldl_cons, ih]
    have e : 8 * (m + 1) = 8 + 8 * m := by omega
    have : (2:Nat)^8 = 256 := by decide
    rw [e, Nat.pow_add, this, Nat.add_zero, Nat.mul_assoc]

theorem beWord_pad (l : List Nat) (m : Nat) : beWord (l ++ List.replicate m 0) = beWord l * 2^(8 * m) := by
  rw [beWord, List.foldl_append, beFold_zeros]; rfl

theorem chunks8_packed : ∀ (n : Nat) (l ws : List Nat) (bits : Bits),
    l.length = 8 * n → (∀ b ∈ l, b < 256) → Packed ws bits 0 →
    Packed (ws ++ (chunks8 l).map beWord) (bits ++ bytesBits' l) 0 := by
  intro n
  induction n with
  | zero =>
    intro l ws bits hl _ h
    have : l = [] := List.eq_nil_of_length_eq_zero (by omega)
    subst this
    rw [chunks8]; simpa using h
  | succ n ih =>
    intro l ws bits hl hb h
    have h8 : ¬ l.length < 8 := by omega
    rw [chunks8, dif_neg h8, List.map_cons]
    have htb : ∀ b ∈ l.take 8, b < 256 := fun b hb' => hb b (List.mem_of_mem_take hb')
    have hdb : ∀ b ∈ l.drop 8, b < 256 := fun b hb' => hb b (List.mem_of_mem_drop hb')
    have htl : (l.take 8).length = 8 := by rw [List.length_take]; omega
    have hv : beWord (l.take 8) < 2^64 := by
      have := beWord_lt htb; rw [htl] at this; exact this
    have hbits : natBits 64 (beWord (l.take 8)) = bytesBits' (l.take 8) := by
      have := beWord_bits htb; rw [htl] at this; exact this
    have step := packed_push_full h hv
    rw [hbits] at step
    have := ih (l.drop 8) _ _ (by rw [List.length_drop]; omega) hdb step
    rw [List.append_assoc, List.singleton_append] at this
    refine this.congr ?_ rfl
    rw [List.append_assoc, ← bytesBits'_append, List.take_append_drop]

theorem pad8_packed {ws : List Nat} {bits : Bits} {rest : List Nat}
    (h : Packed ws bits 0) (hr : rest.length ≤ 8) (hb : ∀ b ∈ rest, b < 256) :
    Packed (ws ++ [beWord (pad8 rest)]) (bits ++ bytesBits' rest) (8 * (8 - rest.length)) := by
  rw [pad8, beWord_pad]
  have hlt := beWord_lt hb
  have hv : beWord rest * 2^(8 * (8 - rest.length)) < 2^64 := mul_pow_lt hlt (by omega)
  have hmod : beWord rest * 2^(8 * (8 - rest.length)) % 2^(8 * (8 - rest.length)) = 0 :=
    Nat.mul_mod_left _ _
  have := packed_push h hv hmod (by omega)
  refine this.congr ?_ rfl
  have e : 64 - 8 * (8 - rest.length) = 8 * rest.length := by omega
  rw [mul_pow_div, e, beWord_bits hb]

/-! ### B1 -/

theorem extend_wf_bits {w : Words} {bytes : List Nat} (hw : w.WF) (hb : ∀ b ∈ bytes, b < 256) :
    ∃ free, free < 64 ∧ Packed (w.extend bytes).ws (w.toBits ++ bytesBits' bytes) free
      ∧ (w.extend bytes).total = w.total + 8 * bytes.length := by
  have hp := hw.packed
  have hlen := hw.len
  have hbytes := hw.bytes
  have htl := hw.toBits_length
  -- abbreviations
  obtain ⟨a, ha⟩ : ∃ a, a = (8 - w.total / 8 % 8) % 8 := ⟨_, rfl⟩
  have ha8 : a ≤ 8 := by omega
  have hfree : 64 * w.ws.length - w.total = 8 * (a - 0) := by omega
  rw [hfree] at hp
  by_cases hL : bytes.length ≤ a
  · -- everything fits into the last word
    have h1 := orLoop_packed a ha8 bytes 0 w.ws _ hp (by omega) hb
    have hl1 := h1.length
    simp only [List.length_append, bytesBits'_length, htl] at hl1
    refine ⟨8 * (a - 0 - bytes.length), by omega, ?_, rfl⟩
    have hmin : min a bytes.length = bytes.length := by omega
    have e : (w.extend bytes).ws = orLoop a bytes 0 w.ws := by
      simp only [Words.extend, ← ha, hmin, List.take_length, Nat.lt_irrefl, if_false, ceilDiv]
      rw [if_neg]; omega
    rw [e]; exact h1
  · have hmin : min a bytes.length = a := by omega
    have hta : ∀ b ∈ bytes.take a, b < 256 := fun b hb' => hb b (List.mem_of_mem_take hb')
    have h1 := orLoop_packed a ha8 (bytes.take a) 0 w.ws _ hp (by rw [List.length_take]; omega) hta
    have e0 : 8 * (a - 0 - (bytes.take a).length) = 0 := by rw [List.length_take]; omega
    rw [e0] at h1
    -- whole words
    obtain ⟨q, hq⟩ : ∃ q, q = (bytes.length - a) / 8 := ⟨_, rfl⟩
    obtain ⟨mid, hmid⟩ : ∃ mid, mid = (bytes.take (a + q * 8)).drop a := ⟨_, rfl⟩
    have hmidlen : mid.length = 8 * q := by
      rw [hmid, List.length_drop, List.length_take]; omega
    have hmb : ∀ b ∈ mid, b < 256 := fun b hb' => by
      rw [hmid] at hb'; exact hb b (List.mem_of_mem_take (List.mem_of_mem_drop hb'))
    have h2 := chunks8_packed q mid _ _ hmidlen hmb h1
    have hc : a < bytes.length := by omega
    obtain ⟨ws2, hws2⟩ : ∃ ws2, ws2 = orLoop a (bytes.take a) 0 w.ws ++ (chunks8 mid).map beWord :=
      ⟨_, rfl⟩
    rw [← hws2] at h2
    have hl2 := h2.length
    simp only [List.length_append, bytesBits'_length, htl, List.length_take, hmidlen] at hl2
    obtain ⟨rest, hrest⟩ : ∃ rest, rest = bytes.drop (a + q * 8) := ⟨_, rfl⟩
    have hrl : rest.length = (bytes.length - a) % 8 := by rw [hrest, List.length_drop]; omega
    have hrb : ∀ b ∈ rest, b < 256 := fun b hb' => by
      rw [hrest] at hb'; exact hb b (List.mem_of_mem_drop hb')
    have hsplit : bytes = bytes.take a ++ (mid ++ rest) := by
      rw [hmid, hrest]
      conv => lhs; rw [← List.take_append_drop (a + q * 8) bytes,
        ← List.take_append_drop a (bytes.take (a + q * 8))]
      rw [List.take_take, List.append_assoc]
      congr 2; omega
    have hbb : w.toBits ++ bytesBits' bytes
        = w.toBits ++ bytesBits' (bytes.take a) ++ bytesBits' mid ++ bytesBits' rest := by
      conv => lhs; rw [hsplit]
      rw [bytesBits'_append, bytesBits'_append]; simp [List.append_assoc]
    by_cases hr0 : rest.length = 0
    · have hrnil : rest = [] := List.eq_nil_of_length_eq_zero hr0
      refine ⟨0, by omega, ?_, rfl⟩
      have e : (w.extend bytes).ws = ws2 := by
        simp only [Words.extend, ← ha, hmin, ceilDiv, ← hq, ← hmid, if_pos hc, ← hws2]
        rw [if_neg]
        omega
      rw [e, hbb, hrnil]; simpa using h2
    · have h3 := pad8_packed h2 (by omega) hrb
      refine ⟨8 * (8 - rest.length), by omega, ?_, rfl⟩
      have e : (w.extend bytes).ws = ws2 ++ [beWord (pad8 rest)] := by
        simp only [Words.extend, ← ha, hmin, ceilDiv, ← hq, ← hmid, ← hrest, if_pos hc, ← hws2]
        rw [if_pos]
        omega
      rw [e, hbb]; exact h3

/-- **B1** -/
theorem extend_spec {w : Words} {bytes : List Nat} (hw : w.WF) (hb : ∀ b ∈ bytes, b < 256) :
    (w.extend bytes).WF ∧ (w.extend bytes).toBits = w.toBits ++ bytesBits' bytes := by
  obtain ⟨free, hf, hp, ht⟩ := extend_wf_bits hw hb
  have hl : (w.toBits ++ bytesBits' bytes).length = (w.extend bytes).total := by
    rw [List.length_append, hw.toBits_length, bytesBits'_length, ht]
  have := hp.wf (by rw [hl, ht]; have := hw.bytes; omega) hf
  rw [hl] at this
  exact this

/-- any split of the input into pieces gives the same bits -/
theorem extend_pieces_spec (pieces : List (List Nat)) (hb : ∀ p ∈ pieces, ∀ b ∈ p, b < 256) :
    ∀ {w : Words}, w.WF →
      (pieces.foldl Words.extend w).WF ∧
      (pieces.foldl Words.extend w).toBits = w.toBits ++ bytesBits' pieces.flatten := by
  induction pieces with
  | nil => intro w hw; simpa using hw
  | cons p ps ih =>
    intro w hw
    obtain ⟨h1, h2⟩ := extend_spec hw (hb p (by simp))
    obtain ⟨h3, h4⟩ := ih (fun q hq => hb q (by simp [hq])) h1
    refine ⟨h3, ?_⟩
    rw [List.foldl_cons, h4, h2, List.flatten_cons, bytesBits'_append, List.append_assoc]

/-! ### `truncate_left` -/

theorem truncateLeft_spec {w : Words} {k : Nat} (hw : w.WF) (hk : k ≤ w.ws.length) :
    (w.truncateLeft k).WF ∧ (w.truncateLeft k).toBits = w.toBits.drop (64 * k) := by
  have hlen := hw.len
  have hbytes := hw.bytes
  refine ⟨⟨?_, ?_, ?_, ?_⟩, ?_⟩
  · show (w.total - k * 64) % 8 = 0
    omega
  · show (w.ws.drop k).length = (w.total - k * 64 + 63) / 64
    rw [List.length_drop]; omega
  · intro x hx; exact hw.lt x (List.mem_of_mem_drop hx)
  · intro x hx
    show x % 2^(64 * (w.ws.drop k).length - (w.total - k * 64)) = 0
    have hx' : (w.ws.drop k).getLast? = some x := hx
    by_cases hkl : k < w.ws.length
    · rw [List.getLast?_drop, if_neg (by omega)] at hx'
      have := hw.pad x hx'
      rw [List.length_drop]
      have e : 64 * (w.ws.length - k) - (w.total - k * 64) = 64 * w.ws.length - w.total := by omega
      rw [e]; exact this
    · rw [List.drop_of_length_le (by omega)] at hx'; simp at hx'
  · show (flat (w.ws.drop k)).take (w.total - k * 64) = ((flat w.ws).take w.total).drop (64 * k)
    rw [List.drop_take, flat_drop_words]
    congr 1; omega

/-- the hook calls `truncate_left` only with `0 < k ≤ words.len()`; the remaining panic is the
subtraction `total_bits -= 64 * k` -/
theorem truncateLeftR_ok {w : Words} {k : Nat} (hk : k * 64 ≤ w.total) (hw : w.WF) :
    w.truncateLeftR k = .ok (w.truncateLeft k) := by
  have := hw.len
  rw [Words.truncateLeftR, if_neg (by omega), if_neg (by omega)]

end Qco.WB
