import Qco.Lemmas.WB.WriterProofs
/-
Layer B, B2 (writer): `overwrite_usize`.

The loop body of the source is
`if words[i] & mask != shifted_bit { words[i] ^= shifted_bit }`.
For a zero bit `shifted_bit = 0` and the XOR does nothing, so a one already in place is never cleared:
`overwrite_usize` ORs the `n` bits of `x` into the old bits.  It "replaces" them only if the old
bits are zero (which is how the compressor uses it: it reserves the field with `write_usize(0, n)`).
-/
namespace Qco.WB
open Qco

theorem bit_eq_testBit (v t : Nat) : (v / 2^t % 2 == 1) = v.testBit t := by
  rw [Nat.testBit_eq_decide_div_mod_eq]
  simp [BEq.beq]

/-- the loop body is an OR -/
theorem overwrite_word_eq (word k b : Nat) (hb : b ≤ 1) :
    (if word &&& 2^k ≠ b * 2^k then word ^^^ (b * 2^k) else word) = word ||| (b * 2^k) := by
  have hb' : b = 0 ∨ b = 1 := by omega
  rcases hb' with rfl | rfl
  · simp
  · rw [Nat.one_mul]
    cases ht : word.testBit k with
    | true =>
      have hand : word &&& 2^k = 2^k := by
        apply Nat.eq_of_testBit_eq
        intro m
        rw [Nat.testBit_and, Nat.testBit_two_pow]
        by_cases hkm : k = m
        · subst hkm; simp [ht]
        · simp [hkm]
      rw [if_neg (by rw [hand]; exact fun h => h rfl)]
      apply Nat.eq_of_testBit_eq
      intro m
      rw [Nat.testBit_or, Nat.testBit_two_pow]
      by_cases hkm : k = m
      · subst hkm; simp [ht]
      · simp [hkm]
    | false =>
      have hne : word &&& 2^k ≠ 2^k := by
        intro h
        have := congrArg (fun v => Nat.testBit v k) h
        simp [Nat.testBit_and, ht] at this
      rw [if_pos hne]
      apply Nat.eq_of_testBit_eq
      intro m
      rw [Nat.testBit_or, Nat.testBit_xor, Nat.testBit_two_pow]
      by_cases hkm : k = m
      · subst hkm; simp [ht]
      · simp [hkm]

theorem bitFromWord_or {word b j j' : Nat} (hb : b ≤ 1) (hj : j < 64) (hj' : j' < 64) :
    bitFromWord (word ||| b * 2^(63 - j)) j' = (bitFromWord word j' || (decide (j = j') && b == 1)) := by
  unfold bitFromWord
  rw [bit_eq_testBit, bit_eq_testBit, Nat.testBit_or]
  congr 1
  have hb' : b = 0 ∨ b = 1 := by omega
  rcases hb' with rfl | rfl
  · simp
  · rw [Nat.one_mul, Nat.testBit_two_pow]
    have : (63 - j = 63 - j') ↔ (j = j') := by omega
    simp [this]

/-- setting one bit of one word, seen on the bit list -/
theorem flat_set_or {ws : List Nat} {i j b : Nat} (hi : i < ws.length) (hj : j < 64) (hb : b ≤ 1) :
    flat (ws.set i (ws[i] ||| b * 2^(63 - j))) = (flat ws).modify (64 * i + j) (· || (b == 1)) := by
  apply List.ext_getElem?
  intro m
  rw [List.getElem?_modify]
  have hm : m = 64 * (m / 64) + m % 64 := by omega
  have hj' : m % 64 < 64 := Nat.mod_lt _ (by decide)
  by_cases hi' : m / 64 < ws.length
  · have hi'' : m / 64 < (ws.set i (ws[i] ||| b * 2^(63 - j))).length := by rw [List.length_set]; exact hi'
    conv => lhs; rw [hm, flat_getElem? hi'' hj', List.getElem_set]
    conv => rhs; rw [hm, flat_getElem? hi' hj']
    simp only [Option.map_eq_map, Option.map_some]
    congr 1
    by_cases hii : i = m / 64
    · subst hii
      rw [if_pos rfl, bitFromWord_or hb hj hj']
      by_cases hjj : j = m % 64
      · rw [if_pos (by omega)]; simp [hjj]
      · rw [if_neg (by omega)]; simp [hjj]
    · rw [if_neg hii, if_neg (by omega)]
  · have h1 : (flat (ws.set i (ws[i] ||| b * 2^(63 - j)))).length ≤ m := by
      rw [flat_length, List.length_set]; omega
    have h2 : (flat ws).length ≤ m := by rw [flat_length]; omega
    rw [List.getElem?_eq_none h1, List.getElem?_eq_none h2]; rfl

/-- OR a bit list into `bits` starting at position `p` -/
def orBits : Bits → Nat → Bits → Bits
  | bits, _, [] => bits
  | bits, p, v :: vs => orBits (bits.modify p (· || v)) (p + 1) vs

@[simp] theorem orBits_length (vs : Bits) : ∀ (bits : Bits) (p : Nat), (orBits bits p vs).length = bits.length := by
  induction vs with
  | nil => intro bits p; rfl
  | cons v vs ih => intro bits p; rw [orBits, ih, List.length_modify]

theorem modify_append_left' {α : Type} (f : α → α) (a c : List α) {p : Nat} (hp : p < a.length) :
    (a ++ c).modify p f = a.modify p f ++ c := by
  apply List.ext_getElem?
  intro m
  rw [List.getElem?_modify]
  by_cases hm : m < a.length
  · rw [List.getElem?_append_left hm, List.getElem?_append_left (by rw [List.length_modify]; exact hm),
      List.getElem?_modify]
  · rw [List.getElem?_append_right (by omega),
      List.getElem?_append_right (by rw [List.length_modify]; omega), List.length_modify]
    cases c[m - a.length]? with
    | none => rfl
    | some v => simp only [Option.map_eq_map, Option.map_some]; rw [if_neg (by omega)]

theorem orBits_append (vs : Bits) : ∀ (a c : Bits) (p : Nat), p + vs.length ≤ a.length →
    orBits (a ++ c) p vs = orBits a p vs ++ c := by
  induction vs with
  | nil => intro a c p _; rfl
  | cons v vs ih =>
    intro a c p hp
    simp only [List.length_cons] at hp
    rw [orBits, orBits, modify_append_left' _ _ _ (by omega), ih _ _ _ (by rw [List.length_modify]; omega)]

/-- closed form of `orBits` -/
theorem orBits_eq (vs : Bits) : ∀ (bits : Bits) (p : Nat), p + vs.length ≤ bits.length →
    orBits bits p vs
      = bits.take p ++ List.zipWith (· || ·) ((bits.drop p).take vs.length) vs ++ bits.drop (p + vs.length) := by
  induction vs with
  | nil => intro bits p _; simp [orBits]
  | cons v vs ih =>
    intro bits p hp
    simp only [List.length_cons] at hp
    have hlt : p < bits.length := by omega
    rw [orBits, ih _ _ (by rw [List.length_modify]; omega)]
    have e1 : (bits.modify p (· || v)).take (p + 1) = bits.take p ++ [bits[p] || v] := by
      rw [List.modify_eq_take_drop, List.drop_eq_getElem_cons hlt]
      simp only [List.modifyHead]
      rw [List.take_append, List.length_take, Nat.min_eq_left (by omega),
        List.take_of_length_le (by rw [List.length_take]; omega)]
      have : p + 1 - p = 1 := by omega
      rw [this]; rfl
    have e2 : (bits.modify p (· || v)).drop (p + 1) = bits.drop (p + 1) :=
      List.drop_modify_of_lt _ _ _ _ (by omega)
    have e3 : (bits.modify p (· || v)).drop (p + 1 + vs.length) = bits.drop (p + (vs.length + 1)) := by
      rw [List.drop_modify_of_lt _ _ _ _ (by omega)]; congr 1; omega
    rw [e1, e2, e3, List.length_cons]
    conv => rhs; rw [List.drop_eq_getElem_cons hlt, List.take_succ_cons, List.zipWith_cons_cons]
    simp [List.append_assoc]

theorem zipWith_or_replicate_false (vs : Bits) :
    List.zipWith (· || ·) (List.replicate vs.length false) vs = vs := by
  induction vs with
  | nil => rfl
  | cons v vs ih => rw [List.length_cons, List.replicate_succ, List.zipWith_cons_cons, ih, Bool.false_or]

private theorem drop_cons_of_getElem? {bits : Bits} {p : Nat} {b : Bool} (h : bits[p]? = some b) :
    bits.drop p = b :: bits.drop (p + 1) := by
  have hp : p < bits.length := by
    rcases Nat.lt_or_ge p bits.length with h' | h'
    · exact h'
    · rw [List.getElem?_eq_none h'] at h; cases h
  rw [List.drop_eq_getElem_cons hp]
  rw [List.getElem?_eq_getElem hp] at h
  cases h; rfl

theorem overwriteLoop_spec (x n : Nat) (hn : n ≤ 64) :
    ∀ (fuel k i j : Nat) (ws : List Nat), k + fuel = n → j ≤ 64 →
      64 * i + j + fuel ≤ 64 * ws.length → (∀ w ∈ ws, w < 2^64) →
      ∃ ws', Writer.overwriteLoop x n fuel k i j ws = .ok ws' ∧ ws'.length = ws.length
        ∧ (∀ w ∈ ws', w < 2^64)
        ∧ flat ws' = orBits (flat ws) (64 * i + j) ((natBits n x).drop k) := by
  intro fuel
  induction fuel with
  | zero =>
    intro k i j ws hk _ _ hlt
    refine ⟨ws, rfl, rfl, hlt, ?_⟩
    rw [List.drop_of_length_le (by simp; omega)]; rfl
  | succ fuel ih =>
    intro k i j ws hk hj hfit hlt
    rw [Writer.overwriteLoop, if_neg (by omega)]
    simp only []
    obtain ⟨i1, hi1⟩ : ∃ i1, i1 = if j = 64 then i + 1 else i := ⟨_, rfl⟩
    obtain ⟨j1, hj1⟩ : ∃ j1, j1 = if j = 64 then 0 else j := ⟨_, rfl⟩
    rw [← hi1, ← hj1]
    have hnorm : 64 * i1 + j1 = 64 * i + j ∧ j1 < 64 := by
      by_cases h64 : j = 64
      · rw [if_pos h64] at hi1 hj1; omega
      · rw [if_neg h64] at hi1 hj1; omega
    have hil : i1 < ws.length := by omega
    rw [List.getElem?_eq_getElem hil]
    simp only []
    obtain ⟨b, hb⟩ : ∃ b, b = x / 2^(n - k - 1) % 2 := ⟨_, rfl⟩
    have hb1 : b ≤ 1 := by omega
    have e63 : 64 - 1 - j1 = 63 - j1 := by omega
    rw [← hb, e63, overwrite_word_eq _ _ _ hb1]
    have hw'lt : ws[i1] ||| b * 2^(63 - j1) < 2^64 := by
      apply Nat.or_lt_two_pow (hlt _ (List.getElem_mem hil))
      have hb' : b = 0 ∨ b = 1 := by omega
      rcases hb' with rfl | rfl
      · simp
      · rw [Nat.one_mul]; exact Nat.pow_lt_pow_right (by decide) (by omega)
    have hlt' : ∀ w ∈ ws.set i1 (ws[i1] ||| b * 2^(63 - j1)), w < 2^64 := by
      intro w hw
      rcases List.mem_or_eq_of_mem_set hw with h | h
      · exact hlt w h
      · rw [h]; exact hw'lt
    obtain ⟨ws', e, hl, hlt'', hflat⟩ := ih (k + 1) i1 (j1 + 1) _ (by omega) (by omega)
      (by rw [List.length_set]; omega) hlt'
    refine ⟨ws', e, by rw [hl, List.length_set], hlt'', ?_⟩
    rw [hflat, flat_set_or hil hnorm.2 hb1]
    have hbit : (natBits n x)[k]? = some (b == 1) := by
      rw [natBits_getElem? (by omega), hb]
      have : n - 1 - k = n - k - 1 := by omega
      rw [this]
    rw [drop_cons_of_getElem? hbit, orBits, ← hnorm.1, Nat.add_assoc]

/-- **B2** `overwrite_usize(bit_idx, x, n)` ORs `natBits n x` into the `n` bits at `bit_idx` -/
theorem overwriteUsize_spec {wr : Writer} (h : WInv wr) {idx x n : Nat} (hn : n ≤ 64)
    (hfit : idx + n ≤ wr.bitSize) :
    ∃ wr', wr.overwriteUsize idx x n = .ok wr' ∧ wr'.j = wr.j
      ∧ wr'.bits = orBits wr.bits idx (natBits n x) ∧ WInv wr' := by
  have hbl := h.bits_length
  have hl := h.ws_length
  have hjl := h.j_le
  have hp := h.packed
  obtain ⟨ws', e, hlen, hlt, hflat⟩ := overwriteLoop_spec x n hn n 0 (idx / 64) (idx % 64) wr.ws
    (by omega) (by omega) (by omega) hp.lt
  unfold Writer.overwriteUsize
  rw [e]
  simp only []
  have hidx : 64 * (idx / 64) + idx % 64 = idx := by omega
  rw [hidx, List.drop_zero, hp.eq, orBits_append _ _ _ _ (by simp; omega)] at hflat
  have hp' : Packed ws' (orBits wr.bits idx (natBits n x)) (64 - wr.j) := ⟨hlt, hflat⟩
  have := winv_of_packed (j := wr.j) hp' hjl (fun hn' => by
    apply h.nonempty
    apply List.eq_nil_of_length_eq_zero
    rw [← hlen, hn']; rfl)
  exact ⟨_, rfl, rfl, this.1, this.2⟩

/-- `overwrite_usize` replaces the bits when the old bits are zero -/
theorem overwriteUsize_replaces {wr : Writer} (h : WInv wr) {idx x n : Nat} (hn : n ≤ 64)
    (hfit : idx + n ≤ wr.bitSize) (hzero : (wr.bits.drop idx).take n = List.replicate n false) :
    ∃ wr', wr.overwriteUsize idx x n = .ok wr' ∧ wr'.j = wr.j
      ∧ wr'.bits = wr.bits.take idx ++ natBits n x ++ wr.bits.drop (idx + n) ∧ WInv wr' := by
  obtain ⟨wr', e, hj, hb, hi⟩ := overwriteUsize_spec h (x := x) hn hfit
  refine ⟨wr', e, hj, ?_, hi⟩
  rw [hb, orBits_eq _ _ _ (by rw [natBits_length, h.bits_length]; exact hfit), natBits_length, hzero]
  have := zipWith_or_replicate_false (natBits n x)
  rw [natBits_length] at this
  rw [this]

/-- and it does *not* replace them otherwise: overwriting a written `1` with `0` leaves the `1` -/
theorem overwriteUsize_keeps_ones :
    (({} : Writer).writeOne true).overwriteUsize 0 0 1 = .ok (({} : Writer).writeOne true) := by
  decide

end Qco.WB
