import Qco.Lemmas.WB.BitLemmas
/-
Layer B: `Packed ws bits free` — the words `ws` hold exactly `bits` followed by `free` zero bits.
Shared by `BitWords` (free = padding of the last word) and `BitWriter` (free = 64 - j).
-/
namespace Qco.WB
open Qco

/-- bytes as bits, most significant bit first (same function as `Qco.bytesBits`) -/
def bytesBits' (bytes : List Nat) : Bits := bytes.flatMap (natBits 8)

@[simp] theorem bytesBits'_nil : bytesBits' [] = [] := rfl
theorem bytesBits'_cons (b : Nat) (bs : List Nat) : bytesBits' (b :: bs) = natBits 8 b ++ bytesBits' bs := rfl
theorem bytesBits'_append (a b : List Nat) : bytesBits' (a ++ b) = bytesBits' a ++ bytesBits' b :=
  List.flatMap_append

@[simp] theorem bytesBits'_length (bs : List Nat) : (bytesBits' bs).length = 8 * bs.length := by
  induction bs with
  | nil => rfl
  | cons b bs ih => rw [bytesBits'_cons, List.length_append, ih, natBits_length, List.length_cons]; omega

theorem bytesBits'_replicate_zero (m : Nat) : bytesBits' (List.replicate m 0) = List.replicate (8 * m) false := by
  induction m with
  | zero => rfl
  | succ m ih =>
    have e : 8 * (m + 1) = 8 + 8 * m := by omega
    rw [List.replicate_succ, bytesBits'_cons, ih, natBits_zero, e, List.replicate_append_replicate]

structure Packed (ws : List Nat) (bits : Bits) (free : Nat) : Prop where
  lt : ∀ x ∈ ws, x < 2^64
  eq : flat ws = bits ++ List.replicate free false

theorem packed_nil : Packed [] [] 0 := ⟨by simp, by simp⟩

theorem Packed.length {ws : List Nat} {bits : Bits} {free : Nat} (h : Packed ws bits free) :
    64 * ws.length = bits.length + free := by
  have := congrArg List.length h.eq
  simpa using this

theorem Packed.congr {ws : List Nat} {bits bits' : Bits} {free free' : Nat} (h : Packed ws bits free)
    (hb : bits = bits') (hf : free = free') : Packed ws bits' free' := by
  subst hb; subst hf; exact h

/-- arithmetic content of `Packed` for the last word -/
theorem packed_last {init : List Nat} {x : Nat} {bits : Bits} {k : Nat}
    (h : Packed (init ++ [x]) bits k) (hk : k ≤ 64) :
    x % 2^k = 0 ∧ bits = flat init ++ natBits (64 - k) (x / 2^k) := by
  have e := h.eq
  have h64 : 64 = (64 - k) + k := by omega
  rw [flat_append, flat_singleton] at e
  conv at e => lhs; rw [h64, natBits_add, ← List.append_assoc]
  have := List.append_inj' e (by simp)
  obtain ⟨e1, e2⟩ := this
  refine ⟨?_, e1.symm⟩
  have := congrArg bitsNat e2
  rw [bitsNat_natBits, bitsNat_replicate_false] at this
  simpa using this

theorem orLast_concat (init : List Nat) (x v : Nat) : orLast (init ++ [x]) v = init ++ [x ||| v] := by
  induction init with
  | nil => rfl
  | cons a init ih =>
    cases init with
    | nil => rfl
    | cons b init =>
      show a :: orLast ((b :: init) ++ [x]) v = _
      rw [ih]; rfl

theorem orLast_length (ws : List Nat) (v : Nat) : (orLast ws v).length = ws.length := by
  rcases List.eq_nil_or_concat ws with rfl | ⟨init, x, rfl⟩
  · rfl
  · rw [List.concat_eq_append, orLast_concat]; simp

/-- OR-ing an `n`-bit value into the free bits of the last word appends its bits -/
theorem packed_orLast {ws : List Nat} {bits : Bits} {k n v : Nat}
    (h : Packed ws bits k) (hk : k ≤ 64) (hn : n ≤ k) (hv : v < 2^n) :
    Packed (orLast ws (v * 2^(k - n))) (bits ++ natBits n v) (k - n) := by
  rcases List.eq_nil_or_concat ws with rfl | ⟨init, x, rfl⟩
  · have hl := h.length
    simp at hl
    have hk0 : k = 0 := by omega
    have hn0 : n = 0 := by omega
    subst hk0; subst hn0
    have hb : bits = [] := by
      cases bits with
      | nil => rfl
      | cons b bs => simp at hl
    subst hb
    exact packed_nil
  · rw [List.concat_eq_append] at h ⊢
    obtain ⟨hx0, hbits⟩ := packed_last h hk
    have hxlt : x < 2^64 := h.lt x (by simp)
    have hy : v * 2^(k - n) < 2^k := mul_pow_lt hv (by omega)
    rw [orLast_concat, lor_eq_add hx0 hy]
    have hA : x / 2^k < 2^(64 - k) := div_pow_lt hxlt (by omega)
    constructor
    · intro y hy'
      rw [List.mem_append] at hy'
      rcases hy' with hy' | hy'
      · exact h.lt y (by simp [hy'])
      · simp at hy'
        subst hy'
        have e : x = x / 2^k * 2^k := eq_div_mul_of_mod_eq_zero hx0
        have hA' : x / 2^k * 2^k + 2^k ≤ 2^64 := by
          have h1 : (x / 2^k + 1) * 2^k ≤ 2^(64 - k) * 2^k := Nat.mul_le_mul_right _ hA
          rw [← Nat.pow_add, Nat.add_mul, Nat.one_mul] at h1
          have : 64 - k + k = 64 := by omega
          rw [this] at h1; exact h1
        omega
    · rw [flat_append, flat_singleton, hbits]
      have h64 : 64 = (64 - k) + k := by omega
      have hkn : k = n + (k - n) := by omega
      have e : x = x / 2^k * 2^k := eq_div_mul_of_mod_eq_zero hx0
      have e1 : natBits 64 (x + v * 2^(k - n))
          = natBits (64 - k) (x / 2^k) ++ natBits k (v * 2^(k - n)) := by
        conv => lhs; rw [h64, e]
        exact natBits_append_lt hy
      have e2 : natBits k (v * 2^(k - n)) = natBits n v ++ List.replicate (k - n) false := by
        conv => lhs; rw [hkn]
        have : n + (k - n) - n = k - n := by omega
        rw [this]
        exact natBits_mul_pow n (k - n) v
      rw [e1, e2]; simp [List.append_assoc]

/-- pushing a word whose low `f` bits are zero -/
theorem packed_push {ws : List Nat} {bits : Bits} {v f : Nat}
    (h : Packed ws bits 0) (hv : v < 2^64) (hf : v % 2^f = 0) (hf64 : f ≤ 64) :
    Packed (ws ++ [v]) (bits ++ natBits (64 - f) (v / 2^f)) f := by
  constructor
  · intro y hy
    rw [List.mem_append] at hy
    rcases hy with hy | hy
    · exact h.lt y hy
    · simp at hy; subst hy; exact hv
  · have e := h.eq
    simp at e
    rw [flat_append, flat_singleton, e]
    have h64 : 64 = (64 - f) + f := by omega
    conv => lhs; rw [h64, eq_div_mul_of_mod_eq_zero hf]
    rw [natBits_mul_pow, List.append_assoc]

theorem packed_push_full {ws : List Nat} {bits : Bits} {v : Nat}
    (h : Packed ws bits 0) (hv : v < 2^64) : Packed (ws ++ [v]) (bits ++ natBits 64 v) 0 := by
  have := packed_push h hv (f := 0) (by simp [Nat.mod_one]) (by omega)
  simpa using this

/-- `refresh_if_needed` of the writer: a fresh zero word is 64 free bits -/
theorem packed_push_zero {ws : List Nat} {bits : Bits} (h : Packed ws bits 0) :
    Packed (ws ++ [0]) bits 64 := by
  have := packed_push h (v := 0) (f := 64) (by decide) (by simp) (by omega)
  simpa [natBits] using this

end Qco.WB
