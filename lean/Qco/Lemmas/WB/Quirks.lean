import Qco.Lemmas.WB.ReaderRest
/-
Layer B: behaviours of the word-level reader that have no bit-list counterpart.
-/
namespace Qco.WB
open Qco

/-- `read_prefix_table_idx` in the last word, when the table index would straddle the end of the
words: it returns the `64 - j` bits that exist (shifted left as if zeros followed) and parks the
reader at `i = words.len(), j = 64`, i.e. at bit index `64 * words.len() + 64` — beyond
`total_bits`.  A following `bits_remaining()` underflows (panic with overflow checks), and every
checked read reports `InsufficientData`. -/
theorem readPrefixTableIdx_past_end {w : Words} {r : Reader} {t : Nat}
    (hj : r.j < 64) (hlast : r.i + 1 = w.ws.length) (hp : r.bitIdx < w.total)
    (ht : t + r.j > 64) (ht2 : t + r.j - 64 < 64) :
    ∃ res, readPrefixTableIdx w r t = (.ok (64 - r.j, res), { i := w.ws.length, j := 64 })
      ∧ ({ i := w.ws.length, j := 64 } : Reader).bitIdx = 64 * w.ws.length + 64 := by
  have hi : r.i < w.ws.length := by omega
  have href : r.refresh = r := by unfold Reader.refresh; rw [if_neg (by omega)]
  have husz : USIZE = 18446744073709551616 := rfl
  unfold readPrefixTableIdx
  simp only []
  rw [if_neg (by omega), href, if_neg (by omega), if_neg (by omega), List.getElem?_eq_getElem hi]
  simp only []
  rw [if_neg (by omega), if_neg (by omega)]
  have e1 : t - (t + r.j - 64) = 64 - r.j := by omega
  rw [e1, hlast]
  exact ⟨shl64 (low w.ws[r.i] (64 - r.j)) (t + r.j - 64), rfl, rfl⟩

theorem bitsRemaining_past_end {w : Words} {r : Reader} (h : w.total < r.bitIdx) :
    bitsRemaining w r = .panic := by
  unfold bitsRemaining
  rw [if_neg (by omega)]

end Qco.WB
