import Qco.Lemmas.WB.Extend
/-
Layer B, B2 (reader), part 1: positions, word access, `read_one`.
-/
namespace Qco.WB
open Qco

/-- reader invariant: `j ≤ 64` (the reader is normalised or parked at `j = 64`) and the position is
inside the data -/
structure RInv (w : Words) (r : Reader) : Prop where
  j_le : r.j ≤ 64
  pos_le : r.bitIdx ≤ w.total

theorem rinv_start (w : Words) : RInv w {} := ⟨by decide, by simp [Reader.bitIdx]⟩

theorem bitsNat_lt (bs : Bits) : bitsNat bs < 2^bs.length := by
  induction bs with
  | nil => simp
  | cons b bs ih =>
    rw [bitsNat_cons, List.length_cons, Nat.pow_succ]
    cases b <;> simp <;> omega

/-- what `refresh_if_needed` achieves when there is data left -/
theorem refresh_props {w : Words} {r : Reader} (hw : w.WF) (hj : r.j ≤ 64) (hp : r.bitIdx < w.total) :
    r.refresh.bitIdx = r.bitIdx ∧ r.refresh.j < 64 ∧ r.refresh.i < w.ws.length := by
  have hle := hw.total_le
  unfold Reader.refresh
  by_cases h : r.j = 64
  · simp only [h, if_true, Reader.bitIdx] at hp ⊢
    omega
  · simp only [h, if_false, Reader.bitIdx] at hp ⊢
    exact ⟨trivial, by omega, by omega⟩

theorem toBits_drop_take {w : Words} {p n : Nat} (h : p + n ≤ w.total) :
    (w.toBits.drop p).take n = ((flat w.ws).drop p).take n := by
  rw [Words.toBits, List.drop_take, List.take_take]
  congr 1; omega

theorem toBits_getElem? {w : Words} {p : Nat} (h : p < w.total) : w.toBits[p]? = (flat w.ws)[p]? := by
  rw [Words.toBits, List.getElem?_take_of_lt h]

theorem toBits_getElem?_word {w : Words} {i j : Nat} (hi : i < w.ws.length) (hj : j < 64)
    (hp : 64 * i + j < w.total) : w.toBits[64 * i + j]? = some (bitFromWord w.ws[i] j) := by
  rw [toBits_getElem? hp, flat_getElem? hi hj]

/-! ### `read_one` -/

/-- bit-list level `read_one`: value and new position -/
def specReadOne (bits : Bits) (p : Nat) : R Bool × Nat :=
  match bits[p]? with
  | some b => (.ok b, p + 1)
  | none => (.err "InsufficientData", p)

/-- `specReadOne` is the parser `readBit` on the remaining bits -/
theorem specReadOne_eq_readBit (bits : Bits) (p : Nat) :
    specReadOne bits p = match Parser.readBit (bits.drop p) with
      | .ok b _ => (.ok b, p + 1)
      | _ => (.err "InsufficientData", p) := by
  unfold specReadOne
  by_cases h : p < bits.length
  · rw [List.drop_eq_getElem_cons h, List.getElem?_eq_getElem h]; rfl
  · rw [List.drop_of_length_le (by omega), List.getElem?_eq_none (by omega)]; rfl

theorem readOne_spec {w : Words} {r : Reader} (hw : w.WF) (hr : RInv w r) (hsz : r.bitIdx + 1 < USIZE) :
    ((readOne w r).1, (readOne w r).2.bitIdx) = specReadOne w.toBits r.bitIdx
    ∧ RInv w (readOne w r).2
    ∧ (∀ k, (readOne w r).1 = .err k → (readOne w r).2 = r) := by
  unfold readOne insufficientDataCheck specReadOne
  rw [if_neg (by omega)]
  by_cases h : r.bitIdx + 1 > w.total
  · rw [if_pos h, List.getElem?_eq_none (by rw [hw.toBits_length]; omega)]
    exact ⟨rfl, hr, fun _ _ => rfl⟩
  · rw [if_neg h]
    obtain ⟨hb, hj, hi⟩ := refresh_props hw hr.j_le (by omega : r.bitIdx < w.total)
    simp only []
    rw [List.getElem?_eq_getElem hi]
    have hpos : r.bitIdx = 64 * r.refresh.i + r.refresh.j := hb.symm
    have := toBits_getElem?_word hi hj (by rw [← hpos]; omega)
    rw [hpos, this]
    refine ⟨?_, ⟨?_, ?_⟩, ?_⟩
    · simp only [Reader.bitIdx]; rw [Nat.add_assoc]
    · show r.refresh.j + 1 ≤ 64
      omega
    · show 64 * r.refresh.i + (r.refresh.j + 1) ≤ w.total
      omega
    · intro k hk; cases hk

/-- `unchecked_read_one` agrees with `read_one` when a bit is left -/
theorem uncheckedReadOne_eq {w : Words} {r : Reader} (h : r.bitIdx + 1 ≤ w.total)
    (hsz : r.bitIdx + 1 < USIZE) : uncheckedReadOne w r = readOne w r := by
  unfold readOne uncheckedReadOne insufficientDataCheck
  rw [if_neg (by omega), if_neg (by omega)]

end Qco.WB
