import Qco.Lemmas.WB.ReaderBasics
/-
Layer B, B2 (reader), part 2: `read_diff`, `unchecked_read_diff`, `read_usize`, `read`.
-/
namespace Qco.WB
open Qco

/-- bit-list level `read_diff` / `read_usize`: value and new position -/
def specReadNat (bits : Bits) (p n : Nat) : R Nat × Nat :=
  if p + n ≤ bits.length then (.ok (bitsNat ((bits.drop p).take n)), p + n)
  else (.err "InsufficientData", p)

/-- `specReadNat` is the parser `readNat` on the remaining bits -/
theorem specReadNat_eq_readNat (bits : Bits) (p n : Nat) (hp : p ≤ bits.length) :
    specReadNat bits p n = match Parser.readNat n (bits.drop p) with
      | .ok v _ => (.ok v, p + n)
      | _ => (.err "InsufficientData", p) := by
  unfold specReadNat Parser.readNat
  rw [Parser.readBits_def, List.length_drop]
  by_cases h : p + n ≤ bits.length
  · rw [if_pos h, if_neg (by omega)]
  · rw [if_neg h, if_pos (by omega)]

/-- the tail of a multi-word read adds the value of the next `rem` bits -/
theorem diffTail_spec (ub : Nat) (ws : List Nat) (hlt : ∀ x ∈ ws, x < 2^64) :
    ∀ (rem i res : Nat), res % 2^rem = 0 → res < 2^ub → rem ≤ ub →
      rem ≤ 64 * (ws.length - (i + 1)) →
      ∃ r' : Reader, diffTail ub ws i rem res
          = (.ok (res + bitsNat ((flat (ws.drop (i + 1))).take rem)), r')
        ∧ r'.bitIdx = 64 * (i + 1) + rem ∧ r'.j ≤ 64 := by
  intro rem
  induction rem using Nat.strongRecOn with
  | _ rem ih =>
    intro i res hres hresub hrem henough
    rw [diffTail]
    by_cases h64 : rem ≥ 64
    · have hi : i + 1 < ws.length := by omega
      have hx : ws[i + 1] < 2^64 := hlt _ (List.getElem_mem hi)
      rw [dif_pos h64, List.getElem?_eq_getElem hi]
      simp only []
      rw [if_neg (by omega)]
      have hub : (2:Nat)^64 ≤ 2^ub := Nat.pow_le_pow_right (by decide) (by omega)
      have hy : ws[i + 1] * 2^(rem - 64) < 2^rem := mul_pow_lt hx (by omega)
      have hyub : ws[i + 1] * 2^(rem - 64) < 2^ub :=
        Nat.lt_of_lt_of_le hy (Nat.pow_le_pow_right (by decide) hrem)
      rw [Nat.mod_eq_of_lt (Nat.lt_of_lt_of_le hx hub), Nat.mod_eq_of_lt hyub, lor_eq_add hres hy]
      have hres' : (res + ws[i + 1] * 2^(rem - 64)) % 2^(rem - 64) = 0 := by
        rw [Nat.add_mul_mod_self_right]
        exact mod_pow_of_mod_pow_zero hres (by omega)
      have hsum : res + ws[i + 1] * 2^(rem - 64) < 2^ub := by
        -- res is a multiple of 2^rem below 2^ub, the new term is below 2^rem
        have e := eq_div_mul_of_mod_eq_zero hres
        have hsplit : (2:Nat)^ub = 2^(ub - rem) * 2^rem := pow_split hrem
        have hq : res / 2^rem < 2^(ub - rem) := by
          apply Nat.div_lt_of_lt_mul; rw [Nat.mul_comm, ← hsplit]; exact hresub
        have : (res / 2^rem + 1) * 2^rem ≤ 2^(ub - rem) * 2^rem := Nat.mul_le_mul_right _ hq
        rw [Nat.add_mul, Nat.one_mul, ← e, ← hsplit] at this
        omega
      have hv : bitsNat ((flat (ws.drop (i + 1))).take rem)
          = ws[i + 1] * 2^(rem - 64) + bitsNat ((flat (ws.drop (i + 1 + 1))).take (rem - 64)) := by
        rw [List.drop_eq_getElem_cons hi, flat_cons, List.take_append, natBits_length,
          List.take_of_length_le (l := natBits 64 ws[i + 1]) (by simp; omega),
          bitsNat_append, bitsNat_natBits_of_lt hx, List.length_take, flat_length, List.length_drop]
        have : min (rem - 64) (64 * (ws.length - (i + 1 + 1))) = rem - 64 := by omega
        rw [this]
      obtain ⟨r', h1, h2, h3⟩ := ih (rem - 64) (by omega) (i + 1) _ hres' hsum (by omega) (by omega)
      refine ⟨r', ?_, by omega, h3⟩
      rw [h1, hv, Nat.add_assoc]
    · rw [dif_neg h64]
      by_cases h0 : rem > 0
      · have hi : i + 1 < ws.length := by omega
        have hx : ws[i + 1] < 2^64 := hlt _ (List.getElem_mem hi)
        rw [if_pos h0, List.getElem?_eq_getElem hi]
        simp only [shr]
        have hy : ws[i + 1] / 2^(64 - rem) < 2^rem := div_pow_lt hx (by omega)
        have hyub : ws[i + 1] / 2^(64 - rem) < 2^ub :=
          Nat.lt_of_lt_of_le hy (Nat.pow_le_pow_right (by decide) hrem)
        rw [Nat.mod_eq_of_lt hyub, lor_eq_add hres hy]
        have hv : bitsNat ((flat (ws.drop (i + 1))).take rem) = ws[i + 1] / 2^(64 - rem) := by
          rw [List.drop_eq_getElem_cons hi, flat_cons,
            List.take_append_of_le_length (by simp; omega), natBits_take (by omega),
            bitsNat_natBits, Nat.mod_eq_of_lt hy]
        rw [hv]
        exact ⟨{ i := i + 1, j := rem }, rfl, rfl, by show rem ≤ 64; omega⟩
      · have hr0 : rem = 0 := by omega
        subst hr0
        rw [if_neg h0]
        refine ⟨{ i := i, j := 64 }, by simp, ?_, by simp⟩
        show 64 * i + 64 = 64 * (i + 1) + 0
        omega

/-- bit-list view of the bits at a normalised position -/
theorem flat_drop_take_word {ws : List Nat} {i j n : Nat} (hi : i < ws.length) (hj : n + j ≤ 64) :
    ((flat ws).drop (64 * i + j)).take n = ((natBits 64 ws[i]).drop j).take n := by
  rw [flat_drop hi (by omega), List.take_append_of_le_length (by simp; omega)]

theorem uncheckedReadDiff_spec {ub : Nat} {w : Words} {r : Reader} {n : Nat}
    (hw : w.WF) (hr : RInv w r) (hn : n ≤ ub) (hfit : r.bitIdx + n ≤ w.total)
    (hsz : r.bitIdx + n + 64 < USIZE) :
    ∃ r', uncheckedReadDiff ub w r n = (.ok (bitsNat ((w.toBits.drop r.bitIdx).take n)), r')
      ∧ r'.bitIdx = r.bitIdx + n ∧ r'.j ≤ 64 := by
  unfold uncheckedReadDiff
  by_cases hn0 : n = 0
  · subst hn0
    exact ⟨r, by simp, rfl, hr.j_le⟩
  · rw [if_neg hn0]
    obtain ⟨hb, hj, hi⟩ := refresh_props hw hr.j_le (by omega : r.bitIdx < w.total)
    have hpos : r.bitIdx = 64 * r.refresh.i + r.refresh.j := hb.symm
    have hx : w.ws[r.refresh.i] < 2^64 := hw.lt _ (List.getElem_mem hi)
    have hlen := hw.total_le
    simp only []
    rw [if_neg (by rw [hpos] at hsz; omega), List.getElem?_eq_getElem hi, toBits_drop_take hfit]
    by_cases h1 : n + r.refresh.j ≤ 64
    · rw [if_pos h1]
      simp only [shr, low]
      have hv : bitsNat (((flat w.ws).drop r.bitIdx).take n)
          = w.ws[r.refresh.i] % 2^(64 - r.refresh.j) / 2^(64 - (n + r.refresh.j)) % 2^ub := by
        rw [hpos, flat_drop_take_word hi h1, bitsNat_natBits_slice (by omega)]
        have e : 64 - (n + r.refresh.j) = 64 - r.refresh.j - n := by omega
        have hlt : w.ws[r.refresh.i] % 2^(64 - r.refresh.j) / 2^(64 - r.refresh.j - n) < 2^ub := by
          have : w.ws[r.refresh.i] % 2^(64 - r.refresh.j) / 2^(64 - r.refresh.j - n) < 2^n :=
            div_pow_lt (Nat.mod_lt _ (Nat.two_pow_pos _)) (by omega)
          exact Nat.lt_of_lt_of_le this (Nat.pow_le_pow_right (by decide) hn)
        rw [e, Nat.mod_eq_of_lt hlt]
      rw [hv]
      refine ⟨{ i := r.refresh.i, j := n + r.refresh.j }, rfl, ?_, h1⟩
      show 64 * r.refresh.i + (n + r.refresh.j) = r.bitIdx + n
      omega
    · rw [if_neg h1]
      simp only []
      rw [if_neg (by omega)]
      simp only [low]
      obtain ⟨rem, hrem⟩ : ∃ rem, rem = n + r.refresh.j - 64 := ⟨_, rfl⟩
      rw [← hrem]
      have hlow : w.ws[r.refresh.i] % 2^(64 - r.refresh.j) < 2^(64 - r.refresh.j) :=
        Nat.mod_lt _ (Nat.two_pow_pos _)
      have hlown : w.ws[r.refresh.i] % 2^(64 - r.refresh.j) * 2^rem < 2^n := mul_pow_lt hlow (by omega)
      have hnub : (2:Nat)^n ≤ 2^ub := Nat.pow_le_pow_right (by decide) hn
      have hlowub : w.ws[r.refresh.i] % 2^(64 - r.refresh.j) < 2^ub :=
        Nat.lt_of_le_of_lt (Nat.le_mul_of_pos_right _ (Nat.two_pow_pos rem)) (Nat.lt_of_lt_of_le hlown hnub)
      rw [Nat.mod_eq_of_lt hlowub, Nat.mod_eq_of_lt (Nat.lt_of_lt_of_le hlown hnub)]
      obtain ⟨r', h1', h2', h3'⟩ := diffTail_spec ub w.ws hw.lt rem r.refresh.i _
        (Nat.mul_mod_left _ _) (Nat.lt_of_lt_of_le hlown hnub) (by omega) (by omega)
      have hv : bitsNat (((flat w.ws).drop r.bitIdx).take n)
          = w.ws[r.refresh.i] % 2^(64 - r.refresh.j) * 2^rem
            + bitsNat ((flat (w.ws.drop (r.refresh.i + 1))).take rem) := by
        rw [hpos, flat_drop hi (by omega), List.take_append,
          List.take_of_length_le (l := (natBits 64 w.ws[r.refresh.i]).drop r.refresh.j) (by simp; omega),
          bitsNat_append, natBits_drop (by omega), bitsNat_natBits]
        simp only [List.length_drop, natBits_length, List.length_take, flat_length]
        have : min (n - (64 - r.refresh.j)) (64 * (w.ws.length - (r.refresh.i + 1))) = rem := by omega
        have e2 : n - (64 - r.refresh.j) = rem := by omega
        rw [this, e2]
      refine ⟨r', ?_, by omega, h3'⟩
      rw [h1', hv]

/-- **B2** `read_diff::<U>` (for `n ≤ U::BITS`) is `readNat` on the bit list -/
theorem readDiff_spec {ub : Nat} {w : Words} {r : Reader} {n : Nat}
    (hw : w.WF) (hr : RInv w r) (hn : n ≤ ub) (hsz : r.bitIdx + n + 64 < USIZE) :
    ((readDiff ub w r n).1, (readDiff ub w r n).2.bitIdx) = specReadNat w.toBits r.bitIdx n
    ∧ RInv w (readDiff ub w r n).2
    ∧ (∀ k, (readDiff ub w r n).1 = .err k → (readDiff ub w r n).2 = r) := by
  unfold readDiff insufficientDataCheck specReadNat
  rw [if_neg (by omega), hw.toBits_length]
  by_cases h : r.bitIdx + n > w.total
  · rw [if_pos h, if_neg (by omega)]
    exact ⟨rfl, hr, fun _ _ => rfl⟩
  · rw [if_neg h, if_pos (by omega)]
    obtain ⟨r', h1, h2, h3⟩ := uncheckedReadDiff_spec hw hr hn (by omega) hsz
    simp only [h1, h2]
    exact ⟨trivial, ⟨h3, by omega⟩, fun k hk => by cases hk⟩

/-- `unchecked_read_diff` agrees with `read_diff` whenever the bits are there -/
theorem uncheckedReadDiff_eq_readDiff {ub : Nat} {w : Words} {r : Reader} {n : Nat}
    (hfit : r.bitIdx + n ≤ w.total) (hsz : r.bitIdx + n < USIZE) :
    uncheckedReadDiff ub w r n = readDiff ub w r n := by
  unfold readDiff insufficientDataCheck
  rw [if_neg (by omega), if_neg (by omega)]

/-- **B2** `read_usize` -/
theorem readUsize_spec {w : Words} {r : Reader} {n : Nat}
    (hw : w.WF) (hr : RInv w r) (hn : n ≤ 64) (hsz : r.bitIdx + n + 64 < USIZE) :
    ((readUsize w r n).1, (readUsize w r n).2.bitIdx) = specReadNat w.toBits r.bitIdx n
    ∧ RInv w (readUsize w r n).2
    ∧ (∀ k, (readUsize w r n).1 = .err k → (readUsize w r n).2 = r) :=
  readDiff_spec hw hr hn hsz

end Qco.WB
