import Qco.Lemmas.WB.ReaderDiff
/-
Layer B, B2 (reader), part 3: `read`, `read_varint`.
-/
namespace Qco.WB
open Qco

/-! ### `read` -/

/-- bit-list level `read`: the bits and the new position -/
def specReadBits (bits : Bits) (p n : Nat) : R Bits × Nat :=
  if p + n ≤ bits.length then (.ok ((bits.drop p).take n), p + n)
  else (.err "InsufficientData", p)

theorem specReadBits_eq_readBits (bits : Bits) (p n : Nat) (hp : p ≤ bits.length) :
    specReadBits bits p n = match Parser.readBits n (bits.drop p) with
      | .ok v _ => (.ok v, p + n)
      | _ => (.err "InsufficientData", p) := by
  unfold specReadBits
  rw [Parser.readBits_def, List.length_drop]
  by_cases h : p + n ≤ bits.length
  · rw [if_pos h, if_neg (by omega)]
  · rw [if_neg h, if_pos (by omega)]

theorem take_succ_drop {bits : Bits} {p n : Nat} {b : Bool} (h : bits[p]? = some b) :
    (bits.drop p).take (n + 1) = b :: (bits.drop (p + 1)).take n := by
  have hp : p < bits.length := by
    rcases Nat.lt_or_ge p bits.length with h' | h'
    · exact h'
    · rw [List.getElem?_eq_none h'] at h; cases h
  rw [List.drop_eq_getElem_cons hp, List.take_succ_cons]
  rw [List.getElem?_eq_getElem hp] at h
  cases h; rfl

theorem readLoop_spec {w : Words} (hw : w.WF) :
    ∀ (n : Nat) (r : Reader) (word : Nat) (acc : List Bool),
      r.j ≤ 64 → (r.j < 64 → w.ws[r.i]? = some word) → r.bitIdx + n ≤ w.total →
      ∃ r', readLoop w n r word acc = (.ok (acc.reverse ++ (w.toBits.drop r.bitIdx).take n), r')
        ∧ r'.bitIdx = r.bitIdx + n ∧ r'.j ≤ 64 := by
  intro n
  induction n with
  | zero => intro r word acc hj _ _; exact ⟨r, by simp [readLoop], rfl, hj⟩
  | succ n ih =>
    intro r word acc hj hword hfit
    have hlen := hw.total_le
    rw [readLoop]
    by_cases h64 : r.j = 64
    · rw [if_pos h64]
      have hi : r.i + 1 < w.ws.length := by simp only [Reader.bitIdx] at hfit; omega
      simp only []
      rw [List.getElem?_eq_getElem hi]
      simp only []
      have hpos : r.bitIdx = 64 * (r.i + 1) + 0 := by simp only [Reader.bitIdx]; omega
      have hbit := toBits_getElem?_word (w := w) hi (by omega : 0 < 64) (by omega)
      rw [← hpos] at hbit
      obtain ⟨r', h1, h2, h3⟩ := ih { i := r.i + 1, j := 1 } w.ws[r.i + 1]
        (bitFromWord w.ws[r.i + 1] 0 :: acc) (by show 1 ≤ 64; omega)
        (fun _ => List.getElem?_eq_getElem hi)
        (by simp only [Reader.bitIdx] at hfit ⊢; omega)
      refine ⟨r', ?_, ?_, h3⟩
      · rw [h1, take_succ_drop hbit, List.reverse_cons, List.append_assoc]
        have : ({ i := r.i + 1, j := 1 } : Reader).bitIdx = r.bitIdx + 1 := by
          simp only [Reader.bitIdx]; omega
        rw [this]; rfl
      · rw [h2]; simp only [Reader.bitIdx]; omega
    · rw [if_neg h64]
      have hjlt : r.j < 64 := by omega
      have hw' := hword hjlt
      have hi : r.i < w.ws.length := by
        rcases Nat.lt_or_ge r.i w.ws.length with h' | h'
        · exact h'
        · rw [List.getElem?_eq_none h'] at hw'; cases hw'
      rw [List.getElem?_eq_getElem hi] at hw'
      have hwd : word = w.ws[r.i] := by cases hw'; rfl
      have hbit := toBits_getElem?_word (w := w) hi hjlt (by simp only [Reader.bitIdx] at hfit; omega)
      obtain ⟨r', h1, h2, h3⟩ := ih { r with j := r.j + 1 } word
        (bitFromWord word r.j :: acc) (by show r.j + 1 ≤ 64; omega)
        (fun _ => by show w.ws[r.i]? = some word; rw [List.getElem?_eq_getElem hi, hwd])
        (by simp only [Reader.bitIdx] at hfit ⊢; omega)
      refine ⟨r', ?_, ?_, h3⟩
      · have hb' : w.toBits[r.bitIdx]? = some (bitFromWord word r.j) := by rw [hwd]; exact hbit
        rw [h1, take_succ_drop hb', List.reverse_cons, List.append_assoc]
        have : ({ r with j := r.j + 1 } : Reader).bitIdx = r.bitIdx + 1 := by
          simp only [Reader.bitIdx]; omega
        rw [this]; rfl
      · rw [h2]; simp only [Reader.bitIdx]; omega

/-- **B2** `read`: when the current word exists.  (If `r.i` is out of range — possible only for a
normalised reader exactly at the end of word-aligned data, or on empty data — `read` panics even
for `n = 0`, see `read_panics`.) -/
theorem read_spec {w : Words} {r : Reader} {n : Nat} (hw : w.WF) (hr : RInv w r)
    (hi : r.i < w.ws.length) (hsz : r.bitIdx + n < USIZE) :
    ((read w r n).1, (read w r n).2.bitIdx) = specReadBits w.toBits r.bitIdx n
    ∧ RInv w (read w r n).2
    ∧ (∀ k, (read w r n).1 = .err k → (read w r n).2 = r) := by
  unfold read insufficientDataCheck specReadBits
  rw [if_neg (by omega), hw.toBits_length]
  by_cases h : r.bitIdx + n > w.total
  · rw [if_pos h, if_neg (by omega)]
    exact ⟨rfl, hr, fun _ _ => rfl⟩
  · rw [if_neg h, if_pos (by omega)]
    simp only []
    rw [List.getElem?_eq_getElem hi]
    simp only []
    obtain ⟨r', h1, h2, h3⟩ := readLoop_spec hw n r w.ws[r.i] [] hr.j_le
      (fun _ => List.getElem?_eq_getElem hi) (by omega)
    simp only [h1, h2, List.reverse_nil, List.nil_append]
    exact ⟨trivial, ⟨h3, by omega⟩, fun k hk => by cases hk⟩

theorem read_panics {w : Words} {r : Reader} {n : Nat} (hfit : r.bitIdx + n ≤ w.total)
    (hsz : r.bitIdx + n < USIZE) (hi : w.ws.length ≤ r.i) : (read w r n).1 = .panic := by
  unfold read insufficientDataCheck
  rw [if_neg (by omega), if_neg (by omega)]
  simp only []
  rw [List.getElem?_eq_none hi]

/-! ### `read_varint` -/

theorem lor_two_pow {res i : Nat} (h : res < 2^i) : res ||| 2^i = res + 2^i :=
  lor_eq_add' h (Nat.mod_self _)

theorem drop_of_getElem? {bits : Bits} {p : Nat} {b : Bool} (h : bits[p]? = some b) :
    bits.drop p = b :: bits.drop (p + 1) := by
  have hp : p < bits.length := by
    rcases Nat.lt_or_ge p bits.length with h' | h'
    · exact h'
    · rw [List.getElem?_eq_none h'] at h; cases h
  rw [List.drop_eq_getElem_cons hp]
  rw [List.getElem?_eq_getElem hp] at h
  cases h; rfl

/-- one successful `read_one`, unpacked -/
theorem readOne_ok {w : Words} {r : Reader} {b : Bool} (hw : w.WF) (hr : RInv w r)
    (hsz : r.bitIdx + 1 < USIZE) (hb : w.toBits[r.bitIdx]? = some b) :
    ∃ r', readOne w r = (.ok b, r') ∧ r'.bitIdx = r.bitIdx + 1 ∧ RInv w r' := by
  obtain ⟨h1, h2, _⟩ := readOne_spec hw hr hsz
  rw [specReadOne, hb] at h1
  have ha : (readOne w r).1 = .ok b := congrArg Prod.fst h1
  have hp : (readOne w r).2.bitIdx = r.bitIdx + 1 := congrArg Prod.snd h1
  exact ⟨(readOne w r).2, by rw [← ha], hp, h2⟩

theorem readOne_err {w : Words} {r : Reader} (hw : w.WF) (hr : RInv w r)
    (hsz : r.bitIdx + 1 < USIZE) (hb : w.toBits[r.bitIdx]? = none) :
    readOne w r = (.err "InsufficientData", r) := by
  obtain ⟨h1, _, h3⟩ := readOne_spec hw hr hsz
  rw [specReadOne, hb] at h1
  have ha : (readOne w r).1 = .err "InsufficientData" := congrArg Prod.fst h1
  exact Prod.ext ha (h3 _ ha)

/-- result of the bit-list parser, seen from the word level -/
def varintOutcome (res : Res Nat) (out : R Nat × Reader) (w : Words) (f : Nat → Nat) : Prop :=
  match res with
  | .ok high rest => out.1 = .ok (f high) ∧ w.toBits.drop out.2.bitIdx = rest ∧ RInv w out.2
  | .insufficient => out.1 = .err "InsufficientData" ∧ RInv w out.2
  | _ => False

theorem varintLoop_spec {w : Words} (hw : w.WF) :
    ∀ (fuel i : Nat) (r : Reader) (res : Nat), RInv w r → res < 2^i →
      r.bitIdx + 2 * fuel < USIZE →
      varintOutcome (decVarintHigh fuel (w.toBits.drop r.bitIdx)) (varintLoop w fuel i r res) w
        (fun high => res + 2^i * high) := by
  intro fuel
  induction fuel with
  | zero =>
    intro i r res hr _ _
    simp only [decVarintHigh, Parser.pure, varintLoop, varintOutcome]
    exact ⟨by simp, trivial, hr⟩
  | succ fuel ih =>
    intro i r res hr hres hsz
    rw [varintLoop, decVarintHigh]
    cases hb : w.toBits[r.bitIdx]? with
    | none =>
      have hd : w.toBits.drop r.bitIdx = [] := by
        apply List.drop_of_length_le
        rcases Nat.lt_or_ge r.bitIdx w.toBits.length with h' | h'
        · rw [List.getElem?_eq_getElem h'] at hb; cases hb
        · exact h'
      rw [readOne_err hw hr (by omega) hb, hd]
      simp only [Parser.bind, Parser.readBit, varintOutcome]
      exact ⟨trivial, hr⟩
    | some c =>
      obtain ⟨r1, e1, hp1, hr1⟩ := readOne_ok hw hr (by omega) hb
      rw [e1, drop_of_getElem? hb]
      cases c with
      | false =>
        simp only [Parser.bind, Parser.readBit, varintOutcome]
        refine ⟨by simp, ?_, hr1⟩
        rw [hp1]
      | true =>
        simp only [Parser.bind, Parser.readBit, if_true]
        cases hb2 : w.toBits[r.bitIdx + 1]? with
        | none =>
          have hd : w.toBits.drop (r.bitIdx + 1) = [] := by
            apply List.drop_of_length_le
            rcases Nat.lt_or_ge (r.bitIdx + 1) w.toBits.length with h' | h'
            · rw [List.getElem?_eq_getElem h'] at hb2; cases hb2
            · exact h'
          rw [← hp1] at hb2
          rw [readOne_err hw hr1 (by omega) hb2, hd]
          simp only [varintOutcome]
          exact ⟨trivial, hr1⟩
        | some b =>
          rw [drop_of_getElem? hb2]
          rw [← hp1] at hb2
          obtain ⟨r2, e2, hp2, hr2⟩ := readOne_ok hw hr1 (by omega) hb2
          rw [e2]
          simp only []
          have hres' : (if b then res ||| 2^i else res) < 2^(i + 1) := by
            rw [Nat.pow_succ]
            cases b
            · simp; omega
            · simp only [if_true]; rw [lor_two_pow hres]; omega
          have hpos : r2.bitIdx = r.bitIdx + 1 + 1 := by rw [hp2, hp1]
          have := ih (i + 1) r2 _ hr2 hres' (by omega)
          rw [hpos] at this
          revert this
          cases decVarintHigh fuel (w.toBits.drop (r.bitIdx + 1 + 1)) with
          | ok high rest =>
            simp only [varintOutcome, Parser.pure]
            intro ⟨h1, h2, h3⟩
            refine ⟨?_, h2, h3⟩
            rw [h1]
            congr 1
            have hor : res ||| 2^i = res + 2^i := lor_two_pow hres
            rw [Nat.pow_succ]
            cases b
            · simp only [Bool.false_eq_true, if_false, Bool.toNat_false, Nat.zero_add]
              rw [Nat.mul_assoc]
            · simp only [if_true, Bool.toNat_true]
              rw [hor, Nat.mul_add, Nat.mul_one, Nat.mul_assoc]
              omega
          | insufficient => simp only [varintOutcome]; exact id
          | corrupt => simp only [varintOutcome]; exact id
          | compat => simp only [varintOutcome]; exact id

/-- **B2** `read_varint(jumpstart)` is `decVarint 24 jumpstart` on the remaining bits: same value,
same number of consumed bits, `InsufficientData` exactly when the parser says `insufficient`
(the word-level reader then stays where the failing sub-read left it). -/
theorem readVarint_spec {w : Words} {r : Reader} {j : Nat} (hw : w.WF) (hr : RInv w r)
    (hj : j ≤ 64) (hsz : r.bitIdx + 256 < USIZE) :
    varintOutcome (decVarint 24 j (w.toBits.drop r.bitIdx)) (readVarint w r j) w id := by
  obtain ⟨h1, h2, h3⟩ := readUsize_spec hw hr hj (by omega)
  rw [specReadNat, hw.toBits_length] at h1
  unfold readVarint decVarint
  simp only [Parser.bind]
  rw [Parser.readNat, Parser.readBits_def, List.length_drop, hw.toBits_length]
  by_cases hfit : r.bitIdx + j ≤ w.total
  · rw [if_pos hfit] at h1
    rw [if_neg (by omega)]
    have ha : (readUsize w r j).1 = .ok (bitsNat ((w.toBits.drop r.bitIdx).take j)) :=
      congrArg Prod.fst h1
    have hp : (readUsize w r j).2.bitIdx = r.bitIdx + j := congrArg Prod.snd h1
    rcases hru : readUsize w r j with ⟨a, r1⟩
    rw [hru] at ha hp h2
    simp only at ha hp h2
    subst ha
    simp only []
    have hlow : bitsNat ((w.toBits.drop r.bitIdx).take j) < 2^j := by
      have := bitsNat_lt ((w.toBits.drop r.bitIdx).take j)
      rw [List.length_take, List.length_drop, hw.toBits_length] at this
      have e : min j (w.total - r.bitIdx) = j := by omega
      rw [e] at this; exact this
    have := varintLoop_spec hw (24 - j) j r1 _ h2 hlow (by omega)
    rw [hp, ← List.drop_drop] at this
    revert this
    cases decVarintHigh (24 - j) (List.drop j (w.toBits.drop r.bitIdx)) with
    | ok high rest =>
      simp only [varintOutcome, Parser.pure, id]; exact id
    | insufficient => simp only [varintOutcome]; exact id
    | corrupt => simp only [varintOutcome]; exact id
    | compat => simp only [varintOutcome]; exact id
  · rw [if_neg hfit] at h1
    have hpl := hr.pos_le
    rw [if_pos (by omega)]
    have ha : (readUsize w r j).1 = .err "InsufficientData" := congrArg Prod.fst h1
    have hr' := h3 _ ha
    rcases hru : readUsize w r j with ⟨a, r1⟩
    rw [hru] at ha hr'
    simp only at ha hr'
    subst ha; subst hr'
    simp only [varintOutcome]
    exact ⟨trivial, hr⟩

end Qco.WB
