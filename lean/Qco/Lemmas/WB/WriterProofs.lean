import Qco.Lemmas.WB.Extend
/-
Layer B, B2 (writer): `BitWriter` appends bits.
-/
namespace Qco.WB
open Qco

/-- the `bit_size` bits written so far -/
def Writer.bits (wr : Writer) : Bits := (flat wr.ws).take wr.bitSize

/-- writer invariant: `j ≤ 64`, no words only in the initial state `j = 64`, words are `usize`
values and the `64 - j` unwritten bits of the last word are zero -/
structure WInv (wr : Writer) : Prop where
  j_le : wr.j ≤ 64
  nonempty : wr.ws = [] → wr.j = 64
  packed : Packed wr.ws wr.bits (64 - wr.j)

theorem winv_default : WInv {} := by
  refine ⟨by decide, fun _ => rfl, ?_⟩
  show Packed [] (List.take _ (flat [])) (64 - 64)
  simpa using packed_nil

theorem WInv.bits_length {wr : Writer} (h : WInv wr) : wr.bits.length = wr.bitSize := by
  have := h.packed.length
  have := h.j_le
  unfold Writer.bitSize; omega

theorem WInv.ws_length {wr : Writer} (h : WInv wr) : 64 * wr.ws.length = wr.bits.length + (64 - wr.j) :=
  h.packed.length

/-- how to establish the invariant: exhibit the packed contents -/
theorem winv_of_packed {ws : List Nat} {j : Nat} {bits : Bits} (hp : Packed ws bits (64 - j))
    (hj : j ≤ 64) (hne : ws = [] → j = 64) :
    Writer.bits ⟨ws, j⟩ = bits ∧ WInv ⟨ws, j⟩ := by
  have hl := hp.length
  have hb : Writer.bits ⟨ws, j⟩ = bits := by
    show (flat ws).take (ws.length * 64 - (64 - j)) = bits
    have e : ws.length * 64 - (64 - j) = bits.length := by omega
    rw [hp.eq, e, List.take_append_of_le_length (Nat.le_refl _), List.take_length]
  refine ⟨hb, hj, hne, ?_⟩
  rw [hb]; exact hp

/-- `refresh_if_needed` -/
theorem refresh_packed {wr : Writer} (h : WInv wr) :
    Packed wr.refresh.ws wr.bits (64 - wr.refresh.j) ∧ wr.refresh.j < 64 ∧ wr.refresh.ws ≠ [] := by
  unfold Writer.refresh
  by_cases hj : wr.j = 64
  · rw [if_pos hj]
    have hp := h.packed
    rw [hj] at hp
    exact ⟨packed_push_zero hp, by show 0 < 64; omega, by simp⟩
  · rw [if_neg hj]
    have := h.j_le
    exact ⟨h.packed, by omega, fun hn => hj (h.nonempty hn)⟩

theorem orLast_ne_nil {ws : List Nat} (v : Nat) (h : ws ≠ []) : orLast ws v ≠ [] := by
  intro hn
  have := orLast_length ws v
  rw [hn] at this
  cases ws with
  | nil => exact h rfl
  | cons a l => simp at this

theorem orLast_zero (ws : List Nat) : orLast ws 0 = ws := by
  rcases List.eq_nil_or_concat ws with rfl | ⟨init, x, rfl⟩
  · rfl
  · rw [List.concat_eq_append, orLast_concat, Nat.or_zero]

/-! ### `write_one`, `write` -/

theorem writeOne_spec {wr : Writer} (h : WInv wr) (b : Bool) :
    (wr.writeOne b).bits = wr.bits ++ [b] ∧ WInv (wr.writeOne b) := by
  obtain ⟨hp, hj, hne⟩ := refresh_packed h
  have step := packed_orLast hp (by omega) (n := 1) (v := b.toNat) (by omega)
    (by cases b <;> simp)
  have e1 : 64 - wr.refresh.j - 1 = 63 - wr.refresh.j := by omega
  have e2 : 63 - wr.refresh.j = 64 - (wr.refresh.j + 1) := by omega
  have hnb : natBits 1 b.toNat = [b] := by cases b <;> rfl
  rw [e1, hnb] at step
  unfold Writer.writeOne
  simp only []
  cases b with
  | false =>
    simp only [Bool.toNat_false, Nat.zero_mul, orLast_zero] at step
    exact winv_of_packed (step.congr rfl e2) (by omega) (fun hn => absurd hn hne)
  | true =>
    simp only [Bool.toNat_true, Nat.one_mul] at step
    simp only [if_true]
    exact winv_of_packed (step.congr rfl e2) (by omega)
      (fun hn => absurd hn (orLast_ne_nil _ hne))

theorem write_spec (bs : List Bool) : ∀ {wr : Writer}, WInv wr →
    (wr.write bs).bits = wr.bits ++ bs ∧ WInv (wr.write bs) := by
  induction bs with
  | nil => intro wr h; exact ⟨by simp [Writer.write], h⟩
  | cons b bs ih =>
    intro wr h
    obtain ⟨h1, h2⟩ := writeOne_spec h b
    obtain ⟨h3, h4⟩ := ih h2
    unfold Writer.write at h3 h4 ⊢
    rw [List.foldl_cons]
    exact ⟨by rw [h3, h1, List.append_assoc]; rfl, h4⟩

/-! ### `write_diff`, `write_usize` -/

theorem mul_pow_mod_pow (x n s : Nat) : x * 2^s % 2^(n + s) = x % 2^n * 2^s := by
  rw [Nat.pow_add, Nat.mul_mod_mul_right]

theorem pushRest_spec (ub x : Nat) :
    ∀ (rem : Nat) (ws : List Nat) (bits : Bits), Packed ws bits 0 → 0 < rem → rem ≤ max ub 64 →
      ∃ ws' j', Writer.pushRest ub x ws rem = .ok (ws', j') ∧ 0 < j' ∧ j' ≤ 64 ∧ ws' ≠ []
        ∧ Packed ws' (bits ++ natBits rem x) (64 - j') := by
  intro rem
  induction rem using Nat.strongRecOn with
  | _ rem ih =>
    intro ws bits hp h0 hub
    rw [Writer.pushRest]
    by_cases h64 : rem > 64
    · rw [dif_pos h64, Writer.rshiftWord, if_neg (by omega)]
      simp only []
      have hv : x / 2^(rem - 64) % 2^64 < 2^64 := Nat.mod_lt _ (Nat.two_pow_pos _)
      have step := packed_push_full hp hv
      rw [← natBits_mod] at step
      obtain ⟨ws', j', e, hj0, hj, hne, hp'⟩ := ih (rem - 64) (by omega) _ _ step (by omega) (by omega)
      refine ⟨ws', j', e, hj0, hj, hne, hp'.congr ?_ rfl⟩
      have hr : rem = 64 + (rem - 64) := by omega
      conv => rhs; rw [hr, natBits_add]
      rw [List.append_assoc]
    · rw [dif_neg h64, Writer.lshiftWord, if_neg (by omega)]
      simp only []
      have h64' : 64 = rem + (64 - rem) := by omega
      have hv : x * 2^(64 - rem) % 2^64 = x % 2^rem * 2^(64 - rem) := by
        have e := mul_pow_mod_pow x rem (64 - rem)
        rw [← h64'] at e; exact e
      rw [hv]
      have hlt : x % 2^rem * 2^(64 - rem) < 2^64 :=
        mul_pow_lt (Nat.mod_lt _ (Nat.two_pow_pos _)) (by omega)
      have step := packed_push hp hlt (f := 64 - rem) (Nat.mul_mod_left _ _) (by omega)
      refine ⟨_, rem, rfl, h0, by omega, by simp, step.congr ?_ rfl⟩
      have e : 64 - (64 - rem) = rem := by omega
      rw [mul_pow_div, e, ← natBits_mod]

/-- **B2** `write_diff::<U>` (`n ≤ U::BITS`, or `n ≤ 64` for the narrow types) appends the `n` low bits of `x` -/
theorem writeDiff_spec {ub : Nat} {wr : Writer} (h : WInv wr) (x : Nat) {n : Nat} (hn : n ≤ max ub 64)
    (hsmall : n + 64 < USIZE) :
    ∃ wr', wr.writeDiff ub x n = .ok wr' ∧ wr'.bits = wr.bits ++ natBits n x ∧ WInv wr' := by
  unfold Writer.writeDiff
  by_cases hn0 : n = 0
  · subst hn0
    exact ⟨wr, by simp, by simp [natBits], h⟩
  · rw [if_neg hn0]
    obtain ⟨hp, hj, hne⟩ := refresh_packed h
    simp only []
    rw [if_neg (by omega)]
    by_cases h1 : n + wr.refresh.j ≤ 64
    · rw [if_pos h1, Writer.lshiftWord, if_neg (by omega)]
      simp only [low]
      obtain ⟨s, hs⟩ : ∃ s, s = 64 - (n + wr.refresh.j) := ⟨_, rfl⟩
      have hk : 64 - wr.refresh.j = n + s := by omega
      have hv : x * 2^s % 2^64 % 2^(64 - wr.refresh.j) = x % 2^n * 2^s := by
        rw [mod_pow_mod_of_le _ (by omega), hk, mul_pow_mod_pow]
      rw [← hs, hv]
      have step := packed_orLast hp (by omega) (n := n) (v := x % 2^n) (by omega)
        (Nat.mod_lt _ (Nat.two_pow_pos _))
      have e1 : 64 - wr.refresh.j - n = s := by omega
      rw [e1, ← natBits_mod] at step
      have := winv_of_packed (j := n + wr.refresh.j) (step.congr rfl (by omega)) h1
        (fun hn' => absurd hn' (orLast_ne_nil _ hne))
      exact ⟨_, rfl, this.1, this.2⟩
    · rw [if_neg h1, Writer.rshiftWord, if_neg (by omega)]
      simp only [low]
      obtain ⟨rem, hrem⟩ : ∃ rem, rem = n + wr.refresh.j - 64 := ⟨_, rfl⟩
      rw [← hrem, mod_pow_mod_of_le _ (by omega : 64 - wr.refresh.j ≤ 64)]
      have step := packed_orLast hp (by omega) (n := 64 - wr.refresh.j)
        (v := x / 2^rem % 2^(64 - wr.refresh.j)) (Nat.le_refl _) (Nat.mod_lt _ (Nat.two_pow_pos _))
      rw [Nat.sub_self, Nat.pow_zero, Nat.mul_one, ← natBits_mod] at step
      obtain ⟨ws', j', e, hj0, hj', hne', hp'⟩ := pushRest_spec ub x rem _ _ step (by omega) (by omega)
      rw [e]
      simp only []
      have hbits : wr.bits ++ natBits (64 - wr.refresh.j) (x / 2^rem) ++ natBits rem x
          = wr.bits ++ natBits n x := by
        have hn' : n = (64 - wr.refresh.j) + rem := by omega
        conv => rhs; rw [hn', natBits_add]
        rw [List.append_assoc]
      have := winv_of_packed (hp'.congr hbits rfl) hj' (fun hn' => absurd hn' hne')
      exact ⟨_, rfl, this.1, this.2⟩

/-- **B2** `write_usize` -/
theorem writeUsize_spec {wr : Writer} (h : WInv wr) (x : Nat) {n : Nat} (hn : n ≤ 64) :
    ∃ wr', wr.writeUsize x n = .ok wr' ∧ wr'.bits = wr.bits ++ natBits n x ∧ WInv wr' :=
  writeDiff_spec h x (by omega) (by have : USIZE = 18446744073709551616 := rfl; omega)

/-! ### `write_varint` -/

theorem writer_varintLoop_spec : ∀ (fuel : Nat) {wr : Writer} (y : Nat), WInv wr →
    (Writer.varintLoop fuel wr y).bits = wr.bits ++ encVarintHigh fuel y
      ∧ WInv (Writer.varintLoop fuel wr y) := by
  intro fuel
  induction fuel with
  | zero => intro wr y h; exact ⟨by simp [Writer.varintLoop, encVarintHigh], h⟩
  | succ fuel ih =>
    intro wr y h
    rw [Writer.varintLoop, encVarintHigh]
    by_cases hy : y > 0
    · rw [if_pos hy, if_neg (by omega)]
      obtain ⟨h1, h2⟩ := writeOne_spec h true
      obtain ⟨h3, h4⟩ := writeOne_spec h2 (y % 2 == 1)
      obtain ⟨h5, h6⟩ := ih (y / 2) h4
      refine ⟨?_, h6⟩
      rw [h5, h3, h1]; simp [List.append_assoc]
    · rw [if_neg hy, if_pos (by omega)]
      exact writeOne_spec h false

/-- **B2** `write_varint` writes `encVarint 24 jumpstart x` -/
theorem writeVarint_spec {wr : Writer} (h : WInv wr) {x j : Nat} (hx : x ≤ 2^24 - 1) (hj : j ≤ 24) :
    ∃ wr', wr.writeVarint x j = .ok wr' ∧ wr'.bits = wr.bits ++ encVarint 24 j x ∧ WInv wr' := by
  unfold Writer.writeVarint
  rw [if_neg (by omega)]
  obtain ⟨wr1, e1, hb1, hi1⟩ := writeUsize_spec h x (by omega : j ≤ 64)
  rw [e1]
  simp only []
  rw [if_neg (by omega)]
  obtain ⟨h5, h6⟩ := writer_varintLoop_spec (24 - j) (x / 2^j) hi1
  refine ⟨_, rfl, ?_, h6⟩
  rw [h5, hb1, encVarint, List.append_assoc]

/-! ### `finish_byte` -/

/-- **B2** `finish_byte` pads with zero bits to the next byte boundary
(`wr.bits ++ replicate ((8 - wr.bits.length % 8) % 8) false`, i.e. `padToByte wr.bits`) -/
theorem finishByte_spec {wr : Writer} (h : WInv wr) :
    wr.finishByte.bits = wr.bits ++ List.replicate ((8 - wr.bits.length % 8) % 8) false
      ∧ WInv wr.finishByte ∧ wr.finishByte.j % 8 = 0 := by
  have hj := h.j_le
  have hl := h.ws_length
  obtain ⟨j', hj'⟩ : ∃ j', j' = ceilDiv wr.j 8 * 8 := ⟨_, rfl⟩
  have hj'1 : j' = (wr.j + 7) / 8 * 8 := by rw [hj', ceilDiv]; omega
  have hpad : (8 - wr.bits.length % 8) % 8 = j' - wr.j := by omega
  have hp := h.packed
  have e : 64 - wr.j = (j' - wr.j) + (64 - j') := by omega
  have hp' : Packed wr.ws (wr.bits ++ List.replicate (j' - wr.j) false) (64 - j') :=
    ⟨hp.lt, by rw [hp.eq, List.append_assoc, List.replicate_append_replicate, ← e]⟩
  have := winv_of_packed (j := j') hp' (by omega) (fun hn => by have := h.nonempty hn; omega)
  unfold Writer.finishByte
  rw [← hj', hpad]
  exact ⟨this.1, this.2, by show j' % 8 = 0; omega⟩

/-! ### `write_aligned_bytes` -/

theorem alignedLoop_spec : ∀ (bytes : List Nat) {wr : Writer}, WInv wr → wr.j % 8 = 0 →
    (∀ b ∈ bytes, b < 256) →
    (Writer.alignedLoop bytes wr).bits = wr.bits ++ bytesBits' bytes
      ∧ WInv (Writer.alignedLoop bytes wr) ∧ (Writer.alignedLoop bytes wr).j % 8 = 0 := by
  intro bytes
  induction bytes with
  | nil => intro wr h hj _; exact ⟨by simp [Writer.alignedLoop], h, hj⟩
  | cons b bs ih =>
    intro wr h hj hb
    obtain ⟨hp, hjr, hne⟩ := refresh_packed h
    have hjr8 : wr.refresh.j % 8 = 0 := by
      unfold Writer.refresh
      by_cases h64 : wr.j = 64
      · rw [if_pos h64]; rfl
      · rw [if_neg h64]; exact hj
    have hb8 : b < 2^8 := hb b (by simp)
    have step := packed_orLast hp (by omega) (n := 8) (v := b) (by omega) hb8
    have e1 : 64 - wr.refresh.j - 8 = 64 - 8 - wr.refresh.j := by omega
    rw [e1] at step
    have hw := winv_of_packed (j := wr.refresh.j + 8) (step.congr rfl (by omega)) (by omega)
      (fun hn' => absurd hn' (orLast_ne_nil _ hne))
    obtain ⟨h1, h2, h3⟩ := ih hw.2 (by show (wr.refresh.j + 8) % 8 = 0; omega)
      (fun c hc => hb c (by simp [hc]))
    rw [Writer.alignedLoop]
    refine ⟨?_, h2, h3⟩
    rw [h1, hw.1, bytesBits'_cons, List.append_assoc]

/-- **B2** `write_aligned_bytes` -/
theorem writeAlignedBytes_spec {wr : Writer} (h : WInv wr) {bytes : List Nat}
    (hb : ∀ b ∈ bytes, b < 256) :
    (wr.j % 8 = 0 → ∃ wr', wr.writeAlignedBytes bytes = .ok wr'
        ∧ wr'.bits = wr.bits ++ bytesBits' bytes ∧ WInv wr')
    ∧ (wr.j % 8 ≠ 0 → wr.writeAlignedBytes bytes = .err "InvalidArgument") := by
  unfold Writer.writeAlignedBytes
  constructor
  · intro hj
    rw [if_pos hj]
    obtain ⟨h1, h2, _⟩ := alignedLoop_spec bytes h hj hb
    exact ⟨_, rfl, h1, h2⟩
  · intro hj
    rw [if_neg hj]

/-! ### `drain_bytes` -/

theorem natBits_byte_split (k x : Nat) :
    natBits (8 + k) x = natBits 8 (x / 2^k % 256) ++ natBits k x := by
  have h256 : (2:Nat)^8 = 256 := by decide
  rw [natBits_add, natBits_mod 8 (x / 2^k), h256]

theorem wordBytes_bits (x : Nat) : bytesBits' (wordBytes x) = natBits 64 x := by
  have h1 : natBits 64 x = natBits 8 (x / 2^56 % 256) ++ natBits 56 x := natBits_byte_split 56 x
  have h2 : natBits 56 x = natBits 8 (x / 2^48 % 256) ++ natBits 48 x := natBits_byte_split 48 x
  have h3 : natBits 48 x = natBits 8 (x / 2^40 % 256) ++ natBits 40 x := natBits_byte_split 40 x
  have h4 : natBits 40 x = natBits 8 (x / 2^32 % 256) ++ natBits 32 x := natBits_byte_split 32 x
  have h5 : natBits 32 x = natBits 8 (x / 2^24 % 256) ++ natBits 24 x := natBits_byte_split 24 x
  have h6 : natBits 24 x = natBits 8 (x / 2^16 % 256) ++ natBits 16 x := natBits_byte_split 16 x
  have h7 : natBits 16 x = natBits 8 (x / 2^8 % 256) ++ natBits 8 x := natBits_byte_split 8 x
  have h8 : natBits 8 x = natBits 8 (x % 256) := by
    have h256 : (2:Nat)^8 = 256 := by decide
    rw [natBits_mod 8 x, h256]
  rw [h1, h2, h3, h4, h5, h6, h7, h8]
  simp only [wordBytes, bytesBits'_cons, bytesBits'_nil, List.append_nil]

theorem wordsToBytes_bits (ws : List Nat) : bytesBits' (wordsToBytes ws) = flat ws := by
  induction ws with
  | nil => simp [wordsToBytes]
  | cons x ws ih =>
    have e : wordsToBytes (x :: ws) = wordBytes x ++ wordsToBytes ws := List.flatMap_cons
    rw [e, bytesBits'_append, ih, wordBytes_bits, flat_cons]

theorem bytesBits'_take (l : List Nat) (k : Nat) : bytesBits' (l.take k) = (bytesBits' l).take (8 * k) := by
  induction l generalizing k with
  | nil => simp
  | cons b l ih =>
    cases k with
    | zero => simp
    | succ k =>
      rw [List.take_succ_cons, bytesBits'_cons, bytesBits'_cons, ih, List.take_append,
        natBits_length, List.take_of_length_le (l := natBits 8 b) (by simp; omega)]
      congr 2

theorem wordsToBytes_lt (ws : List Nat) : ∀ b ∈ wordsToBytes ws, b < 256 := by
  intro b hb
  simp only [wordsToBytes, List.mem_flatMap, wordBytes] at hb
  obtain ⟨x, _, hx⟩ := hb
  simp only [List.mem_cons, List.not_mem_nil, or_false] at hx
  rcases hx with h | h | h | h | h | h | h | h <;> (subst h; exact Nat.mod_lt _ (by decide))

/-- **B2** `drain_bytes`: for a byte-aligned writer the bytes carry exactly the written bits -/
theorem drainBytes_spec {wr : Writer} (h : WInv wr) (hj : wr.j % 8 = 0) :
    bytesBits' wr.drainBytes.1 = wr.bits ∧ (∀ b ∈ wr.drainBytes.1, b < 256)
      ∧ wr.drainBytes.2 = {} := by
  have hjl := h.j_le
  have hl := h.ws_length
  refine ⟨?_, ?_, rfl⟩
  · show bytesBits' ((wordsToBytes wr.ws).take wr.byteSize) = (flat wr.ws).take wr.bitSize
    rw [bytesBits'_take, wordsToBytes_bits]
    congr 1
    unfold Writer.byteSize Writer.bitSize
    omega
  · intro b hb
    exact wordsToBytes_lt wr.ws b (List.mem_of_mem_take hb)

end Qco.WB
