import Qco.Lemmas.WB.Extend
import Qco.Lemmas.WB.ReaderRest
import Qco.Lemmas.WB.Overwrite
import Qco.Lemmas.WB.Bitwise
import Qco.Lemmas.WB.Quirks
import Qco.Spec.File
/-
Layer B: the word-level model of `BitWords` / `BitReader` / `BitWriter` (`Qco.Bits.Words`) against
the bit-list level (`Qco.Spec.Bits`, `Qco.Spec.Parser`, `Qco.Spec.Prim`, `Qco.Spec.File`).

The proofs live in `Qco/Lemmas/WB/*.lean`; this file connects the local definitions with the
ones of Layer S and restates the main results under one roof.

* `Qco.WB.Words.WF`, `Qco.WB.Words.toBits`                       (WB/Extend)
* B1  `extend_spec`, `extend_pieces_spec`, `truncateLeft_spec`, `truncateLeftR_ok`
* B2r `readOne_spec`, `readDiff_spec`, `readUsize_spec`, `uncheckedReadDiff_spec`,
      `uncheckedReadDiff_eq_readDiff`, `uncheckedReadOne_eq`, `read_spec`, `read_panics`,
      `readVarint_spec`                                            (WB/Reader*)
* B2w `writeOne_spec`, `write_spec`, `writeDiff_spec`, `writeUsize_spec`, `writeVarint_spec`,
      `finishByte_spec`, `writeAlignedBytes_spec`, `drainBytes_spec`  (WB/WriterProofs)
      `overwriteUsize_spec`, `overwriteUsize_replaces`, `overwriteUsize_keeps_ones` (WB/Overwrite)
* faithfulness of the div/mod helpers: `low_eq_and`, `shr_eq`, `shl64_eq`, `bitFromWord_eq`,
      `drain_cond_eq`, `overwrite_word_eq`                         (WB/Bitwise, WB/Overwrite)
* quirks: `readPrefixTableIdx_past_end`, `bitsRemaining_past_end`, `read_panics`,
      `overwriteUsize_keeps_ones`
-/
namespace Qco.WB
open Qco

/-- the local `bytesBits'` is Layer S's `bytesBits` -/
theorem bytesBits'_eq : bytesBits' = Qco.bytesBits := rfl

/-- `finish_byte` is Layer S's `padToByte` -/
theorem finishByte_padToByte {wr : Writer} (h : WInv wr) :
    wr.finishByte.bits = Qco.padToByte wr.bits := (finishByte_spec h).1

/-- what `BitWords::from(bytes)` / a sequence of `extend_bytes` holds: the bits of all the bytes,
whatever the split into pieces -/
theorem words_of_pieces (pieces : List (List Nat)) (hb : ∀ p ∈ pieces, ∀ b ∈ p, b < 256) :
    (pieces.foldl Words.extend {}).WF
      ∧ (pieces.foldl Words.extend {}).toBits = Qco.bytesBits pieces.flatten := by
  have := extend_pieces_spec pieces hb wf_default
  have h0 : Words.toBits {} = [] := rfl
  rw [h0, List.nil_append, bytesBits'_eq] at this
  exact this

/-- a writer driven only through the modelled operations and then drained yields bytes whose bits
are the written bits; read back through `BitWords::from` they are the same bit list -/
theorem drain_then_words {wr : Writer} (h : WInv wr) (hj : wr.j % 8 = 0) :
    (Words.extend {} wr.drainBytes.1).WF ∧ (Words.extend {} wr.drainBytes.1).toBits = wr.bits := by
  obtain ⟨h1, h2, _⟩ := drainBytes_spec h hj
  obtain ⟨h3, h4⟩ := extend_spec wf_default h2
  refine ⟨h3, ?_⟩
  have h0 : Words.toBits {} = [] := rfl
  rw [h4, h0, List.nil_append, h1]

/-- write/read round trip at word level for one varint -/
theorem varint_roundtrip {wr : Writer} (h : WInv wr) (hempty : wr.bits = []) {x j : Nat}
    (hx : x ≤ 2^24 - 1) (hj : j ≤ 24) :
    ∃ wr', wr.writeVarint x j = .ok wr' ∧
      decVarint 24 j (wr'.bits ++ []) = .ok x [] := by
  obtain ⟨wr', e, hb, _⟩ := writeVarint_spec h hx hj
  refine ⟨wr', e, ?_⟩
  rw [hb, hempty, List.nil_append]
  exact decVarint_enc 24 j x hj (by omega) []

end Qco.WB
