/-
Layer W, executable literal model of the chunk-body *writer* of `q_compress`:

* `prefix.rs`            `PrefixCompressionInfo`, `Prefix::k_info`, `contains`, `Default`
* `bits.rs`              `bits_to_usize`
* `compression_table.rs` `CompressionTable::{from, from_sorted, search}`
* `gcd_utils.rs`         `use_gcd_arithmetic`, `GcdOperator::get_offset` (`TrivialGcdOp` / `GeneralGcdOp`)
* `compressor.rs`        `trained_compress_chunk_nums`, `compress_nums`, `compress_offset_bits_w_prefix`

over the word-level `BitWriter` model of `Qco.Bits.Words` (`Qco.WB.Writer`).  Numbers are `Nat`s;
`ub` is `U::BITS` of the unsigned type (32, 64 or 128).  Outcomes are `Qco.WB.R`: `ok`, `err kind`,
`panic` (index out of bounds, unsigned underflow, division by zero, shift overflow – the harness builds
with `overflow-checks = true`).  One extra outcome, `err "StackOverflow"`, stands for the unbounded
recursion of `from_sorted` (see `CTable.fromSorted`); `err "fuel"` is an artefact of the model's loop
fuel and is proved unreachable.

Not modelled: the `f64` estimate in `k_info`, which is a parameter `est` (see `kInfo`); slices and indices of
`from_sorted` are lists (`prefixes[idx..]`, `prefixes[last_idx..idx]`).  The `usize` arithmetic on counts in
`from_sorted` (`.sum()`, `total_count * (i + 1)`, `2 * target`, `cumulative +=`) is checked (`panic` on overflow).

The proofs are in `Qco/Lemmas/BodyWriter*.lean`, the property statements in `Qco/Properties/C02w.lean`.
-/
import Qco.Spec.File
import Qco.Bits.Words
namespace Qco.BodyWriter
open Qco Qco.WB

@[simp] theorem ok_bind {α β : Type} (a : α) (f : α → R β) : (R.ok a >>= f) = f a := rfl
@[simp] theorem err_bind {α β : Type} (k : String) (f : α → R β) : ((R.err k : R α) >>= f) = R.err k := rfl
@[simp] theorem panic_bind {α β : Type} (f : α → R β) : ((R.panic : R α) >>= f) = R.panic := rfl
@[simp] theorem pure_eq {α : Type} (a : α) : (pure a : R α) = R.ok a := rfl

/-! ## `PrefixCompressionInfo<U>` -/

structure Info where
  count : Nat
  code : Nat
  codeLen : Nat
  lower : Nat
  upper : Nat
  k : Nat
  onlyKLower : Nat
  onlyKUpper : Nat
  jump : Option Nat
  gcd : Nat
  deriving Repr, DecidableEq, Inhabited

/-- `impl Default for PrefixCompressionInfo<U>` -/
def Info.dflt (ub : Nat) : Info :=
  { count := 0, code := 0, codeLen := 0, lower := 0, upper := 2^ub - 1, k := ub,
    onlyKLower := 0, onlyKUpper := 2^ub - 1, jump := none, gcd := 1 }

/-- `PrefixCompressionInfo::contains` -/
def Info.contains (p : Info) (u : Nat) : Bool := decide (p.lower ≤ u) && decide (p.upper ≥ u)

/-! ## `bits::bits_to_usize` -/

/-- `for (i, bit) in bits.iter().enumerate() { if *bit { res |= pow >> i } }` -/
def bitsToUsizeLoop (pow : Nat) : List Bool → Nat → Nat → Nat
  | [], _, res => res
  | b :: bs, i, res => bitsToUsizeLoop pow bs (i + 1) (if b then res ||| shr pow i else res)

/-- `bits_to_usize(bits) = bits_to_usize_truncated(bits, bits.len())`; `1_usize << (max_depth - 1)`
overflows for more than 64 bits -/
def bitsToUsize (bits : List Bool) : R Nat :=
  if bits.length < 1 then .ok 0
  else if bits.length - 1 ≥ 64 then .panic
  else .ok (bitsToUsizeLoop (2^(bits.length - 1)) bits 0 0)

/-! ## `Prefix::k_info` -/

/-- the closure `k_upper`: `if k == BITS { MAX } else { (ONE << k) - ONE }` -/
def kUpper (ub k : Nat) : R Nat :=
  if k = ub then .ok (2^ub - 1) else if k ≥ ub then .panic else .ok (2^k - 1)

/-- `k_info`; `est diff` stands for `(diff.to_f64() + 1.0).log2().floor() as usize`.
Returns `(k, only_k_bits_lower, only_k_bits_upper)`. -/
def kInfo (ub : Nat) (est : Nat → Nat) (p : Prefix) : R (Nat × Nat × Nat) :=
  if p.upper < p.lower then .panic            -- `upper.to_unsigned() - lower.to_unsigned()`
  else if p.gcd = 0 then .panic               -- `/ self.gcd`
  else
    let diff := (p.upper - p.lower) / p.gcd
    let k0 := est diff
    match kUpper ub k0 with
    | .err e => .err e
    | .panic => .panic
    | .ok ku0 =>
      -- `if k_upper(k) > diff { k -= 1 }`
      if ku0 > diff ∧ k0 = 0 then .panic
      else
        let k := if ku0 > diff then k0 - 1 else k0
        match kUpper ub k with
        | .err e => .err e
        | .panic => .panic
        | .ok oku =>
          if diff < oku then .panic           -- `diff - only_k_bits_upper`
          else .ok (k, diff - oku, oku)

/-- `impl From<&Prefix<T>> for PrefixCompressionInfo<T::Unsigned>` (bounds already in the unsigned domain) -/
def Info.ofPrefix (ub : Nat) (est : Nat → Nat) (p : Prefix) : R Info :=
  match kInfo ub est p with
  | .err e => .err e
  | .panic => .panic
  | .ok (k, okl, oku) =>
    match bitsToUsize p.code with
    | .err e => .err e
    | .panic => .panic
    | .ok code =>
      .ok { count := p.count, code := code, codeLen := p.code.length, lower := p.lower, upper := p.upper,
            k := k, onlyKLower := okl, onlyKUpper := oku, jump := p.jump, gcd := p.gcd }

/-- `prefixes.iter().map(PrefixCompressionInfo::from).collect()` -/
def infosOf (ub : Nat) (est : Nat → Nat) : List Prefix → R (List Info)
  | [] => .ok []
  | p :: ps =>
    match Info.ofPrefix ub est p with
    | .err e => .err e
    | .panic => .panic
    | .ok i =>
      match infosOf ub est ps with
      | .err e => .err e
      | .panic => .panic
      | .ok is => .ok (i :: is)

/-! ## `CompressionTable` -/

inductive CTable where
  | leaf (info : Info)
  | nonLeaf (items : List (Nat × CTable))     -- `CompressionTableItem { upper, table }`

/-- stable insertion sort by `upper`; stands for `sort_unstable_by_key(|p| p.upper)`.  Any two sorts
agree on lists with pairwise distinct keys (`Qco.BodyWriter.sorted_perm_unique`), which is the case for every
table with pairwise disjoint non-empty ranges. -/
def insertByUpper (x : Info) : List Info → List Info
  | [] => [x]
  | y :: ys => if x.upper ≤ y.upper then x :: y :: ys else y :: insertByUpper x ys

def sortByUpper : List Info → List Info
  | [] => []
  | x :: xs => insertByUpper x (sortByUpper xs)

/-- the inner loop of `from_sorted`
```
while cumulative < target {
  let incr = prefixes[idx].count;
  if incr < 2 * target - cumulative { cumulative += prefixes[idx].count; idx += 1; } else { break; }
}
```
on the state `rem = prefixes[idx..]`, `cur = prefixes[last_idx..idx]`, `cumulative`.  `prefixes[idx]` out
of bounds, the `usize` underflow of `2 * target - cumulative` and the `usize` overflows are `panic`s (the
first two are unreachable for every input, the overflows when `16 * total_count < 2^64`: `advance_no_panic`). -/
def advance (target : Nat) : List Info → List Info → Nat → R (List Info × List Info × Nat)
  | [], cur, cum => if cum < target then .panic else .ok ([], cur, cum)
  | p :: rem, cur, cum =>
    if cum < target then
      if 2 * target ≥ USIZE then .panic                 -- `2 * target`
      else if 2 * target < cum then .panic              -- `2 * target - cumulative`
      else if p.count < 2 * target - cum then
        if cum + p.count ≥ USIZE then .panic            -- `cumulative += prefixes[idx].count`
        else advance target rem (cur ++ [p]) (cum + p.count)
      else .ok (p :: rem, cur, cum)
    else .ok (p :: rem, cur, cum)

/-- `for i in 0..TARGET_BRANCHING_FACTOR { let target = total_count * (i + 1) / 16; <advance>;
if idx > last_idx { children.push(Item { table: from_sorted(&prefixes[last_idx..idx]), upper: prefixes[idx - 1].upper }); last_idx = idx } }`;
`n` = iterations left, `rec` = the recursive call. -/
def children (rec : List Info → R CTable) (total : Nat) :
    Nat → Nat → List Info → List Info → Nat → List (Nat × CTable) → R (List (Nat × CTable))
  | 0, _, _, _, _, acc => .ok acc
  | n + 1, i, rem, cur, cum, acc =>
    if total * (i + 1) ≥ USIZE then .panic                -- `total_count * (i + 1)`
    else
    match advance (total * (i + 1) / 16) rem cur cum with
    | .err e => .err e
    | .panic => .panic
    | .ok (rem', cur', cum') =>
      match cur'.getLast? with
      | none => children rec total n (i + 1) rem' cur' cum' acc          -- `idx == last_idx`
      | some last =>
        match rec cur' with
        | .err e => .err e
        | .panic => .panic
        | .ok t => children rec total n (i + 1) rem' [] cum' (acc ++ [(last.upper, t)])

/-- `CompressionTable::from_sorted`.  The recursion of the source is on sub-slices; it is well founded only
if no child receives the whole slice, which is *false* for some count vectors containing zeros
(`Qco.BodyWriter.fromSorted_diverges`: counts `[0, 1]`).  The model therefore recurses on `fuel` (the
recursion depth allowed) and answers `err "StackOverflow"` when it is exhausted;
`Qco.BodyWriter.fromSorted_spec` shows that `fuel = prefixes.len()` is never exhausted when all counts are `≥ 1`. -/
def CTable.fromSorted (ub : Nat) : Nat → List Info → R CTable
  | _, [] => .ok (.leaf (Info.dflt ub))
  | _, [p] => .ok (.leaf p)
  | 0, _ :: _ :: _ => .err "StackOverflow"
  | fuel + 1, p :: q :: rest =>
    if ((p :: q :: rest).map (·.count)).sum ≥ USIZE then .panic     -- `.sum()` of `usize`
    else
    match children (CTable.fromSorted ub fuel) (((p :: q :: rest).map (·.count)).sum) 16 0
        (p :: q :: rest) [] 0 [] with
    | .err e => .err e
    | .panic => .panic
    | .ok ch => .ok (.nonLeaf ch)

/-- `impl From<&[Prefix<T>]> for CompressionTable<T::Unsigned>` -/
def CTable.ofPrefixes (ub : Nat) (est : Nat → Nat) (ps : List Prefix) : R CTable :=
  match infosOf ub est ps with
  | .err e => .err e
  | .panic => .panic
  | .ok infos => CTable.fromSorted ub infos.length (sortByUpper infos)

mutual
/-- `CompressionTable::search`: the `loop` descends one node per iteration -/
def CTable.search : CTable → Nat → R Info
  | .leaf p, u => if p.contains u then .ok p else .err "InvalidArgument"
  | .nonLeaf items, u => searchItems items u
/-- `for item in linear_scan { if unsigned <= item.upper { node = &item.table; found = true; break } }` -/
def searchItems : List (Nat × CTable) → Nat → R Info
  | [], _ => .err "InvalidArgument"
  | (upper, t) :: rest, u => if u ≤ upper then t.search u else searchItems rest u
end

/-! ## `gcd_utils` -/

/-- `use_gcd_arithmetic`: `prefixes.iter().any(|p| p.gcd > ONE && !p.upper.num_eq(&p.lower))` -/
def useGcdArithmetic (ps : List Prefix) : Bool :=
  ps.any fun p => decide (p.gcd > 1) && !(p.upper == p.lower)

/-- `GcdOp::get_offset(diff, gcd)`: `GeneralGcdOp` (`general = true`) divides, `TrivialGcdOp` does not -/
def getOffset (general : Bool) (diff gcd : Nat) : R Nat :=
  if general then (if gcd = 0 then .panic else .ok (diff / gcd)) else .ok diff

/-! ## `TrainedChunkCompressor` -/

/-- `compress_offset_bits_w_prefix`.  `(off & (U::ONE << p.k)) > U::ZERO` is written `off / 2^k % 2 == 1`
(`Qco.BodyWriter.msb_eq_and`). -/
def compressOffsetBits (ub : Nat) (general : Bool) (u : Nat) (p : Info) (wr : Writer) : R Writer :=
  if u < p.lower then .panic                                  -- `unsigned - p.lower`
  else
    match getOffset general (u - p.lower) p.gcd with
    | .err e => .err e
    | .panic => .panic
    | .ok off =>
      match wr.writeDiff ub off p.k with
      | .err e => .err e
      | .panic => .panic
      | .ok wr1 =>
        if off < p.onlyKLower || off > p.onlyKUpper then
          if p.k ≥ ub then .panic                             -- `U::ONE << p.k`
          else .ok (wr1.writeOne (off / 2^p.k % 2 == 1))
        else .ok wr1

/-- `for &other in unsigneds.iter().skip(i + 1) { if p.contains(other) { reps += 1 } else { break } }` -/
def countReps (p : Info) : List Nat → Nat → Nat
  | [], reps => reps
  | o :: os, reps => if p.contains o then countReps p os (reps + 1) else reps

/-- `for &unsigned in unsigneds.iter().skip(i).take(reps) { compress_offset_bits_w_prefix(unsigned, p, writer) }` -/
def offsetsLoop (ub : Nat) (general : Bool) (p : Info) : List Nat → Writer → R Writer
  | [], wr => .ok wr
  | u :: us, wr =>
    match compressOffsetBits ub general u p wr with
    | .err e => .err e
    | .panic => .panic
    | .ok wr1 => offsetsLoop ub general p us wr1

/-- the `while i < unsigneds.len()` loop of `compress_nums` on the state `unsigneds[i..]`; one unit of
`fuel` per iteration (`err "fuel"` is unreachable with `fuel ≥ unsigneds.len()`, since `reps ≥ 1`) -/
def compressLoop (ub : Nat) (general : Bool) (t : CTable) : Nat → List Nat → Writer → R Writer
  | _, [], wr => .ok wr
  | 0, _ :: _, _ => .err "fuel"
  | fuel + 1, u :: rest, wr =>
    match t.search u with
    | .err e => .err e
    | .panic => .panic
    | .ok p =>
      match wr.writeUsize p.code p.codeLen with
      | .err e => .err e
      | .panic => .panic
      | .ok wr1 =>
        match p.jump with
        | none =>
          match compressOffsetBits ub general u p wr1 with
          | .err e => .err e
          | .panic => .panic
          | .ok wr2 => compressLoop ub general t fuel rest wr2
        | some jumpstart =>
          let reps := countReps p rest 1
          match wr1.writeVarint (reps - 1) jumpstart with
          | .err e => .err e
          | .panic => .panic
          | .ok wr2 =>
            match offsetsLoop ub general p ((u :: rest).take reps) wr2 with
            | .err e => .err e
            | .panic => .panic
            | .ok wr3 => compressLoop ub general t fuel ((u :: rest).drop reps) wr3

/-- `compress_nums` -/
def compressNums (ub : Nat) (general : Bool) (t : CTable) (us : List Nat) (wr : Writer) : R Writer :=
  match compressLoop ub general t us.length us wr with
  | .err e => .err e
  | .panic => .panic
  | .ok wr1 => .ok wr1.finishByte

/-- `trained_compress_chunk_nums` -/
def trainedCompressChunkNums (ub : Nat) (est : Nat → Nat) (ps : List Prefix) (us : List Nat)
    (wr : Writer) : R Writer :=
  match CTable.ofPrefixes ub est ps with
  | .err e => .err e
  | .panic => .panic
  | .ok t => compressNums ub (useGcdArithmetic ps) t us wr

/-! ## driver entry -/

/-- the exact `⌊log2 (diff + 1)⌋` (what the float estimate is corrected to) -/
def estExact (diff : Nat) : Nat := Nat.log2 (diff + 1)

/-- the written bits of a writer (same expression as `Qco.WB.Writer.bits`) -/
def writerBits (wr : Writer) : Bits := (wr.ws.flatMap (natBits 64)).take wr.bitSize

def bitsStr (bs : Bits) : String := String.ofList (bs.map fun b => if b then '1' else '0')

/-- run the literal body writer on an empty `BitWriter`: `"ok <bits>"`, `"err <kind>"` or `"panic"` -/
def run (ps : List Prefix) (us : List Nat) (ub : Nat := 64) : String :=
  match trainedCompressChunkNums ub estExact ps us {} with
  | .ok wr => "ok " ++ bitsStr (writerBits wr)
  | .err k => "err " ++ k
  | .panic => "panic"

end Qco.BodyWriter
