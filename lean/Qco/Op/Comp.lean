/-
Layer O: operational model of `Compressor<T>` (compressor.rs): protocol flags and pending output.
The order of checks and writes is the code's order (arguments are validated before the first
write). Prefix training is not modelled here: `chunk` takes the trained chunk (metadata + block
grouping) as an argument — any answer of the training stage; what it must satisfy is C10/C18.
-/
import Qco.Spec.File
namespace Qco
namespace Op

structure CSt where
  hasHeader : Bool
  hasFooter : Bool
  pending : Bits
  deriving DecidableEq, Repr, Inhabited

structure CConfig where
  level : Nat
  order : Nat
  gcds : Bool
  deriving DecidableEq, Repr, Inhabited

def CSt.init : CSt := { hasHeader := false, hasFooter := false, pending := [] }

def CConfig.flags (c : CConfig) : Flags := { use5 := true, order := c.order, minCount := true, gcds := c.gcds }

inductive CErr where
  | invalid
  deriving DecidableEq, Repr

def maxLevel : Nat := 12
def maxEntries : Nat := 2^24 - 1

/-- `Compressor::header` -/
def cHeader (d : DType) (cfg : CConfig) (σ : CSt) : Except CErr Unit × CSt :=
  if σ.hasHeader then (.error .invalid, σ)
  else if σ.hasFooter then (.error .invalid, σ)
  else if cfg.order > Frozen.maxDeltaOrder then (.error .invalid, σ)
  else (.ok (), { σ with hasHeader := true, pending := σ.pending ++ encHeader d cfg.flags })

/-- `Compressor::chunk`: `n` numbers; `trained` = what training and encoding produce for them -/
def cChunk (gb : Nat → Nat) (d : DType) (cfg : CConfig) (σ : CSt) (n : Nat) (trained : AChunk) : Except CErr ChunkMeta × CSt :=
  if !σ.hasHeader then (.error .invalid, σ)
  else if σ.hasFooter then (.error .invalid, σ)
  else if n = 0 then (.error .invalid, σ)
  else if cfg.level > maxLevel then (.error .invalid, σ)
  else if n > maxEntries then (.error .invalid, σ)
  else (.ok trained.fixedMeta, { σ with pending := σ.pending ++ encChunk gb d cfg.flags trained })

/-- `Compressor::footer` -/
def cFooter (σ : CSt) : Except CErr Unit × CSt :=
  if !σ.hasHeader then (.error .invalid, σ)
  else if σ.hasFooter then (.error .invalid, σ)
  else (.ok (), { σ with hasFooter := true, pending := σ.pending ++ natBits 8 Frozen.magicTerminationByte })

/-- `Compressor::drain_bytes` -/
def cDrain (σ : CSt) : Bits × CSt := (σ.pending, { σ with pending := [] })

/-- `Compressor::byte_size` -/
def cByteSize (σ : CSt) : Nat := σ.pending.length / 8

/-- calls -/
inductive COp where
  | header
  | chunk (n : Nat) (trained : AChunk)
  | footer
  | drain
  deriving Repr

/-- run a history; returns the concatenation of everything drained, the accepted chunks, the state -/
def cRun (gb : Nat → Nat) (d : DType) (cfg : CConfig) : List COp → CSt → Bits → List AChunk → Bits × List AChunk × CSt
  | [], σ, out, acc => (out, acc, σ)
  | .header :: ops, σ, out, acc => cRun gb d cfg ops (cHeader d cfg σ).2 out acc
  | .chunk n t :: ops, σ, out, acc =>
    match cChunk gb d cfg σ n t with
    | (.ok _, σ') => cRun gb d cfg ops σ' out (acc ++ [t])
    | (.error _, σ') => cRun gb d cfg ops σ' out acc
  | .footer :: ops, σ, out, acc => cRun gb d cfg ops (cFooter σ).2 out acc
  | .drain :: ops, σ, out, acc => cRun gb d cfg ops (cDrain σ).2 (out ++ σ.pending) acc

end Op
end Qco
