/-
Layer CL, executable literal model of the `Compressor<T>` state machine and of delta *en*coding:

* `compressor.rs`      `CompressorConfig` (= `Op.CConfig`), `InternalCompressorConfig` + `From<&CompressorConfig>`,
                       `validate_chunk_args`, `State`, `Compressor::{from_config, header, chunk, footer,
                       simple_compress, drain_bytes, byte_size}`
* `flags.rs`           `impl From<&CompressorConfig> for Flags`, `Flags::validate`
* `bit_writer.rs`      `write_aligned_byte`
* `delta_encoding.rs`  `DeltaMoments::from`, `first_order_deltas_in_place`, `nth_order_deltas`,
                       `nth_order_moments`

statement by statement over the word-level `BitWriter` (`Qco.WB.Writer`), the literal metadata writer
(`Qco.MetaIO.writeTo`, `updateWriteCompressedBodySize`, `flagsWrite`) and the literal body writer
(`Qco.BodyWriter.trainedCompressChunkNums`).  Outcomes are `Qco.WB.R`: `ok`, `err kind`, `panic`
(index out of bounds, slice out of range, `usize` underflow, `unwrap` on `Err`).

A method `fn f(&mut self, ..) -> QCompressResult<A>` is a `CM A = Comp → R A × Comp`: the outcome *and the
compressor as the call leaves it*.  A `?` returns early with whatever has been written so far (that the
public methods leave the compressor unchanged on `Err` is a theorem, `C09l`, not built in).

Numbers are bit patterns (`Nat`), exactly as in `Qco.DType`: `d.toU` = `to_unsigned`, `d.toS` = `to_signed`,
`d.signed` = `T::Signed`, `ds.sSub` = `SignedLike::wrapping_sub` (xor for `bool`), `T::Signed::ZERO` = 0.

EXPLICIT MODELLING LIMITS / ABSTRACTIONS
* `train_prefixes` is NOT modelled: it is the parameter `train unsigneds internal_config flags n` of `chunk`
  (an oracle: any function; its answer may be an `Err`, a panic or any prefix list).
* `gb` (`gcd_bits_required`, `f64`) and `est` (the `f64` estimate in `Prefix::k_info`) are parameters, as in
  `Qco.MetaIO` / `Qco.BodyWriter`.
* `ChunkMetadata::write_to`, `trained_compress_chunk_nums`, `update_write_compressed_body_size`,
  `Flags::write` are the existing models of type `Writer → R Writer`.  They do not say how far the writer got
  when they fail (in Rust the first, third and fourth return `()`: a failure is a panic; the second can return
  `Err` after partial writes).  `onWriter` keeps the writer *as before the failed call* in that case; no theorem
  uses the compressor after a failure of one of these four.
* `usize` overflow of `words.len() * 64` in `bit_size()`/`byte_size()` is not an outcome (as in `Qco.WB`); the
  overflow check of `bit_idx + 24` in `update_write_compressed_body_size` is (`MetaIO`).
* `Vec::clone`, `PhantomData`, `Debug` formatting of the error messages: nothing to model.  All
  `QCompressError::invalid_argument(..)` are `err "InvalidArgument"`.
* `simple_compress`: `DEFAULT_CHUNK_SIZE` is a parameter (default `1000000`) so that small instances can be
  evaluated; `.unwrap()` on `Err` is `panic`.

The proofs are in `Qco/Lemmas/CompLit/*.lean`, the property statements in `Qco/Properties/C09l.lean`.
-/
import Qco.Op.MetaIO
import Qco.Op.Comp
namespace Qco.CompLit
open Qco Qco.WB Qco.MetaIO

/-! ## `delta_encoding.rs` -/

/-- `for i in 0..nums.len() - 1 { nums[i] = nums[i + 1].wrapping_sub(nums[i]); }`;
`fuel` = iterations left, `i` = the loop variable -/
def fodLoop (ds : DType) : Nat → Nat → List Nat → R (List Nat)
  | 0, _, v => .ok v
  | fuel + 1, i, v =>
    match v[i + 1]?, v[i]? with
    | some b, some a => fodLoop ds fuel (i + 1) (v.set i (ds.sSub b a))
    | _, _ => .panic                                   -- index out of bounds

/-- `first_order_deltas_in_place(nums: &mut Vec<T>)` -/
def firstOrderDeltasInPlace (ds : DType) (nums : List Nat) : R (List Nat) :=
  if nums.isEmpty then .ok nums
  else
    -- `nums.len() - 1`: the vector is not empty
    match fodLoop ds (nums.length - 1) 0 nums with
    | .err k => .err k
    | .panic => .panic
    | .ok v =>
      if v.length < 1 then .panic                      -- `nums.len() - 1`
      else .ok (v.take (v.length - 1))                 -- `nums.truncate(nums.len() - 1)`

/-- `for _ in 0..order { first_order_deltas_in_place(&mut res); }` -/
def fodIter (ds : DType) : Nat → List Nat → R (List Nat)
  | 0, res => .ok res
  | k + 1, res =>
    match firstOrderDeltasInPlace ds res with
    | .err e => .err e
    | .panic => .panic
    | .ok res1 => fodIter ds k res1

/-- `nth_order_deltas::<T>(nums, order)`; the result is a `Vec<T::Signed>` -/
def nthOrderDeltas (d : DType) (nums : List Nat) (order : Nat) : R (List Nat) :=
  fodIter d.signed order (nums.map d.toS)

/-- the loop of `nth_order_moments`:
```
for _ in 0..order {
  if deltas.is_empty() { res.push(T::Signed::ZERO); }
  else { res.push(deltas[0]); first_order_deltas_in_place(&mut deltas); }
}
``` -/
def momentsLoop (ds : DType) : Nat → List Nat → List Nat → R (List Nat)
  | 0, _, res => .ok res
  | k + 1, deltas, res =>
    if deltas.isEmpty then momentsLoop ds k deltas (res ++ [0])
    else
      match deltas[0]? with
      | none => .panic
      | some x =>
        match firstOrderDeltasInPlace ds deltas with
        | .err e => .err e
        | .panic => .panic
        | .ok deltas1 => momentsLoop ds k deltas1 (res ++ [x])

/-- `nth_order_moments::<T>(nums, order)` -/
def nthOrderMoments (d : DType) (nums : List Nat) (order : Nat) : R (List Nat) :=
  -- `let limited_nums = if nums.len() <= order { nums } else { &nums[0..order] };`
  match (if nums.length ≤ order then R.ok nums
         else if order > nums.length then R.panic       -- slice end out of range
         else R.ok (nums.take order)) with
  | .err e => .err e
  | .panic => .panic
  | .ok limitedNums => momentsLoop d.signed order (limitedNums.map d.toS) []

/-- `DeltaMoments::<T>::from(nums, order)` (the field `moments`) -/
def deltaMomentsFrom (d : DType) (nums : List Nat) (order : Nat) : R (List Nat) :=
  nthOrderMoments d nums order

/-! ## configuration, flags, state -/

/-- `MAX_COMPRESSION_LEVEL` -/
def maxCompressionLevel : Nat := 12
/-- `DEFAULT_CHUNK_SIZE` -/
def defaultChunkSize : Nat := 1000000

/-- `InternalCompressorConfig` -/
structure InternalConfig where
  compressionLevel : Nat
  deriving Repr, DecidableEq, Inhabited

/-- `impl From<&CompressorConfig> for InternalCompressorConfig` -/
def internalConfigFrom (config : Op.CConfig) : InternalConfig := { compressionLevel := config.level }

/-- `impl From<&CompressorConfig> for Flags` -/
def flagsFrom (config : Op.CConfig) : Flags :=
  { use5 := true, order := config.order, minCount := true, gcds := config.gcds }

/-- `Flags::validate`: `let _bools: Vec<bool> = self.try_into()?; Ok(())` -/
def flagsValidate (f : Flags) : R Unit :=
  match flagsTryInto f with
  | .err k => .err k
  | .panic => .panic
  | .ok _ => .ok ()

/-- `validate_chunk_args(internal_config, n)` -/
def validateChunkArgs (internalConfig : InternalConfig) (n : Nat) : R Unit :=
  if internalConfig.compressionLevel > maxCompressionLevel then .err "InvalidArgument"
  else if n > Frozen.maxEntries then .err "InvalidArgument"
  else .ok ()

/-- `struct State` (`#[derive(Default)]`) -/
structure PState where
  hasWrittenHeader : Bool := false
  hasWrittenFooter : Bool := false
  deriving Repr, DecidableEq, Inhabited

/-- `struct Compressor<T>` -/
structure Comp where
  internalConfig : InternalConfig
  flags : Flags
  writer : Writer
  state : PState
  deriving Repr, DecidableEq

/-- `Compressor::from_config(config)` -/
def Comp.fromConfig (config : Op.CConfig) : Comp :=
  { internalConfig := internalConfigFrom config, flags := flagsFrom config, writer := {}, state := {} }

/-! ## methods on `&mut self` -/

/-- a method on `&mut Compressor`: outcome and the compressor afterwards -/
abbrev CM (α : Type) : Type := Comp → R α × Comp

/-- `let a = m?; f(a)` (for a panic the compressor is irrelevant) -/
def CM.bind {α β : Type} (m : CM α) (f : α → CM β) : CM β := fun c =>
  match m c with
  | (.ok a, c1) => f a c1
  | (.err k, c1) => (.err k, c1)
  | (.panic, c1) => (.panic, c1)

/-- a call on `&mut self.writer`; see the header for what happens to the writer on a failure -/
def onWriter (f : Writer → R Writer) : CM Unit := fun c =>
  match f c.writer with
  | .ok wr => (.ok (), { c with writer := wr })
  | .err k => (.err k, c)
  | .panic => (.panic, c)

/-- a computation that does not touch the compressor -/
def CM.ofR {α : Type} (r : R α) : CM α := fun c => (r, c)

/-- `BitWriter::write_aligned_byte(byte)`: `self.write_aligned_bytes(&[byte])` -/
def writeAlignedByte (wr : Writer) (byte : Nat) : R Writer := wr.writeAlignedBytes [byte]

/-- `Compressor::header` -/
def header (d : DType) : CM Unit := fun c =>
  if c.state.hasWrittenHeader then (.err "InvalidArgument", c)
  else if c.state.hasWrittenFooter then (.err "InvalidArgument", c)
  else
    (CM.bind (fun c => (flagsValidate c.flags, c)) fun _ =>                    -- `self.flags.validate()?`
     CM.bind (onWriter fun wr => wr.writeAlignedBytes Frozen.magicHeader) fun _ =>
     CM.bind (onWriter fun wr => writeAlignedByte wr d.headerByte) fun _ =>
     CM.bind (fun c => onWriter (flagsWrite c.flags) c) fun _ =>
     fun c => (.ok (), { c with state := { c.state with hasWrittenHeader := true } })) c

/-- the code shared (textually duplicated in the source) by the two branches of `chunk`:
```
let prefixes = train_prefixes(unsigneds.clone(), &self.internal_config, &self.flags, n)?;
let prefix_metadata = PrefixMetadata::…{ …, prefixes: prefixes.clone() };
let metadata = ChunkMetadata { n, compressed_body_size: 0, prefix_metadata, phantom };
metadata.write_to(&mut self.writer, &self.flags);
let post_meta_idx = self.writer.byte_size();
trained_compress_chunk_nums(&prefixes, &unsigneds, &mut self.writer)?;
(metadata, post_meta_idx)
```
`ub` = `T::Unsigned::BITS`, `mk` = the `PrefixMetadata` variant -/
def trainWriteBody (gb est : Nat → Nat) (d : DType) (ub : Nat)
    (train : List Nat → InternalConfig → Flags → Nat → R (List Prefix))
    (n : Nat) (unsigneds : List Nat) (mk : List Prefix → PrefixMeta) : CM (RMeta × Nat) :=
  CM.bind (fun c => (train unsigneds c.internalConfig c.flags n, c)) fun prefixes =>
  let metadata : RMeta := { n := n, compressedBodySize := 0, prefixMetadata := mk prefixes }
  CM.bind (fun c => onWriter (writeTo gb d c.flags metadata) c) fun _ =>
  fun c =>
    let postMetaIdx := c.writer.byteSize
    (CM.bind (onWriter (BodyWriter.trainedCompressChunkNums ub est prefixes unsigneds)) fun _ =>
     fun c' => (.ok (metadata, postMetaIdx), c')) c

/-- `Compressor::chunk(nums)` -/
def chunk (gb est : Nat → Nat) (d : DType)
    (train : List Nat → InternalConfig → Flags → Nat → R (List Prefix)) (nums : List Nat) : CM RMeta := fun c =>
  if !c.state.hasWrittenHeader then (.err "InvalidArgument", c)
  else if c.state.hasWrittenFooter then (.err "InvalidArgument", c)
  else if nums.isEmpty then (.err "InvalidArgument", c)
  else
    (CM.bind (fun c => (validateChunkArgs c.internalConfig nums.length, c)) fun _ =>
     CM.bind (onWriter fun wr => writeAlignedByte wr Frozen.magicChunkByte) fun _ =>
     fun c1 =>
       let n := nums.length
       let preMetaBitIdx := c1.writer.bitSize
       let order := c1.flags.order
       (CM.bind
         (if order = 0 then
            let unsigneds := nums.map d.toU
            trainWriteBody gb est d d.uBits train n unsigneds PrefixMeta.simple
          else
            CM.bind (CM.ofR (deltaMomentsFrom d nums order)) fun deltaMoments =>
            CM.bind (CM.ofR (nthOrderDeltas d nums order)) fun deltas =>
            let unsigneds := deltas.map d.signed.toU
            trainWriteBody gb est d d.signed.uBits train n unsigneds
              (fun prefixes => PrefixMeta.delta prefixes deltaMoments))
         fun (metadata, postMetaByteIdx) =>
         fun c2 =>
           -- `self.writer.byte_size() - post_meta_byte_idx`
           if c2.writer.byteSize < postMetaByteIdx then (.panic, c2)
           else
             let metadata' : RMeta :=
               { metadata with compressedBodySize := c2.writer.byteSize - postMetaByteIdx }
             (CM.bind (onWriter fun wr => updateWriteCompressedBodySize metadata' wr preMetaBitIdx) fun _ =>
              CM.ofR (.ok metadata')) c2) c1) c

/-- `Compressor::footer` -/
def footer : CM Unit := fun c =>
  if !c.state.hasWrittenHeader then (.err "InvalidArgument", c)
  else if c.state.hasWrittenFooter then (.err "InvalidArgument", c)
  else
    (CM.bind (onWriter fun wr => writeAlignedByte wr Frozen.magicTerminationByte) fun _ =>
     fun c => (.ok (), { c with state := { c.state with hasWrittenFooter := true } })) c

/-- `Compressor::drain_bytes` -/
def drainBytes (c : Comp) : List Nat × Comp :=
  let (bytes, wr) := c.writer.drainBytes
  (bytes, { c with writer := wr })

/-- `Compressor::byte_size` -/
def byteSize (c : Comp) : Nat := c.writer.byteSize

/-- `slice::chunks(size)` (`size > 0`); `fuel ≥ nums.len()` -/
def sliceChunks (size : Nat) : Nat → List Nat → List (List Nat)
  | 0, _ => []
  | fuel + 1, nums => if nums.isEmpty then [] else nums.take size :: sliceChunks size fuel (nums.drop size)

/-- `.unwrap()` -/
def unwrapCM {α : Type} (m : CM α) : CM α := fun c =>
  match m c with
  | (.ok a, c1) => (.ok a, c1)
  | (_, c1) => (.panic, c1)

/-- `nums.chunks(DEFAULT_CHUNK_SIZE).for_each(|chunk| { self.chunk(chunk).unwrap(); })` -/
def chunksLoop (gb est : Nat → Nat) (d : DType)
    (train : List Nat → InternalConfig → Flags → Nat → R (List Prefix)) : List (List Nat) → CM Unit
  | [] => CM.ofR (.ok ())
  | ch :: rest => CM.bind (unwrapCM (chunk gb est d train ch)) fun _ => chunksLoop gb est d train rest

/-- `Compressor::simple_compress(nums)` -/
def simpleCompress (gb est : Nat → Nat) (d : DType)
    (train : List Nat → InternalConfig → Flags → Nat → R (List Prefix)) (nums : List Nat)
    (chunkSize : Nat := defaultChunkSize) : CM (List Nat) :=
  CM.bind (unwrapCM (header d)) fun _ =>
  CM.bind (if chunkSize = 0 then CM.ofR .panic                      -- `chunks(0)` panics
           else chunksLoop gb est d train (sliceChunks chunkSize nums.length nums)) fun _ =>
  CM.bind (unwrapCM footer) fun _ =>
  fun c => let (bytes, c') := drainBytes c; (.ok bytes, c')

/-! ## histories -/

/-- a call on a compressor; `chunk nums tr`: `tr` is what `train_prefixes` answers in that call -/
inductive LOp where
  | header
  | chunk (nums : List Nat) (tr : R (List Prefix))
  | footer
  | drain
  | byteSize
  deriving Repr

/-- run a history: the bytes drained so far (concatenated) and the compressor; outcomes of the calls are
dropped (as `Op.cRun` does), a panic stops the run and is reported -/
def lRun (gb est : Nat → Nat) (d : DType) : List LOp → Comp → List Nat → R (List Nat × Comp)
  | [], c, out => .ok (out, c)
  | .header :: ops, c, out =>
    match header d c with
    | (.panic, _) => .panic
    | (_, c') => lRun gb est d ops c' out
  | .chunk nums tr :: ops, c, out =>
    match chunk gb est d (fun _ _ _ _ => tr) nums c with
    | (.panic, _) => .panic
    | (_, c') => lRun gb est d ops c' out
  | .footer :: ops, c, out =>
    match footer c with
    | (.panic, _) => .panic
    | (_, c') => lRun gb est d ops c' out
  | .drain :: ops, c, out => lRun gb est d ops (drainBytes c).2 (out ++ (drainBytes c).1)
  | .byteSize :: ops, c, out => lRun gb est d ops c out

/-! ## driver entry -/

def resStr {α : Type} (f : α → String) : R α → String
  | .ok a => f a
  | .err k => "err " ++ k
  | .panic => "panic"

end Qco.CompLit
