/-
Layer O: operational model of `Decompressor<T>` (decompressor.rs, chunk_body_decompressor.rs,
num_decompressor.rs) as a state machine over the operations of the public API.

The commit points of the code are explicit, not idealised away:
* `withReader`: the closure returns a result, the (possibly mutated) state and the reader; the
  reader position is committed iff the result is `ok` — mutations of the state made by the closure
  persist either way, exactly as in `with_reader`;
* the batch decoder works "dirty" and is wrapped by the snapshot/restore of
  `decompress_unsigneds_limited`;
* `simpleDecompress` is a sequence of `header`/`chunkMetadata`/`chunkBody` calls wrapped by a
  snapshot/restore.
"Every failed call leaves the state unchanged" is therefore a theorem about these definitions
(`Qco/Properties/C08.lean`), not true by construction.

The Huffman lookup is a parameter `L : List Bits → Parser Nat` (the real 6-bit-stride table may
answer `insufficient` although the code itself is present, when fewer look-ahead bits follow than
the stride wants); theorems quantify over every matcher between the eager `matchCode` and any
prefix-safe lazier one; the driver instantiates it with `matchStride`, the model of
`HuffmanTable::search_with_reader`.

Import-free apart from the model's own files.
-/
import Qco.Spec.File
namespace Qco
namespace Op
open Parser

inductive Err where
  | insufficient | corrupt | compat | invalid
  deriving DecidableEq, Repr, Inhabited

inductive Out (α : Type) where
  | ok (a : α)
  | err (e : Err)
  deriving Repr

def Out.isOk {α : Type} : Out α → Bool
  | .ok _ => true
  | .err _ => false

/-! ### counting variants of the primitive readers (value and bits consumed) -/

def decOffsetC (r k : Nat) : Parser (Nat × Nat) :=
  Parser.bind (readNat k) fun low =>
    if r - low ≥ 2^k then Parser.bind readBit fun b => Parser.pure (low + (if b then 2^k else 0), k + 1)
    else Parser.pure (low, k)

def decVarintHighC : Nat → Parser (Nat × Nat)
  | 0 => Parser.pure (0, 0)
  | m+1 => Parser.bind readBit fun c =>
      if c then Parser.bind readBit fun b => Parser.bind (decVarintHighC m) fun (rest, cnt) =>
        Parser.pure (b.toNat + 2 * rest, cnt + 2)
      else Parser.pure (0, 1)

def decVarintC (nEntriesBits j : Nat) : Parser (Nat × Nat) :=
  Parser.bind (readNat j) fun low => Parser.bind (decVarintHighC (nEntriesBits - j)) fun (high, cnt) =>
    Parser.pure (low + 2^j * high, j + cnt)

/-- the code matcher: given the absolute bit position (the real lookup's behaviour near the end
of the data depends on where 64-bit word boundaries fall) and the codes -/
abbrev Matcher := Nat → List Bits → Parser Nat

/-- the eager matcher of the specification, ignoring the position -/
def eagerMatcher : Matcher := fun _ codes => matchCode codes

/-- unit state of the operational decoder: run in progress, absolute bit position -/
abbrev PState := UState × Nat

/-- `unit` with the code matcher as a parameter, threading the absolute position -/
def unitL (L : Matcher) (t : Table) : PState → Parser (Nat × PState)
  | (some (p, rem), pos) =>
      Parser.bind (decOffsetC (t.info p).r (t.info p).k) fun (off, ob) =>
        Parser.pure ((t.info p).val off, (if rem ≤ 1 then none else some (p, rem - 1), pos + ob))
  | (none, pos) =>
      Parser.bind (L pos t.codes) fun p =>
        match (t.info p).jump with
        | none => Parser.bind (decOffsetC (t.info p).r (t.info p).k) fun (off, ob) =>
            Parser.pure ((t.info p).val off, (none, pos + (t.code p).length + ob))
        | some j => Parser.bind (decVarintC nEntriesBits j) fun (m, vb) =>
            Parser.bind (decOffsetC (t.info p).r (t.info p).k) fun (off, ob) =>
              Parser.pure ((t.info p).val off, (if m = 0 then none else some (p, m), pos + (t.code p).length + vb + ob))

/-- decode up to `m` units; stops (without consuming) at the first unit that does not succeed and
says why (`none` = the `m` units were decoded) -/
def drainR {σ : Type} (u : σ → Parser (Nat × σ)) : Nat → σ → Bits → List Nat × σ × Bits × Option Err
  | 0, st, s => ([], st, s, none)
  | m+1, st, s =>
    match u st s with
    | .ok (x, st1) r =>
      let (xs, st2, r2, why) := drainR u m st1 r
      (x :: xs, st2, r2, why)
    | .insufficient => ([], st, s, some .insufficient)
    | .corrupt => ([], st, s, some .corrupt)
    | .compat => ([], st, s, some .compat)

/-! ### state -/

/-- `NumDecompressor.state` -/
structure NumSt where
  nProcessed : Nat
  bitsProcessed : Nat
  inc : UState
  deriving DecidableEq, Repr, Inhabited

/-- `ChunkBodyDecompressor` (Simple: `order = 0`) with its `NumDecompressor` -/
structure Body where
  /-- numbers the body codes (`NumDecompressor.n`) -/
  n : Nat
  bodyBytes : Nat
  ps : List Prefix
  st : NumSt
  /-- `ChunkBodyDecompressor::Delta.n` (= `n` for Simple) -/
  total : Nat
  order : Nat
  moments : List Nat
  numsProcessed : Nat
  deriving DecidableEq, Repr, Inhabited

/-- `Decompressor`: `words` + `State` -/
structure St where
  /-- the bits written and not yet consumed (`words` from the committed position on) -/
  rest : Bits
  /-- committed absolute bit position (`state.bit_idx` + freed bits) -/
  pos : Nat
  /-- bits released by `free_compressed_memory` (a multiple of 64) -/
  freed : Nat
  flags : Option Flags
  body : Option Body
  terminated : Bool
  deriving DecidableEq, Repr, Inhabited

def St.init : St := { rest := [], pos := 0, freed := 0, flags := none, body := none, terminated := false }

/-- `Decompressor::bit_idx` -/
def St.bitIdx (σ : St) : Nat := σ.pos - σ.freed

/-- a reader: unread bits and absolute position -/
structure Rd where
  bits : Bits
  pos : Nat
  deriving DecidableEq, Repr, Inhabited

def Rd.advance (rd : Rd) (r : Bits) : Rd := { bits := r, pos := rd.pos + (rd.bits.length - r.length) }

def resErr {α : Type} : Res α → Err
  | .insufficient => .insufficient
  | .corrupt => .corrupt
  | .compat => .compat
  | .ok _ _ => .corrupt

/-! ### number batches -/

/-- `drain_empty_byte`: skip to the next byte boundary; non-zero padding is corruption -/
def drainEmptyByte (rd : Rd) : Out Rd :=
  let pad := (8 - rd.pos % 8) % 8
  let z := rd.bits.take pad
  if z.any id then .err .corrupt else .ok { bits := rd.bits.drop pad, pos := rd.pos + z.length }

structure UBatch where
  us : List Nat
  finished : Bool
  deriving Repr, Inhabited

/-- `decompress_unsigneds_limited_dirty`: returns the result, the (dirty) state and the reader -/
def numBatchDirty (L : Matcher) (b : Body) (limit : Nat) (eoi : Bool) (rd : Rd) :
    Out UBatch × NumSt × Rd :=
  let batch := min (b.n - b.st.nProcessed) limit
  let completed := decide (limit ≥ b.n - b.st.nProcessed)
  if batch = 0 then (.ok { us := [], finished := completed }, b.st, rd)
  else
    let (us, ps', r, why) := drainR (unitL L (tableOf b.ps)) batch (b.st.inc, rd.pos) rd.bits
    let st' : NumSt := { b.st with inc := ps'.1 }
    let rd' := rd.advance r
    match why with
    | none => (.ok { us := us, finished := completed }, st', rd')
    | some .insufficient =>
      if eoi then (.err .insufficient, st', rd') else (.ok { us := us, finished := false }, st', rd')
    | some e => (.err e, st', rd')

/-- `decompress_unsigneds_limited`: snapshot, dirty decode, end-of-body checks, commit or restore -/
def numBatch (L : Matcher) (b : Body) (limit : Nat) (eoi : Bool) (rd : Rd) :
    Out UBatch × NumSt × Rd :=
  let initial := (b.st, rd)
  match numBatchDirty L b limit eoi rd with
  | (.ok ub, st', rd') =>
    let fin : Out Rd := if ub.finished then drainEmptyByte rd' else .ok rd'
    match fin with
    | .err e => (.err e, initial.1, initial.2)
    | .ok rd'' =>
      let bits := st'.bitsProcessed + (rd''.pos - rd.pos)
      if ub.finished && b.bodyBytes * 8 != bits then (.err .corrupt, initial.1, initial.2)
      else (.ok ub, { st' with nProcessed := st'.nProcessed + ub.us.length, bitsProcessed := bits }, rd'')
  | (.err e, _, _) => (.err e, initial.1, initial.2)

/-- `reconstruct_nums`: returns the numbers (signed patterns mapped with `from_signed`) and the moments -/
def reconNums (d : DType) : Nat → List Nat → List Nat → List Nat × List Nat
  | 0, moments, _ => ([], moments)
  | n+1, moments, deltas =>
    let out := d.fromS (moments.headD 0)
    let m1 := shiftMoments d.signed moments
    match deltas with
    | [] =>
      let (xs, mf) := reconNums d n m1 []
      (out :: xs, mf)
    | dl :: rest =>
      let (xs, mf) := reconNums d n (addLast d.signed dl m1) rest
      (out :: xs, mf)

structure NBatch where
  nums : List Nat
  finished : Bool
  deriving Repr, Inhabited

/-- `ChunkBodyDecompressor::decompress_next_batch` -/
def nextBatch (L : Matcher) (d : DType) (b : Body) (limit : Nat) (eoi : Bool) (rd : Rd) :
    Out NBatch × Body × Rd :=
  match numBatch L b limit eoi rd with
  | (.err e, st', rd') => (.err e, { b with st := st' }, rd')
  | (.ok ub, st', rd') =>
    let b1 := { b with st := st' }
    if b.order = 0 then
      (.ok { nums := ub.us.map d.fromU, finished := ub.finished }, b1, rd')
    else
      let batchSize := if ub.finished then min limit (b.total - b.numsProcessed) else ub.us.length
      let (nums, moments') := reconNums d batchSize b.moments (ub.us.map d.signed.fromU)
      let np := b.numsProcessed + batchSize
      (.ok { nums := nums, finished := decide (np = b.total) }, { b1 with moments := moments', numsProcessed := np }, rd')

/-- `NumDecompressor::bits_remaining` (saturating) -/
def Body.bitsRemaining (b : Body) : Nat := b.bodyBytes * 8 - b.st.bitsProcessed

/-- `ChunkBodyDecompressor::new`: validation of the prefix table -/
def newBody (fl : Flags) (m : ChunkMeta) : Out Body :=
  let nBody := bodyCount fl m.n
  if m.prefixes.isEmpty && nBody > 0 then .err .corrupt
  else if !m.prefixes.isEmpty && !completeTree (m.prefixes.map (·.code)) then .err .corrupt
  else .ok { n := nBody, bodyBytes := m.bodyBytes, ps := m.prefixes,
             st := { nProcessed := 0, bitsProcessed := 0, inc := none },
             total := m.n, order := fl.order, moments := m.moments, numsProcessed := 0 }

/-! ### the operations -/

inductive Item where
  | flags (f : Flags)
  | meta_ (m : ChunkMeta)
  | nums (xs : List Nat)
  | footer
  deriving Repr, Inhabited

/-- `with_reader`: the closure sees a reader at the committed position; its state mutations
persist; the reader position is committed iff the result is `ok` -/
def withReader {α : Type} (σ : St) (f : Rd → St → Out α × St × Rd) : Out α × St :=
  let rd : Rd := { bits := σ.rest, pos := σ.pos }
  match f rd σ with
  | (.ok a, σ', rd') => (.ok a, { σ' with rest := rd'.bits, pos := rd'.pos })
  | (.err e, σ', _) => (.err e, σ')

def runParser {α : Type} (p : Parser α) (rd : Rd) : Out (α × Rd) :=
  match p rd.bits with
  | .ok a r => .ok (a, rd.advance r)
  | res => .err (resErr res)

/-- parsers that start with `read_aligned_bytes`: a misaligned reader (only reachable through a
corrupt body size) is an invalid-argument error -/
def runAligned {α : Type} (p : Parser α) (rd : Rd) : Out (α × Rd) :=
  if rd.pos % 8 ≠ 0 then .err .invalid else runParser p rd

def checkNotTerminated (σ : St) : Option Err := if σ.terminated then some .invalid else none

/-- `read_chunk_meta`: `none` = the termination byte -/
def readChunkMeta (gb : Nat → Nat) (d : DType) (fl : Flags) : Parser (Option ChunkMeta) :=
  Parser.bind (readNat 8) fun b =>
    if b = Frozen.magicTerminationByte then Parser.pure none
    else if b = Frozen.magicChunkByte then Parser.map some (decChunkMeta gb d fl)
    else Parser.corrupt

/-- `Decompressor::header` -/
def header (d : DType) (σ : St) : Out Flags × St :=
  match checkNotTerminated σ with
  | some e => (.err e, σ)
  | none =>
    if σ.flags.isSome then (.err .invalid, σ)
    else withReader σ fun rd st =>
      match runAligned (decHeader d) rd with
      | .ok (fl, rd') => (.ok fl, { st with flags := some fl }, rd')
      | .err e => (.err e, st, rd)

/-- `Decompressor::chunk_metadata` -/
def chunkMetadata (gb : Nat → Nat) (d : DType) (σ : St) : Out (Option ChunkMeta) × St :=
  match checkNotTerminated σ with
  | some e => (.err e, σ)
  | none =>
    match σ.flags with
    | none => (.err .invalid, σ)
    | some fl =>
      if σ.body.isSome then (.err .invalid, σ)
      else withReader σ fun rd st =>
        match runAligned (readChunkMeta gb d fl) rd with
        | .err e => (.err e, st, rd)
        | .ok (none, rd') => (.ok none, st, rd')
        | .ok (some m, rd') =>
          match newBody fl m with
          | .err e => (.err e, st, rd')
          | .ok b => (.ok (some m), { st with body := some b }, rd')

def checkInChunkBody (σ : St) : Option Err :=
  match checkNotTerminated σ with
  | some e => some e
  | none => if σ.body.isNone then some .invalid else none

/-- `Decompressor::skip_chunk_body` -/
def skipChunkBody (σ : St) : Out Unit × St :=
  match checkInChunkBody σ with
  | some e => (.err e, σ)
  | none =>
    match σ.body with
    | none => (.err .invalid, σ)
    | some b =>
      let k := b.bitsRemaining
      if k ≤ σ.rest.length then (.ok (), { σ with rest := σ.rest.drop k, pos := σ.pos + k, body := none })
      else (.err .insufficient, σ)

/-- `Decompressor::chunk_body` -/
def chunkBody (L : Matcher) (d : DType) (σ : St) : Out (List Nat) × St :=
  match checkInChunkBody σ with
  | some e => (.err e, σ)
  | none =>
    withReader σ fun rd st =>
      match st.body with
      | none => (.err .invalid, st, rd)
      | some b =>
        -- usize::MAX as the limit: any bound ≥ the numbers left
        match nextBatch L d b (b.total + b.n + 1) true rd with
        | (.err e, b', rd') => (.err e, { st with body := some b' }, rd')
        | (.ok nb, _, rd') => (.ok nb.nums, { st with body := none }, rd')

/-- `Iterator::next` -/
def next (L : Matcher) (gb : Nat → Nat) (d : DType) (limit : Nat) (σ : St) : Out (Option Item) × St :=
  withReader σ fun rd st =>
    if st.terminated then (.ok none, st, rd)
    else match st.flags with
    | none =>
      match runAligned (decHeader d) rd with
      | .ok (fl, rd') => (.ok (some (.flags fl)), { st with flags := some fl }, rd')
      | .err .insufficient => (.ok none, st, rd)
      | .err e => (.err e, st, rd)
    | some fl =>
      match st.body with
      | none =>
        match runAligned (readChunkMeta gb d fl) rd with
        | .err .insufficient => (.ok none, st, rd)
        | .err e => (.err e, st, rd)
        | .ok (none, rd') => (.ok (some .footer), { st with terminated := true }, rd')
        | .ok (some m, rd') =>
          match newBody fl m with
          | .err e => (.err e, st, rd')
          | .ok b =>
            if m.n = 0 then
              match nextBatch L d b limit false rd' with
              | (.err e, _, rd'') => (.err e, st, rd'')
              | (.ok _, _, rd'') => (.ok (some (.meta_ m)), st, rd'')
            else (.ok (some (.meta_ m)), { st with body := some b }, rd')
      | some b =>
        match nextBatch L d b limit false rd with
        | (.err e, b', rd') => (.err e, { st with body := some b' }, rd')
        | (.ok nb, b', rd') =>
          if nb.nums.isEmpty then (.ok none, { st with body := some b' }, rd')
          else (.ok (some (.nums nb.nums)), { st with body := if nb.finished then none else some b' }, rd')

/-- `Write::write` (whole bytes) -/
def write (σ : St) (bits : Bits) : St := { σ with rest := σ.rest ++ bits }

/-- `Decompressor::free_compressed_memory` -/
def free (σ : St) : St := { σ with freed := σ.freed + 64 * (σ.bitIdx / 64) }

/-- the chunk loop of `simple_decompress`; fuel bounds the number of chunks -/
def simpleLoop (L : Matcher) (gb : Nat → Nat) (d : DType) : Nat → St → List Nat → Out (List Nat) × St
  | 0, σ, _ => (.err .insufficient, σ)
  | fuel+1, σ, acc =>
    match chunkMetadata gb d σ with
    | (.err e, σ') => (.err e, σ')
    | (.ok none, σ') => (.ok acc, σ')
    | (.ok (some _), σ') =>
      match chunkBody L d σ' with
      | (.err e, σ'') => (.err e, σ'')
      | (.ok xs, σ'') => simpleLoop L gb d fuel σ'' (acc ++ xs)

/-- `Decompressor::simple_decompress`: atomic (snapshot/restore of the state) -/
def simpleDecompress (L : Matcher) (gb : Nat → Nat) (d : DType) (σ : St) : Out (List Nat) × St :=
  match header d σ with
  | (.err e, _) => (.err e, σ)
  | (.ok _, σ1) =>
    match simpleLoop L gb d (σ.rest.length / 8 + 2) σ1 [] with
    | (.err e, _) => (.err e, σ)
    | (.ok xs, σ2) => (.ok xs, σ2)

/-- drain the iterator: items until `none` or an error (fuel bounds the number of items) -/
def drainIter (L : Matcher) (gb : Nat → Nat) (d : DType) (limit : Nat) :
    Nat → St → List Item → List Item × Option Err × St
  | 0, σ, acc => (acc.reverse, none, σ)
  | fuel+1, σ, acc =>
    match next L gb d limit σ with
    | (.ok none, σ') => (acc.reverse, none, σ')
    | (.ok (some it), σ') => drainIter L gb d limit fuel σ' (it :: acc)
    | (.err e, σ') => (acc.reverse, some e, σ')

/-! ### the 6-bit-stride lookup (`HuffmanTable::search_with_reader` over `read_prefix_table_idx`) -/

def strideLog : Nat := 6

/-- walk: `cands` = indices of the codes consistent with the bits read so far; `j` = position of
the reader inside its 64-bit word. Near the end of the data the real lookup is *lazier* than the
specification: with fewer bits left than the stride it succeeds only if the bits left are exactly
a code; when the stride crosses into a word that does not exist yet the reader position is left
beyond the data and every following (checked) read fails; when the next word exists the stride
reads zero padding beyond the data, and a code found that way ends beyond the data, so again the
following read fails. All three cases make the *unit* answer `insufficient`. -/
def matchStrideGo (codes : List Bits) : Nat → List Nat → Nat → Nat → Bits → Bits → Res Nat
  | 0, _, _, _, _, _ => .corrupt
  | fuel+1, cands, depth, j, s, orig =>
    match cands with
    | [] => .corrupt
    | [i] =>
      let len := (codes.getD i []).length
      if len > orig.length then .insufficient else .ok i (orig.drop len)
    | _ =>
      let maxD := cands.foldl (fun m i => max m (codes.getD i []).length) 0
      let tsl := min strideLog (maxD - depth)
      if s.isEmpty then .insufficient
      else
        let j := j % 64
        let crossing := decide (j + tsl > 64)
        if crossing && (s.drop (64 - j)).isEmpty then .insufficient
        else
          let got := s.take tsl
          let bitsRead := if crossing then tsl else got.length
          let padded := got ++ List.replicate (tsl - got.length) false
          let cands' := cands.filter fun i =>
            let c := codes.getD i []
            (List.range tsl).all fun k => !(depth + k < c.length) || c.getD (depth + k) false == padded.getD k false
          if bitsRead ≠ tsl then
            match cands' with
            | [i] => if (codes.getD i []).length = depth + bitsRead then .ok i (orig.drop (codes.getD i []).length) else .insufficient
            | _ => .insufficient
          else matchStrideGo codes fuel cands' (depth + tsl) (j + tsl) (s.drop tsl) orig

def matchStride : Matcher := fun pos codes s =>
  matchStrideGo codes (maxLen codes + 2) (List.range codes.length) 0 (pos % 64) s s

end Op
end Qco
