/-
Layer DL: the *literal* (statement-level) model of the `Decompressor<T>` state machine and of
`ChunkBodyDecompressor<T>` over the word-level `BitWords`/`BitReader` of `Qco.Bits.Words`.

Rust functions followed, statement by statement:

* `decompressor.rs`             `read_header`, `read_chunk_meta`, `Write::write` (`extend_bytes`),
                                `Decompressor::{bit_idx, with_reader, check_not_terminated, header,
                                chunk_metadata, check_in_chunk_body, skip_chunk_body, chunk_body,
                                simple_decompress, simple_decompress_dirty, free_compressed_memory}`,
                                `Iterator::next`
* `chunk_body_decompressor.rs`  `ChunkBodyDecompressor::{new, decompress_next_batch, bits_remaining}`
* `num_decompressor.rs`         `NumDecompressor::{new, bits_remaining, decompress_unsigneds_limited}` (the
                                snapshot/restore wrapper, `drain_empty_byte`, the compressed-body-size check)
* `delta_encoding.rs`           `reconstruct_nums`

reusing the literal models that are already verified: `Flags::parse_from` (`MetaIO.flagsParseFrom`),
`ChunkMetadata::parse_from` + `drain_empty_byte` (`MetaIO.parseFromDrain`),
`decompress_unsigneds_limited_dirty` (`NumDec.decompressUnsignedsLimitedDirty`), `NumDecompressor::new`'s
table and bounds (`NumDec.newDec`), `BitReader::{read_aligned_bytes, drain_empty_byte, seek_to}`,
`BitWords::{extend_bytes, truncate_left}`.

The refinement proofs are in `Qco/Lemmas/DecompLit/*.lean`, the property statements in `Qco/Properties/C08d.lean`.

Outcomes are `Qco.WB.R`: `ok`, `err kind`, `panic`.  Every `unwrap()` on `None`, every index into an empty
vector (`bytes[0]`, `moments[0]`, `moments[o + 1]`, `deltas[i]`) and every `usize` overflow/underflow of the
glue code (`bit_idx + bits_remaining`, `bits_processed + reader.bit_idx() - initial.bit_idx()`,
`compressed_body_size * 8`, `*n - *nums_processed`, `*nums_processed += batch_size`, `n_processed += len`,
`order - 1`, `bit_idx -= words_to_free * WORD_SIZE`, the two panics of `truncate_left`) is an explicit
`.panic`, so that "never panics" is a theorem (`Qco/Properties/C08d.lean`).

The commit points of the code are explicit: `with_reader` builds a fresh reader, `seek_to(state.bit_idx)`,
runs the closure on `&mut reader`/`&mut state` and commits `state.bit_idx = reader.bit_idx()` only on `Ok`;
what the closure did to `state` persists on `Err`.  `decompress_unsigneds_limited` clones reader and state,
and restores both on `Err`.  `simple_decompress` clones the state and restores it on `Err`.

Numbers are `Nat` bit patterns exactly as in `Qco.Op.Decomp` (`T::from_unsigned` = `d.fromU`,
`T::Signed::from_unsigned` = `d.signed.fromU`, `T::from_signed` = `d.fromS`, `wrapping_add` on
`T::Signed` = `d.signed.sAdd`).

EXPLICIT MODELLING LIMITS (inherited from the layers below, see their headers)
* `validate_prefix_tree` is `completeTree` here (as in `NumDec.newDec` and `Op.newBody`) so that the model stays
  executable on hostile tables; its own literal model (`Qco/Op/ValidateTree.lean`: `max_depth`, `1_usize <<
  max_depth`, `bits_to_usize_truncated`, the leaf-marking loop, the final scan) is proved equal to `completeTree`
  for codes shorter than 64 bits in `Qco/Lemmas/ValidateTree.lean` (`validatePrefixTree_eq`); the allocation
  `vec![false; 1 << max_depth]` itself is not modelled.
* unsigneds are `Nat`s: the `U`-overflow of `lower + offset * gcd` is not modelled (`Qco/Op/NumDec.lean`).
* `BitWords::extend_bytes`: `words.reserve(n_words - words.len())` and `last_mut().unwrap()` are not
  outcomes of `Words.extend` (`Qco/Bits/Words.lean`); `Vec` capacity overflow is not modelled.
* `read_aligned_bytes`: the slice `padded_bytes[start..start + n]` is `(padded.drop start).take n`
  (`Qco/Bits/Words.lean`; `readAlignedBytes_spec` shows that the `n` bytes are there).
* `Write::write` returns `Ok(buf.len())`; `flush` is a no-op; `DecompressorConfig` is the parameter `limit`
  (`numbers_limit_per_item`).
* the loop of `simple_decompress_dirty` has fuel `remaining bytes + 2` (every turn consumes the magic chunk
  byte); running out of it is `.panic` — proved unreachable.
-/
import Qco.Bits.Words
import Qco.Op.MetaIO
import Qco.Op.NumDec
import Qco.Op.Decomp
namespace Qco
namespace DecompLit
open Qco.WB Qco.MetaIO Qco.NumDec

/-! ## state -/

/-- `NumDecompressor<U>`: the immutable part (`NumDec.Dec`: table, `n`, the two per-block bounds,
`use_gcd`), `compressed_body_size`, and `state: State<U>` -/
structure NumDecSt where
  dec : Dec
  compressedBodySize : Nat
  nProcessed : Nat
  bitsProcessed : Nat
  inc : UState
  deriving Repr

/-- `ChunkBodyDecompressor<T>` -/
inductive CBD where
  | simple (numDecompressor : NumDecSt)
  | delta (n : Nat) (numDecompressor : NumDecSt) (deltaMoments : List Nat) (numsProcessed : Nat)
  deriving Repr

/-- `decompressor::State<T>` -/
structure State where
  bitIdx : Nat := 0
  flags : Option Flags := none
  chunkBodyDecompressor : Option CBD := none
  terminated : Bool := false
  deriving Repr

/-- `Decompressor<T>` (`config.numbers_limit_per_item` is a parameter of `next`) -/
structure LitSt where
  words : Words := {}
  state : State := {}
  deriving Repr

/-- `Decompressor::default()` -/
def LitSt.init : LitSt := {}

/-- `DecompressedItem<T>` -/
inductive Item where
  | flags (f : Flags)
  | chunkMetadata (m : RMeta)
  | numbers (xs : List Nat)
  | footer
  deriving Repr, DecidableEq

/-! ## `read_header`, `read_chunk_meta` -/

/-- `read_header::<T>(reader)`; a `?` returns the error with the reader where the failed call left it -/
def readHeader (d : DType) (w : Words) : RM Flags := fun reader =>
  -- `let bytes = reader.read_aligned_bytes(MAGIC_HEADER.len())?;`
  match readAlignedBytes w reader Frozen.magicHeader.length with
  | (.err k, r1) => (.err k, r1)
  | (.panic, r1) => (.panic, r1)
  | (.ok bytes, r1) =>
    if bytes ≠ Frozen.magicHeader then (.err "Corruption", r1)
    else
      -- `let bytes = reader.read_aligned_bytes(1)?; let byte = bytes[0];`
      match readAlignedBytes w r1 1 with
      | (.err k, r2) => (.err k, r2)
      | (.panic, r2) => (.panic, r2)
      | (.ok bytes, r2) =>
        match bytes[0]? with
        | none => (.panic, r2)
        | some byte =>
          if byte ≠ d.headerByte then (.err "Corruption", r2)
          else flagsParseFrom w r2                                 -- `Flags::parse_from(reader)`

/-- `read_chunk_meta::<T>(reader, flags)` -/
def readChunkMeta (gb : Nat → Nat) (d : DType) (fl : Flags) (w : Words) : RM (Option RMeta) := fun reader =>
  -- `let magic_byte = reader.read_aligned_bytes(1)?[0];`
  match readAlignedBytes w reader 1 with
  | (.err k, r1) => (.err k, r1)
  | (.panic, r1) => (.panic, r1)
  | (.ok bytes, r1) =>
    match bytes[0]? with
    | none => (.panic, r1)
    | some magicByte =>
      if magicByte = Frozen.magicTerminationByte then (.ok none, r1)
      else if magicByte ≠ Frozen.magicChunkByte then (.err "Corruption", r1)
      else
        -- `let metadata = ChunkMetadata::parse_from(reader, flags)?; reader.drain_empty_byte(..)?;`
        match parseFromDrain gb d fl w r1 with
        | (.err k, r2) => (.err k, r2)
        | (.panic, r2) => (.panic, r2)
        | (.ok metadata, r2) => (.ok (some metadata), r2)

/-! ## `NumDecompressor::{new, bits_remaining, decompress_unsigneds_limited}` -/

/-- `NumDecompressor::new(n, compressed_body_size, prefixes)`; `ub` is `U::BITS` -/
def numDecNew (ub n compressedBodySize : Nat) (ps : List Prefix) : R NumDecSt :=
  match newDec ub n ps with
  | .ok dec => .ok { dec := dec, compressedBodySize := compressedBodySize, nProcessed := 0,
                     bitsProcessed := 0, inc := none }
  | .err k => .err k
  | .panic => .panic

/-- `NumDecompressor::bits_remaining`:
`(self.compressed_body_size * 8).saturating_sub(self.state.bits_processed)` -/
def NumDecSt.bitsRemaining (nd : NumDecSt) : R Nat :=
  if nd.compressedBodySize * 8 ≥ USIZE then .panic
  else .ok (nd.compressedBodySize * 8 - nd.bitsProcessed)

/-- the closure of `res.and_then(|numbers| { .. })` in `decompress_unsigneds_limited`: `nd` is `self`
after the dirty call, `reader` the reader after it, `initialBitIdx` is `initial_reader.bit_idx()` -/
def finishBatch (nd : NumDecSt) (w : Words) (reader : Reader) (initialBitIdx : Nat)
    (us : List Nat) (finished : Bool) : R (List Nat × Bool) × NumDecSt × Reader :=
  -- `if numbers.finished_chunk_body { reader.drain_empty_byte(..)?; }`
  match (if finished then drainEmptyByte w reader else (.ok (), reader)) with
  | (.err k, r1) => (.err k, nd, r1)
  | (.panic, r1) => (.panic, nd, r1)
  | (.ok (), r1) =>
    -- `let bits_processed = self.state.bits_processed + reader.bit_idx() - initial_reader.bit_idx();`
    if nd.bitsProcessed + r1.bitIdx ≥ USIZE then (.panic, nd, r1)
    else if nd.bitsProcessed + r1.bitIdx < initialBitIdx then (.panic, nd, r1)
    else
      let bitsProcessed := nd.bitsProcessed + r1.bitIdx - initialBitIdx
      -- `if numbers.finished_chunk_body { let compressed_body_bit_size = self.compressed_body_size * 8; .. }`
      if finished && decide (nd.compressedBodySize * 8 ≥ USIZE) then (.panic, nd, r1)
      else if finished && decide (nd.compressedBodySize * 8 ≠ bitsProcessed) then (.err "Corruption", nd, r1)
      -- `self.state.n_processed += numbers.unsigneds.len(); self.state.bits_processed = bits_processed;`
      else if nd.nProcessed + us.length ≥ USIZE then (.panic, nd, r1)
      else (.ok (us, finished),
            { nd with nProcessed := nd.nProcessed + us.length, bitsProcessed := bitsProcessed }, r1)

/-- `NumDecompressor::decompress_unsigneds_limited(reader, limit, error_on_insufficient_data)`:
result, `self` afterwards, the reader afterwards -/
def decompressUnsignedsLimited (nd : NumDecSt) (w : Words) (reader : Reader) (limit : Nat)
    (eoi : Bool) : R (List Nat × Bool) × NumDecSt × Reader :=
  let initialReader := reader                                      -- `reader.clone()`
  let initialState := nd                                           -- `self.state.clone()`
  -- `self.decompress_unsigneds_limited_dirty::<GcdOp>(reader, limit, error_on_insufficient_data)`,
  -- `GcdOp` chosen by `self.use_gcd` (inside the literal dirty function)
  let o := decompressUnsignedsLimitedDirty nd.dec nd.nProcessed nd.inc limit eoi w reader
  let nd1 : NumDecSt := { nd with inc := o.inc }
  let res : R (List Nat × Bool) × NumDecSt × Reader :=
    match o.res with
    | .ok (us, finished) => finishBatch nd1 w o.rd initialReader.bitIdx us finished
    | .err k => (.err k, nd1, o.rd)
    | .panic => (.panic, nd1, o.rd)
  -- `if res.is_err() { *reader = initial_reader; self.state = initial_state; }`
  match res with
  | (.err k, _, _) => (.err k, initialState, initialReader)
  | out => out

/-! ## `delta_encoding::reconstruct_nums` -/

/-- `for o in 0..order - 1 { moments[o] = moments[o].wrapping_add(moments[o + 1]); }`; the first
argument is `order - 1 - o`; `ds` is `T::Signed` -/
def shiftLoop (ds : DType) : Nat → Nat → List Nat → R (List Nat)
  | 0, _, ms => .ok ms
  | fuel + 1, o, ms =>
    match ms[o]?, ms[o + 1]? with
    | some a, some b => shiftLoop ds fuel (o + 1) (ms.set o (ds.sAdd a b))
    | _, _ => .panic

/-- the `for i in 0..n` loop of `reconstruct_nums`; the first argument is `n - i`; returns `res` and
the moments -/
def reconLoop (d : DType) (deltas : List Nat) (order : Nat) :
    Nat → Nat → List Nat → List Nat → R (List Nat × List Nat)
  | 0, _, ms, res => .ok (res, ms)
  | k + 1, i, ms, res =>
    match ms[0]? with                                              -- `moments[0]`
    | none => .panic
    | some m0 =>
      let res1 := res ++ [d.fromS m0]                              -- `res.push(T::from_signed(moments[0]))`
      if order < 1 then .panic                                     -- `order - 1`
      else
        match shiftLoop d.signed (order - 1) 0 ms with
        | .panic => .panic
        | .err e => .err e
        | .ok ms1 =>
          if i < deltas.length then
            match ms1[order - 1]?, deltas[i]? with                 -- `moments[order - 1]`, `deltas[i]`
            | some a, some dl =>
              reconLoop d deltas order k (i + 1) (ms1.set (order - 1) (d.signed.sAdd a dl)) res1
            | _, _ => .panic
          else reconLoop d deltas order k (i + 1) ms1 res1

/-- `reconstruct_nums(delta_moments, deltas, n)`: the numbers and `delta_moments.moments` afterwards -/
def reconstructNums (d : DType) (moments deltas : List Nat) (n : Nat) : R (List Nat × List Nat) :=
  let order := moments.length                                      -- `delta_moments.order()`
  reconLoop d deltas order n 0 moments []

/-! ## `ChunkBodyDecompressor` -/

/-- `ChunkBodyDecompressor::new(metadata)`; `ub` is `T::Unsigned::BITS` -/
def CBD.new (ub : Nat) (m : RMeta) : R CBD :=
  match m.prefixMetadata with
  | .simple prefixes =>
    match numDecNew ub m.n m.compressedBodySize prefixes with
    | .ok nd => .ok (.simple nd)
    | .err k => .err k
    | .panic => .panic
  | .delta prefixes deltaMoments =>
    -- `metadata.n.saturating_sub(delta_moments.order())`
    match numDecNew ub (m.n - deltaMoments.length) m.compressedBodySize prefixes with
    | .ok nd => .ok (.delta m.n nd deltaMoments 0)
    | .err k => .err k
    | .panic => .panic

/-- `ChunkBodyDecompressor::bits_remaining` -/
def CBD.bitsRemaining : CBD → R Nat
  | .simple nd => nd.bitsRemaining
  | .delta _ nd _ _ => nd.bitsRemaining

/-- `ChunkBodyDecompressor::decompress_next_batch(reader, limit, error_on_insufficient_data)`:
`Numbers { nums, finished_chunk_body }`, `self` afterwards, the reader afterwards -/
def CBD.decompressNextBatch (d : DType) (cbd : CBD) (w : Words) (reader : Reader) (limit : Nat)
    (eoi : Bool) : R (List Nat × Bool) × CBD × Reader :=
  match cbd with
  | .simple nd =>
    match decompressUnsignedsLimited nd w reader limit eoi with
    | (.ok (us, finished), nd', r') => (.ok (us.map d.fromU, finished), .simple nd', r')
    | (.err k, nd', r') => (.err k, .simple nd', r')
    | (.panic, nd', r') => (.panic, .simple nd', r')
  | .delta n nd deltaMoments numsProcessed =>
    match decompressUnsignedsLimited nd w reader limit eoi with
    | (.err k, nd', r') => (.err k, .delta n nd' deltaMoments numsProcessed, r')
    | (.panic, nd', r') => (.panic, .delta n nd' deltaMoments numsProcessed, r')
    | (.ok (us, finished), nd', r') =>
      -- `if u_deltas.finished_chunk_body { min(limit, *n - *nums_processed) } else { unsigneds.len() }`
      if finished && decide (numsProcessed > n) then (.panic, .delta n nd' deltaMoments numsProcessed, r')
      else
        let batchSize := if finished then min limit (n - numsProcessed) else us.length
        let signeds := us.map d.signed.fromU
        match reconstructNums d deltaMoments signeds batchSize with
        | .panic => (.panic, .delta n nd' deltaMoments numsProcessed, r')
        | .err k => (.err k, .delta n nd' deltaMoments numsProcessed, r')
        | .ok (nums, moments') =>
          -- `*nums_processed += batch_size;`
          if numsProcessed + batchSize ≥ USIZE then (.panic, .delta n nd' moments' numsProcessed, r')
          else
            let np := numsProcessed + batchSize
            (.ok (nums, decide (np = n)), .delta n nd' moments' np, r')

/-! ## `Decompressor` -/

/-- `Write::write` (`self.words.extend_bytes(buf)`) -/
def write (σ : LitSt) (bytes : List Nat) : LitSt := { σ with words := σ.words.extend bytes }

/-- `Decompressor::bit_idx` -/
def bitIdx (σ : LitSt) : Nat := σ.state.bitIdx

/-- `Decompressor::with_reader`: the closure gets `&mut reader` (after `seek_to(state.bit_idx)`) and
`&mut state`; it returns its result and both as it leaves them -/
def withReader {α : Type} (σ : LitSt) (f : Reader → State → R α × State × Reader) : R α × LitSt :=
  -- `let mut reader = BitReader::from(&self.words); reader.seek_to(self.state.bit_idx);`
  let reader := Reader.seekTo σ.state.bitIdx
  match f reader σ.state with
  -- `if res.is_ok() { self.state.bit_idx = reader.bit_idx(); }`
  | (.ok a, st', r') => (.ok a, { σ with state := { st' with bitIdx := r'.bitIdx } })
  | (.err k, st', _) => (.err k, { σ with state := st' })
  | (.panic, st', _) => (.panic, { σ with state := st' })

/-- `Decompressor::check_not_terminated` -/
def checkNotTerminated (σ : LitSt) : R Unit :=
  if σ.state.terminated then .err "InvalidArgument" else .ok ()

/-- `Decompressor::header` -/
def header (d : DType) (σ : LitSt) : R Flags × LitSt :=
  match checkNotTerminated σ with
  | .err k => (.err k, σ)
  | .panic => (.panic, σ)
  | .ok () =>
    if σ.state.flags.isSome then (.err "InvalidArgument", σ)
    else withReader σ fun reader state =>
      match readHeader d σ.words reader with
      | (.ok flags, r') => (.ok flags, { state with flags := some flags }, r')
      | (.err k, r') => (.err k, state, r')
      | (.panic, r') => (.panic, state, r')

/-- `Decompressor::chunk_metadata` -/
def chunkMetadata (gb : Nat → Nat) (d : DType) (σ : LitSt) : R (Option RMeta) × LitSt :=
  match checkNotTerminated σ with
  | .err k => (.err k, σ)
  | .panic => (.panic, σ)
  | .ok () =>
    if σ.state.flags.isNone then (.err "InvalidArgument", σ)
    else if σ.state.chunkBodyDecompressor.isSome then (.err "InvalidArgument", σ)
    else withReader σ fun reader state =>
      match state.flags with                                       -- `state.flags.as_ref().unwrap()`
      | none => (.panic, state, reader)
      | some flags =>
        match readChunkMeta gb d flags σ.words reader with
        | (.err k, r') => (.err k, state, r')
        | (.panic, r') => (.panic, state, r')
        | (.ok none, r') => (.ok none, state, r')
        | (.ok (some m), r') =>
          -- `state.chunk_body_decompressor = Some(ChunkBodyDecompressor::new(meta)?)`
          match CBD.new d.uBits m with
          | .err k => (.err k, state, r')
          | .panic => (.panic, state, r')
          | .ok cbd => (.ok (some m), { state with chunkBodyDecompressor := some cbd }, r')

/-- `Decompressor::check_in_chunk_body` -/
def checkInChunkBody (σ : LitSt) : R Unit :=
  match checkNotTerminated σ with
  | .err k => .err k
  | .panic => .panic
  | .ok () => if σ.state.chunkBodyDecompressor.isNone then .err "InvalidArgument" else .ok ()

/-- `Decompressor::skip_chunk_body` -/
def skipChunkBody (σ : LitSt) : R Unit × LitSt :=
  match checkInChunkBody σ with
  | .err k => (.err k, σ)
  | .panic => (.panic, σ)
  | .ok () =>
    match σ.state.chunkBodyDecompressor with                       -- `.as_ref().unwrap()`
    | none => (.panic, σ)
    | some cbd =>
      match cbd.bitsRemaining with
      | .err k => (.err k, σ)
      | .panic => (.panic, σ)
      | .ok rem =>
        -- `let skipped_bit_idx = self.state.bit_idx + cbd.bits_remaining();`
        if σ.state.bitIdx + rem ≥ USIZE then (.panic, σ)
        else
          let skippedBitIdx := σ.state.bitIdx + rem
          if skippedBitIdx ≤ σ.words.total then
            (.ok (), { σ with state := { σ.state with bitIdx := skippedBitIdx, chunkBodyDecompressor := none } })
          else (.err "InsufficientData", σ)

/-- `Decompressor::chunk_body` -/
def chunkBody (d : DType) (σ : LitSt) : R (List Nat) × LitSt :=
  match checkInChunkBody σ with
  | .err k => (.err k, σ)
  | .panic => (.panic, σ)
  | .ok () =>
    withReader σ fun reader state =>
      match state.chunkBodyDecompressor with                       -- `.as_mut().unwrap()`
      | none => (.panic, state, reader)
      | some cbd =>
        -- `decompress_next_batch(reader, usize::MAX, true)?`
        match cbd.decompressNextBatch d σ.words reader (USIZE - 1) true with
        | (.err k, cbd', r') => (.err k, { state with chunkBodyDecompressor := some cbd' }, r')
        | (.panic, cbd', r') => (.panic, { state with chunkBodyDecompressor := some cbd' }, r')
        | (.ok (nums, _), _, r') => (.ok nums, { state with chunkBodyDecompressor := none }, r')

/-- `Iterator::next` (`limit` is `config.numbers_limit_per_item`); `Ok(None)` is the iterator's `None` -/
def next (gb : Nat → Nat) (d : DType) (limit : Nat) (σ : LitSt) : R (Option Item) × LitSt :=
  withReader σ fun reader state =>
    if state.terminated then (.ok none, state, reader)
    else if state.flags.isNone then
      match readHeader d σ.words reader with
      | (.ok flags, r') => (.ok (some (.flags flags)), { state with flags := some flags }, r')
      | (.err k, r') =>
        -- `reader.seek_to(state.bit_idx); Ok(None)`
        if k = "InsufficientData" then (.ok none, state, Reader.seekTo state.bitIdx)
        else (.err k, state, r')
      | (.panic, r') => (.panic, state, r')
    else if state.chunkBodyDecompressor.isNone then
      match state.flags with                                       -- `state.flags.as_ref().unwrap()`
      | none => (.panic, state, reader)
      | some flags =>
        match readChunkMeta gb d flags σ.words reader with
        | (.ok (some m), r') =>
          match CBD.new d.uBits m with
          | .ok cbd =>
            if m.n = 0 then
              -- `cbd.decompress_next_batch(reader, config.numbers_limit_per_item, false)?;`
              match cbd.decompressNextBatch d σ.words r' limit false with
              | (.err k, _, r'') => (.err k, state, r'')
              | (.panic, _, r'') => (.panic, state, r'')
              | (.ok _, _, r'') => (.ok (some (.chunkMetadata m)), state, r'')
            else (.ok (some (.chunkMetadata m)), { state with chunkBodyDecompressor := some cbd }, r')
          | .err k => (.err k, state, r')
          | .panic => (.panic, state, r')
        | (.ok none, r') => (.ok (some .footer), { state with terminated := true }, r')
        | (.err k, r') =>
          if k = "InsufficientData" then (.ok none, state, Reader.seekTo state.bitIdx)
          else (.err k, state, r')
        | (.panic, r') => (.panic, state, r')
    else
      match state.chunkBodyDecompressor with                       -- `.as_mut().unwrap()`
      | none => (.panic, state, reader)
      | some cbd =>
        match cbd.decompressNextBatch d σ.words reader limit false with
        | (.ok (nums, finished), cbd', r') =>
          if nums.isEmpty then (.ok none, { state with chunkBodyDecompressor := some cbd' }, r')
          else
            (.ok (some (.numbers nums)),
             { state with chunkBodyDecompressor := if finished then none else some cbd' }, r')
        | (.err k, cbd', r') => (.err k, { state with chunkBodyDecompressor := some cbd' }, r')
        | (.panic, cbd', r') => (.panic, { state with chunkBodyDecompressor := some cbd' }, r')

/-- `Decompressor::free_compressed_memory` -/
def free (σ : LitSt) : R Unit × LitSt :=
  let wordsToFree := σ.state.bitIdx / 64
  if wordsToFree > 0 then
    match σ.words.truncateLeftR wordsToFree with                   -- `self.words.truncate_left(words_to_free)`
    | .err k => (.err k, σ)
    | .panic => (.panic, σ)
    | .ok w' =>
      -- `self.state.bit_idx -= words_to_free * WORD_SIZE;`
      if wordsToFree * 64 > σ.state.bitIdx then (.panic, { σ with words := w' })
      else (.ok (), { words := w', state := { σ.state with bitIdx := σ.state.bitIdx - wordsToFree * 64 } })
  else (.ok (), σ)

/-- `while self.chunk_metadata()?.is_some() { let nums = self.chunk_body()?; res = .. }` of
`simple_decompress_dirty`, then `Ok(res.unwrap_or_default())`; `acc` is `res.unwrap_or_default()` so far -/
def simpleLoop (gb : Nat → Nat) (d : DType) : Nat → LitSt → List Nat → R (List Nat) × LitSt
  | 0, σ, _ => (.panic, σ)
  | fuel + 1, σ, acc =>
    match chunkMetadata gb d σ with
    | (.err k, σ') => (.err k, σ')
    | (.panic, σ') => (.panic, σ')
    | (.ok none, σ') => (.ok acc, σ')
    | (.ok (some _), σ') =>
      match chunkBody d σ' with
      | (.err k, σ'') => (.err k, σ'')
      | (.panic, σ'') => (.panic, σ'')
      | (.ok nums, σ'') => simpleLoop gb d fuel σ'' (acc ++ nums)

/-- `Decompressor::simple_decompress_dirty` -/
def simpleDecompressDirty (gb : Nat → Nat) (d : DType) (σ : LitSt) : R (List Nat) × LitSt :=
  match header d σ with
  | (.err k, σ1) => (.err k, σ1)
  | (.panic, σ1) => (.panic, σ1)
  | (.ok _, σ1) => simpleLoop gb d ((σ.words.total - σ.state.bitIdx) / 8 + 2) σ1 []

/-- `Decompressor::simple_decompress` -/
def simpleDecompress (gb : Nat → Nat) (d : DType) (σ : LitSt) : R (List Nat) × LitSt :=
  let initialState := σ.state                                      -- `self.state.clone()`
  match simpleDecompressDirty gb d σ with
  -- `if res.is_err() { self.state = initial_state; }`
  | (.err k, σ') => (.err k, { σ' with state := initialState })
  | out => out

/-- drain the iterator (`for item in &mut decompressor`): items until `None` or an error; fuel bounds the
number of items (driver helper, mirrors `Op.drainIter`) -/
def drainIter (gb : Nat → Nat) (d : DType) (limit : Nat) :
    Nat → LitSt → List Item → List Item × Option String × LitSt
  | 0, σ, acc => (acc.reverse, none, σ)
  | fuel + 1, σ, acc =>
    match next gb d limit σ with
    | (.ok none, σ') => (acc.reverse, none, σ')
    | (.ok (some it), σ') => drainIter gb d limit fuel σ' (it :: acc)
    | (.err k, σ') => (acc.reverse, some k, σ')
    | (.panic, σ') => (acc.reverse, some "panic", σ')

end DecompLit
end Qco
