/-
Layer G, executable literal model of `q_compress/src/gcd_utils.rs`, statement by statement:

* `pair_gcd`                    → `pairGcd`
* `gcd`                         → `gcdSorted` (+ its `for` loop `gcdLoop`)
* `common_gcd_for_chunk_meta`   → `commonGcdForChunkMeta` (+ its `for` loop `commonLoop`)
* `use_gcd_prefix_optimize`     → `useGcdPrefixOptimize` (+ its two `for` loops `optLoop1`, `optLoop2`)
* `use_gcd_arithmetic`          → `useGcdArithmetic`
* `gcd_fits_in_prefix_meta`     → `gcdFitsInPrefixMeta` (`gcd_bits_required` is the parameter `gb`: a float computation)
* `fold_prefix_gcds_left`       → `foldPrefixGcdsLeft`
* the two inner loops of `optimize_prefixes` (prefix_optimization.rs:85-96 and 121-133) that call
  `fold_prefix_gcds_left` from the last raw prefix of a group down to its first → `foldLoop`

Numbers are `Nat`s; `ub` is `U::BITS` where an overflow is possible.  Outcomes are `Out`: `ok v` or `panic`
(division by zero in `a %= b`, index out of bounds, unsigned underflow of `-`, overflow of `+` – the harness
builds with `overflow-checks = true`).  `num_eq` on `T` is equality of the unsigned images (`to_unsigned`
is a bijection), as everywhere else in the model.

Nothing here refers to `Nat.gcd`: the proofs that these literal functions compute what `Qco/Train/Model.lean`
assumes are in `Qco/Lemmas/GcdLit.lean`, the property statements in `Qco/Properties/C18g.lean`.
-/
namespace Qco.GcdLit

/-- outcome of a Rust function that may panic -/
inductive Out (α : Type) where
  | ok (v : α)
  | panic
  deriving Repr, DecidableEq

def Out.bind {α β : Type} : Out α → (α → Out β) → Out β
  | .ok v, f => f v
  | .panic, _ => .panic

instance : Monad Out where
  pure := .ok
  bind := Out.bind

/-- the three fields of `Prefix<T>` that `gcd_utils.rs` reads (bounds in the unsigned domain) -/
structure GP where
  lower : Nat
  upper : Nat
  gcd : Nat
  deriving Repr, DecidableEq, Inhabited

/-! ## `pair_gcd` -/

/-- one pass of `pair_gcd`'s body per unit of `fuel`:
```
loop { a %= b; if a == 0 { return b }  b %= a; if b == 0 { return a } }
```
`a %= b` panics for `b == 0` ("attempt to calculate the remainder with a divisor of zero"); `b %= a` is only
reached with `a ≠ 0`.  The recursion is structural in `fuel` so that the kernel can evaluate it; `pairGcd`
starts it with `fuel = b`, and `b ≤ fuel` is an invariant (`b % (a % b) < a % b < b`: this is the termination
argument of the Rust loop, `Qco.GcdLit.pairGcdLoop_fuel`).  So `fuel = 0` is only reached with `b = 0`, where
the Rust panics as well: no outcome of this function is an artefact of the fuel. -/
def pairGcdLoop : Nat → Nat → Nat → Out Nat
  | 0, _, _ => .panic                              -- here `b = 0`: `a %= b`
  | fuel + 1, a, b =>
    if b = 0 then .panic                           -- `a %= b`
    else
      let a' := a % b                              -- `a %= b`
      if a' = 0 then .ok b                         -- `if a == U::ZERO { return b }`
      else
        let b' := b % a'                           -- `b %= a`
        if b' = 0 then .ok a'                      -- `if b == U::ZERO { return a }`
        else pairGcdLoop fuel a' b'                -- next iteration

/-- `pair_gcd(a, b)` -/
def pairGcd (a b : Nat) : Out Nat := pairGcdLoop b a b

/-! ## `gcd` -/

/-- `for &x in sorted.iter().skip(1) { if res == U::ONE { break }  res = pair_gcd(x - lower, res) }  res` -/
def gcdLoop (lower : Nat) : List Nat → Nat → Out Nat
  | [], res => .ok res
  | x :: xs, res =>
    if res = 1 then .ok res                        -- `break`
    else if x < lower then .panic                  -- `x - lower`
    else
      match pairGcd (x - lower) res with
      | .panic => .panic
      | .ok r => gcdLoop lower xs r

/-- `gcd(sorted)` -/
def gcdSorted (sorted : List Nat) : Out Nat :=
  match sorted[0]? with                            -- `sorted[0]`
  | none => .panic
  | some lower =>
    if sorted.length < 1 then .panic               -- `sorted.len() - 1`
    else
      match sorted[sorted.length - 1]? with        -- `sorted[sorted.len() - 1]`
      | none => .panic
      | some upper =>
        if lower = upper then .ok 1                -- `return U::ONE`
        else if upper < lower then .panic          -- `upper - lower`
        else gcdLoop lower (sorted.drop 1) (upper - lower)

/-! ## `common_gcd_for_chunk_meta` -/

/-- the `for p in prefixes` loop; state `(nontrivial_ranges_share_gcd, gcd)` -/
def commonLoop : List GP → Bool → Option Nat → Bool × Option Nat
  | [], share, gcd => (share, gcd)
  | p :: ps, share, gcd =>
    if p.upper ≠ p.lower then                      -- `!p.upper.num_eq(&p.lower)`
      if gcd.isNone then commonLoop ps share (some p.gcd)
      else commonLoop ps false gcd
    else commonLoop ps share gcd

/-- `common_gcd_for_chunk_meta(prefixes)`; it cannot panic -/
def commonGcdForChunkMeta (ps : List GP) : Option Nat :=
  match ps.length, commonLoop ps true none with
  | 0, _ => none
  | _, (false, _) => none
  | _, (true, some gcd) => some gcd
  | _, (_, none) => some 1

/-! ## `use_gcd_prefix_optimize` -/

/-- `for p in prefixes { if p.gcd > U::ONE { return true } }`; `true` = returned -/
def optLoop1 : List GP → Bool
  | [] => false
  | p :: ps => if p.gcd > 1 then true else optLoop1 ps

/-- `prefixes.iter().enumerate()` from index `i` -/
def enumFrom {α : Type} (i : Nat) : List α → List (Nat × α)
  | [] => []
  | x :: xs => (i, x) :: enumFrom (i + 1) xs

/-- the second loop, over `prefixes.iter().enumerate().skip(1)`, reading `prefixes[i - 1]`; the `&&` are
short-circuit, so `pj.upper + ONE` (which overflows for `pj.upper = U::MAX`) is only evaluated when both ranges
are single-valued -/
def optLoop2 (ub : Nat) (prefixes : List GP) : List (Nat × GP) → Out Bool
  | [] => .ok false
  | (i, pi) :: rest =>
    if i < 1 then .panic                           -- `i - 1`
    else
      match prefixes[i - 1]? with                  -- `&prefixes[i - 1]`
      | none => .panic
      | some pj =>
        if pi.lower = pi.upper then
          if pj.lower = pj.upper then
            if 2 ^ ub ≤ pj.upper + 1 then .panic   -- `pj.upper.to_unsigned() + U::ONE`
            else if pj.upper + 1 < pi.lower then .ok true
            else optLoop2 ub prefixes rest
          else optLoop2 ub prefixes rest
        else optLoop2 ub prefixes rest

/-- `use_gcd_prefix_optimize(prefixes, flags)` with `flags.use_gcds = useGcds` -/
def useGcdPrefixOptimize (ub : Nat) (prefixes : List GP) (useGcds : Bool) : Out Bool :=
  if !useGcds then .ok false
  else if optLoop1 prefixes then .ok true
  else optLoop2 ub prefixes ((enumFrom 0 prefixes).drop 1)

/-! ## `use_gcd_arithmetic` -/

/-- `prefixes.iter().any(|p| p.gcd > U::ONE && !p.upper.num_eq(&p.lower))` -/
def useGcdArithmetic (prefixes : List GP) : Bool :=
  prefixes.any fun p => decide (p.gcd > 1) && !(p.upper == p.lower)

/-! ## `gcd_fits_in_prefix_meta` -/

/-- `gcd_fits_in_prefix_meta(p)`; `gb` is `gcd_bits_required`.  `>> bits` is only evaluated for
`bits < U::BITS`, so the shift itself cannot overflow. -/
def gcdFitsInPrefixMeta (ub : Nat) (gb : Nat → Nat) (p : GP) : Out Bool :=
  if p.upper < p.lower then .panic                 -- `p.upper.to_unsigned() - p.lower.to_unsigned()`
  else
    let bits := gb (p.upper - p.lower)
    if bits ≥ ub then .ok true
    else if p.gcd < 1 then .panic                  -- `p.gcd - U::ONE`
    else .ok ((p.gcd - 1) >>> bits == 0)

/-! ## `fold_prefix_gcds_left` -/

/-- `fold_prefix_gcds_left(left_lower, left_upper, left_gcd, right_upper, &mut acc)`; answers the new `*acc` -/
def foldPrefixGcdsLeft (leftLower leftUpper leftGcd rightUpper : Nat) (acc : Option Nat) :
    Out (Option Nat) :=
  let step1 : Out (Option Nat) :=
    if leftUpper ≠ rightUpper then
      match acc with
      | some gcd =>
        if rightUpper < leftUpper then .panic      -- `right_upper - left_upper`
        else
          match pairGcd (rightUpper - leftUpper) gcd with
          | .panic => .panic
          | .ok g => .ok (some g)
      | none =>
        if rightUpper < leftUpper then .panic      -- `right_upper - left_upper`
        else .ok (some (rightUpper - leftUpper))
    else .ok acc
  match step1 with
  | .panic => .panic
  | .ok acc1 =>
    if leftUpper ≠ leftLower then
      match acc1 with
      | some gcd =>
        match pairGcd leftGcd gcd with
        | .panic => .panic
        | .ok g => .ok (some g)
      | none => .ok (some leftGcd)
    else .ok acc1

/-- the callers' loop (prefix_optimization.rs:121-133, and 85-96 read at the end of its `j`-iterations):
`let mut gcd_acc = None; for k in (j..=i).rev() { fold_prefix_gcds_left(lower[k], upper[k], gcd[k], upper[i], &mut gcd_acc) }`.
`grp` is `prefixes[j..=i]` in ascending order, so the recursion handles the tail first. -/
def foldLoop (rightUpper : Nat) : List GP → Out (Option Nat)
  | [] => .ok none
  | p :: rest =>
    match foldLoop rightUpper rest with
    | .panic => .panic
    | .ok acc => foldPrefixGcdsLeft p.lower p.upper p.gcd rightUpper acc

/-! ## the library's own tests (gcd_utils.rs `test_pair_gcd`, `test_gcd`) and the panics -/

#guard pairGcd 0 14 = .ok 14 ∧ pairGcd 7 14 = .ok 7 ∧ pairGcd 8 14 = .ok 2 ∧ pairGcd 9 14 = .ok 1
#guard pairGcd 8 20 = .ok 4 ∧ pairGcd 1 6 = .ok 1 ∧ pairGcd 6 1 = .ok 1
#guard pairGcd 7 (2 ^ 64 - 1) = .ok 1 ∧ pairGcd 7 (2 ^ 63 - 1) = .ok 7
#guard pairGcd 5 0 = .panic ∧ pairGcd 0 0 = .panic
#guard gcdSorted [0, 4, 6, 8, 10] = .ok 2 ∧ gcdSorted [0, 4, 6, 8, 10, 11] = .ok 1 ∧ gcdSorted [7, 7] = .ok 1
#guard gcdSorted [] = .panic ∧ gcdSorted [5, 3, 9] = .panic ∧ gcdSorted [5, 3] = .panic
#guard commonGcdForChunkMeta [] = none ∧ commonGcdForChunkMeta [⟨3, 3, 1⟩, ⟨5, 5, 1⟩] = some 1
#guard commonGcdForChunkMeta [⟨3, 3, 1⟩, ⟨5, 9, 4⟩] = some 4
#guard commonGcdForChunkMeta [⟨0, 4, 2⟩, ⟨10, 14, 2⟩] = none      -- same divisor twice: still `None`
#guard useGcdPrefixOptimize 32 [⟨1000, 1000, 1⟩, ⟨2000, 2000, 1⟩] true = .ok true
#guard useGcdPrefixOptimize 32 [⟨1000, 1000, 1⟩, ⟨1001, 1001, 1⟩] true = .ok false
#guard useGcdPrefixOptimize 32 [⟨1000, 1000, 1⟩, ⟨2000, 2000, 1⟩] false = .ok false
#guard useGcdPrefixOptimize 8 [⟨255, 255, 1⟩, ⟨255, 255, 1⟩] true = .panic
#guard foldLoop 9 [⟨0, 4, 2⟩, ⟨6, 6, 1⟩, ⟨9, 9, 1⟩] = .ok (some 1)
#guard foldLoop 10 [⟨0, 4, 2⟩, ⟨6, 6, 1⟩, ⟨10, 10, 1⟩] = .ok (some 2)
#guard foldLoop 5 [⟨0, 3, 1⟩, ⟨0, 5, 0⟩] = .panic                   -- a divisor 0 poisons the accumulator

end Qco.GcdLit
