/-
Layer O/B: the *literal* model of `q_compress::huffman_decoding` — the table `HuffmanTable<U>`, its
construction (`From<&Vec<Prefix<T>>>`, `build_from_prefixes_recursive`) and the two lookups
(`search_with_reader`, `unchecked_search_with_reader`) running on the word-level reader of
`Qco.Bits.Words`.

`Qco.Op.matchStride` (`Qco/Op/Decomp.lean`) is the abstract model of the same lookup, written on bit
lists; `Qco/Lemmas/HuffTable.lean` proves that the two agree on complete code tables.

Conventions (as in `Qco.Bits.Words`): `usize` arithmetic that would overflow, indexing out of
bounds and `unwrap` on `None` are `R.panic` / the constructor `HTable.bad` (the harness builds with
`overflow-checks = true`).
-/
import Qco.Bits.Words
import Qco.Spec.File
namespace Qco
namespace HT
open Qco.WB

/-- `HuffmanTable<U>`.  A leaf carries `PrefixDecompressionInfo<U>`; the model keeps the position of
the prefix in the chunk's prefix list (which determines `lower`, `range`, `k`, the run-length
jumpstart) and `depth` = the length of its code.  `bad`: the construction panicked (no table
exists). -/
inductive HTable where
  | leaf (idx : Nat) (depth : Nat)
  | node (tsl : Nat) (children : List HTable)
  | bad
  deriving Repr, Inhabited

/-- `MAX_PREFIX_TABLE_SIZE_LOG` -/
def maxTableSizeLog : Nat := 6

/-- the prefixes handed down the recursion: position in the original list, code -/
abbrev Cand := Nat × Bits

/-- `prefixes.iter().map(|p| p.code.len()).max()` (`0` stands for `None`, only on the empty list,
which is matched before) -/
def maxDepthOf (ps : List Cand) : Nat := ps.foldl (fun m p => max m p.2.length) 0

/-- `sub_bits`: `for depth_incr in 0..table_size_log { push((idx >> (tsl - 1 - depth_incr)) & 1 > 0) }` -/
def subBits (tsl idx : Nat) : Bits :=
  (List.range tsl).map fun depthIncr => decide ((idx >>> (tsl - 1 - depthIncr)) &&& 1 > 0)

/-- the filter closure, `totalDepth = depth + depth_incr` for the first bit of the list:
```
for (depth_incr, bit) in sub_bits.iter().enumerate() {
  let total_depth = depth + depth_incr;
  if p.code.len() > total_depth && p.code[total_depth] != *bit { return false; }
}
true
``` -/
def compatible : Nat → Bits → Bits → Bool
  | _, [], _ => true
  | totalDepth, bit :: rest, code =>
    if code.length > totalDepth && code.getD totalDepth false != bit then false
    else compatible (totalDepth + 1) rest code

/-- `build_from_prefixes_recursive(prefixes, depth)`.  The recursion of the source is not structural
(it ends because the candidates get fewer); the model takes fuel — out of fuel is the source's
unbounded recursion (stack overflow), `bad`. -/
def buildRec : Nat → List Cand → Nat → HTable
  | 0, _, _ => .bad
  | fuel + 1, ps, depth =>
    match ps with
    | [p] => .leaf p.1 p.2.length                      -- `prefixes.len() == 1`
    | [] => .bad                                        -- `.max().unwrap()` on `None`
    | _ =>
      let maxDepth := maxDepthOf ps
      if maxDepth < depth then .bad                     -- `max_depth - depth` underflows
      else
        let tsl := min maxTableSizeLog (maxDepth - depth)
        let tableSize := 2 ^ tsl                        -- `1 << table_size_log`
        .node tsl ((List.range tableSize).map fun idx =>
          buildRec fuel (ps.filter fun p => compatible depth (subBits tsl idx) p.2) (depth + tsl))

/-- `prefixes.iter().enumerate()`: each code with its position -/
def candsOf (codes : List Bits) : List Cand := codes.zipIdx.map fun (c, i) => (i, c)

/-- `HuffmanTable::from(&prefixes)`; the empty list gives `HuffmanTable::default()`, a leaf holding
`PrefixDecompressionInfo::default()` (`depth = 0`).  Fuel: every level consumes at least one bit of
the longest code. -/
def build (codes : List Bits) : HTable :=
  if codes.isEmpty then .leaf 0 0 else buildRec (maxLen codes + 1) (candsOf codes) 0

/-- the arm `HuffmanTable::Leaf(info) => { reader.rewind(read_depth - info.depth); return Ok(info) }`,
with the underflow of `read_depth - depth` and `rewind`'s own panic -/
def leafArm (idx depth readDepth : Nat) (r : Reader) : R Nat × Reader :=
  if depth > readDepth then (.panic, r)
  else
    match rewind r (readDepth - depth) with
    | (.ok (), r') => (.ok idx, r')
    | (_, r') => (.panic, r')

mutual
/-- the loop of `search_with_reader`, entered with `node` and `read_depth` -/
def searchGo (w : Words) : HTable → Nat → Reader → R Nat × Reader
  | .leaf idx depth, readDepth, r => leafArm idx depth readDepth r
  | .bad, _, r => (.panic, r)
  | .node tsl children, readDepth, r =>
    match readPrefixTableIdx w r tsl with
    | (.err k, r1) => (.err k, r1)                      -- `?`
    | (.panic, r1) => (.panic, r1)
    | (.ok (bitsRead, idx), r1) =>
      let readDepth' := readDepth + bitsRead
      if bitsRead ≠ tsl then
        match children[idx]? with                       -- `node = &children[idx]`
        | none => (.panic, r1)
        | some (.leaf i depth) =>
          if depth = readDepth' then (.ok i, r1) else (.err "InsufficientData", r1)
        | some (.node _ _) => (.err "InsufficientData", r1)
        | some .bad => (.panic, r1)
      else searchChild w children idx readDepth' r1
/-- `node = &children[idx]` and the next turn of the loop -/
def searchChild (w : Words) : List HTable → Nat → Nat → Reader → R Nat × Reader
  | [], _, _, r => (.panic, r)
  | c :: _, 0, readDepth, r => searchGo w c readDepth r
  | _ :: cs, k + 1, readDepth, r => searchChild w cs k readDepth r
end

/-- `HuffmanTable::search_with_reader`: the index of the prefix found and the reader afterwards -/
def search (t : HTable) (w : Words) (r : Reader) : R Nat × Reader := searchGo w t 0 r

mutual
/-- the loop of `unchecked_search_with_reader` -/
def uncheckedSearchGo (w : Words) : HTable → Nat → Reader → R Nat × Reader
  | .leaf idx depth, readDepth, r => leafArm idx depth readDepth r
  | .bad, _, r => (.panic, r)
  | .node tsl children, readDepth, r =>
    match uncheckedReadPrefixTableIdx w r tsl with
    | (.err k, r1) => (.err k, r1)
    | (.panic, r1) => (.panic, r1)
    | (.ok idx, r1) => uncheckedSearchChild w children idx (readDepth + tsl) r1
def uncheckedSearchChild (w : Words) : List HTable → Nat → Nat → Reader → R Nat × Reader
  | [], _, _, r => (.panic, r)
  | c :: _, 0, readDepth, r => uncheckedSearchGo w c readDepth r
  | _ :: cs, k + 1, readDepth, r => uncheckedSearchChild w cs k readDepth r
end

/-- `HuffmanTable::unchecked_search_with_reader` -/
def uncheckedSearch (t : HTable) (w : Words) (r : Reader) : R Nat × Reader := uncheckedSearchGo w t 0 r

end HT
end Qco
