/-
Layer O: what the theorems assume about the Huffman lookup `L` of the operational decoder.

`LazyOf L`: on complete prefix-free code tables `L` is a *prefix-safe, possibly lazier* version of
the specification's `matchCode`: whenever it answers it answers what `matchCode` answers; it never
invents a failure other than `insufficient`; and it does answer as soon as at least `slack` more
bits follow the code (5 = stride − 1 for the real table). `eagerMatcher` satisfies it trivially;
`matchStride` (the model of the real 6-bit-stride table) is compared with the real lookup by the
correspondence check.
-/
import Qco.Op.Decomp
namespace Qco
namespace Op
open Parser

def lookahead : Nat := 5

structure LazyOf (L : Matcher) : Prop where
  safe : ∀ pos codes, completeTree codes = true → Safe (L pos codes)
  sound : ∀ pos codes s i r, completeTree codes = true → L pos codes s = .ok i r → matchCode codes s = .ok i r
  only_insufficient : ∀ pos codes s, completeTree codes = true →
    (∃ i r, L pos codes s = .ok i r) ∨ L pos codes s = .insufficient
  eager_with_slack : ∀ pos codes s i r, completeTree codes = true → matchCode codes s = .ok i r →
    lookahead ≤ r.length → L pos codes s = .ok i r

end Op
end Qco

namespace Qco
namespace Op
open Parser

/-- `LazyOf` without prefix-safety. The real stride lookup (`matchStride`) is NOT monotone in the
available data — with exactly one code's worth of bits left it answers, with one more bit (but
fewer than the stride) it answers `insufficient` again — so `LazyOf.safe` does not hold of it
(`Qco/Lemmas/Stride.lean`). What the refinement proofs really need is only: answers are the
specification's answers, failures are `insufficient`, and enough slack makes it answer. -/
structure WeakLazyOf (L : Matcher) : Prop where
  sound : ∀ pos codes s i r, completeTree codes = true → L pos codes s = .ok i r → matchCode codes s = .ok i r
  only_insufficient : ∀ pos codes s, completeTree codes = true →
    (∃ i r, L pos codes s = .ok i r) ∨ L pos codes s = .insufficient
  eager_with_slack : ∀ pos codes s i r, completeTree codes = true → matchCode codes s = .ok i r →
    lookahead ≤ r.length → L pos codes s = .ok i r

theorem LazyOf.weak {L : Matcher} (h : LazyOf L) : WeakLazyOf L :=
  ⟨h.sound, h.only_insufficient, h.eager_with_slack⟩

end Op
end Qco
