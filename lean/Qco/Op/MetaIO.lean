/-
Layer M, executable literal model of the *metadata* reader and writer of `q_compress`:

* `flags.rs`           `Flags::parse_from`, `TryFrom<Vec<bool>> for Flags`, `TryInto<Vec<bool>> for &Flags`,
                       `Flags::write`
* `gcd_utils.rs`       `read_gcd`, `write_gcd`, `common_gcd_for_chunk_meta`
* `delta_encoding.rs`  `DeltaMoments::parse_from`, `DeltaMoments::write_to`
* `data_types/mod.rs`  `NumberLike::read_from`, `NumberLike::write_to`
* `chunk_metadata.rs`  `parse_prefixes`, `write_prefixes`, `ChunkMetadata::parse_from`,
                       `ChunkMetadata::write_to`, `update_write_compressed_body_size`
* `decompressor.rs`    the tail of `read_chunk_meta` (`parse_from` followed by `drain_empty_byte`)

statement by statement over the word-level `BitReader`/`BitWriter` of `Qco.Bits.Words`.
Outcomes are `Qco.WB.R`: `ok`, `err kind`, `panic`.  A reader computation (`RM`) returns the outcome
*and the reader as the real code leaves it*: a `?` returns early with the reader wherever the last
successful call left it (the real `parse_from` does not rewind; `Decompressor::with_reader` commits the
position only on `Ok`).

EXPLICIT MODELLING LIMITS / ABSTRACTIONS
* A `T` value held in metadata (`Prefix::lower`, `Prefix::upper`) is represented by its image under
  `to_unsigned` (a bijection between the valid values of `T` and `DType.uValid`), exactly as in
  `Qco.Prefix` / `Qco.Op.BodyWriter`.  Hence `T::read_from` = `reader.read(PHYSICAL_BITS)?` followed by
  `from_bytes ∘ bits_to_bytes` and (at the use sites) `to_unsigned` is modelled as the raw `P`-bit read
  followed by `d.rawToU`; `rawToU = none` is the error of `from_bytes` (only the 96-bit timestamps have
  one: `Timestamp96::new` → **`InvalidArgument`**, not `Corruption`).  `T::write_to` is
  `writer.write(bytes_to_bits(to_bytes()))` = the `P` bits of `d.uToRaw u`.
  `lower.to_unsigned() > upper.to_unsigned()`, `num_eq` are comparisons of the images.
* A delta moment (`T::Signed`) is a pattern of the signed companion: `ds.fromU` of the image read,
  written as `ds.uToRaw (ds.toU m)` (as in `Qco.decMoment` / `Qco.encMoment`).
* `gcd_bits_required` (hardware `f64`) is the parameter `gb`; `Flags::bits_to_encode_count`
  (`((n + 1) as f64).log2().ceil()`) is `Flags.countBits` (`clog2 (n + 1)`), as everywhere in `Qco.Spec`.
* `Vec::with_capacity(n_pref)`: `n_pref < 2^15`, no capacity overflow; not an outcome of the model.
* `usize` fields are `Nat`s; `write_usize(x, n)` keeps the low `n` bits of `x` (that is what the source
  does: *silent truncation*, see `Qco/Lemmas/MetaIO/Write.lean`).

The proofs are in `Qco/Lemmas/MetaIO.lean` and `Qco/Lemmas/MetaIO/*.lean`, the property statements in `Qco/Properties/C02m.lean`.
-/
import Qco.Spec.File
import Qco.Bits.Words
import Qco.Op.BodyWriter
namespace Qco.MetaIO
open Qco Qco.WB

/-! ## reader computations -/

/-- a computation on `&mut BitReader` over fixed words: outcome and the reader afterwards -/
def RM (α : Type) : Type := Reader → R α × Reader

/-- `Ok(a)` -/
def RM.pure {α : Type} (a : α) : RM α := fun r => (.ok a, r)
/-- `return Err(QCompressError::kind(..))` -/
def RM.fail {α : Type} (k : String) : RM α := fun r => (.err k, r)
/-- a Rust panic -/
def RM.panic {α : Type} : RM α := fun r => (.panic, r)
/-- `let a = m?; f(a)` -/
def RM.bind {α β : Type} (m : RM α) (f : α → RM β) : RM β := fun r =>
  match m r with
  | (.ok a, r1) => f a r1
  | (.err k, r1) => (.err k, r1)
  | (.panic, r1) => (.panic, r1)

/-- `reader.read_one()` -/
def readOneM (w : Words) : RM Bool := fun r => readOne w r
/-- `reader.read_usize(n)` -/
def readUsizeM (w : Words) (n : Nat) : RM Nat := fun r => readUsize w r n
/-- `reader.read_diff::<U>(n)`, `U::BITS = ub` -/
def readDiffM (ub : Nat) (w : Words) (n : Nat) : RM Nat := fun r => readDiff ub w r n
/-- `reader.read(n)` -/
def readM (w : Words) (n : Nat) : RM (List Bool) := fun r => read w r n
/-- `reader.drain_empty_byte(|| corruption(..))` -/
def drainM (w : Words) : RM Unit := fun r => drainEmptyByte w r
/-- `reader.aligned_byte_idx()` -/
def alignedByteIdxM : RM Nat := fun r => (alignedByteIdx r, r)

/-! ## `NumberLike::read_from` -/

/-- `T::read_from(reader)` as an unsigned image (see the header of this file):
`let bools = reader.read(Self::PHYSICAL_BITS)?; Self::from_bytes(bits_to_bytes(bools))` -/
def readFrom (d : DType) (w : Words) : RM Nat :=
  RM.bind (readM w d.physBits) fun bools =>
    match d.rawToU (bitsNat bools) with
    | some u => RM.pure u
    | none => RM.fail "InvalidArgument"          -- `Timestamp96::new`: `invalid_argument`

/-! ## `gcd_utils::read_gcd` -/

/-- `read_gcd::<U>(range, reader)`, `U::BITS = ub` -/
def readGcd (gb : Nat → Nat) (ub : Nat) (w : Words) (range : Nat) : RM Nat :=
  RM.bind (readOneM w) fun nontrivial =>
    if nontrivial then
      RM.bind (readDiffM ub w (gb range)) fun gcdMinusOne =>
        if gcdMinusOne ≥ range then RM.fail "Corruption"
        else if gcdMinusOne + 1 ≥ 2 ^ ub then RM.panic     -- `gcd_minus_one + U::ONE`
        else RM.pure (gcdMinusOne + 1)
    else RM.pure 1

/-! ## `chunk_metadata::parse_prefixes` -/

/-- one iteration of `for _ in 0..n_pref` up to the `push` -/
def parsePrefix (gb : Nat → Nat) (d : DType) (fl : Flags) (w : Words) (n : Nat)
    (maybeCommonGcd : Option Nat) : RM Prefix :=
  RM.bind (readUsizeM w (fl.countBits n)) fun count =>
  RM.bind (readFrom d w) fun lower =>
  RM.bind (readFrom d w) fun upper =>
  if lower > upper then RM.fail "Corruption" else
  RM.bind (readUsizeM w fl.codeLenBits) fun codeLen =>
  RM.bind (readM w codeLen) fun code =>
  RM.bind (readOneM w) fun hasJump =>
  RM.bind (if hasJump then RM.bind (readUsizeM w Frozen.bitsJumpstart) fun j => RM.pure (some j)
           else RM.pure none) fun jump =>
  RM.bind (match maybeCommonGcd with
    | some g => RM.pure g
    | none =>
      if upper < lower then RM.panic               -- `upper.to_unsigned() - lower.to_unsigned()`
      else readGcd gb d.uBits w (upper - lower)) fun gcd =>
  RM.pure { count := count, lower := lower, upper := upper, code := code, jump := jump, gcd := gcd }

/-- `for _ in 0..n_pref { …; prefixes.push(Prefix { .. }) }` -/
def prefixLoop (gb : Nat → Nat) (d : DType) (fl : Flags) (w : Words) (n : Nat)
    (maybeCommonGcd : Option Nat) : Nat → List Prefix → RM (List Prefix)
  | 0, acc => RM.pure acc
  | k + 1, acc =>
    RM.bind (parsePrefix gb d fl w n maybeCommonGcd) fun p =>
      prefixLoop gb d fl w n maybeCommonGcd k (acc ++ [p])

/-- the `maybe_common_gcd` block of `parse_prefixes` -/
def parseCommonGcd (gb : Nat → Nat) (d : DType) (fl : Flags) (w : Words) : RM (Option Nat) :=
  if fl.gcds then
    RM.bind (readOneM w) fun hasCommon =>
      if hasCommon then
        RM.bind (readGcd gb d.uBits w (d.M - 1)) fun g => RM.pure (some g)   -- `T::Unsigned::MAX`
      else RM.pure none
  else RM.pure (some 1)                                                       -- `T::Unsigned::ONE`

/-- `parse_prefixes::<T>(reader, flags, n)` -/
def parsePrefixes (gb : Nat → Nat) (d : DType) (fl : Flags) (w : Words) (n : Nat) : RM (List Prefix) :=
  RM.bind (readUsizeM w Frozen.bitsNPrefixes) fun nPref =>
  RM.bind (parseCommonGcd gb d fl w) fun maybeCommonGcd =>
  prefixLoop gb d fl w n maybeCommonGcd nPref []

/-! ## `DeltaMoments::parse_from` -/

/-- `for _ in 0..order { moments.push(T::Signed::read_from(reader)?) }` -/
def momentsLoop (ds : DType) (w : Words) : Nat → List Nat → RM (List Nat)
  | 0, acc => RM.pure acc
  | k + 1, acc => RM.bind (readFrom ds w) fun u => momentsLoop ds w k (acc ++ [ds.fromU u])

/-- `DeltaMoments::<T>::parse_from(reader, order)`; `ds` is `T::Signed` -/
def parseMoments (ds : DType) (w : Words) (order : Nat) : RM (List Nat) := momentsLoop ds w order []

/-! ## `ChunkMetadata` -/

/-- `PrefixMetadata<T>` -/
inductive PrefixMeta where
  | simple (prefixes : List Prefix)
  | delta (prefixes : List Prefix) (deltaMoments : List Nat)
  deriving Repr, DecidableEq, Inhabited

def PrefixMeta.prefixes : PrefixMeta → List Prefix
  | .simple ps => ps
  | .delta ps _ => ps

def PrefixMeta.moments : PrefixMeta → List Nat
  | .simple _ => []
  | .delta _ ms => ms

def PrefixMeta.isDelta : PrefixMeta → Bool
  | .simple _ => false
  | .delta _ _ => true

/-- `ChunkMetadata<T>` -/
structure RMeta where
  n : Nat
  compressedBodySize : Nat
  prefixMetadata : PrefixMeta
  deriving Repr, DecidableEq, Inhabited

/-- `ChunkMetadata::<T>::parse_from(reader, flags)` -/
def parseFrom (gb : Nat → Nat) (d : DType) (fl : Flags) (w : Words) : RM RMeta :=
  RM.bind (readUsizeM w Frozen.bitsNEntries) fun n =>
  RM.bind (readUsizeM w Frozen.bitsBodySize) fun compressedBodySize =>
  RM.bind (if fl.order = 0 then
      RM.bind (parsePrefixes gb d fl w n) fun prefixes => RM.pure (PrefixMeta.simple prefixes)
    else
      RM.bind (parseMoments d.signed w fl.order) fun deltaMoments =>
      RM.bind (parsePrefixes gb d.signed fl w n) fun prefixes =>
      RM.pure (PrefixMeta.delta prefixes deltaMoments)) fun prefixMetadata =>
  RM.pure { n := n, compressedBodySize := compressedBodySize, prefixMetadata := prefixMetadata }

/-- the part of `read_chunk_meta` after the magic byte:
`let metadata = ChunkMetadata::parse_from(reader, flags)?; reader.drain_empty_byte(..)?;` -/
def parseFromDrain (gb : Nat → Nat) (d : DType) (fl : Flags) (w : Words) : RM RMeta :=
  RM.bind (parseFrom gb d fl w) fun metadata =>
  RM.bind (drainM w) fun _ => RM.pure metadata

/-! ## `Flags` (reader side) -/

/-- `bit_iter.next()` -/
def iterNext : List Bool → Option Bool × List Bool
  | [] => (none, [])
  | b :: bs => (some b, bs)

/-- `while delta_encoding_bits.len() < BITS_TO_ENCODE_DELTA_ENCODING_ORDER
{ delta_encoding_bits.push(bit_iter.next().cloned().unwrap_or(false)) }`; `fuel = 3 - len` -/
def deltaBitsLoop : Nat → List Bool → List Bool → List Bool × List Bool
  | 0, acc, it => (acc, it)
  | fuel + 1, acc, it =>
    let (x, it1) := iterNext it
    deltaBitsLoop fuel (acc ++ [x.getD false]) it1

/-- `impl TryFrom<Vec<bool>> for Flags` -/
def flagsTryFrom (bools : List Bool) : R Flags :=
  let (x0, it1) := iterNext bools
  let use5 := x0 == some true
  let (deltaEncodingBits, it2) := deltaBitsLoop Frozen.bitsDeltaOrder [] it1
  match BodyWriter.bitsToUsize deltaEncodingBits with
  | .panic => .panic
  | .err k => .err k
  | .ok order =>
    let (x4, it3) := iterNext it2
    let minCount := x4 == some true
    let (x5, it4) := iterNext it3
    let gcds := x5 == some true
    -- `for &bit in bit_iter { if bit { return Err(compatibility(..)) } }`
    if it4.any id then .err "Compatibility"
    else .ok { use5 := use5, order := order, minCount := minCount, gcds := gcds }

/-- `loop { bools.extend(reader.read(7)?); if !reader.read_one()? { break; } }`; one unit of fuel per
iteration (`err "fuel"` is an artefact, proved unreachable with `fuel > remaining bits / 8`) -/
def flagsLoop (w : Words) : Nat → List Bool → RM (List Bool)
  | 0, _ => RM.fail "fuel"
  | fuel + 1, bools =>
    RM.bind (readM w 7) fun bs =>
    RM.bind (readOneM w) fun cont =>
      if !cont then RM.pure (bools ++ bs) else flagsLoop w fuel (bools ++ bs)

/-- `Flags::parse_from(reader)` -/
def flagsParseFrom (w : Words) : RM Flags := fun r =>
  (RM.bind alignedByteIdxM fun _ =>
   RM.bind (flagsLoop w ((w.total - r.bitIdx) / 8 + 1) []) fun bools =>
   fun r' => (flagsTryFrom bools, r')) r

/-! ## writer side -/

/-- `T::write_to(writer)`: `writer.write(&bits::bytes_to_bits(self.to_bytes()))` -/
def writeNum (d : DType) (u : Nat) (wr : Writer) : Writer := wr.write (natBits d.physBits (d.uToRaw u))

/-- `write_gcd::<U>(range, gcd, writer)` -/
def writeGcd (gb : Nat → Nat) (ub : Nat) (range gcd : Nat) (wr : Writer) : R Writer :=
  let nontrivial := gcd != 1
  let wr1 := wr.writeOne nontrivial
  if nontrivial then
    if gcd < 1 then .panic                         -- `gcd - U::ONE`
    else wr1.writeDiff ub (gcd - 1) (gb range)
  else .ok wr1

/-- the `for p in prefixes` loop of `common_gcd_for_chunk_meta`
(state: `nontrivial_ranges_share_gcd`, `gcd`) -/
def commonGcdLoop : List Prefix → Bool → Option Nat → Bool × Option Nat
  | [], share, gcd => (share, gcd)
  | p :: ps, share, gcd =>
    if p.upper != p.lower then                     -- `!p.upper.num_eq(&p.lower)`
      if gcd.isNone then commonGcdLoop ps share (some p.gcd)
      else commonGcdLoop ps false gcd
    else commonGcdLoop ps share gcd

/-- `common_gcd_for_chunk_meta(prefixes)` -/
def commonGcdForChunkMeta (ps : List Prefix) : Option Nat :=
  let (share, gcd) := commonGcdLoop ps true none
  match ps.length, share, gcd with
  | 0, _, _ => none
  | _, false, _ => none
  | _, true, some g => some g
  | _, _, none => some 1

/-- the body of `for pref in prefixes` in `write_prefixes` -/
def writePrefix (gb : Nat → Nat) (d : DType) (fl : Flags) (n : Nat) (maybeCommonGcd : Option Nat)
    (p : Prefix) (wr : Writer) : R Writer :=
  R.bind (wr.writeUsize p.count (fl.countBits n)) fun wr1 =>
  let wr2 := writeNum d p.lower wr1
  let wr3 := writeNum d p.upper wr2
  R.bind (wr3.writeUsize p.code.length fl.codeLenBits) fun wr4 =>
  let wr5 := wr4.write p.code
  R.bind (match p.jump with
    | none => .ok (wr5.writeOne false)
    | some jumpstart => (wr5.writeOne true).writeUsize jumpstart Frozen.bitsJumpstart) fun wr6 =>
  if maybeCommonGcd.isNone then
    if p.upper < p.lower then .panic               -- `upper.to_unsigned() - lower.to_unsigned()`
    else writeGcd gb d.uBits (p.upper - p.lower) p.gcd wr6
  else .ok wr6

def writePrefixLoop (gb : Nat → Nat) (d : DType) (fl : Flags) (n : Nat) (maybeCommonGcd : Option Nat) :
    List Prefix → Writer → R Writer
  | [], wr => .ok wr
  | p :: ps, wr =>
    R.bind (writePrefix gb d fl n maybeCommonGcd p wr) fun wr1 =>
      writePrefixLoop gb d fl n maybeCommonGcd ps wr1

/-- `write_prefixes::<T>(prefixes, writer, flags, n)` -/
def writePrefixes (gb : Nat → Nat) (d : DType) (fl : Flags) (n : Nat) (ps : List Prefix)
    (wr : Writer) : R Writer :=
  R.bind (wr.writeUsize ps.length Frozen.bitsNPrefixes) fun wr1 =>
  R.bind (if fl.gcds then
      let maybeCommonGcd := commonGcdForChunkMeta ps
      let wr2 := wr1.writeOne maybeCommonGcd.isSome
      match maybeCommonGcd with
      | some commonGcd =>
        R.bind (writeGcd gb d.uBits (d.M - 1) commonGcd wr2) fun wr3 => .ok (maybeCommonGcd, wr3)
      | none => .ok (maybeCommonGcd, wr2)
    else .ok (some 1, wr1)) fun (maybeCommonGcd, wr3) =>
  writePrefixLoop gb d fl n maybeCommonGcd ps wr3

/-- `DeltaMoments::write_to`: `for moment in &self.moments { moment.write_to(writer) }` -/
def writeMoments (ds : DType) (ms : List Nat) (wr : Writer) : Writer :=
  ms.foldl (fun wr m => writeNum ds (ds.toU m) wr) wr

/-- `ChunkMetadata::write_to(&self, writer, flags)`.  The variant of `prefix_metadata` decides, not
`flags.delta_encoding_order`. -/
def writeTo (gb : Nat → Nat) (d : DType) (fl : Flags) (m : RMeta) (wr : Writer) : R Writer :=
  R.bind (wr.writeUsize m.n Frozen.bitsNEntries) fun wr1 =>
  R.bind (wr1.writeUsize m.compressedBodySize Frozen.bitsBodySize) fun wr2 =>
  R.bind (match m.prefixMetadata with
    | .simple prefixes => writePrefixes gb d fl m.n prefixes wr2
    | .delta prefixes deltaMoments =>
      writePrefixes gb d.signed fl m.n prefixes (writeMoments d.signed deltaMoments wr2)) fun wr3 =>
  .ok wr3.finishByte

/-- `update_write_compressed_body_size(&self, writer, bit_idx)` (called by the compressor after the
body has been written; not part of `write_to`) -/
def updateWriteCompressedBodySize (m : RMeta) (wr : Writer) (bitIdx : Nat) : R Writer :=
  if bitIdx + Frozen.bitsNEntries ≥ USIZE then .panic
  else wr.overwriteUsize (bitIdx + Frozen.bitsNEntries) m.compressedBodySize Frozen.bitsBodySize

/-! ## `Flags` (writer side) -/

/-- `bits::usize_truncated_to_bits(x, max_depth)` -/
def usizeTruncatedToBits (x maxDepth : Nat) : List Bool :=
  if maxDepth < 1 then []
  else (List.range maxDepth).map fun i => decide ((x / 2 ^ (maxDepth - i - 1)) % 2 > 0)

/-- `res.iter().rposition(|&bit| bit)` -/
def rposition : List Bool → Option Nat
  | [] => none
  | b :: bs =>
    match rposition bs with
    | some i => some (i + 1)
    | none => if b then some 0 else none

/-- `impl TryInto<Vec<bool>> for &Flags` -/
def flagsTryInto (f : Flags) : R (List Bool) :=
  let res := [f.use5]
  if f.order > Frozen.maxDeltaOrder then .err "InvalidArgument"
  else
    let res := res ++ usizeTruncatedToBits f.order Frozen.bitsDeltaOrder
    let res := res ++ [f.minCount]
    let res := res ++ [f.gcds]
    let necessaryLen := match rposition res with
      | some idx => idx + 1
      | none => 0
    .ok (res.take necessaryLen)

/-- `for i in 0_usize..(bools.len() / 7) + 1 { … }` of `Flags::write`; the list argument is the range -/
def flagsWriteLoop (bools : List Bool) : List Nat → Writer → Writer
  | [], wr => wr
  | i :: is, wr =>
    let start := i * 7
    let end_ := min (start + 7) bools.length
    let wr1 := wr.write ((bools.take end_).drop start)        -- `&bools[start..end]`, `start ≤ end`
    let wr2 := if end_ < bools.length then wr1.writeOne true else wr1
    flagsWriteLoop bools is wr2

/-- `Flags::write(&self, writer)` -/
def flagsWrite (f : Flags) (wr : Writer) : R Writer :=
  match flagsTryInto f with
  | .err k => .err k
  | .panic => .panic
  | .ok bools => .ok (flagsWriteLoop bools (List.range (bools.length / 7 + 1)) wr).finishByte

/-! ## driver entries -/

def bitsStr (bs : Bits) : String := String.ofList (bs.map fun b => if b then '1' else '0')

def natsStr (xs : List Nat) : String := ",".intercalate (xs.map toString)

def prefixStr (p : Prefix) : String :=
  s!"{p.count}:{p.lower}:{p.upper}:{bitsStr p.code}:" ++
    (match p.jump with | none => "-" | some j => toString j) ++ s!":{p.gcd}"

def metaStr (m : RMeta) : String :=
  s!"n={m.n} body={m.compressedBodySize} " ++
    (match m.prefixMetadata with
     | .simple _ => "simple"
     | .delta _ ms => "delta[" ++ natsStr ms ++ "]") ++
    " prefixes=[" ++ ";".intercalate (m.prefixMetadata.prefixes.map prefixStr) ++ "]"

def outcomeStr {α : Type} (f : α → String) : R α × Reader → String
  | (.ok a, r) => s!"ok {f a} pos={r.bitIdx}"
  | (.err k, r) => s!"err {k} pos={r.bitIdx}"
  | (.panic, _) => "panic"

/-- run `ChunkMetadata::parse_from` (followed by `drain_empty_byte` iff `drain`) on the words `ws`
holding `total` bits, from bit index `bitIdx` (a reader after `seek_to(bitIdx)`) -/
def runParse (d : DType) (fl : Flags) (gb : Nat → Nat) (ws : List Nat) (total bitIdx : Nat)
    (drain : Bool := true) : String :=
  let w : Words := { ws := ws, total := total }
  outcomeStr metaStr
    ((if drain then parseFromDrain gb d fl w else parseFrom gb d fl w) (Reader.seekTo bitIdx))

/-- run `Flags::parse_from` -/
def runParseFlags (ws : List Nat) (total bitIdx : Nat) : String :=
  let w : Words := { ws := ws, total := total }
  outcomeStr (fun f : Flags => s!"use5={f.use5} order={f.order} mincount={f.minCount} gcds={f.gcds}")
    (flagsParseFrom w (Reader.seekTo bitIdx))

def writerStr : R Writer → String
  | .ok wr => "ok " ++ bitsStr (BodyWriter.writerBits wr)
  | .err k => "err " ++ k
  | .panic => "panic"

/-- run `ChunkMetadata::write_to` on an empty `BitWriter`: `"ok <bits>"`, `"err <kind>"` or `"panic"` -/
def runWrite (d : DType) (fl : Flags) (gb : Nat → Nat) (m : RMeta) : String :=
  writerStr (writeTo gb d fl m {})

/-- run `Flags::write` on an empty `BitWriter` -/
def runWriteFlags (f : Flags) : String := writerStr (flagsWrite f {})

end Qco.MetaIO
