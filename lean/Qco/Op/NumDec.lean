/-
Layer O/B: the *literal* model of `q_compress::num_decompressor` — `max_bits_read`,
`max_bits_overshot`, `NumDecompressor::new` (the two per-block bounds), `unchecked_decompress_offsets`,
`decompress_offset_dirty`, `decompress_offsets`, `limit_reps`, `unchecked_decompress_num_block`,
`decompress_num_block` and `decompress_unsigneds_limited_dirty` — statement by statement, running on
the word-level reader of `Qco.Bits.Words` and the literal Huffman table of `Qco.Op.HuffTable`.

`Qco.Op.numBatchDirty` (`Qco/Op/Decomp.lean`) is the abstract model of the same function, written
unit by unit on bit lists; `Qco/Lemmas/NumDec/*.lean` proves that the two agree and that the
unchecked fast path never indexes beyond the words.

Conventions (as in `Qco.Bits.Words`): outcome `R.panic` for the reader's out-of-bounds word
indexing, for `usize` underflow of `batch_size - unsigneds.len()`, `self.n - n_processed`,
`remaining_reps - unsigneds.len()`, `total_bits - bit_idx` (`bits_remaining`), for `temp[0]` on an
empty vector, and for running out of the fuel of a `loop`/`while` (proved unreachable).

EXPLICIT MODELLING LIMITS
* Unsigneds are `Nat`s.  The value of a number is `lower + offset * gcd` as in `Qco.Spec`'s
  `(t.info p).val off`; the `U`-overflow of `lower + offset * gcd` (and the `U`-underflow of
  `k_range - offset`, which is provably absent: `offset ≤ k_range`) is NOT modelled.
* `Prefix::k_info` computes `k` with `f64` arithmetic and a correction step; the model takes the
  exact `⌊log2 (k_range + 1)⌋` (`Prefix.info`, as everywhere in `Qco.Spec`).  A prefix with
  `gcd = 0` divides by zero in the source; in the model `x / 0 = 0` (the metadata parser never
  produces `gcd = 0`).
* `validate_prefix_tree` is `completeTree` (as in `Qco.Op.newBody`).
* A leaf of the table holds the position of the prefix in the chunk's prefix list
  (`Qco.HT.HTable.leaf`); `IncompletePrefix { prefix, remaining_reps }` is `(position, remaining_reps)`.
* `unsigneds: Vec<U>` is a `List Nat`, `push` appends at the end; the two loops that push a constant
  (`for _ in 0..reps { push(lower) }`, `while len < batch_size { push(constant_num) }`) are
  `List.replicate`.
* usize overflow of the additions/multiplications of `max_bits_read` is not modelled (at most
  `2^24 * 130`).
-/
import Qco.Bits.Words
import Qco.Op.HuffTable
import Qco.Op.Decomp
namespace Qco
namespace NumDec
open Qco.WB Qco.HT

/-- `MAX_ENTRIES` -/
def maxEntries : Nat := 2 ^ 24 - 1
/-- `BITS_TO_ENCODE_N_ENTRIES` -/
def bitsToEncodeNEntries : Nat := 24
/-- `UNCHECKED_NUM_THRESHOLD` -/
def uncheckedNumThreshold : Nat := 30

/-- `PrefixDecompressionInfo<U>` -/
structure DInfo where
  lower : Nat
  kRange : Nat
  k : Nat
  depth : Nat
  jump : Option Nat
  mostSignificant : Nat
  gcd : Nat
  deriving Repr, DecidableEq, Inhabited

/-- `PrefixDecompressionInfo::from(&Prefix)` for `U::BITS = T::PHYSICAL_BITS = ub` -/
def dinfoOf (ub : Nat) (p : Prefix) : DInfo :=
  { lower := p.lower
    kRange := p.info.r
    k := p.info.k
    depth := p.code.length
    jump := p.jump
    mostSignificant := if p.info.k = ub then 0 else 2 ^ p.info.k
    gcd := p.gcd }

/-- `PrefixDecompressionInfo::default()` (the leaf of `HuffmanTable::default()`) -/
def dinfoDefault (ub : Nat) : DInfo :=
  { lower := 0, kRange := 2 ^ ub - 1, k := ub, depth := 0, jump := none, mostSignificant := 0, gcd := 1 }

/-- the per-offset bound of `max_bits_read`:
`if k_info.only_k_bits_lower == 0 { k } else { k + 1 }`, `only_k_bits_lower = diff - k_upper(k)` -/
def maxBitsPerOffset (p : Prefix) : Nat :=
  let onlyKBitsLower := p.info.r - (2 ^ p.info.k - 1)
  if onlyKBitsLower = 0 then p.info.k else p.info.k + 1

/-- `max_bits_read` -/
def maxBitsRead (p : Prefix) : Nat :=
  let prefixBits := p.code.length
  let (maxReps, maxJumpstartBits) :=
    match p.jump with
    | none => (1, 0)
    | some _ => (maxEntries, 2 * bitsToEncodeNEntries)
  prefixBits + maxJumpstartBits + maxReps * maxBitsPerOffset p

/-- `max_bits_overshot` (`saturating_sub` is `Nat` subtraction) -/
def maxBitsOvershot (p : Prefix) : Nat :=
  if p.code.isEmpty then 0 else (maxTableSizeLog - 1) - p.info.k

/-- `Iterator::max` -/
def listMax : List Nat → Option Nat
  | [] => none
  | x :: xs => some (xs.foldl max x)

/-- `gcd_utils::use_gcd_arithmetic` -/
def useGcdArithmetic (ps : List Prefix) : Bool :=
  ps.any fun p => decide (p.gcd > 1) && (p.upper != p.lower)

/-- the immutable part of `NumDecompressor<U>` (`compressed_body_size` is not used by the functions
modelled here) -/
structure Dec where
  table : HTable
  /-- the prefixes the leaves of the table point into -/
  ps : List Prefix
  /-- `U::BITS` -/
  ub : Nat
  n : Nat
  maxBitsPerNumBlock : Nat
  maxOvershootPerNumBlock : Nat
  useGcd : Bool
  deriving Repr

/-- the struct `NumDecompressor::new` builds:
`prefixes.iter().map(max_bits_read).max().unwrap_or(usize::MAX)` etc. -/
def mkDec (ub n : Nat) (ps : List Prefix) : Dec :=
  { table := build (ps.map (·.code))
    ps := ps
    ub := ub
    n := n
    maxBitsPerNumBlock := (listMax (ps.map maxBitsRead)).getD (USIZE - 1)
    maxOvershootPerNumBlock := (listMax (ps.map maxBitsOvershot)).getD (USIZE - 1)
    useGcd := useGcdArithmetic ps }

/-- `NumDecompressor::new` -/
def newDec (ub n : Nat) (ps : List Prefix) : R Dec :=
  if ps.isEmpty && decide (n > 0) then .err "Corruption"
  else if !ps.isEmpty && !completeTree (ps.map (·.code)) then .err "Corruption"
  else .ok (mkDec ub n ps)

/-- the `PrefixDecompressionInfo` a leaf holds -/
def Dec.info (dec : Dec) (idx : Nat) : DInfo :=
  match dec.ps[idx]? with
  | some p => dinfoOf dec.ub p
  | none => dinfoDefault dec.ub

/-- `GcdOp::get_diff` (`TrivialGcdOp` when `use_gcd` is false, else `GeneralGcdOp`) -/
def getDiff (useGcd : Bool) (offset gcd : Nat) : Nat := if useGcd then offset * gcd else offset

/-! ### offsets -/

/-- one turn of the second loop of `unchecked_decompress_offsets`:
```
let mut offset = reader.unchecked_read_diff(p.k);
if p.k < U::BITS && p.k_range - offset >= p.most_significant && reader.unchecked_read_one() {
  offset |= p.most_significant;
}
unsigneds.push(p.lower_unsigned + GcdOp::get_diff(offset, p.gcd));
``` -/
def uncheckedOffsetStep (ub : Nat) (useGcd : Bool) (w : Words) (p : DInfo) (r : Reader) (us : List Nat) :
    R Unit × List Nat × Reader :=
  match uncheckedReadDiff ub w r p.k with
  | (.err e, r1) => (.err e, us, r1)
  | (.panic, r1) => (.panic, us, r1)
  | (.ok offset, r1) =>
    if p.k < ub ∧ p.kRange - offset ≥ p.mostSignificant then
      match uncheckedReadOne w r1 with
      | (.err e, r2) => (.err e, us, r2)
      | (.panic, r2) => (.panic, us, r2)
      | (.ok b, r2) =>
        let offset' := if b then offset ||| p.mostSignificant else offset
        (.ok (), us ++ [p.lower + getDiff useGcd offset' p.gcd], r2)
    else (.ok (), us ++ [p.lower + getDiff useGcd offset p.gcd], r1)

/-- `for _ in 0..reps { ... }` (second branch) -/
def uncheckedOffsetsLoop (ub : Nat) (useGcd : Bool) (w : Words) (p : DInfo) :
    Nat → Reader → List Nat → R Unit × List Nat × Reader
  | 0, r, us => (.ok (), us, r)
  | reps + 1, r, us =>
    match uncheckedOffsetStep ub useGcd w p r us with
    | (.ok (), us1, r1) => uncheckedOffsetsLoop ub useGcd w p reps r1 us1
    | out => out

/-- `unchecked_decompress_offsets` -/
def uncheckedDecompressOffsets (ub : Nat) (useGcd : Bool) (w : Words) (p : DInfo) (r : Reader)
    (us : List Nat) (reps : Nat) : R Unit × List Nat × Reader :=
  if reps > 1 ∧ p.k = 0 then (.ok (), us ++ List.replicate reps p.lower, r)
  else uncheckedOffsetsLoop ub useGcd w p reps r us

/-- `decompress_offset_dirty` -/
def decompressOffsetDirty (ub : Nat) (w : Words) (p : DInfo) (r : Reader) (us : List Nat) :
    R Unit × List Nat × Reader :=
  match readDiff ub w r p.k with
  | (.err e, r1) => (.err e, us, r1)
  | (.panic, r1) => (.panic, us, r1)
  | (.ok offset, r1) =>
    if p.k < ub then
      let mostSignificant := 2 ^ p.k
      if p.kRange - offset ≥ mostSignificant then
        match readOne w r1 with
        | (.err e, r2) => (.err e, us, r2)
        | (.panic, r2) => (.panic, us, r2)
        | (.ok b, r2) =>
          let offset' := if b then offset ||| mostSignificant else offset
          (.ok (), us ++ [p.lower + offset' * p.gcd], r2)
      else (.ok (), us ++ [p.lower + offset * p.gcd], r1)
    else (.ok (), us ++ [p.lower + offset * p.gcd], r1)

/-- `decompress_offsets`: on an error the reader is put back at the end of the last complete number -/
def decompressOffsets (ub : Nat) (w : Words) (p : DInfo) :
    Nat → Reader → List Nat → R Unit × List Nat × Reader
  | 0, r, us => (.ok (), us, r)
  | reps + 1, r, us =>
    let startBitIdx := r.bitIdx
    match decompressOffsetDirty ub w p r us with
    | (.ok (), us1, r1) => decompressOffsets ub w p reps r1 us1
    | (.err e, us1, _) => (.err e, us1, Reader.seekTo startBitIdx)
    | (.panic, us1, r1) => (.panic, us1, r1)

/-! ### number blocks -/

/-- what a block-level function leaves behind: result, `unsigneds`, `state.incomplete_prefix`, reader -/
structure Blk where
  res : R Unit
  us : List Nat
  inc : UState
  rd : Reader
  deriving Repr, DecidableEq

/-- `limit_reps`: the repetitions to decode now and the new `incomplete_prefix` -/
def limitReps (inc : UState) (idx fullReps limit : Nat) : Nat × UState :=
  if fullReps > limit then (limit, some (idx, fullReps - limit)) else (fullReps, inc)

/-- `unchecked_decompress_num_block` -/
def uncheckedDecompressNumBlock (dec : Dec) (w : Words) (r : Reader) (us : List Nat) (inc : UState)
    (batchSize : Nat) : Blk :=
  match uncheckedSearch dec.table w r with
  | (.err e, r1) => ⟨.err e, us, inc, r1⟩
  | (.panic, r1) => ⟨.panic, us, inc, r1⟩
  | (.ok idx, r1) =>
    let p := dec.info idx
    match p.jump with
    | none =>
      match uncheckedDecompressOffsets dec.ub dec.useGcd w p r1 us 1 with
      | (res, us', r2) => ⟨res, us', inc, r2⟩
    | some jumpstart =>
      match uncheckedReadVarint w r1 jumpstart with
      | (.err e, r2) => ⟨.err e, us, inc, r2⟩
      | (.panic, r2) => ⟨.panic, us, inc, r2⟩
      | (.ok v, r2) =>
        let fullReps := v + 1
        if us.length > batchSize then ⟨.panic, us, inc, r2⟩      -- `batch_size - unsigneds.len()`
        else
          match limitReps inc idx fullReps (batchSize - us.length) with
          | (reps, inc') =>
            match uncheckedDecompressOffsets dec.ub dec.useGcd w p r2 us reps with
            | (res, us', r3) => ⟨res, us', inc', r3⟩

/-- the `let full_reps = match p.run_len_jumpstart { .. }` of `decompress_num_block`: the run length
and the reader, or the error with the reader put back at the start of the block -/
def readFullReps (w : Words) (p : DInfo) (r1 : Reader) (startBitIdx : Nat) : R Nat × Reader :=
  match p.jump with
  | none => (.ok 1, r1)
  | some jumpstart =>
    match readVarint w r1 jumpstart with
    | (.ok repsMinusOne, r2) => (.ok (repsMinusOne + 1), r2)
    | (.err e, _) => (.err e, Reader.seekTo startBitIdx)
    | (.panic, r2) => (.panic, r2)

/-- the end of `decompress_num_block`, given the outcome of `decompress_offsets`:
```
let n_decoded = unsigneds.len() - n_before;
if n_decoded == 0 && res.is_err() { reader.seek_to(start_bit_idx); }
else if full_reps > n_decoded { incomplete_prefix = Some(IncompletePrefix { prefix: p, remaining_reps: full_reps - n_decoded }); }
res
``` -/
def blockTail (idx fullReps nBefore startBitIdx : Nat) (inc : UState) :
    R Unit × List Nat × Reader → Blk
  | (.panic, us', r3) => ⟨.panic, us', inc, r3⟩
  | (.ok (), us', r3) =>
    let nDecoded := us'.length - nBefore
    if fullReps > nDecoded then ⟨.ok (), us', some (idx, fullReps - nDecoded), r3⟩
    else ⟨.ok (), us', inc, r3⟩
  | (.err e, us', r3) =>
    let nDecoded := us'.length - nBefore
    if nDecoded = 0 then ⟨.err e, us', inc, Reader.seekTo startBitIdx⟩
    else if fullReps > nDecoded then ⟨.err e, us', some (idx, fullReps - nDecoded), r3⟩
    else ⟨.err e, us', inc, r3⟩

/-- `decompress_num_block` -/
def decompressNumBlock (dec : Dec) (w : Words) (r : Reader) (us : List Nat) (inc : UState)
    (batchSize : Nat) : Blk :=
  let startBitIdx := r.bitIdx
  match search dec.table w r with
  | (.err e, _) => ⟨.err e, us, inc, Reader.seekTo startBitIdx⟩
  | (.panic, r1) => ⟨.panic, us, inc, r1⟩
  | (.ok idx, r1) =>
    let p := dec.info idx
    match readFullReps w p r1 startBitIdx with
    | (.err e, r2) => ⟨.err e, us, inc, r2⟩
    | (.panic, r2) => ⟨.panic, us, inc, r2⟩
    | (.ok fullReps, r2) =>
      if us.length > batchSize then ⟨.panic, us, inc, r2⟩        -- `batch_size - unsigneds.len()`
      else
        let reps := min fullReps (batchSize - us.length)
        blockTail idx fullReps us.length startBitIdx inc (decompressOffsets dec.ub w p reps r2 us)

/-! ### `decompress_unsigneds_limited_dirty` -/

/-- `while block_idx < guaranteed_safe_num_blocks && unsigneds.len() < batch_size { unchecked block;
block_idx += 1 }`; the first argument is `guaranteed_safe_num_blocks - block_idx` -/
def uncheckedBlocks (dec : Dec) (w : Words) (batchSize : Nat) : Nat → Reader → List Nat → UState → Blk
  | 0, r, us, inc => ⟨.ok (), us, inc, r⟩
  | c + 1, r, us, inc =>
    if us.length < batchSize then
      let b := uncheckedDecompressNumBlock dec w r us inc batchSize
      match b.res with
      | .ok () => uncheckedBlocks dec w batchSize c b.rd b.us b.inc
      | _ => b
    else ⟨.ok (), us, inc, r⟩

/-- the `loop { ... if guaranteed_safe_num_blocks >= UNCHECKED_NUM_THRESHOLD { ... } else { break } }`;
fuel: every turn that does not break decodes at least one number -/
def fastLoop (dec : Dec) (w : Words) (batchSize : Nat) : Nat → Reader → List Nat → UState → Blk
  | 0, r, us, inc => ⟨.panic, us, inc, r⟩
  | fuel + 1, r, us, inc =>
    if us.length > batchSize then ⟨.panic, us, inc, r⟩           -- `batch_size - unsigneds.len()`
    else
      let remainingUnsigneds := batchSize - us.length
      match bitsRemaining w r with
      | .ok bitsRem =>
        let guaranteedSafeNumBlocks :=
          min remainingUnsigneds ((bitsRem - dec.maxOvershootPerNumBlock) / dec.maxBitsPerNumBlock)
        if guaranteedSafeNumBlocks ≥ uncheckedNumThreshold then
          let b := uncheckedBlocks dec w batchSize guaranteedSafeNumBlocks r us inc
          match b.res with
          | .ok () => fastLoop dec w batchSize fuel b.rd b.us b.inc
          | _ => b
        else ⟨.ok (), us, inc, r⟩
      | _ => ⟨.panic, us, inc, r⟩

/-- `while unsigneds.len() < batch_size { match self.decompress_num_block(..) { .. } }`; fuel: every
successful block decodes at least one number -/
def checkedLoop (dec : Dec) (w : Words) (batchSize : Nat) : Nat → Reader → List Nat → UState → Blk
  | 0, r, us, inc => if us.length < batchSize then ⟨.panic, us, inc, r⟩ else ⟨.ok (), us, inc, r⟩
  | fuel + 1, r, us, inc =>
    if us.length < batchSize then
      let b := decompressNumBlock dec w r us inc batchSize
      match b.res with
      | .ok () => checkedLoop dec w batchSize fuel b.rd b.us b.inc
      | _ => b
    else ⟨.ok (), us, inc, r⟩

/-- what `decompress_unsigneds_limited_dirty` leaves behind: the result
(`Unsigneds { unsigneds, finished_chunk_body }`), `state.incomplete_prefix`, the reader -/
structure DirtyOut where
  res : R (List Nat × Bool)
  inc : UState
  rd : Reader
  deriving Repr, DecidableEq

/-- the closure `mark_insufficient` -/
def markInsufficient (eoi : Bool) (us : List Nat) (e : String) : R (List Nat × Bool) :=
  if eoi then .err e else .ok (us, false)

/-- the three arms `Ok(_) => (), Err(e) if InsufficientData => return mark_insufficient(..),
Err(e) => return Err(e)`, given what to do on `Ok` -/
def afterBlk (eoi : Bool) (b : Blk) (onOk : Unit → DirtyOut) : DirtyOut :=
  match b.res with
  | .ok () => onOk ()
  | .err e =>
    if e = "InsufficientData" then ⟨markInsufficient eoi b.us e, b.inc, b.rd⟩ else ⟨.err e, b.inc, b.rd⟩
  | .panic => ⟨.panic, b.inc, b.rd⟩

/-- the `if let Some(IncompletePrefix { prefix, remaining_reps }) = self.state.incomplete_prefix`
part: decode what is left of the run (up to the batch size) and update `incomplete_prefix` -/
def resumeIncomplete (dec : Dec) (w : Words) (r : Reader) (inc : UState) (batchSize : Nat) : Blk :=
  match inc with
  | none => ⟨.ok (), [], none, r⟩
  | some (idx, remainingReps) =>
    let reps := min remainingReps batchSize
    match decompressOffsets dec.ub w (dec.info idx) reps r [] with
    | (res, us, r1) =>
      if us.length > remainingReps then ⟨.panic, us, inc, r1⟩    -- `remaining_reps - unsigneds.len()`
      else
        let remainingReps' := remainingReps - us.length
        ⟨res, us, if remainingReps' = 0 then none else some (idx, remainingReps'), r1⟩

/-- the branch `if self.max_bits_per_num_block == 0 { .. }`: one unchecked block into `temp` (batch
size 1), then `constant_num = temp[0]` is pushed until the batch is full; `s1` is the state after
the resume -/
def constBranch (dec : Dec) (w : Words) (completedBody : Bool) (batchSize : Nat) (s1 : Blk) : DirtyOut :=
  let b := uncheckedDecompressNumBlock dec w s1.rd [] s1.inc 1
  match b.res with
  | .ok () =>
    match b.us[0]? with                                            -- `temp[0]`
    | none => ⟨.panic, b.inc, b.rd⟩
    | some constantNum =>
      ⟨.ok (s1.us ++ List.replicate (batchSize - s1.us.length) constantNum, completedBody), b.inc, b.rd⟩
  | .err e => ⟨.err e, b.inc, b.rd⟩
  | .panic => ⟨.panic, b.inc, b.rd⟩

/-- the `else` branch: the guarded fast path (`loop`), then the checked tail loop, then `Ok(numbers)` -/
def mainBranch (dec : Dec) (w : Words) (completedBody eoi : Bool) (batchSize : Nat) (s1 : Blk) : DirtyOut :=
  let f := fastLoop dec w batchSize (batchSize + 1) s1.rd s1.us s1.inc
  match f.res with
  | .ok () =>
    let c := checkedLoop dec w batchSize batchSize f.rd f.us f.inc
    afterBlk eoi c fun _ => ⟨.ok (c.us, completedBody), c.inc, c.rd⟩
  | .err e => ⟨.err e, f.inc, f.rd⟩
  | .panic => ⟨.panic, f.inc, f.rd⟩

/-- `decompress_unsigneds_limited_dirty` after the `batch_size == 0` early return -/
def dirtyBody (dec : Dec) (w : Words) (completedBody eoi : Bool) (batchSize : Nat) (r : Reader)
    (inc : UState) : DirtyOut :=
  let s1 := resumeIncomplete dec w r inc batchSize
  afterBlk eoi s1 fun _ =>
    if dec.maxBitsPerNumBlock = 0 then constBranch dec w completedBody batchSize s1
    else mainBranch dec w completedBody eoi batchSize s1

/-- `decompress_unsigneds_limited_dirty::<GcdOp>` (`GcdOp` by `dec.useGcd`, as the caller picks it) -/
def decompressUnsignedsLimitedDirty (dec : Dec) (nProcessed : Nat) (inc : UState) (limit : Nat)
    (eoi : Bool) (w : Words) (r : Reader) : DirtyOut :=
  if nProcessed > dec.n then ⟨.panic, inc, r⟩                     -- `self.n - self.state.n_processed`
  else
    let batchSize := min (dec.n - nProcessed) limit
    let completedBody := decide (limit ≥ dec.n - nProcessed)
    if batchSize = 0 then ⟨.ok ([], completedBody), inc, r⟩
    else dirtyBody dec w completedBody eoi batchSize r inc

/-! ### entry point for a driver -/

/-- printable outcome of `runDirty` -/
structure RunOut where
  /-- `"ok"`, `"err:<kind>"` or `"panic"` -/
  status : String
  unsigneds : List Nat
  finished : Bool
  incomplete : Option (Nat × Nat)
  bitIdx : Nat
  deriving Repr, DecidableEq

def RunOut.toString (o : RunOut) : String :=
  let inc := match o.incomplete with
    | none => "none"
    | some (p, rem) => s!"{p}:{rem}"
  s!"{o.status} finished={o.finished} inc={inc} bit_idx={o.bitIdx} n={o.unsigneds.length} us={o.unsigneds}"

instance : ToString RunOut := ⟨RunOut.toString⟩

/-- build the decompressor from the prefixes (`NumDecompressor::new`), put it in the given state
(`n_processed`, `incomplete_prefix`), seek the reader over `words`/`total_bits` to `bit_idx` and run
`decompress_unsigneds_limited_dirty(reader, limit, error_on_insufficient_data)`.
`ub` is `U::BITS`. -/
def runDirty (ub : Nat) (ps : List Prefix) (n nProcessed : Nat) (inc : Option (Nat × Nat))
    (limit : Nat) (eoi : Bool) (words : List Nat) (totalBits bitIdx : Nat) : RunOut :=
  match newDec ub n ps with
  | .err e => ⟨"err:" ++ e, [], false, inc, bitIdx⟩
  | .panic => ⟨"panic", [], false, inc, bitIdx⟩
  | .ok dec =>
    let o := decompressUnsignedsLimitedDirty dec nProcessed inc limit eoi
      { ws := words, total := totalBits } (Reader.seekTo bitIdx)
    match o.res with
    | .ok (us, fin) => ⟨"ok", us, fin, o.inc, o.rd.bitIdx⟩
    | .err e => ⟨"err:" ++ e, [], false, o.inc, o.rd.bitIdx⟩
    | .panic => ⟨"panic", [], false, o.inc, o.rd.bitIdx⟩

end NumDec
end Qco
