import Qco.Spec.Parser
/-
Layer O core: iterating a prefix-safe "unit" decoder; partial progress on a prefix of the data
is consistent with, and resumable to, the full decode (C04 re-bracketing, C05 split invariance).
-/
namespace Qco
open Parser

variable {σ : Type}

/-- decode exactly `n` units -/
def iterUnits (u : σ → Parser (Nat × σ)) : Nat → σ → Parser (List Nat × σ)
  | 0, st => Parser.pure ([], st)
  | n+1, st => Parser.bind (u st) fun (x, st1) =>
      Parser.bind (iterUnits u n st1) fun (xs, st2) => Parser.pure (x :: xs, st2)

/-- decode up to `m` units, stopping early (without consuming) when a unit does not succeed -/
def drainUnits (u : σ → Parser (Nat × σ)) : Nat → σ → Bits → List Nat × σ × Bits
  | 0, st, s => ([], st, s)
  | m+1, st, s =>
    match u st s with
    | .ok (x, st1) r =>
      let (xs, st2, r2) := drainUnits u m st1 r
      (x :: xs, st2, r2)
    | _ => ([], st, s)

theorem drainUnits_length_le (u : σ → Parser (Nat × σ)) (m : Nat) (st : σ) (s : Bits) :
    (drainUnits u m st s).1.length ≤ m := by
  induction m generalizing st s with
  | zero => simp [drainUnits]
  | succ m ih =>
    unfold drainUnits
    split
    · rename_i x st1 r _
      have := ih st1 r
      simp only [List.length_cons]; omega
    · simp

/-- Partial progress on the available prefix `s` is a prefix of the full result and the rest of
the full decode is obtained by resuming from the reached state on the unconsumed bits plus the
newly arrived ones. -/
theorem drain_resume (u : σ → Parser (Nat × σ)) (hu : ∀ st, Safe (u st))
    (n m : Nat) (hm : m ≤ n) (st : σ) (s t : Bits) (xs : List Nat) (stf : σ) (rf : Bits)
    (hfull : iterUnits u n st (s ++ t) = .ok (xs, stf) rf) :
    ∃ xs2, xs = (drainUnits u m st s).1 ++ xs2 ∧
      iterUnits u (n - (drainUnits u m st s).1.length) (drainUnits u m st s).2.1
        ((drainUnits u m st s).2.2 ++ t) = .ok (xs2, stf) rf := by
  induction m generalizing n st s xs with
  | zero => exact ⟨xs, by simp [drainUnits], by simpa [drainUnits] using hfull⟩
  | succ m ih =>
    cases n with
    | zero => omega
    | succ n =>
      unfold iterUnits Parser.bind at hfull
      cases hst : u st (s ++ t) with
      | ok a r =>
        obtain ⟨x, st1⟩ := a
        rw [hst] at hfull; simp only at hfull
        cases hit : iterUnits u n st1 r with
        | ok b r' =>
          obtain ⟨xs', st2⟩ := b
          rw [hit] at hfull; simp only [Parser.pure] at hfull
          injection hfull with h1 h2
          injection h1 with hxs hstf
          subst hxs; subst hstf; subst h2
          -- what does the unit do on the prefix alone?
          cases hs : u st s with
          | ok a' r1 =>
            obtain ⟨x', st1'⟩ := a'
            have hext := (hu st).ok_ext s (x', st1') r1 t hs
            rw [hst] at hext
            injection hext with ha hr
            injection ha with hx hs1
            subst hx; subst hs1; subst hr
            obtain ⟨xs2, hpre, hres⟩ := ih n (by omega) st1 r1 xs' hit
            refine ⟨xs2, ?_, ?_⟩
            · simp only [drainUnits, hs]; simp [hpre]
            · simp only [drainUnits, hs, List.length_cons]
              have : n + 1 - ((drainUnits u m st1 r1).1.length + 1) = n - (drainUnits u m st1 r1).1.length := by omega
              rw [this]; exact hres
          | insufficient =>
            refine ⟨x :: xs', by simp [drainUnits, hs], ?_⟩
            simp only [drainUnits, hs, List.length_nil, Nat.sub_zero]
            unfold iterUnits Parser.bind
            rw [hst]; simp only; rw [hit]; rfl
          | corrupt =>
            have := (hu st).corrupt_ext s t hs
            rw [hst] at this; cases this
          | compat =>
            have := (hu st).compat_ext s t hs
            rw [hst] at this; cases this
        | insufficient => rw [hit] at hfull; simp at hfull
        | corrupt => rw [hit] at hfull; simp at hfull
        | compat => rw [hit] at hfull; simp at hfull
      | insufficient => rw [hst] at hfull; simp at hfull
      | corrupt => rw [hst] at hfull; simp at hfull
      | compat => rw [hst] at hfull; simp at hfull

end Qco
