/-
Executable literal (statement-level) model of the prefix-tree check of `q_compress`:

* `num_decompressor.rs` lines 14-49   `validate_prefix_tree`
* `bits.rs`                           `bits_to_usize_truncated`

The function works on `prefixes: &[Prefix<T>]` but only ever looks at `p.code`, so the model takes
the list of codes `prefixes.map (·.code)`.  Numbers are `Nat`s; outcomes are `Qco.WB.R`: `ok`,
`err kind`, `panic`.  A `panic` is a shift overflow (`1_usize << s` / `pow >> s` with `s ≥ 64`; the
harness builds with `overflow-checks = true`) or the (unreachable) underflow of
`max_depth - p.code.len()`.  Both error returns of the Rust code are `ErrorKind::Corruption`; the
model returns `err "Corruption"` for either (the message text is not modelled).

`is_specifieds: Vec<bool>` is a `List Bool`; `iter_mut().skip(base_idx).take(n_leafs)` is modelled
as it behaves on iterators: it yields the elements at positions `[base_idx, base_idx + n_leafs)`
that exist and never panics when the range sticks out of the vector (`markTake` on `xs.drop base`).

Not modelled: the allocation `vec![false; 1 << max_depth]` (for `max_depth = 63` the real code panics
with "capacity overflow", for somewhat smaller depths the allocation fails and the process aborts; the
metadata parser reads the code length from a 4- or 5-bit field, so `max_depth < 32` on every path from
the public API), the error message strings (`bits_to_string`, `usize_truncated_to_bits` are only
used to build them).

The proofs are in `Qco/Lemmas/ValidateTree.lean`.
-/
import Qco.Bits.Words
import Qco.Spec.File
namespace Qco.ValidateTree
open Qco Qco.WB

/-! ## `bits::bits_to_usize_truncated` -/

/-- `for (i, bit) in bits.iter().enumerate() { if *bit { res |= pow >> i; } }`;
`pow >> i` is a shift overflow for `i ≥ 64` -/
def bitsLoop (pow : Nat) : List Bool → Nat → Nat → R Nat
  | [], _, res => .ok res
  | b :: bs, i, res =>
    if b then
      if i ≥ 64 then .panic
      else bitsLoop pow bs (i + 1) (res ||| shr pow i)
    else bitsLoop pow bs (i + 1) res

/-- `bits_to_usize_truncated(bits, max_depth)` -/
def bitsToUsizeTruncated (bits : Bits) (maxDepth : Nat) : R Nat :=
  -- `if max_depth < 1 { return 0; }`
  if maxDepth < 1 then .ok 0
  -- `let pow = 1_usize << (max_depth - 1);`
  else if maxDepth - 1 ≥ 64 then .panic
  else
    let pow := 2 ^ (maxDepth - 1)
    -- `let mut res = 0; for ... ; res`
    bitsLoop pow bits 0 0

/-! ## `validate_prefix_tree` -/

/-- `for p in prefixes { max_depth = max(max_depth, p.code.len()); }` -/
def maxDepthLoop : List Bits → Nat → Nat
  | [], maxDepth => maxDepth
  | c :: cs, maxDepth => maxDepthLoop cs (max maxDepth c.length)

/-- `let mut max_depth = 0; for p in prefixes { ... }` -/
def maxDepth (codes : List Bits) : Nat := maxDepthLoop codes 0

/-- the body of `for is_specified in <iterator>.take(n_leafs)` over the rest `xs` of the iterator:
`if *is_specified { return Err(corruption) } *is_specified = true;`.  Returns the rest of the vector
after the loop. -/
def markTake : List Bool → Nat → R (List Bool)
  | xs, 0 => .ok xs                        -- `take` is exhausted
  | [], _ + 1 => .ok []                    -- the underlying iterator is exhausted
  | x :: xs, n + 1 =>
    if x then .err "Corruption"            -- "multiple prefixes for {} found in chunk metadata"
    else
      match markTake xs n with
      | .ok ys => .ok (true :: ys)
      | .err e => .err e
      | .panic => .panic

/-- `for is_specified in is_specifieds.iter_mut().skip(base_idx).take(n_leafs) { ... }`:
the first `base_idx` entries are skipped (fewer if the vector is shorter) and stay as they are -/
def markFrom (isSpecifieds : List Bool) (baseIdx nLeafs : Nat) : R (List Bool) :=
  match markTake (isSpecifieds.drop baseIdx) nLeafs with
  | .ok ys => .ok (isSpecifieds.take baseIdx ++ ys)
  | .err e => .err e
  | .panic => .panic

/-- the second `for p in prefixes { ... }` (lines 26-38) -/
def markLoop (maxDepth : Nat) : List Bits → List Bool → R (List Bool)
  | [], isSpecifieds => .ok isSpecifieds
  | c :: cs, isSpecifieds =>
    -- `let base_idx = bits::bits_to_usize_truncated(&p.code, max_depth);`
    match bitsToUsizeTruncated c maxDepth with
    | .err e => .err e
    | .panic => .panic
    | .ok baseIdx =>
      -- `let n_leafs = 1_usize << (max_depth - p.code.len());`
      if maxDepth < c.length then .panic
      else if maxDepth - c.length ≥ 64 then .panic
      else
        let nLeafs := 2 ^ (maxDepth - c.length)
        match markFrom isSpecifieds baseIdx nLeafs with
        | .err e => .err e
        | .panic => .panic
        | .ok isSpecifieds' => markLoop maxDepth cs isSpecifieds'

/-- `for (idx, is_specified) in is_specifieds.iter().enumerate() { if !is_specified { return Err(..) } }`
(lines 39-47) -/
def scanLoop : List Bool → R Unit
  | [] => .ok ()
  | x :: xs =>
    if !x then .err "Corruption"           -- "no prefixes for {} found in chunk metadata"
    else scanLoop xs

/-- `validate_prefix_tree(prefixes)` on `codes = prefixes.map (·.code)` -/
def validatePrefixTree (codes : List Bits) : R Unit :=
  -- `if prefixes.is_empty() { return Ok(()); }`
  if codes.isEmpty then .ok ()
  else
    let maxDepth := maxDepth codes
    -- `let max_n_leafs = 1_usize << max_depth;`
    if maxDepth ≥ 64 then .panic
    else
      let maxNLeafs := 2 ^ maxDepth
      -- `let mut is_specifieds = vec![false; max_n_leafs];`
      let isSpecifieds := List.replicate maxNLeafs false
      match markLoop maxDepth codes isSpecifieds with
      | .err e => .err e
      | .panic => .panic
      | .ok isSpecifieds' =>
        match scanLoop isSpecifieds' with
        | .err e => .err e
        | .panic => .panic
        | .ok () => .ok ()

end Qco.ValidateTree
