/-
C01 — lossless round trip. Property theorems only.

Status: the body-level round trip is proved for *every* well-formed table and *every* legal
grouping of the numbers into single and run-length blocks (not only those today's compressor
chooses); the primitive fields (fixed-width naturals, run-length varint with the frozen terminator
rule, offsets with the MSB-last rule, prefix codes) and delta reconstruction are proved for all
arguments. The data-type maps are C12. File-level framing is `C02`/`C03`.
-/
import Qco.Spec.File
namespace Qco
namespace C01
open Parser

/-- run-length counts: every `x < 2^24` and every jumpstart `j ≤ 24` -/
theorem varint_roundtrip (j x : Nat) (hj : j ≤ 24) (hx : x < 2^24) (rest : Bits) :
    decVarint 24 j (encVarint 24 j x ++ rest) = .ok x rest :=
  decVarint_enc 24 j x hj hx rest

/-- offsets: for every range `r`, `k = ⌊log2 (r+1)⌋` and every `off ≤ r`, the reader's "one more
bit" test agrees with the writer's and the value is recovered -/
theorem offset_roundtrip (r k off : Nat) (hk1 : 2^k ≤ r + 1) (hk2 : r + 1 < 2^(k+1)) (ho : off ≤ r)
    (rest : Bits) : decOffset r k (encOffset r k off ++ rest) = .ok off rest :=
  decOffset_enc r k off hk1 hk2 ho rest

/-- prefix codes: any prefix-free table -/
theorem code_roundtrip (codes : List Bits) (hpf : PrefixFree codes) (i : Nat) (hi : i < codes.length)
    (rest : Bits) : matchCode codes (codes[i] ++ rest) = .ok i rest :=
  matchCode_code codes hpf i hi rest

/-- the chunk body: decoding `|numbers|` units from `encBlocks bs ++ rest` returns exactly the
numbers of the blocks, the idle state and `rest` — for every well-formed table and every legal
grouping into blocks (runs of any length `< 2^24`, any jumpstart `≤ 24`) -/
theorem body_roundtrip (t : Table) (ht : t.WF) (bs : List Block) (hb : ∀ b ∈ bs, b.WF t) (rest : Bits) :
    iterUnits (unit t) (blocksNums t bs).length none (encBlocks t bs ++ rest)
      = .ok (blocksNums t bs, none) rest :=
  iter_blocks t ht bs hb rest

/-- the integer `k` the model (and, after the `fix:` of `Prefix::k_info`, the library) uses
satisfies the hypothesis of `offset_roundtrip` for every range -/
theorem k_spec (r : Nat) : 2 ^ Nat.log2 (r + 1) ≤ r + 1 ∧ r + 1 < 2 ^ (Nat.log2 (r + 1) + 1) := by
  constructor
  · exact Nat.log2_self_le (by omega)
  · exact Nat.lt_log2_self

/-- non-vacuity: a two-prefix table with a run-length prefix, a run block and a single block -/
def exTable : Table :=
  { codes := [[false], [true]],
    infos := [{ lower := 5, gcd := 1, r := 0, k := 0, jump := some 2 },
              { lower := 10, gcd := 3, r := 6, k := 2, jump := none }] }

example : iterUnits (unit exTable) 4 none (encBlocks exTable [.run 0 0 [0, 0], .one 1 5] ++ [true])
    = .ok ([5, 5, 5, 25], none) [true] := by decide

end C01
end Qco
