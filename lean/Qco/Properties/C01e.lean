/-
C01, end to end — whatever prefix table the training stage answers, compressing and decompressing
returns the input. Property theorems only (the proofs about the grouping are in
`Qco/Lemmas/Greedy.lean`).

The compressor model takes the numbers of a chunk and *any* answer of the training stage (a prefix
table and the common-GCD field); it records the delta moments, groups the coded numbers greedily
into blocks (`greedyBlocks`) and writes the chunk. What is asked of the answer is what the driver
evaluates on every observed chunk: congruence of every member to its range's lower bound modulo the
recorded divisor (`congruentB`, a conjunct of `C10.WFc`), and that the chunk is a chunk of the
format (`AChunk.WF`: code lengths, counts, divisors fit their fields, complete prefix-free code …).
Then for every Huffman lookup `L` with `Op.WeakLazyOf L` the operational decompressor returns exactly
the input: the same patterns, in the same order, chunk by chunk.
-/
import Qco.Lemmas.Greedy
import Qco.Properties.C01
import Qco.Properties.C03
import Qco.Properties.C09
import Qco.Properties.C10
import Qco.Properties.C18
namespace Qco
namespace C01
open Op

/-! ### the chunk the compressor model emits -/

/-- metadata written for `vals` given the training answer `(ps, common)`; `bodyBytes` is filled in
by the writer (`AChunk.fixedMeta`) -/
def trainedMeta (fl : Flags) (d : DType) (vals : List Nat) (ps : List Prefix) (common : Option Nat) :
    ChunkMeta :=
  { n := vals.length, bodyBytes := 0, moments := sMoments d.signed fl.order (vals.map d.toS),
    commonGcd := common, prefixes := ps }

/-- the chunk the compressor model emits for `vals` given the training answer `(ps, common)`;
`none` iff some coded number lies in no range of `ps` -/
def trainedChunk (fl : Flags) (d : DType) (vals : List Nat) (ps : List Prefix) (common : Option Nat) :
    Option AChunk :=
  (greedyBlocks ps (codedUs d fl vals).length (codedUs d fl vals)).map fun bs =>
    { cm := trainedMeta fl d vals ps common, blocks := bs }

/-- chunk by chunk: a partition of the input and one training answer per chunk -/
def trainedChunks (fl : Flags) (d : DType) :
    List (List Nat) → List (List Prefix × Option Nat) → Option (List AChunk)
  | [], [] => some []
  | vals :: vs, (ps, common) :: ts =>
    match trainedChunk fl d vals ps common, trainedChunks fl d vs ts with
    | some c, some cs => some (c :: cs)
    | _, _ => none
  | _, _ => none

theorem trainedChunk_some {fl : Flags} {d : DType} {vals : List Nat} {ps : List Prefix}
    {common : Option Nat} {c : AChunk} (h : trainedChunk fl d vals ps common = some c) :
    ∃ bs, greedyBlocks ps (codedUs d fl vals).length (codedUs d fl vals) = some bs ∧
      c = { cm := trainedMeta fl d vals ps common, blocks := bs } := by
  obtain ⟨bs, hbs, rfl⟩ := Option.map_eq_some_iff.mp h
  exact ⟨bs, hbs, rfl⟩

/-- the emitted chunk exists when every coded number lies in some range -/
theorem trainedChunk_exists (fl : Flags) (d : DType) (vals : List Nat) (ps : List Prefix)
    (common : Option Nat) (hcov : coverB ps (codedUs d fl vals) = true) :
    ∃ c, trainedChunk fl d vals ps common = some c := by
  obtain ⟨bs, hbs⟩ := greedyBlocks_some ps (codedUs d fl vals) hcov
  exact ⟨_, by rw [trainedChunk, hbs]; rfl⟩

theorem trainedChunk_n {fl : Flags} {d : DType} {vals : List Nat} {ps : List Prefix}
    {common : Option Nat} {c : AChunk} (h : trainedChunk fl d vals ps common = some c) :
    c.cm.n = vals.length := by
  obtain ⟨bs, _, rfl⟩ := trainedChunk_some h
  rfl

/-- the body of the emitted chunk holds exactly the coded numbers -/
theorem trained_chunk_us {fl : Flags} {d : DType} {vals : List Nat} {ps : List Prefix}
    {common : Option Nat} {c : AChunk} (h : trainedChunk fl d vals ps common = some c)
    (hcong : congruentB ps (codedUs d fl vals) = true) : c.toD.us = codedUs d fl vals := by
  obtain ⟨bs, hbs, rfl⟩ := trainedChunk_some h
  exact greedyBlocks_nums ps _ _ bs hcong hbs

/-- the blocks of the emitted chunk are legal blocks of its table -/
theorem trained_chunk_blocks_wf {fl : Flags} {d : DType} {vals : List Nat} {ps : List Prefix}
    {common : Option Nat} {c : AChunk} (h : trainedChunk fl d vals ps common = some c)
    (hlen : vals.length < 2 ^ 24) : ∀ b ∈ c.blocks, Block.WF (tableOf c.cm.prefixes) b := by
  obtain ⟨bs, hbs, rfl⟩ := trainedChunk_some h
  refine greedyBlocks_wf ps _ _ bs ?_ hbs
  have : (codedUs d fl vals).length ≤ vals.length := by
    unfold codedUs
    split
    · simp
    · rw [List.length_map, C18.sDiffN_length, List.length_map]; omega
  omega

/-- **a chunk decodes to the values it was made from**: order 0 by `from_unsigned ∘ to_unsigned`,
order `≥ 1` by delta reconstruction from the recorded moments -/
theorem trained_chunk_vals (fl : Flags) (d : DType) (vals : List Nat) (ps : List Prefix)
    (common : Option Nat) (c : AChunk) (h : trainedChunk fl d vals ps common = some c)
    (hcong : congruentB ps (codedUs d fl vals) = true)
    (hv : ∀ x ∈ vals, C12.valid d x) (hW : 1 ≤ d.uBits) :
    chunkVals d fl c.toD = vals := by
  have hus := trained_chunk_us h hcong
  obtain ⟨bs, hbs, rfl⟩ := trainedChunk_some h
  by_cases h0 : fl.order = 0
  · simp only [chunkVals, h0, if_true, hus, codedUs, List.map_map]
    conv => rhs; rw [← List.map_id vals]
    apply List.map_congr_left
    intro x hx
    exact C12.fromU_toU d hW x (hv x hx)
  · exact C18.chunkVals_delta d hW fl (by omega) vals hv _ rfl rfl hus

/-! ### files -/

theorem trainedChunks_cons {fl : Flags} {d : DType} {vals : List Nat} {vs : List (List Nat)}
    {t : List Prefix × Option Nat} {ts : List (List Prefix × Option Nat)} {cs : List AChunk}
    (h : trainedChunks fl d (vals :: vs) (t :: ts) = some cs) :
    ∃ c cs', trainedChunk fl d vals t.1 t.2 = some c ∧ trainedChunks fl d vs ts = some cs' ∧
      cs = c :: cs' := by
  obtain ⟨ps, common⟩ := t
  simp only [trainedChunks] at h
  split at h
  · rename_i c cs' h1 h2
    exact ⟨c, cs', h1, h2, (Option.some.inj h).symm⟩
  · cases h

/-- chunk by chunk, the emitted chunks decode to the chunks of the input -/
theorem trainedChunks_vals (fl : Flags) (d : DType) (hW : 1 ≤ d.uBits) (chunksVals : List (List Nat))
    (tables : List (List Prefix × Option Nat)) (cs : List AChunk)
    (hcs : trainedChunks fl d chunksVals tables = some cs)
    (hcong : ∀ vt ∈ chunksVals.zip tables, congruentB vt.2.1 (codedUs d fl vt.1) = true)
    (hv : ∀ vals ∈ chunksVals, ∀ x ∈ vals, C12.valid d x) :
    cs.map (fun c => chunkVals d fl c.toD) = chunksVals := by
  induction chunksVals generalizing tables cs with
  | nil =>
    cases tables with
    | nil => simp only [trainedChunks, Option.some.injEq] at hcs; subst hcs; rfl
    | cons t ts => simp [trainedChunks] at hcs
  | cons vals vs ih =>
    cases tables with
    | nil => simp [trainedChunks] at hcs
    | cons t ts =>
      obtain ⟨c, cs', h1, h2, rfl⟩ := trainedChunks_cons hcs
      have hc1 := hcong (vals, t) (by simp)
      have hcong' : ∀ vt ∈ vs.zip ts, congruentB vt.2.1 (codedUs d fl vt.1) = true :=
        fun vt hvt => hcong vt (by simp [hvt])
      have hv' : ∀ vals' ∈ vs, ∀ x ∈ vals', C12.valid d x :=
        fun vals' h => hv vals' (List.mem_cons_of_mem _ h)
      rw [List.map_cons, ih ts cs' h2 hcong' hv',
        trained_chunk_vals fl d vals t.1 t.2 c h1 hc1 (hv vals List.mem_cons_self) hW]

/-- the sizes the emitted chunks record are the sizes of the chunks of the input -/
theorem trainedChunks_n (fl : Flags) (d : DType) (chunksVals : List (List Nat))
    (tables : List (List Prefix × Option Nat)) (cs : List AChunk)
    (hcs : trainedChunks fl d chunksVals tables = some cs) :
    cs.map (fun c => c.cm.n) = chunksVals.map List.length := by
  induction chunksVals generalizing tables cs with
  | nil =>
    cases tables with
    | nil => simp only [trainedChunks, Option.some.injEq] at hcs; subst hcs; rfl
    | cons t ts => simp [trainedChunks] at hcs
  | cons vals vs ih =>
    cases tables with
    | nil => simp [trainedChunks] at hcs
    | cons t ts =>
      obtain ⟨c, cs', h1, h2, rfl⟩ := trainedChunks_cons hcs
      rw [List.map_cons, List.map_cons, ih ts cs' h2, trainedChunk_n h1]

/-- the emitted chunks exist when there is one answer per chunk and every coded number lies in
some range of its chunk's answer -/
theorem trainedChunks_exists (fl : Flags) (d : DType) (chunksVals : List (List Nat))
    (tables : List (List Prefix × Option Nat)) (hlen : tables.length = chunksVals.length)
    (hcov : ∀ vt ∈ chunksVals.zip tables, coverB vt.2.1 (codedUs d fl vt.1) = true) :
    ∃ cs, trainedChunks fl d chunksVals tables = some cs := by
  induction chunksVals generalizing tables with
  | nil =>
    cases tables with
    | nil => exact ⟨[], rfl⟩
    | cons t ts => simp at hlen
  | cons vals vs ih =>
    cases tables with
    | nil => simp at hlen
    | cons t ts =>
      obtain ⟨ps, common⟩ := t
      obtain ⟨c, hc⟩ := trainedChunk_exists fl d vals ps common (hcov (vals, ps, common) (by simp))
      obtain ⟨cs, hcs⟩ := ih ts (by simpa using hlen) (fun vt hvt => hcov vt (by simp [hvt]))
      exact ⟨c :: cs, by simp only [trainedChunks, hc, hcs]⟩

theorem fileVals_trained (fl : Flags) (d : DType) (cs : List AChunk) :
    fileVals d (AFile.toD { flags := fl, chunks := cs }) = cs.map (fun c => chunkVals d fl c.toD) := by
  simp [fileVals, AFile.toD, List.map_map, Function.comp_def]

/-- **C01 at model level, one-shot reader.** For any partition of the input into chunks and any
training answers (one per chunk) whose emitted chunks exist, satisfy congruence and are chunks of
the format: `simple_decompress` on the written file returns the input — the same patterns in the
same order — for every `LazyOf` matcher. -/
theorem compress_roundtrip (L : Op.Matcher) (hL : Op.WeakLazyOf L) (gb : Nat → Nat) (d : DType) (fl : Flags)
    (chunksVals : List (List Nat)) (tables : List (List Prefix × Option Nat)) (cs : List AChunk)
    (hcs : trainedChunks fl d chunksVals tables = some cs)
    (hcong : ∀ vt ∈ chunksVals.zip tables, congruentB vt.2.1 (codedUs d fl vt.1) = true)
    (hwf : ∀ c ∈ cs, c.WF gb d fl)
    (hd : d.Ok) (hp : (prefDType d fl).Ok) (hs : d.signed.Ok) (ho : fl.order ≤ 7)
    (hv : ∀ vals ∈ chunksVals, ∀ x ∈ vals, C12.valid d x) :
    (Op.simpleDecompress L gb d
        (Op.write Op.St.init (encodeFile gb d { flags := fl, chunks := cs }))).1
      = .ok chunksVals.flatten := by
  have hF : AFile.WF gb d { flags := fl, chunks := cs } := ⟨hd, hp, hs, ho, hwf⟩
  rw [C03.reader_total_on_format L hL gb d _ hF, fileVals_trained,
    trainedChunks_vals fl d hd.bits_pos chunksVals tables cs hcs hcong hv]

/-- … also when anything at all follows the termination byte -/
theorem compress_roundtrip_trailing (L : Op.Matcher) (hL : Op.WeakLazyOf L) (gb : Nat → Nat) (d : DType)
    (fl : Flags) (chunksVals : List (List Nat)) (tables : List (List Prefix × Option Nat))
    (cs : List AChunk) (hcs : trainedChunks fl d chunksVals tables = some cs)
    (hcong : ∀ vt ∈ chunksVals.zip tables, congruentB vt.2.1 (codedUs d fl vt.1) = true)
    (hwf : ∀ c ∈ cs, c.WF gb d fl)
    (hd : d.Ok) (hp : (prefDType d fl).Ok) (hs : d.signed.Ok) (ho : fl.order ≤ 7)
    (hv : ∀ vals ∈ chunksVals, ∀ x ∈ vals, C12.valid d x) (rest : Bits) :
    (Op.simpleDecompress L gb d
        (Op.write Op.St.init (encodeFile gb d { flags := fl, chunks := cs } ++ rest))).1
      = .ok chunksVals.flatten := by
  have hF : AFile.WF gb d { flags := fl, chunks := cs } := ⟨hd, hp, hs, ho, hwf⟩
  rw [C03.reader_total_trailing L hL gb d _ hF rest, fileVals_trained,
    trainedChunks_vals fl d hd.bits_pos chunksVals tables cs hcs hcong hv]

/-- **C01 at model level, chunk API.** `header()` returns the flags; then alternating
`chunk_metadata()` / `chunk_body()` return, chunk by chunk, the metadata as written and exactly the
chunk's input numbers; then `chunk_metadata()` returns `None` and all input is consumed. -/
theorem compress_roundtrip_chunk_api (L : Op.Matcher) (hL : Op.WeakLazyOf L) (gb : Nat → Nat) (d : DType)
    (fl : Flags) (chunksVals : List (List Nat)) (tables : List (List Prefix × Option Nat))
    (cs : List AChunk) (hcs : trainedChunks fl d chunksVals tables = some cs)
    (hcong : ∀ vt ∈ chunksVals.zip tables, congruentB vt.2.1 (codedUs d fl vt.1) = true)
    (hwf : ∀ c ∈ cs, c.WF gb d fl)
    (hd : d.Ok) (hp : (prefDType d fl).Ok) (hs : d.signed.Ok) (ho : fl.order ≤ 7)
    (hv : ∀ vals ∈ chunksVals, ∀ x ∈ vals, C12.valid d x) :
    ∃ σ1, Op.header d (Op.write Op.St.init (encodeFile gb d { flags := fl, chunks := cs }))
        = (.ok fl, σ1) ∧
      ∃ σ2, C03.apiChunks L gb d (cs.length + 1) σ1
          = (.ok ((cs.map AChunk.fixedMeta).zip chunksVals), σ2) ∧ σ2.rest = [] := by
  have hF : AFile.WF gb d { flags := fl, chunks := cs } := ⟨hd, hp, hs, ho, hwf⟩
  obtain ⟨σ1, h1, σ2, h2, h3⟩ := C03.chunk_api_total L hL gb d _ hF
  refine ⟨σ1, h1, σ2, ?_, h3⟩
  rw [h2]
  have hvals := trainedChunks_vals fl d hd.bits_pos chunksVals tables cs hcs hcong hv
  have : (cs.map fun c => (c.fixedMeta, chunkVals d fl c.toD))
      = (cs.map AChunk.fixedMeta).zip (cs.map fun c => chunkVals d fl c.toD) := by
    rw [List.zip_map']
  show (Out.ok (cs.map fun c => (c.fixedMeta, chunkVals d fl c.toD)), σ2) = _
  rw [this, hvals]

/-! ### the same, through the compressor model's call protocol -/

/-- the calls `header; chunk …; chunk; footer` for the emitted chunks -/
def history (cs : List AChunk) : List COp :=
  .header :: (cs.map (fun c => COp.chunk c.cm.n c) ++ [.footer])

theorem stripDrains_history (cs : List AChunk) : C09.stripDrains (history cs) = history cs := by
  unfold C09.stripDrains
  rw [List.filter_eq_self]
  intro o ho
  simp only [history, List.mem_cons, List.mem_append, List.mem_map, List.not_mem_nil, or_false] at ho
  rcases ho with rfl | ⟨c, _, rfl⟩ | rfl <;> rfl

theorem stripDrains_history_drain (cs : List AChunk) :
    C09.stripDrains (history cs ++ [.drain]) = history cs := by
  have h := stripDrains_history cs
  unfold C09.stripDrains at h ⊢
  rw [List.filter_append, h]
  simp [C09.isDrain]

theorem cRun_chunks (gb : Nat → Nat) (d : DType) (cfg : CConfig) (hlev : cfg.level ≤ 12)
    (cs : List AChunk) (hn : ∀ c ∈ cs, c.cm.n ≠ 0 ∧ c.cm.n < 2 ^ 24)
    (tail : List COp) (σ : CSt) (out : Bits) (acc : List AChunk)
    (hh : σ.hasHeader = true) (hf : σ.hasFooter = false) :
    ∃ σ', σ'.hasHeader = true ∧ σ'.hasFooter = false ∧
      cRun gb d cfg (cs.map (fun c => COp.chunk c.cm.n c) ++ tail) σ out acc
        = cRun gb d cfg tail σ' out (acc ++ cs) := by
  induction cs generalizing σ acc with
  | nil => exact ⟨σ, hh, hf, by simp⟩
  | cons c cs ih =>
    obtain ⟨hn0, hnlt⟩ := hn c List.mem_cons_self
    have hlev' : ¬ (cfg.level > maxLevel) := by simp only [maxLevel]; omega
    have hmax : ¬ (c.cm.n > maxEntries) := by simp only [maxEntries]; omega
    have hstep : cChunk gb d cfg σ c.cm.n c
        = (.ok c.fixedMeta, { σ with pending := σ.pending ++ encChunk gb d cfg.flags c }) := by
      simp only [cChunk, hh, hf, hn0, hlev', hmax, Bool.not_true, Bool.false_eq_true, if_false]
    obtain ⟨σ', h1, h2, h3⟩ := ih (fun c' h => hn c' (List.mem_cons_of_mem _ h))
      { σ with pending := σ.pending ++ encChunk gb d cfg.flags c } (acc ++ [c]) hh hf
    refine ⟨σ', h1, h2, ?_⟩
    simp only [List.map_cons, List.cons_append, cRun, hstep]
    rw [h3, List.append_assoc]
    rfl

/-- the protocol accepts the history: the accepted chunks are the emitted chunks and the footer
has been written -/
theorem history_accepted (gb : Nat → Nat) (d : DType) (cfg : CConfig) (ho : cfg.order ≤ 7)
    (hlev : cfg.level ≤ 12) (cs : List AChunk) (hn : ∀ c ∈ cs, c.cm.n ≠ 0 ∧ c.cm.n < 2 ^ 24) :
    C09.accepted gb d cfg (history cs) = cs ∧ (C09.finalSt gb d cfg (history cs)).hasFooter = true := by
  have ho' : ¬ (cfg.order > Frozen.maxDeltaOrder) := by simp only [Frozen.maxDeltaOrder]; omega
  have hhd : (cHeader d cfg CSt.init).2
      = { hasHeader := true, hasFooter := false, pending := [] ++ encHeader d cfg.flags } := by
    simp only [cHeader, CSt.init, ho', Bool.false_eq_true, if_false]
  obtain ⟨σ', h1, h2, h3⟩ := cRun_chunks gb d cfg hlev cs hn [.footer] (cHeader d cfg CSt.init).2 [] []
    (by rw [hhd]) (by rw [hhd])
  have hft : (cFooter σ').2.hasFooter = true := by
    simp only [cFooter, h1, h2, Bool.not_true, Bool.false_eq_true, if_false]
  have hrun : cRun gb d cfg (history cs) CSt.init [] []
      = ([], cs, (cFooter σ').2) := by
    simp only [history, cRun]
    rw [h3]
    simp only [cRun, List.nil_append]
  exact ⟨by simp only [C09.accepted, hrun], by simp only [C09.finalSt, hrun, hft]⟩

/-- **C01 through the compressor model.** Any history of calls that is `header`, one `chunk` call
per chunk of the input (with any training answer satisfying the hypotheses), `footer`, with drains
anywhere: everything the history drained followed by what is still pending decodes to the input. -/
theorem compress_model_roundtrip (L : Op.Matcher) (hL : Op.WeakLazyOf L) (gb : Nat → Nat) (d : DType)
    (cfg : CConfig) (chunksVals : List (List Nat)) (tables : List (List Prefix × Option Nat))
    (cs : List AChunk) (hcs : trainedChunks cfg.flags d chunksVals tables = some cs)
    (hcong : ∀ vt ∈ chunksVals.zip tables, congruentB vt.2.1 (codedUs d cfg.flags vt.1) = true)
    (hwf : ∀ c ∈ cs, c.WF gb d cfg.flags)
    (hd : d.Ok) (hp : (prefDType d cfg.flags).Ok) (hs : d.signed.Ok) (ho : cfg.order ≤ 7)
    (hlev : cfg.level ≤ 12) (hne : ∀ vals ∈ chunksVals, vals ≠ [])
    (hv : ∀ vals ∈ chunksVals, ∀ x ∈ vals, C12.valid d x)
    (ops : List COp) (hops : C09.stripDrains ops = history cs) :
    C09.total gb d cfg ops = encodeFile gb d { flags := cfg.flags, chunks := cs } ∧
    (Op.simpleDecompress L gb d (Op.write Op.St.init (C09.total gb d cfg ops))).1
      = .ok chunksVals.flatten := by
  have hn : ∀ c ∈ cs, c.cm.n ≠ 0 ∧ c.cm.n < 2 ^ 24 := by
    intro c hc
    refine ⟨?_, (hwf c hc).n_lt⟩
    have hmap := trainedChunks_n cfg.flags d chunksVals tables cs hcs
    have hmem : c.cm.n ∈ cs.map (fun c => c.cm.n) := List.mem_map.mpr ⟨c, hc, rfl⟩
    rw [hmap] at hmem
    obtain ⟨vals, hvals, hlen⟩ := List.mem_map.mp hmem
    have := hne vals hvals
    rw [← hlen]
    intro h0
    exact this (List.eq_nil_of_length_eq_zero h0)
  obtain ⟨hacc, hfoot⟩ := history_accepted gb d cfg ho hlev cs hn
  have hstrip : C09.stripDrains ops = C09.stripDrains (history cs) := by
    rw [hops, stripDrains_history]
  obtain ⟨htot, hacc', _, hfoot'⟩ := C09.drain_invariance gb d cfg ops (history cs) hstrip
  have hfile : C09.total gb d cfg ops = encodeFile gb d { flags := cfg.flags, chunks := cs } := by
    rw [C09.complete_output_is_file gb d cfg ops (by rw [hfoot', hfoot]), hacc', hacc]
  refine ⟨hfile, ?_⟩
  rw [hfile]
  exact compress_roundtrip L hL gb d cfg.flags chunksVals tables cs hcs hcong hwf hd hp hs ho hv

/-- a history that ends with a drain has nothing pending: what was drained is the total output -/
theorem drained_eq_total_of_last_drain (gb : Nat → Nat) (d : DType) (cfg : CConfig) (ops : List COp) :
    C09.drained gb d cfg (ops ++ [.drain]) = C09.total gb d cfg (ops ++ [.drain]) := by
  have key : ∀ (ops : List COp) (σ : CSt) (out : Bits) (acc : List AChunk),
      (cRun gb d cfg (ops ++ [.drain]) σ out acc).2.2.pending = [] := by
    intro ops
    induction ops with
    | nil => intro σ out acc; simp [cRun, cDrain]
    | cons op ops ih =>
      intro σ out acc
      cases op with
      | header => exact ih _ _ _
      | chunk n t =>
        simp only [List.cons_append, cRun]
        split <;> exact ih _ _ _
      | footer => exact ih _ _ _
      | drain => exact ih _ _ _
  rw [C09.total_eq]
  unfold C09.finalSt
  rw [key ops CSt.init [] [], List.append_nil]

/-- the history `header; chunk …; chunk; footer; drain`: the drained bits decode to the input -/
theorem compress_model_roundtrip_drained (L : Op.Matcher) (hL : Op.WeakLazyOf L) (gb : Nat → Nat)
    (d : DType) (cfg : CConfig) (chunksVals : List (List Nat))
    (tables : List (List Prefix × Option Nat)) (cs : List AChunk)
    (hcs : trainedChunks cfg.flags d chunksVals tables = some cs)
    (hcong : ∀ vt ∈ chunksVals.zip tables, congruentB vt.2.1 (codedUs d cfg.flags vt.1) = true)
    (hwf : ∀ c ∈ cs, c.WF gb d cfg.flags)
    (hd : d.Ok) (hp : (prefDType d cfg.flags).Ok) (hs : d.signed.Ok) (ho : cfg.order ≤ 7)
    (hlev : cfg.level ≤ 12) (hne : ∀ vals ∈ chunksVals, vals ≠ [])
    (hv : ∀ vals ∈ chunksVals, ∀ x ∈ vals, C12.valid d x) :
    (Op.simpleDecompress L gb d
        (Op.write Op.St.init (C09.drained gb d cfg (history cs ++ [.drain])))).1
      = .ok chunksVals.flatten := by
  rw [drained_eq_total_of_last_drain]
  have h := compress_model_roundtrip L hL gb d cfg chunksVals tables cs hcs hcong hwf hd hp hs ho hlev
    hne hv (history cs ++ [.drain]) (stripDrains_history_drain cs)
  exact h.2

/-! ### the hypotheses from the evaluated metadata predicate -/

/-- `coverB`, `congruentB`, `boundsOk` are conjuncts of the C10 predicate -/
theorem wfc_conjuncts (level : Nat) (ps : List Prefix) (us : List Nat) (h : C10.WFc level ps us = true) :
    coverB ps us = true ∧ congruentB ps us = true ∧ boundsOk ps = true := by
  simp only [C10.WFc, Bool.and_eq_true] at h
  obtain ⟨⟨⟨⟨⟨⟨hb, _⟩, hc⟩, _⟩, hg⟩, _⟩, _⟩ := h
  exact ⟨hc, hg, hb⟩

/-- from the C10 predicate: the grouping succeeds, covers the numbers exactly, and its blocks are
legal blocks of the table -/
theorem wfc_gives_blocks_wf (level : Nat) (ps : List Prefix) (us : List Nat)
    (h : C10.WFc level ps us = true) :
    ∃ bs, greedyBlocks ps us.length us = some bs ∧ blocksNums (tableOf ps) bs = us ∧
      (us.length < 2 ^ 24 → ∀ b ∈ bs, Block.WF (tableOf ps) b) := by
  obtain ⟨hc, hg, _⟩ := wfc_conjuncts level ps us h
  exact greedyBlocks_exact ps us hc hg

/-- a chunk whose training answer satisfies the C10 predicate exists and decodes to its values -/
theorem wfc_chunk_vals (level : Nat) (fl : Flags) (d : DType) (vals : List Nat) (ps : List Prefix)
    (common : Option Nat) (h : C10.WFc level ps (codedUs d fl vals) = true)
    (hv : ∀ x ∈ vals, C12.valid d x) (hW : 1 ≤ d.uBits) :
    ∃ c, trainedChunk fl d vals ps common = some c ∧ chunkVals d fl c.toD = vals := by
  obtain ⟨hc, hg, _⟩ := wfc_conjuncts level ps _ h
  obtain ⟨c, hcs⟩ := trainedChunk_exists fl d vals ps common hc
  exact ⟨c, hcs, trained_chunk_vals fl d vals ps common c hcs hg hv hW⟩

/-! ### a concrete instance of the hypotheses -/

section Example

/-- `u32` -/
def exU32 : DType := C09.exU32
/-- GCD field width used in the example (the theorems hold for every `gb`) -/
def exGb : Nat → Nat := fun _ => 3
def exCfg : CConfig := { level := 8, order := 0, gcds := true }
/-- the training answer: one range `5..9` with divisor 4 and the empty code -/
def exPs : List Prefix := [{ count := 3, lower := 5, upper := 9, code := [], jump := none, gcd := 4 }]
def exVals : List Nat := [5, 9, 5]
/-- what the compressor model emits: three single blocks with offsets `0, 1, 0` -/
def exChunk : AChunk :=
  { cm := trainedMeta exCfg.flags exU32 exVals exPs none, blocks := [.one 0 0, .one 0 1, .one 0 0] }

theorem exTrained : trainedChunks exCfg.flags exU32 [exVals] [(exPs, none)] = some [exChunk] := rfl

theorem exU32_ok : exU32.Ok := by
  refine ⟨by decide, by decide, ?_, ?_⟩
  · intro u hu
    simp only [DType.uValid, exU32, C09.exU32, DType.M] at hu
    simp only [DType.uToRaw, DType.fromU, exU32, C09.exU32]
    exact hu
  · intro u hu
    simp only [DType.uToRaw, DType.fromU, DType.rawToU, DType.toU, exU32, C09.exU32]

theorem exU32_signed_ok : exU32.signed.Ok := by
  refine ⟨by decide, by decide, ?_, ?_⟩
  · intro u hu
    simp only [DType.uValid, exU32, C09.exU32, DType.signed, DType.M] at hu
    simp only [DType.uToRaw, DType.fromU, exU32, C09.exU32, DType.signed, DType.M, DType.H]
    omega
  · intro u hu
    simp only [DType.uValid, exU32, C09.exU32, DType.signed, DType.M] at hu
    simp only [DType.uToRaw, DType.fromU, DType.rawToU, DType.toU, exU32, C09.exU32, DType.signed,
      DType.M, DType.H]
    simp only [Option.some.injEq]
    omega

theorem exChunk_WF : exChunk.WF exGb exU32 exCfg.flags := by
  refine ⟨by decide, by decide, ?_, by decide, trivial, ?_, Or.inr (by decide), ?_, ?_, by decide,
    by decide⟩
  · intro m hm; simp [exChunk, trainedMeta, sMoments, exCfg, CConfig.flags] at hm
  · intro p hp
    have : p = { count := 3, lower := 5, upper := 9, code := [], jump := none, gcd := 4 } := by
      simpa [exChunk, trainedMeta, exPs] using hp
    subst this
    refine ⟨by decide, by decide, by decide, by decide, by decide, ?_, by decide, ?_⟩
    · intro j hj; cases hj
    · simp [exCfg, CConfig.flags, exChunk, trainedMeta, exGb]
  · intro h; simp [exChunk, trainedMeta, exPs] at h
  · intro b hb
    have : b = Block.one 0 0 ∨ b = Block.one 0 1 ∨ b = Block.one 0 0 := by simpa [exChunk] using hb
    rcases this with rfl | rfl | rfl <;> (unfold Block.WF; decide)

theorem exVals_valid : ∀ x ∈ exVals, C12.valid exU32 x := by
  intro x hx
  have hx9 : x ≤ 9 := by simp [exVals] at hx; omega
  show if exU32.kind = .bool then x ≤ 1 else x < exU32.M
  rw [if_neg (by decide)]
  show x < 2 ^ 32
  omega

/-- the hypotheses of `compress_model_roundtrip` are satisfiable: `[5, 9, 5]` through
`header; chunk; drain; footer; drain` and back -/
example : (Op.simpleDecompress Op.eagerMatcher exGb exU32
      (Op.write Op.St.init
        (C09.total exGb exU32 exCfg [.header, .chunk 3 exChunk, .drain, .footer, .drain]))).1
    = .ok [5, 9, 5] :=
  (compress_model_roundtrip Op.eagerMatcher Op.eager_weakLazyOf exGb exU32 exCfg [exVals] [(exPs, none)]
    [exChunk] exTrained (by decide)
    (by intro c hc; rw [List.mem_singleton.mp hc]; exact exChunk_WF)
    exU32_ok exU32_ok exU32_signed_ok (by decide) (by decide) (by decide)
    (by intro vals hvals; rw [List.mem_singleton.mp hvals]; exact exVals_valid)
    [.header, .chunk 3 exChunk, .drain, .footer, .drain] rfl).2

/-- the same by evaluation: the body is 3 bits (offsets `0`, `1`, `0` in a range with `r = 1`) -/
example : (greedyBlocks exPs 3 (codedUs exU32 exCfg.flags exVals)).map
    (fun bs => (blocksNums (tableOf exPs) bs, bodyBits exPs bs)) = some ([5, 9, 5], 3) := by decide

end Example

end C01
end Qco
