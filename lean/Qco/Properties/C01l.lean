/-
C01l — Layer E: END TO END for the LITERAL (statement-level) models.  The literal `Compressor` (`Qco/Op/CompLit.lean`)
whose `chunk` calls the literal `train_prefixes` (`Qco/Train/Lit.lean`), followed by the literal `Decompressor`
(`Qco/Op/DecompLit.lean`), returns the input.  Property theorems only; the proofs are in `Qco/Lemmas/E2E/*.lean`.

Layers composed: TL (C10l: `train_prefixes` is an instance of the training model, hence `WFc`), CL (C09l: the literal
compressor emits `encodeFile` of the chunks determined by the numbers and the training answers, for every answer
satisfying `TableOk`), the specification's round trip for the real Huffman lookup (C03s), DL (C08d: the literal
decompressor answers what the abstract one answers).

  1 `tableOk_of_trainLit`        the table `train_prefixes` returns satisfies the C10 predicate and — if its codes are
                                 shorter than 32 bits — everything CL asks of a training answer (`TableOk`);
  2 `literal_compress_is_file`   `header; chunk c₁; …; chunk cₖ; footer` (drains anywhere) on the literal compressor
                                 with the literal training emits exactly `encodeFile` of a well-formed file whose
                                 values are `c₁ … cₖ`;
  3 `literal_roundtrip_literal`  those bytes, written in any pieces to the literal decompressor: `simple_decompress`
                                 returns `c₁ ++ … ++ cₖ`;  `literal_roundtrip_chunk_api`: the `header` /
                                 `chunk_metadata` / `chunk_body` route returns them chunk by chunk;
  4 a concrete two-chunk `i32` instance: every hypothesis holds, the bytes are `encodeFile …`, the literal
    decompressor returns the input.

A FINDING made on the way (not a bug of the code, a limit of the abstract syntax): when the writer emits a
common-GCD field `g`, a single-valued range — for which `train_prefixes` records the divisor 1 — is READ BACK with the
divisor `g`.  The prefix table in the `ChunkMetadata` that `Compressor::chunk` returns and the one
`Decompressor::chunk_metadata` returns for the same bytes therefore differ (in the `gcd` of single-valued ranges);
the numbers do not (`0 / gcd = 0`).  `readerFile` is the file as the reader sees it (`normTable`);
`encodeFile_writer_eq_reader` shows that it has the same bits as the file the writer thinks it wrote.

HYPOTHESES that remain, all explicit:
  * `d ∈ Frozen.dtypes`, `cfg.order ≤ 7`, `cfg.level ≤ 12`; chunks non-empty with at most `2^24 − 1` numbers
    (otherwise the calls answer `InvalidArgument`, C09l);
  * `NumOk d v` for every number: a bit pattern of the type whose unsigned image is in the documented range — for
    every type but the two 96-bit timestamps this is just "a `W`-bit pattern (`0/1` for bool)" (`numOk_of_valid`);
  * `CodesFit`: the codes of every trained table are shorter than 32 bits — NOT guaranteed by training (the depth of
    a Huffman tree over up to `2^12` ranges with weights summing to at most `2^24 − 1` can exceed 31: Fibonacci-like
    weights; the 5-bit length field then truncates silently);
  * the oracles of layer TL: `FloatsAgree F`, `RunWeightOK F` on the size of each chunk's coded numbers (the three
    float computations of compressor.rs read as integers), `CostFinite O` (candidate costs compare below
    `f64::MAX`), `PickOK pick` (`BinaryHeap::pop` answers an element of least weight);
  * the parameters `gb` (`gcd_bits_required`) and `est` (the `f64` estimate in `k_info`): `gb x ≤ U::BITS`,
    `GbTop gb d` (`U::MAX ≤ 2^gb(U::MAX)`: the common-GCD field holds every value), `BodyWriter.EstOk`;
  * physical sizes: the file is shorter than `2^64 − 32` bits (compressor: `bit_idx + 24` must not overflow) and the
    decompressor is fed fewer than about `2^57` words (`128 · Σ(len/8 + 1) + 2^36 < 2^64`).
-/
import Qco.Lemmas.E2E.RoundTrip
import Qco.Lemmas.E2E.Api
import Qco.Properties.C10l
import Qco.Properties.C09l
namespace Qco
namespace C01l
open Train TrainLit
open Qco.WB Qco.Op Qco.CompLit Qco.E2E

/-! ### 1. the trained table is a table the compressor can write -/

/-- **`tableOk_of_trainLit`.**  On the coded unsigneds of a chunk of valid numbers (`codedUs`: the unsigned images,
or those of the `order`-th differences), not empty, of at most `MAX_ENTRIES` numbers, with `level ≤ 12`, for EVERY
cost oracle with finite candidate costs and EVERY heap tie-breaking, floats agreeing with their integer readings:
the literal `train_prefixes` answers `Ok(ps)`; `ps` satisfies the C10 predicate `WFc` and the further facts
`Trained` (bounds are numbers of the chunk, jumpstarts `≤ 24`, counts add up, single-valued ranges have divisor 1,
the post-pass made the divisors fit); and PROVIDED every code is shorter than 32 bits (`CodesFit`: the one thing
training cannot guarantee — Huffman depth is not bounded by 31 and the format has a 5-bit length field), `ps`
satisfies `CompLit.TableOk`: `lower ≤ upper < 2^BITS`, `gcd ≥ 1`, `count ≥ 1`, code `≤ 64` bits, jumpstart `≤ 24`
for every prefix; ranges pairwise disjoint; `16·Σ count < 2^64`; every coded number in some range. -/
theorem tableOk_of_trainLit {C : Type} (F : Floats) (O : CostOracle C) (pick : Nat → List HItem → Nat)
    (gb : Nat → Nat) {d : DType} (hd : d ∈ Frozen.dtypes) (fl : Flags) (level : Nat) (nums : List Nat)
    (hne : codedUs d fl nums ≠ []) (hl : level ≤ 12) (hn : nums.length ≤ 2 ^ 24 - 1)
    (hv : ∀ v ∈ nums, C12.valid d v) (hF : FloatsAgree F (codedUs d fl nums).length)
    (hW : RunWeightOK F (codedUs d fl nums).length) (hfin : CostFinite O) (hp : PickOK pick) :
    ∃ ps, trainLit F O pick d.uBits gb (codedUs d fl nums) level fl.gcds nums.length = .ok (some ps) ∧
      C10.WFc level ps (codedUs d fl nums) = true ∧ Trained gb level fl.gcds (codedUs d fl nums) ps ∧
      (CodesFit ps → TableOk d fl nums ps) := by
  have hU := codedUs_lt (rows_ok d hd) fl nums hv
  obtain ⟨ps, h1, hT⟩ := trainLit_trained F O pick d.uBits gb (codedUs d fl nums) level fl.gcds nums.length hne hl
    (by unfold MAX_ENTRIES; exact hn) (codedUs_length_le d fl nums) hU hF hW hfin hp
  exact ⟨ps, h1, hT.wfc, hT, fun hc => tableOk_of_trained hT hU hn hc⟩

/-- a chunk without coded numbers (at most `order` numbers under delta encoding): `train_prefixes` answers the empty
table, which satisfies `TableOk` -/
theorem tableOk_of_trainLit_empty {C : Type} (F : Floats) (O : CostOracle C) (pick : Nat → List HItem → Nat)
    (gb : Nat → Nat) (d : DType) (fl : Flags) (level : Nat) (nums : List Nat) (he : codedUs d fl nums = []) :
    trainLit F O pick d.uBits gb (codedUs d fl nums) level fl.gcds nums.length = .ok (some []) ∧
      TableOk d fl nums [] := by
  refine ⟨by rw [he]; rfl, tableOk_nil he⟩

/-- for every type but the two 96-bit timestamps, `NumOk` is "a valid bit pattern" -/
theorem numOk_of_valid {d : DType} (hd : d ∈ Frozen.dtypes) (hk : d.kind ≠ .ts96) {v : Nat}
    (hv : C12.valid d v) : NumOk d v :=
  E2E.numOk_of_valid (rows_ok d hd).2.1 hk hv

/-- the hypotheses on `gb` hold of `⌈log2 x⌉` capped at `U::BITS` (what `gcd_bits_required` computes) -/
theorem gb_clog2_ok (d : DType) :
    (∀ x, min (clog2 x) d.uBits ≤ d.uBits) ∧ GbTop (fun x => min (clog2 x) d.uBits) d := by
  refine ⟨fun _ => Nat.min_le_right _ _, ?_⟩
  show d.M - 1 ≤ 2 ^ min (clog2 (d.M - 1)) d.uBits
  have hM : d.M = 2 ^ d.uBits := rfl
  rcases Nat.le_total (clog2 (d.M - 1)) d.uBits with h | h
  · rw [Nat.min_eq_left h]
    unfold clog2
    split
    · have := Nat.two_pow_pos (0 : Nat); omega
    · have : d.M - 1 - 1 < 2 ^ (Nat.log2 (d.M - 1 - 1) + 1) := Nat.lt_log2_self
      omega
  · rw [Nat.min_eq_right h]; omega

/-! ### 2. literal compressor with literal training -/

variable {C : Type} {F : Floats} {O : CostOracle C} {pick : Nat → List HItem → Nat} {gb est : Nat → Nat}
  {d : DType} {cfg : CConfig}

/-- **`literal_compress_is_file`.**  Let `ops` be a history of calls on `Compressor::from_config(cfg)` — whose
`chunk` calls the literal `train_prefixes` (`trainOracle`) — that is `header; chunk c₁; …; chunk cₖ; footer` once its
`drain_bytes` / `byte_size` calls are removed (`stripT ops = canonical chunks`).  Then the literal run does not
panic and answers `(out, l')` where the bytes drained followed by the bits still pending are EXACTLY
`encodeFile gb d (readerFile …)`; the drained bytes are `u8`s; `readerFile …` is a file of the format
(`AFile.WF`) and its values are `c₁, …, cₖ`.  For every data type, every config with `order ≤ 7`, `level ≤ 12`,
every chunk satisfying `ChunkOk`. -/
theorem literal_compress_is_file (hd : d ∈ Frozen.dtypes) (hgb : ∀ x, gb x ≤ d.uBits) (hG : GbTop gb d)
    (hest : BodyWriter.EstOk d.uBits est) (ho : cfg.order ≤ 7) (hlev : cfg.level ≤ 12) (hfin : CostFinite O)
    (hp : PickOK pick) (chunks : List (List Nat)) (hch : ∀ c ∈ chunks, ChunkOk F O pick gb d cfg c)
    (ops : List TOp) (hshape : stripT ops = canonical chunks)
    (hsz : (encodeFile gb d (readerFile F O pick gb d cfg chunks)).length + 32 < USIZE) :
    ∃ out l', tRun gb est d (trainOracle F O pick gb d) ops (Comp.fromConfig cfg) [] = .ok (out, l') ∧
      bytesBits out ++ l'.writer.bits = encodeFile gb d (readerFile F O pick gb d cfg chunks) ∧
      (∀ b ∈ out, b < 256) ∧
      (readerFile F O pick gb d cfg chunks).WF gb d ∧
      fileVals d (readerFile F O pick gb d cfg chunks).toD = chunks := by
  obtain ⟨out, l', e, h1, _, _, h2, h3, h4⟩ := compress_is_file (F := F) (O := O) (pick := pick) (rows_ok d hd) hgb
    hG hest ho hlev hfin hp chunks hch ops hshape hsz
  exact ⟨out, l', e, h1, h2, h3, h4⟩

/-- the file the reader sees has, bit for bit, the encoding of the file made of the tables exactly as trained
(`writerChunk`: what `Compressor::chunk` returns as metadata) -/
theorem reader_file_same_bits (chunks : List (List Nat)) :
    encodeFile gb d { flags := cfg.flags, chunks := chunks.map (writerChunk F O pick gb d cfg) }
      = encodeFile gb d (readerFile F O pick gb d cfg chunks) :=
  encodeFile_writer_eq_reader chunks

/-! ### 3. … followed by the literal decompressor -/

/-- **`literal_roundtrip_literal`.**  The same history followed by a last `drain_bytes`: the literal run answers
`(bytes, l')` with nothing left pending, `bytes` is the whole file, and — written to a fresh literal
`Decompressor` in ANY pieces (`pieces.flatten = bytes`: one `write` call per piece) — `simple_decompress` returns
`Ok(c₁ ++ … ++ cₖ)`: the input, bit pattern by bit pattern, in order. -/
theorem literal_roundtrip_literal (hd : d ∈ Frozen.dtypes) (hgb : ∀ x, gb x ≤ d.uBits) (hG : GbTop gb d)
    (hest : BodyWriter.EstOk d.uBits est) (ho : cfg.order ≤ 7) (hlev : cfg.level ≤ 12) (hfin : CostFinite O)
    (hp : PickOK pick) (chunks : List (List Nat)) (hch : ∀ c ∈ chunks, ChunkOk F O pick gb d cfg c)
    (ops : List TOp) (hshape : stripT ops = canonical chunks)
    (hsz : (encodeFile gb d (readerFile F O pick gb d cfg chunks)).length + 32 < USIZE) :
    ∃ bytes l', tRun gb est d (trainOracle F O pick gb d) (ops ++ [.drain]) (Comp.fromConfig cfg) []
        = .ok (bytes, l') ∧
      l'.writer.bits = [] ∧ (∀ b ∈ bytes, b < 256) ∧
      bytesBits bytes = encodeFile gb d (readerFile F O pick gb d cfg chunks) ∧
      ∀ pieces : List (List Nat), pieces.flatten = bytes →
        128 * (pieces.map fun p => p.length / 8 + 1).sum + 2 ^ 36 < USIZE →
        (DecompLit.simpleDecompress gb d (pieces.foldl DecompLit.write DecompLit.LitSt.init)).1
          = .ok chunks.flatten :=
  roundtrip hd hgb hG hest ho hlev hfin hp chunks hch ops hshape hsz

/-- **`literal_roundtrip_chunk_api`.**  The same bytes through the chunk API of the literal decompressor:
`header()` returns the flags of the configuration; then `chunk_metadata()` / `chunk_body()`, chunk by chunk, return
the metadata of the file the reader sees (`RMeta.ofSpec`: the literal `ChunkMetadata` does not keep the common-GCD
field) and exactly the chunk's numbers; then `chunk_metadata()` returns `None` (`litApiChunks` is that loop). -/
theorem literal_roundtrip_chunk_api (hd : d ∈ Frozen.dtypes) (hgb : ∀ x, gb x ≤ d.uBits) (hG : GbTop gb d)
    (hest : BodyWriter.EstOk d.uBits est) (ho : cfg.order ≤ 7) (hlev : cfg.level ≤ 12) (hfin : CostFinite O)
    (hp : PickOK pick) (chunks : List (List Nat)) (hch : ∀ c ∈ chunks, ChunkOk F O pick gb d cfg c)
    (ops : List TOp) (hshape : stripT ops = canonical chunks)
    (hsz : (encodeFile gb d (readerFile F O pick gb d cfg chunks)).length + 32 < USIZE) :
    ∃ bytes l', tRun gb est d (trainOracle F O pick gb d) (ops ++ [.drain]) (Comp.fromConfig cfg) []
        = .ok (bytes, l') ∧
      (128 * (bytes.length / 8 + 1) + 2 ^ 36 < USIZE →
        ∃ σ1, DecompLit.header d (DecompLit.write DecompLit.LitSt.init bytes) = (.ok cfg.flags, σ1) ∧
          (litApiChunks gb d (chunks.length + 1) σ1).1
            = .ok (((readerFile F O pick gb d cfg chunks).chunks.map
                fun c => MetaIO.RMeta.ofSpec cfg.flags c.fixedMeta).zip chunks)) := by
  obtain ⟨bytes, l', e, _, hby, hfile, hwf, hvals⟩ := compress_drained (F := F) (O := O) (pick := pick)
    (rows_ok d hd) hgb hG hest ho hlev hfin hp chunks hch ops hshape hsz
  refine ⟨bytes, l', e, fun hsize => ?_⟩
  obtain ⟨σ1, h1, h2⟩ := literal_api_file hd hgb _ hwf bytes hby hfile hsize
  refine ⟨σ1, h1, ?_⟩
  have hlen : (readerFile F O pick gb d cfg chunks).chunks.length = chunks.length := by
    simp [readerFile]
  rw [hlen] at h2
  rw [h2]
  congr 1
  have hv2 : (chunks.map (readerChunk F O pick gb d cfg)).map (fun c => chunkVals d cfg.flags c.toD) = chunks := by
    rw [← C01.fileVals_trained]; exact hvals
  have hz := List.zip_map' (f := fun c : AChunk => MetaIO.RMeta.ofSpec cfg.flags c.fixedMeta)
    (g := fun c => chunkVals d cfg.flags c.toD) (l := chunks.map (readerChunk F O pick gb d cfg))
  rw [hv2] at hz
  exact hz.symm

/-! ### 4. a concrete instance (non-vacuity)

`i32`, level 8, no delta encoding, GCDs on; two chunks.  The cost oracle `rangeCost` is an integer caricature of
`prefix_bit_cost` (8 bits per range + `weight · ⌊log2 (range / gcd + 1)⌋`) under which `optimize_prefixes` keeps two
ranges in each chunk.  In the second chunk the writer emits the common divisor 10 and the single-valued range
`[1, 1]`, trained with divisor 1, is read back with divisor 10 (`exTable2` / `normTable`). -/

section Examples

def exI32 : DType := C02m.i32
/-- `gcd_bits_required` in integers, capped at `U::BITS` -/
def exGb : Nat → Nat := fun x => min (clog2 x) 32
def exCfg : CConfig := { level := 8, order := 0, gcds := true }
def exNums1 : List Nat := [1, 2, 3, 1000, 1001, 1002]
def exNums2 : List Nat := [1, 1, 1, 1, 1, 11, 21, 31]

def rangeCost : CostOracle (Option Nat) :=
  { C10l.natCost 0 with
    pbc := fun lower upper weight _ gcd => some (8 + weight * Nat.log2 ((upper - lower) / gcd + 1)) }

theorem rangeCost_finite : CostFinite rangeCost := fun _ _ _ _ _ _ => rfl

/-- what `train_prefixes` answers for the first chunk: `[1, 3]` and `[1000, 1002]` (as unsigneds), one code bit each -/
def exTable1 : List Prefix :=
  [{ count := 3, lower := 2147483649, upper := 2147483651, code := [false], jump := none, gcd := 1 },
   { count := 3, lower := 2147484648, upper := 2147484650, code := [true], jump := none, gcd := 1 }]
/-- … and for the second: the single value `1` (divisor 1) and `[11, 31]` with divisor 10 -/
def exTable2 : List Prefix :=
  [{ count := 5, lower := 2147483649, upper := 2147483649, code := [true], jump := none, gcd := 1 },
   { count := 3, lower := 2147483659, upper := 2147483679, code := [false], jump := none, gcd := 10 }]

theorem exUs1 : codedUs exI32 exCfg.flags exNums1
    = [2147483649, 2147483650, 2147483651, 2147484648, 2147484649, 2147484650] := by decide
theorem exUs2 : codedUs exI32 exCfg.flags exNums2
    = [2147483649, 2147483649, 2147483649, 2147483649, 2147483649, 2147483659, 2147483669, 2147483679] := by decide

/-- the literal `train_prefixes`, evaluated by the kernel (the numbers are ascending: the sort is skipped) -/
theorem exTrainLit1 : trainLit Floats.exact rangeCost pickFirstMin 32 exGb
    [2147483649, 2147483650, 2147483651, 2147484648, 2147484649, 2147484650] 8 true 6 = .ok (some exTable1) := by
  unfold trainLit
  rw [List.mergeSort_of_pairwise (by decide)]
  decide

theorem exTrainLit2 : trainLit Floats.exact rangeCost pickFirstMin 32 exGb
    [2147483649, 2147483649, 2147483649, 2147483649, 2147483649, 2147483659, 2147483669, 2147483679] 8 true 8
      = .ok (some exTable2) := by
  unfold trainLit
  rw [List.mergeSort_of_pairwise (by decide)]
  decide

theorem exTrained1 : trainedTable Floats.exact rangeCost pickFirstMin exGb exI32 exCfg exNums1 = exTable1 := by
  unfold trainedTable trainOracle
  rw [exUs1]
  show (match (match trainLit Floats.exact rangeCost pickFirstMin 32 exGb
      [2147483649, 2147483650, 2147483651, 2147484648, 2147484649, 2147484650] 8 true 6 with
    | .ok (some ps) => R.ok ps
    | .ok none => .err "InvalidArgument"
    | .panic => .panic) with
    | .ok ps => ps
    | _ => []) = exTable1
  rw [exTrainLit1]

theorem exTrained2 : trainedTable Floats.exact rangeCost pickFirstMin exGb exI32 exCfg exNums2 = exTable2 := by
  unfold trainedTable trainOracle
  rw [exUs2]
  show (match (match trainLit Floats.exact rangeCost pickFirstMin 32 exGb
      [2147483649, 2147483649, 2147483649, 2147483649, 2147483649, 2147483659, 2147483669, 2147483679] 8 true 8 with
    | .ok (some ps) => R.ok ps
    | .ok none => .err "InvalidArgument"
    | .panic => .panic) with
    | .ok ps => ps
    | _ => []) = exTable2
  rw [exTrainLit2]

/-- the reader sees the divisor 10 on the single-valued range of the second chunk; the first table is unchanged -/
theorem exNorm : normTable exCfg.flags exTable1 = exTable1 ∧
    normTable exCfg.flags exTable2 =
      [{ count := 5, lower := 2147483649, upper := 2147483649, code := [true], jump := none, gcd := 10 },
       { count := 3, lower := 2147483659, upper := 2147483679, code := [false], jump := none, gcd := 10 }] := by
  decide

/-- THE FINDING, concretely: the chunk made of the second table exactly as trained — the metadata
`Compressor::chunk` returns — is NOT a chunk of the abstract syntax (`AChunk.WF` asks every prefix to carry the
common divisor 10, the single-valued range carries 1), so the round-trip theorems of C01e / C09l, which assume
`AChunk.WF` of the writer's chunks, do not apply to it; the normalised chunk (`exFile` below) is, and has the same
bits (`reader_file_same_bits`) -/
theorem exWriterChunk_not_WF : ¬ (trainedOf exCfg.flags exI32 exNums2 exTable2).WF exGb exI32 exCfg.flags := by
  intro h
  obtain ⟨bs, _, _, heq⟩ := trainedOf_eq (d := exI32) (fl := exCfg.flags) (nums := exNums2) (ps := exTable2)
    (by decide)
  rw [heq] at h
  have hc : MetaIO.commonField exCfg.flags exTable2 = some 10 := by decide
  have hp := h.prefixes_ok
    { count := 5, lower := 2147483649, upper := 2147483649, code := [true], jump := none, gcd := 1 }
    (by simp [C01.trainedMeta, exTable2])
  have hg := hp.gcd_ok
  simp only [C01.trainedMeta, hc] at hg
  have hgc : exCfg.flags.gcds = true := rfl
  rw [if_pos hgc, if_pos hgc] at hg
  exact absurd hg (by decide)

/-- every hypothesis on the chunks holds, in particular `CodesFit` -/
theorem exChunkOk1 : ChunkOk Floats.exact rangeCost pickFirstMin exGb exI32 exCfg exNums1 :=
  ⟨by decide, by decide, by decide, (C10l.floatsExact_agree _).1, (C10l.floatsExact_agree _).2,
   by rw [exTrained1]; decide⟩

theorem exChunkOk2 : ChunkOk Floats.exact rangeCost pickFirstMin exGb exI32 exCfg exNums2 :=
  ⟨by decide, by decide, by decide, (C10l.floatsExact_agree _).1, (C10l.floatsExact_agree _).2,
   by rw [exTrained2]; decide⟩

/-- the file the reader sees -/
def exFile : AFile :=
  { flags := exCfg.flags,
    chunks := [trainedOf exCfg.flags exI32 exNums1 (normTable exCfg.flags exTable1),
               trainedOf exCfg.flags exI32 exNums2 (normTable exCfg.flags exTable2)] }

theorem exReader : readerFile Floats.exact rangeCost pickFirstMin exGb exI32 exCfg [exNums1, exNums2] = exFile := by
  show ({ flags := exCfg.flags,
          chunks := [readerChunk Floats.exact rangeCost pickFirstMin exGb exI32 exCfg exNums1,
                     readerChunk Floats.exact rangeCost pickFirstMin exGb exI32 exCfg exNums2] } : AFile) = exFile
  unfold readerChunk
  rw [exTrained1, exTrained2]
  rfl

/-- the 73 bytes of the file (what the run below drains) -/
def exBytes : List Nat :=
  [113, 99, 111, 33, 3, 140, 44, 0, 0, 6, 0, 0, 0, 2, 0, 4, 96, 0, 0, 0, 32, 0, 0, 0, 97, 12, 0, 0, 15, 160, 0, 0,
   15, 168, 48, 9, 157, 44, 0, 0, 8, 0, 0, 0, 2, 0, 5, 128, 0, 0, 4, 168, 0, 0, 0, 8, 0, 0, 0, 8, 99, 0, 0, 0, 11,
   0, 0, 0, 31, 8, 248, 72, 46]

set_option maxRecDepth 100000 in
/-- the bytes are `encodeFile` of the file the reader sees, by evaluation of the specification's encoder -/
theorem exBits : bytesBits exBytes = encodeFile exGb exI32 exFile := by decide +kernel

/-- a history with an intermediate drain -/
def exOps : List TOp := [.header, .chunk exNums1, .drain, .byteSize, .chunk exNums2, .footer]

theorem exGbOk : (∀ x, exGb x ≤ exI32.uBits) ∧ GbTop exGb exI32 := gb_clog2_ok exI32

set_option maxRecDepth 100000 in
theorem exSize : (encodeFile exGb exI32
    (readerFile Floats.exact rangeCost pickFirstMin exGb exI32 exCfg [exNums1, exNums2])).length + 32 < USIZE := by
  rw [exReader, ← exBits]
  decide +kernel

/-- **the end-to-end theorem instantiated, every hypothesis discharged** -/
theorem exRoundtrip :
    ∃ bytes l', tRun exGb BodyWriter.estExact exI32 (trainOracle Floats.exact rangeCost pickFirstMin exGb exI32)
        (exOps ++ [.drain]) (Comp.fromConfig exCfg) [] = .ok (bytes, l') ∧
      l'.writer.bits = [] ∧ (∀ b ∈ bytes, b < 256) ∧ bytesBits bytes = encodeFile exGb exI32 exFile ∧
      ∀ pieces : List (List Nat), pieces.flatten = bytes →
        128 * (pieces.map fun p => p.length / 8 + 1).sum + 2 ^ 36 < USIZE →
        (DecompLit.simpleDecompress exGb exI32 (pieces.foldl DecompLit.write DecompLit.LitSt.init)).1
          = .ok (exNums1 ++ exNums2) := by
  have h := literal_roundtrip_literal (F := Floats.exact) (O := rangeCost) (pick := pickFirstMin)
    (est := BodyWriter.estExact) (cfg := exCfg) (d := exI32) (by decide) exGbOk.1 exGbOk.2
    (BodyWriter.estExact_ok _) (by decide) (by decide) rangeCost_finite C10l.pickFirstMin_ok [exNums1, exNums2]
    (by
      intro c hc
      simp only [List.mem_cons, List.not_mem_nil, or_false] at hc
      rcases hc with rfl | rfl
      · exact exChunkOk1
      · exact exChunkOk2)
    exOps rfl exSize
  rw [exReader] at h
  simpa using h

/-- … and the bytes the run drains are `exBytes`: the literal compressor with the literal training drains exactly
these 73 bytes, and the literal decompressor, fed with them in any pieces, returns the 14 numbers -/
theorem exRoundtrip_bytes :
    (∃ l', tRun exGb BodyWriter.estExact exI32 (trainOracle Floats.exact rangeCost pickFirstMin exGb exI32)
        (exOps ++ [.drain]) (Comp.fromConfig exCfg) [] = .ok (exBytes, l') ∧ l'.writer.bits = []) ∧
    ∀ pieces : List (List Nat), pieces.flatten = exBytes →
      128 * (pieces.map fun p => p.length / 8 + 1).sum + 2 ^ 36 < USIZE →
      (DecompLit.simpleDecompress exGb exI32 (pieces.foldl DecompLit.write DecompLit.LitSt.init)).1
        = .ok (exNums1 ++ exNums2) := by
  obtain ⟨bytes, l', e, hw, hby, hb, hdec⟩ := exRoundtrip
  have : bytes = exBytes := bytesBits_inj bytes exBytes hby (by decide) (by rw [hb, exBits])
  subst this
  exact ⟨⟨l', e, hw⟩, hdec⟩

/-- in particular: all at once -/
theorem exDecode : (DecompLit.simpleDecompress exGb exI32 (DecompLit.write DecompLit.LitSt.init exBytes)).1
    = .ok (exNums1 ++ exNums2) :=
  exRoundtrip_bytes.2 [exBytes] (by simp) (by decide)

-- the run, evaluated: the bytes drained are `exBytes`, nothing is left pending
#guard (match tRun exGb BodyWriter.estExact exI32 (trainOracle Floats.exact rangeCost pickFirstMin exGb exI32)
    (exOps ++ [.drain]) (Comp.fromConfig exCfg) [] with
  | .ok (bytes, l') => bytes == exBytes && l'.writer.bits.isEmpty
  | _ => false)
-- the literal decompressor on these bytes, all at once and in three pieces
#guard (DecompLit.simpleDecompress exGb exI32 (DecompLit.write DecompLit.LitSt.init exBytes)).1
  == .ok (exNums1 ++ exNums2)
#guard (DecompLit.simpleDecompress exGb exI32
    ([exBytes.take 5, (exBytes.drop 5).take 40, exBytes.drop 45].foldl DecompLit.write DecompLit.LitSt.init)).1
  == .ok (exNums1 ++ exNums2)
-- the chunk API: the flags, then per chunk the metadata as the READER sees it (divisor 10 on `[1, 1]`) and the numbers
#guard (match DecompLit.header exI32 (DecompLit.write DecompLit.LitSt.init exBytes) with
  | (.ok fl, σ1) => fl == exCfg.flags &&
    (match (litApiChunks exGb exI32 3 σ1).1 with
     | .ok [(m1, xs1), (m2, xs2)] => xs1 == exNums1 && xs2 == exNums2 &&
         m1.prefixMetadata.prefixes == exTable1 && m2.prefixMetadata.prefixes == normTable exCfg.flags exTable2
     | _ => false)
  | _ => false)

end Examples

end C01l
end Qco
