/-
C02 — the writer conforms to the frozen .qco format. Property theorems only.

`decodeFile` (Qco/Spec/File.lean) is the independent decoder: written from the format description,
in another language, sharing no code with the library. The constants it uses are the *frozen* ones;
`generated_eq_frozen` re-checks on every run that the constants extracted from /repo's working
tree are still those.
-/
import Qco.Generated.Constants
import Qco.Spec.FlagsLemmas
namespace Qco
namespace C02
open Parser

/-- magic header, chunk byte, termination byte, and every field width of the format, as extracted
from /repo now, equal the frozen ones -/
theorem generated_eq_frozen : Generated.format = Frozen.format := by decide

/-- 5/4-bit code length fields and the order of the flag bits, as extracted from flags.rs -/
theorem generated_flag_layout :
    Generated.codeLenBits = [5, 4] ∧ Generated.flagWriteOrderOk = true ∧ Generated.flagParseOrderOk = true := by decide

/-- the data-type byte table as extracted equals the frozen one -/
theorem generated_dtypes_eq_frozen : Generated.dtypes = Frozen.dtypes := by decide

/-- header: magic bytes, the type byte and the flag byte are read back exactly, for every data type
and every flag combination with a legal delta order -/
theorem header_roundtrip (d : DType) (fl : Flags) (hb : d.headerByte < 256) (ho : fl.order ≤ 7) (rest : Bits) :
    decHeader d (encHeader d fl ++ rest) = .ok fl rest := by
  unfold decHeader encHeader
  have hm : bytesBits Frozen.magicHeader = natBits 32 0x71636f21 := by decide
  rw [hm]
  simp only [List.append_assoc, Parser.bind, Parser.readNat_natBits (by decide : 0x71636f21 < 2^32)]
  simp only [ne_eq, not_true_eq_false, if_false]
  simp only [Parser.bind, Parser.readNat_natBits (show d.headerByte < 2^8 by simpa using hb)]
  simp [decFlags_encFlags fl ho rest]

/-- the header is exactly 6 bytes -/
theorem header_size (d : DType) (fl : Flags) (ho : fl.order ≤ 7) : (encHeader d fl).length = 48 := by
  obtain ⟨u, o, m, g⟩ := fl
  obtain ⟨b, hb, he, _⟩ := encFlags_shape u ⟨o, by simp at ho; omega⟩ m g
  simp only at he
  unfold encHeader
  rw [he]
  simp [bytesBits, Frozen.magicHeader, hb]

end C02
end Qco
