/-
C02m — Layer M: the *literal* metadata reader and writer (`ChunkMetadata::{parse_from, write_to}`,
`parse_prefixes`/`write_prefixes`, `read_gcd`/`write_gcd`/`common_gcd_for_chunk_meta`,
`DeltaMoments::{parse_from, write_to}`, `T::{read_from, write_to}`, `Flags::{parse_from, try_from, write}`
over the word-level `BitReader`/`BitWriter`) against the specification of the format:

(a) the reader is the specification's parser — same metadata, same end position, same error kind, never a
    panic; (b) the writer appends the specification's encoding; (c) the same for the flags; (d) write, then
    parse.  Property theorems only; the model is `Qco/Op/MetaIO.lean`, the proofs `Qco/Lemmas/MetaIO*.lean`.

Hypotheses.  `w.WF`: a `BitWords` built by `extend_bytes` (whole bytes, zero padding); `RInv w r`: the
reader is inside the data; `w.total + 256 < 2^64`; `Std d`: `0 < PHYSICAL_BITS ≤ 128`, `U::BITS ≤ 128`,
`to_unsigned` yields a `U` (true of the 15 types and their signed companions, `dtypes_std`);
`gb x ≤ U::BITS`: a GCD field is not wider than `U` (true of `⌈log2 (x as f64)⌉`).
-/
import Qco.Lemmas.MetaIO
namespace Qco
namespace C02m
open Qco.WB Qco.MetaIO

/-! ### (a) `ChunkMetadata::parse_from` -/

/-- **(a)** `ChunkMetadata::parse_from` followed by `drain_empty_byte` (the body of `read_chunk_meta`
after the magic byte), from every byte-aligned position of every well-formed word buffer, is the
specification's `decChunkMeta` on the remaining bits: the same metadata and end position on success;
`InsufficientData` for `insufficient`; `Corruption` for `corrupt` (for a 96-bit timestamp type without
delta encoding possibly `InvalidArgument`: `Timestamp96::new` rejects an out-of-range bound with that
kind); never a panic.  The reader is left where the last successful read ended (`≥` the start, inside the
data) also on an error: restoring it is the caller's business (`Decompressor::with_reader`). -/
theorem parse_from_is_spec {w : Words} (hw : w.WF) (hsz : w.total + 256 < USIZE) {gb : Nat → Nat}
    {d : DType} (hd : Std d) (hds : Std d.signed) (hgb : ∀ x, gb x ≤ d.uBits) (fl : Flags)
    {r : Reader} (hr : RInv w r) (hal : r.bitIdx % 8 = 0) :
    RInv w (parseFromDrain gb d fl w r).2 ∧ r.bitIdx ≤ (parseFromDrain gb d fl w r).2.bitIdx ∧
    match decChunkMeta gb d fl (w.toBits.drop r.bitIdx) with
    | .ok m rest => (parseFromDrain gb d fl w r).1 = .ok (RMeta.ofSpec fl m)
        ∧ rest = w.toBits.drop (parseFromDrain gb d fl w r).2.bitIdx
    | .insufficient => (parseFromDrain gb d fl w r).1 = .err "InsufficientData"
    | .corrupt => (parseFromDrain gb d fl w r).1 = .err "Corruption"
        ∨ (d.kind = .ts96 ∧ fl.order = 0 ∧ (parseFromDrain gb d fl w r).1 = .err "InvalidArgument")
    | .compat => (parseFromDrain gb d fl w r).1 = .err "Compatibility" :=
  parseFrom_spec hw hsz hd hds hgb fl hr hal

/-- `parse_from` alone, from any position (aligned or not): the specification's parser before the
alignment check -/
theorem parse_from_raw_is_spec {w : Words} (hw : w.WF) (hsz : w.total + 256 < USIZE) {gb : Nat → Nat}
    {d : DType} (hd : Std d) (hds : Std d.signed) (hgb : ∀ x, gb x ≤ d.uBits) (fl : Flags)
    {r : Reader} (hr : RInv w r) :
    RInv w (parseFrom gb d fl w r).2 ∧ r.bitIdx ≤ (parseFrom gb d fl w r).2.bitIdx ∧
    match decChunkMetaRaw gb d fl (w.toBits.drop r.bitIdx) with
    | .ok m rest => (parseFrom gb d fl w r).1 = .ok (RMeta.ofSpec fl m)
        ∧ rest = w.toBits.drop (parseFrom gb d fl w r).2.bitIdx
    | .insufficient => (parseFrom gb d fl w r).1 = .err "InsufficientData"
    | .corrupt => (parseFrom gb d fl w r).1 = .err "Corruption"
        ∨ (d.kind = .ts96 ∧ fl.order = 0 ∧ (parseFrom gb d fl w r).1 = .err "InvalidArgument")
    | .compat => (parseFrom gb d fl w r).1 = .err "Compatibility" :=
  parseFrom_raw_spec hw hsz hd hds hgb fl hr

/-- the specification's `decChunkMeta` is that parser followed by the alignment check -/
theorem dec_chunk_meta_is_aligned_raw (gb : Nat → Nat) (d : DType) (fl : Flags) :
    decChunkMeta gb d fl = Parser.aligned (decChunkMetaRaw gb d fl) := rfl

/-- **errors never panic**: neither `parse_from` (any position) nor `parse_from` + `drain_empty_byte`
(aligned position) panics, whatever the bytes are -/
theorem parse_from_never_panics {w : Words} (hw : w.WF) (hsz : w.total + 256 < USIZE) {gb : Nat → Nat}
    {d : DType} (hd : Std d) (hds : Std d.signed) (hgb : ∀ x, gb x ≤ d.uBits) (fl : Flags)
    {r : Reader} (hr : RInv w r) :
    (parseFrom gb d fl w r).1 ≠ .panic ∧
      (r.bitIdx % 8 = 0 → (parseFromDrain gb d fl w r).1 ≠ .panic) :=
  parseFrom_no_panic hw hsz hd hds hgb fl hr

/-- the pieces: `read_gcd` is `decGcd` (its `gcd_minus_one + 1` cannot overflow), one loop iteration of
`parse_prefixes` is `decPrefix` (its `upper - lower` cannot underflow, its `read(code_len)` cannot panic) -/
theorem read_gcd_is_spec {w : Words} (hw : w.WF) (hsz : w.total + 256 < USIZE) (ts : Prop)
    {gb : Nat → Nat} {ub range : Nat} (hub : ub ≤ 128) (hgb : gb range ≤ ub) (hrange : range < 2 ^ ub) :
    Refines w ts (readGcd gb ub w range) (decGcd gb range) :=
  refines_readGcd hw hsz ts hub hgb hrange

theorem parse_prefix_is_spec {w : Words} (hw : w.WF) (hsz : w.total + 256 < USIZE) {gb : Nat → Nat}
    {d : DType} (hd : Std d) (hgb : ∀ x, gb x ≤ d.uBits) (fl : Flags) {n : Nat} (hn : n < 2 ^ 24)
    (common : Option Nat) :
    Refines w (d.kind = .ts96) (parsePrefix gb d fl w n common) (decPrefix gb d fl n common) :=
  refines_parsePrefix hw hsz hd hgb fl hn common

/-- `Refines` unfolded: what the relation says about one run -/
theorem refines_def {α : Type} {w : Words} {ts : Prop} {m : RM α} {p : Parser α} (h : Refines w ts m p)
    {r : Reader} (hr : RInv w r) :
    RInv w (m r).2 ∧ r.bitIdx ≤ (m r).2.bitIdx ∧
    match p (w.toBits.drop r.bitIdx) with
    | .ok a rest => (m r).1 = .ok a ∧ rest = w.toBits.drop (m r).2.bitIdx
    | .insufficient => (m r).1 = .err "InsufficientData"
    | .corrupt => ∃ k, (k = "Corruption" ∨ (ts ∧ k = "InvalidArgument")) ∧ (m r).1 = .err k
    | .compat => (m r).1 = .err "Compatibility" :=
  h r hr

/-- the hypotheses on the data type hold for the 15 types of the library and their signed companions -/
theorem dtypes_std {d : DType} (h : d ∈ Frozen.dtypes) : Std d ∧ Std d.signed := std_of_mem h

/-! ### (b) `ChunkMetadata::write_to` -/

/-- **(b)** `ChunkMetadata::write_to`, from a byte-aligned writer, appends exactly `encChunkMeta` of the
metadata (`RMeta.toSpec`: `n`, `compressed_body_size` — the value held by the struct, 0 when the compressor
calls it, patched later by `update_write_compressed_body_size` —, moments, prefixes, and the common-GCD
field chosen by `common_gcd_for_chunk_meta`) and ends byte-aligned.  Hypotheses: `n` is a `usize`; the
variant (`Simple`/`Delta`) agrees with `flags.delta_encoding_order` (the code branches on the variant);
every prefix has `lower ≤ upper` and `gcd ≥ 1` (otherwise: panics, see below); a GCD field is at most
`max U::BITS 64` wide.  **No field-width hypothesis**: the source never checks that a value fits its
field — `write_usize` cuts it to the low bits (`write_usize_truncates`). -/
theorem write_to_is_spec {gb : Nat → Nat} {d : DType} (hub : d.uBits ≤ 128) (hubs : d.signed.uBits ≤ 128)
    (hgb : ∀ x, gb x ≤ max d.uBits 64) (hgbs : ∀ x, gb x ≤ max d.signed.uBits 64)
    (fl : Flags) (m : RMeta) (hn : m.n < 2 ^ 64)
    (hvar : m.prefixMetadata.isDelta = decide (fl.order ≠ 0))
    (hps : ∀ p ∈ m.prefixMetadata.prefixes, PrefixNoPanic p)
    {wr : Writer} (h : WInv wr) (hal : wr.bits.length % 8 = 0) :
    ∃ wr', writeTo gb d fl m wr = .ok wr'
      ∧ wr'.bits = wr.bits ++ encChunkMeta gb d fl (m.toSpec fl)
      ∧ WInv wr' ∧ wr'.j % 8 = 0 :=
  writeTo_spec hub hubs hgb hgbs fl m hn hvar hps h hal

/-- `update_write_compressed_body_size` (called by the compressor once the body is written; not part of
`write_to`): the zero body-size field at `bit_idx + 24` becomes the low 32 bits of
`compressed_body_size`, everything else is unchanged -/
theorem update_body_size_is_patch {wr : Writer} (h : WInv wr) (m : RMeta) {A T : Bits} {bitIdx : Nat}
    (hA : A.length = bitIdx + Frozen.bitsNEntries)
    (hbits : wr.bits = A ++ natBits Frozen.bitsBodySize 0 ++ T) (hsz : bitIdx + 24 < USIZE) :
    ∃ wr', updateWriteCompressedBodySize m wr bitIdx = .ok wr' ∧ wr'.j = wr.j
      ∧ wr'.bits = A ++ natBits Frozen.bitsBodySize m.compressedBodySize ++ T ∧ WInv wr' :=
  update_spec h m hA hbits hsz

/-- `write_prefixes` appends `encPrefixes`, `write_gcd` appends `encGcd` -/
theorem write_prefixes_is_spec {gb : Nat → Nat} {d : DType} (hub : d.uBits ≤ 128)
    (hgb : ∀ x, gb x ≤ max d.uBits 64) (fl : Flags) {n : Nat} (hn : n < 2 ^ 64)
    {ps : List Prefix} (hps : ∀ p ∈ ps, PrefixNoPanic p) :
    Appends (writePrefixes gb d fl n ps) (encPrefixes gb d fl n (commonField fl ps) ps) :=
  appends_writePrefixes hub hgb fl hn hps

theorem write_gcd_is_spec {gb : Nat → Nat} {ub range g : Nat} (hg : 1 ≤ g) (hgb : gb range ≤ max ub 64)
    (hub : ub ≤ 128) : Appends (writeGcd gb ub range g) (encGcd gb range g) :=
  appends_writeGcd hg hgb hub

/-- **finding (silent truncation)**: `write_usize(x + k·2^n, n)` succeeds and writes the bits of `x` -/
theorem write_usize_truncates (x k : Nat) {n : Nat} (hn : n ≤ 64) :
    Appends (fun wr => wr.writeUsize (x + 2 ^ n * k) n) (natBits n x) :=
  writeUsize_truncates x k hn

/-- … so, e.g., a `compressed_body_size ≥ 2^32` is written as its low 32 bits -/
theorem body_size_truncated (gb : Nat → Nat) (d : DType) (fl : Flags) (m : ChunkMeta) (k : Nat) :
    encChunkMeta gb d fl { m with bodyBytes := m.bodyBytes + 2 ^ Frozen.bitsBodySize * k }
      = encChunkMeta gb d fl m :=
  encChunkMeta_truncates_body gb d fl m k

/-- **finding (panics of the writer)**: a `gcd` of 0 panics in `write_gcd` (`gcd - U::ONE`), bounds out
of order panic in `write_prefixes` when the prefix writes its own GCD (`upper - lower`) -/
theorem write_gcd_zero_panics (gb : Nat → Nat) (ub range : Nat) (wr : Writer) :
    writeGcd gb ub range 0 wr = .panic :=
  writeGcd_zero_panics gb ub range wr

theorem write_prefix_unordered_panics (gb : Nat → Nat) (d : DType) (fl : Flags) (n : Nat) (p : Prefix)
    (hlt : p.upper < p.lower) (hn : n < 2 ^ 64) {wr : Writer} (h : WInv wr) :
    writePrefix gb d fl n none p wr = .panic :=
  writePrefix_unordered_panics gb d fl n p hlt hn h

/-! ### (c) `Flags` -/

/-- **(c, reader)** `Flags::parse_from` (the continuation-byte loop and `Flags::try_from`), from every
byte-aligned position, is `decFlags`: same flags and end position; `InsufficientData` when cut;
`Compatibility` when a bit this version does not define is set — anywhere, in any continuation byte;
never `Corruption`, never a panic -/
theorem flags_parse_is_spec {w : Words} (hw : w.WF) (hsz : w.total + 256 < USIZE) {r : Reader}
    (hr : RInv w r) (hal : r.j % 8 = 0) :
    RInv w (flagsParseFrom w r).2 ∧ r.bitIdx ≤ (flagsParseFrom w r).2.bitIdx ∧
    match decFlags (w.toBits.drop r.bitIdx) with
    | .ok f rest => (flagsParseFrom w r).1 = .ok f ∧ rest = w.toBits.drop (flagsParseFrom w r).2.bitIdx
    | .insufficient => (flagsParseFrom w r).1 = .err "InsufficientData"
    | .corrupt => ∃ k, CorruptKind False k ∧ (flagsParseFrom w r).1 = .err k
    | .compat => (flagsParseFrom w r).1 = .err "Compatibility" := by
  obtain ⟨h1, h2, h3⟩ := flags_parse_spec hw hsz hr hal
  refine ⟨h1, h2, ?_⟩
  cases hp : decFlags (w.toBits.drop r.bitIdx) <;> rw [hp] at h3 <;> exact h3

/-- `Flags::try_from(bools)`: `Compatibility` iff a bit beyond the six known ones is set -/
theorem flags_try_from_is_spec (bools : List Bool) :
    flagsTryFrom bools = match flagsFields bools with
      | none => .err "Compatibility"
      | some f => .ok f :=
  flagsTryFrom_eq bools

theorem flags_unknown_bit_compat (bools : List Bool) (h : (bools.drop 6).any id = true) :
    flagsTryFrom bools = .err "Compatibility" := by
  rw [flagsTryFrom_eq]
  unfold flagsFields
  rw [if_pos h]

/-- a reader that is not byte-aligned is refused with `InvalidArgument`, nothing is read -/
theorem flags_parse_misaligned_refused (w : Words) {r : Reader} (hal : r.j % 8 ≠ 0) :
    flagsParseFrom w r = (.err "InvalidArgument", r) :=
  flags_parse_misaligned w hal

/-- **(c, writer)** `Flags::write`, from a byte-aligned writer, appends `encFlags f` — for every flags
value with order ≤ 7 *except the all-false one* -/
theorem flags_write_is_spec (f : Flags) (ho : f.order ≤ 7) (hne : trimFalse f.bits ≠ [])
    {wr : Writer} (h : WInv wr) (hal : wr.bits.length % 8 = 0) :
    ∃ wr', flagsWrite f wr = .ok wr' ∧ wr'.bits = wr.bits ++ encFlags f ∧ WInv wr' ∧ wr'.j % 8 = 0 :=
  flags_write_spec f ho hne h hal

/-- **finding**: for the all-false flags `Flags::write` writes *nothing* (the format needs a zero byte).
Unreachable through `Compressor` (`Flags::from(&config)` sets `use_5_bit_code_len`). -/
theorem flags_write_all_false_writes_nothing {wr : Writer} (h : WInv wr) (hal : wr.bits.length % 8 = 0) :
    ∃ wr', flagsWrite ⟨false, 0, false, false⟩ wr = .ok wr' ∧ wr'.bits = wr.bits
      ∧ encFlags ⟨false, 0, false, false⟩ = List.replicate 8 false :=
  flags_write_all_false h hal

theorem flags_write_order_refused (f : Flags) (h : f.order > 7) (wr : Writer) :
    flagsWrite f wr = .err "InvalidArgument" :=
  flags_write_order_gt f h wr

/-! ### (d) write, then parse -/

/-- **(d)** for a metadata whose fields fit their widths (`RMeta.Fits`: `n < 2^24`, body size `< 2^32`,
`< 2^15` prefixes, every prefix `Prefix.WF` — count, code length, jumpstart, GCD fit; with a common GCD
*every* prefix carries it —, moments valid), the bytes `write_to` produces are parsed back by
`parse_from` + `drain_empty_byte` to the same metadata, ending at the end of the data -/
theorem parse_write_roundtrip {gb : Nat → Nat} {d : DType} (hd : Std d) (hds : Std d.signed)
    (hgb : ∀ x, gb x ≤ d.uBits) (fl : Flags) (m : RMeta) (hfit : m.Fits gb d fl)
    (hsz : (encChunkMeta gb d fl (m.toSpec fl)).length + 256 < USIZE) :
    ∃ wr', writeTo gb d fl m {} = .ok wr' ∧
      ∃ r', parseFromDrain gb d fl (Words.extend {} wr'.drainBytes.1) {} = (.ok m, r')
        ∧ r'.bitIdx = (Words.extend {} wr'.drainBytes.1).total :=
  MetaIO.parse_write_roundtrip hd hds hgb fl m hfit hsz

/-! ### non-vacuity: concrete metadata -/

def gbx (r : Nat) : Nat := clog2 r
def flD : Flags := { use5 := true, order := 1, minCount := true, gcds := true }
def flS : Flags := { use5 := true, order := 0, minCount := true, gcds := true }
def i32 : DType := { name := "i32", headerByte := 3, physBits := 32, uBits := 32, kind := .int, pps := 0 }
def micros96 : DType :=
  { name := "micros96", headerByte := 9, physBits := 96, uBits := 128, kind := .ts96, pps := 1000000 }

/-- delta order 1 (one moment), two prefixes, a jumpstart, a common GCD of 10 -/
def mD : RMeta := { n := 10, compressedBodySize := 77, prefixMetadata := PrefixMeta.delta (
  [{ count := 6, lower := 100, upper := 200, code := [false], jump := some 3, gcd := 10 },
    { count := 4, lower := 300, upper := 300, code := [true], jump := none, gcd := 10 }]) [5] }

/-- no delta, two prefixes with their own GCDs (10 and 5) -/
def mS : RMeta := { n := 10, compressedBodySize := 77, prefixMetadata := PrefixMeta.simple (
  [{ count := 6, lower := 100, upper := 200, code := [false], jump := some 3, gcd := 10 },
    { count := 4, lower := 300, upper := 350, code := [true], jump := none, gcd := 5 }]) }

def bytesD : List Nat := [0, 0, 10, 0, 0, 0, 77, 0, 0, 0, 5, 0, 5, 128, 0, 0, 4, 180, 0, 0, 3, 36, 0, 0, 6,
  64, 81, 164, 0, 0, 9, 100, 0, 0, 9, 96, 96]
def bytesS : List Nat := [0, 0, 10, 0, 0, 0, 77, 0, 4, 104, 0, 0, 6, 72, 0, 0, 12, 128, 163, 137, 72, 0, 0,
  18, 200, 0, 0, 21, 224, 209, 0]

def wD : Words := Words.extend {} bytesD
def wS : Words := Words.extend {} bytesS

/-- the hypotheses of (a) are satisfiable: a concrete well-formed buffer, the start position, `i32` -/
example : wD.WF ∧ wD.total + 256 < USIZE ∧ RInv wD {} ∧ Reader.bitIdx {} % 8 = 0
    ∧ Std i32 ∧ Std i32.signed ∧ ∀ x, min (gbx x) 32 ≤ i32.uBits :=
  ⟨(words_of_pieces [bytesD] (by decide)).1, by decide, rinv_start _, rfl,
   (std_of_mem (d := i32) (by decide)).1, (std_of_mem (d := i32) (by decide)).2,
   fun _ => Nat.min_le_right _ _⟩

/-- (a) instantiated with every hypothesis discharged: on these concrete bytes neither `parse_from` nor
`parse_from` + `drain_empty_byte` panics, and the outcome is the specification's -/
example : (parseFrom (fun x => min (gbx x) 32) i32 flD wD {}).1 ≠ .panic ∧
    (parseFromDrain (fun x => min (gbx x) 32) i32 flD wD {}).1 ≠ .panic :=
  have h := parse_from_never_panics (w := wD) (words_of_pieces [bytesD] (by decide)).1 (by decide)
    (std_of_mem (d := i32) (by decide)).1 (std_of_mem (d := i32) (by decide)).2
    (gb := fun x => min (gbx x) 32) (fun _ => Nat.min_le_right _ _) flD (rinv_start _)
  ⟨h.1, h.2 rfl⟩

-- the writer: what `write_to` emits is the specification's encoding (checked by evaluation)
#guard (match writeTo gbx i32 flD mD {} with
    | .ok wr => BodyWriter.writerBits wr == encChunkMeta gbx i32 flD (mD.toSpec flD)
        && wr.drainBytes.1 == bytesD
    | _ => false)

#guard (match writeTo gbx i32 flS mS {} with
    | .ok wr => BodyWriter.writerBits wr == encChunkMeta gbx i32 flS (mS.toSpec flS)
        && wr.drainBytes.1 == bytesS
    | _ => false)

-- the reader gives the metadata back and stops at the end (37 bytes = 296 bits; 31 bytes = 248 bits)
#guard ((parseFromDrain gbx i32 flD wD {}).1 == .ok mD
    && (parseFromDrain gbx i32 flD wD {}).2.bitIdx == 296)

#guard ((parseFromDrain gbx i32 flS wS {}).1 == .ok mS
    && (parseFromDrain gbx i32 flS wS {}).2.bitIdx == 248)

-- … and agrees with the specification's parser on these bytes
#guard decChunkMeta gbx i32 flD wD.toBits == .ok (mD.toSpec flD) []

#guard runWrite i32 flD gbx mD == "ok " ++ bitsStr (encChunkMeta gbx i32 flD (mD.toSpec flD))
#guard runParse i32 flD gbx wD.ws wD.total 0
  == "ok n=10 body=77 delta[5] prefixes=[6:100:200:0:3:10;4:300:300:1:-:10] pos=296"
#guard runParse i32 flS gbx wS.ws wS.total 0
  == "ok n=10 body=77 simple prefixes=[6:100:200:0:3:10;4:300:350:1:-:5] pos=248"

-- a cut buffer: `InsufficientData`, and the reader is left advanced (not at the start position 0)
#guard runParse i32 flS gbx (Words.extend {} (bytesS.take 30)).ws 240 0 == "err InsufficientData pos=236"
-- a set padding bit: `Corruption` from `drain_empty_byte`
#guard runParse i32 flS gbx (Words.extend {} (bytesS.take 30 ++ [1])).ws 248 0 == "err Corruption pos=242"
-- `lower > upper` (written without GCDs, so that the writer does not subtract): `Corruption`
#guard (match writeTo gbx i32 { flS with gcds := false } { mS with prefixMetadata := PrefixMeta.simple (
      [{ count := 6, lower := 200, upper := 100, code := [false], jump := some 3, gcd := 1 }]) } {} with
  | .ok wr => runParse i32 { flS with gcds := false } gbx wr.ws wr.bitSize 0 == "err Corruption pos=139"
  | _ => false)

/-- a 96-bit timestamp bound just outside the range: the specification says `corrupt`, the code answers
`InvalidArgument` (the one place where the kinds differ) -/
def mT : RMeta := { n := 3, compressedBodySize := 1, prefixMetadata := PrefixMeta.simple (
  [{ count := 3, lower := micros96.H + micros96.tsHalf, upper := micros96.H + micros96.tsHalf,
      code := [], jump := none, gcd := 1 }]) }
#guard (match writeTo gbx micros96 flS mT {} with
  | .ok wr => runParse micros96 flS gbx wr.ws wr.bitSize 0 == "err InvalidArgument pos=171"
      && decChunkMeta gbx micros96 flS (BodyWriter.writerBits wr) == .corrupt
  | _ => false)

-- silent truncation: `n = 2^24 + 10` with fixed-width counts is written like `n = 10`; body size
-- `2^32 + 77` like 77
#guard runWrite i32 { flS with minCount := false } gbx { mS with n := 2 ^ 24 + 10 }
  == runWrite i32 { flS with minCount := false } gbx mS
#guard runWrite i32 flS gbx { mS with compressedBodySize := 2 ^ 32 + 77 } == runWrite i32 flS gbx mS
-- a single-valued range does not keep its own GCD through a common-GCD table: written with gcd 1, read
-- back with the common 10
#guard (match writeTo gbx i32 flD { mD with prefixMetadata := PrefixMeta.delta (
      [{ count := 6, lower := 100, upper := 200, code := [false], jump := some 3, gcd := 10 },
        { count := 4, lower := 300, upper := 300, code := [true], jump := none, gcd := 1 }]) [5] } {} with
  | .ok wr => wr.drainBytes.1 == bytesD
  | _ => false)
-- `common_gcd_for_chunk_meta`: two non-trivial ranges never share a common field, even with equal GCDs
#guard commonGcdForChunkMeta
  [{ count := 1, lower := 0, upper := 10, code := [], jump := none, gcd := 5 },
   { count := 1, lower := 20, upper := 30, code := [], jump := none, gcd := 5 }] == none
-- panics of the writer
#guard runWrite i32 flS gbx { mS with prefixMetadata := PrefixMeta.simple (
  [{ count := 6, lower := 100, upper := 200, code := [false], jump := none, gcd := 0 }]) } == "panic"

/-- flags -/
example : flagsWrite flD {} = .ok ((({} : Writer).write [true, false, false, true, true, true]).finishByte) := by
  decide
#guard runWriteFlags flD == "ok 10011100" && bitsStr (encFlags flD) == "10011100"
#guard runParseFlags [0x9C00000000000000] 8 0 == "ok use5=true order=1 mincount=true gcds=true pos=8"
-- all-false flags: nothing is written, the specification has one zero byte
#guard runWriteFlags ⟨false, 0, false, false⟩ == "ok " && bitsStr (encFlags ⟨false, 0, false, false⟩) == "00000000"
-- an unknown bit in the second (continuation) byte: `Compatibility`; a continuation bit with nothing
-- after it: `InsufficientData`; an empty continuation byte is fine
#guard runParseFlags [0x0180000000000000] 16 0 == "err Compatibility pos=16"
#guard runParseFlags [0xFF00000000000000] 8 0 == "err InsufficientData pos=8"
#guard runParseFlags [0x0100000000000000] 16 0 == "ok use5=false order=0 mincount=false gcds=false pos=16"

end C02m
end Qco
