/-
C02w — Layer W: the *literal* chunk-body writer (`CompressionTable::{from, from_sorted, search}`,
`compress_nums`, `compress_offset_bits_w_prefix` over the word-level `BitWriter`) emits exactly the spec
encoding `encBody` of the greedy grouping, for every legal table and every input; it fails with the
`invalid argument` error exactly on inputs with a number outside every range; it never panics.
Property theorems only; the model is `Qco/Op/BodyWriter.lean`, the proofs `Qco/Lemmas/BodyWriter*.lean`.

Hypotheses on the table (`PrefixOk ub p` for every prefix, `ub = U::BITS ≤ 128`): `lower ≤ upper < 2^ub`,
`gcd ≥ 1`, `count ≥ 1`, code of at most 64 bits, jumpstart `≤ 24`; ranges pairwise disjoint (`disjointB`);
at least one prefix; `16 · Σ counts < 2^64`.  The `f64` estimate of `k_info` is a parameter `est` that is
exact or one too high (`EstOk`).
-/
import Qco.Lemmas.BodyWriter
import Qco.Lemmas.BodyWriterFindings
namespace Qco
namespace C02w
open Qco.WB Qco.BodyWriter

/-! ### the compression table -/

/-- `k_info` answers the spec's `k = ⌊log2 (r+1)⌋` with `only_k_bits_upper = 2^k − 1` and
`only_k_bits_lower = r − (2^k − 1)`, for every estimate that is exact or one too high; no panic -/
theorem k_info_exact {ub : Nat} {est : Nat → Nat} (hest : EstOk ub est) (p : Prefix)
    (hb : p.lower ≤ p.upper) (hu : p.upper < 2^ub) (hg : 1 ≤ p.gcd) :
    kInfo ub est p = .ok (p.info.k, p.info.r - (2^p.info.k - 1), 2^p.info.k - 1) :=
  kInfo_eq hest p hb hu hg

/-- `bits_to_usize` is the value of the bit list (up to 64 bits; more would overflow the shift) -/
theorem bits_to_usize_exact (bits : Bits) (h : bits.length ≤ 64) : bitsToUsize bits = .ok (bitsNat bits) :=
  bitsToUsize_eq bits h

/-- **termination of `from_sorted`** (arithmetic core): with positive counts the loop cannot hand a whole
slice of `≥ 2` prefixes to one child.  `T` total count, `i` the iteration whose target is `T(i+1)/16`, `ci`
the sum of all counts but the last, `cl` the last count, `c0` the first; `ha`, `hb` say that the last prefix
was taken in iteration `i`, `hc` that the first was refused in iteration `i − 1`. -/
theorem from_sorted_no_whole_slice (T i c0 cl ci : Nat) (hi : i < 16) (hT : T = ci + cl) (h0 : c0 ≤ ci)
    (h1 : 1 ≤ c0) (h2 : 1 ≤ cl) (ha : ci < T * (i + 1) / 16) (hb : cl + ci < 2 * (T * (i + 1) / 16))
    (hc : T * i / 16 = 0 ∨ 2 * (T * i / 16) ≤ c0) : False :=
  no_whole_slice T i c0 cl ci hi hT h0 h1 h2 ha hb hc

/-- **`from_sorted` terminates and is correct on positive counts**: a recursion depth of `len` is never
exhausted, nothing panics (index, `2 * target - cumulative`, `usize` overflow), no prefix is dropped, and
`search` on the result is the linear lookup in the sorted slice -/
theorem from_sorted_total (ub fuel : Nat) (s : List Info) (hl : s.length ≤ fuel) (hne : s ≠ [])
    (hcnt : ∀ p ∈ s, 1 ≤ p.count) (hsorted : s.Pairwise fun a b => a.upper ≤ b.upper)
    (hsmall : 16 * csum s < USIZE) :
    ∃ t, CTable.fromSorted ub fuel s = .ok t ∧ ∀ u, t.search u = lookup s u :=
  fromSorted_spec ub fuel s hl hne ⟨hcnt, hsorted, hsmall⟩

/-- **finding**: with a zero count `from_sorted` need not terminate — counts `[0, 1]`: the single child is
the whole slice again, for every recursion depth -/
theorem from_sorted_diverges (ub : Nat) (a b : Info) (ha : a.count = 0) (hb : b.count = 1) (fuel : Nat) :
    CTable.fromSorted ub fuel [a, b] = .err "StackOverflow" :=
  fromSorted_diverges ub a b ha hb fuel

/-- **finding**: with a zero count `from_sorted` can drop a prefix — counts `[1, 0]`: the second prefix is
not in the table and `search` fails on its members -/
theorem from_sorted_drops (ub : Nat) (a b : Info) (ha : a.count = 1) (hb : b.count = 0) (fuel u : Nat)
    (hu : a.upper < u) :
    ∃ t, CTable.fromSorted ub (fuel + 1) [a, b] = .ok t ∧ t.search u = .err "InvalidArgument" :=
  fromSorted_drops_search ub a b ha hb fuel u hu

/-- **finding**: the table of an empty prefix list accepts every number (the default leaf) -/
theorem empty_table_accepts (ub : Nat) (est : Nat → Nat) (u : Nat) (hu : u < 2^ub) :
    ∃ t, CTable.ofPrefixes ub est [] = .ok t ∧ t.search u = .ok (Info.dflt ub) :=
  search_nil ub est u hu

/-- `sort_unstable_by_key(|p| p.upper)`: the uppers of a legal table are pairwise distinct, so every sorted
arrangement of the infos is the one the model computes -/
theorem sort_is_determined (ub : Nat) (ps : List Prefix) (hok : ∀ p ∈ ps, PrefixOk ub p)
    (hd : disjointB ps = true) (s : List Info) (hperm : s.Perm (ps.map infoOf))
    (hsorted : s.Pairwise fun a b => a.upper ≤ b.upper) :
    s = sortByUpper (ps.map infoOf) :=
  sort_unique ub ps hok hd s hperm hsorted

/-- **(a)** `CompressionTable::from(prefixes).search(u)` is `findPrefix ps u`: the info of prefix `i` iff
`findPrefix ps u = some i`, the `invalid argument` error iff `findPrefix ps u = none`, never a panic -/
theorem search_eq_findPrefix {ub : Nat} {est : Nat → Nat} (hest : EstOk ub est) (ps : List Prefix)
    (hne : ps ≠ []) (hok : ∀ p ∈ ps, PrefixOk ub p) (hd : disjointB ps = true)
    (hcs : 16 * (ps.map (·.count)).sum < USIZE) :
    ∃ t, CTable.ofPrefixes ub est ps = .ok t ∧ ∀ u,
      (∀ i, i < ps.length → (t.search u = .ok (infoOf ps[i]!) ↔ findPrefix ps u = some i)) ∧
      (t.search u = .err "InvalidArgument" ↔ findPrefix ps u = none) ∧
      t.search u ≠ .panic :=
  search_ok_iff hest ps hne hok hd hcs

/-- **(a)**, functional form -/
theorem search_eq_findPrefix' {ub : Nat} {est : Nat → Nat} (hest : EstOk ub est) (ps : List Prefix)
    (hne : ps ≠ []) (hok : ∀ p ∈ ps, PrefixOk ub p) (hd : disjointB ps = true)
    (hcs : 16 * (ps.map (·.count)).sum < USIZE) :
    ∃ t, CTable.ofPrefixes ub est ps = .ok t ∧ ∀ u, t.search u =
      match findPrefix ps u with
      | some i => .ok (infoOf (ps.getD i default))
      | none => .err "InvalidArgument" :=
  BodyWriter.search_eq_findPrefix hest ps hne hok hd hcs

/-! ### offsets -/

/-- **(b)** `compress_offset_bits_w_prefix` appends exactly `encOffset r k off` (`r`, `k` of the spec table,
`off = (u − lower) / gcd`), whichever `GcdOperator` the library selected -/
theorem compressOffsetBits_spec {ub : Nat} (hub : ub ≤ 128) (general : Bool) (p : Prefix) (hp : PrefixOk ub p)
    (hgen : general = false → p.gcd = 1 ∨ p.upper = p.lower) (u : Nat) (hc : p.contains u = true)
    {wr : Writer} (hw : WInv wr) :
    ∃ wr', compressOffsetBits ub general u (infoOf p) wr = .ok wr' ∧
      wr'.bits = wr.bits ++ encOffset p.info.r p.info.k (p.off u) ∧ WInv wr' :=
  BodyWriter.compressOffsetBits_spec hub general p hp hgen u hc hw

/-- `TrivialGcdOp` is selected only when every divisor is 1 or its range single-valued -/
theorem trivial_gcd_op_sound {ub : Nat} (ps : List Prefix) (hok : ∀ p ∈ ps, PrefixOk ub p)
    (h : useGcdArithmetic ps = false) : ∀ p ∈ ps, p.gcd = 1 ∨ p.upper = p.lower :=
  useGcdArithmetic_false ps hok h

/-- the bit written last is `(off & (U::ONE << k)) > U::ZERO` -/
theorem msb_is_and (off k : Nat) : (off / 2^k % 2 == 1) = decide (off &&& (1 <<< k) > 0) :=
  msb_eq_and off k

/-! ### the body -/

/-- **(c)** `trained_compress_chunk_nums`: for every input of at most `2^24` numbers, if the spec's greedy
grouping exists the writer returns `Ok` with content `padToByte (old ++ encBlocks (tableOf ps) bs)`, the
invariant of the writer model and a byte-aligned position; if some number is in no range it returns the
`invalid argument` error -/
theorem compressNums_spec {ub : Nat} {est : Nat → Nat} (hub : ub ≤ 128) (hest : EstOk ub est)
    (ps : List Prefix) (hne : ps ≠ []) (hok : ∀ p ∈ ps, PrefixOk ub p) (hd : disjointB ps = true)
    (hcs : 16 * (ps.map (·.count)).sum < USIZE) (us : List Nat) (hlen : us.length ≤ 2^24)
    {wr : Writer} (hw : WInv wr) :
    (∀ bs, greedyBlocks ps us.length us = some bs →
      ∃ wr', trainedCompressChunkNums ub est ps us wr = .ok wr' ∧
        wr'.bits = padToByte (wr.bits ++ encBlocks (tableOf ps) bs) ∧ WInv wr' ∧ wr'.j % 8 = 0) ∧
    (greedyBlocks ps us.length us = none →
      trainedCompressChunkNums ub est ps us wr = .err "InvalidArgument") :=
  BodyWriter.compressNums_spec hub hest ps hne hok hd hcs us hlen hw

/-- **(c)** from a byte-aligned writer (the chunk body follows the byte-aligned chunk metadata): the writer
appends exactly `encBody ps bs` -/
theorem compressNums_spec_aligned {ub : Nat} {est : Nat → Nat} (hub : ub ≤ 128) (hest : EstOk ub est)
    (ps : List Prefix) (hne : ps ≠ []) (hok : ∀ p ∈ ps, PrefixOk ub p) (hd : disjointB ps = true)
    (hcs : 16 * (ps.map (·.count)).sum < USIZE) (us : List Nat) (hlen : us.length ≤ 2^24)
    {wr : Writer} (hw : WInv wr) (hal : wr.bits.length % 8 = 0)
    (bs : List Block) (hbs : greedyBlocks ps us.length us = some bs) :
    ∃ wr', trainedCompressChunkNums ub est ps us wr = .ok wr' ∧
      wr'.bits = wr.bits ++ encBody ps bs ∧ WInv wr' ∧ wr'.j % 8 = 0 :=
  BodyWriter.compressNums_spec_aligned hub hest ps hne hok hd hcs us hlen hw hal bs hbs

/-- only two outcomes: `Ok` or the `invalid argument` error (no panic, no stack overflow) -/
theorem compressNums_total {ub : Nat} {est : Nat → Nat} (hub : ub ≤ 128) (hest : EstOk ub est)
    (ps : List Prefix) (hne : ps ≠ []) (hok : ∀ p ∈ ps, PrefixOk ub p) (hd : disjointB ps = true)
    (hcs : 16 * (ps.map (·.count)).sum < USIZE) (us : List Nat) (hlen : us.length ≤ 2^24)
    {wr : Writer} (hw : WInv wr) :
    (∃ wr', trainedCompressChunkNums ub est ps us wr = .ok wr') ∨
      trainedCompressChunkNums ub est ps us wr = .err "InvalidArgument" :=
  BodyWriter.compressNums_total hub hest ps hne hok hd hcs us hlen hw

/-- the writer succeeds exactly on the inputs every number of which lies in some range -/
theorem compressNums_ok_iff_cover {ub : Nat} {est : Nat → Nat} (hub : ub ≤ 128) (hest : EstOk ub est)
    (ps : List Prefix) (hne : ps ≠ []) (hok : ∀ p ∈ ps, PrefixOk ub p) (hd : disjointB ps = true)
    (hcs : 16 * (ps.map (·.count)).sum < USIZE) (us : List Nat) (hlen : us.length ≤ 2^24)
    {wr : Writer} (hw : WInv wr) :
    (∃ wr', trainedCompressChunkNums ub est ps us wr = .ok wr') ↔ coverB ps us = true :=
  BodyWriter.compressNums_ok_iff_cover hub hest ps hne hok hd hcs us hlen hw

/-- **writer → spec decoder**: what the literal writer wrote is read back by the unit-wise spec decoder as the
input numbers (prefix-free codes, covered and congruent input, fewer than `2^24` numbers) -/
theorem writer_roundtrip {ub : Nat} {est : Nat → Nat} (hub : ub ≤ 128) (hest : EstOk ub est)
    (ps : List Prefix) (hne : ps ≠ []) (hok : ∀ p ∈ ps, PrefixOk ub p) (hd : disjointB ps = true)
    (hcs : 16 * (ps.map (·.count)).sum < USIZE) (hpf : PrefixFree (ps.map (·.code)))
    (us : List Nat) (hlen : us.length < 2^24) (hcov : coverB ps us = true) (hcong : congruentB ps us = true)
    {wr : Writer} (hw : WInv wr) (hal : wr.bits.length % 8 = 0) :
    ∃ wr' body, trainedCompressChunkNums ub est ps us wr = .ok wr' ∧ wr'.bits = wr.bits ++ body ∧
      body.length % 8 = 0 ∧ WInv wr' ∧
      ∀ rest, ∃ pad, pad.length < 8 ∧ (∀ b ∈ pad, b = false) ∧
        iterUnits (unit (tableOf ps)) us.length none (body ++ rest) = .ok (us, none) (pad ++ rest) :=
  BodyWriter.writer_roundtrip hub hest ps hne hok hd hcs hpf us hlen hcov hcong hw hal

/-- the exact integer logarithm is a legal estimate (the driver's `run` uses it) -/
theorem estExact_ok (ub : Nat) : EstOk ub estExact := BodyWriter.estExact_ok ub

/-! ### non-vacuity -/

/-- three prefixes: a range with divisor 10, a single value with a jumpstart, a range with divisor 1 -/
def exPs : List Prefix :=
  [ { count := 3, lower := 100, upper := 130, code := [true, false], jump := none, gcd := 10 },
    { count := 5, lower := 7, upper := 7, code := [false], jump := some 1, gcd := 1 },
    { count := 2, lower := 1000, upper := 1005, code := [true, true], jump := none, gcd := 1 } ]

def exUs : List Nat := [7, 7, 7, 120, 1003, 7, 7, 100, 130, 1005]

def exBlocks : List Block :=
  [.run 1 0 [0, 0], .one 0 2, .one 2 3, .run 1 0 [0], .one 0 0, .one 0 3, .one 2 5]

theorem exPs_ok : ∀ p ∈ exPs, PrefixOk 64 p := by
  intro p hp
  simp only [exPs, List.mem_cons, List.not_mem_nil, or_false] at hp
  rcases hp with rfl | rfl | rfl <;> constructor <;> simp

example : useGcdArithmetic exPs = true := by decide
example : greedyBlocks exPs exUs.length exUs = some exBlocks := rfl

/-- the literal writer, evaluated -/
example : trainedCompressChunkNums 64 estExact exPs exUs {} = .ok { ws := [3853546190998077440], j := 32 } := by
  decide
example : run exPs exUs = "ok 00110101011110101000101111011000" := by decide
/-- the spec encoder, evaluated -/
example : bitsStr (encBody exPs exBlocks) = "00110101011110101000101111011000" := by decide
/-- an uncovered number -/
example : run exPs [7, 8] = "err InvalidArgument" := by decide
/-- a zero count at the front: unbounded recursion -/
example : run [{ count := 0, lower := 1, upper := 1, code := [false], jump := none, gcd := 1 },
               { count := 1, lower := 2, upper := 2, code := [true], jump := none, gcd := 1 }] [1]
    = "err StackOverflow" := by decide

/-- the theorem's hypotheses hold for the example, and its conclusion is the evaluated one -/
example : ∃ wr', trainedCompressChunkNums 64 estExact exPs exUs {} = .ok wr' ∧
    wr'.bits = encBody exPs exBlocks ∧ WInv wr' ∧ wr'.j % 8 = 0 := by
  have h := compressNums_spec_aligned (ub := 64) (by omega) (estExact_ok 64) exPs (by simp [exPs]) exPs_ok
    (by decide) (by decide) exUs (by decide) winv_default (by decide) exBlocks rfl
  have h0 : ({} : Writer).bits = [] := rfl
  rw [h0, List.nil_append] at h
  exact h

end C02w
end Qco
