/-
C03 — the reader is total on the format: every well-formed file, whatever choices its writer made
(any legal prefix table, any grouping into blocks and runs, any number of chunks), is decoded by
the operational decompressor, for every Huffman lookup between the eager `matchCode` and any
lazier one (`Op.WeakLazyOf`: sound, fails only with `insufficient`, answers when `lookahead` bits follow;
no prefix-safety of the lookup itself is assumed), to exactly the values the specification assigns to the file.
Property theorems only.

Both the one-shot `simple_decompress` and the chunk API (`header`, then alternating
`chunk_metadata` / `chunk_body`) are covered.
-/
import Qco.Lemmas.Refine
namespace Qco
namespace C03
open Parser Op

/-- the hypotheses are satisfiable: the eager matcher of the specification is a `LazyOf` matcher -/
theorem eager_lazyOf : Op.LazyOf Op.eagerMatcher := Op.eager_lazyOf
theorem eager_weakLazyOf : Op.WeakLazyOf Op.eagerMatcher := Op.eager_lazyOf.weak

/-- **`simple_decompress` is total on the format** -/
theorem reader_total_on_format (L : Op.Matcher) (hL : Op.WeakLazyOf L) (gb : Nat → Nat) (d : DType)
    (f : AFile) (h : f.WF gb d) :
    (Op.simpleDecompress L gb d (Op.write Op.St.init (encodeFile gb d f))).1
      = .ok (fileVals d f.toD).flatten := by
  have hdec := decodeFile_encodeFile gb d f h []
  rw [List.append_nil] at hdec
  exact Op.simple_ok L hL gb d _ _ _ hdec

/-- … also when anything at all (any number of bits) follows the termination byte -/
theorem reader_total_trailing (L : Op.Matcher) (hL : Op.WeakLazyOf L) (gb : Nat → Nat) (d : DType)
    (f : AFile) (h : f.WF gb d) (rest : Bits) :
    (Op.simpleDecompress L gb d (Op.write Op.St.init (encodeFile gb d f ++ rest))).1
      = .ok (fileVals d f.toD).flatten :=
  Op.simple_ok L hL gb d _ _ _ (decodeFile_encodeFile gb d f h rest)

/-- more generally: whatever input the specification decoder accepts, the operational one decodes
to the same values -/
theorem reader_total_on_accepted (L : Op.Matcher) (hL : Op.WeakLazyOf L) (gb : Nat → Nat) (d : DType)
    (s : Bits) (f : DFile) (r : Bits) (h : decodeFile gb d s = .ok f r) :
    (Op.simpleDecompress L gb d (Op.write Op.St.init s)).1 = .ok (fileVals d f).flatten :=
  Op.simple_ok L hL gb d s f r h

/-! ### the chunk API -/

/-- `header()` on a file: the flags, and the decoder is left at the first chunk -/
theorem api_header (d : DType) (fl : Flags) (hb : d.headerByte < 256) (ho : fl.order ≤ 7) (rest : Bits) :
    Op.header d (Op.write Op.St.init (encHeader d fl ++ rest)) = (.ok fl, Op.stIdle fl rest 48) := by
  rw [header_init, C02.header_roundtrip d fl hb ho rest]
  simp only [List.length_append, C02.header_size d fl ho]
  congr 3
  omega

/-- `chunk_metadata()` at the termination byte: `None`, the byte is consumed -/
theorem api_footer (gb : Nat → Nat) (d : DType) (fl : Flags) (rest : Bits) (p : Nat) (hp : p % 8 = 0) :
    Op.chunkMetadata gb d (Op.stIdle fl (natBits 8 Frozen.magicTerminationByte ++ rest) p)
      = (.ok none, Op.stIdle fl rest (p + 8)) := by
  have hp' : ¬ (p % 8 ≠ 0) := by omega
  have h46 : Frozen.magicTerminationByte < 2 ^ 8 := by decide
  rw [chunkMetadata_idle, if_neg hp']
  simp only [readChunkMeta, Parser.bind, readNat_natBits h46, if_true, Parser.pure, List.length_append,
    natBits_length]
  congr 3
  omega

theorem checksOk_of_WF {gb : Nat → Nat} {d : DType} {fl : Flags} {c : AChunk} (hc : c.WF gb d fl) :
    ChecksOk fl c.fixedMeta := by
  constructor
  · show (c.cm.prefixes.isEmpty && decide (bodyCount fl c.cm.n > 0)) = false
    cases hps : c.cm.prefixes with
    | nil => have := hc.empty_ok hps; simp [this]
    | cons p ps => simp
  · show (!c.cm.prefixes.isEmpty && !completeTree (c.cm.prefixes.map (·.code))) = false
    rcases hc.tree_ok with h | h
    · simp [h]
    · simp [h]

theorem encChunkMeta_length_mod (gb : Nat → Nat) (d : DType) (fl : Flags) (m : ChunkMeta) :
    (encChunkMeta gb d fl m).length % 8 = 0 := by
  unfold encChunkMeta; exact padToByte_length_mod _

theorem encBody_length_mod (ps : List Prefix) (bs : List Block) : (encBody ps bs).length % 8 = 0 := by
  unfold encBody; exact padToByte_length_mod _

theorem encChunk_length_mod (gb : Nat → Nat) (d : DType) (fl : Flags) (c : AChunk) :
    (encChunk gb d fl c).length % 8 = 0 := by
  have h1 := encChunkMeta_length_mod gb d fl c.fixedMeta
  have h2 := encBody_length_mod c.cm.prefixes c.blocks
  simp only [encChunk, List.length_append, natBits_length]
  omega

theorem readChunkMeta_encChunk (gb : Nat → Nat) (d : DType) (fl : Flags)
    (c : AChunk) (hp : (prefDType d fl).Ok) (hs : d.signed.Ok) (hc : c.WF gb d fl) (rest : Bits) :
    readChunkMeta gb d fl (encChunk gb d fl c ++ rest)
      = .ok (some c.fixedMeta) (encBody c.cm.prefixes c.blocks ++ rest) := by
  have h44 : Frozen.magicChunkByte < 2 ^ 8 := by decide
  have hne : ¬ (Frozen.magicChunkByte = Frozen.magicTerminationByte) := by decide
  have hcg : ∀ g, c.fixedMeta.commonGcd = some g → fl.gcds = true ∧ 1 ≤ g ∧
      (g = 1 ∨ (g - 1 < 2 ^ gb ((prefDType d fl).M - 1) ∧ g - 1 < (prefDType d fl).M - 1)) := by
    intro g hg
    have hg' : c.cm.commonGcd = some g := hg
    have := hc.common_ok
    rw [hg'] at this
    exact this
  have hm := decChunkMeta_enc gb d fl c.fixedMeta hp hs hc.n_lt hc.body_lt hc.moments_len
    hc.moments_ok hc.nprefs_lt hcg hc.prefixes_ok (encBody c.cm.prefixes c.blocks ++ rest)
  simp only [readChunkMeta, encChunk, List.append_assoc, Parser.bind, readNat_natBits h44, hne, if_false,
    if_true, Parser.map, hm, Parser.pure]

/-- `chunk_metadata()` on a chunk of a well-formed file: the chunk's metadata as written -/
theorem api_chunk_meta (gb : Nat → Nat) (d : DType) (fl : Flags)
    (c : AChunk) (hp : (prefDType d fl).Ok) (hs : d.signed.Ok) (hc : c.WF gb d fl)
    (rest : Bits) (p : Nat) (hpos : p % 8 = 0) :
    Op.chunkMetadata gb d (Op.stIdle fl (encChunk gb d fl c ++ rest) p)
      = (.ok (some c.fixedMeta),
         Op.stBody fl (freshBody fl c.fixedMeta) (encBody c.cm.prefixes c.blocks ++ rest)
           (p + (8 + (encChunkMeta gb d fl c.fixedMeta).length))) := by
  have hpos' : ¬ (p % 8 ≠ 0) := by omega
  rw [chunkMetadata_idle, if_neg hpos', readChunkMeta_encChunk gb d fl c hp hs hc rest]
  simp only [newBody_ok (checksOk_of_WF hc)]
  have : (encChunk gb d fl c ++ rest).length - (encBody c.cm.prefixes c.blocks ++ rest).length
      = 8 + (encChunkMeta gb d fl c.fixedMeta).length := by
    simp only [encChunk, List.length_append, natBits_length]; omega
  rw [this]

/-- `chunk_body()` after it: the chunk's values, for any `WeakLazyOf` matcher as soon as `lookahead`
bits follow the chunk (in a file: the next magic byte) -/
theorem api_chunk_body (L : Op.Matcher) (hL : Op.WeakLazyOf L) (gb : Nat → Nat) (d : DType) (fl : Flags)
    (c : AChunk) (hc : c.WF gb d fl)
    (rest : Bits) (hrest : Op.lookahead ≤ rest.length) (p : Nat) (hpos : p % 8 = 0) :
    Op.chunkBody L d (Op.stBody fl (freshBody fl c.fixedMeta) (encBody c.cm.prefixes c.blocks ++ rest) p)
      = (.ok (chunkVals d fl c.toD), Op.stIdle fl rest (p + (encBody c.cm.prefixes c.blocks).length)) := by
  have hck := checksOk_of_WF hc
  have hbd : decBody c.fixedMeta (bodyCount fl c.fixedMeta.n) (encBody c.cm.prefixes c.blocks ++ rest)
      = .ok (blocksNums (tableOf c.cm.prefixes) c.blocks) rest := decBody_enc gb d fl c hc rest
  have hspec := chunkBody_eager_spec d fl c.fixedMeta hck (encBody c.cm.prefixes c.blocks ++ rest) p hpos
  rw [hbd] at hspec
  obtain ⟨hcb, _, _⟩ := hspec
  have hl := chunkBody_lazy_slack L hL d fl c.fixedMeta hck _ _ _ _ hcb (by simpa [stIdle] using hrest)
  rw [hl]
  have : (encBody c.cm.prefixes c.blocks ++ rest).length - rest.length = (encBody c.cm.prefixes c.blocks).length := by
    simp only [List.length_append]; omega
  rw [this]
  rfl

/-- both together -/
theorem api_chunk (L : Op.Matcher) (hL : Op.WeakLazyOf L) (gb : Nat → Nat) (d : DType) (fl : Flags)
    (c : AChunk) (hp : (prefDType d fl).Ok) (hs : d.signed.Ok) (hc : c.WF gb d fl)
    (rest : Bits) (hrest : Op.lookahead ≤ rest.length) (p : Nat) (hpos : p % 8 = 0) :
    ∃ σ', Op.chunkMetadata gb d (Op.stIdle fl (encChunk gb d fl c ++ rest) p) = (.ok (some c.fixedMeta), σ') ∧
      Op.chunkBody L d σ' = (.ok (chunkVals d fl c.toD), Op.stIdle fl rest (p + (encChunk gb d fl c).length)) := by
  have hmod1 := encChunkMeta_length_mod gb d fl c.fixedMeta
  refine ⟨_, api_chunk_meta gb d fl c hp hs hc rest p hpos, ?_⟩
  rw [api_chunk_body L hL gb d fl c hc rest hrest _ (by omega)]
  have : p + (8 + (encChunkMeta gb d fl c.fixedMeta).length) + (encBody c.cm.prefixes c.blocks).length
      = p + (encChunk gb d fl c).length := by
    simp only [encChunk, List.length_append, natBits_length]; omega
  rw [this]

/-- the chunk API as a loop: `chunk_metadata` / `chunk_body` until the termination byte, collecting
each chunk's metadata and values (fuel bounds the number of chunks) -/
def apiChunks (L : Op.Matcher) (gb : Nat → Nat) (d : DType) :
    Nat → Op.St → Op.Out (List (ChunkMeta × List Nat)) × Op.St
  | 0, σ => (.err .insufficient, σ)
  | fuel+1, σ =>
    match Op.chunkMetadata gb d σ with
    | (.err e, σ') => (.err e, σ')
    | (.ok none, σ') => (.ok [], σ')
    | (.ok (some m), σ') =>
      match Op.chunkBody L d σ' with
      | (.err e, σ'') => (.err e, σ'')
      | (.ok xs, σ'') =>
        match apiChunks L gb d fuel σ'' with
        | (.err e, σ3) => (.err e, σ3)
        | (.ok rest, σ3) => (.ok ((m, xs) :: rest), σ3)

theorem api_run (L : Op.Matcher) (hL : Op.WeakLazyOf L) (gb : Nat → Nat) (d : DType) (fl : Flags)
    (hp : (prefDType d fl).Ok) (hs : d.signed.Ok) (cs : List AChunk) (hcs : ∀ c ∈ cs, c.WF gb d fl)
    (rest : Bits) (p : Nat) (hpos : p % 8 = 0) :
    apiChunks L gb d (cs.length + 1)
        (Op.stIdle fl (cs.flatMap (encChunk gb d fl) ++ (natBits 8 Frozen.magicTerminationByte ++ rest)) p)
      = (.ok (cs.map fun c => (c.fixedMeta, chunkVals d fl c.toD)),
         Op.stIdle fl rest (p + (cs.flatMap (encChunk gb d fl)).length + 8)) := by
  induction cs generalizing p with
  | nil =>
    simp only [List.flatMap_nil, List.nil_append, List.length_nil, apiChunks, api_footer gb d fl rest p hpos,
      List.map_nil, Nat.add_zero]
  | cons c cs ih =>
    have hc := hcs c List.mem_cons_self
    have hcs' : ∀ c' ∈ cs, c'.WF gb d fl := fun c' h => hcs c' (List.mem_cons_of_mem _ h)
    obtain ⟨σ', h1, h2⟩ := api_chunk L hL gb d fl c hp hs hc
      (cs.flatMap (encChunk gb d fl) ++ (natBits 8 Frozen.magicTerminationByte ++ rest))
      (by simp only [List.length_append, natBits_length, lookahead]; omega) p hpos
    have hmod := encChunk_length_mod gb d fl c
    simp only [List.flatMap_cons, List.append_assoc, List.length_cons, apiChunks, h1, h2,
      ih hcs' (p + (encChunk gb d fl c).length) (by omega), List.map_cons, List.length_append]
    congr 3
    omega

/-- **the chunk API is total on the format**: `header()` returns the flags; then alternating
`chunk_metadata()` / `chunk_body()` return, chunk by chunk, the metadata as written and the
chunk's values; then `chunk_metadata()` returns `None`; all input is consumed -/
theorem chunk_api_total (L : Op.Matcher) (hL : Op.WeakLazyOf L) (gb : Nat → Nat) (d : DType)
    (f : AFile) (h : f.WF gb d) :
    ∃ σ1, Op.header d (Op.write Op.St.init (encodeFile gb d f)) = (.ok f.flags, σ1) ∧
      ∃ σ2, apiChunks L gb d (f.chunks.length + 1) σ1
          = (.ok (f.chunks.map fun c => (c.fixedMeta, chunkVals d f.flags c.toD)), σ2) ∧
        σ2.rest = [] := by
  have h1 : Op.header d (Op.write Op.St.init (encodeFile gb d f))
      = (.ok f.flags, Op.stIdle f.flags
          (f.chunks.flatMap (encChunk gb d f.flags) ++ (natBits 8 Frozen.magicTerminationByte ++ [])) 48) := by
    unfold encodeFile
    rw [List.append_assoc, List.append_nil]
    exact api_header d f.flags h.dtype_ok.header_lt h.order_le _
  have h2 := api_run L hL gb d f.flags h.pref_dtype_ok h.signed_ok f.chunks h.chunks_ok [] 48 (by omega)
  exact ⟨_, h1, _, h2, rfl⟩

end C03
end Qco
