/-
C03g — the constants hard-wired in the literal models (layers N, W, Huffman table) are the ones the
translator re-extracts from /repo's working tree on every run. Property theorems only.
-/
import Qco.Generated.Constants
import Qco.Op.NumDec
import Qco.Op.HuffTable
import Qco.Op.BodyWriter
namespace Qco
namespace C03g

/-- `UNCHECKED_NUM_THRESHOLD`, `MAX_ENTRIES`, `BITS_TO_ENCODE_N_ENTRIES`, `MAX_PREFIX_TABLE_SIZE_LOG` of the
literal `NumDecompressor` / `HuffmanTable` models equal the extracted ones -/
theorem numdec_constants :
    NumDec.uncheckedNumThreshold = Generated.uncheckedNumThreshold ∧
    NumDec.maxEntries = Frozen.maxEntries ∧
    NumDec.bitsToEncodeNEntries = Frozen.bitsNEntries ∧
    HT.maxTableSizeLog = Generated.maxPrefixTableSizeLog := by decide

/-- `TARGET_BRANCHING_FACTOR` of `CompressionTable::from_sorted`; the literal model (`BodyWriter.children`,
`CTable.fromSorted`) is written with the numeral 16 -/
theorem branching_factor : Generated.targetBranchingFactor = 16 := by decide

end C03g
end Qco
