/-
C03l — the LITERAL decompressor is total on the format.

C03 ("every well-formed file, whatever choices its writer made, is decoded to exactly the numbers the
specification assigns to it") restated for `Qco.DecompLit` (`Qco/Op/DecompLit.lean`), the statement-level model
of `Decompressor<T>` over 64-bit word buffers with the real word-level `BitReader`, the real Huffman table walk,
the unchecked fast path of `decompress_unsigneds_limited_dirty`, the literal metadata parser and
`reconstruct_nums`.  Every theorem is about the literal functions `DecompLit.write`, `DecompLit.simpleDecompress`,
`DecompLit.header`, `DecompLit.chunkMetadata`, `DecompLit.chunkBody`; the abstract decompressor (C03, C03s) and the
refinement layer DL (C08d) appear only in the proofs.

The file reaches the decompressor as bytes: `fileBytes gb d f` are the bytes of `encodeFile gb d f`
(`fileBytes_bits`: their bits are the file; a well-formed file is a whole number of bytes).

Hypotheses that remain.
* `d ∈ Frozen.dtypes`; `f.WF gb d` (as in C03); `∀ x, gb x ≤ d.uBits` (a GCD field is not wider than `U`; true of
  `⌈log2 (x as f64)⌉`, as in C02m/C08d).
* the bytes written are fewer than `2^56` (the size side-condition `SizeOk` of layer DL, discharged from the
  length of the file).
Property theorems only; helper lemmas in `Qco/Lemmas/LitCor/*.lean`.
-/
import Qco.Lemmas.LitCor.Examples
import Qco.Properties.C03s
namespace Qco
namespace C03l
open Qco.WB Qco.Op Qco.MetaIO Qco.DecompLit

variable {d : DType} {gb : Nat → Nat}

/-- the bytes of a well-formed file are the file (nothing is lost in `fileBytes`) -/
theorem fileBytes_are_the_file (f : AFile) (h : f.WF gb d) :
    bytesBits (fileBytes gb d f) = encodeFile gb d f ∧ ∀ b ∈ fileBytes gb d f, b < 256 :=
  ⟨fileBytes_bits h, fileBytes_lt⟩

/-- **`simple_decompress` of the literal decompressor is total on the format**: write the bytes of any
well-formed file of any of the 15 data types into `Decompressor::default()`, call `simple_decompress`: the
answer is `Ok` of exactly the numbers the specification assigns to the file. -/
theorem literal_reader_total (hd : d ∈ Frozen.dtypes) (hgb : ∀ x, gb x ≤ d.uBits) (f : AFile) (h : f.WF gb d)
    (hlen : (fileBytes gb d f).length < 2 ^ 56) :
    (DecompLit.simpleDecompress gb d (DecompLit.write LitSt.init (fileBytes gb d f))).1
      = .ok (fileVals d f.toD).flatten := by
  have r := (simpleDecompress_refines (dok_of_mem hd) hgb (file_sim0 h) (file_size0 h hlen)).1
  rw [C03.reader_total_stride gb d f h] at r
  exact r.ok_eq

/-- … also when any bytes at all follow the termination byte -/
theorem literal_reader_total_trailing (hd : d ∈ Frozen.dtypes) (hgb : ∀ x, gb x ≤ d.uBits) (f : AFile)
    (h : f.WF gb d) (extra : List Nat) (he : ∀ b ∈ extra, b < 256)
    (hlen : (fileBytes gb d f ++ extra).length < 2 ^ 56) :
    (DecompLit.simpleDecompress gb d (DecompLit.write LitSt.init (fileBytes gb d f ++ extra))).1
      = .ok (fileVals d f.toD).flatten := by
  have r := (simpleDecompress_refines (dok_of_mem hd) hgb (file_sim h extra he) (file_size h extra he hlen)).1
  rw [C03.reader_total_trailing matchStride matchStride_weakLazyOf gb d f h] at r
  exact r.ok_eq

/-- … and in whatever pieces the bytes are written (`write` is called once per piece) -/
theorem literal_reader_total_pieces (hd : d ∈ Frozen.dtypes) (hgb : ∀ x, gb x ≤ d.uBits) (f : AFile)
    (h : f.WF gb d) (pieces : List (List Nat)) (hp : pieces.flatten = fileBytes gb d f)
    (hlen : (fileBytes gb d f).length < 2 ^ 56) :
    (DecompLit.simpleDecompress gb d (pieces.foldl DecompLit.write LitSt.init)).1
      = .ok (fileVals d f.toD).flatten := by
  have hb : ∀ p ∈ pieces, ∀ b ∈ p, b < 256 := by
    intro p hp' b hb
    exact fileBytes_lt (gb := gb) (d := d) (f := f) b (by rw [← hp]; exact List.mem_flatten.mpr ⟨p, hp', hb⟩)
  obtain ⟨hs, hz⟩ := pieces_sim d pieces hb (by rw [hp]; exact hlen)
  have r := (simpleDecompress_refines (dok_of_mem hd) hgb hs hz).1
  rw [hp, fileBytes_bits h, C03.reader_total_stride gb d f h] at r
  exact r.ok_eq

/-- **the chunk API of the literal decompressor is total on the format**: `header()` answers the flags; then
the loop `chunk_metadata()` / `chunk_body()` (`DecompLit.apiChunks`) answers, chunk by chunk, the metadata as
written (`RMeta.ofSpec`: the literal `ChunkMetadata` struct of the format's metadata) and the chunk's numbers;
then `chunk_metadata()` answers `None`; everything written has been consumed. -/
theorem literal_chunk_api_total (hd : d ∈ Frozen.dtypes) (hgb : ∀ x, gb x ≤ d.uBits) (f : AFile) (h : f.WF gb d)
    (hlen : (fileBytes gb d f).length < 2 ^ 56) :
    ∃ σ1, DecompLit.header d (DecompLit.write LitSt.init (fileBytes gb d f)) = (.ok f.flags, σ1) ∧
      ∃ σ2, DecompLit.apiChunks gb d (f.chunks.length + 1) σ1
          = (.ok (f.chunks.map fun c => (RMeta.ofSpec f.flags c.fixedMeta, chunkVals d f.flags c.toD)), σ2) ∧
        DecompLit.bitIdx σ2 = 8 * (fileBytes gb d f).length := by
  have hs := file_sim0 h
  have hz := file_size0 h hlen
  obtain ⟨a1, ha1, a2, ha2, ha3⟩ := C03.chunk_api_total matchStride matchStride_weakLazyOf gb d f h
  obtain ⟨r1, r2⟩ := header_refines hs hz
  have hw1 := header_words d (DecompLit.write LitSt.init (fileBytes gb d f))
  have hf1 := op_header_freed d (Op.write St.init (encodeFile gb d f))
  have hfl := op_header_flags d (Op.write St.init (encodeFile gb d f)) f.flags (by rw [ha1])
  rw [ha1] at r1 r2 hf1 hfl
  simp only at r1 r2 hf1 hfl
  refine ⟨_, Prod.ext r1.ok_eq rfl, ?_⟩
  obtain ⟨q1, q2⟩ := apiChunks_refines (dok_of_mem hd) hgb f.flags (f.chunks.length + 1) r2 (hz.of_eq hw1 hf1) hfl
  have hw2 := apiChunks_words gb d (f.chunks.length + 1)
    (DecompLit.header d (DecompLit.write LitSt.init (fileBytes gb d f))).2
  rw [ha2] at q1 q2
  simp only at q1 q2
  obtain ⟨xs, hx1, hx2⟩ := q1.ok_rel
  refine ⟨_, Prod.ext (by rw [hx1, hx2]; simp [List.map_map, Function.comp_def]) rfl, ?_⟩
  have := q2.consumed ha3
  unfold DecompLit.bitIdx
  rw [this, hw2, hw1, written_total _ fileBytes_lt]

/-! ### non-vacuity: `C08d.deltaFile` -/

open C08d (i32 gbx i32_mem gbx_le deltaFile)

/-- the hypotheses hold of `deltaFile` (42 bytes, `i32`, one chunk, delta order 1), and the theorem gives its
six numbers -/
example : (DecompLit.simpleDecompress gbx i32 (DecompLit.write LitSt.init deltaFile)).1 = .ok [5, 4, 4, 8, 9, 13] := by
  have := literal_reader_total i32_mem gbx_le deltaAFile deltaAFile_wf deltaFile_small
  rw [deltaAFile_bytes, deltaAFile_vals] at this
  exact this

/-- written in three pieces (cut inside the header and inside the chunk metadata) -/
example : (DecompLit.simpleDecompress gbx i32
      ([deltaFile.take 3, (deltaFile.drop 3).take 14, deltaFile.drop 17].foldl DecompLit.write LitSt.init)).1
    = .ok [5, 4, 4, 8, 9, 13] := by
  have := literal_reader_total_pieces i32_mem gbx_le deltaAFile deltaAFile_wf
    [deltaFile.take 3, (deltaFile.drop 3).take 14, deltaFile.drop 17] (by rw [deltaAFile_bytes]; decide) deltaFile_small
  rw [deltaAFile_vals] at this
  exact this

/-- the chunk API on `deltaFile`: the flags, one chunk (its metadata struct, its six numbers), then `None`; all 336
bits consumed -/
example : ∃ σ1, DecompLit.header i32 (DecompLit.write LitSt.init deltaFile) = (.ok deltaFlags, σ1) ∧
    ∃ σ2, DecompLit.apiChunks gbx i32 2 σ1
        = (.ok [(RMeta.ofSpec deltaFlags deltaChunk.fixedMeta, [5, 4, 4, 8, 9, 13])], σ2) ∧
      DecompLit.bitIdx σ2 = 336 := by
  have := literal_chunk_api_total i32_mem gbx_le deltaAFile deltaAFile_wf deltaFile_small
  have hv : chunkVals i32 deltaFlags deltaChunk.toD = [5, 4, 4, 8, 9, 13] := by decide
  have hl : 8 * deltaFile.length = 336 := by decide
  rw [deltaAFile_bytes, hl] at this
  simpa [deltaAFile, hv] using this

-- the literal model computes the same (evaluation)
#guard (DecompLit.simpleDecompress gbx i32 (DecompLit.write LitSt.init deltaFile)).1 == .ok [5, 4, 4, 8, 9, 13]
#guard (DecompLit.simpleDecompress gbx i32 (DecompLit.write LitSt.init (deltaFile ++ [1, 2, 3]))).1
  == .ok [5, 4, 4, 8, 9, 13]
#guard (match DecompLit.header i32 (DecompLit.write LitSt.init deltaFile) with
  | (.ok fl, σ1) => fl == deltaFlags &&
    (DecompLit.apiChunks gbx i32 2 σ1).1 == .ok [(RMeta.ofSpec deltaFlags deltaChunk.fixedMeta, [5, 4, 4, 8, 9, 13])] &&
    (DecompLit.apiChunks gbx i32 2 σ1).2.state.bitIdx == 336
  | _ => false)

end C03l
end Qco
