/-
C03n — the fast path of `NumDecompressor` is verified, not only modelled.

`Qco.NumDec` (`Qco/Op/NumDec.lean`) is the literal, statement-by-statement model of
`num_decompressor.rs` on the word-level `BitReader` (`Qco.WB`) and the literal `HuffmanTable`
(`Qco.HT`): `max_bits_read`, `max_bits_overshot`, the two per-block bounds of
`NumDecompressor::new`, the unchecked and checked offset/block decoders and
`decompress_unsigneds_limited_dirty` with its guard
`guaranteed_safe_num_blocks ≥ UNCHECKED_NUM_THRESHOLD`.  `Op.numBatchDirty matchStride` is the
abstract batch decoder every refinement theorem (C03, C03s, C08, …) is about.

Hypotheses (`PsOk`): the codes form a complete prefix tree (`validate_prefix_tree`), the ranges fit
`U` (`U::BITS = ub ≤ 128`), jumpstarts are `≤ 48` (the metadata field has five bits), `n ≤
MAX_ENTRIES` (a 24-bit field) — without it the `max_reps = MAX_ENTRIES` of `max_bits_read` would
not bound the repetitions of one block —, the `BitWords` invariant `Words.WF`, a reader inside the
data (`RInv`), `n_processed ≤ n`, a stored `incomplete_prefix` naming a prefix of the chunk with at
least one repetition left, and less than `2^64 - 1024` bits of data.

Modelling limits (see the header of `Qco/Op/NumDec.lean`): unsigneds are `Nat`s, `U`-overflow of
`lower + offset * gcd` is not modelled; `k` is the exact `⌊log2 (range + 1)⌋`.
Property theorems only.
-/
import Qco.Lemmas.NumDec
namespace Qco
namespace C03n
open Qco.WB Qco.HT Qco.Op Qco.NumDec

/-- **(c) the literal batch decoder is the abstract one.**  On a well-formed word buffer, from any
reader position inside the data, `decompress_unsigneds_limited_dirty(reader, limit,
error_on_insufficient_data)` — resume of an incomplete prefix, constant branch, guarded unchecked
fast path, checked tail loop, `mark_insufficient` — returns the outcome of
`numBatchDirty matchStride` on the bits from that position (the numbers and the finished flag, or
the error kind), leaves the same `incomplete_prefix` and the same reader position (also on
errors), and the reader stays inside the data. -/
theorem numDec_refines (ub : Nat) (b : Body) (hps : PsOk ub b.ps) (hn : b.n ≤ maxEntries)
    (hnp : b.st.nProcessed ≤ b.n) (hinc : IncOk b.ps b.st.inc) (w : Words) (hw : w.WF)
    (hsz : 64 * w.ws.length + 1024 < USIZE) (r : Reader) (hr : RInv w r) (limit : Nat) (eoi : Bool) :
    let lit := decompressUnsignedsLimitedDirty (mkDec ub b.n b.ps) b.st.nProcessed b.st.inc limit eoi w r
    let abs := numBatchDirty matchStride b limit eoi { bits := w.toBits.drop r.bitIdx, pos := r.bitIdx }
    lit.res = outToR abs.1 ∧ lit.inc = abs.2.1.inc ∧ lit.rd.bitIdx = abs.2.2.pos
      ∧ w.toBits.drop lit.rd.bitIdx = abs.2.2.bits ∧ RInv w lit.rd :=
  numDecDirty_eq ub b hps hn hnp hinc w hw hsz r hr limit eoi

/-- **… and never panics**: no word is indexed out of bounds (in particular not by the unchecked
reads of the fast path), no `usize` subtraction underflows, `temp[0]` exists, no loop runs away. -/
theorem numDec_no_panic (ub : Nat) (b : Body) (hps : PsOk ub b.ps) (hn : b.n ≤ maxEntries)
    (hnp : b.st.nProcessed ≤ b.n) (hinc : IncOk b.ps b.st.inc) (w : Words) (hw : w.WF)
    (hsz : 64 * w.ws.length + 1024 < USIZE) (r : Reader) (hr : RInv w r) (limit : Nat) (eoi : Bool) :
    (decompressUnsignedsLimitedDirty (mkDec ub b.n b.ps) b.st.nProcessed b.st.inc limit eoi w r).res
      ≠ .panic :=
  numDecDirty_no_panic ub b hps hn hnp hinc w hw hsz r hr limit eoi

/-- **(a) the unchecked block is the checked block** whenever `max_bits_read(p) +
max_bits_overshot(p)` bits are left at the reader position, `p` being the prefix whose code stands
there: same numbers, same reader, same `incomplete_prefix`, `Ok`, reader inside the data. -/
theorem fast_block_is_checked_block (ub n : Nat) (ps : List Prefix) (hps : PsOk ub ps) (w : Words)
    (hw : w.WF) (hsz : 64 * w.ws.length + 1024 < USIZE) (r : Reader) (hr : RInv w r)
    (us : List Nat) (inc : UState) (batchSize : Nat) (hlt : us.length < batchSize)
    (hbatch : batchSize ≤ maxEntries)
    (i : Nat) (hi : i < ps.length) (hpre : ps[i].code <+: w.toBits.drop r.bitIdx)
    (hslack : r.bitIdx + maxBitsRead ps[i] + maxBitsOvershot ps[i] ≤ w.total) :
    uncheckedDecompressNumBlock (mkDec ub n ps) w r us inc batchSize
      = decompressNumBlock (mkDec ub n ps) w r us inc batchSize
    ∧ (uncheckedDecompressNumBlock (mkDec ub n ps) w r us inc batchSize).res = .ok ()
    ∧ RInv w (uncheckedDecompressNumBlock (mkDec ub n ps) w r us inc batchSize).rd
    ∧ (uncheckedDecompressNumBlock (mkDec ub n ps) w r us inc batchSize).rd.bitIdx
        ≤ r.bitIdx + maxBitsRead ps[i] :=
  unchecked_block_eq ub n ps hps w hw hsz r hr us inc batchSize hlt hbatch i hi hpre hslack

/-- **(b) the guard is sound**: with `g = min(remaining, (bits_remaining - max_overshoot) /
max_bits_per_num_block) ≥ 30`, before each of the `g` turns of the inner loop of the fast path the
blocks so far returned `Ok` and, if the loop runs another block, the hypothesis of (a) holds at the
reader position.  (`max_bits_read` without the most-significant bit, the varint bits or the code
would break `nd_unchecked_block_core`, on which this rests.) -/
theorem fast_guard_sound (ub n : Nat) (ps : List Prefix) (hps : PsOk ub ps) (w : Words) (hw : w.WF)
    (hsz : 64 * w.ws.length + 1024 < USIZE) (r : Reader) (hr : RInv w r) (us : List Nat) (inc : UState)
    (batchSize : Nat) (hle : us.length ≤ batchSize) (hbatch : batchSize ≤ maxEntries)
    (hM : (mkDec ub n ps).maxBitsPerNumBlock ≠ 0) (bitsRem g : Nat)
    (hbr : bitsRemaining w r = .ok bitsRem)
    (hg : g = min (batchSize - us.length)
      ((bitsRem - (mkDec ub n ps).maxOvershootPerNumBlock) / (mkDec ub n ps).maxBitsPerNumBlock))
    (h30 : uncheckedNumThreshold ≤ g) (k : Nat) (hk : k < g) :
    let b := uncheckedBlocks (mkDec ub n ps) w batchSize k r us inc
    b.res = .ok () ∧ RInv w b.rd
      ∧ (b.us.length < batchSize →
          ∃ i, ∃ hi : i < ps.length, ps[i].code <+: w.toBits.drop b.rd.bitIdx
            ∧ b.rd.bitIdx + maxBitsRead ps[i] + maxBitsOvershot ps[i] ≤ w.total) :=
  guard_sound ub n ps hps w hw hsz r hr us inc batchSize hle hbatch hM bitsRem g hbr hg h30 k hk

/-! ### non-vacuity: a concrete table and word buffer on which the fast path runs -/

/-- codes `0` (range `0..=3`, two offset bits) and `1` (the single value `10`) -/
def exPs : List Prefix :=
  [ { count := 30, lower := 0, upper := 3, code := [false], jump := none, gcd := 1 },
    { count := 10, lower := 10, upper := 10, code := [true], jump := none, gcd := 1 } ]

/-- sixteen zero bytes: forty blocks `0 00` and eight bits more -/
def exW : Words := { ws := [0, 0], total := 128 }

/-- a chunk of forty numbers, nothing decoded yet -/
def exBody : Body :=
  { n := 40, bodyBytes := 15, ps := exPs, st := ⟨0, 0, none⟩, total := 40, order := 0, moments := [],
    numsProcessed := 0 }

theorem exPs_ok : PsOk 64 exPs := by
  refine ⟨by decide, by decide, ?_, by decide⟩
  intro p hp j hj
  simp only [exPs, List.mem_cons, List.not_mem_nil, or_false] at hp
  rcases hp with rfl | rfl <;> cases hj

theorem exW_wf : exW.WF := ⟨rfl, rfl, by decide, by intro x _; exact Nat.mod_one x⟩

theorem exW_small : 64 * exW.ws.length + 1024 < USIZE := by
  have husz : USIZE = 18446744073709551616 := rfl
  have hl : exW.ws.length = 2 := rfl
  omega

theorem ex_n_le : (40 : Nat) ≤ maxEntries := by
  show 40 ≤ 2 ^ 24 - 1
  omega

/-- the two bounds of `NumDecompressor::new` for this table: `1 + 2` and `5 - 0` -/
example : (mkDec 64 40 exPs).maxBitsPerNumBlock = 3 ∧ (mkDec 64 40 exPs).maxOvershootPerNumBlock = 5 := by
  decide

/-- the guard of the first turn of the `loop`: `min(40, (128 - 5) / 3) = 40 ≥ 30` — the unchecked
fast path is taken, for all forty blocks -/
example : bitsRemaining exW {} = .ok 128
    ∧ min (40 - 0) ((128 - (mkDec 64 40 exPs).maxOvershootPerNumBlock) / (mkDec 64 40 exPs).maxBitsPerNumBlock) = 40
    ∧ uncheckedNumThreshold ≤ 40 := by
  decide

/-- all hypotheses of (c) hold of this instance (`exBody`: `n = 40`, `n_processed = 0`, no incomplete
prefix; `limit = 40`, reader at the start of `exW`) -/
example :
    let lit := decompressUnsignedsLimitedDirty (mkDec 64 exBody.n exBody.ps) exBody.st.nProcessed
      exBody.st.inc 40 true exW {}
    let abs := numBatchDirty matchStride exBody 40 true
      { bits := exW.toBits.drop ({} : Reader).bitIdx, pos := ({} : Reader).bitIdx }
    lit.res = outToR abs.1 ∧ lit.inc = abs.2.1.inc ∧ lit.rd.bitIdx = abs.2.2.pos
      ∧ exW.toBits.drop lit.rd.bitIdx = abs.2.2.bits ∧ RInv exW lit.rd :=
  numDec_refines 64 exBody exPs_ok ex_n_le (by decide) (nd_incOk_none exPs) exW exW_wf exW_small {}
    (rinv_start exW) 40 true

/-- all hypotheses of (b) hold at the start, hence (a) applies to each of the forty blocks -/
example (k : Nat) (hk : k < 40) :
    let b := uncheckedBlocks (mkDec 64 40 exPs) exW 40 k {} [] none
    b.res = .ok () ∧ RInv exW b.rd
      ∧ (b.us.length < 40 →
          ∃ i, ∃ hi : i < exPs.length, exPs[i].code <+: exW.toBits.drop b.rd.bitIdx
            ∧ b.rd.bitIdx + maxBitsRead exPs[i] + maxBitsOvershot exPs[i] ≤ exW.total) :=
  fast_guard_sound 64 40 exPs exPs_ok exW exW_wf exW_small {} (rinv_start exW) [] none 40 (by decide)
    ex_n_le (by decide) 128 40 (by decide) (by decide) (by decide) k hk

-- what the two decoders compute on this instance: forty zeros, reader at bit 120
#guard runDirty 64 exPs 40 0 none 40 true [0, 0] 128 0
  = ⟨"ok", List.replicate 40 0, true, none, 120⟩
#guard absView (numBatchDirty matchStride exBody 40 true { bits := exW.toBits, pos := 0 })
  = (.ok (List.replicate 40 0, true), none, 120)

end C03n
end Qco
