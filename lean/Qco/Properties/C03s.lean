/-
C03/C01/C04/C05/C06 instantiated for the model of the REAL Huffman lookup (`Op.matchStride`, the
6-bit-stride table walk of `HuffmanTable::search_with_reader` over `read_prefix_table_idx`):
`matchStride_weakLazyOf` (Qco/Lemmas/Stride.lean) discharges the only hypothesis the refinement
theorems make about the lookup. `matchStride` itself is tied to the code by the correspondence
check (every dops line compares partial batches and bit positions).
-/
import Qco.Properties.C03
import Qco.Properties.C06
import Qco.Lemmas.Stride
namespace Qco
namespace C03
open Op

/-- the real lookup is NOT prefix-safe (more data can turn an answer back into `insufficient`) … -/
theorem stride_not_lazyOf : ¬ LazyOf matchStride := matchStride_not_lazyOf

/-- … but it is sound, fails only for lack of data, and answers once 5 more bits follow -/
theorem stride_weakLazyOf : WeakLazyOf matchStride := matchStride_weakLazyOf

/-- every well-formed file is decoded to exactly its numbers by the decoder with the real lookup -/
theorem reader_total_stride (gb : Nat → Nat) (d : DType) (f : AFile) (h : f.WF gb d) :
    (simpleDecompress matchStride gb d (write St.init (encodeFile gb d f))).1 = .ok (fileVals d f.toD).flatten :=
  reader_total_on_format matchStride matchStride_weakLazyOf gb d f h

end C03
end Qco
