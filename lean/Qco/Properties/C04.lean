/-
C04 — the streaming iterator on a complete file. Property theorems only.

For every lookup `L` with `Op.WeakLazyOf L` (sound w.r.t. the specification's eager `matchCode`,
failing only with `insufficient`, answering as soon as `lookahead` bits follow the code; NOT
assumed monotone in the available data — the model of the real 6-bit-stride table is not), every
`gb`, every data type
and every well-formed file `f`, with the whole file `encodeFile gb d f` written to a fresh
decompressor, `Iterator::next` (model: `Op.next`, iterated by `Op.drainIter`) with batch limit
`limit ≥ 1` yields exactly

  flags, then per chunk: its metadata and its values in consecutive batches of `limit`
  (the last one shorter), then the footer,

(`expectedItems`), without error, ends in a terminated state with no unread bits, and yields
`none` forever after. For delta order ≥ 1 the batches are the same `splitEvery limit` of the
chunk's values (the last `order` values of a chunk come from the moments alone).

Proof: refinement of the operational decompressor against the specification decoder, bottom-up in
`Qco/Lemmas/Stream*.lean` (unit, drain, number batch, delta batch, step of `next`, iteration).
-/
import Qco.Lemmas.StreamIter
namespace Qco
namespace C04
open Op _root_.Qco.Stream

variable {gb : Nat → Nat} {d : DType} {f : AFile}

/-- a well-formed file is a whole number of bytes -/
theorem encodeFile_length_mod (h : f.WF gb d) : (encodeFile gb d f).length % 8 = 0 := by
  have h1 := C02.header_size d f.flags h.order_le
  have h2 := tailBits_length_mod gb d f 0
  rw [encodeFile_eq, List.length_append]
  omega

/-- the whole file written to a fresh decompressor: the iterator is at the start -/
theorem inv_init (h : f.WF gb d) :
    Inv gb d f .start (Op.write St.init (encodeFile gb d f)) [] ∧
      Al (Op.write St.init (encodeFile gb d f)) := by
  refine ⟨⟨rfl, rfl, rfl, rfl, by simp [Op.write, St.init]⟩, ?_⟩
  have := encodeFile_length_mod h
  simp only [Al, Op.write, St.init, List.nil_append]
  omega

/-- C04: on a complete well-formed file the iterator yields exactly `expectedItems`, for every
batch limit `≥ 1`, every fuel larger than the number of items, and every admissible lookup `L`;
no error; the final state is terminated and has no unread bits -/
theorem iter_items (L : Matcher) (hL : WeakLazyOf L) (h : f.WF gb d) (limit : Nat) (hlim : 1 ≤ limit)
    (fuel : Nat) (hfuel : (expectedItems d f limit).length < fuel) :
    ∃ σ', Op.drainIter L gb d limit fuel (Op.write St.init (encodeFile gb d f)) []
        = (expectedItems d f limit, none, σ') ∧ σ'.terminated = true ∧ σ'.rest = [] := by
  obtain ⟨hinv, hal⟩ := inv_init h
  rw [expectedItems_eq] at hfuel
  obtain ⟨σ', hd, hdone⟩ := drain_exact L hL limit hlim h fuel .start _ [] hinv hal hfuel
  refine ⟨σ', ?_, hdone.1, ?_⟩
  · rw [hd, expectedItems_eq]; rfl
  · simpa using hdone.2

/-- `iter_items` for the stronger hypothesis `LazyOf` -/
theorem iter_items_of_lazyOf (L : Matcher) (hL : LazyOf L) (h : f.WF gb d) (limit : Nat) (hlim : 1 ≤ limit)
    (fuel : Nat) (hfuel : (expectedItems d f limit).length < fuel) :
    ∃ σ', Op.drainIter L gb d limit fuel (Op.write St.init (encodeFile gb d f)) []
        = (expectedItems d f limit, none, σ') ∧ σ'.terminated = true ∧ σ'.rest = [] :=
  iter_items L hL.weak h limit hlim fuel hfuel

/-- C04: after the footer the iterator yields `none` and does not change the state -/
theorem after_footer_none (L : Matcher) (gb : Nat → Nat) (d : DType) (limit : Nat) (σ' : St)
    (h : σ'.terminated = true) : Op.next L gb d limit σ' = (.ok none, σ') :=
  next_done L limit σ' h

/-! ### corollaries about the batches -/

/-- every batch is non-empty and has at most `limit` numbers -/
theorem batch_nonempty_le (limit : Nat) (hlim : 1 ≤ limit) (xs : List Nat)
    (hx : Item.nums xs ∈ expectedItems d f limit) : xs ≠ [] ∧ xs.length ≤ limit := by
  simp [expectedItems] at hx
  obtain ⟨c, _, hp⟩ := hx
  exact splitEvery_mem limit hlim _ xs hp

/-- the concatenation of a chunk's batches is the chunk's values -/
theorem chunk_batches_concat (limit : Nat) (hlim : 1 ≤ limit) (c : AChunk) :
    (splitEvery limit (chunkVals d f.flags c.toD)).flatten = chunkVals d f.flags c.toD :=
  splitEvery_flatten limit hlim _

/-- the numbers of a list of items, concatenated -/
def itemNums : List Item → List Nat
  | [] => []
  | .nums xs :: rest => xs ++ itemNums rest
  | _ :: rest => itemNums rest

theorem itemNums_append (a b : List Item) : itemNums (a ++ b) = itemNums a ++ itemNums b := by
  induction a with
  | nil => rfl
  | cons it a ih => cases it <;> simp [itemNums, ih]

theorem itemNums_map_nums (l : List (List Nat)) : itemNums (l.map .nums) = l.flatten := by
  induction l with
  | nil => rfl
  | cons x l ih => simp [itemNums, ih]

/-- the concatenation of all batches of the file is what the specification decoder assigns to the
file (and what `simple_decompress` returns): `(fileVals d f.toD).flatten` -/
theorem file_nums (limit : Nat) (hlim : 1 ≤ limit) :
    itemNums (expectedItems d f limit) = (fileVals d f.toD).flatten := by
  simp only [expectedItems, itemNums_append, itemNums, List.nil_append, List.append_nil, fileVals,
    AFile.toD, List.map_map]
  induction f.chunks with
  | nil => rfl
  | cons c cs ih =>
    simp only [List.flatMap_cons, itemNums_append, itemNums, itemNums_map_nums,
      splitEvery_flatten limit hlim, ih, List.map_cons, List.flatten_cons, Function.comp]



end C04
end Qco
