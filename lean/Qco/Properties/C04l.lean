/-
C04l — the streaming iterator of the LITERAL decompressor on a complete file.

C04 restated for `Qco.DecompLit` (`Qco/Op/DecompLit.lean`), the statement-level model of `Decompressor<T>`:
`DecompLit.next` is `Iterator::next` (with `numbers_limit_per_item = limit`), `DecompLit.drainIter` is
`for item in &mut decompressor` (it calls `next` until `None` or an error).  With the bytes of a well-formed file
written to `Decompressor::default()`, for every batch limit `≥ 1` the iterator yields exactly

  the flags, then per chunk: its metadata and its numbers in consecutive batches of `limit` (the last one
  shorter), then the footer

(`DecompLit.expectedItems`, in the literal vocabulary `DecompressedItem::{Flags, ChunkMetadata, Numbers, Footer}`;
the metadata item is the literal `ChunkMetadata` struct `RMeta.ofSpec flags meta` of the chunk's metadata as
written), without error; it ends terminated with everything consumed, and yields `None` forever after.

The abstract decompressor (C04, C04s) and the refinement layer DL (C08d) appear only in the proofs.
Hypotheses that remain: `d ∈ Frozen.dtypes`, `f.WF gb d`, `∀ x, gb x ≤ d.uBits`, the file is shorter than `2^56`
bytes, `1 ≤ limit`, and the fuel of `drainIter` (a bound on the number of calls) exceeds the number of items.
Property theorems only; helper lemmas in `Qco/Lemmas/LitCor/*.lean`.
-/
import Qco.Lemmas.LitCor.Examples
import Qco.Properties.C04s
namespace Qco
namespace C04l
open Qco.WB Qco.Op Qco.MetaIO Qco.DecompLit

variable {d : DType} {gb : Nat → Nat}

/-- **the literal iterator yields exactly the items of the file**, for every batch limit `≥ 1`; no error; the
final state is terminated and everything written has been consumed -/
theorem literal_iter_items (hd : d ∈ Frozen.dtypes) (hgb : ∀ x, gb x ≤ d.uBits) (f : AFile) (h : f.WF gb d)
    (hlen : (fileBytes gb d f).length < 2 ^ 56) (limit : Nat) (hlim : 1 ≤ limit)
    (fuel : Nat) (hfuel : (DecompLit.expectedItems d f limit).length < fuel) :
    ∃ σ', DecompLit.drainIter gb d limit fuel (DecompLit.write LitSt.init (fileBytes gb d f)) []
        = (DecompLit.expectedItems d f limit, none, σ') ∧
      σ'.state.terminated = true ∧ DecompLit.bitIdx σ' = 8 * (fileBytes gb d f).length := by
  have hs := file_sim0 h
  have hz := file_size0 h hlen
  rw [← litItems_expected, litItems_length] at hfuel
  obtain ⟨a', ha, hterm, hrest⟩ := C04.iter_items_stride gb d f h limit hlim fuel hfuel
  obtain ⟨itsA, e1, e2, e3, e4, _, _⟩ := drainIter_refines (dok_of_mem hd) hgb limit fuel hs hz [] []
  have hw := drainIter_words gb d limit fuel (DecompLit.write LitSt.init (fileBytes gb d f)) []
  rw [ha] at e1 e3 e4
  simp only [List.reverse_nil, List.nil_append] at e1 e2
  subst e1
  have hfl : (Op.write St.init (encodeFile gb d f)).flags = none := rfl
  rw [hfl, litItems_expected] at e2
  generalize DecompLit.drainIter gb d limit fuel (DecompLit.write LitSt.init (fileBytes gb d f)) [] = D at e2 e3 e4 hw ⊢
  obtain ⟨its, eo, σ'⟩ := D
  simp only at e2 e3 e4 hw
  subst e2
  cases eo with
  | some k => exact e3.elim
  | none =>
    refine ⟨σ', rfl, by rw [e4.term]; exact hterm, ?_⟩
    unfold DecompLit.bitIdx
    rw [e4.consumed hrest, hw, written_total _ fileBytes_lt]

/-- **after the footer the literal iterator yields `None` and does not change the decompressor**, whatever is
written afterwards — on every state, directly on the literal model -/
theorem literal_after_footer_none (gb : Nat → Nat) (d : DType) (limit : Nat) (σ : LitSt)
    (h : σ.state.terminated = true) : DecompLit.next gb d limit σ = (.ok none, σ) := by
  obtain ⟨w, ⟨bi, fl, cb, t⟩⟩ := σ
  simp only at h
  subst h
  unfold DecompLit.next DecompLit.withReader
  simp only [if_true, seekTo_bitIdx]

/-! ### corollaries about the batches -/

/-- every `Numbers` item is non-empty and has at most `limit` numbers -/
theorem batch_nonempty_le (f : AFile) (limit : Nat) (hlim : 1 ≤ limit) (xs : List Nat)
    (hx : DecompLit.Item.numbers xs ∈ DecompLit.expectedItems d f limit) : xs ≠ [] ∧ xs.length ≤ limit := by
  simp [DecompLit.expectedItems] at hx
  obtain ⟨c, _, hp⟩ := hx
  exact C04.splitEvery_mem limit hlim _ xs hp

/-- the numbers of a list of literal items, concatenated -/
def itemNums : List DecompLit.Item → List Nat
  | [] => []
  | .numbers xs :: rest => xs ++ itemNums rest
  | _ :: rest => itemNums rest

theorem itemNums_append (a b : List DecompLit.Item) : itemNums (a ++ b) = itemNums a ++ itemNums b := by
  induction a with
  | nil => rfl
  | cons it a ih => cases it <;> simp [itemNums, ih]

theorem itemNums_map_numbers (l : List (List Nat)) : itemNums (l.map DecompLit.Item.numbers) = l.flatten := by
  induction l with
  | nil => rfl
  | cons x l ih => simp [itemNums, ih]

/-- the concatenation of all batches is what the specification assigns to the file (and what
`simple_decompress` returns, C03l) -/
theorem file_nums (f : AFile) (limit : Nat) (hlim : 1 ≤ limit) :
    itemNums (DecompLit.expectedItems d f limit) = (fileVals d f.toD).flatten := by
  simp only [DecompLit.expectedItems, itemNums_append, itemNums, List.nil_append, List.append_nil, fileVals,
    AFile.toD, List.map_map]
  induction f.chunks with
  | nil => rfl
  | cons c cs ih =>
    simp only [List.flatMap_cons, itemNums_append, itemNums, itemNums_map_numbers,
      C04.splitEvery_flatten limit hlim, ih, List.map_cons, List.flatten_cons, Function.comp]

/-! ### non-vacuity: `C08d.deltaFile` -/

open C08d (i32 gbx i32_mem gbx_le deltaFile)

/-- what the theorem says about `deltaFile` with `numbers_limit_per_item = 4` -/
theorem delta_items : DecompLit.expectedItems i32 deltaAFile 4 =
    [.flags deltaFlags, .chunkMetadata (RMeta.ofSpec deltaFlags deltaChunk.fixedMeta), .numbers [5, 4, 4, 8],
     .numbers [9, 13], .footer] := by
  have hv : chunkVals i32 deltaFlags deltaChunk.toD = [5, 4, 4, 8, 9, 13] := by decide
  have hs : C04.splitEvery 4 [5, 4, 4, 8, 9, 13] = [[5, 4, 4, 8], [9, 13]] := by
    rw [C04.splitEvery_ne_nil 4 (by decide) _ (by simp), C04.splitEvery_ne_nil 4 (by decide) _ (by simp)]
    simp [C04.splitEvery_nil]
  simp [DecompLit.expectedItems, deltaAFile, hv, hs]

example : ∃ σ', DecompLit.drainIter gbx i32 4 10 (DecompLit.write LitSt.init deltaFile) []
      = ([.flags deltaFlags, .chunkMetadata (RMeta.ofSpec deltaFlags deltaChunk.fixedMeta), .numbers [5, 4, 4, 8],
          .numbers [9, 13], .footer], none, σ') ∧
    σ'.state.terminated = true ∧ DecompLit.bitIdx σ' = 336 := by
  have := literal_iter_items i32_mem gbx_le deltaAFile deltaAFile_wf deltaFile_small 4 (by decide) 10
    (by rw [delta_items]; decide)
  rw [deltaAFile_bytes, delta_items] at this
  exact this

-- the literal model computes the same (evaluation), for every limit from 1 to 7
#guard (List.range 7).all fun l =>
  (DecompLit.drainIter gbx i32 (l + 1) 20 (DecompLit.write LitSt.init deltaFile) []).1
    == DecompLit.expectedItems i32 deltaAFile (l + 1)
#guard (DecompLit.drainIter gbx i32 4 10 (DecompLit.write LitSt.init deltaFile) []).2.2.state.terminated
#guard (match DecompLit.drainIter gbx i32 4 10 (DecompLit.write LitSt.init deltaFile) [] with
  | (_, _, σ') => (DecompLit.next gbx i32 4 (DecompLit.write σ' [1, 2, 3])).1 == .ok none)

end C04l
end Qco
