/-
C04/C05 instantiated for the model of the real Huffman lookup (`Op.matchStride`).
-/
import Qco.Properties.C04
import Qco.Properties.C05
import Qco.Lemmas.Stride
namespace Qco
namespace C04
open Op

theorem iter_items_stride (gb : Nat → Nat) (d : DType) (f : AFile) (h : f.WF gb d) (limit : Nat) (hlim : 1 ≤ limit)
    (fuel : Nat) (hf : (expectedItems d f limit).length < fuel) :
    ∃ σ', drainIter matchStride gb d limit fuel (write St.init (encodeFile gb d f)) [] = (expectedItems d f limit, none, σ')
      ∧ σ'.terminated = true ∧ σ'.rest = [] :=
  iter_items matchStride matchStride_weakLazyOf h limit hlim fuel hf

end C04
end Qco
