/-
C05 — incremental input: split invariance of the streaming decompressor. Property theorems only.

The user of `Decompressor` interleaves `write` (whole bytes), draining the iterator, and
`free_compressed_memory` in any way (`Step`, `runSched`). For every lookup `L` with `Op.WeakLazyOf L`
(no monotonicity of the lookup in the available data is assumed),
every `gb`, data type, well-formed file and batch limit `≥ 1`:

* `split_invariance`: whatever the cuts of the file into written pieces (inside the magic header,
  the flags, chunk metadata, a Huffman code, a run-length count, an offset, the padding) and wherever
  `free` and intermediate drains are placed, if the schedule drains after its last write then no
  call returns an error, and the items yielded are, up to where the number batches are cut
  (`canon`), the items of the complete-file run of C04 — nothing is lost, duplicated or reordered;
  the final state is terminated with no unread bits.
* `free_only_shifts_bit_idx` (and the `*_setFreed` lemmas): no operation reads `freed` except
  `bit_idx`; every operation commutes with changing `freed`, so `free` changes no later result and
  states differ by the `freed` field only; `bit_idx` changes by a multiple of 64.
-/
import Qco.Lemmas.StreamSched
import Qco.Properties.C04
namespace Qco
namespace C05
open Op _root_.Qco.Stream C04

variable {gb : Nat → Nat} {d : DType} {f : AFile}

/-- C05: split invariance. `fuel` (the bound on the iterator calls of one drain) only has to
exceed `itemBound f` = numbers + chunks + 2. -/
theorem split_invariance (L : Matcher) (hL : WeakLazyOf L) (h : f.WF gb d) (limit : Nat) (hlim : 1 ≤ limit)
    (fuel : Nat) (hfuel : itemBound f < fuel) (sched : List Step) (hwb : wholeBytes sched)
    (hw : written sched = encodeFile gb d f)
    (hfd : ∃ pre post, sched = pre ++ .drain :: post ∧ written post = []) :
    ∃ items σ', runSched L gb d limit fuel sched St.init [] = (items, none, σ') ∧
      canon items = canon (expectedItems d f limit) ∧ σ'.terminated = true ∧ σ'.rest = [] := by
  obtain ⟨pre, post, hs, hp⟩ := hfd
  have hinv : Inv gb d f .start St.init (written sched) := ⟨rfl, rfl, rfl, rfl, by rw [hw]; rfl⟩
  have hal : Al St.init := by simp [Al, St.init]
  obtain ⟨items, p', σ', hr, hi, _, _, hc, hd⟩ :=
    run_inv L hL limit hlim h fuel sched hwb .start St.init [] hinv hal (by rw [meas_start]; exact hfuel)
  have hp' := hd (by rw [hs]; exact finalDrain_of_split pre post hp)
  subst hp'
  refine ⟨items, σ', by simpa using hr, ?_, hi.1, by simpa using hi.2⟩
  rw [expectedItems_eq, ← hc]
  simp [remItems]

/-- `split_invariance` for the stronger hypothesis `LazyOf` -/
theorem split_invariance_of_lazyOf (L : Matcher) (hL : LazyOf L) (h : f.WF gb d) (limit : Nat)
    (hlim : 1 ≤ limit) (fuel : Nat) (hfuel : itemBound f < fuel) (sched : List Step)
    (hwb : wholeBytes sched) (hw : written sched = encodeFile gb d f)
    (hfd : ∃ pre post, sched = pre ++ .drain :: post ∧ written post = []) :
    ∃ items σ', runSched L gb d limit fuel sched St.init [] = (items, none, σ') ∧
      canon items = canon (expectedItems d f limit) ∧ σ'.terminated = true ∧ σ'.rest = [] :=
  split_invariance L hL.weak h limit hlim fuel hfuel sched hwb hw hfd

theorem itemNums_canon (l : List Item) : itemNums (canon l) = itemNums l := by
  induction l with
  | nil => rfl
  | cons it l ih =>
    cases it with
    | nums xs =>
      simp only [canon, itemNums]
      rw [← ih]
      cases canon l with
      | nil => rfl
      | cons it2 r => cases it2 <;> simp [itemNums]
    | flags fl => simp only [canon, itemNums, ih]
    | meta_ m => simp only [canon, itemNums, ih]
    | footer => simp only [canon, itemNums, ih]

/-- C05, the numbers: whatever the schedule, the numbers yielded, concatenated, are the numbers of
the file -/
theorem split_invariance_nums (L : Matcher) (hL : WeakLazyOf L) (h : f.WF gb d) (limit : Nat)
    (hlim : 1 ≤ limit) (fuel : Nat) (hfuel : itemBound f < fuel) (sched : List Step)
    (hwb : wholeBytes sched) (hw : written sched = encodeFile gb d f)
    (hfd : ∃ pre post, sched = pre ++ .drain :: post ∧ written post = []) :
    ∃ items σ', runSched L gb d limit fuel sched St.init [] = (items, none, σ') ∧
      itemNums items = (fileVals d f.toD).flatten := by
  obtain ⟨items, σ', hr, hc, _, _⟩ := split_invariance L hL h limit hlim fuel hfuel sched hwb hw hfd
  refine ⟨items, σ', hr, ?_⟩
  rw [← itemNums_canon, hc, itemNums_canon, file_nums limit hlim]

/-- the canonical items of a file: per chunk its metadata and (if it has any) all its values -/
def canonItems (d : DType) (f : AFile) : List Item :=
  .flags f.flags :: (f.chunks.flatMap fun c =>
    .meta_ c.fixedMeta ::
      (if chunkVals d f.flags c.toD = [] then [] else [.nums (chunkVals d f.flags c.toD)])) ++ [.footer]

theorem canon_chunks (limit : Nat) (hlim : 1 ≤ limit) (fl : Flags) (cs : List AChunk) :
    canon (cs.flatMap (fun c =>
        .meta_ c.fixedMeta :: (splitEvery limit (chunkVals d fl c.toD)).map .nums) ++ [.footer])
      = cs.flatMap (fun c => .meta_ c.fixedMeta ::
          (if chunkVals d fl c.toD = [] then [] else [.nums (chunkVals d fl c.toD)])) ++ [.footer] := by
  induction cs with
  | nil => rfl
  | cons c cs ih =>
    rw [List.flatMap_cons, List.flatMap_cons, List.cons_append, List.cons_append, List.append_assoc]
    simp only [canon]
    congr 1
    rw [canon_split' limit hlim, ih]
    by_cases hv : chunkVals d fl c.toD = []
    · simp only [hv, if_true]; rfl
    · simp only [hv, if_false, canon]
      rw [ih]
      cases cs with
      | nil => rfl
      | cons c2 cs2 => rfl

/-- the canonical form of the complete-file items does not depend on the batch limit -/
theorem canon_expected (limit : Nat) (hlim : 1 ≤ limit) :
    canon (expectedItems d f limit) = canonItems d f := by
  simp only [expectedItems, canonItems, List.cons_append, canon, List.nil_append]
  rw [canon_chunks limit hlim]

/-! ### `free_compressed_memory` -/

/-- forget how much compressed memory was released -/
def erase (σ : St) : St := { σ with freed := 0 }

def setFreed (x : Nat) (σ : St) : St := { σ with freed := x }

theorem erase_eq (σ : St) : erase σ = setFreed 0 σ := rfl

theorem free_eq (σ : St) : Op.free σ = setFreed (σ.freed + 64 * (σ.bitIdx / 64)) σ := rfl

theorem withReader_setFreed {α : Type} (x : Nat) (σ : St) (F : Rd → St → Out α × St × Rd)
    (hF : ∀ rd, F rd (setFreed x σ) = ((F rd σ).1, setFreed x (F rd σ).2.1, (F rd σ).2.2)) :
    Op.withReader (setFreed x σ) F = ((Op.withReader σ F).1, setFreed x (Op.withReader σ F).2) := by
  unfold Op.withReader
  have := hF { bits := σ.rest, pos := σ.pos }
  simp only [setFreed] at this ⊢
  rw [this]
  rcases F { bits := σ.rest, pos := σ.pos } σ with ⟨o, s', r'⟩
  cases o <;> rfl

/-- `Iterator::next` does not read `freed` and does not change it -/
theorem next_setFreed (L : Matcher) (gb : Nat → Nat) (d : DType) (limit : Nat) (x : Nat) (σ : St) :
    Op.next L gb d limit (setFreed x σ)
      = ((Op.next L gb d limit σ).1, setFreed x (Op.next L gb d limit σ).2) := by
  unfold Op.next
  apply withReader_setFreed
  intro rd
  obtain ⟨rest, pos, freed, flags, body, terminated⟩ := σ
  simp only [setFreed]
  cases terminated with
  | true => rfl
  | false =>
    simp only [Bool.false_eq_true, if_false]
    cases flags with
    | none =>
      simp only
      cases runAligned (decHeader d) rd with
      | ok v => rfl
      | err e => cases e <;> rfl
    | some fl =>
      simp only
      cases body with
      | none =>
        simp only
        cases runAligned (readChunkMeta gb d fl) rd with
        | err e => cases e <;> rfl
        | ok v =>
          obtain ⟨m, rd'⟩ := v
          cases m with
          | none => rfl
          | some m =>
            simp only
            cases newBody fl m with
            | err e => rfl
            | ok b =>
              simp only
              split
              · rcases nextBatch L d b limit false rd' with ⟨o, b', rd''⟩
                cases o <;> rfl
              · rfl
      | some b =>
        simp only
        rcases nextBatch L d b limit false rd with ⟨o, b', rd'⟩
        cases o with
        | err e => rfl
        | ok nb =>
          simp only
          split <;> rfl

theorem write_setFreed (x : Nat) (σ : St) (bits : Bits) :
    Op.write (setFreed x σ) bits = setFreed x (Op.write σ bits) := rfl

theorem setFreed_setFreed (x y : Nat) (σ : St) : setFreed x (setFreed y σ) = setFreed x σ := rfl

/-- draining the iterator does not read `freed` and does not change it -/
theorem drainIter_setFreed (L : Matcher) (gb : Nat → Nat) (d : DType) (limit : Nat) (x : Nat)
    (fuel : Nat) (σ : St) (acc : List Item) :
    Op.drainIter L gb d limit fuel (setFreed x σ) acc
      = ((Op.drainIter L gb d limit fuel σ acc).1, (Op.drainIter L gb d limit fuel σ acc).2.1,
         setFreed x (Op.drainIter L gb d limit fuel σ acc).2.2) := by
  induction fuel generalizing σ acc with
  | zero => rfl
  | succ fuel ih =>
    simp only [Op.drainIter, next_setFreed]
    rcases Op.next L gb d limit σ with ⟨o, σ'⟩
    cases o with
    | err e => rfl
    | ok v =>
      cases v with
      | none => rfl
      | some it => exact ih σ' (it :: acc)

/-- C05: `free_compressed_memory` changes no later result. `Op.free` only changes `freed`
(`erase (free σ) = erase σ`); `next`, `write`, `drainIter` commute with `erase`; and the reported
`bit_idx` after `free` is smaller by a multiple of 64 -/
theorem free_only_shifts_bit_idx (L : Matcher) (gb : Nat → Nat) (d : DType) (limit : Nat) (σ : St) :
    erase (Op.free σ) = erase σ ∧
    (Op.free σ).bitIdx + 64 * (σ.bitIdx / 64) = σ.bitIdx ∧
    (∀ τ, Op.next L gb d limit (erase τ)
        = ((Op.next L gb d limit τ).1, erase (Op.next L gb d limit τ).2)) ∧
    (∀ τ bits, Op.write (erase τ) bits = erase (Op.write τ bits)) ∧
    (∀ τ fuel acc, Op.drainIter L gb d limit fuel (erase τ) acc
        = ((Op.drainIter L gb d limit fuel τ acc).1, (Op.drainIter L gb d limit fuel τ acc).2.1,
           erase (Op.drainIter L gb d limit fuel τ acc).2.2)) := by
  refine ⟨rfl, ?_, fun τ => next_setFreed L gb d limit 0 τ, fun _ _ => rfl,
    fun τ fuel acc => drainIter_setFreed L gb d limit 0 fuel τ acc⟩
  simp only [Op.free, St.bitIdx]
  omega

/-- in particular: the next item after `free` is the one without it, and the states differ by
the `freed` field only -/
theorem next_free (L : Matcher) (gb : Nat → Nat) (d : DType) (limit : Nat) (σ : St) :
    Op.next L gb d limit (Op.free σ)
      = ((Op.next L gb d limit σ).1,
         setFreed (σ.freed + 64 * (σ.bitIdx / 64)) (Op.next L gb d limit σ).2) := by
  rw [free_eq, next_setFreed]

/-! ### the committed position is monotone; `bit_idx` after `free` -/

theorem numBatchDirty_pos_le (L : Matcher) (b : Body) (limit : Nat) (eoi : Bool) (rd : Rd) :
    rd.pos ≤ (numBatchDirty L b limit eoi rd).2.2.pos := by
  unfold numBatchDirty
  simp only
  split
  · exact Nat.le_refl _
  · split <;> (try split) <;> simp [Rd.advance]

theorem drainEmptyByte_pos_le (rd rd' : Rd) (h : drainEmptyByte rd = .ok rd') : rd.pos ≤ rd'.pos := by
  unfold drainEmptyByte at h
  simp only at h
  split at h
  · cases h
  · injection h with h; subst h; simp

theorem numBatch_pos_le (L : Matcher) (b : Body) (limit : Nat) (eoi : Bool) (rd : Rd) :
    rd.pos ≤ (numBatch L b limit eoi rd).2.2.pos := by
  have h1 := numBatchDirty_pos_le L b limit eoi rd
  unfold numBatch
  generalize numBatchDirty L b limit eoi rd = D at h1 ⊢
  obtain ⟨o, st', rd'⟩ := D
  cases o with
  | err e => exact Nat.le_refl _
  | ok ub =>
    simp only at h1 ⊢
    cases hf : ub.finished with
    | false => simp [h1]
    | true =>
      simp only [if_true]
      cases hd : drainEmptyByte rd' with
      | err e => exact Nat.le_refl _
      | ok rd'' =>
        have := drainEmptyByte_pos_le _ _ hd
        simp only
        split
        · exact Nat.le_refl _
        · simp only; omega

theorem nextBatch_pos_le (L : Matcher) (d : DType) (b : Body) (limit : Nat) (eoi : Bool) (rd : Rd) :
    rd.pos ≤ (nextBatch L d b limit eoi rd).2.2.pos := by
  have h1 := numBatch_pos_le L b limit eoi rd
  unfold nextBatch
  generalize numBatch L b limit eoi rd = D at h1 ⊢
  obtain ⟨o, st', rd'⟩ := D
  cases o with
  | err e => exact h1
  | ok ub =>
    simp only at h1 ⊢
    split <;> exact h1


theorem runAligned_pos_le {α : Type} (p : Parser α) (rd : Rd) (a : α) (rd' : Rd)
    (h : runAligned p rd = .ok (a, rd')) : rd.pos ≤ rd'.pos := by
  unfold runAligned runParser at h
  split at h
  · cases h
  · split at h
    · injection h with h; injection h with _ h; subst h; simp [Rd.advance]
    · cases h

theorem withReader_pos_le {α : Type} (σ : St) (F : Rd → St → Out α × St × Rd)
    (hF : ∀ rd, (F rd σ).2.1.pos = σ.pos ∧ rd.pos ≤ (F rd σ).2.2.pos) :
    σ.pos ≤ (Op.withReader σ F).2.pos := by
  unfold Op.withReader
  have := hF { bits := σ.rest, pos := σ.pos }
  simp only
  generalize F { bits := σ.rest, pos := σ.pos } σ = R at this ⊢
  obtain ⟨o, s', r'⟩ := R
  cases o with
  | ok a => exact this.2
  | err e => simp only at this ⊢; omega

/-- the committed position never moves backwards -/
theorem next_pos_le (L : Matcher) (gb : Nat → Nat) (d : DType) (limit : Nat) (σ : St) :
    σ.pos ≤ (Op.next L gb d limit σ).2.pos := by
  unfold Op.next
  apply withReader_pos_le
  intro rd
  obtain ⟨rest, pos, freed, flags, body, terminated⟩ := σ
  simp only
  cases terminated with
  | true => exact ⟨rfl, Nat.le_refl _⟩
  | false =>
    simp only [Bool.false_eq_true, if_false]
    cases flags with
    | none =>
      simp only
      cases hr : runAligned (decHeader d) rd with
      | ok v => obtain ⟨fl, rd'⟩ := v; exact ⟨rfl, runAligned_pos_le _ _ _ _ hr⟩
      | err e => cases e <;> exact ⟨rfl, Nat.le_refl _⟩
    | some fl =>
      simp only
      cases body with
      | none =>
        simp only
        cases hr : runAligned (readChunkMeta gb d fl) rd with
        | err e => cases e <;> exact ⟨rfl, Nat.le_refl _⟩
        | ok v =>
          obtain ⟨m, rd'⟩ := v
          have h1 := runAligned_pos_le _ _ _ _ hr
          cases m with
          | none => exact ⟨rfl, h1⟩
          | some m =>
            simp only
            cases newBody fl m with
            | err e => exact ⟨rfl, h1⟩
            | ok b =>
              simp only
              by_cases hn : m.n = 0
              · simp only [hn, if_true]
                have h2 := nextBatch_pos_le L d b limit false rd'
                generalize nextBatch L d b limit false rd' = R at h2 ⊢
                obtain ⟨o, b', rd''⟩ := R
                cases o with
                | err e => exact ⟨rfl, by simp only at h2 ⊢; omega⟩
                | ok nb => exact ⟨rfl, by simp only at h2 ⊢; omega⟩
              · simp only [hn, if_false]
                exact ⟨trivial, h1⟩
      | some b =>
        simp only
        have h2 := nextBatch_pos_le L d b limit false rd
        generalize nextBatch L d b limit false rd = R at h2 ⊢
        obtain ⟨o, b', rd'⟩ := R
        cases o with
        | err e => exact ⟨rfl, h2⟩
        | ok nb =>
          simp only at h2 ⊢
          cases nb.nums.isEmpty with
          | true => exact ⟨rfl, h2⟩
          | false => exact ⟨rfl, h2⟩

/-- after `free`, the `bit_idx` reported after the next call is smaller by the same multiple of 64 -/
theorem next_free_bitIdx (L : Matcher) (gb : Nat → Nat) (d : DType) (limit : Nat) (σ : St) :
    (Op.next L gb d limit (Op.free σ)).2.bitIdx + 64 * (σ.bitIdx / 64)
      = (Op.next L gb d limit σ).2.bitIdx := by
  have h1 := next_pos_le L gb d limit σ
  have h2 : (Op.next L gb d limit σ).2.freed = σ.freed := by
    have := next_setFreed L gb d limit σ.freed σ
    have e : setFreed σ.freed σ = σ := rfl
    rw [e] at this
    have := congrArg (fun r => r.2.freed) this
    simpa [setFreed] using this
  rw [next_free]
  simp only [St.bitIdx, setFreed] at h1 h2 ⊢
  omega


/-! ### `free` anywhere in a schedule -/

/-- running a schedule does not read `freed`: from states that differ in `freed` only, the items and
the error are the same and the final states differ in `freed` only -/
theorem runSched_setFreed (L : Matcher) (gb : Nat → Nat) (d : DType) (limit fuel : Nat)
    (sched : List Step) (σ : St) (acc : List Item) (x : Nat) :
    ∃ y, runSched L gb d limit fuel sched (setFreed x σ) acc
      = ((runSched L gb d limit fuel sched σ acc).1, (runSched L gb d limit fuel sched σ acc).2.1,
         setFreed y (runSched L gb d limit fuel sched σ acc).2.2) := by
  induction sched generalizing σ acc x with
  | nil => exact ⟨x, rfl⟩
  | cons s rest ih =>
    cases s with
    | write bits => exact ih (Op.write σ bits) acc x
    | free =>
      obtain ⟨y, hy⟩ := ih (Op.free σ) acc (x + 64 * ((setFreed x σ).bitIdx / 64))
      exact ⟨y, hy⟩
    | drain =>
      simp only [runSched, drainIter_setFreed]
      generalize Op.drainIter L gb d limit fuel σ [] = D
      obtain ⟨its, e, σ'⟩ := D
      cases e with
      | none => exact ih σ' (acc ++ its) x
      | some e => exact ⟨x, rfl⟩

/-- the schedule without its `free` steps -/
def noFree : List Step → List Step
  | [] => []
  | .free :: rest => noFree rest
  | s :: rest => s :: noFree rest

/-- C05: wherever `free_compressed_memory` is called, the items and the error are those of the
schedule without the calls, and the final state differs in `freed` only -/
theorem free_irrelevant (L : Matcher) (gb : Nat → Nat) (d : DType) (limit fuel : Nat)
    (sched : List Step) (σ : St) (acc : List Item) :
    ∃ y, runSched L gb d limit fuel sched σ acc
      = ((runSched L gb d limit fuel (noFree sched) σ acc).1,
         (runSched L gb d limit fuel (noFree sched) σ acc).2.1,
         setFreed y (runSched L gb d limit fuel (noFree sched) σ acc).2.2) := by
  induction sched generalizing σ acc with
  | nil => exact ⟨σ.freed, rfl⟩
  | cons s rest ih =>
    cases s with
    | write bits => exact ih (Op.write σ bits) acc
    | free =>
      obtain ⟨y, hy⟩ := runSched_setFreed L gb d limit fuel rest σ acc (σ.freed + 64 * (σ.bitIdx / 64))
      obtain ⟨y', hy'⟩ := ih σ acc
      refine ⟨y, ?_⟩
      show runSched L gb d limit fuel rest (setFreed _ σ) acc = _
      rw [hy, hy']
      rfl
    | drain =>
      simp only [runSched, noFree]
      generalize Op.drainIter L gb d limit fuel σ [] = D
      obtain ⟨its, e, σ'⟩ := D
      cases e with
      | none => exact ih σ' (acc ++ its)
      | some e => exact ⟨σ'.freed, rfl⟩


end C05
end Qco
