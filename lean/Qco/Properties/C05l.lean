/-
C05l — incremental input: split invariance of the LITERAL streaming decompressor.

C05 restated for `Qco.DecompLit` (`Qco/Op/DecompLit.lean`), the statement-level model of `Decompressor<T>` over
64-bit word buffers.  The user interleaves `write` (any bytes, in any pieces), draining the iterator
(`DecompLit.drainIter`: `next` until `None`) and `free_compressed_memory` in any way (`DecompLit.LStep`,
`DecompLit.runSched`, the literal counterpart of C05's schedules).  For every well-formed file, every batch limit
`≥ 1` and every schedule that writes the bytes of the file and drains after its last write:

* `literal_split_invariance`: no call returns an error (or panics), and the items yielded are, up to where the
  `Numbers` batches are cut (`DecompLit.canon` merges adjacent `Numbers`), the canonical items of the file
  (`DecompLit.canonItems`: flags, per chunk its metadata and all its numbers, footer) — the same as for
  write-all-then-drain (`literal_canon_complete`, with C04l) — nothing lost, duplicated or reordered; the run ends
  terminated with everything consumed.  Here the cuts fall anywhere: inside the magic header, the flags, chunk
  metadata, a Huffman code, an offset, the padding; and `free_compressed_memory` (which really drops words and
  shifts `bit_idx` in the literal model) may be called at any point.
* `literal_free_only_shifts`: on every reachable state `free_compressed_memory` answers `Ok`, changes nothing of the
  state but `bit_idx`, which drops by a multiple of 64 (to its remainder modulo 64), and the unread bits are the same.

The abstract decompressor (C05) and the refinement layer DL (C08d) appear only in the proofs.  Hypotheses that
remain: `d ∈ Frozen.dtypes`, `f.WF gb d`, `∀ x, gb x ≤ d.uBits`, what is written are bytes (`SchedOk`), the size
side-condition (`schedWords` counts `len / 8 + 1` words per `write`; fewer than about `2^57` words), `1 ≤ limit`,
and the fuel of one drain exceeds `C05.itemBound f` = numbers + chunks + 2.  Property theorems only.
-/
import Qco.Lemmas.LitCor.Sched
import Qco.Lemmas.LitCor.Examples
import Qco.Properties.C04l
namespace Qco
namespace C05l
open Qco.WB Qco.Op Qco.MetaIO Qco.DecompLit

variable {d : DType} {gb : Nat → Nat}

/-- **split invariance of the literal decompressor** -/
theorem literal_split_invariance (hd : d ∈ Frozen.dtypes) (hgb : ∀ x, gb x ≤ d.uBits) (f : AFile) (h : f.WF gb d)
    (limit : Nat) (hlim : 1 ≤ limit) (fuel : Nat) (hfuel : C05.itemBound f < fuel)
    (sched : List LStep) (hok : SchedOk sched) (hw : writtenBytes sched = fileBytes gb d f)
    (hsize : 128 * schedWords sched + 2 ^ 36 < USIZE)
    (hfd : ∃ pre post, sched = pre ++ .drain :: post ∧ writtenBytes post = []) :
    ∃ items σ', DecompLit.runSched gb d limit fuel sched LitSt.init [] = (items, none, σ') ∧
      DecompLit.canon items = DecompLit.canonItems d f ∧
      σ'.state.terminated = true ∧ σ'.state.bitIdx = σ'.words.total := by
  obtain ⟨pre, post, hsp, hpost⟩ := hfd
  obtain ⟨itemsA, a', ha, hcanon, hterm, hrest⟩ :=
    C05.split_invariance matchStride matchStride_weakLazyOf h limit hlim fuel hfuel (absSched sched)
      (wholeBytes_absSched sched) (by rw [written_absSched, hw, fileBytes_bits h])
      ⟨absSched pre, absSched post, by rw [hsp, absSched_append]; rfl, by
        rw [written_absSched, hpost]; rfl⟩
  obtain ⟨its, e1, e2, e3, e4⟩ := runSched_refines hd hgb limit fuel none sched hok [] (sim_init d)
    (by show 0 + 128 * (0 + schedWords sched) + 2 ^ 36 < USIZE; omega) rfl
  rw [ha] at e1 e3 e4
  simp only at e1 e3 e4
  subst e1
  have hl : litItems none ([] : List Op.Item) = [] := rfl
  rw [hl] at e2 e3 e4
  generalize DecompLit.runSched gb d limit fuel sched LitSt.init [] = RL at e2 e3 e4 ⊢
  obtain ⟨itemsL, eo, σ'⟩ := RL
  simp only at e2 e3 e4
  subst e2
  cases eo with
  | some k => exact e3.elim
  | none =>
    refine ⟨_, σ', rfl, ?_, by rw [e4.term]; exact hterm, e4.consumed hrest⟩
    rw [canon_litItems, hcanon, C05.canon_expected limit hlim, litItems_canonItems]

/-- the canonical form of the items of write-all-then-drain (C04l) does not depend on the batch limit and is
`canonItems` -/
theorem literal_canon_complete (f : AFile) (limit : Nat) (hlim : 1 ≤ limit) :
    DecompLit.canon (DecompLit.expectedItems d f limit) = DecompLit.canonItems d f := by
  rw [← litItems_expected, canon_litItems, C05.canon_expected limit hlim, litItems_canonItems]

theorem itemNums_canon (l : List DecompLit.Item) : C04l.itemNums (DecompLit.canon l) = C04l.itemNums l := by
  induction l with
  | nil => rfl
  | cons it l ih =>
    cases it with
    | numbers xs =>
      simp only [DecompLit.canon, C04l.itemNums]
      rw [← ih]
      cases DecompLit.canon l with
      | nil => rfl
      | cons it2 r => cases it2 <;> simp [C04l.itemNums]
    | flags fl => simp only [DecompLit.canon, C04l.itemNums, ih]
    | chunkMetadata m => simp only [DecompLit.canon, C04l.itemNums, ih]
    | footer => simp only [DecompLit.canon, C04l.itemNums, ih]

/-- the numbers: whatever the schedule, the numbers yielded, concatenated, are the numbers of the file -/
theorem literal_split_invariance_nums (hd : d ∈ Frozen.dtypes) (hgb : ∀ x, gb x ≤ d.uBits) (f : AFile)
    (h : f.WF gb d) (limit : Nat) (hlim : 1 ≤ limit) (fuel : Nat) (hfuel : C05.itemBound f < fuel)
    (sched : List LStep) (hok : SchedOk sched) (hw : writtenBytes sched = fileBytes gb d f)
    (hsize : 128 * schedWords sched + 2 ^ 36 < USIZE)
    (hfd : ∃ pre post, sched = pre ++ .drain :: post ∧ writtenBytes post = []) :
    ∃ items σ', DecompLit.runSched gb d limit fuel sched LitSt.init [] = (items, none, σ') ∧
      C04l.itemNums items = (fileVals d f.toD).flatten := by
  obtain ⟨items, σ', hr, hc, _, _⟩ := literal_split_invariance hd hgb f h limit hlim fuel hfuel sched hok hw hsize hfd
  refine ⟨items, σ', hr, ?_⟩
  rw [← itemNums_canon, hc, ← literal_canon_complete f limit hlim, itemNums_canon, C04l.file_nums f limit hlim]

/-- **`free_compressed_memory` only shifts `bit_idx` by a multiple of 64**: on every state the API can reach from
`Decompressor::default()` it answers `Ok`, leaves flags, body decompressor and `terminated` as they are, `bit_idx`
drops to its remainder modulo 64 (so by `64 * (bit_idx / 64)`), and the bits from `bit_idx` on are the same bits -/
theorem literal_free_only_shifts (hd : d ∈ Frozen.dtypes) (hgb : ∀ x, gb x ≤ d.uBits) (ops : List DOp)
    (hops : ∀ op ∈ ops, OpOk op) (hsize : 128 * histWords ops + 2 ^ 36 < USIZE) :
    (DecompLit.free (litRun gb d ops LitSt.init)).1 = .ok () ∧
    (DecompLit.free (litRun gb d ops LitSt.init)).2.state
      = { (litRun gb d ops LitSt.init).state with bitIdx := (litRun gb d ops LitSt.init).state.bitIdx % 64 } ∧
    DecompLit.bitIdx (DecompLit.free (litRun gb d ops LitSt.init)).2
        + 64 * (DecompLit.bitIdx (litRun gb d ops LitSt.init) / 64)
      = DecompLit.bitIdx (litRun gb d ops LitSt.init) ∧
    (DecompLit.free (litRun gb d ops LitSt.init)).2.words.toBits.drop
        (DecompLit.free (litRun gb d ops LitSt.init)).2.state.bitIdx
      = (litRun gb d ops LitSt.init).words.toBits.drop (litRun gb d ops LitSt.init).state.bitIdx := by
  obtain ⟨hs, _⟩ := reach_sim hd hgb ops hops hsize
  refine ⟨(free_refines hs).1, free_state hs, ?_, free_unread hs⟩
  unfold DecompLit.bitIdx
  rw [free_state hs]
  show (litRun gb d ops LitSt.init).state.bitIdx % 64 + _ = _
  omega

/-! ### non-vacuity: `C08d.deltaFile` in four pieces, with `free` and intermediate drains -/

open C08d (i32 gbx i32_mem gbx_le deltaFile)

/-- cuts inside the magic header, inside the chunk metadata, inside the body (between its two bytes) -/
def exSched : List LStep :=
  [.write (deltaFile.take 3), .drain, .write ((deltaFile.drop 3).take 9), .drain, .free,
   .write ((deltaFile.drop 12).take 28), .drain, .free, .drain, .write (deltaFile.drop 40), .free, .drain, .drain]

example : ∃ items σ', DecompLit.runSched gbx i32 2 20 exSched LitSt.init [] = (items, none, σ') ∧
    DecompLit.canon items = [.flags deltaFlags, .chunkMetadata (RMeta.ofSpec deltaFlags deltaChunk.fixedMeta),
      .numbers [5, 4, 4, 8, 9, 13], .footer] ∧
    σ'.state.terminated = true ∧ σ'.state.bitIdx = σ'.words.total := by
  have := literal_split_invariance i32_mem gbx_le deltaAFile deltaAFile_wf 2 (by decide) 20 (by decide) exSched
    (by decide) (by rw [deltaAFile_bytes]; decide) (by decide)
    ⟨[.write (deltaFile.take 3), .drain, .write ((deltaFile.drop 3).take 9), .drain, .free,
      .write ((deltaFile.drop 12).take 28), .drain, .free, .drain, .write (deltaFile.drop 40), .free], [.drain], rfl, rfl⟩
  have hc : DecompLit.canonItems i32 deltaAFile = [.flags deltaFlags,
      .chunkMetadata (RMeta.ofSpec deltaFlags deltaChunk.fixedMeta), .numbers [5, 4, 4, 8, 9, 13], .footer] := by
    decide
  rw [hc] at this
  exact this

-- the literal model computes the same (evaluation): the batches are cut differently, the canonical form is the same
#guard (DecompLit.runSched gbx i32 2 20 exSched LitSt.init []).1 ==
  [.flags deltaFlags, .chunkMetadata (RMeta.ofSpec deltaFlags deltaChunk.fixedMeta), .numbers [5, 4], .numbers [4],
   .numbers [8, 9], .numbers [13], .footer]
#guard DecompLit.canon (DecompLit.runSched gbx i32 2 20 exSched LitSt.init []).1 == DecompLit.canonItems i32 deltaAFile
#guard (DecompLit.runSched gbx i32 2 20 exSched LitSt.init []).2.1 == none
-- `free` really dropped words: 336 bits written, 4 words (256 bits) freed on the way, `bit_idx` ends at 336 - 256 = 80
#guard (DecompLit.runSched gbx i32 2 20 exSched LitSt.init []).2.2.state.bitIdx == 80
#guard (DecompLit.runSched gbx i32 2 20 exSched LitSt.init []).2.2.words.ws.length == 2

end C05l
end Qco
