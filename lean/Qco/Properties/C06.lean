/-
C06 — truncated input is reported as *insufficient data*: never decoded to numbers, never any
other error kind, and the decompressor state is left unchanged. Property theorems only.

The compressed input reaches the decompressor through `Write::write`, i.e. in whole bytes; the main
theorem is about every strict prefix of a well-formed file that is a whole number of bytes. For
prefixes cut *inside* a byte (which the API cannot deliver) the specification decoder still says
`insufficient` (`spec_truncated`), while the operational decoder may say `corrupt` when the cut
falls into the zero padding that ends a chunk body (`drain_empty_byte` skips the padding bits
without checking that they exist and then finds the body size wrong): `bit_cut_counterexample`.
Even then the result is never `ok` (`truncation_never_ok`).
-/
import Qco.Lemmas.Refine
import Qco.Properties.C03
namespace Qco
namespace C06
open Parser Op

/-- the hypotheses are satisfiable: the eager matcher of the specification is a `LazyOf` matcher -/
theorem eager_lazyOf : Op.LazyOf Op.eagerMatcher := Op.eager_lazyOf
theorem eager_weakLazyOf : Op.WeakLazyOf Op.eagerMatcher := Op.eager_lazyOf.weak

/-- S2 for files: every strict prefix of a well-formed file, cut at *any bit*, is `insufficient`
for the specification decoder -/
theorem spec_truncated (gb : Nat → Nat) (d : DType) (f : AFile) (h : f.WF gb d) (s : Bits)
    (hs : s <+: encodeFile gb d f) (hne : s ≠ encodeFile gb d f) :
    decodeFile gb d s = .insufficient :=
  decodeFile_truncated gb d f h s hs hne

/-- **truncation is reported as insufficient data**: `simple_decompress` on any strict prefix of a
well-formed file that is a whole number of bytes, for every `WeakLazyOf` Huffman lookup (no prefix-safety of the lookup is assumed) -/
theorem truncation_insufficient (L : Op.Matcher) (hL : Op.WeakLazyOf L) (gb : Nat → Nat) (d : DType)
    (f : AFile) (h : f.WF gb d) (s : Bits) (hs : s <+: encodeFile gb d f) (hne : s ≠ encodeFile gb d f)
    (hbytes : s.length % 8 = 0) :
    (Op.simpleDecompress L gb d (Op.write Op.St.init s)).1 = .err .insufficient :=
  Op.simple_insufficient L hL gb d s hbytes (decodeFile_truncated gb d f h s hs hne)

/-- the byte-granular form: the first `k` bytes of a file of more than `k` bytes -/
theorem truncation_insufficient_bytes (L : Op.Matcher) (hL : Op.WeakLazyOf L) (gb : Nat → Nat) (d : DType)
    (f : AFile) (h : f.WF gb d) (k : Nat) (hk : 8 * k < (encodeFile gb d f).length) :
    (Op.simpleDecompress L gb d (Op.write Op.St.init ((encodeFile gb d f).take (8 * k)))).1
      = .err .insufficient := by
  apply truncation_insufficient L hL gb d f h
  · exact List.take_prefix _ _
  · intro heq
    have := congrArg List.length heq
    simp only [List.length_take] at this
    omega
  · simp only [List.length_take]; omega

/-- … and the decompressor state is unchanged by the failed call (the caller can write more data
and call again) -/
theorem truncation_state_unchanged (L : Op.Matcher) (hL : Op.WeakLazyOf L) (gb : Nat → Nat) (d : DType)
    (f : AFile) (h : f.WF gb d) (s : Bits) (hs : s <+: encodeFile gb d f) (hne : s ≠ encodeFile gb d f)
    (hbytes : s.length % 8 = 0) :
    Op.simpleDecompress L gb d (Op.write Op.St.init s) = (.err .insufficient, Op.write Op.St.init s) := by
  have h1 := truncation_insufficient L hL gb d f h s hs hne hbytes
  have h2 := Op.simple_err_state L gb d _ _ h1
  exact Prod.ext h1 h2

/-- at bit granularity: `insufficient`, or `corrupt` for a cut inside a byte; never `ok`, never
another kind; the state is unchanged -/
theorem truncation_never_ok (L : Op.Matcher) (hL : Op.WeakLazyOf L) (gb : Nat → Nat) (d : DType)
    (f : AFile) (h : f.WF gb d) (s : Bits) (hs : s <+: encodeFile gb d f) (hne : s ≠ encodeFile gb d f) :
    Op.simpleDecompress L gb d (Op.write Op.St.init s) = (.err .insufficient, Op.write Op.St.init s) ∨
      (s.length % 8 ≠ 0 ∧
        Op.simpleDecompress L gb d (Op.write Op.St.init s) = (.err .corrupt, Op.write Op.St.init s)) := by
  rcases Op.simple_insufficient_bits L hL gb d s (decodeFile_truncated gb d f h s hs hne) with h1 | ⟨h0, h1⟩
  · exact Or.inl (Prod.ext h1 (Op.simple_err_state L gb d _ _ h1))
  · exact Or.inr ⟨h0, Prod.ext h1 (Op.simple_err_state L gb d _ _ h1)⟩

/-- more generally, for any input (not only prefixes of well-formed files): whenever the
specification decoder needs more data, so does the operational one, on whole-byte inputs -/
theorem insufficient_refines (L : Op.Matcher) (hL : Op.WeakLazyOf L) (gb : Nat → Nat) (d : DType)
    (s : Bits) (hbytes : s.length % 8 = 0) (h : decodeFile gb d s = .insufficient) :
    Op.simpleDecompress L gb d (Op.write Op.St.init s) = (.err .insufficient, Op.write Op.St.init s) := by
  have h1 := Op.simple_insufficient L hL gb d s hbytes h
  exact Prod.ext h1 (Op.simple_err_state L gb d _ _ h1)

/-! ### a concrete well-formed file: the theorems are not vacuous, and the whole-byte hypothesis of
`truncation_insufficient` cannot be dropped -/

def exU32 : DType := { name := "u32", headerByte := 4, physBits := 32, uBits := 32, kind := .uint, pps := 0 }
def exFlags : Flags := ⟨false, 0, false, false⟩
def exPrefix (code : Bits) (v : Nat) : Prefix :=
  { count := 1, lower := v, upper := v, code := code, jump := none, gcd := 1 }
/-- one chunk, one number (7), two one-bit codes: the body is 1 bit and 7 bits of padding -/
def exChunk : AChunk :=
  { cm := { n := 1, bodyBytes := 0, moments := [], commonGcd := none,
            prefixes := [exPrefix [false] 5, exPrefix [true] 7] },
    blocks := [.one 1 0] }
def exFile : AFile := { flags := exFlags, chunks := [exChunk] }
def exGb : Nat → Nat := fun _ => 0

set_option maxRecDepth 100000

theorem exU32_ok : exU32.Ok := by
  refine ⟨by decide, by decide, ?_, ?_⟩
  · intro u hu
    simp only [DType.uValid, exU32, DType.M] at hu
    simp only [DType.uToRaw, DType.fromU, exU32]
    exact hu
  · intro u hu
    simp only [DType.uToRaw, DType.fromU, DType.rawToU, DType.toU, exU32]

theorem exU32_signed_ok : exU32.signed.Ok := by
  refine ⟨by decide, by decide, ?_, ?_⟩
  · intro u hu
    simp only [DType.uValid, exU32, DType.signed, DType.M] at hu
    simp only [DType.uToRaw, DType.fromU, exU32, DType.signed, DType.M, DType.H]
    omega
  · intro u hu
    simp only [DType.uValid, exU32, DType.signed, DType.M] at hu
    simp only [DType.uToRaw, DType.fromU, DType.rawToU, DType.toU, exU32, DType.signed, DType.M, DType.H]
    simp only [Option.some.injEq]
    omega

theorem exPrefix_WF (code : Bits) (v : Nat) (hc : code.length < 16) (hv : v < 2 ^ 32) :
    (exPrefix code v).WF exGb (prefDType exU32 exFlags) exFlags 1 (some 1) := by
  refine ⟨?_, ?_, ?_, Nat.le_refl _, ?_, ?_, Nat.le_refl _, ?_⟩
  · show 1 < 2 ^ 24; decide
  · simpa [DType.uValid, prefDType, exFlags, exU32, DType.M, exPrefix] using hv
  · simpa [DType.uValid, prefDType, exFlags, exU32, DType.M, exPrefix] using hv
  · simpa [exPrefix, Flags.codeLenBits, exFlags] using hc
  · intro j hj; simp [exPrefix] at hj
  · simp [exFlags, exPrefix]

theorem exFile_WF : exFile.WF exGb exU32 := by
  refine ⟨exU32_ok, exU32_ok, exU32_signed_ok, by decide, ?_⟩
  intro c hc
  have : c = exChunk := by simpa [exFile] using hc
  subst this
  refine ⟨by decide, by decide, ?_, by decide, trivial, ?_, Or.inr (by decide), ?_, ?_, by decide, by decide⟩
  · intro m hm; simp [exChunk] at hm
  · intro p hp
    have : p = exPrefix [false] 5 ∨ p = exPrefix [true] 7 := by simpa [exChunk] using hp
    rcases this with rfl | rfl
    · exact exPrefix_WF _ _ (by decide) (by decide)
    · exact exPrefix_WF _ _ (by decide) (by decide)
  · intro h; simp [exChunk] at h
  · intro b hb
    have : b = Block.one 1 0 := by simpa [exChunk] using hb
    subst this
    unfold Block.WF
    decide

/-- the file is 42 bytes and decodes to `[7]` -/
example : (encodeFile exGb exU32 exFile).length = 336 := by decide

example : (Op.simpleDecompress Op.eagerMatcher exGb exU32 (Op.write Op.St.init (encodeFile exGb exU32 exFile))).1
    = .ok [7] := by
  have := C03.reader_total_on_format Op.eagerMatcher eager_weakLazyOf exGb exU32 exFile exFile_WF
  rw [this]
  have hv : (fileVals exU32 exFile.toD).flatten = [7] := by decide
  rw [hv]

/-- every proper whole-byte prefix is `insufficient` (instance of the theorem) -/
example (k : Nat) (hk : k < 42) :
    (Op.simpleDecompress Op.eagerMatcher exGb exU32
      (Op.write Op.St.init ((encodeFile exGb exU32 exFile).take (8 * k)))).1 = .err .insufficient := by
  apply truncation_insufficient_bytes Op.eagerMatcher eager_weakLazyOf exGb exU32 exFile exFile_WF
  have : (encodeFile exGb exU32 exFile).length = 336 := by decide
  omega

/-- the error of a result, if any (`Out` has no decidable equality) -/
def errOf {α : Type} : Op.Out α → Option Op.Err
  | .ok _ => none
  | .err e => some e

/-- cut inside the last byte of the chunk body (324 of 336 bits: the body's one data bit, three of
its seven padding bits): the specification decoder says `insufficient`, the operational decoder
says `corrupt`. So `truncation_insufficient` does not hold at bit granularity. -/
theorem bit_cut_counterexample :
    decodeFile exGb exU32 ((encodeFile exGb exU32 exFile).take 324) = .insufficient ∧
    errOf (Op.simpleDecompress Op.eagerMatcher exGb exU32
      (Op.write Op.St.init ((encodeFile exGb exU32 exFile).take 324))).1 = some .corrupt := by
  constructor
  · apply spec_truncated exGb exU32 exFile exFile_WF
    · exact List.take_prefix _ _
    · intro heq
      have := congrArg List.length heq
      have hl : (encodeFile exGb exU32 exFile).length = 336 := by decide
      simp only [List.length_take, hl] at this
      omega
  · decide

end C06
end Qco
