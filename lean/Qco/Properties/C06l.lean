/-
C06l — truncated input is reported as `InsufficientData` by the LITERAL decompressor, and the failed call leaves
the decompressor exactly as it was.

C06 restated for `Qco.DecompLit` (`Qco/Op/DecompLit.lean`), the statement-level model of `Decompressor<T>` over
64-bit word buffers.  The theorems are about `DecompLit.write` and `DecompLit.simpleDecompress`; the abstract
decompressor (C06, C06s), the refinement layer DL (C08d) and the atomicity of the literal `simple_decompress`
(`Qco/Lemmas/LitCor/Atomic.lean`, headline in C08l) appear only in the proofs.

What is written are bytes, so the truncations are the strict byte-prefixes of `fileBytes gb d f` (the bytes of
`encodeFile gb d f`).  "The state is unchanged" is the equality of the whole literal decompressor: the words, `bit_idx`,
the flags, the body decompressor, `terminated` — this is the snapshot/restore of `simple_decompress` together with the
fact that no call inside it touches the words.

Hypotheses that remain: `d ∈ Frozen.dtypes`, `f.WF gb d`, `∀ x, gb x ≤ d.uBits`, and the file is shorter than `2^56`
bytes (the size side-condition of layer DL).  Property theorems only.
-/
import Qco.Lemmas.LitCor.Examples
import Qco.Lemmas.LitCor.Atomic
import Qco.Properties.C06s
import Qco.Properties.C03s
namespace Qco
namespace C06l
open Qco.WB Qco.Op Qco.MetaIO Qco.DecompLit

variable {d : DType} {gb : Nat → Nat}

/-- **truncation is reported as insufficient data, and nothing changes**: write any strict prefix `bs` of the bytes
of a well-formed file into `Decompressor::default()` and call `simple_decompress`: the answer is
`Err(InsufficientData)` — never numbers, never another error kind — and the decompressor is exactly as before the
call. -/
theorem literal_truncation_insufficient (hd : d ∈ Frozen.dtypes) (hgb : ∀ x, gb x ≤ d.uBits) (f : AFile)
    (h : f.WF gb d) (hlen : (fileBytes gb d f).length < 2 ^ 56)
    (bs : List Nat) (hpre : bs <+: fileBytes gb d f) (hne : bs ≠ fileBytes gb d f) :
    DecompLit.simpleDecompress gb d (DecompLit.write LitSt.init bs)
      = (.err "InsufficientData", DecompLit.write LitSt.init bs) := by
  obtain ⟨tl, htl⟩ := hpre
  have hb : ∀ b ∈ bs, b < 256 := fun b hb => fileBytes_lt (gb := gb) (d := d) (f := f) b (by rw [← htl]; simp [hb])
  have hbits : bytesBits bs ++ bytesBits tl = encodeFile gb d f := by
    rw [← bytesBits_append, htl, fileBytes_bits h]
  have hl : bs.length < (fileBytes gb d f).length := by
    have : tl ≠ [] := by
      intro e; rw [e, List.append_nil] at htl; exact hne htl
    have := List.length_pos_iff.mpr this
    rw [← htl, List.length_append]; omega
  have habs := C06.truncation_insufficient_stride gb d f h (bytesBits bs) ⟨_, hbits⟩
    (by
      intro e
      have := congrArg List.length e
      rw [bytesBits_length, ← fileBytes_length h] at this
      omega)
    (by rw [bytesBits_length]; omega)
  have r := (simpleDecompress_refines (dok_of_mem hd) hgb (sim_written d bs hb)
    (size_written d bs hb (by omega))).1
  rw [habs] at r
  have e1 := r.err_insufficient
  exact Prod.ext e1 (simpleDecompress_err_unchanged gb d _ _ e1)

/-- the same for the first `k` bytes of a file of more than `k` bytes -/
theorem literal_truncation_insufficient_take (hd : d ∈ Frozen.dtypes) (hgb : ∀ x, gb x ≤ d.uBits) (f : AFile)
    (h : f.WF gb d) (hlen : (fileBytes gb d f).length < 2 ^ 56) (k : Nat) (hk : k < (fileBytes gb d f).length) :
    DecompLit.simpleDecompress gb d (DecompLit.write LitSt.init ((fileBytes gb d f).take k))
      = (.err "InsufficientData", DecompLit.write LitSt.init ((fileBytes gb d f).take k)) := by
  apply literal_truncation_insufficient hd hgb f h hlen _ (List.take_prefix _ _)
  intro e
  have := congrArg List.length e
  rw [List.length_take] at this
  omega

/-- **… so the caller can write the rest and call again**: after the failed call on the first `k` bytes, writing
the remaining bytes and calling `simple_decompress` again answers the numbers of the file -/
theorem literal_truncation_then_rest (hd : d ∈ Frozen.dtypes) (hgb : ∀ x, gb x ≤ d.uBits) (f : AFile)
    (h : f.WF gb d) (hlen : (fileBytes gb d f).length < 2 ^ 56) (k : Nat) (hk : k < (fileBytes gb d f).length) :
    (DecompLit.simpleDecompress gb d
      (DecompLit.write
        (DecompLit.simpleDecompress gb d (DecompLit.write LitSt.init ((fileBytes gb d f).take k))).2
        ((fileBytes gb d f).drop k))).1
      = .ok (fileVals d f.toD).flatten := by
  rw [literal_truncation_insufficient_take hd hgb f h hlen k hk]
  have hb : ∀ p ∈ [(fileBytes gb d f).take k, (fileBytes gb d f).drop k], ∀ b ∈ p, b < 256 := by
    intro p hp b hb
    simp only [List.mem_cons, List.not_mem_nil, or_false] at hp
    rcases hp with rfl | rfl
    · exact fileBytes_lt b (List.mem_of_mem_take hb)
    · exact fileBytes_lt b (List.mem_of_mem_drop hb)
  have hfl : [(fileBytes gb d f).take k, (fileBytes gb d f).drop k].flatten = fileBytes gb d f := by simp
  obtain ⟨hs, hz⟩ := pieces_sim d [(fileBytes gb d f).take k, (fileBytes gb d f).drop k] hb (by rw [hfl]; exact hlen)
  have r := (simpleDecompress_refines (dok_of_mem hd) hgb hs hz).1
  rw [hfl, fileBytes_bits h, C03.reader_total_stride gb d f h] at r
  exact r.ok_eq

/-- more generally, for any bytes (not only prefixes of well-formed files): whenever the specification decoder
needs more data on the bits of the bytes written, the literal `simple_decompress` answers `InsufficientData` and
changes nothing -/
theorem literal_insufficient_refines (hd : d ∈ Frozen.dtypes) (hgb : ∀ x, gb x ≤ d.uBits) (bs : List Nat)
    (hb : ∀ b ∈ bs, b < 256) (hlen : bs.length < 2 ^ 56) (h : decodeFile gb d (bytesBits bs) = .insufficient) :
    DecompLit.simpleDecompress gb d (DecompLit.write LitSt.init bs)
      = (.err "InsufficientData", DecompLit.write LitSt.init bs) := by
  have habs := Op.simple_insufficient matchStride matchStride_weakLazyOf gb d (bytesBits bs)
    (by rw [bytesBits_length]; omega) h
  have r := (simpleDecompress_refines (dok_of_mem hd) hgb (sim_written d bs hb) (size_written d bs hb hlen)).1
  rw [habs] at r
  have e1 := r.err_insufficient
  exact Prod.ext e1 (simpleDecompress_err_unchanged gb d _ _ e1)

/-! ### non-vacuity: every truncation of `C08d.deltaFile` -/

open C08d (i32 gbx i32_mem gbx_le deltaFile)

/-- each of the 42 strict prefixes of `deltaFile` (cut inside the magic header, the flags, the chunk metadata, a
Huffman code, an offset, the padding, before the termination byte): `InsufficientData`, state unchanged -/
example (k : Nat) (hk : k < 42) :
    DecompLit.simpleDecompress gbx i32 (DecompLit.write LitSt.init (deltaFile.take k))
      = (.err "InsufficientData", DecompLit.write LitSt.init (deltaFile.take k)) := by
  have := literal_truncation_insufficient_take i32_mem gbx_le deltaAFile deltaAFile_wf deltaFile_small k
    (by rw [deltaAFile_bytes]; exact hk)
  rw [deltaAFile_bytes] at this
  exact this

example : (DecompLit.simpleDecompress gbx i32
      (DecompLit.write (DecompLit.simpleDecompress gbx i32 (DecompLit.write LitSt.init (deltaFile.take 30))).2
        (deltaFile.drop 30))).1 = .ok [5, 4, 4, 8, 9, 13] := by
  have := literal_truncation_then_rest i32_mem gbx_le deltaAFile deltaAFile_wf deltaFile_small 30
    (by rw [deltaAFile_bytes]; decide)
  rw [deltaAFile_bytes, deltaAFile_vals] at this
  exact this

-- the literal model computes the same (evaluation), for every cut
#guard (List.range 42).all fun k =>
  (DecompLit.simpleDecompress gbx i32 (DecompLit.write LitSt.init (deltaFile.take k))).1 == .err "InsufficientData"
#guard (List.range 42).all fun k =>
  (DecompLit.simpleDecompress gbx i32 (DecompLit.write LitSt.init (deltaFile.take k))).2.state.bitIdx == 0
#guard (DecompLit.simpleDecompress gbx i32
      (DecompLit.write (DecompLit.simpleDecompress gbx i32 (DecompLit.write LitSt.init (deltaFile.take 30))).2
        (deltaFile.drop 30))).1 == .ok [5, 4, 4, 8, 9, 13]

end C06l
end Qco
