/-
C06 instantiated for the model of the real Huffman lookup (`Op.matchStride`).
-/
import Qco.Properties.C06
import Qco.Lemmas.Stride
namespace Qco
namespace C06
open Op

/-- every strict byte prefix of a well-formed file is InsufficientData for the decoder with the real lookup -/
theorem truncation_insufficient_stride (gb : Nat → Nat) (d : DType) (f : AFile) (h : f.WF gb d) (s : Bits)
    (hs : s <+: encodeFile gb d f) (hne : s ≠ encodeFile gb d f) (hbytes : s.length % 8 = 0) :
    (simpleDecompress matchStride gb d (write St.init s)).1 = .err .insufficient :=
  truncation_insufficient matchStride matchStride_weakLazyOf gb d f h s hs hne hbytes

end C06
end Qco
